import KyberModel.Proto.Share
import KyberModel.Lib.ShareCast
import KyberModel.Lib.Lagrange
import Mathlib.Tactic.NormNum.Prime
/-
C07 — Shamir sharing: any t valid shares reconstruct; commitments bind shares.

Property theorems about the executable model `Kyber.Share` (Proto/Share.lean, the same definitions
the driver runs). `q` is the (prime) group order; polynomials are connected to Mathlib's
`(ZMod q)[X]` through `toPoly` (Lib/ShareCast.lean). A share slice `l : List (Option Share)` is
arbitrary: any order, `none` = nil entry, `V = none` = nil value, surplus entries, repeated entries.

Hypotheses on a slice:
* `OnCurve q f l` : every usable entry has an admissible index (`I+1 < 2^32`, `I+1 < q`) and a value
  representing `f(I+1)`; `OnPoly q cs l` : the values are literally `Eval` of the coefficient list.
  (Index `2^32-1` is outside: there `Eval` uses `x = 2^32` while recovery uses `uint32(idx+1) = 0`.)
* "at least / fewer than `t` distinct usable indices" is `(validIdx l).toFinset.card`.
-/
namespace Kyber.Share
open Polynomial Kyber.Scalar

variable {q : Nat}

/-! ### Evaluation, addition, multiplication, commitment -/

/-- `PriPoly.Eval(i)` is the polynomial value at `i+1`, reduced. -/
theorem eval_spec (hq : 0 < q) (p : Poly) (i : Nat) :
    (eval q p i).I = i ∧ ∃ v, (eval q p i).V = some v ∧ v < q ∧
      ((v : Nat) : ZMod q) = (toPoly q p).eval ((i : ZMod q) + 1) :=
  ⟨rfl, _, rfl, evalAt_lt hq _ _, by rw [evalAt_cast, xEval_cast]⟩

/-- `PubPoly.Eval(i)` of `p.Commit(b)` is the commitment `Mul(p.Eval(i).V, b)` of private share `i`. -/
theorem pubEval_commit (hq : 0 < q) (p : Poly) (b : Option Nat) (x : Nat) :
    pubEvalAt q (commit q p b) x = mul q (evalAt q p x) (baseLog b) := by
  rw [pubEvalAt_eq_evalAt]
  apply (eq_iff_cast_eq _ _ (evalAt_lt hq _ _) (mul_lt hq _ _)).mpr
  rw [evalAt_cast, toPoly_commit, mul_cast, evalAt_cast]
  simp [mul_comm]

/-- `Eval` is additive: shares of `p.Add(r)` are sums of shares. -/
theorem eval_add (hq : 0 < q) {p r s : Poly} (h : polyAdd q p r = some s) (x : Nat) :
    evalAt q s x = add q (evalAt q p x) (evalAt q r x) := by
  unfold polyAdd at h
  split at h
  · cases h
  · next hlen =>
    have hlen : p.length = r.length := by simpa using hlen
    cases h
    apply (eq_iff_cast_eq _ _ (evalAt_lt hq _ _) (add_lt hq _ _)).mpr
    rw [evalAt_cast, toPoly_zipWith_add _ _ hlen, add_cast, evalAt_cast, evalAt_cast, Polynomial.eval_add]

/-- `Add` fails exactly on different thresholds. -/
theorem polyAdd_eq_none_iff (p r : Poly) : polyAdd q p r = none ↔ p.length ≠ r.length := by
  unfold polyAdd; split <;> simp_all

/-- `Eval` is multiplicative: `p.Mul(r)` evaluates to the product, and has `len p + len r - 1` coefficients. -/
theorem eval_mul (hq : 0 < q) (p r : Poly) (h : 0 < p.length + r.length) (x : Nat) :
    evalAt q (polyMul q p r) x = mul q (evalAt q p x) (evalAt q r x) ∧
      (polyMul q p r).length = p.length + r.length - 1 := by
  refine ⟨?_, polyMul_length p r⟩
  apply (eq_iff_cast_eq _ _ (evalAt_lt hq _ _) (mul_lt hq _ _)).mpr
  rw [evalAt_cast, toPoly_polyMul _ _ h, mul_cast, evalAt_cast, evalAt_cast, Polynomial.eval_mul]

/-- `PriPoly.Mul` is polynomial multiplication. -/
theorem polyMul_spec (p r : Poly) (h : 0 < p.length + r.length) :
    toPoly q (polyMul q p r) = toPoly q p * toPoly q r := toPoly_polyMul p r h

/-- `Commit` is additive: `p.Add(r).Commit(b) = p.Commit(b).Add(r.Commit(b))`. -/
theorem commit_add (hq : 0 < q) {p r s : Poly} (b : Option Nat) (h : polyAdd q p r = some s) :
    polyAdd q (commit q p b) (commit q r b) = some (commit q s b) := by
  unfold polyAdd at h
  split at h
  · cases h
  · next hlen =>
    have hlen : p.length = r.length := by simpa using hlen
    cases h
    have hl2 : (commit q p b).length = (commit q r b).length := by simp [commit, hlen]
    simp only [polyAdd, hl2, ne_eq, not_true_eq_false, if_false, Option.some.injEq]
    have hr : ∀ c ∈ commit q (List.zipWith (add q) p r) b, c < q := map_mul_lt hq _ _
    apply toPoly_injective (q := q) (by simp [commit, hlen]) (zipWith_add_lt hq _ _) hr
    rw [toPoly_zipWith_add _ _ hl2, toPoly_commit, toPoly_commit, toPoly_commit, toPoly_zipWith_add _ _ hlen]
    ring

/-- `Check` accepts a share exactly when it lies on the committed polynomial (base of prime order,
    i.e. non-zero discrete log; `b = none` is the standard base). -/
theorem check_iff [Fact q.Prime] (p : Poly) (b : Option Nat) (hb : ((baseLog b : Nat) : ZMod q) ≠ 0) (i v : Nat) :
    check q (commit q p b) b i v = true ↔ ((v : Nat) : ZMod q) = (toPoly q p).eval ((i : ZMod q) + 1) := by
  have hq : 0 < q := (Fact.out : q.Prime).pos
  rw [check, beq_iff_eq, pubEval_commit hq,
    eq_iff_cast_eq _ _ (mul_lt hq _ _) (mul_lt hq _ _), mul_cast, mul_cast, evalAt_cast, xEval_cast]
  constructor
  · intro h; exact (mul_right_cancel₀ hb h).symm
  · intro h; rw [h]

/-- `Check` on reduced values: accepted iff the value is the one `Eval` produces. -/
theorem check_iff_eval [Fact q.Prime] (p : Poly) (b : Option Nat) (hb : ((baseLog b : Nat) : ZMod q) ≠ 0)
    (i v : Nat) (hv : v < q) :
    check q (commit q p b) b i v = true ↔ (eval q p i).V = some v := by
  have hq : 0 < q := (Fact.out : q.Prime).pos
  rw [check_iff p b hb, eval, Option.some.injEq, eq_comm,
    eq_iff_cast_eq _ _ (evalAt_lt hq _ _) hv, evalAt_cast, xEval_cast, eq_comm]

/-! ### Which shares the recovery functions use -/

/-- The map built by `xyScalar`/`xyCommit` has pairwise distinct keys, each taken from a usable entry
    of the slice; it has exactly `t` entries when the slice has at least `t ≥ 1` distinct usable indices, and
    fewer than `t` otherwise. -/
theorem xy_spec (l : List (Option Share)) (t : Nat) (ht : 1 ≤ t) :
    (keys (xy l t)).Nodup ∧ (∀ e ∈ xy l t, ∃ s, some s ∈ l ∧ s.I = e.1 ∧ s.V = some e.2) ∧
      (t ≤ (validIdx l).toFinset.card → (xy l t).length = t) ∧
      ((validIdx l).toFinset.card < t → (xy l t).length < t) :=
  ⟨xy_nodup l t, fun _ he => xy_mem he, xy_length_eq ht, xy_length_lt⟩

/-! ### RecoverSecret -/

/-- Fewer than `t` distinct usable shares are refused, and only then. -/
theorem recoverSecret_eq_none_iff (l : List (Option Share)) (t : Nat) (ht : 1 ≤ t) :
    recoverSecret q l t = none ↔ (validIdx l).toFinset.card < t := by
  unfold recoverSecret
  simp only
  constructor
  · intro h
    by_contra hc
    have := xy_length_eq ht (not_lt.mp hc)
    simp [this] at h
  · intro h
    simp [xy_length_lt h]

/-- Any slice containing at least `t` distinct shares of a polynomial of degree `< t` — in any order,
    with nil entries, surplus and repeated shares — reconstructs `f(0)`. -/
theorem recoverSecret_eq_of_onCurve [Fact q.Prime] (hq2 : 2 < q) (f : (ZMod q)[X]) (t : Nat) (ht : 1 ≤ t)
    (hdeg : f.degree < t) (l : List (Option Share)) (hon : OnCurve q f l)
    (hcnt : t ≤ (validIdx l).toFinset.card) :
    ∃ r, recoverSecret q l t = some r ∧ r < q ∧ ((r : Nat) : ZMod q) = f.coeff 0 := by
  have hlen := xy_length_eq ht hcnt
  refine ⟨(xy l t).foldl (fun acc e => add q acc (secretTerm q (xy l t) e)) (zero q),
    by unfold recoverSecret; simp only [hlen, lt_irrefl, if_false], ?_, ?_⟩
  · exact foldl_add_lt (by omega) _ _ _ (by simp [zero]; omega)
  · rw [secretSum_cast hq2 (xy l t) f (xy_nodup l t) (xy_inj_of_onCurve hon t)
      (fun e he => (xy_cons_of_onCurve hon t e he).2) (by rw [hlen]; exact hdeg), coeff_zero_eq_eval_zero]

/-- `RecoverSecret` returns the dealer's secret `p.coeffs[0]`. -/
theorem recoverSecret_eq [Fact q.Prime] (hq2 : 2 < q) (cs : Poly) (t : Nat) (ht : 1 ≤ t) (hlen : cs.length ≤ t)
    (l : List (Option Share)) (hon : OnPoly q cs l) (hcnt : t ≤ (validIdx l).toFinset.card) :
    recoverSecret q l t = some (cs.headD 0 % q) := by
  obtain ⟨r, h1, h2, h3⟩ := recoverSecret_eq_of_onCurve hq2 (toPoly q cs) t ht
    (lt_of_lt_of_le (toPoly_degree_lt cs) (by exact_mod_cast hlen)) l hon.onCurve hcnt
  rw [h1, Option.some.injEq]
  apply (eq_iff_cast_eq _ _ h2 (Nat.mod_lt _ (by omega))).mpr
  rw [h3, toPoly_coeff_zero, ZMod.natCast_mod]

/-! ### RecoverCommit -/

theorem recoverCommit_eq_none_iff (l : List (Option Share)) (t : Nat) (ht : 1 ≤ t) :
    recoverCommit q l t = none ↔ (validIdx l).toFinset.card < t := by
  unfold recoverCommit
  simp only
  constructor
  · intro h
    by_contra hc
    have := xy_length_eq ht (not_lt.mp hc)
    simp [this] at h
  · intro h
    simp [xy_length_lt h]

/-- `RecoverCommit` on public shares lying on a committed polynomial (discrete logs `f(I+1)`) returns
    the discrete log `f(0)` of the secret commitment. -/
theorem recoverCommit_eq_of_onCurve [Fact q.Prime] (hq2 : 2 < q) (f : (ZMod q)[X]) (t : Nat) (ht : 1 ≤ t)
    (hdeg : f.degree < t) (l : List (Option Share)) (hon : OnCurve q f l)
    (hcnt : t ≤ (validIdx l).toFinset.card) :
    ∃ r, recoverCommit q l t = some r ∧ r < q ∧ ((r : Nat) : ZMod q) = f.coeff 0 := by
  have hlen := xy_length_eq ht hcnt
  refine ⟨(xy l t).foldl (fun acc e => add q acc (commitTerm q (xy l t) e)) 0,
    by unfold recoverCommit; simp only [hlen, lt_irrefl, if_false], ?_, ?_⟩
  · exact foldl_add_lt (by omega) _ _ _ (by omega)
  · rw [commitSum_cast hq2 (xy l t) f (xy_nodup l t) (xy_inj_of_onCurve hon t)
      (fun e he => (xy_cons_of_onCurve hon t e he).2) (by rw [hlen]; exact hdeg), coeff_zero_eq_eval_zero]

/-- `RecoverCommit` of public shares of the commitment polynomial `cs` returns `cs[0]`. -/
theorem recoverCommit_eq [Fact q.Prime] (hq2 : 2 < q) (cs : Poly) (t : Nat) (ht : 1 ≤ t) (hlen : cs.length ≤ t)
    (l : List (Option Share)) (hon : OnPoly q cs l) (hcnt : t ≤ (validIdx l).toFinset.card) :
    recoverCommit q l t = some (cs.headD 0 % q) := by
  obtain ⟨r, h1, h2, h3⟩ := recoverCommit_eq_of_onCurve hq2 (toPoly q cs) t ht
    (lt_of_lt_of_le (toPoly_degree_lt cs) (by exact_mod_cast hlen)) l hon.onCurve hcnt
  rw [h1, Option.some.injEq]
  apply (eq_iff_cast_eq _ _ h2 (Nat.mod_lt _ (by omega))).mpr
  rw [h3, toPoly_coeff_zero, ZMod.natCast_mod]

/-- In the exponent: public shares of `p.Commit(b)` recover `Mul(p.Secret(), b)`. -/
theorem recoverCommit_commit [Fact q.Prime] (hq2 : 2 < q) (p : Poly) (b : Option Nat) (t : Nat) (ht : 1 ≤ t)
    (hp : 1 ≤ p.length) (hlen : p.length ≤ t) (l : List (Option Share)) (hon : OnPoly q (commit q p b) l)
    (hcnt : t ≤ (validIdx l).toFinset.card) :
    recoverCommit q l t = some (mul q (p.headD 0) (baseLog b)) := by
  rw [recoverCommit_eq hq2 (commit q p b) t ht (by simpa [commit] using hlen) l hon hcnt]
  cases p with
  | nil => simp at hp
  | cons c p => simp [commit, mul]

/-- The same statement in an arbitrary group: for any module `G` over `ZMod q` (a group of prime order
    `q` written additively) and any `H : G`, the Lagrange coefficients `num/den` the model computes for
    its map, applied to points `Y k = f(k+1) • H`, sum to `f(0) • H`. -/
theorem recoverCommit_in_exponent [Fact q.Prime] (hq2 : 2 < q) {G : Type*} [AddCommGroup G] [Module (ZMod q) G]
    (H : G) (f : (ZMod q)[X]) (t : Nat) (ht : 1 ≤ t) (hdeg : f.degree < t) (l : List (Option Share))
    (hidx : ∀ sh, some sh ∈ l → sh.V ≠ none → IdxOK q sh.I) (hcnt : t ≤ (validIdx l).toFinset.card) :
    ((xy l t).map fun e =>
      (((div q (numDen q (xy l t) e.1 (one q)).1 (numDen q (xy l t) e.1 (one q)).2 : Nat) : ZMod q)) •
        (f.eval ((e.1 : ZMod q) + 1) • H)).sum = f.coeff 0 • H := by
  have hlen := xy_length_eq ht hcnt
  have hok : ∀ e ∈ xy l t, IdxOK q e.1 := by
    intro e he
    obtain ⟨s, hs, h1, h2⟩ := xy_mem he
    exact h1 ▸ hidx s hs (by simp [h2])
  have hinj : ∀ a ∈ keys (xy l t), ∀ b ∈ keys (xy l t), vq q a = vq q b → a = b := by
    intro a ha b hb hab
    obtain ⟨ea, hea, rfl⟩ := List.mem_map.mp ha
    obtain ⟨eb, heb, rfl⟩ := List.mem_map.mp hb
    exact xRec_cast_inj (hok ea hea).1 (hok eb heb).1 (hok ea hea).2 (hok eb heb).2 hab
  rw [coeff_zero_eq_eval_zero, ← Kyber.Lagrange.list_smul_eval_zero H (keys (xy l t)) (xy_nodup l t) (vq q) hinj f
    (by rw [keys_length, hlen]; exact hdeg)]
  simp only [keys, List.map_map]
  apply congrArg
  apply List.map_congr_left
  intro e he
  have h := numDen_cast (by omega : 0 < q) (xy l t) e.1 (one q)
  simp only [Function.comp, div_cast hq2, h.1, h.2, one_cast, one_mul, vq, xRec_cast (hok e he).1, keys]

/-! ### RecoverPriPoly / RecoverPubPoly -/

/-- `RecoverPriPoly` returns the polynomial the shares lie on: every coefficient. -/
theorem recoverPriPoly_eq_of_onCurve [Fact q.Prime] (hq2 : 2 < q) (f : (ZMod q)[X]) (t : Nat) (ht : 1 ≤ t)
    (hdeg : f.degree < t) (l : List (Option Share)) (hon : OnCurve q f l)
    (hcnt : t ≤ (validIdx l).toFinset.card) :
    ∃ r, recoverPriPoly q l t = some r ∧ r.length = t ∧ (∀ c ∈ r, c < q) ∧ toPoly q r = f := by
  have hlen := xy_length_eq ht hcnt
  have hne : xy l t ≠ [] := by intro h; rw [h] at hlen; simp at hlen; omega
  obtain ⟨r, h1, h2, h3, h4⟩ := recoverPoly_core hq2 (xy l t) hne f (xy_nodup l t) (xy_inj_of_onCurve hon t)
    (fun e he => (xy_cons_of_onCurve hon t e he).2) (by rw [hlen]; exact hdeg)
  exact ⟨r, by unfold recoverPriPoly; simp only [hlen, ne_eq, not_true_eq_false, if_false]; exact h1,
    h2.trans hlen, h3, h4⟩

/-- `RecoverPriPoly` returns the dealer's coefficient list. -/
theorem recoverPriPoly_eq [Fact q.Prime] (hq2 : 2 < q) (cs : Poly) (t : Nat) (ht : 1 ≤ t) (hlen : cs.length = t)
    (l : List (Option Share)) (hon : OnPoly q cs l) (hcnt : t ≤ (validIdx l).toFinset.card) :
    recoverPriPoly q l t = some (cs.map (· % q)) := by
  obtain ⟨r, h1, h2, h3, h4⟩ := recoverPriPoly_eq_of_onCurve hq2 (toPoly q cs) t ht
    (lt_of_lt_of_le (toPoly_degree_lt cs) (by exact_mod_cast hlen.le)) l hon.onCurve hcnt
  rw [h1, Option.some.injEq]
  apply toPoly_injective (q := q) (by simp [h2, hlen]) h3
  · intro c hc
    obtain ⟨x, _, rfl⟩ := List.mem_map.mp hc
    exact Nat.mod_lt _ (by omega)
  · rw [h4]
    clear h1 h2 h3 h4 hon hcnt hlen
    induction cs with
    | nil => rfl
    | cons c cs ih => simp [ih, ZMod.natCast_mod]

/-- `RecoverPriPoly` refuses exactly the slices with fewer than `t` distinct usable indices. -/
theorem recoverPriPoly_eq_none_iff (hq : 0 < q) (l : List (Option Share)) (t : Nat) (ht : 1 ≤ t) :
    recoverPriPoly q l t = none ↔ (validIdx l).toFinset.card < t := by
  constructor
  · intro h
    by_contra hc
    have hlen := xy_length_eq ht (not_lt.mp hc)
    have hne : xy l t ≠ [] := by intro h; rw [h] at hlen; simp at hlen; omega
    obtain ⟨r, h1, _⟩ := accumulate_cast hq (fun e => (lagrangeBasis q e.1 (xy l t)).map (fun c => mul q c e.2))
      (xy l t) hne (xy l t).length (fun e he => by
        rw [List.length_map]
        exact lagrangeBasis_length _ e.1 (xy_nodup l t) (List.mem_map.mpr ⟨e, he, rfl⟩))
      (fun e _ => map_mul_lt hq _ _)
    unfold recoverPriPoly at h
    simp only [hlen, ne_eq, not_true_eq_false, if_false] at h
    rw [h1] at h
    cases h
  · intro h
    have := xy_length_lt h
    unfold recoverPriPoly
    simp only [ne_eq, ite_eq_left_iff, not_not]
    intro h'; omega

/-- `RecoverPubPoly` runs the same computation on discrete logs (for `t ≥ 1`, where "fewer than `t`"
    and "not exactly `t`" map entries coincide). -/
theorem recoverPubPoly_eq_recoverPriPoly (l : List (Option Share)) (t : Nat) (ht : 1 ≤ t) :
    recoverPubPoly q l t = recoverPriPoly q l t := by
  have hle := xy_length_le (l := l) ht
  unfold recoverPubPoly recoverPriPoly
  simp only
  by_cases h : (xy l t).length < t
  · simp [h, Nat.ne_of_lt h]
  · have : (xy l t).length = t := by omega
    simp only [this, lt_irrefl, if_false, ne_eq, not_true_eq_false]
    rfl

/-- `RecoverPubPoly` on public shares of the commitment polynomial `cs` returns `cs` (all commitments). -/
theorem recoverPubPoly_eq [Fact q.Prime] (hq2 : 2 < q) (cs : Poly) (t : Nat) (ht : 1 ≤ t) (hlen : cs.length = t)
    (l : List (Option Share)) (hon : OnPoly q cs l) (hcnt : t ≤ (validIdx l).toFinset.card) :
    recoverPubPoly q l t = some (cs.map (· % q)) := by
  rw [recoverPubPoly_eq_recoverPriPoly l t ht, recoverPriPoly_eq hq2 cs t ht hlen l hon hcnt]

theorem recoverPubPoly_eq_none_iff (hq : 0 < q) (l : List (Option Share)) (t : Nat) (ht : 1 ≤ t) :
    recoverPubPoly q l t = none ↔ (validIdx l).toFinset.card < t := by
  rw [recoverPubPoly_eq_recoverPriPoly l t ht, recoverPriPoly_eq_none_iff hq l t ht]

/-! ### Independence of the subset, order, nils, surplus -/

/-- Any two slices of shares of the same polynomial (each with at least `t` distinct usable indices, in
    any order, with any nil entries, surplus or repetitions) give the same secret, the same secret
    commitment and the same polynomial. -/
theorem recover_independent [Fact q.Prime] (hq2 : 2 < q) (f : (ZMod q)[X]) (t : Nat) (ht : 1 ≤ t)
    (hdeg : f.degree < t) (l₁ l₂ : List (Option Share)) (h₁ : OnCurve q f l₁) (h₂ : OnCurve q f l₂)
    (c₁ : t ≤ (validIdx l₁).toFinset.card) (c₂ : t ≤ (validIdx l₂).toFinset.card) :
    recoverSecret q l₁ t = recoverSecret q l₂ t ∧ recoverCommit q l₁ t = recoverCommit q l₂ t ∧
      recoverPriPoly q l₁ t = recoverPriPoly q l₂ t ∧ recoverPubPoly q l₁ t = recoverPubPoly q l₂ t := by
  have hq : 0 < q := by omega
  obtain ⟨r₁, a1, a2, a3⟩ := recoverSecret_eq_of_onCurve hq2 f t ht hdeg l₁ h₁ c₁
  obtain ⟨r₂, b1, b2, b3⟩ := recoverSecret_eq_of_onCurve hq2 f t ht hdeg l₂ h₂ c₂
  obtain ⟨s₁, d1, d2, d3⟩ := recoverCommit_eq_of_onCurve hq2 f t ht hdeg l₁ h₁ c₁
  obtain ⟨s₂, e1, e2, e3⟩ := recoverCommit_eq_of_onCurve hq2 f t ht hdeg l₂ h₂ c₂
  obtain ⟨p₁, f1, f2, f3, f4⟩ := recoverPriPoly_eq_of_onCurve hq2 f t ht hdeg l₁ h₁ c₁
  obtain ⟨p₂, g1, g2, g3, g4⟩ := recoverPriPoly_eq_of_onCurve hq2 f t ht hdeg l₂ h₂ c₂
  have hp : p₁ = p₂ := toPoly_injective (q := q) (f2.trans g2.symm) f3 g3 (f4.trans g4.symm)
  refine ⟨?_, ?_, ?_, ?_⟩
  · rw [a1, b1, (eq_iff_cast_eq _ _ a2 b2).mpr (a3.trans b3.symm)]
  · rw [d1, e1, (eq_iff_cast_eq _ _ d2 e2).mpr (d3.trans e3.symm)]
  · rw [f1, g1, hp]
  · rw [recoverPubPoly_eq_recoverPriPoly _ _ ht, recoverPubPoly_eq_recoverPriPoly _ _ ht, f1, g1, hp]

/-- Even for shares that lie on no common polynomial: every ordering of a slice in which equal indices
    carry equal shares makes all four recovery functions use the same shares and return the same
    result (the reason for the sort in `xyScalar`: "all participants need to interpolate on the exact
    same order shares"). -/
theorem recover_order_independent {l₁ l₂ : List (Option Share)} (h : l₁.Perm l₂)
    (hdup : ∀ a b, some a ∈ l₁ → some b ∈ l₁ → a.I = b.I → a = b) (t : Nat) :
    xy l₁ t = xy l₂ t ∧ recoverSecret q l₁ t = recoverSecret q l₂ t ∧ recoverCommit q l₁ t = recoverCommit q l₂ t ∧
      recoverPriPoly q l₁ t = recoverPriPoly q l₂ t ∧ recoverPubPoly q l₁ t = recoverPubPoly q l₂ t := by
  have := xy_perm h hdup t
  simp only [recoverSecret, recoverCommit, recoverPriPoly, recoverPubPoly, this, and_self]

/-- Go ranges over its maps in random order, independently in every loop. Whatever orders are used —
    `mo` for the outer loop and `mi e` for the inner loop (or the `lagrangeBasis` call) of iteration `e` —
    the values computed by `RecoverSecret`, `RecoverCommit` and `RecoverPriPoly`/`RecoverPubPoly` are the
    ones the model computes in insertion order. -/
theorem map_order_irrelevant [Fact q.Prime] (hq2 : 2 < q) (m mo : List (Nat × Nat))
    (mi : Nat × Nat → List (Nat × Nat)) (ho : m.Perm mo) (hi : ∀ e, m.Perm (mi e)) (hnd : (keys m).Nodup) :
    mo.foldl (fun acc e => add q acc (secretTerm q (mi e) e)) (zero q)
        = m.foldl (fun acc e => add q acc (secretTerm q m e)) (zero q) ∧
      mo.foldl (fun acc e => add q acc (commitTerm q (mi e) e)) 0
        = m.foldl (fun acc e => add q acc (commitTerm q m e)) 0 ∧
      accResult (accumulate q (fun e => (lagrangeBasis q e.1 (mi e)).map (fun c => mul q c e.2)) mo)
        = accResult (accumulate q (fun e => (lagrangeBasis q e.1 m).map (fun c => mul q c e.2)) m) := by
  have hq : 0 < q := by omega
  have e1 : (fun e => secretTerm q (mi e) e) = fun e => secretTerm q m e :=
    funext fun e => (secretTerm_perm hq2 (hi e) e).symm
  have e2 : (fun e => commitTerm q (mi e) e) = fun e => commitTerm q m e :=
    funext fun e => (commitTerm_perm hq2 (hi e) e).symm
  have e3 : (fun e : Nat × Nat => (lagrangeBasis q e.1 (mi e)).map (fun c => mul q c e.2))
      = fun e => (lagrangeBasis q e.1 m).map (fun c => mul q c e.2) :=
    funext fun e => by rw [lagrangeBasis_perm hq2 (hi e) e.1]
  refine ⟨?_, ?_, ?_⟩
  · rw [show (fun acc e => add q acc (secretTerm q (mi e) e)) = fun acc e => add q acc ((fun e => secretTerm q m e) e) from
      funext fun acc => funext fun e => by rw [← e1]]
    exact (foldl_add_perm hq ho _ _ (by simp [zero]; omega)).symm
  · rw [show (fun acc e => add q acc (commitTerm q (mi e) e)) = fun acc e => add q acc ((fun e => commitTerm q m e) e) from
      funext fun acc => funext fun e => by rw [← e2]]
    exact (foldl_add_perm hq ho _ _ hq).symm
  · rw [e3]
    exact (accumulate_perm hq _ ho m.length (fun e he => by
      rw [List.length_map]
      exact lagrangeBasis_length m e.1 hnd (List.mem_map.mpr ⟨e, he, rfl⟩)) (fun e _ => map_mul_lt hq _ _)).symm

/-! ### The hypotheses are satisfiable (and the model computes what the theorems say) -/

theorem prime_101 : Fact (Nat.Prime 101) := ⟨by norm_num⟩

/-- `t = 3`, polynomial `5 + 3x + 2x²` over `ZMod 101`; slice out of order with a nil entry, a nil value,
    a repeated share and a surplus share. -/
def exampleSlice : List (Option Share) :=
  [some ⟨4, some 70⟩, none, some ⟨1, some 19⟩, some ⟨7, none⟩, some ⟨4, some 70⟩, some ⟨2, some 32⟩, some ⟨0, some 10⟩]

example : OnPoly 101 [5, 3, 2] exampleSlice := by
  intro sh hsh v hv
  simp only [exampleSlice, List.mem_cons, Option.some.injEq, List.not_mem_nil, or_false, reduceCtorEq, false_or] at hsh
  rcases hsh with rfl | rfl | rfl | rfl | rfl | rfl <;> simp_all [IdxOK] <;> subst_vars <;> decide

example : 3 ≤ (validIdx exampleSlice).toFinset.card := by decide

example : recoverSecret 101 exampleSlice 3 = some 5 := by
  have := prime_101
  refine recoverSecret_eq (by norm_num) [5, 3, 2] 3 (by norm_num) (by simp) exampleSlice ?_ (by decide)
  intro sh hsh v hv
  simp only [exampleSlice, List.mem_cons, Option.some.injEq, List.not_mem_nil, or_false, reduceCtorEq, false_or] at hsh
  rcases hsh with rfl | rfl | rfl | rfl | rfl | rfl <;> simp_all [IdxOK] <;> subst_vars <;> decide

end Kyber.Share
