import KyberModel.Proto.Pvss
import KyberModel.Lib.SharePvss
import KyberModel.Props.C07
/-
C13 — PVSS and DLEQ: only correct shares verify; any t verified shares recover.

Property theorems about the executable model `Kyber.Pvss` (Proto/Pvss.lean; the definitions the
driver runs), in the discrete-log representation over `ZMod q`, `q` prime. Relative to `H_RO`:
Fiat–Shamir challenges are oracle values given to the model; "an altered field is rejected" is proved
in the form "two accepted objects that differ in at most that field coincide in it" (the field enters
a verification equation injectively) or "accepted ⇒ the stored challenge equals the oracle value".
Soundness of the DLEQ proof itself (a verified decrypted share really is `s_i·G`) is computational;
it appears as the explicit hypothesis `hsound` of `recoverSecret_eq`, and its algebraic core is
`dleq_special_soundness`.
-/
namespace Kyber.Pvss
open Kyber.Scalar Kyber.Share

variable {q : Nat}

/-! ### DLEQ -/

/-- Completeness: the proof `NewDLEQProof` creates for `x` verifies for the pair `(xG, xH)`, whatever
    the commitment scalar and the challenge. -/
theorem dleq_complete (hq : 0 < q) (g h x v c : Nat) :
    dleqVerify q (dleqProve q g h x v c).1 g h (dleqProve q g h x v c).2.1 (dleqProve q g h x v c).2.2 = true := by
  rw [dleqVerify_iff]
  simp only [dleqProve, mul_cast, sub_cast hq]
  constructor <;> ring

/-- `Verify` holds exactly when the two linear equations hold. -/
theorem dleq_verify_iff (p : Proof) (g h xG xH : Nat) :
    dleqVerify q p g h xG xH = true ↔
      ((p.VG : Nat) : ZMod q) = (p.R : ZMod q) * g + (p.C : ZMod q) * xG ∧
      ((p.VH : Nat) : ZMod q) = (p.R : ZMod q) * h + (p.C : ZMod q) * xH := dleqVerify_iff p g h xG xH

/-- Special soundness (algebraic core of soundness under `H_RO`): two accepted proofs with the same
    commitments and different challenges force `log_G xG = log_H xH` (as `xG·h = xH·g`). -/
theorem dleq_special_soundness [Fact q.Prime] (p p' : Proof) (g h xG xH : Nat)
    (hVG : ((p.VG : Nat) : ZMod q) = p'.VG) (hVH : ((p.VH : Nat) : ZMod q) = p'.VH)
    (hC : ((p.C : Nat) : ZMod q) ≠ p'.C)
    (a : dleqVerify q p g h xG xH = true) (a' : dleqVerify q p' g h xG xH = true) :
    ((xG : Nat) : ZMod q) * h = (xH : ZMod q) * g := by
  rw [dleqVerify_iff] at a a'
  have hne : ((p.C : Nat) : ZMod q) - p'.C ≠ 0 := sub_ne_zero.mpr hC
  apply mul_left_cancel₀ hne
  have e1 := a.1; have e2 := a.2; have e3 := a'.1; have e4 := a'.2
  rw [hVG] at e1; rw [hVH] at e2
  linear_combination (↑h : ZMod q) * (e3 - e1) + (↑g : ZMod q) * (e2 - e4)

/-- Each component of an accepted proof is pinned by the others: two accepted proofs for the same
    statement that differ in at most one of `R`, `C`, `VG`, `VH` are equal in it. -/
theorem dleq_proof_fields_bound [Fact q.Prime] (p : Proof) (g h xG xH : Nat) (a : dleqVerify q p g h xG xH = true) :
    (∀ R', dleqVerify q { p with R := R' } g h xG xH = true → ((g : Nat) : ZMod q) ≠ 0 ∨ ((h : Nat) : ZMod q) ≠ 0 →
        ((R' : Nat) : ZMod q) = p.R) ∧
    (∀ C', dleqVerify q { p with C := C' } g h xG xH = true → ((xG : Nat) : ZMod q) ≠ 0 ∨ ((xH : Nat) : ZMod q) ≠ 0 →
        ((C' : Nat) : ZMod q) = p.C) ∧
    (∀ V', dleqVerify q { p with VG := V' } g h xG xH = true → ((V' : Nat) : ZMod q) = p.VG) ∧
    (∀ V', dleqVerify q { p with VH := V' } g h xG xH = true → ((V' : Nat) : ZMod q) = p.VH) := by
  rw [dleqVerify_iff] at a
  refine ⟨?_, ?_, ?_, ?_⟩
  · intro R' a' hne
    rw [dleqVerify_iff] at a'
    simp only at a'
    rcases hne with hne | hne
    · exact mul_right_cancel₀ hne (by linear_combination a.1 - a'.1)
    · exact mul_right_cancel₀ hne (by linear_combination a.2 - a'.2)
  · intro C' a' hne
    rw [dleqVerify_iff] at a'
    simp only at a'
    rcases hne with hne | hne
    · exact mul_right_cancel₀ hne (by linear_combination a.1 - a'.1)
    · exact mul_right_cancel₀ hne (by linear_combination a.2 - a'.2)
  · intro V' a'
    rw [dleqVerify_iff] at a'
    simp only at a'
    rw [a'.1, a.1]
  · intro V' a'
    rw [dleqVerify_iff] at a'
    simp only at a'
    rw [a'.2, a.2]

/-- The claimed points and the bases are pinned as well: a proof accepted for two statements that differ
    in at most one of `xG`, `xH` (challenge non-zero) or `G`, `H` (response non-zero) has equal statements. -/
theorem dleq_statement_bound [Fact q.Prime] (p : Proof) (g h xG xH : Nat) (a : dleqVerify q p g h xG xH = true) :
    (∀ y, dleqVerify q p g h y xH = true → ((p.C : Nat) : ZMod q) ≠ 0 → ((y : Nat) : ZMod q) = xG) ∧
    (∀ y, dleqVerify q p g h xG y = true → ((p.C : Nat) : ZMod q) ≠ 0 → ((y : Nat) : ZMod q) = xH) ∧
    (∀ y, dleqVerify q p y h xG xH = true → ((p.R : Nat) : ZMod q) ≠ 0 → ((y : Nat) : ZMod q) = g) ∧
    (∀ y, dleqVerify q p g y xG xH = true → ((p.R : Nat) : ZMod q) ≠ 0 → ((y : Nat) : ZMod q) = h) := by
  rw [dleqVerify_iff] at a
  refine ⟨?_, ?_, ?_, ?_⟩ <;> intro y a' hne <;> rw [dleqVerify_iff] at a'
  · exact mul_left_cancel₀ hne (by linear_combination a.1 - a'.1)
  · exact mul_left_cancel₀ hne (by linear_combination a.2 - a'.2)
  · exact mul_left_cancel₀ hne (by linear_combination a.1 - a'.1)
  · exact mul_left_cancel₀ hne (by linear_combination a.2 - a'.2)

/-! ### PVSS: honest runs verify -/

/-- The commitments hashed into the global challenge are `commit.Eval(i).V` (for a non-empty commitment polynomial). -/
theorem computeCommitments_eq (n c0 : Nat) (rest : Poly) :
    computeCommitments q n (c0 :: rest) = (pubShares q (c0 :: rest) n).map (fun s => s.V.getD 0) := by
  simp only [computeCommitments, pubShares, List.map_map]
  apply List.map_congr_left
  intro i _
  simp [comAt_eq_pubEvalAt, pubEval]

/-- `EncShares` returns the honest share of trustee `i` at position `i` together with `Commit(H)`; every
    one of them verifies against `sH = commit.Eval(i).V` and the common challenge. -/
theorem encShares_verify (hq : 0 < q) (h : Nat) (xs : List Nat) (coeffs : Poly) (vs : List Nat) (c : Nat)
    (hlen : vs.length = xs.length) :
    ∃ es, encShares q h xs coeffs vs c = some (es, commit q coeffs (some h)) ∧ es.length = xs.length ∧
      ∀ i (hi : i < xs.length), ∃ e, es[i]? = some e ∧ e.I = i ∧ e.V = mul q (sAt q coeffs i) xs[i] ∧ e.P.C = c ∧
        verifyEncShare q h xs[i] (pubEvalAt q (commit q coeffs (some h)) (xEval q i)) c e = true := by
  obtain ⟨es, h1, h2, h3⟩ := encShares_spec (q := q) h xs coeffs vs c hlen
  refine ⟨es, h1, h2, fun i hi => ⟨_, h3 i hi, rfl, rfl, rfl, ?_⟩⟩
  rw [verifyEncShare_iff, pubEval_commit hq]
  simp only [encShareAt, dleqProve, mul_cast, sub_cast hq, sAt, baseLog]
  refine ⟨?_, ?_, ?_⟩ <;> first | trivial | ring

/-- `DecShare` by the right trustee (`X = x·G`, `x ≠ 0`) on an honest encrypted share succeeds, keeps the
    index, returns `s_i·G`, and its proof verifies (with or without the index check). -/
theorem decShare_verify [Fact q.Prime] (hq2 : 2 < q) (h x : Nat) (hx : ((x : Nat) : ZMod q) ≠ 0) (coeffs : Poly)
    (i v c v' c' : Nat) (b : Bool) :
    ∃ d, decShare q h (mul q x 1) (pubEvalAt q (commit q coeffs (some h)) (xEval q i)) x c
        (encShareAt q h (mul q x 1) coeffs i v c) v' c' = some d ∧
      d.I = i ∧ d.V = sAt q coeffs i ∧ d.P.C = c' ∧
      verifyDecShare b q 1 (mul q x 1) (encShareAt q h (mul q x 1) coeffs i v c) d c' = true := by
  have hq : 0 < q := by omega
  have hacc : verifyEncShare q h (mul q x 1) (pubEvalAt q (commit q coeffs (some h)) (xEval q i)) c
      (encShareAt q h (mul q x 1) coeffs i v c) = true := by
    rw [verifyEncShare_iff, pubEval_commit hq]
    simp only [encShareAt, dleqProve, mul_cast, sub_cast hq, sAt, baseLog]
    refine ⟨?_, ?_, ?_⟩ <;> first | trivial | ring
  have hV : mul q (inv q x) (encShareAt q h (mul q x 1) coeffs i v c).V = sAt q coeffs i := by
    apply (eq_iff_cast_eq _ _ (mul_lt hq _ _) (evalAt_lt hq _ _)).mpr
    simp only [encShareAt, mul_cast, inv_cast hq2, Nat.cast_one, mul_one, sAt]
    field_simp
  refine ⟨{ I := i, V := sAt q coeffs i, P := (dleqProve q (one q) (sAt q coeffs i) x v' c').1 }, ?_, rfl, rfl, rfl, ?_⟩
  · simp only [decShare, hacc, Bool.not_true, Bool.false_eq_true, if_false]
    rw [hV]; rfl
  · rw [verifyDecShare_iff]
    simp only [encShareAt, dleqProve, mul_cast, sub_cast hq, one_cast, Nat.cast_one, mul_one]
    refine ⟨fun _ => trivial, ?_, ?_, ?_⟩ <;> first | trivial | ring

/-! ### PVSS: what the verification functions bind -/

/-- `VerifyEncShare` accepts exactly when the stored challenge is the expected one and the two DLEQ equations hold. -/
theorem verifyEncShare_accept_iff (h x sH expC : Nat) (e : PVShare) :
    verifyEncShare q h x sH expC e = true ↔
      ((e.P.C : Nat) : ZMod q) = (expC : ZMod q) ∧
      ((e.P.VG : Nat) : ZMod q) = (e.P.R : ZMod q) * h + (e.P.C : ZMod q) * sH ∧
      ((e.P.VH : Nat) : ZMod q) = (e.P.R : ZMod q) * x + (e.P.C : ZMod q) * e.V := verifyEncShare_iff h x sH expC e

/-- `VerifyDecShare` accepts exactly when (only with the index check) the indices agree, the stored challenge
    is the recomputed one and the two DLEQ equations hold. -/
theorem verifyDecShare_accept_iff (b : Bool) (g X : Nat) (e d : PVShare) (chal : Nat) :
    verifyDecShare b q g X e d chal = true ↔
      (b = true → d.I = e.I) ∧ ((d.P.C : Nat) : ZMod q) = (chal : ZMod q) ∧
      ((d.P.VG : Nat) : ZMod q) = (d.P.R : ZMod q) * g + (d.P.C : ZMod q) * X ∧
      ((d.P.VH : Nat) : ZMod q) = (d.P.R : ZMod q) * d.V + (d.P.C : ZMod q) * e.V := verifyDecShare_iff b g X e d chal

/-- Every value field of an encrypted share is bound: changing `V` (challenge ≠ 0), `C`, `R` (`H ≠ O` or `X ≠ O`),
    `VG` or `VH` alone in an accepted share gives a share that is accepted only if the field is unchanged. -/
theorem verifyEncShare_fields_bound [Fact q.Prime] (h x sH expC : Nat) (e : PVShare)
    (a : verifyEncShare q h x sH expC e = true) :
    (∀ V', verifyEncShare q h x sH expC { e with V := V' } = true → ((expC : Nat) : ZMod q) ≠ 0 → ((V' : Nat) : ZMod q) = e.V) ∧
    (∀ C', verifyEncShare q h x sH expC { e with P := { e.P with C := C' } } = true → ((C' : Nat) : ZMod q) = e.P.C) ∧
    (∀ R', verifyEncShare q h x sH expC { e with P := { e.P with R := R' } } = true →
        ((h : Nat) : ZMod q) ≠ 0 ∨ ((x : Nat) : ZMod q) ≠ 0 → ((R' : Nat) : ZMod q) = e.P.R) ∧
    (∀ W, verifyEncShare q h x sH expC { e with P := { e.P with VG := W } } = true → ((W : Nat) : ZMod q) = e.P.VG) ∧
    (∀ W, verifyEncShare q h x sH expC { e with P := { e.P with VH := W } } = true → ((W : Nat) : ZMod q) = e.P.VH) := by
  rw [verifyEncShare_iff] at a
  refine ⟨?_, ?_, ?_, ?_, ?_⟩
  · intro V' a' hne
    rw [verifyEncShare_iff] at a'
    simp only at a'
    have hc : ((e.P.C : Nat) : ZMod q) ≠ 0 := a.1 ▸ hne
    exact mul_left_cancel₀ hc (by linear_combination a.2.2 - a'.2.2)
  · intro C' a'
    rw [verifyEncShare_iff] at a'
    simp only at a'
    rw [a'.1, a.1]
  · intro R' a' hne
    rw [verifyEncShare_iff] at a'
    simp only at a'
    rcases hne with hne | hne
    · exact mul_right_cancel₀ hne (by linear_combination a.2.1 - a'.2.1)
    · exact mul_right_cancel₀ hne (by linear_combination a.2.2 - a'.2.2)
  · intro W a'
    rw [verifyEncShare_iff] at a'
    simp only at a'
    rw [a'.2.1, a.2.1]
  · intro W a'
    rw [verifyEncShare_iff] at a'
    simp only at a'
    rw [a'.2.2, a.2.2]

/-- The statement an encrypted share is verified against is bound too: the same share accepted with another
    `sH` (another trustee's commitment evaluation) or another key `X` / base `H` forces these to be equal
    (challenge ≠ 0, response ≠ 0): a share swapped to another trustee's slot is rejected. -/
theorem verifyEncShare_statement_bound [Fact q.Prime] (h x sH expC : Nat) (e : PVShare)
    (a : verifyEncShare q h x sH expC e = true) :
    (∀ y, verifyEncShare q h x y expC e = true → ((expC : Nat) : ZMod q) ≠ 0 → ((y : Nat) : ZMod q) = sH) ∧
    (∀ y, verifyEncShare q h y sH expC e = true → ((e.P.R : Nat) : ZMod q) ≠ 0 → ((y : Nat) : ZMod q) = x) ∧
    (∀ y, verifyEncShare q y x sH expC e = true → ((e.P.R : Nat) : ZMod q) ≠ 0 → ((y : Nat) : ZMod q) = h) ∧
    (∀ c', verifyEncShare q h x sH c' e = true → ((c' : Nat) : ZMod q) = expC) := by
  rw [verifyEncShare_iff] at a
  refine ⟨?_, ?_, ?_, ?_⟩
  · intro y a' hne
    rw [verifyEncShare_iff] at a'
    have hc : ((e.P.C : Nat) : ZMod q) ≠ 0 := a.1 ▸ hne
    exact mul_left_cancel₀ hc (by linear_combination a.2.1 - a'.2.1)
  · intro y a' hne
    rw [verifyEncShare_iff] at a'
    exact mul_left_cancel₀ hne (by linear_combination a.2.2 - a'.2.2)
  · intro y a' hne
    rw [verifyEncShare_iff] at a'
    exact mul_left_cancel₀ hne (by linear_combination a.2.1 - a'.2.1)
  · intro c' a'
    rw [verifyEncShare_iff] at a'
    rw [← a'.1, a.1]

/-- The index of an encrypted share enters no check of `VerifyEncShare` (the caller selects `sH` and `X` by position). -/
theorem verifyEncShare_index_unbound (h x sH expC : Nat) (e : PVShare) (j : Nat) :
    verifyEncShare q h x sH expC { e with I := j } = verifyEncShare q h x sH expC e := rfl

/-- Every value field of a decrypted share is bound: changing `V` (response ≠ 0), `C`, `R` (`G ≠ O`), `VG` or
    `VH` alone in an accepted share gives a share that is accepted only if the field is unchanged. -/
theorem verifyDecShare_fields_bound [Fact q.Prime] (b : Bool) (g X : Nat) (e d : PVShare) (chal : Nat)
    (a : verifyDecShare b q g X e d chal = true) :
    (∀ V', verifyDecShare b q g X e { d with V := V' } chal = true → ((d.P.R : Nat) : ZMod q) ≠ 0 → ((V' : Nat) : ZMod q) = d.V) ∧
    (∀ C', verifyDecShare b q g X e { d with P := { d.P with C := C' } } chal = true → ((C' : Nat) : ZMod q) = d.P.C) ∧
    (∀ R', verifyDecShare b q g X e { d with P := { d.P with R := R' } } chal = true →
        ((g : Nat) : ZMod q) ≠ 0 → ((R' : Nat) : ZMod q) = d.P.R) ∧
    (∀ W, verifyDecShare b q g X e { d with P := { d.P with VG := W } } chal = true → ((W : Nat) : ZMod q) = d.P.VG) ∧
    (∀ W, verifyDecShare b q g X e { d with P := { d.P with VH := W } } chal = true → ((W : Nat) : ZMod q) = d.P.VH) := by
  rw [verifyDecShare_iff] at a
  refine ⟨?_, ?_, ?_, ?_, ?_⟩
  · intro V' a' hne
    rw [verifyDecShare_iff] at a'
    simp only at a'
    exact mul_left_cancel₀ hne (by linear_combination a.2.2.2 - a'.2.2.2)
  · intro C' a'
    rw [verifyDecShare_iff] at a'
    simp only at a'
    rw [a'.2.1, a.2.1]
  · intro R' a' hne
    rw [verifyDecShare_iff] at a'
    simp only at a'
    exact mul_right_cancel₀ hne (by linear_combination a.2.2.1 - a'.2.2.1)
  · intro W a'
    rw [verifyDecShare_iff] at a'
    simp only at a'
    rw [a'.2.2.1, a.2.2.1]
  · intro W a'
    rw [verifyDecShare_iff] at a'
    simp only at a'
    rw [a'.2.2.2, a.2.2.2]

/-- A decrypted share accepted against two statements — another key `X'`, or another trustee's encrypted
    share `e'` — forces `X' = X` and `e'.V = e.V` when its challenge is non-zero: cross-trustee swaps are rejected. -/
theorem verifyDecShare_statement_bound [Fact q.Prime] (b : Bool) (g X X' : Nat) (e e' d : PVShare) (chal chal' : Nat)
    (hc : ((d.P.C : Nat) : ZMod q) ≠ 0)
    (a : verifyDecShare b q g X e d chal = true) (a' : verifyDecShare b q g X' e' d chal' = true) :
    ((X' : Nat) : ZMod q) = X ∧ ((e'.V : Nat) : ZMod q) = e.V := by
  rw [verifyDecShare_iff] at a a'
  exact ⟨mul_left_cancel₀ hc (by linear_combination a.2.2.1 - a'.2.2.1),
    mul_left_cancel₀ hc (by linear_combination a.2.2.2 - a'.2.2.2)⟩

/-- THE GAP in the code as it stands (`bindIndex = false`): the index `decShare.S.I` enters no check, so a
    decrypted share with any other index is accepted just the same — and `RecoverSecret` then
    interpolates it at the wrong abscissa. -/
theorem verifyDecShare_index_unbound (g X : Nat) (e d : PVShare) (chal j : Nat) :
    verifyDecShare false q g X e { d with I := j } chal = verifyDecShare false q g X e d chal := rfl

/-- With the check `decShare.S.I == encShare.S.I` (`bindIndex = true`, fixes/C13-decshare-index.patch) the index
    is bound like every other field. -/
theorem verifyDecShare_index_bound (g X : Nat) (e d : PVShare) (chal : Nat)
    (a : verifyDecShare true q g X e d chal = true) : d.I = e.I :=
  ((verifyDecShare_iff true g X e d chal).mp a).1 rfl

/-! ### Batch functions -/

/-- `VerifyEncShareBatch` returns exactly the verifying entries (by position), and errs exactly on different
    lengths; with the index check, entries whose index is not their position are dropped as well. -/
theorem verifyEncShareBatch_spec (b : Bool) (h : Nat) (xs sHs : List Nat) (es : List PVShare) (chal : Nat) :
    (verifyEncShareBatch b q h xs sHs es chal = none ↔ (xs.length ≠ sHs.length ∨ sHs.length ≠ es.length)) ∧
    ∀ r, verifyEncShareBatch b q h xs sHs es chal = some r →
      ∀ i, i ∈ r ↔ ∃ (h1 : i < xs.length) (h2 : i < sHs.length) (h3 : i < es.length),
        (b = true → es[i].I = i) ∧ verifyEncShare q h xs[i] sHs[i] chal es[i] = true := by
  unfold verifyEncShareBatch
  split
  · next hl => exact ⟨by simp [hl], by intro r hr; cases hr⟩
  · next hl =>
    refine ⟨by simp [hl], ?_⟩
    intro r hr i
    cases hr
    rw [mem_keepIdx]
    simp only [List.length_zip, List.getElem_zip, Bool.and_eq_true, Bool.not_eq_true', Bool.and_eq_false_imp,
      Bool.not_eq_false', beq_iff_eq]
    constructor
    · rintro ⟨hlt, hok⟩
      exact ⟨by omega, by omega, by omega, hok⟩
    · rintro ⟨h1, h2, h3, hok⟩
      exact ⟨by omega, hok⟩

/-- `VerifyDecShareBatch` returns exactly the verifying entries (by position). -/
theorem verifyDecShareBatch_spec (b : Bool) (g : Nat) (xs : List Nat) (es ds : List PVShare) (chals : List Nat)
    (hch : chals.length = xs.length) :
    (verifyDecShareBatch b q g xs es ds chals = none ↔ (xs.length ≠ es.length ∨ es.length ≠ ds.length)) ∧
    ∀ r, verifyDecShareBatch b q g xs es ds chals = some r →
      ∀ i, i ∈ r ↔ ∃ (h1 : i < xs.length) (h2 : i < es.length) (h3 : i < ds.length) (h4 : i < chals.length),
        verifyDecShare b q g xs[i] es[i] ds[i] chals[i] = true := by
  unfold verifyDecShareBatch
  split
  · next hl => exact ⟨by simp [hl], by intro r hr; cases hr⟩
  · next hl =>
    refine ⟨by simp [hl], ?_⟩
    intro r hr i
    cases hr
    rw [mem_keepIdx]
    simp only [List.length_zip, List.getElem_zip]
    constructor
    · rintro ⟨hlt, hok⟩
      exact ⟨by omega, by omega, by omega, by omega, hok⟩
    · rintro ⟨h1, h2, h3, h4, hok⟩
      exact ⟨by omega, hok⟩

/-- The decrypted shares handed to `RecoverCommit` are exactly the entries that verify. -/
theorem mem_goodDecShares (b : Bool) (g : Nat) (xs : List Nat) (es ds : List PVShare) (chals : List Nat) (d : PVShare) :
    d ∈ goodDecShares b q g xs es ds chals ↔
      ∃ r ∈ List.zip (List.zip xs chals) (List.zip es ds), r.2.2 = d ∧ verifyDecShare b q g r.1.1 r.2.1 r.2.2 r.1.2 = true := by
  simp only [goodDecShares, List.mem_map, List.mem_filter]
  constructor
  · rintro ⟨r, ⟨hr, hok⟩, rfl⟩; exact ⟨r, hr, rfl, hok⟩
  · rintro ⟨r, hr, rfl, hok⟩; exact ⟨r, ⟨hr, hok⟩, rfl⟩

/-! ### Recovery -/

/-- Recovery refuses when fewer than `t` entries verify, and when the verifying entries carry fewer than `t`
    distinct indices. -/
theorem recoverSecret_refuses (b : Bool) (g : Nat) (xs : List Nat) (es ds : List PVShare) (chals : List Nat) (t : Nat)
    (ht : 1 ≤ t)
    (h : (goodDecShares b q g xs es ds chals).length < t ∨
      ((goodDecShares b q g xs es ds chals).map (·.I)).toFinset.card < t) :
    recoverSecret b q g xs es ds chals t = none := by
  unfold recoverSecret
  split
  · rfl
  · simp only
    split
    · rfl
    · next hlen =>
      rcases h with h | h
      · exact absurd h hlen
      · rw [recoverCommit_eq_none_iff _ _ ht, validIdx_pub]
        exact h

/-- Any list of (key, encrypted share, decrypted share) triples — in any order, with surplus and rejected
    entries — in which the verifying decrypted shares are `s_I·G` at admissible indices (`hsound`: soundness
    of the DLEQ proofs under `H_RO`, together with the index being right) and carry at least `t` distinct
    indices, recovers `secret·G`. -/
theorem recoverSecret_eq [Fact q.Prime] (hq2 : 2 < q) (b : Bool) (g : Nat) (xs : List Nat) (es ds : List PVShare)
    (chals : List Nat) (coeffs : Poly) (t : Nat) (ht : 1 ≤ t) (hlen : coeffs.length ≤ t)
    (hl : xs.length = es.length ∧ es.length = ds.length)
    (hsound : ∀ d ∈ goodDecShares b q g xs es ds chals, IdxOK q d.I ∧ d.V = sAt q coeffs d.I)
    (hcnt : t ≤ ((goodDecShares b q g xs es ds chals).map (·.I)).toFinset.card) :
    recoverSecret b q g xs es ds chals t = some (coeffs.headD 0 % q) := by
  have hD : ¬ (goodDecShares b q g xs es ds chals).length < t := by
    have := List.toFinset_card_le ((goodDecShares b q g xs es ds chals).map (·.I))
    simp only [List.length_map] at this
    omega
  unfold recoverSecret
  simp only [hl.1, hl.2, ne_eq, not_true_eq_false, or_self, if_false, hD]
  apply recoverCommit_eq hq2 coeffs t ht hlen
  · intro sh hsh v hv
    obtain ⟨d, hd, hd'⟩ := List.mem_map.mp hsh
    cases hd'
    simp only [Option.some.injEq] at hv
    subst hv
    exact hsound d hd
  · rw [validIdx_pub]; exact hcnt

/-! ### The hypotheses are satisfiable -/

example : ∃ e, (encShares 101 7 [11, 13] [5, 3] [20, 21] 9).map (·.1[1]?) = some (some e) ∧
    verifyEncShare 101 7 13 (pubEvalAt 101 (commit 101 [5, 3] (some 7)) (xEval 101 1)) 9 e = true := by
  refine ⟨_, rfl, ?_⟩
  decide

end Kyber.Pvss
