import KyberModel.Props.C08
import KyberModel.Lib.SigEdInstance
/-
C08 — the byte-level EdDSA theorems with every curve hypothesis discharged.
`Props/C08.lean` proves them relative to the bundle `EdLaws` and to primality of `p`, `L`; here the
bundle is instantiated with the Edwards group proved from scratch (`Lib/EdwardsGroup`, `Lib/Ed25519`),
the decoder theorems of C04 (`dec ∘ enc = id` on valid points) and the Pratt certificates, so the
statements below mention only the executable model.
-/
namespace Kyber.C08.Concrete
open Kyber Kyber.Ed25519 Kyber.Eddsa Kyber.SigEdInst

/-- EdDSA signing is RFC 8032 §5.1.6, for every seed and message. -/
theorem sign_eq_rfc8032 (seed msg : Bytes) : sign seed msg = rfcSign seed msg :=
  Kyber.C08.eddsa_sign_eq_rfc8032 edLaws seed msg

/-- Honest signatures verify (unless the deterministic nonce is 0 mod L, probability 2⁻²⁵²). -/
theorem complete (seed msg : Bytes)
    (hr : decodeLE (Sha512.hash ((keygen seed).prefix_ ++ msg)) % L ≠ 0) :
    verify (pubBytes (keygen seed)) msg (sign seed msg) = .ok :=
  Kyber.C08.eddsa_complete edLaws L_prime seed msg hr

/-- Whatever kyber's EdDSA verifier accepts, crypto/ed25519 accepts. -/
theorem verify_implies_goVerify (pub msg sig : Bytes) (h : verify pub msg sig = .ok) :
    goVerify pub msg sig = true :=
  Kyber.C08.eddsa_verify_implies_goVerify edLaws p_prime pub msg sig h

/-- Accepted ⇒ canonical, non-small-order `R` and key; no second accepted encoding. -/
theorem accepts_canonical (chal : Bytes → Bytes → Bytes → Nat) (pub msg sig : Bytes)
    (h : verifyCore chal pub msg sig = .ok) :
    ∃ R A, dec (sig.take 32) = some R ∧ dec pub = some A ∧
      hasSmallOrder R = false ∧ hasSmallOrder A = false ∧
      sig.take 32 = enc R ∧ pub = enc A ∧
      sig.drop 32 = encodeLE 32 (decodeLE (sig.drop 32) % L) :=
  Kyber.C08.eddsa_accepts_canonical edLaws p_prime chal pub msg sig h

/-- Two accepted signatures on the same key and message with the same `R` are byte-identical. -/
theorem tamper_s (chal : Bytes → Bytes → Bytes → Nat) (pub msg sig sig' : Bytes)
    (h : verifyCore chal pub msg sig = .ok) (h' : verifyCore chal pub msg sig' = .ok)
    (hRb : sig.take 32 = sig'.take 32) : sig = sig' :=
  Kyber.C08.eddsa_tamper_s edLaws L_prime chal pub msg sig sig' h h' hRb

/-- Two accepted signatures with the same `s` and the same oracle value are byte-identical. -/
theorem tamper_R (chal : Bytes → Bytes → Bytes → Nat) (pub msg sig sig' : Bytes)
    (h : verifyCore chal pub msg sig = .ok) (h' : verifyCore chal pub msg sig' = .ok)
    (hs : sig.drop 32 = sig'.drop 32)
    (horacle : chal (sig.take 32) pub msg = chal (sig'.take 32) pub msg) : sig = sig' :=
  Kyber.C08.eddsa_tamper_R edLaws p_prime chal pub msg sig sig' h h' hs horacle

/-- The same signature accepted for two messages under a key `a•B` forces the oracle values to coincide. -/
theorem tamper_msg_partial (chal : Bytes → Bytes → Bytes → Nat) (a : Nat) (msg msg' sig : Bytes)
    (h : verifyCore chal (enc (smul a base)) msg sig = .ok)
    (h' : verifyCore chal (enc (smul a base)) msg' sig = .ok) :
    chal (sig.take 32) (enc (smul a base)) msg % L = chal (sig.take 32) (enc (smul a base)) msg' % L :=
  Kyber.C08.eddsa_tamper_msg_partial edLaws L_prime chal a msg msg' sig h h'

end Kyber.C08.Concrete
