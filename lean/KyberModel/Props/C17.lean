import KyberModel.Lib.EmbedShape
import KyberModel.Lib.Ed25519
import KyberModel.Props.C04
import KyberModel.Groups.HashToCurve
import KyberModel.Lib.EmbedElligator
/-
C17 — Pick, Embed and hash-to-group give group members; Embed is lossless.

Model: `Groups/Embed.lean` (Embed / Data / Pick as functions of the bytes drawn from the stream) and
`Groups/HashToCurve.lean` (RFC 9380 for edwards25519 at field level) — the definitions the driver executes.

* `embed_deterministic` — the result and the number of bytes consumed are determined by the consumed
  bytes alone (any continuation of the stream gives the same answer);
* `embed_order` / `embed_valid` — the returned point passed the group's test (Ed25519 with data:
  `L•P = O` and on the curve, unconditionally; P-256 / BN256: on the curve with `x` in the field; residue
  group: `0 < v < P`, `v^Q = 1`);
* `embed_data`, `embed_data_roundtrip` — `Data (Embed d) = d.take EmbedLen`, also after `dec ∘ enc`;
* `data_error_iff` — `Data` errs exactly when the length byte exceeds `EmbedLen`;
* `pick_shape`, `pick_order_partial` — without data the result is `8•P' ≠ O`; it has order dividing `L`
  RELATIVE TO the named hypothesis `H_card25519` (`#E(F_p) = 8·L`, not provable here);
* hash-to-curve: output lengths and ranges of `expand_message_xmd` / `hash_to_field`; the Elligator 2 map
  lands on the curve for EVERY field element (`elligator_montgomery`, `elligator_valid`: field-level
  lemma, using that 2 is a non-residue and Fermat's little theorem); `Hash` is total and returns a valid
  curve point, of order dividing `L` relative to `H_card25519` (`hash_order_partial`).
  Collision-freeness ("differs for different messages") is a property of SHA-512 and is only tested.
-/
namespace Kyber.C17
open Kyber Kyber.EmbedLib Kyber.DecodeLib

/-! ### Ed25519 (both implementations share the specification) -/
namespace Ed25519
open Kyber.Ed25519 Kyber.Edwards Kyber.EmbedLib.Ed

/-- The result is determined by the bytes consumed: replacing everything after them changes nothing. -/
theorem embed_deterministic (d : Option Bytes) (s t : Bytes) (P : Pt) (m : Nat)
    (h : embed d s = some (P, m)) : embed d (s.take m ++ t) = some (P, m) := by
  unfold embed at h ⊢
  obtain ⟨_, _, hm⟩ := embedLoop_bounds _ _ _ _ _ _ _ h
  simp only [Nat.sub_zero] at hm
  apply embedLoop_prefix _ _ _ _ _ _ _ h
  · simp; omega
  · simp [List.length_take, Nat.min_eq_left hm]
  · simp; omega

/-- Shape of the accepted candidate. -/
theorem embed_try (d : Option Bytes) (s : Bytes) (P : Pt) (m : Nat) (h : embed d s = some (P, m)) :
    ∃ blk : Bytes, blk.length = 32 ∧ embedTry d blk = some P :=
  embedLoop_try _ _ _ _ _ _ _ h

/-- With data: the returned point decoded from the candidate and PASSED THE ORDER TEST `L•P = O`. -/
theorem embed_order (d s : Bytes) (P : Pt) (m : Nat) (h : embed (some d) s = some (P, m)) :
    smul L P = zero ∧ onCurve P = true ∧ P.x < p ∧ P.y < p := by
  obtain ⟨blk, _, ht⟩ := embed_try _ _ _ _ h
  unfold embedTry at ht
  split at ht
  · cases ht
  · rename_i Q hQ
    simp only at ht
    split_ifs at ht with h1
    cases ht
    exact ⟨h1, C04.Ed25519.dec_valid _ _ hQ⟩

/-- `Data (Embed d) = d.take EmbedLen`. -/
theorem embed_data (d s : Bytes) (P : Pt) (m : Nat) (h : embed (some d) s = some (P, m)) :
    data P = some (d.take embedLen) := by
  obtain ⟨blk, hl, ht⟩ := embed_try _ _ _ _ h
  obtain ⟨_, _, hxlt, hylt⟩ := embed_order _ _ _ _ h
  unfold embedTry at ht
  split at ht
  · cases ht
  · rename_i Q hQ
    simp only at ht
    split_ifs at ht with h1
    cases ht
    obtain ⟨hce, hcl⟩ := embedCand_eq d blk hl
    obtain ⟨_, x0, _, hy, _⟩ := ed_dec_some _ _ hQ
    have hel : embedLen = 29 := rfl
    have hdl : min embedLen d.length ≤ 29 := by omega
    have h0 : (UInt8.ofNat (min embedLen d.length)).toNat < 237 := by
      simp only [UInt8.toNat_ofNat']; omega
    have h0' : (UInt8.ofNat (min embedLen d.length)).toNat = min embedLen d.length := by
      simp only [UInt8.toNat_ofNat']; omega
    obtain ⟨hred, htake⟩ := ed_reencode_take _ _ _ hce hcl h0 (P.x % 2)
    -- the encoding of the decoded point
    have henc : enc P = encodeLE 32 (decodeLE (embedCand (some d) blk) % 2 ^ 255 + 2 ^ 255 * (P.x % 2)) := by
      rw [ed_enc_eq, Nat.mod_eq_of_lt hylt, Nat.mod_eq_of_lt hxlt, hy, hred]
    -- split the encoding into first byte and rest
    have hlen : (enc P).length = 32 := by rw [henc]; simp
    obtain ⟨b0, rest, hbr⟩ : ∃ b0 rest, enc P = b0 :: rest := by
      cases hq : enc P with
      | nil => rw [hq] at hlen; simp at hlen
      | cons b0 rest => exact ⟨b0, rest, rfl⟩
    have ht31 : (b0 :: rest).take 31 = (embedCand (some d) blk).take 31 := by
      rw [← hbr, henc]; exact htake
    rw [hce] at ht31
    simp only [List.take_succ_cons, List.cons.injEq] at ht31
    obtain ⟨hb0, hrest⟩ := ht31
    unfold data
    rw [hbr]
    simp only
    rw [hb0, h0', if_neg (by unfold embedLen; omega)]
    apply congrArg some
    have hle30 : min embedLen d.length ≤ 30 := by omega
    have : rest.take (min embedLen d.length) = (rest.take 30).take (min embedLen d.length) := by
      rw [List.take_take, Nat.min_eq_left hle30]
    rw [this, hrest, List.take_take, Nat.min_eq_left hle30]
    rw [List.take_append_of_le_length (by simp [List.length_take])]
    rw [List.take_take]
    by_cases hd : embedLen ≤ d.length
    · rw [Nat.min_eq_left hd, Nat.min_self]
    · have hd' : d.length ≤ embedLen := by omega
      rw [Nat.min_eq_right hd', List.take_of_length_le (by omega), List.take_of_length_le hd']

/-- … also after the point has been encoded and decoded. -/
theorem embed_data_roundtrip (d s : Bytes) (P : Pt) (m : Nat) (h : embed (some d) s = some (P, m)) :
    ∃ Q, dec (enc P) = some Q ∧ data Q = some (d.take embedLen) := by
  obtain ⟨blk, _, ht⟩ := embed_try _ _ _ _ h
  unfold embedTry at ht
  split at ht
  · cases ht
  · rename_i Q hQ
    simp only at ht
    split_ifs at ht with h1
    cases ht
    exact ⟨P, C04.Ed25519.dec_enc _ _ hQ, embed_data d s P m h⟩

/-- `Data` reports an error exactly when the length byte of the encoding exceeds `EmbedLen`. -/
theorem data_error_iff (P : Pt) :
    data P = none ↔ ∃ b0 rest, enc P = b0 :: rest ∧ embedLen < b0.toNat := by
  have hlen : (enc P).length = 32 := by rw [ed_enc_eq]; simp
  unfold data
  cases hq : enc P with
  | nil => rw [hq] at hlen; simp at hlen
  | cons b0 rest =>
    simp only
    constructor
    · intro h
      split_ifs at h with h1
      exact ⟨b0, rest, rfl, h1⟩
    · rintro ⟨b0', rest', he, hlt⟩
      obtain ⟨rfl, rfl⟩ := List.cons.inj he
      rw [if_pos hlt]

/-- Without data (`Pick`): the result is `8•P'` for a curve point `P'` and is not the identity. -/
theorem pick_shape (s : Bytes) (Q : Pt) (m : Nat) (h : pick s = some (Q, m)) :
    Q ≠ zero ∧ ∃ P', Kyber.Ed25519.onCurve P' = true ∧ P'.x < p ∧ P'.y < p ∧ Q = smul 8 P' := by
  obtain ⟨blk, _, ht⟩ := embed_try _ _ _ _ h
  unfold embedTry at ht
  split at ht
  · cases ht
  · rename_i P' hP'
    change (if smul 8 P' = zero then none else some (smul 8 P')) = some Q at ht
    by_cases h1 : smul 8 P' = zero
    · rw [if_pos h1] at ht; cases ht
    · rw [if_neg h1] at ht
      have hQ : smul 8 P' = Q := Option.some.inj ht
      obtain ⟨hc, hx, hy⟩ := C04.Ed25519.dec_valid _ _ hP'
      exact ⟨hQ ▸ h1, P', hc, hx, hy, hQ.symm⟩

/-- H_card25519 in the form used here: every point of the curve group is killed by `8·L`
    (a consequence of `#E(F_p) = 8·L`, which is not proved in this development). -/
def H_card25519 : Prop := ∀ g : G, (8 * L) • g = 0

/-- Partial (relative to `H_card25519`): a picked point lies in the subgroup of order `L`.
    Full statement without the hypothesis: `pick s = some (Q, m) → smul L Q = zero`. -/
theorem pick_order_partial (hcard : H_card25519) (s : Bytes) (Q : Pt) (m : Nat) (h : pick s = some (Q, m)) :
    smul L Q = zero := by
  obtain ⟨_, P', hc, hx, hy, rfl⟩ := pick_shape s Q m h
  have hv : Valid P' := ⟨hx, hy, (onCurve_iff P').mp hc⟩
  have h8 := valid_smul hv 8
  have hL := valid_smul h8 L
  apply toG_injective hL valid_zero
  rw [toG_smul h8 L, toG_smul hv 8, toG_zero, smul_smul, Nat.mul_comm]
  exact hcard _

/-- The hypothesis is about a non-empty situation: picking from a concrete stream succeeds. -/
example : (pick (enc base)).isSome = true := by decide +kernel

end Ed25519

/-! ### P-256 -/
namespace P256
open Kyber.P256 Kyber.Weierstrass Kyber.EmbedLib.P256s

theorem embed_deterministic (d : Option Bytes) (s t : Bytes) (P : Nat × Nat) (m : Nat)
    (h : embed d s = some (P, m)) : embed d (s.take m ++ t) = some (P, m) := by
  unfold embed at h ⊢
  obtain ⟨_, _, hm⟩ := embedLoop_bounds _ _ _ _ _ _ _ h
  simp only [Nat.sub_zero] at hm
  apply embedLoop_prefix _ _ _ _ _ _ _ h
  · simp; omega
  · simp [List.length_take, Nat.min_eq_left hm]
  · simp; omega

/-- The returned coordinates are a point of the curve with `x` in the field. -/
theorem embed_valid (d : Option Bytes) (s : Bytes) (x y m : Nat) (h : embed d s = some ((x, y), m)) :
    onCurve curve (some (x, y)) = true ∧ x < p := by
  obtain ⟨blk, _, ht⟩ := embedLoop_try _ _ _ _ _ _ _ h
  obtain ⟨_, hx, hy⟩ := embedTry_some _ _ _ _ ht
  refine ⟨?_, hx⟩
  apply decide_eq_true
  show _ % p = (x * x % p * x + (p - 3) * x + b) % p
  rw [hy]
  unfold rhs
  rw [mod_eq_iff_cast]
  have h3 : 3 * x % p ≤ p := le_of_lt (Nat.mod_lt _ p_pos)
  have h4 : 3 ≤ p := by norm_num [p]
  push_cast [ZMod.natCast_mod, Nat.cast_sub h3, Nat.cast_sub h4]
  simp only [ZMod.natCast_self]
  ring

/-- `Data (Embed d) = d.take EmbedLen`. -/
theorem embed_data (d s : Bytes) (x y m : Nat) (h : embed (some d) s = some ((x, y), m)) :
    data x = some (d.take embedLen) := by
  obtain ⟨blk, hl, ht⟩ := embedLoop_try _ _ _ _ _ _ _ h
  obtain ⟨hx, _, _⟩ := embedTry_some _ _ _ _ ht
  have hel : embedLen = 30 := rfl
  have hdl : min embedLen d.length ≤ 30 := by omega
  have hxb : (blk.take 32).length = 32 := by simp; omega
  have hce : embedCand (some d) (blk.take 32) =
      (blk.take 32).take (31 - min embedLen d.length) ++ (d.take embedLen ++ [UInt8.ofNat (min embedLen d.length)]) := by
    show (blk.take 32).take (31 - min embedLen d.length) ++ (d.take (min embedLen d.length) ++ [UInt8.ofNat (min embedLen d.length)]) = _
    rw [EmbedLib.Ed.take_min_length]
  have hlen1 : ((blk.take 32).take (31 - min embedLen d.length)).length = 31 - min embedLen d.length := by
    simp only [List.length_take]; omega
  have hlen2 : (d.take embedLen).length = min embedLen d.length := by simp [List.length_take]
  have hcl : (embedCand (some d) (blk.take 32)).length = 32 := by
    rw [hce]; simp only [List.length_append, hlen1, hlen2, List.length_singleton]; omega
  have hb : encodeBE 32 x = embedCand (some d) (blk.take 32) := by
    have := encodeBE_decodeBE (embedCand (some d) (blk.take 32))
    rw [hcl] at this
    rw [hx]; exact this
  have h0 : (UInt8.ofNat (min embedLen d.length)).toNat = min embedLen d.length := by
    simp only [UInt8.toNat_ofNat']; omega
  unfold data
  simp only
  rw [hb, hce]
  simp only [List.reverse_append, List.reverse_cons, List.reverse_nil, List.nil_append, List.cons_append]
  rw [h0, if_neg (by omega)]
  apply congrArg some
  -- the first 31 bytes are prefix ++ data; dropping the prefix leaves the data
  have h31 : (((blk.take 32).take (31 - min embedLen d.length)) ++ (d.take embedLen ++ [UInt8.ofNat (min embedLen d.length)])).take 31
      = ((blk.take 32).take (31 - min embedLen d.length)) ++ d.take embedLen := by
    rw [← List.append_assoc, List.take_append_of_le_length (by simp only [List.length_append, hlen1, hlen2]; omega)]
    rw [List.take_of_length_le (by simp only [List.length_append, hlen1, hlen2]; omega)]
  rw [h31, List.drop_append_of_le_length (by omega)]
  have : List.drop (31 - min embedLen d.length) ((blk.take 32).take (31 - min embedLen d.length)) = [] := by
    apply List.drop_eq_nil_of_le; omega
  rw [this, List.nil_append]

end P256

/-! ### BN256 G1 -/
namespace BN256
open Kyber.BN256 Kyber.Weierstrass Kyber.EmbedLib.BN256s

theorem embed_deterministic (d : Option Bytes) (s t : Bytes) (P : Nat × Nat) (m : Nat)
    (h : embed d s = some (P, m)) : embed d (s.take m ++ t) = some (P, m) := by
  unfold embed at h ⊢
  obtain ⟨_, _, hm⟩ := embedLoop_bounds _ _ _ _ _ _ _ h
  simp only [Nat.sub_zero] at hm
  apply embedLoop_prefix _ _ _ _ _ _ _ h
  · simp; omega
  · simp [List.length_take, Nat.min_eq_left hm]
  · simp; omega

theorem embed_valid (d : Option Bytes) (s : Bytes) (x y m : Nat) (h : embed d s = some ((x, y), m)) :
    onCurve curve (some (x, y)) = true ∧ x < p := by
  obtain ⟨blk, _, ht⟩ := embedLoop_try _ _ _ _ _ _ _ h
  obtain ⟨hx, hy⟩ := embedTry_some _ _ _ _ ht
  refine ⟨?_, hx ▸ Nat.mod_lt _ p_pos⟩
  apply decide_eq_true
  show _ % p = (x * x % p * x + 0 * x + 3) % p
  rw [hy]
  unfold rhs
  simp

/-- `Data (Embed d) = d.take EmbedLen`. -/
theorem embed_data (d s : Bytes) (x y m : Nat) (h : embed (some d) s = some ((x, y), m)) :
    data (some (x, y)) = some (d.take embedLen) := by
  obtain ⟨blk, hl, ht⟩ := embedLoop_try _ _ _ _ _ _ _ h
  obtain ⟨hx, _⟩ := embedTry_some _ _ _ _ ht
  have hel : embedLen = 29 := rfl
  have hdl : min embedLen d.length ≤ 29 := by omega
  have hce : embedCand (some d) blk =
      UInt8.ofNat (min embedLen d.length) :: (d.take embedLen ++ blk.drop (1 + min embedLen d.length)) := by
    show UInt8.ofNat (min embedLen d.length) :: (d.take (min embedLen d.length) ++ blk.drop (1 + min embedLen d.length)) = _
    rw [EmbedLib.Ed.take_min_length]
  have hcl : (embedCand (some d) blk).length = 32 := by
    rw [hce]; simp only [List.length_cons, List.length_append, List.length_take, List.length_drop, hl]; omega
  have h0 : (UInt8.ofNat (min embedLen d.length)).toNat = min embedLen d.length := by
    simp only [UInt8.toNat_ofNat']; omega
  -- the candidate is below the modulus: its first byte is at most 29
  have hlt : decodeBE (embedCand (some d) blk) < p := by
    have h1 : decodeBE (embedCand (some d) blk) = decodeLE (embedCand (some d) blk).reverse := decodeBE_eq_decodeLE_reverse _
    rw [h1, hce, List.reverse_cons]
    have hb := decodeLE_lt ((d.take embedLen ++ blk.drop (1 + min embedLen d.length)).reverse)
    have hlr : ((d.take embedLen ++ blk.drop (1 + min embedLen d.length)).reverse).length = 31 := by
      rw [hce] at hcl; simp only [List.length_cons] at hcl; simp only [List.length_reverse]; omega
    rw [hlr] at hb
    have happ : decodeLE ((d.take embedLen ++ blk.drop (1 + min embedLen d.length)).reverse ++ [UInt8.ofNat (min embedLen d.length)])
        = decodeLE ((d.take embedLen ++ blk.drop (1 + min embedLen d.length)).reverse) + 256 ^ 31 * min embedLen d.length := by
      rw [decodeLE_eq_decodeBE_reverse, List.reverse_append, List.reverse_reverse]
      simp only [List.reverse_cons, List.reverse_nil, List.nil_append, List.singleton_append]
      rw [decodeLE_eq_decodeBE_reverse, List.reverse_reverse]
      have hl31 : (d.take embedLen ++ blk.drop (1 + min embedLen d.length)).length = 31 := by
        rw [← List.length_reverse]; exact hlr
      generalize (d.take embedLen ++ blk.drop (1 + min embedLen d.length)) = tl at hl31 ⊢
      simp only [decodeBE, List.foldl_cons]
      have : ∀ (l : Bytes) (a : Nat), List.foldl (fun acc b => acc * 256 + b.toNat) a l = a * 256 ^ l.length + List.foldl (fun acc b => acc * 256 + b.toNat) 0 l := by
        intro l
        induction l with
        | nil => intro a; simp
        | cons c l ih => intro a; simp only [List.foldl_cons, List.length_cons]; rw [ih, ih (0 * 256 + c.toNat)]; ring
      rw [this tl, hl31, h0]; ring
    rw [happ]
    have : p > 30 * 256 ^ 31 := by norm_num [p]
    nlinarith [hb, hdl]
  unfold data
  rw [hx, Nat.mod_eq_of_lt hlt]
  have hb : encodeBE 32 (decodeBE (embedCand (some d) blk)) = embedCand (some d) blk := by
    have := encodeBE_decodeBE (embedCand (some d) blk)
    rwa [hcl] at this
  simp only
  rw [hb, hce]
  simp only
  rw [h0, if_neg (by omega)]
  apply congrArg some
  rw [List.take_append_of_le_length (by simp [List.length_take])]
  rw [List.take_take]
  have : min (min embedLen d.length) embedLen = min embedLen d.length := by omega
  rw [this]
  exact EmbedLib.Ed.take_min_length d embedLen

end BN256

/-! ### Residue group -/
namespace Residue
open Kyber.Residue

theorem embed_deterministic (P Q : Nat) (d : Option Bytes) (s t : Bytes) (v m : Nat)
    (h : embed P Q d s = some (v, m)) : embed P Q d (s.take m ++ t) = some (v, m) := by
  unfold embed at h ⊢
  obtain ⟨_, _, hm⟩ := embedLoop_bounds _ _ _ _ _ _ _ h
  simp only [Nat.sub_zero] at hm
  apply embedLoop_prefix _ _ _ _ _ _ _ h
  · simp; omega
  · simp [List.length_take, Nat.min_eq_left hm]
  · simp; omega

/-- The returned value passed `Valid`: in range and of order dividing `Q`. -/
theorem embed_valid (P Q : Nat) (d : Option Bytes) (s : Bytes) (v m : Nat) (h : embed P Q d s = some (v, m)) :
    0 < v ∧ v < P ∧ (v : ZMod P) ^ Q = 1 := by
  obtain ⟨blk, _, ht⟩ := embedLoop_try _ _ _ _ _ _ _ h
  unfold embedTry at ht
  simp only at ht
  split_ifs at ht with h1
  cases ht
  simp only [valid, Bool.and_eq_true, decide_eq_true_eq] at h1
  refine ⟨h1.1.1, h1.1.2, ?_⟩
  have := powMod_spec (decodeBE (embedCand P d (Scalar.maskBits (Scalar.bitLen P) blk))) Q P
  rw [h1.2] at this
  simpa using this.symm

end Residue

/-! ### RFC 9380 pieces for edwards25519 -/
namespace H2C
open Kyber.H2C


/-- `expand_message_xmd` returns exactly the requested number of bytes (when it does not refuse). -/
theorem expandXmd_length (msg dst out : Bytes) (len : Nat) (h : expandXmd msg dst len = some out) :
    out.length = len := by
  unfold expandXmd at h
  split_ifs at h with h1
  simp only [Option.some.injEq] at h
  subst h
  rw [List.length_take]
  apply Nat.min_eq_left
  have hx : ∀ (b0 dstP : Bytes) (fuel i : Nat) (prev : Bytes), (xmdTail b0 dstP fuel i prev).length = 64 * fuel := by
    intro b0 dstP fuel
    induction fuel with
    | zero => intro i prev; rfl
    | succ f ih => intro i prev; simp only [xmdTail, List.length_append, sha512_length, ih]; omega
  rw [List.length_append, sha512_length, hx]
  omega

/-- It refuses exactly the parameters the code refuses (empty tag, more than 2040 bytes). -/
theorem expandXmd_none_iff (msg dst : Bytes) (len : Nat) :
    expandXmd msg dst len = none ↔ (255 < (len + 7) / 8 ∨ 65535 < len ∨ dst.length = 0) := by
  unfold expandXmd
  split_ifs with h1
  · exact ⟨fun _ => h1, fun _ => rfl⟩
  · exact ⟨fun h => (by cases h), fun h => absurd h h1⟩

/-- `hash_to_field` yields two reduced field elements. -/
theorem hashToField_lt (msg dst : Bytes) (u0 u1 : Nat) (h : hashToField msg dst = some (u0, u1)) :
    u0 < Ed25519.p ∧ u1 < Ed25519.p := by
  unfold hashToField at h
  split at h
  · cases h
  · obtain ⟨rfl, rfl⟩ := Prod.mk.inj (Option.some.inj h)
    exact ⟨Nat.mod_lt _ ed_p_pos, Nat.mod_lt _ ed_p_pos⟩

/-- `Hash` is defined for every message and every tag, the empty one included. -/
theorem hash_total (msg dst : Bytes) : (H2C.hash msg dst).isSome = true := by
  unfold H2C.hash hashToField
  have hd : (if dst.length = 0 then defaultDst else dst).length ≠ 0 := by
    split_ifs with h0
    · decide +kernel
    · exact h0
  have : expandXmd msg (if dst.length = 0 then defaultDst else dst) 96 ≠ none := by
    rw [Ne, expandXmd_none_iff]
    omega
  cases hq : expandXmd msg (if dst.length = 0 then defaultDst else dst) 96 with
  | none => exact absurd hq this
  | some ub => rfl

/-- The Elligator 2 map lands on Curve25519: for every `u` the output `(xn, xd, y, 1)` satisfies
    `y²·xd³ = xn³ + J·xn²·xd + xn·xd²` in `ZMod p`, with `xd ≠ 0`. -/
theorem elligator_montgomery (u : Nat) :
    ((Ell2.y u : Nat) : ZMod Ed25519.p) ^ 2 * ((Ell2.xd u : Nat) : ZMod Ed25519.p) ^ 3 =
      ((Ell2.xn u : Nat) : ZMod Ed25519.p) ^ 3
        + ((J : Nat) : ZMod Ed25519.p) * ((Ell2.xn u : Nat) : ZMod Ed25519.p) ^ 2 * ((Ell2.xd u : Nat) : ZMod Ed25519.p)
        + ((Ell2.xn u : Nat) : ZMod Ed25519.p) * ((Ell2.xd u : Nat) : ZMod Ed25519.p) ^ 2 ∧
    ((Ell2.xd u : Nat) : ZMod Ed25519.p) ≠ 0 :=
  EllLib.ell2_onCurve u

/-- … and `mapToCurveElligator2Ed25519` returns a valid point of edwards25519 (reduced coordinates, on the
    curve) for EVERY field element. -/
theorem elligator_valid (u : Nat) : Ed25519.Valid (mapToEdwards u) := EllLib.mapToEdwards_valid u

theorem elligator_onCurve (u : Nat) : Ed25519.onCurve (mapToEdwards u) = true :=
  (Ed25519.onCurve_iff _).mpr (elligator_valid u).2.2

/-- `Hash` returns a valid curve point. -/
theorem hash_valid (msg dst : Bytes) (P : Edwards.Pt) (h : H2C.hash msg dst = some P) : Ed25519.Valid P := by
  unfold H2C.hash at h
  split at h
  · cases h
  · rw [← Option.some.inj h]
    exact Ed25519.valid_smul (Ed25519.valid_add (elligator_valid _) (elligator_valid _)) 8

/-- Partial (relative to `H_card25519`): the hash output lies in the subgroup of order `L`. -/
theorem hash_order_partial (hcard : C17.Ed25519.H_card25519) (msg dst : Bytes) (P : Edwards.Pt)
    (h : H2C.hash msg dst = some P) : Ed25519.smul Ed25519.L P = Edwards.zero := by
  unfold H2C.hash at h
  split at h
  · cases h
  · rename_i u0 u1 _
    rw [← Option.some.inj h]
    have hv := Ed25519.valid_add (elligator_valid u0) (elligator_valid u1)
    have h8 := Ed25519.valid_smul hv 8
    have hL := Ed25519.valid_smul h8 Ed25519.L
    apply Ed25519.toG_injective hL Ed25519.valid_zero
    rw [Ed25519.toG_smul h8, Ed25519.toG_smul hv, Ed25519.toG_zero, smul_smul, Nat.mul_comm]
    exact hcard _

end H2C
end Kyber.C17
