import KyberModel.Lib.ShuffleWitness
import KyberModel.Lib.ShuffleMisc
import KyberModel.Props.C14
import Mathlib.Tactic.NormNum.Prime
/-
C15 — verifiable shuffles verify only re-encryption permutations of the input.

Property theorems about the model `Kyber.Shuffle` (Proto/Shuffle.lean), at the level of the values a
proof contains (`PairView`) and the verification equations (`simpleCheck`, `pairCheck`) the driver
executes after parsing a proof. `pairCheck … false` is `PairShuffle.Verify` as coded, `pairCheck … true`
the repaired verifier (fixes/C15-pair-shuffle-unbound-simple-shuffle.patch).

Neff's probabilistic soundness argument (Schwartz–Zippel over the challenges) is not formalised; what
is proved about soundness is: the verifier as coded accepts a transcript for an output that is not a
shuffle (`pair_shuffle_unsound_as_coded`), every one of the protocol's verification equations is
necessary (`each_equation_necessary`), and the repaired verifier enforces the ties the coded one
lacks (`soundness_partial`).
-/
namespace Kyber.Shuffle
open Kyber Kyber.Scalar Kyber.Sigma

/-! ### Completeness -/

/-- **Simple k-shuffle, completeness**, for every `k ≥ 2`, permutation `π`, exponent `γ ≠ 0`, vector
    `x`, blinding `θ` and challenges `t, c` with `t` different from every `x_i`. -/
theorem simple_shuffle_complete {q : Nat} [Fact q.Prime] (hq2 : 2 < q) (k : Nat) (hk : 2 ≤ k) (g γ : Nat)
    (x y : Nat → Nat) (π : Equiv.Perm (Fin k))
    (hy : ∀ i : Fin k, (y i : ZMod q) = (γ : ZMod q) * (x (π i) : ZMod q))
    (t : Nat) (hγ : (γ : ZMod q) ≠ 0) (ht : ∀ i : Fin k, (x i : ZMod q) ≠ (t : ZMod q))
    (θ : Nat → Nat) (c : Nat) :
    simpleCheck q k g (mul q γ g) (fun i => mul q (x i) g) (fun i => mul q (y i) g) t
      (ssTheta q k g γ x y t θ) c (ssAlpha q k γ x y t θ c) = true :=
  simple_complete hq2 k hk g γ x y π hy t hγ ht θ c

/-- **Pair shuffle, completeness**, for every `k ≥ 2`, permutation, blinding factors, private
    randomness (`γ ≠ 0`) and challenges (`t` different from every `r_i`), against the verifier as
    coded (`bound = false`) and the repaired one (`bound = true`). -/
theorem pair_shuffle_complete {q : Nat} [Fact q.Prime] (hq2 : 2 < q) (k : Nat) (hk : 2 ≤ k) (g h : Nat)
    (π : Equiv.Perm (Fin k)) (pi : Nat → Nat) (hpi : ∀ i : Fin k, pi i = π i)
    (beta X Y Xbar Ybar : Nat → Nat) (R : PairRand) (θ rho : Nat → Nat) (lam t c : Nat)
    (hX : ∀ i : Fin k, (Xbar i : ZMod q) = (X (π i) : ZMod q) + (beta (π i) : ZMod q) * g)
    (hY : ∀ i : Fin k, (Ybar i : ZMod q) = (Y (π i) : ZMod q) + (beta (π i) : ZMod q) * h)
    (hγ : (R.gamma : ZMod q) ≠ 0)
    (ht : ∀ i : Fin k, ((pairR q R rho lam i : Nat) : ZMod q) ≠ (t : ZMod q)) (bound : Bool) :
    pairCheck q k g h X Y Xbar Ybar bound (pairProverView q k g h pi beta X Y R θ rho lam t c) = .ok () :=
  pair_complete hq2 k hk g h π pi hpi beta X Y Xbar Ybar R θ rho lam t c hX hY hγ ht bound

/-- The hypotheses of the completeness theorems are satisfiable (`q = 1009`, `k = 2`). -/
example : ∃ (π : Equiv.Perm (Fin 2)) (x : Nat → Nat) (t γ : Nat),
    ((γ : ZMod 1009) ≠ 0) ∧ ∀ i : Fin 2, (x i : ZMod 1009) ≠ (t : ZMod 1009) :=
  ⟨Equiv.swap 0 1, fun i => i + 5, 3, 2, by decide, by decide⟩

/-! ### Sequences: the random linear combination is again an honest pair-shuffle instance -/

/-- **Sequence shuffle reduces to the pair shuffle**: if every sequence `j` is shuffled with the same
    permutation (`X̄[j][i] = X[j][π i] + β[j][π i]·G`, same for `Y` with `H`), then for every `e` the
    combined vectors of `GetSequenceVerifiable` form an honest pair-shuffle statement with blinding
    `β₂ = Σ_j e_j β[j]` — so `pair_shuffle_complete` applies for every `NQ ≥ 1`. -/
theorem seq_reduces_to_pair {q : Nat} (k nq : Nat) (hnq : 1 ≤ nq) (base : Nat) (π : Equiv.Perm (Fin k))
    (e : Nat → Nat) (P Pbar beta : Nat → Nat → Nat)
    (hP : ∀ j, ∀ i : Fin k, (Pbar j i : ZMod q) = (P j (π i) : ZMod q) + (beta j (π i) : ZMod q) * base) :
    ∀ i : Fin k, ((seqCombine q nq e Pbar i : Nat) : ZMod q) =
      ((seqCombine q nq e P (π i) : Nat) : ZMod q) + ((seqBeta q nq e beta (π i) : Nat) : ZMod q) * base := by
  intro i
  unfold seqBeta
  rw [seqCombine_cast nq hnq, seqCombine_cast nq hnq, seqCombine_cast nq hnq, Finset.sum_mul, ← Finset.sum_add_distrib]
  apply Finset.sum_congr rfl
  intro j _
  rw [hP j i]; ring

/-! ### Soundness: what holds, and what fails for the verifier as coded -/

/-- **Partial soundness of the repaired verifier**: acceptance implies that the embedded simple
    shuffle is valid *and* that it is the instance `(A_i + λ·B_i, C_i + λ·D_i)`, `B_i = ρ_i·G − U_i`,
    together with (33)–(35). (That these imply the output is a shuffle except with negligible
    probability over `ρ, λ, t, c` is Neff's argument, not formalised.) -/
theorem soundness_partial (q k g h : Nat) (X Y Xbar Ybar : Nat → Nat) (v : PairView)
    (hacc : pairCheck q k g h X Y Xbar Ybar true v = .ok ()) :
    simpleCheck q k g v.Gamma v.sX v.sY v.t v.Theta v.c v.alpha = true ∧
    (∀ i < k, v.sX i = add q (v.A i) (mul q v.lam (sub q (mul q (v.rho i) g) (v.U i))) ∧
      v.sY i = add q (v.C i) (mul q v.lam (v.D i))) ∧
    (∀ i < k, mul q (v.sigma i) v.Gamma = add q (v.W i) (v.D i)) ∧
    add q v.L1 (mul q v.tau g) = pairPhi q k v X Xbar ∧ add q v.L2 (mul q v.tau h) = pairPhi q k v Y Ybar := by
  obtain ⟨h1, h2, h3, h4, h5⟩ := (pairCheck_props q k g h X Y Xbar Ybar true v).mp hacc
  have h2' := List.all_eq_true.mp (h2 rfl)
  have h3' := List.all_eq_true.mp h3
  refine ⟨h1, ?_, ?_, ?_, ?_⟩
  · intro i hi
    have := h2' i (List.mem_range.mpr hi)
    rw [Bool.and_eq_true] at this
    exact ⟨by simpa [bindX] using this.1, by simpa [bindY] using this.2⟩
  · intro i hi
    have := h3' i (List.mem_range.mpr hi)
    simpa [eq33] using this
  · simpa [eq345] using h4
  · simpa [eq345] using h5

/-- The statement of the witnesses: `q = 1009`, `k = 2`, an output that is not a shuffle. -/
theorem witness_not_shuffle : ¬ IsShuffle wQ 2 wG wH wX wY wXbar wYbar := by
  intro hs
  obtain ⟨j, hj⟩ := hs.slot 0
  fin_cases j
  · revert hj; simp only [wQ, wG, wH, wX, wY, wXbar, wYbar, ofList]; decide
  · revert hj; simp only [wQ, wG, wH, wX, wY, wXbar, wYbar, ofList]; decide

/-- **The verifier as coded is unsound**: there is a statement whose output is *not* a permutation
    of re-encryptions of its input and a transcript that `PairShuffle.Verify` (model of the code as
    it stands) accepts; the repaired verifier rejects the same transcript. -/
theorem pair_shuffle_unsound_as_coded :
    ∃ (q k g h : Nat) (X Y Xbar Ybar : Nat → Nat) (v : PairView), q.Prime ∧ 2 ≤ k ∧
      ¬ IsShuffle q k g h X Y Xbar Ybar ∧
      pairCheck q k g h X Y Xbar Ybar false v = .ok () ∧
      pairCheck q k g h X Y Xbar Ybar true v = .error .unbound := by
  refine ⟨wQ, 2, wG, wH, wX, wY, wXbar, wYbar, witnessView 4, by norm_num [wQ], le_refl _, witness_not_shuffle, ?_, ?_⟩
  · decide +kernel
  · decide +kernel

/-- **Every verification equation is necessary** (`k = 2`): for each of the 12 equations of the
    protocol — 4 chain equations of the simple shuffle, 2 + 2 ties of the simple shuffle to
    `A + λB`, `C + λD`, 2 equations (33), (34), (35) — there is a transcript for an output that is not
    a shuffle which satisfies all the other equations. A verifier that skips any one of them accepts
    a non-shuffle; these witnesses are the forged-transcript families of the correspondence check. -/
theorem each_equation_necessary : ∀ n < 12,
    ¬ IsShuffle wQ 2 wG wH wX wY wXbar wYbar ∧
    (pairEqs wQ 2 wG wH wX wY wXbar wYbar (witnessView n)).length = 12 ∧
    ∀ m < 12, (pairEqs wQ 2 wG wH wX wY wXbar wYbar (witnessView n)).getD m true = (m != n) := by
  intro n hn
  refine ⟨witness_not_shuffle, ?_, ?_⟩
  · interval_cases n <;> decide +kernel
  · interval_cases n <;> decide +kernel

/-! ### Biffle -/

/-- **Biffle, completeness** (both permutations): with `bit = 0` (identity) or `bit = 1` (swap),
    outputs `X̄_i = X_{i⊕bit} + β_{i⊕bit}·G`, `Ȳ_i = Y_{i⊕bit} + β_{i⊕bit}·H`, the `Or`-of-`And` proof
    produced by `HashProve` is accepted, for every oracle and randomness (corollary of C14's
    `hash_complete_or`). -/
theorem biffle_complete (E : Params) (hq : 0 < E.q) (hc : E.cd.Lawful E.q) (g h : Nat)
    (X Y Xbar Ybar beta rnd : Nat → Nat) (bit : Nat) (hbit : bit < 2)
    (hpv : E.pval = bifflePoints E.q g h X Y Xbar Ybar) (hsv : E.sv = svars bifflePred)
    (hX : ∀ i < 2, (Xbar i : ZMod E.q) = (X ((i + bit) % 2) : ZMod E.q) + (beta ((i + bit) % 2) : ZMod E.q) * g)
    (hY : ∀ i < 2, (Ybar i : ZMod E.q) = (Y ((i + bit) % 2) : ZMod E.q) + (beta ((i + bit) % 2) : ZMod E.q) * h) :
    ∃ π, hashProve E beta rnd bifflePred [bit] = .ok π ∧ hashVerify E bifflePred π = .ok () := by
  have hx0 := hX 0 (by omega)
  have hx1 := hX 1 (by omega)
  have hy0 := hY 0 (by omega)
  have hy1 := hY 1 (by omega)
  interval_cases bit
  · -- identity: branch 0
    have := hash_complete_or E hq hc beta rnd [] biffleScope0 [biffleScope1] (by rw [hsv]; rfl) ?_
    · simpa [bifflePred_eq] using this
    · intro rp hrp
      simp only [biffleScope0, Scope.reps, List.mem_cons, List.mem_nil_iff, or_false] at hrp
      simp only [Nat.add_zero, Nat.zero_mod, Nat.one_mod] at hx0 hx1 hy0 hy1
      rcases hrp with rfl | rfl | rfl | rfl <;>
        simp only [RepS.holds, linComb, List.map_cons, List.map_nil, List.sum_cons, List.sum_nil, hpv, bifflePoints,
          ofList, List.getD_cons_zero, List.getD_cons_succ, sub_cast hq, add_zero]
      · rw [hx0]; ring
      · rw [hy0]; ring
      · rw [hx1]; ring
      · rw [hy1]; ring
  · -- swap: branch 1
    have := hash_complete_or E hq hc beta rnd [biffleScope0] biffleScope1 [] (by rw [hsv]; rfl) ?_
    · simpa [bifflePred_eq] using this
    · intro rp hrp
      simp only [biffleScope1, Scope.reps, List.mem_cons, List.mem_nil_iff, or_false] at hrp
      have e0 : (0 + 1) % 2 = 1 := rfl
      have e1 : (1 + 1) % 2 = 0 := rfl
      rw [e0] at hx0 hy0
      rw [e1] at hx1 hy1
      rcases hrp with rfl | rfl | rfl | rfl <;>
        simp only [RepS.holds, linComb, List.map_cons, List.map_nil, List.sum_cons, List.sum_nil, hpv, bifflePoints,
          ofList, List.getD_cons_zero, List.getD_cons_succ, sub_cast hq, add_zero]
      · rw [hx0]; ring
      · rw [hy0]; ring
      · rw [hx1]; ring
      · rw [hy1]; ring

end Kyber.Shuffle
