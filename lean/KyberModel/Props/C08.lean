import KyberModel.Lib.SigAlg
import KyberModel.Lib.SigBytes
import KyberModel.Lib.SigEd
import KyberModel.Lib.SigRfcVectors
/-
C08 — Schnorr, EdDSA and ring signatures accept exactly honest signatures.

Property theorems only (helpers: `Lib/SigAlg.lean`, `Lib/SigBytes.lean`, `Lib/SigEd.lean`; RFC 8032 test
vectors evaluated in the kernel: `Lib/SigRfcVectors.lean`). The models are the definitions the driver
executes: `Proto/Schnorr.lean`, `Proto/RingSig.lean` (discrete-log representation, Fiat–Shamir values as
oracle inputs) and `Proto/Eddsa.lean` (Ed25519 and SHA-512 concretely, byte for byte).

Reading guide for the tamper statements (`H_RO`): a Fiat–Shamir challenge is an oracle value. A field
that enters ONLY through the hash (message, scope) can only be changed if the two oracle values
coincide (or a key is the identity). A field that enters the verification equation algebraically
(`R`, `s`, key, `sᵢ`, ring member, tag, `c₀`) cannot be changed at all while the oracle values stay as
they are, except in the stated degenerate cases (challenge `0`, key `O`) — and changing the oracle
values means finding an oracle collision, which the ring theorems make explicit (`Collision`).

Hypotheses that are not yet theorems of this tree are explicit arguments: `EdLaws G` (group law of the
executable Ed25519 model, `L•B = O`, `dec ∘ enc = id`; see `Lib/SigEd.lean`), `Nat.Prime Ed25519.p`,
`Nat.Prime Ed25519.L`, and for the discrete-log models `[Fact q.Prime]`.
-/
namespace Kyber.C08
open Kyber

/-! ## 1. Ed25519 canonicity and small-order predicates -/
section predicates
open Kyber.Eddsa Kyber.Ed25519

/-- `point.IsCanonical bs ⇔ |bs| = 32 ∧ y(bs) < p` for ALL byte strings (the hand model of the
    constant-time loop, not an enumeration). -/
theorem point_isCanonical_iff (bs : Bytes) :
    ptIsCanonical bs = true ↔ bs.length = 32 ∧ decodeLE bs % 2 ^ 255 < p :=
  SigBytes.ptIsCanonical_iff bs

/-- The model's arithmetic `isCanonical` of `Groups/Edwards.lean` is the coded predicate. -/
theorem point_isCanonical_eq_model (bs : Bytes) : ptIsCanonical bs = Ed25519.isCanonical bs := by
  rw [Bool.eq_iff_iff, point_isCanonical_iff]
  unfold Ed25519.isCanonical
  simp

/-- `scalar.IsCanonical sb ⇔ |sb| = 32 ∧ decodeLE sb < L` for ALL byte strings. -/
theorem scalar_isCanonical_iff (sb : Bytes) :
    scIsCanonical sb = true ↔ sb.length = 32 ∧ decodeLE sb < L :=
  SigBytes.scIsCanonical_iff sb

/-- `HasSmallOrder` matches exactly the table: it answers `true` iff the low 255 bits of the marshalled
    point are one of the five `weakKeys` entries. -/
theorem hasSmallOrder_iff_table (P : Edwards.Pt) :
    hasSmallOrder P = true ↔
      ∃ w ∈ weakKeys, (enc P).take 31 = w.take 31 ∧ ((enc P).getD 31 0 &&& 0x7f) = w.getD 31 0 :=
  SigBytes.hasSmallOrderBytes_iff (enc P) (SigEd.enc_length P)

/-- Every `weakKeys` entry, with either sign bit, decodes to a point `P` with `8•P = O` (kernel
    evaluation in the curve model over the finite table). -/
theorem weakKeys_order_dvd_8 (w : Bytes) (hw : w ∈ weakKeys) (e : Bytes) (he : e = w ∨ e = SigEd.setSign w) :
    ∃ P, dec e = some P ∧ smul 8 P = Edwards.zero := by
  have hmem : e ∈ SigEd.torsionEncodings := by
    unfold SigEd.torsionEncodings
    rw [List.mem_flatMap]
    refine ⟨w, hw, ?_⟩
    rcases he with rfl | rfl
    · exact List.mem_cons_self
    · exact List.mem_cons_of_mem _ List.mem_cons_self
  have h8 := SigEd.torsion_order8 e hmem
  unfold SigEd.order8 at h8
  cases hd : dec e with
  | none => rw [hd] at h8; exact absurd h8 (by simp)
  | some P => exact ⟨P, rfl, SigEd.order8_of_dec hd (by unfold SigEd.order8; rw [hd]; rw [hd] at h8; exact h8)⟩

/-- `HasSmallOrder P → 8•P = O` for every valid point (uses `dec (enc P) = some P` from `EdLaws`). -/
theorem hasSmallOrder_imp_order_dvd_8 {G : Type} [AddCommGroup G] (E : SigEd.EdLaws G) {P : Edwards.Pt}
    (hP : SigEd.Valid P) (h : hasSmallOrder P = true) : smul 8 P = Edwards.zero :=
  SigEd.hasSmallOrder_smul8 E hP h

/- Full statement of the converse: `Valid P → smul 8 P = Edwards.zero → hasSmallOrder P = true`.
   It needs that the curve has exactly eight points killed by 8, i.e. the group order `#E(F_p) = 8·L`
   (`H_card25519`), which is not available. Proved part: the eight torsion points the table describes
   (and their two non-canonical "-0" encodings) are all recognised. -/
/-- Each of the ten torsion encodings decodes to a point that `HasSmallOrder` recognises. -/
theorem order_dvd_8_imp_hasSmallOrder_partial :
    SigEd.torsionEncodings.all (fun e => match dec e with
      | some P => hasSmallOrder P
      | none => false) = true := by decide +kernel

end predicates

/-! ## 2. Schnorr (`sign/schnorr`), discrete-log model -/
section schnorr
open Kyber.SigAlg Kyber.Schnorr
variable {q : Nat}

/-- **Completeness of Schnorr** in every prime-order (indeed any) group: for every private key `x`, nonce
    `k` and oracle value `h`, the signature `(k•B, k + x·h)` satisfies `s•B = R + h•(x•B)`. -/
theorem schnorr_complete (x k h : Nat) :
    equation q (mulBase q x) (sign q x k h).R (sign q x k h).s h = true := by
  rw [equation_iff]
  simp only [sign, mulBase, Scalar.add, Scalar.mul, ZMod.natCast_mod, Nat.cast_add, Nat.cast_mul]
  ring

set_option linter.unusedSimpArgs false in
/-- Decision logic of `schnorr.VerifyWithChecks`: `ok` exactly when the length is right, `R`, `s`, `A`
    decode, every check the group offers passes, and the equation holds. -/
theorem schnorr_verify_ok_iff (g : GroupDesc) (pub sig : Bytes) (h : Nat) :
    verifyWithChecks g pub sig h = .ok ↔
      sig.length = g.scalarLen + g.pointLen ∧
      ∃ R s A, g.decPoint (sig.take g.pointLen) = some R ∧ g.decScalar (sig.drop g.pointLen) = some s ∧
        g.decPoint pub = some A ∧
        offers g.ptCanonical (sig.take g.pointLen) true = true ∧ offers g.ptSmallOrder R false = false ∧
        offers g.scCanonical (sig.drop g.pointLen) true = true ∧ offers g.inCorrectGroup R true = true ∧
        offers g.ptCanonical pub true = true ∧ offers g.ptSmallOrder A false = false ∧
        equation g.q A R s h = true := by
  unfold verifyWithChecks
  by_cases h1 : sig.length = g.scalarLen + g.pointLen
  swap
  · simp [h1]
  simp only [h1, ne_eq, not_true_eq_false, if_false, true_and]
  cases hR : g.decPoint (sig.take g.pointLen) with
  | none => simp
  | some R =>
    cases hc1 : offers g.ptCanonical (sig.take g.pointLen) true <;>
    cases hc2 : offers g.ptSmallOrder R false <;>
    cases hc3 : offers g.scCanonical (sig.drop g.pointLen) true <;>
    cases hc4 : offers g.inCorrectGroup R true <;>
    simp only [hc1, hc2, hc3, hc4, Option.some.injEq, Bool.not_true, Bool.not_false, Bool.false_eq_true,
      if_true, if_false, reduceCtorEq, false_iff, not_exists, not_and, true_and, false_and,
      exists_false, and_false, not_false_eq_true, implies_true, exists_eq_left']
    all_goals try (intros; simp_all)
    cases hS : g.decScalar (sig.drop g.pointLen) with
    | none => simp
    | some s =>
      cases hA : g.decPoint pub with
      | none => simp
      | some A =>
        cases hc5 : offers g.ptCanonical pub true <;>
        cases hc6 : offers g.ptSmallOrder A false <;>
        cases hc7 : equation g.q A R s h <;>
        simp [hc5, hc6, hc7]

section tamper
variable [Fact q.Prime]

/-- Tampering with the message (it enters only through the oracle): same `(A, R, s)` accepted with oracle
    values `h` and `h′` ⇒ the two oracle values coincide or the key is the identity. -/
theorem schnorr_tamper_msg (A R s h h' : Nat) (e : equation q A R s h = true) (e' : equation q A R s h' = true) :
    h % q = h' % q ∨ A % q = 0 := by
  rw [equation_iff] at e e'
  have : ((h : ZMod q) - h') * A = 0 := by linear_combination e' - e
  rcases mul_eq_zero.mp this with h0 | h0
  · left; exact (mod_eq_iff_cast _ _).mpr (sub_eq_zero.mp h0)
  · right; exact (cast_eq_zero_iff_mod _).mp h0

omit [Fact q.Prime] in
/-- Tampering with `s` (oracle value unchanged): impossible — the two responses are equal. With the
    decoders' range check `s, s′ < q` this is equality of the encoded values. -/
theorem schnorr_tamper_s (A R s s' h : Nat) (e : equation q A R s h = true) (e' : equation q A R s' h = true) :
    s % q = s' % q := by
  rw [equation_iff] at e e'
  exact (mod_eq_iff_cast _ _).mpr (e.trans e'.symm)

omit [Fact q.Prime] in
/-- Tampering with `R` (oracle value unchanged): the two commitments are equal. -/
theorem schnorr_tamper_R (A R R' s h : Nat) (e : equation q A R s h = true) (e' : equation q A R' s h = true) :
    R % q = R' % q := by
  rw [equation_iff] at e e'
  exact (mod_eq_iff_cast _ _).mpr (by linear_combination e' - e)

/-- Tampering with the key (oracle value unchanged): the keys are equal or the oracle value is zero. -/
theorem schnorr_tamper_key (A A' R s h : Nat) (e : equation q A R s h = true) (e' : equation q A' R s h = true) :
    A % q = A' % q ∨ h % q = 0 := by
  rw [equation_iff] at e e'
  have : (h : ZMod q) * ((A : ZMod q) - A') = 0 := by linear_combination e' - e
  rcases mul_eq_zero.mp this with h0 | h0
  · right; exact (cast_eq_zero_iff_mod _).mp h0
  · left; exact (mod_eq_iff_cast _ _).mpr (sub_eq_zero.mp h0)

end tamper

/-- The same four statements in any `ZMod q`-module (every prime-order group): completeness. -/
theorem schnorr_complete_module {G : Type*} [AddCommGroup G] [Fact q.Prime] [Module (ZMod q) G]
    (B : G) (x k h : ZMod q) : (k + x * h) • B = k • B + h • (x • B) :=
  schnorr_complete_abs B x k h

/-- … and message tampering: two challenges for the same `(A, R, s)` coincide or `A = O`. -/
theorem schnorr_tamper_msg_module {G : Type*} [AddCommGroup G] [Fact q.Prime] [Module (ZMod q) G]
    (B R A : G) (s h h' : ZMod q) (h1 : s • B = R + h • A) (h2 : s • B = R + h' • A) : h = h' ∨ A = 0 :=
  schnorr_two_challenges B R A s h h' h1 h2

/-- … tampering with `s` (base point ≠ O). -/
theorem schnorr_tamper_s_module {G : Type*} [AddCommGroup G] [Fact q.Prime] [Module (ZMod q) G]
    (B R A : G) (hB : B ≠ 0) (s s' h : ZMod q) (h1 : s • B = R + h • A) (h2 : s' • B = R + h • A) : s = s' :=
  schnorr_two_s B R A hB s s' h h1 h2

/-- … tampering with `R`. -/
theorem schnorr_tamper_R_module {G : Type*} [AddCommGroup G] [Fact q.Prime] [Module (ZMod q) G]
    (B R R' A : G) (s h : ZMod q) (h1 : s • B = R + h • A) (h2 : s • B = R' + h • A) : R = R' :=
  schnorr_two_R B R R' A s h h1 h2

/-- … tampering with the key: equal keys or challenge `0`. -/
theorem schnorr_tamper_key_module {G : Type*} [AddCommGroup G] [Fact q.Prime] [Module (ZMod q) G]
    (B R A A' : G) (s h : ZMod q) (h1 : s • B = R + h • A) (h2 : s • B = R + h • A') : A = A' ∨ h = 0 :=
  schnorr_two_keys B R A A' s h h1 h2

example : equation 7 3 2 5 1 = true := by decide
example : verifyWithChecks (dlgroup 251 1) [1, 9] [1, 5, 14] 1 = .ok := by decide

end schnorr

/-! ## 3. Ring signature (`sign/anon/sig.go`), discrete-log model -/
section ring
open Kyber.SigAlg Kyber.RingSig
variable {q : Nat}

/-- Decision logic of `Verify`. -/
theorem ring_verify_iff (H : Nat → Option Nat → Nat) (ring : List Nat) (hb : Option Nat) (sig : Sig) :
    verify q H ring hb sig = true ↔
      hb.isSome = sig.tag.isSome ∧ sig.s.length = ring.length ∧
      chain q H (linkOf hb sig.tag) sig.c0 (sig.s.zip ring) % q = sig.c0 % q := by
  unfold verify
  by_cases h1 : hb.isSome = sig.tag.isSome
  swap
  · simp [h1]
  by_cases h2 : sig.s.length = ring.length
  swap
  · simp [h1, h2]
  simp [h1, h2]

/-- **Completeness of the ring signature**, every ring size `n ≥ 1` (`before.length + 1 + after.length`),
    every signer position (`before.length`), unlinkable (`hb = none`) or linkable (`hb = some base`),
    every oracle `H`, commitment `u` and choice of the other responses: `Verify` accepts what `Sign` made. -/
theorem ring_complete (hq : 0 < q) (H : Nat → Option Nat → Nat) (x : Nat) (hb : Option Nat)
    (before after : List Nat) (u : Nat) (sb sa : List Nat)
    (hsb : sb.length = before.length) (hsa : sa.length = after.length) :
    verify q H (before ++ (x % q) :: after) hb (sign q H x hb before after u sb sa) = true := by
  rw [ring_verify_iff]
  unfold sign
  simp only
  refine ⟨by cases hb <;> rfl, by simp [hsb, hsa], ?_⟩
  have hlink : linkOf hb (hb.map fun b => x * b % q) = hb.map fun b => (b, x * b % q) := by
    cases hb <;> rfl
  rw [hlink, List.zip_append hsb, List.zip_cons_cons, chain_append, chain_cons]
  congr 2
  unfold step
  simp only
  rw [pg_signer hq]
  cases hb with
  | none => rfl
  | some b => simp only [Option.map_some]; rw [ph_signer hq]

/-- The same for `Sign(…, mine = pi, …)` on a ring given as one list: any position `pi < n` whose entry
    is the signer's public key. -/
theorem ring_complete_at (hq : 0 < q) (H : Nat → Option Nat → Nat) (x : Nat) (hb : Option Nat)
    (ring : List Nat) (pi : Nat) (u : Nat) (svals : List Nat)
    (hpi : pi < ring.length) (hkey : ring[pi]'hpi = x % q) (hs : svals.length = ring.length) :
    verify q H ring hb (signAt q H x hb ring pi u svals) = true := by
  unfold signAt
  have hring : ring = ring.take pi ++ (x % q) :: ring.drop (pi + 1) := by
    rw [← hkey]
    conv_lhs => rw [← List.take_append_drop pi ring]
    congr 1
    exact List.drop_eq_getElem_cons hpi
  conv_lhs => arg 3; rw [hring]
  apply ring_complete hq
  · simp [hs]
  · simp [hs]

section tamper
variable [Fact q.Prime]

/-- Tampering with one response `s_j`: if `(c₀, …s_j…, tag)` and `(c₀, …s_j′…, tag)` are both accepted for
    the same ring, message and scope, then `s_j ≡ s_j′`, or the oracle has a collision (two different
    queries with the same answer), or a ring key after position `j` is the identity. -/
theorem ring_tamper_response (H : Nat → Option Nat → Nat) (hb tag : Option Nat) (c0 : Nat)
    (preS postS preL postL : List Nat) (sj sj' Lj : Nat)
    (hpre : preS.length = preL.length)
    (h : verify q H (preL ++ Lj :: postL) hb ⟨c0, preS ++ sj :: postS, tag⟩ = true)
    (h' : verify q H (preL ++ Lj :: postL) hb ⟨c0, preS ++ sj' :: postS, tag⟩ = true) :
    sj % q = sj' % q ∨ Collision q H ∨ ∃ L ∈ postL, (L : ZMod q) = 0 := by
  by_contra hcon
  push Not at hcon
  obtain ⟨hne, hcol, hL⟩ := hcon
  obtain ⟨_, _, e⟩ := (ring_verify_iff H _ hb _).mp h
  obtain ⟨_, _, e'⟩ := (ring_verify_iff H _ hb _).mp h'
  simp only at e e'
  rw [List.zip_append hpre, List.zip_cons_cons, chain_append, chain_cons] at e e'
  have hend := e.trans e'.symm
  have hstart := chain_start_eq_of_end_eq hcol _ _ _ (zip_keys_ne_zero hL) _ _ hend
  unfold step at hstart
  have hq := (query_eq_of_no_collision hcol hstart).1
  have hc := congrArg (fun n : Nat => (n : ZMod q)) hq
  simp only [pg_cast] at hc
  exact hne ((mod_eq_iff_cast _ _).mpr (add_right_cancel hc))

/-- Tampering with one ring member `L_j`: if the same signature is accepted for rings that differ in
    position `j` only, then `L_j = L_j′`, or the challenge at position `j` is zero, or the oracle has a
    collision, or a ring key after position `j` is the identity. -/
theorem ring_tamper_member (H : Nat → Option Nat → Nat) (hb : Option Nat) (sig : Sig)
    (preS postS preL postL : List Nat) (sj Lj Lj' : Nat)
    (hs : sig.s = preS ++ sj :: postS) (hpre : preS.length = preL.length)
    (h : verify q H (preL ++ Lj :: postL) hb sig = true)
    (h' : verify q H (preL ++ Lj' :: postL) hb sig = true) :
    Lj % q = Lj' % q ∨ chain q H (linkOf hb sig.tag) sig.c0 (preS.zip preL) % q = 0 ∨
      Collision q H ∨ ∃ L ∈ postL, (L : ZMod q) = 0 := by
  by_contra hcon
  push Not at hcon
  obtain ⟨hne, hc0, hcol, hL⟩ := hcon
  obtain ⟨_, _, e⟩ := (ring_verify_iff H _ hb _).mp h
  obtain ⟨_, _, e'⟩ := (ring_verify_iff H _ hb _).mp h'
  rw [hs, List.zip_append hpre, List.zip_cons_cons, chain_append, chain_cons] at e e'
  have hend := e.trans e'.symm
  have hstart := chain_start_eq_of_end_eq hcol _ _ _ (zip_keys_ne_zero hL) _ _ hend
  unfold step at hstart
  have hq := (query_eq_of_no_collision hcol hstart).1
  have hc := congrArg (fun n : Nat => (n : ZMod q)) hq
  simp only [pg_cast] at hc
  have hmul : ((chain q H (linkOf hb sig.tag) sig.c0 (preS.zip preL) : Nat) : ZMod q) * ((Lj : ZMod q) - Lj') = 0 := by
    linear_combination hc
  rcases mul_eq_zero.mp hmul with h0 | h0
  · exact hc0 ((cast_eq_zero_iff_mod _).mp h0)
  · exact hne ((mod_eq_iff_cast _ _).mpr (sub_eq_zero.mp h0))

/-- Tampering with the linkage tag: if `(c₀, s, t)` and `(c₀, s, t′)` are both accepted (linkable mode, ring
    size ≥ 1), then `t = t′`, or `c₀ = 0`, or the oracle has a collision, or a ring key after the first is
    the identity. -/
theorem ring_tamper_tag (H : Nat → Option Nat → Nat) (b t t' c0 s0 L0 : Nat) (ss Ls : List Nat)
    (h : verify q H (L0 :: Ls) (some b) ⟨c0, s0 :: ss, some t⟩ = true)
    (h' : verify q H (L0 :: Ls) (some b) ⟨c0, s0 :: ss, some t'⟩ = true) :
    t % q = t' % q ∨ c0 % q = 0 ∨ Collision q H ∨ ∃ L ∈ Ls, (L : ZMod q) = 0 := by
  by_contra hcon
  push Not at hcon
  obtain ⟨hne, hc0, hcol, hL⟩ := hcon
  obtain ⟨_, _, e⟩ := (ring_verify_iff H _ _ _).mp h
  obtain ⟨_, _, e'⟩ := (ring_verify_iff H _ _ _).mp h'
  simp only [linkOf, List.zip_cons_cons, chain_cons] at e e'
  have hend := e.trans e'.symm
  have hstart := chain_start_eq_of_end_eq hcol _ _ _ (zip_keys_ne_zero hL) _ _ hend
  unfold step at hstart
  have hq := (query_eq_of_no_collision hcol hstart).2
  unfold ph at hq
  simp only [Option.map_some, Option.some.injEq] at hq
  have hc := congrArg (fun n : Nat => (n : ZMod q)) hq
  simp only [ZMod.natCast_mod, Nat.cast_add, Nat.cast_mul] at hc
  have hmul : (c0 : ZMod q) * ((t : ZMod q) - t') = 0 := by linear_combination hc
  rcases mul_eq_zero.mp hmul with h0 | h0
  · exact hc0 ((cast_eq_zero_iff_mod _).mp h0)
  · exact hne ((mod_eq_iff_cast _ _).mpr (sub_eq_zero.mp h0))

/-- `c₀` is pinned by the closing oracle value: without collisions and with all ring keys ≠ O, two runs of
    the ring over the same responses that end in the same value started from the same `c₀`; since an
    accepted signature's run ends in its own `c₀`, the map `c₀ ↦ closing value` has at most one accepted
    fixed point per closing value. -/
theorem ring_c0_injective (H : Nat → Option Nat → Nat) (link : Link) (ss Ls : List Nat) (c0 c0' : Nat)
    (hcol : ¬ Collision q H) (hL : ∀ L ∈ Ls, (L : ZMod q) ≠ 0)
    (hend : chain q H link c0 (ss.zip Ls) % q = chain q H link c0' (ss.zip Ls) % q) :
    c0 % q = c0' % q :=
  chain_start_eq_of_end_eq hcol link link _ (zip_keys_ne_zero hL) _ _ hend

end tamper

/-- Tampering with `c₀` alone: two accepted signatures that differ only in `c₀` have closing oracle
    values `c₀` and `c₀′` respectively — the verifier compares `c₀` exactly with the closing value. -/
theorem ring_tamper_c0 (H : Nat → Option Nat → Nat) (ring : List Nat) (hb tag : Option Nat) (ss : List Nat)
    (c0 c0' : Nat) (h : verify q H ring hb ⟨c0, ss, tag⟩ = true) (h' : verify q H ring hb ⟨c0', ss, tag⟩ = true)
    (hsame : chain q H (linkOf hb tag) c0 (ss.zip ring) % q = chain q H (linkOf hb tag) c0' (ss.zip ring) % q) :
    c0 % q = c0' % q := by
  obtain ⟨_, _, e⟩ := (ring_verify_iff H _ _ _).mp h
  obtain ⟨_, _, e'⟩ := (ring_verify_iff H _ _ _).mp h'
  simp only at e e'
  rw [← e, ← e', hsame]

/-- Tampering with the message or the scope (they select the oracle): if the same ring and signature are
    accepted under two oracles, the two closing oracle values coincide. -/
theorem ring_tamper_msg (H H' : Nat → Option Nat → Nat) (ring : List Nat) (hb : Option Nat) (sig : Sig)
    (h : verify q H ring hb sig = true) (h' : verify q H' ring hb sig = true) :
    chain q H (linkOf hb sig.tag) sig.c0 (sig.s.zip ring) % q =
      chain q H' (linkOf hb sig.tag) sig.c0 (sig.s.zip ring) % q := by
  obtain ⟨_, _, e⟩ := (ring_verify_iff H _ _ _).mp h
  obtain ⟨_, _, e'⟩ := (ring_verify_iff H' _ _ _).mp h'
  rw [e, e']

/-! ### Linkage tags -/

/-- Same key, same scope base ⇒ same tag, whatever the ring, position, message, commitment, responses. -/
theorem ring_tag_same (H H' : Nat → Option Nat → Nat) (x b : Nat) (before after before' after' : List Nat)
    (u u' : Nat) (sb sa sb' sa' : List Nat) :
    (sign q H x (some b) before after u sb sa).tag = (sign q H' x (some b) before' after' u' sb' sa').tag := rfl

/-- The tag is `x•H(scope)`. -/
theorem ring_tag_eq (H : Nat → Option Nat → Nat) (x b : Nat) (before after : List Nat) (u : Nat) (sb sa : List Nat) :
    (sign q H x (some b) before after u sb sa).tag = some (x * b % q) := rfl

/-- Equal tags for different keys ⇒ the scope base is the identity. -/
theorem ring_tag_inj_key [Fact q.Prime] (x x' b : Nat) (h : x * b % q = x' * b % q) :
    x % q = x' % q ∨ b % q = 0 := by
  have hc := (mod_eq_iff_cast _ _).mp h
  push_cast at hc
  have : ((x : ZMod q) - x') * b = 0 := by linear_combination hc
  rcases mul_eq_zero.mp this with h0 | h0
  · left; exact (mod_eq_iff_cast _ _).mpr (sub_eq_zero.mp h0)
  · right; exact (cast_eq_zero_iff_mod _).mp h0

/-- Equal tags of one key in two scopes ⇒ the scope bases coincide (an oracle collision of the scope
    hash) or the key is zero. -/
theorem ring_tag_inj_scope [Fact q.Prime] (x b b' : Nat) (h : x * b % q = x * b' % q) :
    b % q = b' % q ∨ x % q = 0 := by
  have hc := (mod_eq_iff_cast _ _).mp h
  push_cast at hc
  have : (x : ZMod q) * ((b : ZMod q) - b') = 0 := by linear_combination hc
  rcases mul_eq_zero.mp this with h0 | h0
  · right; exact (cast_eq_zero_iff_mod _).mp h0
  · left; exact (mod_eq_iff_cast _ _).mpr (sub_eq_zero.mp h0)


example : verify 7 (fun a _ => a + 1) [3, 5 % 7, 6] none
    (sign 7 (fun a _ => a + 1) 5 none [3] [6] 4 [2] [1]) = true := by decide
example : verify 7 (fun a b => a + b.getD 0 + 1) [5 % 7] (some 3)
    (sign 7 (fun a b => a + b.getD 0 + 1) 5 (some 3) [] [] 4 [] []) = true := by decide

end ring

/-! ## 4. EdDSA (`sign/eddsa`, `group/edwards25519`), byte level -/
section eddsa
open Kyber.Ed25519 Kyber.Eddsa Kyber.SigBytes Kyber.SigEd
variable {G : Type} [AddCommGroup G]

attribute [local irreducible] Ed25519.smul Ed25519.add Ed25519.neg Ed25519.dec

/-- **kyber accepts ⇒ crypto/ed25519 accepts** (for any challenge function, in particular SHA-512):
    whatever `eddsa.VerifyWithChecks` accepts, `crypto/ed25519.Verify` accepts.
    Hypotheses: the Ed25519 group-law bundle `EdLaws` and primality of `p` (used for "x = 0 ⇒ y = ±1"). -/
theorem verify_implies_goVerify (E : EdLaws G) (hp : Nat.Prime p) (chal : Bytes → Bytes → Bytes → Nat)
    (pub msg sig : Bytes) (h : verifyCore chal pub msg sig = .ok) :
    goVerifyCore chal pub msg sig = true := by
  obtain ⟨hlen, hsc, hrc, R, hR, hRs, hac, A, hA, hAs, heq⟩ := (verifyCore_ok_iff chal pub msg sig).mp h
  have hpub : pub.length = 32 := ((ptIsCanonical_iff pub).mp hac).1
  obtain ⟨hslen, hsL⟩ := (scIsCanonical_iff (sig.drop 32)).mp hsc
  have hvR := E.valid_dec _ _ hR
  have hvA := E.valid_dec _ _ hA
  have hpts := equation_points E hvR hvA _ _ heq
  -- the point crypto/ed25519 recomputes is R
  have hvR' : Valid (add (smul (chal (sig.take 32) pub msg) (neg A)) (smul (decodeLE (sig.drop 32)) base)) :=
    E.valid_add _ _ (E.valid_smul _ _ (E.valid_neg _ hvA)) (E.valid_smul _ _ E.valid_base)
  have hR' : add (smul (chal (sig.take 32) pub msg) (neg A)) (smul (decodeLE (sig.drop 32)) base) = R := by
    apply E.φ_inj _ _ hvR' hvR
    rw [E.φ_add _ _ (E.valid_smul _ _ (E.valid_neg _ hvA)) (E.valid_smul _ _ E.valid_base),
      E.φ_smul _ _ (E.valid_neg _ hvA), E.φ_neg _ hvA, E.φ_smul _ _ E.valid_base, ← hpts]
    simp
  have hencR : enc R = sig.take 32 := enc_dec_of_checks E hp hR hrc hRs
  have htop : (sig.getD 63 0 &&& 224 != 0) = false := by
    have := top_byte_of_lt_L (sig.drop 32) hslen hsL
    have hget : (sig.drop 32).getD 31 0 = sig.getD 63 0 := by
      simp [List.getD_eq_getElem?_getD, List.getElem?_drop]
    rwa [hget] at this
  unfold goVerifyCore
  simp only [hpub, hA, hlen, htop, ne_eq, not_true_eq_false, if_false, Bool.false_eq_true, hsL, hR', hencR]
  simp

/-- **Completeness of EdDSA** (byte level): the signature produced by `sign` for any seed and message is
    accepted by `verify` under the key derived from the same seed — provided the deterministic nonce is
    not `0 mod L` (then `R = O` and the small-order check of `VerifyWithChecks` rejects the honest
    signature; probability `2⁻²⁵²`, not exhibitable). Hypotheses: `EdLaws`, `L` prime. -/
theorem eddsa_complete (E : EdLaws G) (hL : Nat.Prime L) (seed msg : Bytes)
    (hr : decodeLE (Sha512.hash ((keygen seed).prefix_ ++ msg)) % L ≠ 0) :
    verify (pubBytes (keygen seed)) msg (sign seed msg) = .ok := by
  unfold verify sign
  rw [verifyCore_ok_iff]
  set k := keygen seed with hk
  set r := Scalar.setBytesLE L (Sha512.hash (k.prefix_ ++ msg)) with hrdef
  have hpub : k.pub = smul k.a base := rfl
  have hka : k.a % L ≠ 0 := by
    have : k.a = decodeLE (clamp (Sha512.hash seed)) := rfl
    rw [this]
    exact clamp_mod_L_ne hL _ (by rw [sha512_length]; norm_num)
  have hrL : r < L := Nat.mod_lt _ L_pos
  have hr0 : r % L ≠ 0 := by
    rw [Nat.mod_eq_of_lt hrL]; exact hr
  set Rb := enc (smul r base) with hRb
  set h := Scalar.setBytesLE L (Sha512.hash (Rb ++ enc k.pub ++ msg)) with hh
  set s := Scalar.add L r (Scalar.mul L k.a h) with hs
  have hsL : s < L := Nat.mod_lt _ L_pos
  have hsig : signWith k msg = Rb ++ encodeLE 32 s := rfl
  have hRlen : Rb.length = 32 := enc_length _
  have htake : (Rb ++ encodeLE 32 s).take 32 = Rb := by rw [← hRlen, List.take_left']; rfl
  have hdrop : (Rb ++ encodeLE 32 s).drop 32 = encodeLE 32 s := by rw [← hRlen, List.drop_left']; rfl
  rw [hsig, htake, hdrop]
  have hvR := E.valid_smul r base E.valid_base
  have hvA : Valid k.pub := E.valid_smul k.a base E.valid_base
  refine ⟨by simp [hRlen], scIsCanonical_encode hsL, ptIsCanonical_enc _, smul r base, E.dec_enc _ hvR,
    smul_base_not_smallOrder E hL r hr0, ptIsCanonical_enc _, k.pub, E.dec_enc _ hvA, ?_, ?_⟩
  · rw [hpub]; exact smul_base_not_smallOrder E hL k.a hka
  · unfold equationHolds
    rw [decode_encode_scalar hsL]
    have hchal : challenge Rb (pubBytes k) msg = h := rfl
    rw [hchal]
    apply decide_eq_true
    apply congrArg enc
    apply E.φ_inj _ _ (E.valid_add _ _ hvR (E.valid_smul _ _ hvA)) (E.valid_smul _ _ E.valid_base)
    have hsmod : smul s base = smul (r + k.a * h) base := by
      rw [← E.smul_base_mod (r + k.a * h)]
      have hsv : s = (r + k.a * h) % L := by
        simp only [hs, Scalar.add, Scalar.mul]
        rw [Nat.add_mod, Nat.mod_mod, ← Nat.add_mod]
      rw [hsv]
    rw [hsmod, E.φ_add _ _ hvR (E.valid_smul _ _ hvA), E.φ_smul _ _ hvA, hpub, E.φ_smul _ _ E.valid_base,
      E.φ_smul _ _ E.valid_base, E.φ_smul _ _ E.valid_base, add_smul, mul_smul]
    rw [smul_comm]

/-- The clamped scalar of `NewKeyAndSeedWithInput` is RFC 8032's pruned secret scalar. -/
theorem keygen_a_eq_rfc (seed : Bytes) : (keygen seed).a = rfcSecretScalar seed := by
  show decodeLE (clamp (Sha512.hash seed)) = rfcSecretScalar seed
  rw [clamp_spec _ (by rw [sha512_length]; norm_num)]
  rfl

/-- **EdDSA signing is RFC 8032 §5.1.6**: the model of `sign/eddsa` (`NewKeyAndSeedWithInput`, scalars
    reduced early by `SetBytes`, `s = r + secret·h` in the scalar field) produces, for every seed and
    message, exactly the bytes of the RFC's algorithm written out with unreduced 512-bit `r`, `k`.
    (Determinism is built in: `sign` is a function of seed and message only.) Hypothesis: `EdLaws`
    (only `L•B = O` and injectivity of `φ` are used). -/
theorem eddsa_sign_eq_rfc8032 (E : EdLaws G) (seed msg : Bytes) : sign seed msg = rfcSign seed msg := by
  have ha := keygen_a_eq_rfc seed
  -- both sides with their `let`s expanded
  have hL : sign seed msg =
      enc (smul (decodeLE (Sha512.hash ((Sha512.hash seed).drop 32 ++ msg)) % L) base) ++
        encodeLE 32 ((decodeLE (Sha512.hash ((Sha512.hash seed).drop 32 ++ msg)) % L +
          (keygen seed).a * (decodeLE (Sha512.hash
            (enc (smul (decodeLE (Sha512.hash ((Sha512.hash seed).drop 32 ++ msg)) % L) base) ++
              enc (smul (keygen seed).a base) ++ msg)) % L) % L) % L) := rfl
  have hR : rfcSign seed msg =
      enc (smul (decodeLE (Sha512.hash ((Sha512.hash seed).drop 32 ++ msg))) base) ++
        encodeLE 32 ((decodeLE (Sha512.hash ((Sha512.hash seed).drop 32 ++ msg)) +
          decodeLE (Sha512.hash
            (enc (smul (decodeLE (Sha512.hash ((Sha512.hash seed).drop 32 ++ msg))) base) ++
              enc (smul (rfcSecretScalar seed) base) ++ msg)) * rfcSecretScalar seed) % L) := rfl
  rw [hL, hR, ha, E.smul_base_mod]
  generalize decodeLE (Sha512.hash ((Sha512.hash seed).drop 32 ++ msg)) = r
  generalize decodeLE (Sha512.hash (enc (smul r base) ++ enc (smul (rfcSecretScalar seed) base) ++ msg)) = k
  generalize rfcSecretScalar seed = a
  have : (r % L + a * (k % L) % L) % L = (r + k * a) % L := by
    rw [Nat.add_mod, Nat.mod_mod, Nat.mod_mod, Nat.mul_mod, Nat.mod_mod, ← Nat.mul_mod, ← Nat.add_mod, Nat.mul_comm]
  rw [this]

/-- `s` is compared exactly: an accepted signature carries `s < L` (so `s + L` is rejected). -/
theorem eddsa_accepts_s_lt (chal : Bytes → Bytes → Bytes → Nat) (pub msg sig : Bytes)
    (h : verifyCore chal pub msg sig = .ok) : decodeLE (sig.drop 32) < L := by
  obtain ⟨_, hsc, _⟩ := (verifyCore_ok_iff chal pub msg sig).mp h
  exact ((scIsCanonical_iff _).mp hsc).2

/-- An accepted signature has canonical, non-small-order `R` and key, and its `R` and key bytes are the
    encodings of the decoded points: no second encoding of the same `(A, R, s)` is accepted. -/
theorem eddsa_accepts_canonical (E : EdLaws G) (hp : Nat.Prime p) (chal : Bytes → Bytes → Bytes → Nat)
    (pub msg sig : Bytes) (h : verifyCore chal pub msg sig = .ok) :
    ∃ R A, dec (sig.take 32) = some R ∧ dec pub = some A ∧
      hasSmallOrder R = false ∧ hasSmallOrder A = false ∧
      sig.take 32 = enc R ∧ pub = enc A ∧
      sig.drop 32 = encodeLE 32 (decodeLE (sig.drop 32) % L) := by
  obtain ⟨hlen, hsc, hrc, R, hR, hRs, hac, A, hA, hAs, _⟩ := (verifyCore_ok_iff chal pub msg sig).mp h
  obtain ⟨hslen, hsL⟩ := (scIsCanonical_iff (sig.drop 32)).mp hsc
  refine ⟨R, A, hR, hA, hRs, hAs, (enc_dec_of_checks E hp hR hrc hRs).symm, (enc_dec_of_checks E hp hA hac hAs).symm, ?_⟩
  rw [Nat.mod_eq_of_lt hsL]
  have := encodeLE_decodeLE (sig.drop 32)
  rw [hslen] at this
  exact this.symm

/-- Tampering with `s`: two accepted signatures on the same key and message with the same `R` bytes
    (hence the same challenge) are byte-identical. -/
theorem eddsa_tamper_s (E : EdLaws G) (hL : Nat.Prime L) (chal : Bytes → Bytes → Bytes → Nat)
    (pub msg sig sig' : Bytes) (h : verifyCore chal pub msg sig = .ok) (h' : verifyCore chal pub msg sig' = .ok)
    (hRb : sig.take 32 = sig'.take 32) : sig = sig' := by
  obtain ⟨hlen, hsc, hrc, R, hR, hRs, hac, A, hA, hAs, heq⟩ := (verifyCore_ok_iff chal pub msg sig).mp h
  obtain ⟨hlen', hsc', hrc', R', hR', hRs', hac', A', hA', hAs', heq'⟩ := (verifyCore_ok_iff chal pub msg sig').mp h'
  rw [← hRb, hR] at hR'
  rw [hA] at hA'
  cases hR'; cases hA'
  rw [← hRb] at heq'
  have hvR := E.valid_dec _ _ hR
  have hvA := E.valid_dec _ _ hA
  have e1 := equation_points E hvR hvA _ _ heq
  have e2 := equation_points E hvR hvA _ _ heq'
  obtain ⟨hslen, hsL⟩ := (scIsCanonical_iff (sig.drop 32)).mp hsc
  obtain ⟨hslen', hsL'⟩ := (scIsCanonical_iff (sig'.drop 32)).mp hsc'
  -- s•B = s'•B with s, s' < L
  have hss : decodeLE (sig.drop 32) = decodeLE (sig'.drop 32) := by
    have h12 : decodeLE (sig.drop 32) • E.φ base = decodeLE (sig'.drop 32) • E.φ base := by rw [← e1, ← e2]
    have := E.addOrderOf_base hL
    have hmod := (nsmul_eq_nsmul_iff_modEq (x := E.φ base)).mp h12
    rw [this] at hmod
    unfold Nat.ModEq at hmod
    rwa [Nat.mod_eq_of_lt hsL, Nat.mod_eq_of_lt hsL'] at hmod
  have hd : sig.drop 32 = sig'.drop 32 := decodeLE_inj_of_length_eq _ _ (by rw [hslen, hslen']) hss
  rw [← List.take_append_drop 32 sig, ← List.take_append_drop 32 sig', hRb, hd]

/- Full statement (tampering with the message, any accepted key):
     verifyCore chal pub msg sig = ok → verifyCore chal pub msg' sig = ok →
       chal R pub msg % L = chal R pub msg' % L
   For an arbitrary accepted key `A` (not of small order, possibly of mixed order) this needs the group
   order `#E(F_p) = 8·L` (`H_card25519`, not available): then `L ∣ ord A` and `(h−h′)•A = O ⇒ L ∣ h−h′`.
   Proved below for keys in the prime-order subgroup `⟨B⟩` (every honestly generated key). -/
/-- Tampering with the message, keys `a•B`: if the same `(key, signature)` is accepted for two messages,
    the two challenge values (oracle values at `(R, A, m)` and `(R, A, m′)`) coincide modulo `L`. The other
    branch of the Schnorr statement, "the key is the identity", is excluded by the small-order check. -/
theorem eddsa_tamper_msg_partial (E : EdLaws G) (hL : Nat.Prime L) (chal : Bytes → Bytes → Bytes → Nat)
    (a : Nat) (msg msg' sig : Bytes)
    (h : verifyCore chal (enc (smul a base)) msg sig = .ok)
    (h' : verifyCore chal (enc (smul a base)) msg' sig = .ok) :
    chal (sig.take 32) (enc (smul a base)) msg % L = chal (sig.take 32) (enc (smul a base)) msg' % L := by
  obtain ⟨hlen, hsc, hrc, R, hR, hRs, hac, A, hA, hAs, heq⟩ := (verifyCore_ok_iff chal _ msg sig).mp h
  obtain ⟨_, _, _, R', hR', _, _, A', hA', _, heq'⟩ := (verifyCore_ok_iff chal _ msg' sig).mp h'
  rw [hR] at hR'; rw [hA] at hA'
  cases hR'; cases hA'
  have hvB := E.valid_smul a base E.valid_base
  rw [E.dec_enc _ hvB] at hA
  cases hA
  have hvR := E.valid_dec _ _ hR
  have e1 := equation_points E hvR hvB _ _ heq
  have e2 := equation_points E hvR hvB _ _ heq'
  have h12 := add_left_cancel (e1.trans e2.symm)
  rw [E.φ_smul _ _ E.valid_base, ← mul_smul, ← mul_smul] at h12
  have hord := E.addOrderOf_base hL
  have hmod := (nsmul_eq_nsmul_iff_modEq (x := E.φ base)).mp h12
  rw [hord] at hmod
  have ha : a % L ≠ 0 := by
    intro h0
    have : smul a base = Edwards.zero := by rw [← E.smul_base_mod, h0, smul_zero_base]
    rw [this] at hAs
    have hz : hasSmallOrder Edwards.zero = true := hasSmallOrder_zero_one
    rw [hz] at hAs
    exact absurd hAs (by simp)
  have hcop : Nat.gcd L a = 1 := by
    have : Nat.Coprime L a := (Nat.Prime.coprime_iff_not_dvd hL).mpr (fun hd => ha (Nat.mod_eq_zero_of_dvd hd))
    exact this
  exact Nat.ModEq.cancel_right_of_coprime hcop hmod


/-- Tampering with `R`: two accepted signatures on the same key and message with the same `s` bytes and
    the same oracle value are byte-identical (so a changed `R` forces a changed oracle value). -/
theorem eddsa_tamper_R (E : EdLaws G) (hp : Nat.Prime p) (chal : Bytes → Bytes → Bytes → Nat)
    (pub msg sig sig' : Bytes) (h : verifyCore chal pub msg sig = .ok) (h' : verifyCore chal pub msg sig' = .ok)
    (hs : sig.drop 32 = sig'.drop 32)
    (horacle : chal (sig.take 32) pub msg = chal (sig'.take 32) pub msg) : sig = sig' := by
  obtain ⟨hlen, hsc, hrc, R, hR, hRs, hac, A, hA, hAs, heq⟩ := (verifyCore_ok_iff chal pub msg sig).mp h
  obtain ⟨hlen', hsc', hrc', R', hR', hRs', hac', A', hA', hAs', heq'⟩ := (verifyCore_ok_iff chal pub msg sig').mp h'
  rw [hA] at hA'
  cases hA'
  rw [← hs, ← horacle] at heq'
  have hvR := E.valid_dec _ _ hR
  have hvR' := E.valid_dec _ _ hR'
  have hvA := E.valid_dec _ _ hA
  have e1 := equation_points E hvR hvA _ _ heq
  have e2 := equation_points E hvR' hvA _ _ heq'
  have hRR : R = R' := E.φ_inj _ _ hvR hvR' (add_right_cancel (e1.trans e2.symm))
  have hb : sig.take 32 = sig'.take 32 := by
    rw [← enc_dec_of_checks E hp hR hrc hRs, ← enc_dec_of_checks E hp hR' hrc' hRs', hRR]
  rw [← List.take_append_drop 32 sig, ← List.take_append_drop 32 sig', hb, hs]

/- Full statement (tampering with the key, any two accepted keys): same `(msg, sig)` accepted under `pub`
   and `pub′` with the same oracle value ⇒ `pub = pub′` or the oracle value is `0`. For arbitrary
   (mixed-order) keys this needs `#E(F_p) = 8·L`; proved for keys in `⟨B⟩`. -/
/-- Tampering with the key, keys `a•B`, `a′•B`: same `(msg, sig)` accepted under both with the same
    oracle value `h` ⇒ the keys are the same point or `h ≡ 0 (mod L)`. -/
theorem eddsa_tamper_key_partial (E : EdLaws G) (hL : Nat.Prime L) (chal : Bytes → Bytes → Bytes → Nat)
    (a a' : Nat) (msg sig : Bytes)
    (h : verifyCore chal (enc (smul a base)) msg sig = .ok)
    (h' : verifyCore chal (enc (smul a' base)) msg sig = .ok)
    (horacle : chal (sig.take 32) (enc (smul a base)) msg = chal (sig.take 32) (enc (smul a' base)) msg) :
    smul a base = smul a' base ∨ chal (sig.take 32) (enc (smul a base)) msg % L = 0 := by
  obtain ⟨_, _, _, R, hR, _, _, A, hA, _, heq⟩ := (verifyCore_ok_iff chal _ msg sig).mp h
  obtain ⟨_, _, _, R', hR', _, _, A', hA', _, heq'⟩ := (verifyCore_ok_iff chal _ msg sig).mp h'
  rw [hR] at hR'; cases hR'
  have hvB := E.valid_smul a base E.valid_base
  have hvB' := E.valid_smul a' base E.valid_base
  rw [E.dec_enc _ hvB] at hA; cases hA
  rw [E.dec_enc _ hvB'] at hA'; cases hA'
  rw [← horacle] at heq'
  have hvR := E.valid_dec _ _ hR
  have e1 := equation_points E hvR hvB _ _ heq
  have e2 := equation_points E hvR hvB' _ _ heq'
  have h12 := add_left_cancel (e1.trans e2.symm)
  rw [E.φ_smul _ _ E.valid_base, E.φ_smul _ _ E.valid_base, ← mul_smul, ← mul_smul] at h12
  have hmod := (nsmul_eq_nsmul_iff_modEq (x := E.φ base)).mp h12
  rw [E.addOrderOf_base hL] at hmod
  by_cases h0 : chal (sig.take 32) (enc (smul a base)) msg % L = 0
  · right; exact h0
  · left
    have hcop : Nat.gcd L (chal (sig.take 32) (enc (smul a base)) msg) = 1 :=
      (Nat.Prime.coprime_iff_not_dvd hL).mpr (fun hd => h0 (Nat.mod_eq_zero_of_dvd hd))
    have haa : a ≡ a' [MOD L] := Nat.ModEq.cancel_left_of_coprime hcop hmod
    rw [← E.smul_base_mod a, ← E.smul_base_mod a', haa]

/-- The SHA-512 instances: the theorems above hold for `verify` / `goVerify` / `sign` as executed. -/
theorem eddsa_verify_implies_goVerify (E : EdLaws G) (hp : Nat.Prime p) (pub msg sig : Bytes)
    (h : verify pub msg sig = .ok) : goVerify pub msg sig = true :=
  verify_implies_goVerify E hp challenge pub msg sig h

end eddsa

/-! ## 5. Tests (kernel evaluation on RFC 8032 §7.1 TEST 1; proved in `Lib/SigRfcVectors.lean`) -/
section tests
open Kyber.Eddsa Kyber.C08.Vectors

/-- TEST: the model of `sign/eddsa` reproduces RFC 8032 TEST 1 (public key and signature). -/
theorem test_rfc8032_vector1_sign : pubBytes (keygen seed1) = pub1 ∧ sign seed1 [] = sig1 :=
  ⟨test_rfc8032_1_pub, test_rfc8032_1_sign⟩

/-- TEST: both verifier models accept RFC 8032 TEST 1 (so the hypotheses of the acceptance theorems are
    satisfiable), and the nonce hypothesis of `eddsa_complete` holds for it. -/
theorem test_rfc8032_vector1_verify :
    verify pub1 [] sig1 = .ok ∧ goVerify pub1 [] sig1 = true ∧
      decodeLE (Sha512.hash ((keygen seed1).prefix_ ++ [])) % Ed25519.L ≠ 0 :=
  ⟨test_rfc8032_1_verify, test_rfc8032_1_goVerify, test_rfc8032_1_nonce_ne_zero⟩

/-- TEST: `L•B = O` in the executable curve model — the instance of `EdLaws.L_base` that can be computed. -/
theorem test_L_base_is_zero : Ed25519.smul Ed25519.L Ed25519.base = Edwards.zero := test_L_base

end tests
end Kyber.C08
