import KyberModel.Props.C11RabinDkg
import KyberModel.Lib.VssOrder
/-
C11 — Rabin DKG: the qualified set does not depend on the delivery order of the responses of different
participants ("for every delivery order of the broadcast messages"), for responses of every kind — approvals,
complaints, forged, for another session, out of range. The hypothesis "different senders" is sharp: two
conflicting responses of ONE participant are order dependent in the code as it stands (the recorded finding
`rabin_conflicting_responses_order_dependent`, Props/C11Rabin.lean).
-/
namespace Kyber.RabinDkg
open Kyber.Vss

/-- The DKG call that delivers a response about dealer `idx`. -/
def respCall (idx : Nat) (r : Resp) : Op := .response idx r.sid r.idx r.ap r.sg none

/-- Responses about another participant's deal only touch that deal's verifier, whose aggregator goes through
    `respOp`. -/
theorem run_responses_other (cfg : Cfg) (hv : cfg.variant = .rabin) (idx me : Nat) (l : List Resp) :
    ∀ (nd : Node) (a : Agg), nd.me = me → idx ≠ me → WF cfg me nd →
      nd.verifiers.lookup idx = some ⟨.verifier me, some a⟩ →
      (run cfg nd (l.map (respCall idx))).verifiers.lookup idx = some ⟨.verifier me, some (l.foldl (respOp cfg) a)⟩ ∧
      WF cfg me (run cfg nd (l.map (respCall idx))) := by
  induction l with
  | nil => intro nd a _ _ hw hl; exact ⟨hl, hw⟩
  | cons r l ih =>
    intro nd a hme hne hw hl
    have hro := response_other cfg nd idx r.sid r.idx me r.ap r.sg none a (by rw [hme]; exact hne) hl
    rw [step_response_agg cfg me a r (Or.inl hv)] at hro
    have := ih (step cfg nd (respCall idx r)).1 (respOp cfg a r) (by rw [← hme]; exact hro.2) hne
      (wf_step hw _) hro.1
    simpa [run_cons, List.map_cons, List.foldl_cons] using this

/-- **QUAL does not depend on the order in which the responses of different participants about a dealer arrive.** -/
theorem qual_membership_order_independent (cfg : Cfg) (hv : cfg.variant = .rabin) (nd : Node) (idx : Nat)
    (a : Agg) (hne : idx ≠ nd.me) (hw : WF cfg nd.me nd) (hinv : Inv cfg a)
    (hl : nd.verifiers.lookup idx = some ⟨.verifier nd.me, some a⟩)
    {l₁ l₂ : List Resp} (hp : l₁.Perm l₂) (hnd : (l₁.map (·.idx)).Nodup) :
    idx ∈ qual cfg (run cfg nd (l₁.map (respCall idx))) ↔ idx ∈ qual cfg (run cfg nd (l₂.map (respCall idx))) := by
  obtain ⟨h1, w1⟩ := run_responses_other cfg hv idx nd.me l₁ nd a rfl hne hw hl
  obtain ⟨h2, w2⟩ := run_responses_other cfg hv idx nd.me l₂ nd a rfl hne hw hl
  have hc := certified_order_independent cfg a hinv hp hnd
  rw [qual_iff w1, qual_iff w2]
  constructor
  · rintro ⟨v, hv1, hcert⟩
    rw [h1] at hv1; cases hv1
    exact ⟨_, h2, by unfold Vss.certified at hcert ⊢; simp only at hcert ⊢; rw [← hc]; exact hcert⟩
  · rintro ⟨v, hv2, hcert⟩
    rw [h2] at hv2; cases hv2
    exact ⟨_, h1, by unfold Vss.certified at hcert ⊢; simp only at hcert ⊢; rw [hc]; exact hcert⟩

end Kyber.RabinDkg
