import KyberModel.Proto.Dkg
import KyberModel.Lib.DkgLemmas
import KyberModel.Lib.DkgSet
import KyberModel.Lib.DkgAlgebra
import KyberModel.Lib.DkgInv
import KyberModel.Lib.DkgAgree
/-
C11 — DKG (Pedersen, incl. resharing and fast-sync): honest parties agree on key, QUAL and consistent
shares despite faults.

Theorems about the executable model `Kyber.Dkg` (Proto/Dkg.lean — the definitions the driver runs and
the harness compares with share/dkg/pedersen after every call of every participant). `cfg.fixLeaving`
/ `cfg.fixPhase` select the code with fixes/C11-leaving-dealer-responses.patch /
fixes/C11-agreement-phase-decision.patch applied; `false` is the code as it stands.

Status of the five parts of the property:
1. order independence — complete (all modes): `processDeals_perm`, `processResponses_perm`,
   `processJustifications_perm`, `pset_order_dup_independent`, `processDeals_broadcast_order_dup_independent`;
2. key algebra — complete for the fresh DKG over EVERY history (`fresh_run_share_on_output_polynomial`,
   `dkg_result_algebra`, `dkg_key_is_sum_of_qual`, `output_shares_recover`); resharing: key preservation
   relative to the coded check (`resharing_keeps_key_partial`);
3. agreement — REFUTED for the code as it stands (`agreement_fails_as_coded`, a genuine defect replayed on
   the real code); for the repaired code proved in parts (`…_partial`, gap named in §3);
4. qualification rules — `complaint_row_not_qualified`, `evicted_not_qualified`,
   `few_complaints_not_evicted`, `many_complaints_evicted`;
5. all honest ⇒ everyone finishes — a checked instance only (`all_honest_finishes_partial`).
Rabin DKG (share/dkg/rabin): modelled on top of the C10 Rabin VSS model in Proto/RabinDkg.lean; its theorems are in
Props/C11RabinDkg.lean (who is qualified), Props/C11RabinDkg2.lean (the distributed key), Lib/RabinDkgNoPanic.lean
(no call panics) and Props/C11Rabin.lean (the recorded VSS-level findings as counterexamples).
-/
namespace Kyber.Dkg
open Polynomial Kyber.Scalar Kyber.Share

/-! ### 1. Order independence of the three `Process*` steps -/

/-- **ProcessDeals does not depend on the delivery order.** For bundle lists with pairwise different
dealer indices (what the receiver-side `set` hands over, see `pset_order_dup_independent`), any
permutation yields the same response bundle, the same error and the same node state — in every mode
(fresh, resharing, fast-sync) and whatever the bundles contain. -/
theorem processDeals_perm (c : Cfg) (st : St) {l₁ l₂ : List DealBundle} (hp : l₁.Perm l₂)
    (hnd : (l₁.map (·.dealerIndex)).Nodup) : processDeals c st l₁ = processDeals c st l₂ := by
  unfold processDeals
  rw [foldl_perm_of_comm (dealStep c) (·.dealerIndex) (fun z x y h => dealStep_comm c z x y h) hp hnd]

/-- **ProcessResponses does not depend on the delivery order** (pairwise different holder indices). -/
theorem processResponses_perm (c : Cfg) (st : St) {l₁ l₂ : List ResponseBundle} (hp : l₁.Perm l₂)
    (hnd : (l₁.map (·.shareIndex)).Nodup) : processResponses c st l₁ = processResponses c st l₂ := by
  have he : l₁.isEmpty = l₂.isEmpty := by
    cases l₁ with
    | nil => rw [hp.nil_eq]
    | cons a l => cases l₂ with
      | nil => exact absurd hp.symm.nil_eq (by simp)
      | cons b l' => rfl
  have hl : respLoop c st l₁ = respLoop c st l₂ := by
    unfold respLoop
    exact foldl_perm_of_comm (respStep c) (·.shareIndex) (fun z x y h => respStep_comm c z x y h) hp hnd _
  unfold processResponses respCore respAfterLoop
  rw [hl, he]

/-- **ProcessJustifications does not depend on the delivery order** (pairwise different dealers). -/
theorem processJustifications_perm (c : Cfg) (st : St) {l₁ l₂ : List JustBundle} (hp : l₁.Perm l₂)
    (hnd : (l₁.map (·.dealerIndex)).Nodup) : processJustifications c st l₁ = processJustifications c st l₂ := by
  have hl : justLoop c st l₁ = justLoop c st l₂ := by
    unfold justLoop
    rw [foldl_perm_of_comm (justStep c) (·.dealerIndex) (fun z x y h => justStep_comm c z x y h) hp hnd]
  unfold processJustifications
  rw [hl]

/-- **The receiver-side packet `set` forgets order and duplication.** Two push sequences that contain
the same `(signature ok?, sender, packet)` triples — in any order, any triple any number of times —
leave the same senders marked as equivocators, the same packet stored for every sender, and hand over
packet lists that are permutations of each other with pairwise different senders. -/
theorem pset_order_dup_independent {α : Type} [DecidableEq α] (l l' : Pushes α) (h : ∀ e, e ∈ l ↔ e ∈ l') :
    (∀ i, (PSet.ofPushes l).bad.contains i = (PSet.ofPushes l').bad.contains i) ∧
    (∀ i, (PSet.ofPushes l).vals.lookup i = (PSet.ofPushes l').vals.lookup i) ∧
    (PSet.ofPushes l).packets.Perm (PSet.ofPushes l').packets := by
  obtain ⟨b1, v1, n1⟩ := ofPushes_spec l
  obtain ⟨b2, v2, n2⟩ := ofPushes_spec l'
  have hv : ∀ i, (PSet.ofPushes l).vals.lookup i = (PSet.ofPushes l').vals.lookup i := by
    intro i
    apply Option.ext
    intro p
    rw [v1, v2]; simp only [h]
  refine ⟨?_, hv, ?_⟩
  · intro i
    rw [Bool.eq_iff_iff, b1, b2]; simp only [h]
  · unfold PSet.packets
    apply List.Perm.map
    rw [List.perm_ext_iff_of_nodup (List.Nodup.of_map _ n1) (List.Nodup.of_map _ n2)]
    rintro ⟨i, p⟩
    rw [mem_iff_lookup _ n1, mem_iff_lookup _ n2, hv]

/-- Pushing deal bundles under their own dealer index, as `Protocol` does. -/
def dealPushes (l : List (Bool × DealBundle)) : Pushes DealBundle := l.map (fun e => (e.1, e.2.dealerIndex, e.2))

/-- **End to end: the response to the deal phase depends only on the *set* of broadcast deal packets.**
Whatever order the (signature-checked) deal bundles arrive in and however often each is repeated,
`ProcessDeals` applied to what the `set` accumulated gives the same responses and the same state. -/
theorem processDeals_broadcast_order_dup_independent (c : Cfg) (st : St) (l l' : List (Bool × DealBundle))
    (h : ∀ e, e ∈ l ↔ e ∈ l') :
    processDeals c st (PSet.ofPushes (dealPushes l)).packets = processDeals c st (PSet.ofPushes (dealPushes l')).packets := by
  have hm : ∀ e, e ∈ dealPushes l ↔ e ∈ dealPushes l' := by
    intro e; simp only [dealPushes, List.mem_map]
    constructor <;> rintro ⟨x, hx, rfl⟩
    · exact ⟨x, (h x).mp hx, rfl⟩
    · exact ⟨x, (h x).mpr hx, rfl⟩
  obtain ⟨_, _, hperm⟩ := pset_order_dup_independent _ _ hm
  apply processDeals_perm c st hperm
  obtain ⟨_, v1, n1⟩ := ofPushes_spec (dealPushes l)
  -- stored packets sit under their own dealer index
  have hkey : (PSet.ofPushes (dealPushes l)).packets.map (·.dealerIndex) = (PSet.ofPushes (dealPushes l)).vals.map Prod.fst := by
    unfold PSet.packets
    rw [List.map_map]
    apply List.map_congr_left
    rintro ⟨i, p⟩ hip
    have := ((v1 i p).mp ((mem_iff_lookup _ n1 i p).mp hip)).1
    simp only [dealPushes, List.mem_map, Prod.mk.injEq] at this
    obtain ⟨x, _, _, h2, h3⟩ := this
    simp only [Function.comp]
    rw [← h3]; exact h2
  rw [hkey]; exact n1

/-! ### 2. Key algebra -/

/-- Every private share a node holds lies on the public polynomial it recorded for that dealer
    (read in `ZMod q`). Established by the share checks of `ProcessDeals` / `ProcessJustifications`,
    see `sharesOnPublics_*`. -/
def SharesOnPublics (c : Cfg) (st : St) : Prop :=
  ∀ d v, st.validShares d = some v →
    ∃ p, st.allPublics d = some p ∧ ((v : Nat) : ZMod c.q) = (toPoly c.q p).eval ((c.nidx : ZMod c.q) + 1)

/-- **The fresh DKG output, algebraically.** If `computeDKGResult` returns a result then QUAL is the
list of dealers with an all-success row that are not evicted as holders, each of them contributed a
share and a public polynomial, the output commitment polynomial is the SUM of the qualified dealers'
public polynomials, and the output share is the sum of their shares. -/
theorem dkg_result_algebra (c : Cfg) (st : St) (r : Result) (h : computeDKGResult c st = some r) :
    r.qual = (qualDealers c st).map (·.index) ∧ r.shareI = c.nidx ∧
    (∀ n ∈ qualDealers c st, ∃ sh pb, st.validShares n.index = some sh ∧ st.allPublics n.index = some pb) ∧
    toPoly c.q r.commits = ((qualDealers c st).map (fun n => toPoly c.q ((st.allPublics n.index).getD []))).sum ∧
    ((r.shareV : Nat) : ZMod c.q) =
      ((qualDealers c st).map (fun n => (((st.validShares n.index).getD 0 : Nat) : ZMod c.q))).sum := by
  rw [computeDKGResult_eq] at h
  split at h
  · rename_i s fp heq
    cases h
    obtain ⟨h1, h2, h3, _⟩ := dkg_fold c st _ _ _ _ _ heq
    refine ⟨rfl, rfl, h1, ?_, ?_⟩
    · simpa [accPoly] using h3
    · simpa using h2
  · cases h

/-- **Each honest output share lies on the output polynomial.** -/
theorem dkg_share_on_output_polynomial (c : Cfg) (st : St) (r : Result) (hinv : SharesOnPublics c st)
    (h : computeDKGResult c st = some r) :
    ((r.shareV : Nat) : ZMod c.q) = (toPoly c.q r.commits).eval ((r.shareI : ZMod c.q) + 1) := by
  obtain ⟨_, hI, hex, hpoly, hsh⟩ := dkg_result_algebra c st r h
  rw [hsh, hpoly, hI, ← Polynomial.coe_evalRingHom, map_list_sum, List.map_map]
  congr 1
  apply List.map_congr_left
  intro n hn
  obtain ⟨sh, pb, h1, h2⟩ := hex n hn
  obtain ⟨p, h3, h4⟩ := hinv _ _ h1
  rw [h2] at h3; cases h3
  simp [h1, h2, h4]

/-- **Through a whole fresh run, for every delivered history.** A node starts from its constructor
state (optionally calls `Deals`), processes ANY list of deal bundles, ANY list of response bundles and —
if it gets there — ANY list of justification bundles (valid, invalid, forged, duplicated, in any
order). Whenever it outputs a result, its output share lies on its output commitment polynomial. -/
theorem fresh_run_share_on_output_polynomial (c : Cfg) (hres : c.isResharing = false)
    (st1 : St) (hst1 : st1 = initSt c ∨ ∃ b, deals c (initSt c) = .ok (st1, b))
    (LD : List DealBundle) (st2 : St) (o : Option ResponseBundle) (h2 : processDeals c st1 LD = .ok (st2, o))
    (LR : List ResponseBundle) (LJ : List JustBundle) (r : Result)
    (hr : (processResponses c st2 LR).2 = .result (some r) ∨
          (processJustifications c (processResponses c st2 LR).1 LJ).2 = .result (some r)) :
    ((r.shareV : Nat) : ZMod c.q) = (toPoly c.q r.commits).eval ((r.shareI : ZMod c.q) + 1) := by
  have i1 : SharesOnPublicsN c st1 ∧ OnlyOwnShare c st1 := by
    rcases hst1 with rfl | ⟨b, hb⟩
    · exact initSt_inv c
    · exact deals_inv c _ _ b hb (initSt_inv c).1 (initSt_inv c).2
  have i2 : SharesOnPublicsN c st2 := processDeals_inv c st1 st2 LD o h2 i1.1 i1.2
  have fin : ∀ X : St, SharesOnPublicsN c X → (computeResult c X).2 = some r →
      ((r.shareV : Nat) : ZMod c.q) = (toPoly c.q r.commits).eval ((r.shareI : ZMod c.q) + 1) := by
    intro X hX hres'
    obtain ⟨a, b, e⟩ := computeResult_fresh c hres X
    rw [e] at hres'
    exact dkg_share_on_output_polynomial c _ r
      (sharesOnPublicsN_cast c _ (sharesOnPublicsN_of_priv c a b hX)) hres'
  rcases hr with hr | hr
  · obtain ⟨X, a, b, e⟩ := processResponses_result c st2 LR r hr
    exact fin X (sharesOnPublicsN_of_priv c a b i2) e
  · have i3 : SharesOnPublicsN c (processResponses c st2 LR).1 := by
      obtain ⟨a, b⟩ := processResponses_priv c st2 LR
      exact sharesOnPublicsN_of_priv c a b i2
    have i4 := justFold_inv c LJ ((processResponses c st2 LR).1, fun _ => false) i3
    exact fin _ i4 (processJustifications_result c _ LJ r hr)

/-- **The key is the sum of the qualified dealers' contributions**: `Commits[0] = Σ_{d ∈ QUAL} P_d[0]`. -/
theorem dkg_key_is_sum_of_qual (c : Cfg) (st : St) (r : Result) (h : computeDKGResult c st = some r) :
    ((r.commits.headD 0 : Nat) : ZMod c.q) =
      ((qualDealers c st).map (fun n => ((((st.allPublics n.index).getD []).headD 0 : Nat) : ZMod c.q))).sum := by
  obtain ⟨_, _, _, hpoly, _⟩ := dkg_result_algebra c st r h
  have := congrArg (fun p => Polynomial.coeff p 0) hpoly
  simp only [toPoly_coeff_zero] at this
  rw [this, ← Polynomial.lcoeff_apply, map_list_sum, List.map_map]
  congr 1
  apply List.map_congr_left
  intro n _
  simp [toPoly_coeff_zero]

/-- **Any `t` output shares recover a secret matching `Commits[0]`.** Take the results of any set of
nodes that agree on the commitment list `cs` (agreement: §3) with `len cs ≤ t`, whose shares lie on it
(`dkg_share_on_output_polynomial`): kyber's `RecoverSecret` (C07 model) over any slice with at least `t`
distinct indices — any order, repetitions, surplus — returns `log Commits[0]`. -/
theorem output_shares_recover (q : Nat) [Fact q.Prime] (hq2 : 2 < q) (cs : List Nat) (t : Nat) (ht : 1 ≤ t)
    (hlen : cs.length ≤ t) (rs : List Result)
    (hon : ∀ r ∈ rs, r.commits = cs ∧ r.shareI + 1 < 2 ^ 32 ∧ r.shareI + 1 < q ∧
      ((r.shareV : Nat) : ZMod q) = (toPoly q r.commits).eval ((r.shareI : ZMod q) + 1))
    (hcnt : t ≤ (rs.map (·.shareI)).toFinset.card) :
    Share.recoverSecret q (rs.map (fun r => some ⟨r.shareI, some r.shareV⟩)) t = some (cs.headD 0 % q) := by
  have hq : 0 < q := by omega
  have honc : OnCurve q (toPoly q cs) (rs.map (fun r => some ⟨r.shareI, some r.shareV⟩)) := by
    intro sh hsh v hv
    simp only [List.mem_map, Option.some.injEq] at hsh
    obtain ⟨r, hr, rfl⟩ := hsh
    simp only [Option.some.injEq] at hv; subst hv
    obtain ⟨h1, h2, h3, h4⟩ := hon r hr
    exact ⟨⟨h2, h3⟩, by rw [h4, h1]⟩
  have hfin : (validIdx (rs.map (fun r => some ⟨r.shareI, some r.shareV⟩))).toFinset = (rs.map (·.shareI)).toFinset := by
    ext k
    simp only [List.mem_toFinset, mem_validIdx, List.mem_map]
    constructor
    · rintro ⟨s, ⟨r, hr, hs⟩, rfl, _⟩
      simp only [Option.some.injEq] at hs; subst hs
      exact ⟨r, hr, rfl⟩
    · rintro ⟨r, hr, rfl⟩
      exact ⟨⟨r.shareI, some r.shareV⟩, ⟨r, hr, rfl⟩, rfl, by simp⟩
  obtain ⟨r, h1, h2, h3⟩ := recoverSecret_eq_of_onCurve hq2 (toPoly q cs) t ht
    (lt_of_lt_of_le (toPoly_degree_lt cs) (by exact_mod_cast hlen)) _ honc (by rw [hfin]; exact hcnt)
  rw [h1, Option.some.injEq]
  apply (eq_iff_cast_eq _ _ h2 (Nat.mod_lt _ hq)).mpr
  rw [h3, toPoly_coeff_zero, ZMod.natCast_mod]

/-- **Resharing keeps the key (`_partial`).** If `computeResharingResult` returns a result, at least
`oldT` distinct dealers are used, and each used dealer's public polynomial passed the check that binds
its constant term to the old public polynomial (`olddpub.Eval(dealer) = pub.Commit()`, the test coded in
`ProcessDeals` and `ProcessJustifications`), then the new public key equals the old one:
`Commits[0] = olddpub[0]`.
Partial: the hypothesis `hchk` is the coded check, but it is not derived here from the history (an
invariant "AllTrue(d) ⇒ d's bundle passed the check" through the three phases, as done for the fresh
case in `fresh_run_share_on_output_polynomial`), and "the new share lies on the new polynomial" is not
proved for resharing (the code itself re-checks it with `pubPoly.Check` and errors otherwise, which the
model mirrors). -/
theorem resharing_keeps_key_partial (c : Cfg) [Fact c.q.Prime] (hq2 : 2 < c.q) (st : St) (r : Result)
    (h : computeResharingResult c st = some r) (hT : 1 ≤ c.oldT) (hnewT : 1 ≤ c.newT)
    (hlen : c.olddpub.length ≤ c.oldT)
    (hchk : ∀ n ∈ c.oldNodes, allTrue c st.statuses n.index = true →
      ∃ pb, st.allPublics n.index = some pb ∧ n.index + 1 < 2 ^ 32 ∧ n.index + 1 < c.q ∧
        pb.headD 0 % c.q = pubEvalI c.q c.olddpub n.index)
    (hcnt : c.oldT ≤ ((c.oldNodes.filter (fun n => allTrue c st.statuses n.index)).map (·.index)).toFinset.card) :
    r.commits.headD 0 = c.olddpub.headD 0 % c.q := by
  have hq : 0 < c.q := by omega
  unfold computeResharingResult at h
  simp only at h
  split at h
  · cases h
  · split at h
    · cases h
    · rename_i pp _
      split at h
      · cases h
      · rename_i fc hfc
        split at h
        · cases h
        · split at h
          · cases h
          · cases h
            simp only
            -- the first recovered coefficient
            obtain ⟨k, hk⟩ : ∃ k, c.newT = k + 1 := ⟨c.newT - 1, by omega⟩
            rw [hk, List.range_succ_eq_map, List.mapM_cons] at hfc
            set l0 : List (Option Share) := (c.oldNodes.filter (fun n => allTrue c st.statuses n.index)).map
              (fun n => some ⟨n.index, some (((st.allPublics n.index).getD []).getD 0 0)⟩) with hl0
            simp only [Option.bind_eq_bind, Option.pure_def, Option.bind_eq_some_iff] at hfc
            obtain ⟨v0, h0, tl, _, htl⟩ := hfc
            have hfc0 : fc.headD 0 = v0 := by
              simp only [Option.some.injEq] at htl
              rw [← htl]; rfl
            rw [hfc0]
            have hon : OnCurve c.q (toPoly c.q c.olddpub) l0 := by
              intro sh hsh v hv
              simp only [hl0, List.mem_map, Option.some.injEq] at hsh
              obtain ⟨n, hn, rfl⟩ := hsh
              simp only [Option.some.injEq] at hv; subst hv
              obtain ⟨hn1, hn2⟩ := List.mem_filter.mp hn
              obtain ⟨pb, hp1, hp2, hp3, hp4⟩ := hchk n hn1 hn2
              refine ⟨⟨hp2, hp3⟩, ?_⟩
              have e : ((st.allPublics n.index).getD []).getD 0 0 = pb.headD 0 := by
                rw [hp1]; cases pb <;> rfl
              rw [e, ← ZMod.natCast_mod, hp4]
              unfold pubEvalI
              rw [pubEvalAt_eq_evalAt, evalAt_cast, xEval_cast]
            have hfin : (validIdx l0).toFinset =
                ((c.oldNodes.filter (fun n => allTrue c st.statuses n.index)).map (·.index)).toFinset := by
              ext i
              simp only [List.mem_toFinset, mem_validIdx, hl0, List.mem_map]
              constructor
              · rintro ⟨s, ⟨n, hn, hs⟩, rfl, _⟩
                simp only [Option.some.injEq] at hs; subst hs
                exact ⟨n, hn, rfl⟩
              · rintro ⟨n, hn, rfl⟩
                exact ⟨⟨n.index, _⟩, ⟨n, hn, rfl⟩, rfl, by simp⟩
            obtain ⟨r0, e1, e2, e3⟩ := recoverCommit_eq_of_onCurve hq2 (toPoly c.q c.olddpub) c.oldT hT
              (lt_of_lt_of_le (toPoly_degree_lt _) (by exact_mod_cast hlen)) l0 hon (by rw [hfin]; exact hcnt)
            rw [h0, Option.some.injEq] at e1
            subst e1
            apply (eq_iff_cast_eq _ _ e2 (Nat.mod_lt _ hq)).mpr
            rw [e3, toPoly_coeff_zero, ZMod.natCast_mod]

/-! ### 3. Agreement

Full statement (DESIGN §6 C11 (2)): two honest nodes fed the same broadcast history, whose own bundles
in that history are the ones they produced, output — if both output — the same QUAL and the same
commitment polynomial.

* For the code AS IT STANDS this is FALSE: `agreement_fails_as_coded` exhibits, inside the model, a
  broadcast history (two colluding dealers, `n - t = 2`) on which two honest nodes output different
  QUAL and different public keys; the harness replays it on the real code
  (known finding `agreement:finished-in-different-phases`, fixes/C11-agreement-phase-decision.patch).
* For the repaired code the theorem is proved in parts (`…_partial`): the decision points are shown to
  be functions of public data — the deal-phase view (`deal_phase_public_view`), the repaired
  finish test (`finishTest_public`), the result as a function of the final public view
  (`result_determined_by_public_view`) — and the repaired model agrees on the counterexample history
  (`agreement_restored_on_that_history`). NOT proved: the four own-entry lemmas that carry the public
  view through `ProcessResponses` / `ProcessJustifications` (a node skips its own response and
  justification bundles, resets its own row when it justifies, and holds its own column privately
  until it publishes it); agreement for fast-sync and resharing. The correspondence runs compare all
  honest outputs with each other in every scenario (predicate `agreement`). -/

/-- **Agreement fails for the code as it stands.** Nodes 5 and 11 are honest, see the same broadcast
history (`exDeals`, no response bundle, `badJ`) and their own bundles in it are the ones they produced;
node 5 finishes in `ProcessResponses` with QUAL = {2,5,11,14}, node 11 in `ProcessJustifications` with
QUAL = {5,11,14}, and their commitment polynomials (public keys) differ. -/
theorem agreement_fails_as_coded :
    (runNode (ex5 false) false).map (·.qual) = some [2, 5, 11, 14] ∧
    (runNode (ex11 false) false).map (·.qual) = some [5, 11, 14] ∧
    (runNode (ex5 false) false).map (·.commits) ≠ (runNode (ex11 false) false).map (·.commits) := by
  decide

/-- With the repaired finish test the same history leaves both nodes (and node 14) with the same QUAL
and the same commitments. -/
theorem agreement_restored_on_that_history :
    (runNode (ex5 true) true).map (·.qual) = some [2, 5, 11, 14] ∧
    (runNode (ex11 true) true).map (·.qual) = some [2, 5, 11, 14] ∧
    (runNode (ex14 true) true).map (·.qual) = some [2, 5, 11, 14] ∧
    (runNode (ex5 true) true).map (·.commits) = (runNode (ex11 true) true).map (·.commits) ∧
    (runNode (ex5 true) true).map (·.commits) = (runNode (ex14 true) true).map (·.commits) := by
  decide

/-- **Agreement, part 1 (`agreement_partial`): the deal phase.** For a dealer that is neither of the
two nodes, what the bundle loop of `ProcessDeals` does to `evicted` and `allPublics` is the same at
both nodes: the list of mutations differs at most in the private `setStatus`/`setValid` pair. -/
theorem deal_phase_public_view_partial (cA cB : Cfg) (h : SamePublicCfg cA cB) (seen : Bool) (b : DealBundle)
    (hA : b.dealerIndex ≠ cA.oidx) (hB : b.dealerIndex ≠ cB.oidx) :
    (dealPrims cA seen b).2 = (dealPrims cB seen b).2 ∧
    ((dealPrims cA seen b).1.filter (fun p => match p with | .evict _ => true | .setPub _ _ => true | _ => false)) =
    ((dealPrims cB seen b).1.filter (fun p => match p with | .evict _ => true | .setPub _ _ => true | _ => false)) := by
  have hoA : (b.dealerIndex == cA.oidx) = false := by simpa using hA
  have hoB : (b.dealerIndex == cB.oidx) = false := by simpa using hB
  have hev := scanDeals_ev cA b b.deals false none
  have hev' := scanDeals_ev cB b b.deals false none
  rw [h.new] at hev
  unfold dealPrims
  simp only [hoA, hoB, Bool.and_false, Bool.false_eq_true, if_false, h.old, h.nonce, h.thr]
  by_cases c2 : (!included cB.oldNodes b.dealerIndex) = true
  · simp only [c2, if_true]; constructor <;> first | rfl | trivial
  simp only [c2, if_false, Bool.false_eq_true]
  by_cases c3 : (b.sid != cB.nonce) = true
  · simp only [c3, if_true]; constructor <;> first | rfl | trivial
  simp only [c3, if_false, Bool.false_eq_true]
  by_cases c4 : (b.pub.isEmpty || b.pub.length != cB.threshold) = true
  · simp only [c4, if_true]; constructor <;> first | rfl | trivial
  simp only [c4, if_false, Bool.false_eq_true]
  by_cases c5 : seen = true
  · simp only [c5, if_true]; constructor <;> first | rfl | trivial
  simp only [c5, if_false, Bool.false_eq_true]
  rcases hsA : scanDeals cA b b.deals (false, none) with ⟨evA, shA⟩
  rcases hsB : scanDeals cB b b.deals (false, none) with ⟨evB, shB⟩
  rw [hsA] at hev; rw [hsB] at hev'
  simp only at hev hev'
  have : evA = evB := hev.trans hev'.symm
  subst this
  refine ⟨by first | rfl | trivial, ?_⟩
  cases shA <;> cases shB <;> cases evA <;> simp [List.filter]

/-- **Agreement, part 2 (`agreement_partial`): the repaired finish test reads only the evicted set and
the rows of dealers that are not evicted.** -/
theorem finishTest_public_partial (cA cB : Cfg) (h : SamePublicCfg cA cB) (hfA : cA.fixPhase = true) (hfB : cB.fixPhase = true)
    (X Y : St) (hev : ∀ n ∈ cA.oldNodes, X.evicted n.index = Y.evicted n.index)
    (hrow : ∀ n ∈ cA.oldNodes, X.evicted n.index = false → ∀ m ∈ cA.newNodes, X.statuses n.index m.index = Y.statuses n.index m.index) :
    finishTest cA X = finishTest cB Y := by
  unfold finishTest
  simp only [hfA, hfB, if_true, ← h.old]
  apply all_congr_mem
  intro n hn
  rw [← hev n hn]
  cases he : X.evicted n.index with
  | true => simp
  | false =>
    simp only [Bool.false_or]
    unfold allTrue
    rw [← h.new]
    apply all_congr_mem
    intro m hm
    rw [hrow n hn he m hm]

/-- **Agreement, part 3 (`agreement_partial`): the result is a function of the final public view.** If
two nodes end with the same qualification verdict for every dealer and the same public polynomial for
every qualified dealer, and both output a result, then QUAL and the commitment polynomial coincide. -/
theorem result_determined_by_public_view_partial (cA cB : Cfg) (h : SamePublicCfg cA cB) (X Y : St)
    (hqual : ∀ n ∈ cA.oldNodes, (allTrue cA X.statuses n.index && !X.evictedHolders n.index) =
      (allTrue cB Y.statuses n.index && !Y.evictedHolders n.index))
    (hpub : ∀ n ∈ cA.oldNodes, (allTrue cA X.statuses n.index && !X.evictedHolders n.index) = true →
      X.allPublics n.index = Y.allPublics n.index)
    (rA rB : Result) (hA : computeDKGResult cA X = some rA) (hB : computeDKGResult cB Y = some rB) :
    rA.qual = rB.qual ∧ rA.commits = rB.commits := by
  have hq : qualDealers cA X = qualDealers cB Y := by
    unfold qualDealers
    rw [← h.old]
    apply filter_congr_mem
    intro n hn
    exact hqual n hn
  rw [computeDKGResult_eq] at hA hB
  split at hA
  · rename_i sA fA heA
    split at hB
    · rename_i sB fB heB
      cases hA; cases hB
      refine ⟨by simp only [hq], ?_⟩
      rw [← hq] at heB
      have hp : ∀ n ∈ qualDealers cA X, X.allPublics n.index = Y.allPublics n.index := by
        intro n hn
        have := List.mem_filter.mp hn
        exact hpub n this.1 this.2
      have := dkg_fold_commits cA cB X Y h.q _ hp 0 0 none sA sB (some fA) (some fB) heA heB
      simpa using this
    · cases hB
  · cases hA

/-! ### 4. Qualification rules -/

/-- **A dealer with an open complaint is not qualified** — in particular a dealer whose invalid deal to
this (honest) node stayed unjustified: the node's own column still holds the complaint. -/
theorem complaint_row_not_qualified (c : Cfg) (st : St) (r : Result) (h : computeDKGResult c st = some r)
    (d : Nat) (m : NodeId) (hm : m ∈ c.newNodes) (hc : st.statuses d m.index = true) : d ∉ r.qual := by
  obtain ⟨hq, _⟩ := dkg_result_algebra c st r h
  rw [hq]
  intro hd
  obtain ⟨n, hn, rfl⟩ := List.mem_map.mp hd
  have := (List.mem_filter.mp hn).2
  simp only [Bool.and_eq_true, allTrue, List.all_eq_true] at this
  have := this.1 m hm
  simp [hc] at this

/-- **An evicted dealer is never qualified**: `computeResult` turns its whole row into complaints. -/
theorem evicted_not_qualified (c : Cfg) (hres : c.isResharing = false) (st : St) (r : Result)
    (h : (computeResult c st).2 = some r) (d : Nat) (hd : st.evicted d = true) (hne : c.newNodes ≠ []) :
    d ∉ r.qual := by
  obtain ⟨_, _, e⟩ := computeResult_fresh c hres st
  rw [e] at h
  obtain ⟨m, hm⟩ := List.exists_mem_of_ne_nil _ hne
  apply complaint_row_not_qualified c _ r h d m hm
  have hin : included c.newNodes m.index = true := by
    unfold included; rw [List.any_eq_true]; exact ⟨m, hm, by simp⟩
  simp [computeResult, hd, hin]

/-- **A dealer with fewer than `t` complaints is not evicted in the response phase.** -/
theorem few_complaints_not_evicted (c : Cfg) (st : St) (d : Nat)
    (h : lengthComplaints c st.statuses d < c.threshold) : (evictComplained c st).evicted d = st.evicted d := by
  unfold evictComplained
  have : ¬ c.threshold ≤ lengthComplaints c st.statuses d := by omega
  simp [this]

/-- … and `t` or more complaints evict it. -/
theorem many_complaints_evicted (c : Cfg) (st : St) (n : NodeId) (hn : n ∈ c.oldNodes)
    (h : c.threshold ≤ lengthComplaints c st.statuses n.index) : (evictComplained c st).evicted n.index = true := by
  unfold evictComplained
  have hin : included c.oldNodes n.index = true := by
    unfold included; rw [List.any_eq_true]; exact ⟨n, hn, by simp⟩
  simp [h, hin]

/-! ### 5. All honest ⇒ everyone finishes

Full statement: if every dealer's bundle is the one `Deals()` produces (polynomials of length `t`), every
node emits no complaint and `ProcessResponses` on the empty response list returns a result whose QUAL
is the whole group — for every `n`, `t`, index assignment, also in fast-sync and when resharing.
Proved here only on a concrete instance (`_partial`: a checked example, not the general theorem); the
correspondence runs evaluate the predicate `honest-run-incomplete` on every all-honest scenario. -/

/-- In the five-node group of §3 with all dealers honest, every node finishes in the response phase with
QUAL = everybody, all with the same commitment polynomial — both as coded and repaired. -/
theorem all_honest_finishes_partial :
    (∀ c ∈ [ex2 true, ex5 true, ex8 true, ex11 true, ex14 true, ex2 false, ex5 false, ex8 false, ex11 false, ex14 false],
      (runNodeHonest c).map (·.qual) = some [2, 5, 8, 11, 14] ∧
      (runNodeHonest c).map (·.commits) = (runNodeHonest (ex2 true)).map (·.commits)) := by
  decide

/-! ### The hypotheses are satisfiable -/

/-- `fresh_run_share_on_output_polynomial` applies to the run of node 11 on the history of §3 (which ends
in `ProcessJustifications`): its output share 10 lies on its output polynomial `4 + 7x + 10x²` at
`x = 12` (mod 23). -/
example : ((10 : Nat) : ZMod 23) = (toPoly 23 [4, 7, 10]).eval (((11 : Nat) : ZMod 23) + 1) := by
  have hcfg : (ex11 false).isResharing = false := rfl
  have h := fresh_run_share_on_output_polynomial (ex11 false) hcfg (stAfterDeals (ex11 false))
    (Or.inr ⟨dealOf (ex11 false), by rfl⟩) (exDeals false)
    (match processDeals (ex11 false) (stAfterDeals (ex11 false)) (exDeals false) with | .ok (s, _) => s | .error _ => initSt (ex11 false))
    none (by rfl) [] [badJ] ⟨[5, 11, 14], [4, 7, 10], 11, 10⟩ (Or.inr (by rfl))
  exact h

end Kyber.Dkg
