import KyberModel.Proto.Dkg
import KyberModel.Lib.DkgLemmas
import KyberModel.Lib.DkgSet
import KyberModel.Lib.DkgAlgebra
/-
C11 — DKG (Pedersen, incl. resharing and fast-sync): honest parties agree on key, QUAL and consistent
shares despite faults.

Theorems about the executable model `Kyber.Dkg` (Proto/Dkg.lean — the definitions the driver runs and
the harness compares with share/dkg/pedersen after every call of every participant).
-/
namespace Kyber.Dkg
open Polynomial Kyber.Scalar Kyber.Share

/-! ### 1. Order independence of the three `Process*` steps -/

/-- **ProcessDeals does not depend on the delivery order.** For bundle lists with pairwise different
dealer indices (what the receiver-side `set` hands over, see `pset_order_dup_independent`), any
permutation yields the same response bundle, the same error and the same node state — in every mode
(fresh, resharing, fast-sync) and whatever the bundles contain. -/
theorem processDeals_perm (c : Cfg) (st : St) {l₁ l₂ : List DealBundle} (hp : l₁.Perm l₂)
    (hnd : (l₁.map (·.dealerIndex)).Nodup) : processDeals c st l₁ = processDeals c st l₂ := by
  unfold processDeals
  rw [foldl_perm_of_comm (dealStep c) (·.dealerIndex) (fun z x y h => dealStep_comm c z x y h) hp hnd]

/-- **ProcessResponses does not depend on the delivery order** (pairwise different holder indices). -/
theorem processResponses_perm (c : Cfg) (st : St) {l₁ l₂ : List ResponseBundle} (hp : l₁.Perm l₂)
    (hnd : (l₁.map (·.shareIndex)).Nodup) : processResponses c st l₁ = processResponses c st l₂ := by
  have he : l₁.isEmpty = l₂.isEmpty := by
    cases l₁ with
    | nil => rw [hp.nil_eq]
    | cons a l => cases l₂ with
      | nil => exact absurd hp.symm.nil_eq (by simp)
      | cons b l' => rfl
  have hl : respLoop c st l₁ = respLoop c st l₂ := by
    unfold respLoop
    exact foldl_perm_of_comm (respStep c) (·.shareIndex) (fun z x y h => respStep_comm c z x y h) hp hnd _
  unfold processResponses respCore respAfterLoop
  rw [hl, he]

/-- **ProcessJustifications does not depend on the delivery order** (pairwise different dealers). -/
theorem processJustifications_perm (c : Cfg) (st : St) {l₁ l₂ : List JustBundle} (hp : l₁.Perm l₂)
    (hnd : (l₁.map (·.dealerIndex)).Nodup) : processJustifications c st l₁ = processJustifications c st l₂ := by
  have hl : justLoop c st l₁ = justLoop c st l₂ := by
    unfold justLoop
    rw [foldl_perm_of_comm (justStep c) (·.dealerIndex) (fun z x y h => justStep_comm c z x y h) hp hnd]
  unfold processJustifications
  rw [hl]

/-- **The receiver-side packet `set` forgets order and duplication.** Two push sequences that contain
the same `(signature ok?, sender, packet)` triples — in any order, any triple any number of times —
leave the same senders marked as equivocators, the same packet stored for every sender, and hand over
packet lists that are permutations of each other with pairwise different senders. -/
theorem pset_order_dup_independent {α : Type} [DecidableEq α] (l l' : Pushes α) (h : ∀ e, e ∈ l ↔ e ∈ l') :
    (∀ i, (PSet.ofPushes l).bad.contains i = (PSet.ofPushes l').bad.contains i) ∧
    (∀ i, (PSet.ofPushes l).vals.lookup i = (PSet.ofPushes l').vals.lookup i) ∧
    (PSet.ofPushes l).packets.Perm (PSet.ofPushes l').packets := by
  obtain ⟨b1, v1, n1⟩ := ofPushes_spec l
  obtain ⟨b2, v2, n2⟩ := ofPushes_spec l'
  have hv : ∀ i, (PSet.ofPushes l).vals.lookup i = (PSet.ofPushes l').vals.lookup i := by
    intro i
    apply Option.ext
    intro p
    rw [v1, v2]; simp only [h]
  refine ⟨?_, hv, ?_⟩
  · intro i
    rw [Bool.eq_iff_iff, b1, b2]; simp only [h]
  · unfold PSet.packets
    apply List.Perm.map
    rw [List.perm_ext_iff_of_nodup (List.Nodup.of_map _ n1) (List.Nodup.of_map _ n2)]
    rintro ⟨i, p⟩
    rw [mem_iff_lookup _ n1, mem_iff_lookup _ n2, hv]

/-- Pushing deal bundles under their own dealer index, as `Protocol` does. -/
def dealPushes (l : List (Bool × DealBundle)) : Pushes DealBundle := l.map (fun e => (e.1, e.2.dealerIndex, e.2))

/-- **End to end: the response to the deal phase depends only on the *set* of broadcast deal packets.**
Whatever order the (signature-checked) deal bundles arrive in and however often each is repeated,
`ProcessDeals` applied to what the `set` accumulated gives the same responses and the same state. -/
theorem processDeals_broadcast_order_dup_independent (c : Cfg) (st : St) (l l' : List (Bool × DealBundle))
    (h : ∀ e, e ∈ l ↔ e ∈ l') :
    processDeals c st (PSet.ofPushes (dealPushes l)).packets = processDeals c st (PSet.ofPushes (dealPushes l')).packets := by
  have hm : ∀ e, e ∈ dealPushes l ↔ e ∈ dealPushes l' := by
    intro e; simp only [dealPushes, List.mem_map]
    constructor <;> rintro ⟨x, hx, rfl⟩
    · exact ⟨x, (h x).mp hx, rfl⟩
    · exact ⟨x, (h x).mpr hx, rfl⟩
  obtain ⟨_, _, hperm⟩ := pset_order_dup_independent _ _ hm
  apply processDeals_perm c st hperm
  obtain ⟨_, v1, n1⟩ := ofPushes_spec (dealPushes l)
  -- stored packets sit under their own dealer index
  have hkey : (PSet.ofPushes (dealPushes l)).packets.map (·.dealerIndex) = (PSet.ofPushes (dealPushes l)).vals.map Prod.fst := by
    unfold PSet.packets
    rw [List.map_map]
    apply List.map_congr_left
    rintro ⟨i, p⟩ hip
    have := ((v1 i p).mp ((mem_iff_lookup _ n1 i p).mp hip)).1
    simp only [dealPushes, List.mem_map, Prod.mk.injEq] at this
    obtain ⟨x, _, _, h2, h3⟩ := this
    simp only [Function.comp]
    rw [← h3]; exact h2
  rw [hkey]; exact n1

/-! ### 2. Key algebra -/

/-- Every private share a node holds lies on the public polynomial it recorded for that dealer
    (read in `ZMod q`). Established by the share checks of `ProcessDeals` / `ProcessJustifications`,
    see `sharesOnPublics_*`. -/
def SharesOnPublics (c : Cfg) (st : St) : Prop :=
  ∀ d v, st.validShares d = some v →
    ∃ p, st.allPublics d = some p ∧ ((v : Nat) : ZMod c.q) = (toPoly c.q p).eval ((c.nidx : ZMod c.q) + 1)

/-- **The fresh DKG output, algebraically.** If `computeDKGResult` returns a result then QUAL is the
list of dealers with an all-success row that are not evicted as holders, each of them contributed a
share and a public polynomial, the output commitment polynomial is the SUM of the qualified dealers'
public polynomials, and the output share is the sum of their shares. -/
theorem dkg_result_algebra (c : Cfg) (st : St) (r : Result) (h : computeDKGResult c st = some r) :
    r.qual = (qualDealers c st).map (·.index) ∧ r.shareI = c.nidx ∧
    (∀ n ∈ qualDealers c st, ∃ sh pb, st.validShares n.index = some sh ∧ st.allPublics n.index = some pb) ∧
    toPoly c.q r.commits = ((qualDealers c st).map (fun n => toPoly c.q ((st.allPublics n.index).getD []))).sum ∧
    ((r.shareV : Nat) : ZMod c.q) =
      ((qualDealers c st).map (fun n => (((st.validShares n.index).getD 0 : Nat) : ZMod c.q))).sum := by
  rw [computeDKGResult_eq] at h
  split at h
  · rename_i s fp heq
    cases h
    obtain ⟨h1, h2, h3, _⟩ := dkg_fold c st _ _ _ _ _ heq
    refine ⟨rfl, rfl, h1, ?_, ?_⟩
    · simpa [accPoly] using h3
    · simpa using h2
  · cases h

/-- **Each honest output share lies on the output polynomial.** -/
theorem dkg_share_on_output_polynomial (c : Cfg) (st : St) (r : Result) (hinv : SharesOnPublics c st)
    (h : computeDKGResult c st = some r) :
    ((r.shareV : Nat) : ZMod c.q) = (toPoly c.q r.commits).eval ((r.shareI : ZMod c.q) + 1) := by
  obtain ⟨_, hI, hex, hpoly, hsh⟩ := dkg_result_algebra c st r h
  rw [hsh, hpoly, hI, ← Polynomial.coe_evalRingHom, map_list_sum, List.map_map]
  congr 1
  apply List.map_congr_left
  intro n hn
  obtain ⟨sh, pb, h1, h2⟩ := hex n hn
  obtain ⟨p, h3, h4⟩ := hinv _ _ h1
  rw [h2] at h3; cases h3
  simp [h1, h2, h4]

/-- **The key is the sum of the qualified dealers' contributions**: `Commits[0] = Σ_{d ∈ QUAL} P_d[0]`. -/
theorem dkg_key_is_sum_of_qual (c : Cfg) (st : St) (r : Result) (h : computeDKGResult c st = some r) :
    ((r.commits.headD 0 : Nat) : ZMod c.q) =
      ((qualDealers c st).map (fun n => ((((st.allPublics n.index).getD []).headD 0 : Nat) : ZMod c.q))).sum := by
  obtain ⟨_, _, _, hpoly, _⟩ := dkg_result_algebra c st r h
  have := congrArg (fun p => Polynomial.coeff p 0) hpoly
  simp only [toPoly_coeff_zero] at this
  rw [this, ← Polynomial.lcoeff_apply, map_list_sum, List.map_map]
  congr 1
  apply List.map_congr_left
  intro n _
  simp [toPoly_coeff_zero]

/-- **Any `t` output shares recover a secret matching `Commits[0]`.** Take the results of any set of
nodes that agree on the commitment list `cs` (agreement: §3) with `len cs ≤ t`, whose shares lie on it
(`dkg_share_on_output_polynomial`): kyber's `RecoverSecret` (C07 model) over any slice with at least `t`
distinct indices — any order, repetitions, surplus — returns `log Commits[0]`. -/
theorem output_shares_recover (q : Nat) [Fact q.Prime] (hq2 : 2 < q) (cs : List Nat) (t : Nat) (ht : 1 ≤ t)
    (hlen : cs.length ≤ t) (rs : List Result)
    (hon : ∀ r ∈ rs, r.commits = cs ∧ r.shareI + 1 < 2 ^ 32 ∧ r.shareI + 1 < q ∧
      ((r.shareV : Nat) : ZMod q) = (toPoly q r.commits).eval ((r.shareI : ZMod q) + 1))
    (hcnt : t ≤ (rs.map (·.shareI)).toFinset.card) :
    Share.recoverSecret q (rs.map (fun r => some ⟨r.shareI, some r.shareV⟩)) t = some (cs.headD 0 % q) := by
  have hq : 0 < q := by omega
  have honc : OnCurve q (toPoly q cs) (rs.map (fun r => some ⟨r.shareI, some r.shareV⟩)) := by
    intro sh hsh v hv
    simp only [List.mem_map, Option.some.injEq] at hsh
    obtain ⟨r, hr, rfl⟩ := hsh
    simp only [Option.some.injEq] at hv; subst hv
    obtain ⟨h1, h2, h3, h4⟩ := hon r hr
    exact ⟨⟨h2, h3⟩, by rw [h4, h1]⟩
  have hfin : (validIdx (rs.map (fun r => some ⟨r.shareI, some r.shareV⟩))).toFinset = (rs.map (·.shareI)).toFinset := by
    ext k
    simp only [List.mem_toFinset, mem_validIdx, List.mem_map]
    constructor
    · rintro ⟨s, ⟨r, hr, hs⟩, rfl, _⟩
      simp only [Option.some.injEq] at hs; subst hs
      exact ⟨r, hr, rfl⟩
    · rintro ⟨r, hr, rfl⟩
      exact ⟨⟨r.shareI, some r.shareV⟩, ⟨r, hr, rfl⟩, rfl, by simp⟩
  obtain ⟨r, h1, h2, h3⟩ := recoverSecret_eq_of_onCurve hq2 (toPoly q cs) t ht
    (lt_of_lt_of_le (toPoly_degree_lt cs) (by exact_mod_cast hlen)) _ honc (by rw [hfin]; exact hcnt)
  rw [h1, Option.some.injEq]
  apply (eq_iff_cast_eq _ _ h2 (Nat.mod_lt _ hq)).mpr
  rw [h3, toPoly_coeff_zero, ZMod.natCast_mod]

end Kyber.Dkg
