import KyberModel.Lib.BlsG2Dec
/-
# C04, continued — BLS12-381 G2 (compressed form; kilic and CIRCL back-ends)

The decoder specification `BLS12381.decG2` (`Groups/BlsG2.lean`) is total by construction (a Lean function);
here: wrong lengths are rejected, and every accepted string is a member — reduced coordinates, on the twist
`y² = x³ + 4(1+i)`, killed by the group order `r` — so (with `Lib/TwistModel.lean`) it is an element of the
elliptic-curve group for which `Props/C01.lean: bls12381g2_laws` holds. The square root in `Fp2` that
decompression needs is *checked by squaring*, so these statements do not depend on the root algorithm.
-/
namespace Kyber.C04.BLS12381G2
open Kyber Kyber.BLS12381 Kyber.TwistModel

/-- Only 96-byte strings are accepted. -/
theorem dec_length (bs : Bytes) (h : bs.length ≠ 96) : decG2 bs = none := BlsG2Dec.decG2_length bs h

/-- **Accepted ⇒ member.** -/
theorem dec_valid (bs : Bytes) (P : Fp2.Pt) (h : decG2 bs = some P) :
    Valid twist P ∧ Fp2.smul twist r P = none := BlsG2Dec.decG2_valid bs P h

/-- A root handed back by the `Fp2` square root is reduced and squares to its argument. -/
theorem sqrt_sound (a y : Fp2.El) (h : sqrtFp2 a = some y) :
    Reduced p y ∧ Fp2.mul p y y = Fp2.red p a := BlsG2Dec.sqrtFp2_sound a y h

/-- Non-vacuity: the standard generator encoding is accepted; a string of the wrong length is not. -/
example : decG2 (encG2 g2Base) = some g2Base := TwistFacts.bls_base_roundtrip
example : decG2 [0xc0] = none := dec_length _ (by decide)

end Kyber.C04.BLS12381G2
