import KyberModel.Lib.ScalarMult
import KyberModel.Props.C01
/-
C18 — independent implementations agree (model side).
Agreement is a corollary of each implementation agreeing with ONE reference model (checked byte for
byte by harness c18.go on shared programs, for every build configuration). The theorems here are
the algorithm-equivalence statements: the different scalar-multiplication strategies the
implementations use all compute `a • P` in any additive commutative group, hence agree.
-/
namespace Kyber.C18
open Kyber.ScalarMult

variable {G : Type*} [AddCommGroup G]

/-- Constant-time path (`geScalarMult`: signed radix-16 recoding + fixed window) and plain
    double-and-add (`edwards25519vartime`, BN `curvePoint.Mul`) agree for every scalar below `2^256`
    and every point. -/
theorem window_eq_dblAdd (a : Nat) (ha : a < 16 ^ 64) (bits : List Bool) (hb : ofBitsMSB bits = a) (P : G) :
    windowEval 16 (recode (nibbles 64 a) 0) P = dblAdd bits P := by
  rw [recode_nibbles_spec a ha P, dblAdd_spec, hb]

/-- Sliding-window path (`geScalarMultVartime` evaluates the signed-digit expansion `slide a`):
    any radix-2 signed-digit expansion of `a` evaluates to the same point as double-and-add. -/
theorem signedDigits_eq_dblAdd (a : Nat) (ds : List Int) (hd : digitsVal 2 ds = a)
    (bits : List Bool) (hb : ofBitsMSB bits = a) (P : G) :
    windowEval 2 ds P = dblAdd bits P := by
  rw [windowEval_spec, hd, dblAdd_spec, hb]
  exact natCast_zsmul P a

/-- Two implementations that both agree with the reference model on an input agree with each other. -/
theorem agree_of_agree_with_model {α β : Type} (model impl1 impl2 : α → β) (x : α)
    (h1 : impl1 x = model x) (h2 : impl2 x = model x) : impl1 x = impl2 x := by rw [h1, h2]

/-- The reference model's own multiplier is double-and-add in the Ed25519 group: for valid `P`,
    `smul a P` represents `a • P` (this is `Ed25519.toG_smul`; restated for the record). -/
theorem model_smul_is_nsmul {P : Kyber.Edwards.Pt} (hP : Kyber.Ed25519.Valid P) (a : Nat) :
    Kyber.Ed25519.toG (Kyber.Ed25519.smul a P) (Kyber.Ed25519.valid_smul hP a)
      = a • Kyber.Ed25519.toG P hP := Kyber.Ed25519.toG_smul hP a

/-- Non-vacuity: a concrete recoding (a = 2^252 + 12345) has value `a`. -/
example : digitsVal 16 (recode (nibbles 64 (2 ^ 252 + 12345)) 0) = ((2 ^ 252 + 12345 : Nat) : Int) := by
  decide +kernel

end Kyber.C18
