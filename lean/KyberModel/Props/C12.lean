import KyberModel.Proto.Dss
import KyberModel.Lib.ShareDss
import KyberModel.Props.C07
import KyberModel.Drive.Dss
/-
C12 — Threshold Schnorr (DSS) yields one standard signature from any t partials.

Property theorems about the executable model `Kyber.Dss` (Proto/Dss.lean; the definitions the driver
runs), in the discrete-log representation over `ZMod q`, `q` prime, relative to `H_RO` (the message
hash `h` is an oracle value) and to C08 (the Schnorr signature that authenticates a partial is the
input `authOK`). "For all histories": `run q d ops` for an arbitrary list of events
(`sign`, `recv partial authOK`) in any order, at any participant.

`sigPoly q d = randomPoly + h·longPoly` (Lib/ShareDss.lean) is the polynomial of the partial signatures;
`OwnOK q d` says the node's own DKG shares match the public commitments.
-/
namespace Kyber.Dss
open Polynomial Kyber.Scalar Kyber.Share

variable {q : Nat}

/-! ### Partial signatures and their acceptance -/

/-- A partial signature `h·α_i + β_i` built from shares of the two distributed keys passes the check of
    `ProcessPartialSig` at every other participant: if `α_i`, `β_i` are the evaluations of the private polynomials
    whose commitments (base `G`) are public, the equation `γ_i·G = RandPoly.Eval(i) + h·LongPoly.Eval(i)` holds. -/
theorem partial_valid (hq : 0 < q) (d : DSS) (longP randP : Poly) (i : Nat)
    (hl : d.longC = commit q longP none) (hr : d.randC = commit q randP none) :
    partialEq q d i (add q (mul q d.h (evalAt q longP (xEval q i))) (evalAt q randP (xEval q i))) = true := by
  rw [partialEq_iff hq]
  simp only [sigPoly, hl, hr, toPoly_commit, baseLog, add_cast, mul_cast, evalAt_cast, xEval_cast, Polynomial.eval_add,
    Polynomial.eval_mul, Polynomial.eval_C, Nat.cast_one, one_mul]
  ring

/-- `ProcessPartialSig` accepts exactly when: the index is in range, the partial is authenticated by the
    key at that index, the session id matches, no partial of that index is stored yet, and the value lies on
    `randomPoly + h·longPoly` at the index. -/
theorem process_accept_iff (hq : 0 < q) (d : DSS) (ps : PartialSig) (authOK : Bool) :
    (processPartialSig q d ps authOK).2 = Verdict.ok ↔
      ps.I < d.n ∧ authOK = true ∧ ps.sid = d.sid ∧ ps.I ∉ d.seen ∧
        ((ps.V : Nat) : ZMod q) = (sigPoly q d).eval ((ps.I : ZMod q) + 1) := by
  rw [← partialEq_iff hq]
  unfold processPartialSig
  split_ifs with h1 h2 h3 h4 h5 <;> simp_all

/-- A rejected partial (invalid, forged, other session, duplicate, out-of-range index) never contributes:
    the state is unchanged; an accepted one is stored under its index, and nothing else changes. -/
theorem process_effect (d : DSS) (ps : PartialSig) (authOK : Bool) :
    ((processPartialSig q d ps authOK).2 ≠ Verdict.ok → (processPartialSig q d ps authOK).1 = d) ∧
    ((processPartialSig q d ps authOK).2 = Verdict.ok →
      (processPartialSig q d ps authOK).1 =
        { d with seen := d.seen ++ [ps.I], partials := d.partials ++ [⟨ps.I, some ps.V⟩] }) := by
  unfold processPartialSig
  split_ifs <;> simp

/-- Which error is reported (the checks are made in this order). -/
theorem process_reject_reasons (d : DSS) (ps : PartialSig) (authOK : Bool) :
    (d.n ≤ ps.I → (processPartialSig q d ps authOK).2 = Verdict.errIndex) ∧
    (ps.I < d.n → authOK = false → (processPartialSig q d ps authOK).2 = Verdict.errAuth) ∧
    (ps.I < d.n → authOK = true → ps.sid ≠ d.sid → (processPartialSig q d ps authOK).2 = Verdict.errSession) ∧
    (ps.I < d.n → authOK = true → ps.sid = d.sid → ps.I ∈ d.seen → (processPartialSig q d ps authOK).2 = Verdict.errDup) := by
  unfold processPartialSig
  refine ⟨?_, ?_, ?_, ?_⟩
  · intro h; simp [h]
  · intro h1 h2; simp [Nat.not_le.mpr h1, h2]
  · intro h1 h2 h3; simp [Nat.not_le.mpr h1, h2, h3]
  · intro h1 h2 h3 h4; simp [Nat.not_le.mpr h1, h2, h3, h4]

/-! ### All histories -/

/-- Whatever events happen in whatever order, the keys, the message hash, the threshold and the session id
    of a DSS object never change. -/
theorem run_keeps_keys (fx : Bool) (d : DSS) (ops : List Op) : SameKeys d (run fx q d ops) := run_sameKeys fx d ops

/-- Invariant over all histories: the index map mirrors the stored partials, every stored partial has an index
    in range and a value on `randomPoly + h·longPoly`. -/
theorem run_invariant (hq : 0 < q) (fx : Bool) (d : DSS) (ops : List Op) (hown : OwnOK q d)
    (hinit : d.partials = [] ∧ d.seen = []) : Inv q (run fx q d ops) :=
  inv_run hq fx d ops hown ⟨by simp [hinit.1, hinit.2], by simp [hinit.1]⟩

/-- No index is stored twice, provided the node's own index only enters through `PartialSig()` (nobody else
    can authenticate a partial under the node's key: every received partial that authenticates carries another index). -/
theorem run_seen_nodup (fx : Bool) (d : DSS) (ops : List Op) (hinit : d.partials = [] ∧ d.seen = [] ∧ d.signed = false)
    (hauth : ∀ ps a, Op.recv ps a ∈ ops → a = true → ps.I ≠ d.index) :
    (run fx q d ops).seen.Nodup := by
  suffices h : ∀ (ops : List Op) (d : DSS), (∀ ps a, Op.recv ps a ∈ ops → a = true → ps.I ≠ d.index) →
      d.seen.Nodup → (d.signed = false → d.index ∉ d.seen) → (run fx q d ops).seen.Nodup by
    exact h ops d hauth (by simp [hinit.2.1]) (by simp [hinit.2.1])
  intro ops
  induction ops with
  | nil => intro d _ h _; exact h
  | cons op ops ih =>
    intro d hauth hnd hown
    have hk := step_sameKeys (q := q) fx d op
    have hidx : (step fx q d op).index = d.index := hk.2.2.2.2.2.2.1
    refine ih (step fx q d op) (fun ps a hm ha => hidx ▸ hauth ps a (List.mem_cons_of_mem _ hm) ha) ?_ ?_
    · cases op with
      | sign =>
        show (partialSig fx q d).1.seen.Nodup
        unfold partialSig
        simp only
        split_ifs with hs hf
        · exact hnd
        · have : d.signed = false := by simpa using hs
          exact List.nodup_append.mpr ⟨hnd, List.nodup_singleton _, by
            intro a ha b hb; simp at hb; subst hb; exact fun e => hown this (e ▸ ha)⟩
        · exact hnd
      | recv ps a =>
        show (processPartialSig q d ps a).1.seen.Nodup
        unfold processPartialSig
        split_ifs with h1 h2 h3 h4 h5
        · exact hnd
        · exact hnd
        · exact hnd
        · exact hnd
        · exact hnd
        · exact List.nodup_append.mpr ⟨hnd, List.nodup_singleton _, by
            intro x hx b hb; simp at hb; subst hb; exact fun e => h4 (e ▸ hx)⟩
    · cases op with
      | sign =>
        show (partialSig fx q d).1.signed = false → (partialSig fx q d).1.index ∉ (partialSig fx q d).1.seen
        unfold partialSig
        simp only
        split_ifs
        · intro h; simp at h
        · intro h; simp at h
        · exact hown
      | recv ps a =>
        show (processPartialSig q d ps a).1.signed = false → (processPartialSig q d ps a).1.index ∉ (processPartialSig q d ps a).1.seen
        unfold processPartialSig
        split_ifs with h1 h2 h3 h4 h5
        · exact hown
        · exact hown
        · exact hown
        · exact hown
        · exact hown
        · intro hs
          have ha : a = true := by simpa using h2
          have hne := hauth ps a List.mem_cons_self ha
          simp only [List.mem_append, List.mem_singleton, not_or]
          exact ⟨hown hs, fun e => hne e.symm⟩

/-- THE GAP in the code as it stands (`fixOwn = false`): if a partial of the node's own index was stored by
    `ProcessPartialSig` before the first `PartialSig()` call (it was issued by another instance of the same node),
    the index is stored twice: `EnoughPartialSig` counts it twice although `Signature` will not. -/
theorem own_partial_counted_twice (d : DSS) (hs : d.signed = false) (hm : d.index ∈ d.seen) :
    ¬ (partialSig false q d).1.seen.Nodup := by
  unfold partialSig
  simp only [hs, Bool.not_false, if_true, Bool.false_and, Bool.false_eq_true, if_false]
  intro h
  have := (List.nodup_append.mp h).2.2 d.index hm d.index (by simp)
  exact this rfl

/-- With fixes/C12-own-partial-counted-twice.patch (`fixOwn = true`) no index is ever stored twice, in any history. -/
theorem run_seen_nodup_fixed (d : DSS) (ops : List Op) (hinit : d.seen.Nodup) : (run true q d ops).seen.Nodup := by
  induction ops generalizing d with
  | nil => exact hinit
  | cons op ops ih =>
    refine ih (step true q d op) ?_
    cases op with
    | sign =>
      show (partialSig true q d).1.seen.Nodup
      unfold partialSig
      simp only
      split_ifs with hs hf
      · exact hinit
      · have hnm : d.index ∉ d.seen := by simpa using hf
        exact List.nodup_append.mpr ⟨hinit, List.nodup_singleton _, by
          intro a ha b hb; simp at hb; subst hb; exact fun e => hnm (e ▸ ha)⟩
      · exact hinit
    | recv ps a =>
      show (processPartialSig q d ps a).1.seen.Nodup
      unfold processPartialSig
      split_ifs with h1 h2 h3 h4 h5
      · exact hinit
      · exact hinit
      · exact hinit
      · exact hinit
      · exact hinit
      · exact List.nodup_append.mpr ⟨hinit, List.nodup_singleton _, by
          intro x hx b hb; simp at hb; subst hb; exact fun e => h4 (e ▸ hx)⟩

/-! ### The signature -/

/-- From any history after which at least `T` distinct indices are stored — whatever the arrival order, whichever
    participant combines — `Signature()` returns `(R, γ)` with `γ = r + h·a` (discrete logs of `R` and of the
    distributed public key `A`), i.e. an ordinary Schnorr/EdDSA signature: `γ·B = R + h·A`. -/
theorem signature_eq [Fact q.Prime] (hq2 : 2 < q) (fx : Bool) (d : DSS) (ops : List Op) (hown : OwnOK q d)
    (hinit : d.partials = [] ∧ d.seen = []) (hT : 1 ≤ d.T) (hn : d.n < 2 ^ 32 ∧ d.n < q)
    (hdeg : d.longC.length ≤ d.T ∧ d.randC.length ≤ d.T)
    (hcnt : d.T ≤ (run fx q d ops).seen.toFinset.card) :
    ∃ γ, signature q (run fx q d ops) = some (d.randC.headD 0, γ) ∧ γ < q ∧
      ((γ : Nat) : ZMod q) = (d.randC.headD 0 : ZMod q) + (d.h : ZMod q) * (d.longC.headD 0 : ZMod q) ∧
      eddsaEq q (d.longC.headD 0) d.h (d.randC.headD 0, γ) = true := by
  have hq : 0 < q := by omega
  have hk := run_sameKeys (q := q) fx d ops
  have hinv := run_invariant hq fx d ops hown hinit
  set d' := run fx q d ops with hd'
  have hpoly : sigPoly q d' = sigPoly q d := sigPoly_sameKeys hk
  have hT' : d'.T = d.T := hk.2.1
  have hn' : d'.n = d.n := hk.1
  have hsome : ∀ p ∈ d'.partials, ∃ v, p.V = some v := fun p hp => let ⟨_, v, hv, _⟩ := hinv.2 p hp; ⟨v, hv⟩
  have hvalid : validIdx (d'.partials.map some) = d'.seen := by rw [validIdx_partials _ hsome, hinv.1]
  have hon : OnCurve q (sigPoly q d) (d'.partials.map some) := by
    intro sh hsh v hv
    obtain ⟨p, hp, hp'⟩ := List.mem_map.mp hsh
    cases hp'
    obtain ⟨h1, v', hv', h2⟩ := hinv.2 sh hp
    rw [hv] at hv'
    cases hv'
    exact ⟨⟨by omega, by omega⟩, hpoly ▸ h2⟩
  have hdegree : (sigPoly q d).degree < (d.T : WithBot ℕ) := by
    refine lt_of_le_of_lt (degree_add_le _ _) (max_lt ?_ ?_)
    · exact lt_of_lt_of_le (toPoly_degree_lt _) (by exact_mod_cast hdeg.2)
    · refine lt_of_le_of_lt (degree_mul_le _ _) ?_
      refine lt_of_le_of_lt (add_le_add degree_C_le le_rfl) ?_
      rw [zero_add]
      exact lt_of_lt_of_le (toPoly_degree_lt _) (by exact_mod_cast hdeg.1)
  obtain ⟨γ, h1, h2, h3⟩ := recoverSecret_eq_of_onCurve hq2 (sigPoly q d) d.T hT hdegree (d'.partials.map some) hon
    (by rw [hvalid]; exact hcnt)
  have hlen : d.T ≤ d'.partials.length := by
    have := List.toFinset_card_le d'.seen
    rw [hinv.1, List.length_map] at this
    rw [hinv.1] at hcnt
    omega
  have hγ : ((γ : Nat) : ZMod q) = (d.randC.headD 0 : ZMod q) + (d.h : ZMod q) * (d.longC.headD 0 : ZMod q) := by
    rw [h3]
    simp [sigPoly, toPoly_coeff_zero]
  refine ⟨γ, ?_, h2, hγ, ?_⟩
  · unfold signature enoughPartialSig
    have : d'.partials.length ≥ d'.T := by rw [hT']; exact hlen
    simp only [ge_iff_le, hlen, decide_true, Bool.not_true, Bool.false_eq_true, if_false, hT', h1, Option.map_some, hk.2.2.2.1]
  · unfold eddsaEq
    rw [beq_iff_eq, eq_iff_cast_eq _ _ (mul_lt hq _ _) (add_lt hq _ _)]
    simp only [mul_cast, add_cast, hγ, Nat.cast_one, mul_one]

/-- Every participant derives the same signature: two DSS objects for the same distributed keys, message and
    threshold — different nodes, different histories and arrival orders — that both hold at least `T` distinct
    partials return the same `(R, γ)`. -/
theorem signature_agree [Fact q.Prime] (hq2 : 2 < q) (fx₁ fx₂ : Bool) (d₁ d₂ : DSS) (ops₁ ops₂ : List Op)
    (hsame : d₂.T = d₁.T ∧ d₂.longC = d₁.longC ∧ d₂.randC = d₁.randC ∧ d₂.h = d₁.h)
    (ho₁ : OwnOK q d₁) (ho₂ : OwnOK q d₂) (hi₁ : d₁.partials = [] ∧ d₁.seen = []) (hi₂ : d₂.partials = [] ∧ d₂.seen = [])
    (hT : 1 ≤ d₁.T) (hn₁ : d₁.n < 2 ^ 32 ∧ d₁.n < q) (hn₂ : d₂.n < 2 ^ 32 ∧ d₂.n < q)
    (hdeg : d₁.longC.length ≤ d₁.T ∧ d₁.randC.length ≤ d₁.T)
    (c₁ : d₁.T ≤ (run fx₁ q d₁ ops₁).seen.toFinset.card) (c₂ : d₂.T ≤ (run fx₂ q d₂ ops₂).seen.toFinset.card) :
    signature q (run fx₁ q d₁ ops₁) = signature q (run fx₂ q d₂ ops₂) := by
  obtain ⟨e1, e2, e3, e4⟩ := hsame
  obtain ⟨γ₁, a1, a2, a3, _⟩ := signature_eq hq2 fx₁ d₁ ops₁ ho₁ hi₁ hT hn₁ hdeg c₁
  obtain ⟨γ₂, b1, b2, b3, _⟩ := signature_eq hq2 fx₂ d₂ ops₂ ho₂ hi₂ (e1 ▸ hT) hn₂ (by rw [e1, e2, e3]; exact hdeg) c₂
  rw [a1, b1, e3]
  rw [e2, e3, e4] at b3
  rw [(eq_iff_cast_eq _ _ a2 b2).mpr (a3.trans b3.symm)]

/-- No signature is produced from fewer than `T` partials (nor from partials with fewer than `T` distinct indices). -/
theorem signature_refuses (d : DSS) (hT : 1 ≤ d.T)
    (h : d.partials.length < d.T ∨ (validIdx (d.partials.map some)).toFinset.card < d.T) :
    signature q d = none := by
  unfold signature enoughPartialSig
  by_cases hl : d.partials.length ≥ d.T
  · have hc : (validIdx (d.partials.map some)).toFinset.card < d.T := by
      rcases h with h | h
      · omega
      · exact h
    simp [hl, (recoverSecret_eq_none_iff (q := q) _ _ hT).mpr hc]
  · simp [hl]

/-- The driver's history runner (`Drive/Dss.lean`) ends in exactly the state `run` the theorems speak about. -/
theorem driver_runs_run (fx : Bool) (d : DSS) (ops : List Op) (acc : List String) :
    (Kyber.Drive.dssRun fx q d ops acc).1 = run fx q d ops := by
  induction ops generalizing d acc with
  | nil => rfl
  | cons op ops ih =>
    cases op with
    | sign => exact ih _ _
    | recv ps a => exact ih _ _

/-! ### The hypotheses are satisfiable -/

/-- `q = 101`, `n = 3`, `T = 2`, long-term polynomial `7 + 2x`, one-time polynomial `5 + 3x`, `h = 4`; node 0. -/
def exampleDSS : DSS := newDSS 0 3 2 9 8 [7, 2] [5, 3] 4 77

theorem exampleDSS_ownOK : OwnOK 101 exampleDSS := by
  refine ⟨by decide, ?_⟩
  simp only [exampleDSS, newDSS, sigPoly, toPoly_cons, toPoly_nil]
  simp
  decide

theorem exampleDSS_seen : (run false 101 exampleDSS [Op.sign, Op.recv ⟨2, 66, 77⟩ true]).seen = [0, 2] := by decide

/-- The hypotheses of `signature_eq` hold for a concrete history (own partial, then the partial of node 2). -/
example : ∃ γ, signature 101 (run false 101 exampleDSS [Op.sign, Op.recv ⟨2, 66, 77⟩ true]) = some (5, γ) := by
  have := Kyber.Share.prime_101
  obtain ⟨γ, h, _⟩ := signature_eq (q := 101) (by norm_num) false exampleDSS [Op.sign, Op.recv ⟨2, 66, 77⟩ true] exampleDSS_ownOK
    ⟨rfl, rfl⟩ (by decide) (by decide) (by decide) (by rw [exampleDSS_seen]; decide)
  exact ⟨γ, h⟩

end Kyber.Dss
