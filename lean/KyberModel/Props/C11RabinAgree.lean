import KyberModel.Props.C11RabinOrder
import KyberModel.Lib.VssAgree
/-
C11 — Rabin DKG: two honest nodes agree on whether a dealer is qualified, once both have heard every participant's
(single) verdict about that dealer's deal. Lifting of `Vss.heard_everybody_agree` through `ProcessResponse`.
-/
namespace Kyber.RabinDkg
open Kyber.Vss

/-- **Agreement on QUAL membership.** Nodes `A` and `B` hold verifiers for dealer `idx` (not themselves) whose
aggregators are consistent with the participants' verdicts `v` and agree on the dealer flag, the timeout flag and
the threshold; A processes the responses `la`, B the responses `lb` (each carrying its sender's verdict; any order,
repetitions, forged or foreign ones are refused alike), after which both have a response of every participant. Then
`idx ∈ QUAL()` at A iff `idx ∈ QUAL()` at B. -/
theorem qual_agreement (cfg : Cfg) (hv : cfg.variant = .rabin) (A B : Node) (idx : Nat) (v : Nat → Bool)
    (a b : Agg) (hneA : idx ≠ A.me) (hneB : idx ≠ B.me) (hwA : WF cfg A.me A) (hwB : WF cfg B.me B)
    (hlA : A.verifiers.lookup idx = some ⟨.verifier A.me, some a⟩)
    (hlB : B.verifiers.lookup idx = some ⟨.verifier B.me, some b⟩)
    (ha : Inv cfg a) (hb : Inv cfg b) (hca : Consistent a v) (hcb : Consistent b v)
    (hbad : a.badDealer = b.badDealer) (htmo : a.timeout = b.timeout) (ht : a.t = b.t)
    (la lb : List Resp) (hla : ∀ r ∈ la, r.ap = v r.idx) (hlb : ∀ r ∈ lb, r.ap = v r.idx)
    (hfa : ∀ i < cfg.n, ((la.foldl (respOp cfg) a).responses.lookup i).isSome = true)
    (hfb : ∀ i < cfg.n, ((lb.foldl (respOp cfg) b).responses.lookup i).isSome = true) :
    idx ∈ qual cfg (run cfg A (la.map (respCall idx))) ↔ idx ∈ qual cfg (run cfg B (lb.map (respCall idx))) := by
  obtain ⟨h1, w1⟩ := run_responses_other cfg hv idx A.me la A a rfl hneA hwA hlA
  obtain ⟨h2, w2⟩ := run_responses_other cfg hv idx B.me lb B b rfl hneB hwB hlB
  obtain ⟨_, hc⟩ := heard_everybody_agree cfg v a b ha hb hca hcb hbad htmo ht la lb hla hlb hfa hfb
  rw [qual_iff w1, qual_iff w2]
  constructor
  · rintro ⟨x, hx, hcert⟩
    rw [h1] at hx; cases hx
    exact ⟨_, h2, by unfold Vss.certified at hcert ⊢; simp only at hcert ⊢; rw [← hc]; exact hcert⟩
  · rintro ⟨x, hx, hcert⟩
    rw [h2] at hx; cases hx
    exact ⟨_, h1, by unfold Vss.certified at hcert ⊢; simp only at hcert ⊢; rw [hc]; exact hcert⟩

/-- `qual_agreement` with "has heard everybody" read off the messages: every slot is filled already (the node's own
verdict, the dealer's approval) or the node processes a valid response of the session from that participant. -/
theorem qual_agreement_of_messages (cfg : Cfg) (hv : cfg.variant = .rabin) (A B : Node) (idx : Nat) (v : Nat → Bool)
    (a b : Agg) (hneA : idx ≠ A.me) (hneB : idx ≠ B.me) (hwA : WF cfg A.me A) (hwB : WF cfg B.me B)
    (hlA : A.verifiers.lookup idx = some ⟨.verifier A.me, some a⟩)
    (hlB : B.verifiers.lookup idx = some ⟨.verifier B.me, some b⟩)
    (ha : Inv cfg a) (hb : Inv cfg b) (hca : Consistent a v) (hcb : Consistent b v)
    (hbad : a.badDealer = b.badDealer) (htmo : a.timeout = b.timeout) (ht : a.t = b.t)
    (la lb : List Resp) (hla : ∀ r ∈ la, r.ap = v r.idx) (hlb : ∀ r ∈ lb, r.ap = v r.idx)
    (hva : ∀ r ∈ la, r.sg = true ∧ respSidOk cfg a r.sid = true ∧ r.idx < cfg.n)
    (hvb : ∀ r ∈ lb, r.sg = true ∧ respSidOk cfg b r.sid = true ∧ r.idx < cfg.n)
    (hcova : ∀ i < cfg.n, (a.responses.lookup i).isSome = true ∨ ∃ r ∈ la, r.idx = i)
    (hcovb : ∀ i < cfg.n, (b.responses.lookup i).isSome = true ∨ ∃ r ∈ lb, r.idx = i) :
    idx ∈ qual cfg (run cfg A (la.map (respCall idx))) ↔ idx ∈ qual cfg (run cfg B (lb.map (respCall idx))) :=
  qual_agreement cfg hv A B idx v a b hneA hneB hwA hwB hlA hlB ha hb hca hcb hbad htmo ht la lb hla hlb
    (all_heard cfg a la hva hcova) (all_heard cfg b lb hvb hcovb)

end Kyber.RabinDkg
