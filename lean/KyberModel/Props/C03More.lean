import KyberModel.Props.C04
import KyberModel.Lib.DecodeComplete
import KyberModel.Lib.WeierstrassFacts
import KyberModel.Lib.BlsG2RoundTrip
import KyberModel.Lib.BlsG2Complete
/-
# C03, continued — round trip and injectivity for the remaining encodings

`Props/C03.lean` covers Ed25519, P-256 and the BN G1 groups. This file states the same three facts
(fixed length, `dec (enc P) = some P` for every valid value, `enc` injective on valid values) for

* BLS12-381 G1 in the ZCash compressed form (a square root is recomputed on decoding: completeness of
  `a^((p+1)/4)` for `p ≡ 3 mod 4` and the "larger root" flag, `Lib/DecodeComplete.lean`),
* BN256 G2 and BN254 G2 (four 32-byte coordinates over `Fp2`; BN254 also tests the order),
* BLS12-381 G2 in the compressed form (96 bytes; for every value the decoder accepts, and — completeness of the
  norm-method square root in `Fp2`, `Lib/BlsG2Complete.lean` — for EVERY valid point of the subgroup),
* residue (Schnorr) groups such as QR512 (big-endian, padded to the length of the modulus).

The hypotheses are the decidable validity predicates of the reference models, which the generators and
the values decoders accept satisfy (`Props/C04.lean`: `dec_valid`, `decG2_valid`); the `example`s show
them met by the generators.
-/
namespace Kyber.C03

/-- Injectivity from a round trip. -/
theorem inj_of_roundtrip {α : Type} (enc : α → Bytes) (dec : Bytes → Option α) (V : α → Prop)
    (h : ∀ a, V a → dec (enc a) = some a) (a b : α) (ha : V a) (hb : V b) (he : enc a = enc b) : a = b := by
  have := h a ha
  rw [he, h b hb] at this
  exact (Option.some.inj this).symm

/-! ### BLS12-381 G1, compressed -/
namespace BLSG1
open Kyber.BLS12381 Kyber.Weierstrass

/-- Valid: on the curve, reduced coordinates, order dividing `r`. -/
def Valid (P : Pt) : Prop :=
  onCurve curve P = true ∧ smul curve r P = none ∧ ∀ x y, P = some (x, y) → x < p ∧ y < p

theorem enc_length (P : Pt) : (enc P).length = 48 := by
  cases P with
  | none => simp [enc]
  | some xy =>
    obtain ⟨x, y⟩ := xy
    have h : (encodeBE 48 x).length = 48 := encodeBE_length 48 x
    simp only [enc]
    cases hb : encodeBE 48 x with
    | nil => rw [hb] at h; simp at h
    | cons b0 rest => rw [hb] at h; simpa using h

theorem roundtrip (P : Pt) (hP : Valid P) : dec (enc P) = some P :=
  DecodeLib.BLS.dec_enc_of_valid P hP.1 hP.2.1 hP.2.2

theorem enc_injective (P Q : Pt) (hP : Valid P) (hQ : Valid Q) (h : enc P = enc Q) : P = Q :=
  inj_of_roundtrip enc dec Valid roundtrip P Q hP hQ h

/-- Whatever the decoder accepts is valid (so the two theorems above apply to every decoded value). -/
theorem dec_valid (bs : Bytes) (P : Pt) (h : dec bs = some P) : onCurve curve P = true ∧ smul curve r P = none :=
  C04.BLS12381.dec_valid bs P h

example : Valid base :=
  ⟨WFacts.bls_base_on, WFacts.bls_order, by
    intro x y h
    obtain ⟨rfl, rfl⟩ := Prod.mk.inj (Option.some.inj h)
    constructor <;> decide +kernel⟩
end BLSG1

/-! ### BN256 G2 and BN254 G2 -/
namespace BN256G2
open Kyber.BN256 Kyber.Fp2

def Valid (P : Fp2.Pt) : Prop :=
  Fp2.onCurve twist P = true ∧ ∀ x y, P = some (x, y) → x.1 < p ∧ x.2 < p ∧ y.1 < p ∧ y.2 < p

theorem enc_length (P : Fp2.Pt) : (Fp2.enc P).length = 128 := by
  cases P with
  | none => simp [Fp2.enc]
  | some xy => obtain ⟨x, y⟩ := xy; simp [Fp2.enc, encodeBE_length]

theorem origin_off : Fp2.onCurve twist (some ((0, 0), (0, 0))) = false := by decide +kernel

theorem roundtrip (P : Fp2.Pt) (hP : Valid P) : decG2 (Fp2.enc P) = some P := by
  cases P with
  | none => decide +kernel
  | some xy =>
    obtain ⟨x, y⟩ := xy
    obtain ⟨h1, h2, h3, h4⟩ := hP.2 x y rfl
    have hp := C04.BN256G2.p_lt
    have hne : ¬ (isZero x && isZero y) = true := by
      intro hz
      simp only [isZero, Bool.and_eq_true, decide_eq_true_eq] at hz
      obtain ⟨⟨a, b⟩, ⟨c, d⟩⟩ := hz
      have hx : x = (0, 0) := Prod.ext a b
      have hy : y = (0, 0) := Prod.ext c d
      have := hP.1
      rw [hx, hy, origin_off] at this
      cases this
    unfold decG2
    rw [DecodeLib.G2.coords_enc x y (by omega) (by omega) (by omega) (by omega)]
    have rx : red p x = x := by unfold red; rw [Nat.mod_eq_of_lt h1, Nat.mod_eq_of_lt h2]
    have ry : red p y = y := by unfold red; rw [Nat.mod_eq_of_lt h3, Nat.mod_eq_of_lt h4]
    simp only [rx, ry]
    rw [if_neg hne, if_pos hP.1]

theorem enc_injective (P Q : Fp2.Pt) (hP : Valid P) (hQ : Valid Q) (h : Fp2.enc P = Fp2.enc Q) : P = Q :=
  inj_of_roundtrip Fp2.enc decG2 Valid roundtrip P Q hP hQ h

theorem dec_valid (bs : Bytes) (P : Fp2.Pt) (h : decG2 bs = some P) : Valid P := by
  obtain ⟨hc, hl⟩ := C04.BN256G2.decG2_valid bs P h
  exact ⟨hc, fun x y hxy => by obtain ⟨a, b, c, d, _⟩ := hl x y hxy; exact ⟨a, b, c, d⟩⟩
end BN256G2

namespace BN254G2
open Kyber.BN254 Kyber.Fp2

def Valid (P : Fp2.Pt) : Prop :=
  Fp2.onCurve twist P = true ∧ Fp2.smul twist n P = none ∧
    ∀ x y, P = some (x, y) → x.1 < p ∧ x.2 < p ∧ y.1 < p ∧ y.2 < p

theorem origin_off : Fp2.onCurve twist (some ((0, 0), (0, 0))) = false := by decide +kernel

theorem roundtrip (P : Fp2.Pt) (hP : Valid P) : decG2 (Fp2.enc P) = some P := by
  cases P with
  | none => decide +kernel
  | some xy =>
    obtain ⟨x, y⟩ := xy
    obtain ⟨h1, h2, h3, h4⟩ := hP.2.2 x y rfl
    have hp := C04.BN254G2.p_lt
    have hne : ¬ (isZero x && isZero y) = true := by
      intro hz
      simp only [isZero, Bool.and_eq_true, decide_eq_true_eq] at hz
      obtain ⟨⟨a, b⟩, ⟨c, d⟩⟩ := hz
      have hx : x = (0, 0) := Prod.ext a b
      have hy : y = (0, 0) := Prod.ext c d
      have := hP.1
      rw [hx, hy, origin_off] at this
      cases this
    unfold decG2
    rw [DecodeLib.G2.coords_enc x y (by omega) (by omega) (by omega) (by omega)]
    simp only []
    rw [if_neg (by omega), if_neg hne, if_pos ⟨hP.1, hP.2.1⟩]

theorem enc_injective (P Q : Fp2.Pt) (hP : Valid P) (hQ : Valid Q) (h : Fp2.enc P = Fp2.enc Q) : P = Q :=
  inj_of_roundtrip Fp2.enc decG2 Valid roundtrip P Q hP hQ h

theorem dec_valid (bs : Bytes) (P : Fp2.Pt) (h : decG2 bs = some P) : Valid P := by
  obtain ⟨hc, hr, hl⟩ := C04.BN254G2.decG2_valid bs P h
  exact ⟨hc, hr, fun x y hxy => by obtain ⟨a, b, c, d, _⟩ := hl x y hxy; exact ⟨a, b, c, d⟩⟩
end BN254G2

/-! ### BLS12-381 G2, compressed (kilic, CIRCL, gnark) -/
namespace BLSG2
open Kyber.BLS12381

/-- The values the decoder accepts (valid members: `Props/C04More.lean`). -/
def Accepted (P : Fp2.Pt) : Prop := ∃ bs, decG2 bs = some P

theorem enc_length (P : Fp2.Pt) : (encG2 P).length = 96 := by
  cases P with
  | none => simp [encG2]
  | some xy =>
    obtain ⟨x, y⟩ := xy
    have h : (encodeBE 48 x.2 ++ encodeBE 48 x.1).length = 96 := by simp
    simp only [encG2]
    cases hb : encodeBE 48 x.2 ++ encodeBE 48 x.1 with
    | nil => rw [hb] at h; simp at h
    | cons b0 rest => rw [hb] at h; simpa using h

/-- Re-encoding an accepted value decodes to the same value: the flag written by `encG2` selects the same
    root again, whichever root the `Fp2` square root returned. -/
theorem roundtrip (P : Fp2.Pt) (hP : Accepted P) : decG2 (encG2 P) = some P := by
  obtain ⟨bs, h⟩ := hP
  exact BlsG2Dec.decG2_enc bs P h

theorem enc_injective (P Q : Fp2.Pt) (hP : Accepted P) (hQ : Accepted Q) (h : encG2 P = encG2 Q) : P = Q :=
  inj_of_roundtrip encG2 decG2 Accepted roundtrip P Q hP hQ h

/-- Non-vacuity: the generator is an accepted value. -/
example : Accepted g2Base := ⟨encG2 g2Base, TwistFacts.bls_base_roundtrip⟩

/-- A valid member of G2: reduced coordinates, on the twist, killed by the group order. -/
def ValidMember (P : Fp2.Pt) : Prop := TwistModel.Valid twist P ∧ Fp2.smul twist r P = none

/-- **Round trip of every valid member** (not only of decoder outputs): the square root recomputed by the decoder
    exists for every point of the twist, and the flag selects the original `y`. -/
theorem roundtrip_valid (P : Fp2.Pt) (hP : ValidMember P) : decG2 (encG2 P) = some P :=
  BlsG2Dec.decG2_enc_of_valid P hP.1 hP.2

/-- Accepted values and valid members are the same set. -/
theorem accepted_iff_valid (P : Fp2.Pt) : Accepted P ↔ ValidMember P :=
  ⟨fun ⟨bs, h⟩ => BlsG2Dec.decG2_valid bs P h, fun h => ⟨encG2 P, roundtrip_valid P h⟩⟩

theorem enc_injective_valid (P Q : Fp2.Pt) (hP : ValidMember P) (hQ : ValidMember Q) (h : encG2 P = encG2 Q) : P = Q :=
  inj_of_roundtrip encG2 decG2 ValidMember roundtrip_valid P Q hP hQ h

/-- Non-vacuity: the generator is a valid member. -/
example : ValidMember g2Base := (accepted_iff_valid g2Base).mp ⟨encG2 g2Base, TwistFacts.bls_base_roundtrip⟩
end BLSG2

/-! ### Residue groups -/
namespace ResidueEnc
open Kyber.Residue

theorem enc_length (P v : Nat) : (enc P v).length = encLen P := encodeBE_length _ _

theorem roundtrip (P Q v : Nat) (hv : valid P Q v = true) : dec P Q (enc P v) = some v := by
  have hlt : v < P := by
    simp only [valid, Bool.and_eq_true, decide_eq_true_eq] at hv; exact hv.1.2
  have := DecodeLib.bitLen_bound P
  unfold dec enc encLen
  simp only
  rw [decodeBE_encodeBE_of_lt _ _ (lt_trans hlt this)]
  simp [hv]

theorem enc_injective (P Q a b : Nat) (ha : valid P Q a = true) (hb : valid P Q b = true)
    (h : enc P a = enc P b) : a = b :=
  inj_of_roundtrip (enc P) (dec P Q) (fun v => valid P Q v = true) (fun v hv => roundtrip P Q v hv) a b ha hb h

example : valid 23 11 4 = true := by decide
end ResidueEnc

end Kyber.C03
