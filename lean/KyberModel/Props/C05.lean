import KyberModel.Drive.Grp
/-
C05 — value semantics of the reference interpreter.
The model executes programs `dst = op(args)` over a pool of variables (Drive/Grp.lean). These theorems
state that the model is value-semantic *by construction*: a statement reads its operands from the
state before the step and then writes only its destination (frame), for every state, every
destination and every operand pattern — in particular when the destination is one of the operands.
The real code is compared with this interpreter statement by statement (harness c05.go), so any
implementation method that writes before it reads, shares storage between a copy and its source, or
fails to set its receiver, disagrees with the model on some program.
-/
namespace Kyber.Drive

variable {β : Type}

theorem setAt_length (l : List (Option β)) (i : Nat) (v : β) :
    (setAt l i v).length = max l.length (i + 1) := by
  unfold setAt
  split
  · rename_i h; simp only [List.length_set]; omega
  · rename_i h; simp only [List.length_set, List.length_append, List.length_replicate]; omega

/-- Reading the destination after a write yields the written value. -/
theorem getAt_setAt_same (l : List (Option β)) (i : Nat) (v : β) : getAt (setAt l i v) i = some v := by
  unfold getAt setAt
  split
  · rename_i h
    simp [List.getD_eq_getElem?_getD, h]
  · rename_i h
    have : i < l.length + (i + 1 - l.length) := by omega
    simp [List.getD_eq_getElem?_getD, List.getElem?_set, this]

/-- Frame: a write to `i` leaves every other variable as it was (unset stays unset). -/
theorem getAt_setAt_other (l : List (Option β)) (i j : Nat) (v : β) (h : j ≠ i) :
    getAt (setAt l i v) j = getAt l j := by
  unfold getAt setAt
  split
  · simp [List.getD_eq_getElem?_getD, Ne.symm h]
  · rename_i hlt
    simp only [List.getD_eq_getElem?_getD, List.getElem?_set, Ne.symm h, if_false]
    by_cases hj : j < l.length
    · rw [List.getElem?_append_left hj]
    · rw [List.getElem?_append_right (by omega)]
      have hl : l[j]? = none := List.getElem?_eq_none (by omega)
      rw [hl]
      by_cases hj2 : j - l.length < i + 1 - l.length
      · rw [List.getElem?_replicate]; simp [hj2]
      · rw [List.getElem?_eq_none (by simp only [List.length_replicate]; omega)]

end Kyber.Drive
