import KyberModel.Lib.Effects
/-
C20 — shared read-only use of values, suites and schemes is free of data races (PARTIAL).

What is proved is about the effect abstraction of `Proto/Effects.lean`:

* `no_race_of_writesFresh` — calls that write only call-fresh locations cannot race;
* `sequential_results`     — and under EVERY schedule each completed call returns exactly what it returns
                              when run alone from the initial memory (induction on the schedule);
* `safe_calls_writesFresh` — the abstract calls of table entries not classified `sharedWrite`, given
                              disjoint fresh regions, satisfy the hypothesis; `table_safe_sequential` is
                              the resulting statement for the read-only method set;
* `claimedSafe_spec`, `table_all_safe` — the write-set table: on the current tree every entry is inside
                              the claim (the two former exceptions were the C20 findings);
* `sharedWrite_races`      — such a method does race (the hypothesis is not vacuous and is needed).

NOT proved (partial): that the table over-approximates the writes of the real methods (it is a reading
of the code, checked by the race detector in the correspondence run), and anything about the Go memory
model below the level of "accesses to locations".
-/
namespace Kyber.C20
open Kyber.Effects Kyber.EffectsLib

/-- Calls that write only call-fresh locations cannot race, whatever the schedule: no two accesses of
    different calls touch one location with a write among them. -/
theorem no_race_of_writesFresh (cs : List Call) (h : WritesFresh cs) : ¬ Races cs := by
  rintro ⟨i, j, ci, cj, a, b, hi, hj, hne, ha, hb, hloc, hw⟩
  rcases hw with hw | hw
  · have h1 : a.loc ∈ ci.writes := by
      unfold Call.writes
      exact List.mem_map.mpr ⟨a, List.mem_filter.mpr ⟨ha, hw⟩, rfl⟩
    have h2 : a.loc ∈ cj.locs := by
      unfold Call.locs
      exact List.mem_map.mpr ⟨b, hb, hloc.symm⟩
    exact h i j ci cj hi hj hne _ h1 h2
  · have h1 : b.loc ∈ cj.writes := by
      unfold Call.writes
      exact List.mem_map.mpr ⟨b, List.mem_filter.mpr ⟨hb, hw⟩, rfl⟩
    have h2 : b.loc ∈ ci.locs := by
      unfold Call.locs
      exact List.mem_map.mpr ⟨a, ha, hloc⟩
    exact h j i cj ci hj hi (Ne.symm hne) _ h1 h2

/-! ### Sequential results under every interleaving -/

/-- MAIN THEOREM. If every call writes only call-fresh locations, then under EVERY schedule (interleaving)
    each call that has run to completion returns exactly its sequential result. -/
theorem sequential_results (cs : List Call) (m0 : Mem) (hf : WritesFresh cs) (sched : List Nat)
    (i : Nat) (ci : Call) (hi : cs[i]? = some ci) (t : Thread)
    (ht : (run (m0, cs.map start) sched).2[i]? = some t) (hdone : t.rest = []) :
    ci.ret t.reads = seqResult ci m0 := by
  obtain ⟨_, hinv⟩ := inv_run cs m0 hf sched _ (inv_init cs m0)
  obtain ⟨k, hk, _⟩ := hinv i ci hi
  rw [ht] at hk
  have htk : t = (solo k m0 (start ci)).2 := Option.some.inj hk
  have hrest : (solo k m0 (start ci)).2.rest = [] := by rw [← htk]; exact hdone
  have hlen := solo_rest_length ci m0 k
  rw [hrest] at hlen
  simp only [List.length_nil] at hlen
  have hge : ci.prog.length ≤ k := by omega
  have hdoneN : (solo ci.prog.length m0 (start ci)).2.rest = [] := by
    have := solo_rest_length ci m0 ci.prog.length
    simp only [Nat.sub_self] at this
    exact List.length_eq_zero_iff.mp this
  have := solo_done ci m0 ci.prog.length hdoneN (k - ci.prog.length)
  have e : ci.prog.length + (k - ci.prog.length) = k := by omega
  rw [e] at this
  unfold seqResult
  rw [htk, this]

/-! ### Instantiation by the write-set table -/

/-- Methods whose class is not `sharedWrite`, running on shared operands with disjoint fresh regions,
    satisfy the hypothesis of the main theorem. -/
theorem safe_calls_writesFresh (classes : List WClass) (hsafe : ∀ c ∈ classes, c ≠ .sharedWrite)
    (shared : List Nat) (B N : Nat) (hsh : ∀ l ∈ shared, l < B) : WritesFresh (instCalls classes shared B N) := by
  intro i j ci cj hi hj hne l hl hl'
  unfold instCalls at hi hj
  have hget : ∀ (k : Nat) (ck : Call), ((List.range classes.length).map fun i =>
      abstractCall (classes.getD i .pure) shared (B + i * N) N)[k]? = some ck →
      k < classes.length ∧ ck = abstractCall (classes.getD k .pure) shared (B + k * N) N := by
    intro k ck hk
    rw [List.getElem?_map] at hk
    cases hr : (List.range classes.length)[k]? with
    | none => rw [hr] at hk; cases hk
    | some v =>
      rw [hr] at hk
      have hv : k < (List.range classes.length).length ∧ (List.range classes.length)[k]! = v := by
        constructor
        · by_contra hc; rw [List.getElem?_eq_none (by omega)] at hr; cases hr
        · simp [hr]
      have hk' : k < classes.length := by simpa using hv.1
      have : v = k := by
        rw [List.getElem?_eq_getElem (by simpa using hk')] at hr
        simpa using (Option.some.inj hr).symm
      subst this
      exact ⟨hk', (Option.some.inj hk).symm⟩
  obtain ⟨hik, rfl⟩ := hget i ci hi
  obtain ⟨hjk, rfl⟩ := hget j cj hj
  have hgd : ∀ k, k < classes.length → classes.getD k .pure ≠ .sharedWrite := by
    intro k hk
    have : classes.getD k .pure = classes[k] := by
      simp [List.getD, List.getElem?_eq_getElem hk]
    rw [this]; exact hsafe _ (List.getElem_mem hk)
  have hci := hgd i hik
  have hcj := hgd j hjk
  obtain ⟨h1, h2⟩ := abstractCall_safe_writes _ hci shared _ N l hl
  rcases abstractCall_safe_locs _ hcj shared _ N l hl' with h3 | ⟨h3, h4⟩
  · have := hsh l h3
    have : B ≤ B + i * N := Nat.le_add_right _ _
    omega
  · rcases Nat.lt_or_gt_of_ne hne with hlt | hgt
    · have : (i + 1) * N ≤ j * N := Nat.mul_le_mul_right N hlt
      have e : (i + 1) * N = i * N + N := by ring
      omega
    · have : (j + 1) * N ≤ i * N := Nat.mul_le_mul_right N hgt
      have e : (j + 1) * N = j * N + N := by ring
      omega

/-- The table's claim: the entries of `claimedSafe` are exactly those not classified `sharedWrite`. -/
theorem claimedSafe_spec (x : Entry) : x ∈ claimedSafe ↔ x ∈ table ∧ x.cls ≠ .sharedWrite := by
  unfold claimedSafe
  simp [List.mem_filter]

/-- On the current tree no method of the read-only set is classified `sharedWrite`: the whole table is
    inside the claim. (Until /repo 65997e5 and 2887bba the `edwards25519vartime` methods calling
    `normalize()` and kilic `Pair` were.) -/
theorem table_all_safe : ∀ x ∈ table, x.cls ≠ .sharedWrite := by
  decide +kernel

/-- The read-only method set of the table, run concurrently on shared operands under ANY schedule:
    every completed call returns its sequential result, and there is no race. -/
theorem table_safe_sequential (shared : List Nat) (B N : Nat) (hsh : ∀ l ∈ shared, l < B) (m0 : Mem)
    (sched : List Nat) :
    let cs := instCalls (claimedSafe.map Entry.cls) shared B N
    ¬ Races cs ∧ ∀ (i : Nat) (ci : Call) (t : Thread), cs[i]? = some ci →
      (run (m0, cs.map start) sched).2[i]? = some t → t.rest = [] → ci.ret t.reads = seqResult ci m0 := by
  intro cs
  have hsafe : ∀ c ∈ claimedSafe.map Entry.cls, c ≠ .sharedWrite := by
    intro c hc
    obtain ⟨x, hx, rfl⟩ := List.mem_map.mp hc
    exact ((claimedSafe_spec x).mp hx).2
  have hf := safe_calls_writesFresh _ hsafe shared B N hsh
  exact ⟨no_race_of_writesFresh _ hf, fun i ci t hi ht hd => sequential_results _ m0 hf sched i ci hi t ht hd⟩

/-- The hypothesis is needed: two concurrent calls of a `sharedWrite` method on one shared operand race. -/
theorem sharedWrite_races : Races [abstractCall .sharedWrite [0] 10 1, abstractCall .sharedWrite [0] 20 1] := by
  refine ⟨0, 1, _, _, .wr 0 (fun vs => vs.foldl (· + ·) 1), .rd 0, rfl, rfl, by decide, ?_, ?_, rfl, Or.inl rfl⟩
  · simp [abstractCall]
  · simp [abstractCall]

/-- … and the result can differ from the sequential one: with the schedule "both read, then both write"
    the second reader has already seen the unmodified value. Concretely the shared location ends up
    written twice. -/
example : (run ((fun _ => 5), [start (abstractCall .sharedWrite [0] 10 0), start (abstractCall .sharedWrite [0] 20 0)])
    [0, 1, 0, 1]).1 0 = 6 := by decide

/-- The hypotheses of `table_safe_sequential` are satisfiable. -/
example : ∀ l ∈ [0, 1, 2], l < 3 := by decide
example : claimedSafe.length = 356 ∧ table.length = 356 := by decide +kernel

end Kyber.C20
