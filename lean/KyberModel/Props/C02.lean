import KyberModel.Groups.Scalar
import KyberModel.Lib.PowMod
import KyberModel.Lib.Bytes
import Mathlib.FieldTheory.Finite.Basic
/-
C02 — scalars behave exactly as integers modulo the group order.
Property theorems only. The model is `Kyber.Scalar` (Groups/Scalar.lean); every operation is shown
to be the corresponding operation of `ZMod q`, with a reduced result.
-/
namespace Kyber.Scalar

variable {q : Nat}

/-! ### Results are canonical (reduced) -/

theorem add_lt (hq : 0 < q) (a b : Nat) : add q a b < q := Nat.mod_lt _ hq
theorem mul_lt (hq : 0 < q) (a b : Nat) : mul q a b < q := Nat.mod_lt _ hq
theorem sub_lt (hq : 0 < q) (a b : Nat) : sub q a b < q := Nat.mod_lt _ hq
theorem neg_lt (hq : 0 < q) (a : Nat) : neg q a < q := Nat.mod_lt _ hq
theorem div_lt (hq : 0 < q) (a b : Nat) : div q a b < q := Nat.mod_lt _ hq
theorem inv_lt (hq : 1 < q) (a : Nat) : inv q a < q := powMod_lt _ _ _ hq
theorem one_lt (hq : 0 < q) : one q < q := Nat.mod_lt _ hq
theorem setBytesLE_lt (hq : 0 < q) (bs : Bytes) : setBytesLE q bs < q := Nat.mod_lt _ hq
theorem setBytesBE_lt (hq : 0 < q) (bs : Bytes) : setBytesBE q bs < q := Nat.mod_lt _ hq
theorem setInt64_lt (hq : 0 < q) (v : Int) : setInt64 q v < q := by
  unfold setInt64
  have h1 : 0 ≤ v % (q : Int) := Int.emod_nonneg _ (by omega)
  have h2 : v % (q : Int) < q := Int.emod_lt_of_pos _ (by omega)
  omega

/-! ### Each operation is the operation of `ZMod q` -/

theorem add_cast (a b : Nat) : ((add q a b : Nat) : ZMod q) = (a : ZMod q) + b := by
  simp [add, ZMod.natCast_mod]

theorem mul_cast (a b : Nat) : ((mul q a b : Nat) : ZMod q) = (a : ZMod q) * b := by
  simp [mul, ZMod.natCast_mod]

theorem neg_cast (hq : 0 < q) (a : Nat) : ((neg q a : Nat) : ZMod q) = -(a : ZMod q) := by
  have hlt : a % q < q := Nat.mod_lt _ hq
  simp only [neg, negMod, ZMod.natCast_mod]
  rw [Nat.cast_sub (le_of_lt hlt)]
  simp [ZMod.natCast_mod]

theorem sub_cast (hq : 0 < q) (a b : Nat) : ((sub q a b : Nat) : ZMod q) = (a : ZMod q) - b := by
  have hlt : b % q < q := Nat.mod_lt _ hq
  simp only [sub, subMod, ZMod.natCast_mod, Nat.cast_add]
  rw [Nat.cast_sub (le_of_lt hlt)]
  simp [ZMod.natCast_mod, sub_eq_add_neg]

theorem one_cast : ((one q : Nat) : ZMod q) = 1 := by
  simp [one, ZMod.natCast_mod]

theorem zero_cast : ((zero q : Nat) : ZMod q) = 0 := by simp [zero]

theorem setInt64_cast (hq : 0 < q) (v : Int) : ((setInt64 q v : Nat) : ZMod q) = (v : ZMod q) := by
  unfold setInt64
  have h1 : 0 ≤ v % (q : Int) := Int.emod_nonneg _ (by omega)
  have : ((v % (q : Int)).toNat : Int) = v % (q : Int) := Int.toNat_of_nonneg h1
  rw [← Int.cast_natCast, this]
  exact ZMod.intCast_mod v q

theorem setBytesLE_cast (bs : Bytes) : ((setBytesLE q bs : Nat) : ZMod q) = (decodeLE bs : ZMod q) := by
  simp [setBytesLE, ZMod.natCast_mod]

theorem setBytesBE_cast (bs : Bytes) : ((setBytesBE q bs : Nat) : ZMod q) = (decodeBE bs : ZMod q) := by
  simp [setBytesBE, ZMod.natCast_mod]

/-- The two byte orders read the same number from reversed strings. -/
theorem setBytesLE_reverse (bs : Bytes) : setBytesLE q bs = setBytesBE q bs.reverse := by
  simp [setBytesLE, setBytesBE, decodeLE_eq_decodeBE_reverse]

/-- `Inv` is the field inverse (Fermat), for a prime order. -/
theorem inv_cast [hp : Fact q.Prime] (hq2 : 2 < q) (a : Nat) :
    ((inv q a : Nat) : ZMod q) = (a : ZMod q)⁻¹ := by
  unfold inv invMod
  rw [powMod_spec]
  by_cases h : (a : ZMod q) = 0
  · have h2 : q - 2 ≠ 0 := by omega
    simp [h, h2]
  · have hq2 : 2 ≤ q := hp.out.two_le
    have hcard : (a : ZMod q) ^ (q - 1) = 1 := ZMod.pow_card_sub_one_eq_one h
    have : (a : ZMod q) ^ (q - 2) * (a : ZMod q) = 1 := by
      rw [← pow_succ]
      have : q - 2 + 1 = q - 1 := by omega
      rw [this, hcard]
    exact eq_inv_of_mul_eq_one_left this

theorem mul_inv_cancel [Fact q.Prime] (a : Nat) (ha : (a : ZMod q) ≠ 0) :
    mul q a (inv q a) = 1 := by
  have hq : 1 < q := (Fact.out : q.Prime).one_lt
  have h1 : ((mul q a (inv q a) : Nat) : ZMod q) = ((1 : Nat) : ZMod q) := by
    rw [mul_cast]
    have : ((inv q a : Nat) : ZMod q) * (a : ZMod q) = 1 := by
      unfold inv invMod
      rw [powMod_spec, ← pow_succ]
      have h2 := (Fact.out : q.Prime).two_le
      have : q - 2 + 1 = q - 1 := by omega
      rw [this, ZMod.pow_card_sub_one_eq_one ha]
    rw [mul_comm, this]; simp
  have := (ZMod.natCast_eq_natCast_iff' _ _ _).mp h1
  rw [Nat.mod_eq_of_lt (mul_lt (by omega) _ _), Nat.mod_eq_of_lt hq] at this
  exact this

theorem div_cast [Fact q.Prime] (hq2 : 2 < q) (a b : Nat) :
    ((div q a b : Nat) : ZMod q) = (a : ZMod q) / (b : ZMod q) := by
  have := inv_cast (q := q) hq2 b
  unfold inv at this
  simp only [div, ZMod.natCast_mod, Nat.cast_mul, this]
  rfl

/-! ### `Equal` on reduced values is equality of residues -/

theorem eq_iff_cast_eq (a b : Nat) (ha : a < q) (hb : b < q) :
    a = b ↔ (a : ZMod q) = (b : ZMod q) := by
  constructor
  · intro h; rw [h]
  · intro h
    have := (ZMod.natCast_eq_natCast_iff' _ _ _).mp h
    rwa [Nat.mod_eq_of_lt ha, Nat.mod_eq_of_lt hb] at this

/-! ### `Pick` (rejection sampling as in `random.Int`) -/

theorem pickAux_lt (q nb bl : Nat) (s : Bytes) (used v n : Nat)
    (h : pickAux q nb bl s used = some (v, n)) : v < q := by
  fun_induction pickAux q nb bl s used with
  | case1 => simp at h
  | case2 s used _ cand hc =>
    simp only [Option.some.injEq, Prod.mk.injEq] at h; omega
  | case3 s used _ cand hc ih => exact ih h

/-- `Pick` returns a reduced value. -/
theorem pick_lt (q : Nat) (s : Bytes) (v n : Nat) (h : pick q s = some (v, n)) : v < q :=
  pickAux_lt _ _ _ _ _ _ _ h

theorem pickAux_used (q nb bl : Nat) (s : Bytes) (used v n : Nat)
    (h : pickAux q nb bl s used = some (v, n)) : used ≤ n ∧ n - used ≤ s.length := by
  fun_induction pickAux q nb bl s used with
  | case1 => simp at h
  | case2 s used hg cand hc =>
    simp only [Option.some.injEq, Prod.mk.injEq] at h; omega
  | case3 s used hg cand hc ih =>
    have := ih h
    simp only [List.length_drop] at this
    omega

/-- `Pick` is determined solely by the bytes it consumed: replacing everything after the consumed
    prefix by any other continuation `t` yields the same value and the same consumption. -/
theorem pickAux_prefix (q nb bl : Nat) (s t : Bytes) (used v n : Nat)
    (h : pickAux q nb bl s used = some (v, n)) :
    pickAux q nb bl (s.take (n - used) ++ t) used = some (v, n) := by
  fun_induction pickAux q nb bl s used with
  | case1 => simp at h
  | case2 s used hg cand hc =>
    simp only [Option.some.injEq, Prod.mk.injEq] at h
    obtain ⟨hv, hn⟩ := h
    have hnu : n - used = nb := by omega
    unfold pickAux
    have hl : ¬ (nb = 0 ∨ (List.take (n - used) s ++ t).length < nb) := by
      simp only [List.length_append, List.length_take]; omega
    rw [if_neg hl]
    have htk : List.take nb (List.take (n - used) s ++ t) = List.take nb s := by
      rw [hnu, List.take_append_of_le_length (by simp only [List.length_take]; omega), List.take_take]
      simp
    simp only [htk]
    rw [if_pos hc]
    simp only [Option.some.injEq, Prod.mk.injEq]; exact ⟨hv, hn⟩
  | case3 s used hg cand hc ih =>
    have hrec := pickAux_used _ _ _ _ _ _ _ h
    simp only [List.length_drop] at hrec
    unfold pickAux
    have hl : ¬ (nb = 0 ∨ (List.take (n - used) s ++ t).length < nb) := by
      simp only [List.length_append, List.length_take]; omega
    rw [if_neg hl]
    have htk : List.take nb (List.take (n - used) s ++ t) = List.take nb s := by
      rw [List.take_append_of_le_length (by simp only [List.length_take]; omega), List.take_take]
      congr 1; omega
    simp only [htk]
    rw [if_neg hc]
    have hdrop : List.drop nb (List.take (n - used) s ++ t)
        = List.take (n - (used + nb)) (List.drop nb s) ++ t := by
      rw [List.drop_append_of_le_length (by simp only [List.length_take]; omega), List.drop_take]
      congr 2; omega
    rw [hdrop]
    exact ih h

theorem pick_prefix (q : Nat) (s t : Bytes) (v n : Nat) (h : pick q s = some (v, n)) :
    pick q (s.take n ++ t) = some (v, n) := by
  have := pickAux_prefix _ _ _ s t 0 v n h
  simpa [pick] using this

/-- The value returned is the first candidate below `q`: every earlier candidate was `≥ q`.
    Stated for the first candidate: if it is `< q` it is the result. -/
theorem pick_first (q : Nat) (s : Bytes) (hnb : (bitLen q + 7) / 8 ≠ 0)
    (hlen : (bitLen q + 7) / 8 ≤ s.length)
    (hc : decodeBE (maskBits (bitLen q) (s.take ((bitLen q + 7) / 8))) < q) :
    pick q s = some (decodeBE (maskBits (bitLen q) (s.take ((bitLen q + 7) / 8))), (bitLen q + 7) / 8) := by
  unfold pick
  simp only
  unfold pickAux
  have : ¬ ((bitLen q + 7) / 8 = 0 ∨ s.length < (bitLen q + 7) / 8) := by omega
  rw [if_neg this]
  simp only [hc, if_true, Nat.zero_add]

end Kyber.Scalar
