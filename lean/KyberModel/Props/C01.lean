import KyberModel.Lib.Ed25519
import KyberModel.Lib.PrimeOrder
/-
C01 — group operations obey abelian-group and scalar-action laws.
Property theorems, stated on the executable model (naturals mod p), for every valid operand
(reduced coordinates, on the curve) and every scalar — no bound on anything.

Section `Ed25519`: the model shared by `group/edwards25519` (constant-time and AllowVarTime paths) and
`group/edwards25519vartime` (projective and extended coordinates).
-/
namespace Kyber.Ed25519.Laws
open Kyber Kyber.Edwards Kyber.EdLaw Kyber.Ed25519

/-- Closure: operations on valid points give valid points. -/
theorem closed {P Q : Pt} (hP : Valid P) (hQ : Valid Q) (k : Nat) :
    Valid (add P Q) ∧ Valid (neg P) ∧ Valid (smul k P) ∧ Valid Edwards.zero :=
  ⟨valid_add hP hQ, valid_neg hP, valid_smul hP k, valid_zero⟩

theorem add_assoc {P Q R : Pt} (hP : Valid P) (hQ : Valid Q) (hR : Valid R) :
    add (add P Q) R = add P (add Q R) := by
  apply toG_injective (valid_add (valid_add hP hQ) hR) (valid_add hP (valid_add hQ hR))
  rw [toG_add (valid_add hP hQ) hR, toG_add hP hQ, toG_add hP (valid_add hQ hR), toG_add hQ hR]
  exact _root_.add_assoc _ _ _

theorem add_comm {P Q : Pt} (hP : Valid P) (hQ : Valid Q) : add P Q = add Q P := by
  apply toG_injective (valid_add hP hQ) (valid_add hQ hP)
  rw [toG_add hP hQ, toG_add hQ hP]
  exact _root_.add_comm _ _

theorem add_zero {P : Pt} (hP : Valid P) : add P Edwards.zero = P := by
  apply toG_injective (valid_add hP valid_zero) hP
  rw [toG_add hP valid_zero, toG_zero]
  exact _root_.add_zero _

theorem zero_add {P : Pt} (hP : Valid P) : add Edwards.zero P = P := by
  rw [add_comm valid_zero hP, add_zero hP]

theorem add_neg {P : Pt} (hP : Valid P) : add P (neg P) = Edwards.zero := by
  apply toG_injective (valid_add hP (valid_neg hP)) valid_zero
  rw [toG_add hP (valid_neg hP), toG_neg hP, toG_zero]
  exact add_neg_cancel _

/-- `Sub` is addition of the negation (this is the model's definition); `P - P = O`. -/
theorem sub_self {P : Pt} (hP : Valid P) : sub P P = Edwards.zero := add_neg hP

theorem sub_add_cancel {P Q : Pt} (hP : Valid P) (hQ : Valid Q) : add (sub P Q) Q = P := by
  show add (add P (neg Q)) Q = P
  rw [add_assoc hP (valid_neg hQ) hQ, add_comm (valid_neg hQ) hQ, add_neg hQ, add_zero hP]

/-- `(a + b) P = aP + bP`. -/
theorem smul_add {P : Pt} (hP : Valid P) (a b : Nat) :
    smul (a + b) P = add (smul a P) (smul b P) := by
  apply toG_injective (valid_smul hP _) (valid_add (valid_smul hP a) (valid_smul hP b))
  rw [toG_smul hP, toG_add (valid_smul hP a) (valid_smul hP b), toG_smul hP, toG_smul hP]
  exact add_smul _ _ _

/-- `a (b P) = (a b) P`. -/
theorem smul_smul {P : Pt} (hP : Valid P) (a b : Nat) :
    smul a (smul b P) = smul (a * b) P := by
  apply toG_injective (valid_smul (valid_smul hP b) a) (valid_smul hP _)
  rw [toG_smul (valid_smul hP b), toG_smul hP, toG_smul hP]
  exact (mul_smul _ _ _).symm

/-- `a (P + Q) = aP + aQ`. -/
theorem smul_add_pt {P Q : Pt} (hP : Valid P) (hQ : Valid Q) (a : Nat) :
    smul a (add P Q) = add (smul a P) (smul a Q) := by
  apply toG_injective (valid_smul (valid_add hP hQ) a) (valid_add (valid_smul hP a) (valid_smul hQ a))
  rw [toG_smul (valid_add hP hQ), toG_add hP hQ, toG_add (valid_smul hP a) (valid_smul hQ a),
    toG_smul hP, toG_smul hQ]
  exact _root_.smul_add _ _ _

theorem zero_smul {P : Pt} (hP : Valid P) : smul 0 P = Edwards.zero := by
  apply toG_injective (valid_smul hP 0) valid_zero
  rw [toG_smul hP, toG_zero]; exact _root_.zero_smul _ _

theorem one_smul {P : Pt} (hP : Valid P) : smul 1 P = P := by
  apply toG_injective (valid_smul hP 1) hP
  rw [toG_smul hP]; exact _root_.one_smul _ _

theorem smul_zero (a : Nat) : smul a Edwards.zero = Edwards.zero := by
  apply toG_injective (valid_smul valid_zero a) valid_zero
  rw [toG_smul valid_zero, toG_zero]; exact _root_.smul_zero _

/-- On points killed by the group order (in particular every multiple of the base point), scalars
    act modulo `L`: the scalar field `Z_L` acts. -/
theorem smul_mod {P : Pt} (hP : Valid P) (hL : smul L P = Edwards.zero) (a : Nat) :
    smul (a % L) P = smul a P := by
  apply toG_injective (valid_smul hP _) (valid_smul hP _)
  rw [toG_smul hP, toG_smul hP]
  apply PrimeOrder.nsmul_mod
  rw [← toG_smul hP, ← toG_zero]
  exact toG_congr hL _ _

/-- `(q - 1) P = -P`. -/
theorem pred_smul {P : Pt} (hP : Valid P) (hL : smul L P = Edwards.zero) :
    smul (L - 1) P = neg P := by
  apply toG_injective (valid_smul hP _) (valid_neg hP)
  rw [toG_smul hP, toG_neg hP]
  apply PrimeOrder.pred_nsmul (by decide)
  rw [← toG_smul hP, ← toG_zero]
  exact toG_congr hL _ _

/-- Every multiple of the base point is killed by `L`. -/
theorem smul_L_smul_base (k : Nat) : smul L (smul k base) = Edwards.zero := by
  rw [smul_smul valid_base, Nat.mul_comm, ← smul_smul valid_base, smul_L_base, smul_zero]

/-- Two multiples of the base point coincide exactly when the scalars agree modulo `L`
    (so `Equal` on `a•B`, `b•B` is equality of scalars in `Z_L`). -/
theorem smul_base_eq_iff (a b : Nat) : smul a base = smul b base ↔ a % L = b % L := by
  rw [← PrimeOrder.nsmul_eq_iff addOrderOf_B]
  constructor
  · intro h
    have := toG_congr h (valid_smul valid_base a) (valid_smul valid_base b)
    rwa [toG_smul, toG_smul] at this
  · intro h
    apply toG_injective (valid_smul valid_base a) (valid_smul valid_base b)
    rw [toG_smul, toG_smul]; exact h

/-- Non-vacuity: the base point is valid, is not the identity, and has order exactly `L`. -/
example : Valid base ∧ base ≠ Edwards.zero ∧ smul L base = Edwards.zero :=
  ⟨valid_base, base_ne_zero, smul_L_base⟩

end Kyber.Ed25519.Laws
