import KyberModel.Lib.Ed25519
import KyberModel.Lib.PrimeOrder
import KyberModel.Lib.ModCast
import KyberModel.Lib.WeierstrassCurves
import KyberModel.Lib.TwistCurves
/-
C01 — group operations obey abelian-group and scalar-action laws.
Property theorems, stated on the executable model (naturals mod p), for every valid operand
(reduced coordinates, on the curve) and every scalar — no bound on anything.

Section `Ed25519`: the model shared by `group/edwards25519` (constant-time and AllowVarTime paths) and
`group/edwards25519vartime` (projective and extended coordinates).
-/
namespace Kyber.Ed25519.Laws
open Kyber Kyber.Edwards Kyber.EdLaw Kyber.Ed25519

/-- Closure: operations on valid points give valid points. -/
theorem closed {P Q : Pt} (hP : Valid P) (hQ : Valid Q) (k : Nat) :
    Valid (add P Q) ∧ Valid (neg P) ∧ Valid (smul k P) ∧ Valid Edwards.zero :=
  ⟨valid_add hP hQ, valid_neg hP, valid_smul hP k, valid_zero⟩

theorem add_assoc {P Q R : Pt} (hP : Valid P) (hQ : Valid Q) (hR : Valid R) :
    add (add P Q) R = add P (add Q R) := by
  apply toG_injective (valid_add (valid_add hP hQ) hR) (valid_add hP (valid_add hQ hR))
  rw [toG_add (valid_add hP hQ) hR, toG_add hP hQ, toG_add hP (valid_add hQ hR), toG_add hQ hR]
  exact _root_.add_assoc _ _ _

theorem add_comm {P Q : Pt} (hP : Valid P) (hQ : Valid Q) : add P Q = add Q P := by
  apply toG_injective (valid_add hP hQ) (valid_add hQ hP)
  rw [toG_add hP hQ, toG_add hQ hP]
  exact _root_.add_comm _ _

theorem add_zero {P : Pt} (hP : Valid P) : add P Edwards.zero = P := by
  apply toG_injective (valid_add hP valid_zero) hP
  rw [toG_add hP valid_zero, toG_zero]
  exact _root_.add_zero _

theorem zero_add {P : Pt} (hP : Valid P) : add Edwards.zero P = P := by
  rw [add_comm valid_zero hP, add_zero hP]

theorem add_neg {P : Pt} (hP : Valid P) : add P (neg P) = Edwards.zero := by
  apply toG_injective (valid_add hP (valid_neg hP)) valid_zero
  rw [toG_add hP (valid_neg hP), toG_neg hP, toG_zero]
  exact add_neg_cancel _

/-- `Sub` is addition of the negation (this is the model's definition); `P - P = O`. -/
theorem sub_self {P : Pt} (hP : Valid P) : sub P P = Edwards.zero := add_neg hP

theorem sub_add_cancel {P Q : Pt} (hP : Valid P) (hQ : Valid Q) : add (sub P Q) Q = P := by
  show add (add P (neg Q)) Q = P
  rw [add_assoc hP (valid_neg hQ) hQ, add_comm (valid_neg hQ) hQ, add_neg hQ, add_zero hP]

/-- `(a + b) P = aP + bP`. -/
theorem smul_add {P : Pt} (hP : Valid P) (a b : Nat) :
    smul (a + b) P = add (smul a P) (smul b P) := by
  apply toG_injective (valid_smul hP _) (valid_add (valid_smul hP a) (valid_smul hP b))
  rw [toG_smul hP, toG_add (valid_smul hP a) (valid_smul hP b), toG_smul hP, toG_smul hP]
  exact add_smul _ _ _

/-- `a (b P) = (a b) P`. -/
theorem smul_smul {P : Pt} (hP : Valid P) (a b : Nat) :
    smul a (smul b P) = smul (a * b) P := by
  apply toG_injective (valid_smul (valid_smul hP b) a) (valid_smul hP _)
  rw [toG_smul (valid_smul hP b), toG_smul hP, toG_smul hP]
  exact (mul_smul _ _ _).symm

/-- `a (P + Q) = aP + aQ`. -/
theorem smul_add_pt {P Q : Pt} (hP : Valid P) (hQ : Valid Q) (a : Nat) :
    smul a (add P Q) = add (smul a P) (smul a Q) := by
  apply toG_injective (valid_smul (valid_add hP hQ) a) (valid_add (valid_smul hP a) (valid_smul hQ a))
  rw [toG_smul (valid_add hP hQ), toG_add hP hQ, toG_add (valid_smul hP a) (valid_smul hQ a),
    toG_smul hP, toG_smul hQ]
  exact _root_.smul_add _ _ _

theorem zero_smul {P : Pt} (hP : Valid P) : smul 0 P = Edwards.zero := by
  apply toG_injective (valid_smul hP 0) valid_zero
  rw [toG_smul hP, toG_zero]; exact _root_.zero_smul _ _

theorem one_smul {P : Pt} (hP : Valid P) : smul 1 P = P := by
  apply toG_injective (valid_smul hP 1) hP
  rw [toG_smul hP]; exact _root_.one_smul _ _

theorem smul_zero (a : Nat) : smul a Edwards.zero = Edwards.zero := by
  apply toG_injective (valid_smul valid_zero a) valid_zero
  rw [toG_smul valid_zero, toG_zero]; exact _root_.smul_zero _

/-- On points killed by the group order (in particular every multiple of the base point), scalars
    act modulo `L`: the scalar field `Z_L` acts. -/
theorem smul_mod {P : Pt} (hP : Valid P) (hL : smul L P = Edwards.zero) (a : Nat) :
    smul (a % L) P = smul a P := by
  apply toG_injective (valid_smul hP _) (valid_smul hP _)
  rw [toG_smul hP, toG_smul hP]
  apply PrimeOrder.nsmul_mod
  rw [← toG_smul hP, ← toG_zero]
  exact toG_congr hL _ _

/-- `(q - 1) P = -P`. -/
theorem pred_smul {P : Pt} (hP : Valid P) (hL : smul L P = Edwards.zero) :
    smul (L - 1) P = neg P := by
  apply toG_injective (valid_smul hP _) (valid_neg hP)
  rw [toG_smul hP, toG_neg hP]
  apply PrimeOrder.pred_nsmul (by decide)
  rw [← toG_smul hP, ← toG_zero]
  exact toG_congr hL _ _

/-- Every multiple of the base point is killed by `L`. -/
theorem smul_L_smul_base (k : Nat) : smul L (smul k base) = Edwards.zero := by
  rw [smul_smul valid_base, Nat.mul_comm, ← smul_smul valid_base, smul_L_base, smul_zero]

/-- Two multiples of the base point coincide exactly when the scalars agree modulo `L`
    (so `Equal` on `a•B`, `b•B` is equality of scalars in `Z_L`). -/
theorem smul_base_eq_iff (a b : Nat) : smul a base = smul b base ↔ a % L = b % L := by
  rw [← PrimeOrder.nsmul_eq_iff addOrderOf_B]
  constructor
  · intro h
    have := toG_congr h (valid_smul valid_base a) (valid_smul valid_base b)
    rwa [toG_smul, toG_smul] at this
  · intro h
    apply toG_injective (valid_smul valid_base a) (valid_smul valid_base b)
    rw [toG_smul, toG_smul]; exact h

/-- Non-vacuity: the base point is valid, is not the identity, and has order exactly `L`. -/
example : Valid base ∧ base ≠ Edwards.zero ∧ smul L base = Edwards.zero :=
  ⟨valid_base, base_ne_zero, smul_L_base⟩

end Kyber.Ed25519.Laws

/-!
Section `Weierstrass`: P-256, BN256 G1, BN254 G1 and BLS12-381 G1. The executable chord-and-tangent
model is Mathlib's elliptic-curve group over `ZMod p` (Lib/Weierstrass.lean, Lib/WeierstrassModel.lean),
so every identity holds for ALL valid points and ALL scalars. Stated once for any curve record with
prime `p > 3` and non-zero discriminant, then instantiated.
-/
namespace Kyber.Weierstrass.Laws
open Kyber Kyber.Weierstrass Kyber.WModel

variable {c : Curve} [Fact c.p.Prime] (hg : Good c)
include hg

/-- All the identities of C01 on one curve. -/
theorem laws {P Q R : Pt} (hP : Valid c P) (hQ : Valid c Q) (hR : Valid c R) (a b : Nat) :
    add c (add c P Q) R = add c P (add c Q R)
    ∧ add c P Q = add c Q P
    ∧ add c P none = P ∧ add c none P = P
    ∧ add c P (neg c P) = none
    ∧ smul c (a + b) P = add c (smul c a P) (smul c b P)
    ∧ smul c a (smul c b P) = smul c (a * b) P
    ∧ smul c a (add c P Q) = add c (smul c a P) (smul c a Q)
    ∧ smul c 0 P = none ∧ smul c 1 P = P
    ∧ Valid c (add c P Q) ∧ Valid c (neg c P) ∧ Valid c (smul c a P) :=
  ⟨add_assoc' hg hP hQ hR, add_comm' hg hP hQ, add_zero' P, zero_add' P, add_neg' hg hP,
   smul_add' hg hP a b, smul_smul' hg hP a b, smul_add_pt' hg hP hQ a, zero_smul' hg hP, one_smul' hg hP,
   valid_add hg hP hQ, valid_neg hg hP, valid_smul hg hP a⟩

/-- On points killed by `q` (every multiple of a base point of order `q`): scalars act modulo `q` and
    `(q-1) P = -P`. -/
theorem laws_mod {P : Pt} (hP : Valid c P) (q : Nat) (hq0 : 0 < q) (hq : smul c q P = none) (a : Nat) :
    smul c (a % q) P = smul c a P ∧ smul c (q - 1) P = neg c P :=
  ⟨smul_mod' hg hP q hq a, pred_smul' hg hP q hq0 hq⟩

end Kyber.Weierstrass.Laws

namespace Kyber.Weierstrass.Instances
open Kyber Kyber.Weierstrass Kyber.WModel Kyber.WCurves

/-- Non-vacuity and the order facts: each base point is valid and is killed by the advertised prime order. -/
theorem p256 : Good P256.curve ∧ Valid P256.curve P256.base ∧ smul P256.curve P256.n P256.base = none
    ∧ Nat.Prime P256.n := ⟨p256_good, p256_base_valid, WFacts.p256_order, P256.n_prime⟩
theorem bn256 : Good BN256.curve ∧ Valid BN256.curve BN256.base ∧ smul BN256.curve BN256.n BN256.base = none
    ∧ Nat.Prime BN256.n := ⟨bn256_good, bn256_base_valid, WFacts.bn256_order, BN256.n_prime⟩
theorem bn254 : Good BN254.curve ∧ Valid BN254.curve BN254.base ∧ smul BN254.curve BN254.n BN254.base = none
    ∧ Nat.Prime BN254.n := ⟨bn254_good, bn254_base_valid, WFacts.bn254_order, BN254.n_prime⟩
theorem bls12381 : Good BLS12381.curve ∧ Valid BLS12381.curve BLS12381.base
    ∧ smul BLS12381.curve BLS12381.r BLS12381.base = none ∧ Nat.Prime BLS12381.r :=
  ⟨bls_good, bls_base_valid, WFacts.bls_order, BLS12381.r_prime⟩

end Kyber.Weierstrass.Instances

/-!
Section `Residue`: the Schnorr group of `group/p256/residue.go` (QR512). The model's operation is
multiplication modulo `P`, inversion is Fermat, scalar multiplication is `powMod`. Stated for any prime
`P` (primality of the 512-bit `P` of QR512 is the named hypothesis `H_qr512`: it is a safe prime whose
`Q - 1` cannot be factored here, so no Pratt certificate).
-/
namespace Kyber.Residue.Laws
open Kyber

variable {P : Nat} [hP : Fact P.Prime]

private theorem cast_inj {a b : Nat} (ha : a < P) (hb : b < P) (h : (a : ZMod P) = b) : a = b :=
  eq_of_cast_eq ha hb h

theorem mul_assoc' (a b c : Nat) : (a * b % P) * c % P = a * (b * c % P) % P := by
  have hp : 0 < P := hP.out.pos
  apply cast_inj (Nat.mod_lt _ hp) (Nat.mod_lt _ hp)
  simp only [Nat.cast_mul, ZMod.natCast_mod]; ring

omit hP in
theorem mul_comm' (a b : Nat) : a * b % P = b * a % P := by rw [Nat.mul_comm]

theorem mul_one' (a : Nat) (ha : a < P) : a * (1 % P) % P = a := by
  have h1 : 1 % P = 1 := Nat.mod_eq_of_lt hP.out.one_lt
  rw [h1, Nat.mul_one, Nat.mod_eq_of_lt ha]

/-- Inverse (the group's `Neg`): `a · a⁻¹ = 1` for every residue `a ≢ 0`. -/
theorem mul_inv' (h2 : 2 < P) (a : Nat) (ha : (a : ZMod P) ≠ 0) : a * invMod a P % P = 1 := by
  have hp : 0 < P := hP.out.pos
  apply cast_inj (Nat.mod_lt _ hp) hP.out.one_lt
  simp only [Nat.cast_mul, ZMod.natCast_mod, cast_invMod h2, Nat.cast_one]
  exact mul_inv_cancel₀ ha

/-- Scalar multiplication is exponentiation: `(j + k)·a = j·a + k·a`, `k·(j·a) = (jk)·a`, `0·a = identity`. -/
theorem pow_add' (a j k : Nat) : powMod a (j + k) P = powMod a j P * powMod a k P % P := by
  have hp : 0 < P := hP.out.pos
  apply cast_inj (powMod_lt _ _ _ hP.out.one_lt) (Nat.mod_lt _ hp)
  simp only [Nat.cast_mul, ZMod.natCast_mod, powMod_spec, pow_add]

theorem pow_mul' (a j k : Nat) : powMod (powMod a j P) k P = powMod a (j * k) P := by
  apply cast_inj (powMod_lt _ _ _ hP.out.one_lt) (powMod_lt _ _ _ hP.out.one_lt)
  simp only [powMod_spec, pow_mul]

theorem pow_zero' (a : Nat) : powMod a 0 P = 1 := by
  apply cast_inj (powMod_lt _ _ _ hP.out.one_lt) hP.out.one_lt
  simp [powMod_spec]

theorem pow_mul_distrib' (a b k : Nat) : powMod (a * b % P) k P = powMod a k P * powMod b k P % P := by
  have hp : 0 < P := hP.out.pos
  apply cast_inj (powMod_lt _ _ _ hP.out.one_lt) (Nat.mod_lt _ hp)
  simp only [Nat.cast_mul, ZMod.natCast_mod, powMod_spec, mul_pow]

/-- Elements of order dividing `Q` (what `Valid()` admits): scalars act modulo `Q`, and `(Q-1)·a = -a`. -/
theorem pow_mod_order (Q a k : Nat) (hQ : powMod a Q P = 1) : powMod a (k % Q) P = powMod a k P := by
  apply cast_inj (powMod_lt _ _ _ hP.out.one_lt) (powMod_lt _ _ _ hP.out.one_lt)
  have h1 : (a : ZMod P) ^ Q = 1 := by rw [← powMod_spec, hQ]; simp
  simp only [powMod_spec]
  conv_rhs => rw [← Nat.div_add_mod k Q, pow_add, pow_mul, h1, one_pow, one_mul]

theorem pow_pred_order (h2 : 2 < P) (Q a : Nat) (hQ0 : 0 < Q) (hQ : powMod a Q P = 1) :
    powMod a (Q - 1) P = invMod a P := by
  apply cast_inj (powMod_lt _ _ _ hP.out.one_lt) (invMod_lt hP.out.one_lt _)
  have h1 : (a : ZMod P) ^ Q = 1 := by rw [← powMod_spec, hQ]; simp
  rw [powMod_spec, cast_invMod h2]
  have ha : (a : ZMod P) ≠ 0 := by
    intro h0; rw [h0, zero_pow (by omega)] at h1; exact zero_ne_one h1
  have : (a : ZMod P) ^ (Q - 1) * a = 1 := by
    rw [← pow_succ]; have : Q - 1 + 1 = Q := by omega
    rw [this, h1]
  exact eq_inv_of_mul_eq_one_left this

end Kyber.Residue.Laws

/-!
Section `Twist`: BN256, BN254 and BLS12-381 G2. The executable twist model over `F_p[i]/(i²+1)` (pairs of naturals,
`Groups/Decode.lean`) is Mathlib's elliptic-curve group over the field `QF p` built in `Lib/Fp2Field.lean`
(`Lib/TwistModel.lean`), so the identities hold for ALL valid points and ALL scalars.
-/
namespace Kyber.Twist.Instances
open Kyber Kyber.TwistModel Kyber.TwistCurves Kyber.TwistFacts

/-- All identities of C01 on the BN256 twist model. -/
theorem bn256_laws {P Q R : Fp2.Pt} (hP : Valid BN256.twist P) (hQ : Valid BN256.twist Q)
    (hR : Valid BN256.twist R) (a b : Nat) :
    Fp2.addPt BN256.twist (Fp2.addPt BN256.twist P Q) R = Fp2.addPt BN256.twist P (Fp2.addPt BN256.twist Q R)
    ∧ Fp2.addPt BN256.twist P Q = Fp2.addPt BN256.twist Q P
    ∧ Fp2.addPt BN256.twist P (Fp2.negPt BN256.twist P) = none
    ∧ Fp2.smul BN256.twist (a + b) P = Fp2.addPt BN256.twist (Fp2.smul BN256.twist a P) (Fp2.smul BN256.twist b P)
    ∧ Fp2.smul BN256.twist a (Fp2.smul BN256.twist b P) = Fp2.smul BN256.twist (a * b) P
    ∧ Fp2.smul BN256.twist a (Fp2.addPt BN256.twist P Q) = Fp2.addPt BN256.twist (Fp2.smul BN256.twist a P) (Fp2.smul BN256.twist a Q)
    ∧ Fp2.smul BN256.twist 0 P = none ∧ Fp2.smul BN256.twist 1 P = P :=
  TwistModel.laws bn256_good hP hQ hR a b

/-- All identities of C01 on the BN254 twist model. -/
theorem bn254_laws {P Q R : Fp2.Pt} (hP : Valid BN254.twist P) (hQ : Valid BN254.twist Q)
    (hR : Valid BN254.twist R) (a b : Nat) :
    Fp2.addPt BN254.twist (Fp2.addPt BN254.twist P Q) R = Fp2.addPt BN254.twist P (Fp2.addPt BN254.twist Q R)
    ∧ Fp2.addPt BN254.twist P Q = Fp2.addPt BN254.twist Q P
    ∧ Fp2.addPt BN254.twist P (Fp2.negPt BN254.twist P) = none
    ∧ Fp2.smul BN254.twist (a + b) P = Fp2.addPt BN254.twist (Fp2.smul BN254.twist a P) (Fp2.smul BN254.twist b P)
    ∧ Fp2.smul BN254.twist a (Fp2.smul BN254.twist b P) = Fp2.smul BN254.twist (a * b) P
    ∧ Fp2.smul BN254.twist a (Fp2.addPt BN254.twist P Q) = Fp2.addPt BN254.twist (Fp2.smul BN254.twist a P) (Fp2.smul BN254.twist a Q)
    ∧ Fp2.smul BN254.twist 0 P = none ∧ Fp2.smul BN254.twist 1 P = P :=
  TwistModel.laws bn254_good hP hQ hR a b

/-- Scalars act modulo the group order on every multiple of the generator; `(n-1)P = -P`. -/
theorem bn256_mod (a : Nat) :
    Fp2.smul BN256.twist (a % BN256.n) bn256BaseLit = Fp2.smul BN256.twist a bn256BaseLit
    ∧ Fp2.smul BN256.twist (BN256.n - 1) bn256BaseLit = Fp2.negPt BN256.twist bn256BaseLit :=
  TwistModel.laws_mod bn256_good bn256_base_valid BN256.n (by decide +kernel) bn256_order_lit a

theorem bn254_mod (a : Nat) :
    Fp2.smul BN254.twist (a % BN254.n) bn254BaseLit = Fp2.smul BN254.twist a bn254BaseLit
    ∧ Fp2.smul BN254.twist (BN254.n - 1) bn254BaseLit = Fp2.negPt BN254.twist bn254BaseLit :=
  TwistModel.laws_mod bn254_good bn254_base_valid BN254.n (by decide +kernel) bn254_order_lit a

/-- All identities of C01 on the BLS12-381 G2 twist model (shared by the kilic, CIRCL and gnark back-ends). -/
theorem bls12381g2_laws {P Q R : Fp2.Pt} (hP : Valid BLS12381.twist P) (hQ : Valid BLS12381.twist Q)
    (hR : Valid BLS12381.twist R) (a b : Nat) :
    Fp2.addPt BLS12381.twist (Fp2.addPt BLS12381.twist P Q) R = Fp2.addPt BLS12381.twist P (Fp2.addPt BLS12381.twist Q R)
    ∧ Fp2.addPt BLS12381.twist P Q = Fp2.addPt BLS12381.twist Q P
    ∧ Fp2.addPt BLS12381.twist P (Fp2.negPt BLS12381.twist P) = none
    ∧ Fp2.smul BLS12381.twist (a + b) P = Fp2.addPt BLS12381.twist (Fp2.smul BLS12381.twist a P) (Fp2.smul BLS12381.twist b P)
    ∧ Fp2.smul BLS12381.twist a (Fp2.smul BLS12381.twist b P) = Fp2.smul BLS12381.twist (a * b) P
    ∧ Fp2.smul BLS12381.twist a (Fp2.addPt BLS12381.twist P Q) = Fp2.addPt BLS12381.twist (Fp2.smul BLS12381.twist a P) (Fp2.smul BLS12381.twist a Q)
    ∧ Fp2.smul BLS12381.twist 0 P = none ∧ Fp2.smul BLS12381.twist 1 P = P :=
  TwistModel.laws blsg2_good hP hQ hR a b

theorem bls12381g2_mod (a : Nat) :
    Fp2.smul BLS12381.twist (a % BLS12381.r) BLS12381.g2Base = Fp2.smul BLS12381.twist a BLS12381.g2Base
    ∧ Fp2.smul BLS12381.twist (BLS12381.r - 1) BLS12381.g2Base = Fp2.negPt BLS12381.twist BLS12381.g2Base :=
  TwistModel.laws_mod blsg2_good blsg2_base_valid BLS12381.r (by decide +kernel) bls_order a

example : Valid BLS12381.twist BLS12381.g2Base ∧ BLS12381.g2Base ≠ none ∧ Nat.Prime BLS12381.r :=
  ⟨blsg2_base_valid, by decide, BLS12381.r_prime⟩

/-- Non-vacuity: the generators are valid, not the identity, and killed by the prime group order. -/
example : Valid BN256.twist bn256BaseLit ∧ bn256BaseLit ≠ none ∧ Nat.Prime BN256.n :=
  ⟨bn256_base_valid, by decide, BN256.n_prime⟩

end Kyber.Twist.Instances
