import KyberModel.Props.C13
/-
# C13, continued — why the challenge of the decryption proof must cover the decrypted share

`pvss.DecShare` proves `log_G X = log_V sX` where the second base `V` is the decrypted share, a value the
proving trustee chooses. On the unchanged tree the challenge hashed `X, sX, vG, vH` only. The theorem below is
the algebra of the attack the C13 check runs (`c13WeakFS`, "V last"): for ANY challenge `c` fixed before the
share is chosen, the two verification equations have a solution in the share — so a challenge that does not
depend on the share binds nothing. The repaired code (/repo 9d624e1) hashes the bases as well, which makes `c`
a function of the share; the check replays both orders of choice against the real code.
-/
namespace Kyber.Pvss
open Kyber.Scalar Kyber.Share

variable {q : Nat}

/-- Values hashed for the challenge of a single DLEQ proof after the repair: the bases come first. -/
def dleqInputBound (q g h x v : Nat) : List Nat := [g % q, h % q, mul q x g, mul q x h, mul q v g, mul q v h]

/-- **Weak Fiat–Shamir, the algebra.** Let the trustee know `x` (so `X = x·G`), commit with `v` (`VG = v·G`)
    and an arbitrary `VH`, and let `c` be any challenge computed without the share. With the honest response
    `r = v - c·x ≠ 0` there is a share `V'` for which `Proof.Verify(G, V', X, sX)` accepts — whatever `sX` is.
    (`V' = r⁻¹·(VH - c·sX)`; it is the true decryption only by accident.) -/
theorem decryption_equations_solvable_for_the_share [Fact q.Prime] (hq : 0 < q) (x v c VH sX : Nat)
    (hr : ((v : Nat) : ZMod q) - (x : ZMod q) * (c : ZMod q) ≠ 0) :
    ∃ V' : Nat, dleqVerify q { C := c, R := sub q v (mul q x c), VG := mul q v 1, VH := VH } 1 V' (mul q x 1) sX = true := by
  refine ⟨ZMod.val ((((v : Nat) : ZMod q) - (x : ZMod q) * (c : ZMod q))⁻¹ * (((VH : Nat) : ZMod q) - (c : ZMod q) * (sX : ZMod q))), ?_⟩
  rw [dleqVerify_iff]
  simp only [mul_cast, sub_cast hq, Nat.cast_one, mul_one, ZMod.natCast_val, ZMod.cast_id', id_eq]
  constructor
  · ring
  · field_simp
    ring

/-- Non-vacuity, a concrete forgery in `ZMod 11`: `x = 3`, `v = 5`, `c = 4`, `sX = 7`, `VH = 2`; the share
    `V' = 10` is accepted although the true decryption is `x⁻¹·sX = 6`. -/
example : dleqVerify 11 { C := 4, R := sub 11 5 (mul 11 3 4), VG := mul 11 5 1, VH := 2 } 1 10 (mul 11 3 1) 7 = true ∧
    mul 11 (inv 11 3) 7 = 6 := by decide

end Kyber.Pvss
