import KyberModel.Props.C11RabinDkg
import KyberModel.Lib.VssJustify
/-
C11 — Rabin DKG: "an honest dealer receiving complaints it answers is not disqualified". Lifting of
`Vss.answered_complaints_certified` through the DKG's `ProcessJustification`.
-/
namespace Kyber.RabinDkg
open Kyber.Vss

/-- The DKG call that delivers the dealer's (signed, well-formed) justification for verifier `j`. -/
def justCall (cfg : Cfg) (idx sid t : Nat) (f g : List Nat) (j : Nat) : Op :=
  .justification idx true true j (honestDeal cfg sid t f g j)

/-- A signed justification goes to the verifier of the deal it is about, and to nothing else. -/
theorem justification_to_verifier (cfg : Cfg) (nd : Node) (idx j : Nat) (d : Deal) (v : Vss.Node)
    (hl : nd.verifiers.lookup idx = some v) :
    (step cfg nd (.justification idx true true j d)).1.verifiers.lookup idx =
      some (Vss.step cfg v (.justification j true d)).1 := by
  simp only [step, processJustification, hl, Bool.not_true, Bool.false_eq_true, if_false]
  cases hs : Vss.step cfg v (.justification j true d) with
  | mk v' o =>
    cases o <;> simp only <;> rw [lookup_setV] <;> simp [hl]

theorem run_justifications (cfg : Cfg) (idx sid t me : Nat) (f g : List Nat) (js : List Nat) :
    ∀ (nd : Node) (v : Vss.Node), WF cfg me nd → nd.verifiers.lookup idx = some v →
      (run cfg nd (js.map (justCall cfg idx sid t f g))).verifiers.lookup idx =
        some (Vss.run cfg v (js.map (justOp cfg sid t f g))) ∧
      WF cfg me (run cfg nd (js.map (justCall cfg idx sid t f g))) := by
  induction js with
  | nil => intro nd v hw hl; exact ⟨hl, hw⟩
  | cons j js ih =>
    intro nd v hw hl
    have h1 := justification_to_verifier cfg nd idx j (honestDeal cfg sid t f g j) v hl
    have := ih (step cfg nd (justCall cfg idx sid t f g j)).1 _ (wf_step hw _) h1
    simpa [run_cons, List.map_cons, Vss.run_cons, justOp, justCall] using this

/-- **Answered complaints do not disqualify an honest dealer.** At a node whose verifier for dealer `idx` holds the
honest deal and a response of every participant (approvals and false complaints alike), once the dealer's signed
justifications for all complaining participants have arrived — any order, duplicates, unsolicited ones — the dealer
is in `QUAL()`. -/
theorem answered_complaints_qualify (cfg : Cfg) (hq : 0 < cfg.q) (nd : Node) (idx sid t : Nat) (f g : List Nat)
    (hlen : cfg.variant = .rabin → f.length = g.length) (hT : validT t cfg.n = true) (hw : WF cfg nd.me nd)
    (a : Agg) (hl : nd.verifiers.lookup idx = some ⟨.verifier nd.me, some a⟩) (hp : Pre cfg t sid a)
    (hfull : ∀ i < cfg.n, (a.responses.lookup i).isSome = true)
    (js : List Nat) (hjs : ∀ i, a.responses.lookup i = some false → i ∈ js) :
    idx ∈ qual cfg (run cfg nd (js.map (justCall cfg idx sid t f g))) := by
  obtain ⟨h1, w1⟩ := run_justifications cfg idx sid t nd.me f g js nd _ hw hl
  exact (qual_iff w1 idx).mpr ⟨_, h1, answered_complaints_certified cfg hq t sid f g hlen hT nd.me a hp hfull js hjs⟩

end Kyber.RabinDkg
