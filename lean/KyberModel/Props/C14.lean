import KyberModel.Lib.SigmaExtra
/-
C14 — sigma-protocol proofs: complete for true statements, reject false or altered.

Property theorems about the model `Kyber.Sigma` (Proto/Sigma.lean), the same definitions the driver
executes. Predicates covered by the theorems: a *scope* (`Scope`: one Rep, or an And of Reps — the
unit sharing one blinding / response vector) at top level, and an `Or` of any number of scopes
(`orPred`). Variables may be shared freely between terms, Reps and branches. The encoding is any
`Codec` satisfying `Codec.Lawful` (shown for the mock encoding the driver uses); the Fiat–Shamir
oracle `E.O`, the private random stream `rnd` and the secrets `sval` are arbitrary.

Challenges are oracle values (`H_RO`): "rejected" statements have the form "accepted ⇒ a challenge
is 0 / two oracle values coincide / a proven point is the identity".
-/
namespace Kyber.Sigma
open Kyber Kyber.Scalar

/-- The assignment `sval` satisfies `P = Σ x·B` (discrete-log representation, in `ZMod q`). -/
def RepS.holds (q : Nat) (pval sval : Nat → Nat) (rp : RepS) : Prop :=
  (pval rp.p : ZMod q) = linComb q pval (fun s => (sval s : ZMod q)) rp.ts

/-- All Reps of a scope hold. -/
def Scope.holds (q : Nat) (pval sval : Nat → Nat) (sc : Scope) : Prop :=
  ∀ rp ∈ sc.reps, rp.holds q pval sval

/-! ### Completeness -/

/-- **Completeness, single scope.** For a Rep or an And of Reps (any width, variables shared), every
    assignment satisfying it, every encoding, oracle (hence every challenge) and private randomness:
    the proof produced by `HashProve` is accepted by `HashVerify`. -/
theorem hash_complete_scope (E : Params) (hq : 0 < E.q) (hc : E.cd.Lawful E.q) (sval rnd : Nat → Nat)
    (sc : Scope) (ch : List Nat) (hsv : E.sv = svars sc.toPred) (hT : sc.holds E.q E.pval sval) :
    ∃ π, hashProve E sval rnd sc.toPred ch = .ok π ∧ hashVerify E sc.toPred π = .ok () := by
  have hsv' : ∀ s ∈ sc.vars, s ∈ E.sv := by rw [hsv]; exact svars_scope sc
  obtain ⟨d, hsc, hw, _, hp, _, hv, _⟩ := scope_master E hq hc sval rnd sc ch hsv'
  refine ⟨_, hp, ?_⟩
  have := hv E.name E.O E.pval (chal E (encPs E.cd d.Vs)) []
  rw [Params.verifier_self, List.append_nil] at this
  rw [this, scopeChecks_obligated E hq sval sc d _ _ hsc hw]
  intro rp hrp
  rw [hT rp hrp]

/-- **Completeness, Or of scopes.** For an `Or` of any number of scopes, the claimed branch
    `pre.length` satisfied by the assignment — *whatever the truth of the other branches* — the
    proof produced by `HashProve` is accepted by `HashVerify`, for every oracle and randomness. -/
theorem hash_complete_or (E : Params) (hq : 0 < E.q) (hc : E.cd.Lawful E.q) (sval rnd : Nat → Nat)
    (pre : List Scope) (scj : Scope) (post : List Scope)
    (hsv : E.sv = svars (orPred (pre ++ scj :: post))) (hT : scj.holds E.q E.pval sval) :
    ∃ π, hashProve E sval rnd (orPred (pre ++ scj :: post)) [pre.length] = .ok π ∧
      hashVerify E (orPred (pre ++ scj :: post)) π = .ok () := by
  have hsv' : ∀ sc ∈ pre ++ scj :: post, ∀ s ∈ sc.vars, s ∈ E.sv := by rw [hsv]; exact svars_or _
  obtain ⟨dpre, dj, dpost, wpre, wpost, f1, f2, f3, hw1, hw2, hw3, hl1, hl2, hb1, hb2, _, _, hp, _⟩ :=
    or_master E hq sval rnd pre scj post
  refine ⟨_, hp, ?_⟩
  have hf := forall₂_join f1 f2 f3
  have hcl : (orCis E.q wpre wpost (chal E (commitBytes E.cd (dpre ++ dj :: dpost)))).length =
      (pre ++ scj :: post).length := by simp [orCis, hl1, hl2]
  have hcb : ∀ x ∈ orCis E.q wpre wpost (chal E (commitBytes E.cd (dpre ++ dj :: dpost))), x < E.q := by
    intro x hx
    simp only [orCis, List.mem_append, List.mem_cons] at hx
    rcases hx with h | rfl | h
    · exact hb1 x h
    · exact obligatedChallenge_lt E.q hq _ _ _ _ (chal_lt E hq _)
    · exact hb2 x h
  have := hashVerify_or E hq hc sval _ _ _ [] (forall₂_shape hf) hcl (by simp) hcb hsv'
  rw [List.append_nil] at this
  rw [this]
  have hj : ScopeChecks E sval scj dj (orCj E.q wpre wpost (chal E (commitBytes E.cd (dpre ++ dj :: dpost))))
      (orCj E.q wpre wpost (chal E (commitBytes E.cd (dpre ++ dj :: dpost)))) := by
    rw [scopeChecks_obligated E hq sval scj dj _ _ f2 hw2]
    intro rp hrp
    rw [hT rp hrp]
  by_cases h1 : 1 < (pre ++ scj :: post).length
  · simp only [h1, if_true]
    refine ⟨orCis_sum E.q hq wpre wpost _ (chal_lt E hq _), ?_⟩
    exact (allChecks_or E sval pre scj post dpre dj dpost wpre wpost _ _ f1 f3 hw1 hw3 hl1).mpr hj
  · simp only [h1, if_false]
    -- a single branch: no sub-challenges are sent, the verifier uses the master challenge itself
    obtain ⟨hpre, hpost⟩ := single_branch h1
    subst hpre hpost
    have e1 : wpre = [] := List.length_eq_zero_iff.mp hl1
    have e2 : wpost = [] := List.length_eq_zero_iff.mp hl2
    subst e1 e2
    cases f1
    cases f3
    simp only [List.nil_append, orCj_nil] at hj
    simp only [List.nil_append, orCis, orCj_nil, AllChecks, and_true]
    exact hj

/-- **Completeness of the interactive (deniable) protocol**, per prover/verifier pair: for every
    master challenge `c` produced by the participants' mixed randomness, the verifier fed the two
    prover messages accepts. -/
theorem deniable_complete_scope (E : Params) (hq : 0 < E.q) (hc : E.cd.Lawful E.q) (sval rnd : Nat → Nat)
    (sc : Scope) (ch : List Nat) (c : Nat) (hsv : E.sv = svars sc.toPred) (hT : sc.holds E.q E.pval sval) :
    ∃ m1 m2, dProve E sval rnd sc.toPred ch c = .ok (m1, m2) ∧ dVerify E sc.toPred m1 m2 c = .ok () := by
  have hsv' : ∀ s ∈ sc.vars, s ∈ E.sv := by rw [hsv]; exact svars_scope sc
  obtain ⟨d, hsc, hw, _, _, hp, _, hv⟩ := scope_master E hq hc sval rnd sc ch hsv'
  refine ⟨_, _, hp c, ?_⟩
  have := hv E.name E.O E.pval c c []
  rw [Params.verifier_self, List.append_nil] at this
  rw [this, scopeChecks_obligated E hq sval sc d _ _ hsc hw]
  intro rp hrp
  rw [hT rp hrp]

theorem deniable_complete_or (E : Params) (hq : 0 < E.q) (hc : E.cd.Lawful E.q) (sval rnd : Nat → Nat)
    (pre : List Scope) (scj : Scope) (post : List Scope) (c : Nat) (hcq : c < E.q)
    (hsv : E.sv = svars (orPred (pre ++ scj :: post))) (hT : scj.holds E.q E.pval sval) :
    ∃ m1 m2, dProve E sval rnd (orPred (pre ++ scj :: post)) [pre.length] c = .ok (m1, m2) ∧
      dVerify E (orPred (pre ++ scj :: post)) m1 m2 c = .ok () := by
  have hsv' : ∀ sc ∈ pre ++ scj :: post, ∀ s ∈ sc.vars, s ∈ E.sv := by rw [hsv]; exact svars_or _
  obtain ⟨m1, m2, hp, hv⟩ := or_deniable E hq hc sval rnd pre scj post c hcq hsv'
  refine ⟨m1, m2, hp, hv.mpr ?_⟩
  intro rp hrp
  rw [hT rp hrp]

/-! ### The honest prover with secrets that do not satisfy the claimed branch -/

/-- **Honest prover, any secrets, single scope.** The proof of the honest prover run on arbitrary
    secrets is accepted iff the challenge `c` annihilates the defect of every Rep:
    `c·P = c·Σ x·B`. -/
theorem hash_honest_prover_scope (E : Params) (hq : 0 < E.q) (hc : E.cd.Lawful E.q) (sval rnd : Nat → Nat)
    (sc : Scope) (ch : List Nat) (hsv : E.sv = svars sc.toPred) :
    ∃ π c, hashProve E sval rnd sc.toPred ch = .ok π ∧ proveChallenge E rnd sc.toPred ch = .ok c ∧
      (hashVerify E sc.toPred π = .ok () ↔
        ∀ rp ∈ sc.reps, (c : ZMod E.q) * (E.pval rp.p : ZMod E.q) =
          (c : ZMod E.q) * linComb E.q E.pval (fun s => (sval s : ZMod E.q)) rp.ts) := by
  have hsv' : ∀ s ∈ sc.vars, s ∈ E.sv := by rw [hsv]; exact svars_scope sc
  obtain ⟨π, c, hp, hpc, hv⟩ := scope_verdict E hq hc sval rnd sc ch hsv'
  obtain ⟨c', _, _, hsame, hiff⟩ := hv E.name E.O
  rw [Params.verifier_self] at hiff
  rw [hsame rfl rfl] at hiff
  exact ⟨π, c, hp, hpc, hiff⟩

/-- **False claim rejected, single scope** (`q` prime): if the honest prover's proof is accepted
    then the assignment satisfies the scope, or the Fiat–Shamir challenge is 0. -/
theorem hash_false_claim_scope (E : Params) [Fact E.q.Prime] (hc : E.cd.Lawful E.q) (sval rnd : Nat → Nat)
    (sc : Scope) (ch : List Nat) (hsv : E.sv = svars sc.toPred) :
    ∃ π c, hashProve E sval rnd sc.toPred ch = .ok π ∧ proveChallenge E rnd sc.toPred ch = .ok c ∧
      (hashVerify E sc.toPred π = .ok () ↔ (c : ZMod E.q) = 0 ∨ sc.holds E.q E.pval sval) := by
  have hq : 0 < E.q := (Fact.out : E.q.Prime).pos
  obtain ⟨π, c, hp, hpc, hiff⟩ := hash_honest_prover_scope E hq hc sval rnd sc ch hsv
  refine ⟨π, c, hp, hpc, ?_⟩
  rw [hiff]
  exact forall_mul_eq_iff (c : ZMod E.q) sc.reps _ _

/-- **Honest prover, any secrets, Or of scopes.** With claimed branch `j = pre.length` the proof is
    accepted iff the branch's sub-challenge `cj = c − Σ (pre-challenges of the other branches)`
    annihilates the defect of every Rep of that branch. The truth of the other branches is
    irrelevant. -/
theorem hash_honest_prover_or (E : Params) (hq : 0 < E.q) (hc : E.cd.Lawful E.q) (sval rnd : Nat → Nat)
    (pre : List Scope) (scj : Scope) (post : List Scope)
    (hsv : E.sv = svars (orPred (pre ++ scj :: post))) :
    ∃ π c, hashProve E sval rnd (orPred (pre ++ scj :: post)) [pre.length] = .ok π ∧
      proveChallenge E rnd (orPred (pre ++ scj :: post)) [pre.length] = .ok c ∧
      (hashVerify E (orPred (pre ++ scj :: post)) π = .ok () ↔
        ∀ rp ∈ scj.reps,
          (branchChallenge E.q rnd (pre ++ scj :: post).length pre.length c : ZMod E.q) * (E.pval rp.p : ZMod E.q) =
          (branchChallenge E.q rnd (pre ++ scj :: post).length pre.length c : ZMod E.q) *
            linComb E.q E.pval (fun s => (sval s : ZMod E.q)) rp.ts) := by
  have hsv' : ∀ sc ∈ pre ++ scj :: post, ∀ s ∈ sc.vars, s ∈ E.sv := by rw [hsv]; exact svars_or _
  obtain ⟨π, c, hp, hpc, _, hv⟩ := or_verdict E hq hc sval rnd pre scj post hsv'
  obtain ⟨c', _, _, hsame, hiff⟩ := hv E.name E.O
  rw [Params.verifier_self] at hiff
  have hcc := hsame rfl rfl
  subst hcc
  refine ⟨π, c', hp, hpc, ?_⟩
  rw [hiff]
  by_cases h1 : 1 < (pre ++ scj :: post).length
  · simp only [h1, if_true, true_imp_iff, true_and]
  · obtain ⟨hpre, hpost⟩ := single_branch h1
    subst hpre hpost
    simp only [List.nil_append, List.length_singleton, lt_irrefl, if_false, false_imp_iff, true_and,
      List.length_nil, branchChallenge_single]

/-- **False claim rejected, Or of scopes** (`q` prime): accepted iff the claimed branch holds or its
    sub-challenge is 0. -/
theorem hash_false_claim_or (E : Params) [Fact E.q.Prime] (hc : E.cd.Lawful E.q) (sval rnd : Nat → Nat)
    (pre : List Scope) (scj : Scope) (post : List Scope)
    (hsv : E.sv = svars (orPred (pre ++ scj :: post))) :
    ∃ π c, hashProve E sval rnd (orPred (pre ++ scj :: post)) [pre.length] = .ok π ∧
      proveChallenge E rnd (orPred (pre ++ scj :: post)) [pre.length] = .ok c ∧
      (hashVerify E (orPred (pre ++ scj :: post)) π = .ok () ↔
        (branchChallenge E.q rnd (pre ++ scj :: post).length pre.length c : ZMod E.q) = 0 ∨
          scj.holds E.q E.pval sval) := by
  have hq : 0 < E.q := (Fact.out : E.q.Prime).pos
  obtain ⟨π, c, hp, hpc, hiff⟩ := hash_honest_prover_or E hq hc sval rnd pre scj post hsv
  refine ⟨π, c, hp, hpc, ?_⟩
  rw [hiff]
  exact forall_mul_eq_iff _ scj.reps _ _

/-! ### Another protocol name / oracle -/

/-- **Other protocol name, single scope** (`q` prime): the honest proof of a true statement checked
    under another protocol name / oracle is accepted only if the two oracle values coincide or every
    proven point is the identity. -/
theorem hash_other_name_scope (E : Params) [Fact E.q.Prime] (hc : E.cd.Lawful E.q) (sval rnd : Nat → Nat)
    (sc : Scope) (ch : List Nat) (hsv : E.sv = svars sc.toPred) (hT : sc.holds E.q E.pval sval) :
    ∃ π c, hashProve E sval rnd sc.toPred ch = .ok π ∧ proveChallenge E rnd sc.toPred ch = .ok c ∧
      ∀ (name : Bytes) (O : Oracle), ∃ c', verifyChallenge (E.verifier name O E.pval) sc.toPred π = .ok c' ∧
        (hashVerify (E.verifier name O E.pval) sc.toPred π = .ok () →
          c' = c ∨ ∀ rp ∈ sc.reps, (E.pval rp.p : ZMod E.q) = 0) := by
  have hq : 0 < E.q := (Fact.out : E.q.Prime).pos
  have hsv' : ∀ s ∈ sc.vars, s ∈ E.sv := by rw [hsv]; exact svars_scope sc
  obtain ⟨π, c, hp, hpc, hv⟩ := scope_verdict E hq hc sval rnd sc ch hsv'
  refine ⟨π, c, hp, hpc, ?_⟩
  intro name O
  obtain ⟨c', hvc, hc'lt, _, hiff⟩ := hv name O
  refine ⟨c', hvc, ?_⟩
  intro hacc
  have h := hiff.mp hacc
  have hclt : c < E.q := by
    obtain ⟨c2, _, h2, hs, _⟩ := hv E.name E.O
    rw [← hs rfl rfl]; exact h2
  have h2 : ∀ rp ∈ sc.reps, ((c' : ZMod E.q) - c) * (E.pval rp.p : ZMod E.q) = ((c' : ZMod E.q) - c) * 0 := by
    intro rp hrp
    have := h rp hrp
    rw [← hT rp hrp] at this
    rw [sub_mul, this]; ring
  rcases (forall_mul_eq_iff _ sc.reps _ _).mp h2 with h0 | h0
  · left
    rw [eq_iff_cast_eq c' c hc'lt hclt]
    exact sub_eq_zero.mp h0
  · exact Or.inr h0

/-- **Other protocol name, Or of at least two scopes**: accepted only if the two oracle values
    coincide (the sub-challenges in the proof add up to the prover's challenge). -/
theorem hash_other_name_or (E : Params) (hq : 0 < E.q) (hc : E.cd.Lawful E.q) (sval rnd : Nat → Nat)
    (pre : List Scope) (scj : Scope) (post : List Scope)
    (hsv : E.sv = svars (orPred (pre ++ scj :: post))) (h2 : 1 < (pre ++ scj :: post).length) :
    ∃ π c, hashProve E sval rnd (orPred (pre ++ scj :: post)) [pre.length] = .ok π ∧
      proveChallenge E rnd (orPred (pre ++ scj :: post)) [pre.length] = .ok c ∧
      ∀ (name : Bytes) (O : Oracle),
        ∃ c', verifyChallenge (E.verifier name O E.pval) (orPred (pre ++ scj :: post)) π = .ok c' ∧
          (hashVerify (E.verifier name O E.pval) (orPred (pre ++ scj :: post)) π = .ok () → c' = c) := by
  have hsv' : ∀ sc ∈ pre ++ scj :: post, ∀ s ∈ sc.vars, s ∈ E.sv := by rw [hsv]; exact svars_or _
  obtain ⟨π, c, hp, hpc, _, hv⟩ := or_verdict E hq hc sval rnd pre scj post hsv'
  refine ⟨π, c, hp, hpc, ?_⟩
  intro name O
  obtain ⟨c', hvc, _, _, hiff⟩ := hv name O
  exact ⟨c', hvc, fun hacc => (hiff.mp hacc).1 h2⟩

/-! ### Other public points -/

/-- **Other public points, single scope** (`q` prime): the honest proof of a true statement checked
    against other public points is accepted only if, for every Rep whose bases are unchanged, the
    proven point is unchanged too or the Fiat–Shamir challenge is 0. -/
theorem hash_other_points_scope (E : Params) [Fact E.q.Prime] (hc : E.cd.Lawful E.q) (sval rnd : Nat → Nat)
    (sc : Scope) (ch : List Nat) (hsv : E.sv = svars sc.toPred) (hT : sc.holds E.q E.pval sval) :
    ∃ π c, hashProve E sval rnd sc.toPred ch = .ok π ∧ proveChallenge E rnd sc.toPred ch = .ok c ∧
      ∀ pval' : Nat → Nat, hashVerify (E.verifier E.name E.O pval') sc.toPred π = .ok () →
        ∀ rp ∈ sc.reps, (∀ t ∈ rp.ts, (pval' t.b : ZMod E.q) = (E.pval t.b : ZMod E.q)) →
          (c : ZMod E.q) = 0 ∨ (pval' rp.p : ZMod E.q) = (E.pval rp.p : ZMod E.q) := by
  have hq : 0 < E.q := (Fact.out : E.q.Prime).pos
  have hsv' : ∀ s ∈ sc.vars, s ∈ E.sv := by rw [hsv]; exact svars_scope sc
  obtain ⟨d, hsc, hw, hpc, hp, _, hv, _⟩ := scope_master E hq hc sval rnd sc ch hsv'
  refine ⟨_, _, hp, hpc, ?_⟩
  intro pval' hacc rp hrp hb
  have h' := (hv E.name E.O pval' (chal E (encPs E.cd d.Vs)) []).mp (by rwa [List.append_nil])
  have h0 : ScopeChecks E sval sc d (chal E (encPs E.cd d.Vs)) (chal E (encPs E.cd d.Vs)) := by
    rw [scopeChecks_obligated E hq sval sc d _ _ hsc hw]
    intro rp' hrp'; rw [hT rp' hrp']
  obtain ⟨V, r1, r2⟩ := forall₂_both h0 h' rp hrp
  have hcc : chal (E.verifier E.name E.O pval') (encPs E.cd d.Vs) = chal E (encPs E.cd d.Vs) := rfl
  rw [hcc] at r2
  have := repChecks_two E.q E (E.verifier E.name E.O pval') rfl rfl _ _ rp V r1 r2 hb
  rcases mul_eq_mul_left_iff.mp this with h | h
  · exact Or.inr h
  · exact Or.inl h

/-! ### Sub-challenge sum, truncation -/

/-- **Sub-challenge sum check.** For *any* proof bytes and any `Or` with at least two
    sub-predicates: acceptance implies that the sub-challenges read from the proof add up to the
    master challenge. -/
theorem hash_or_subchallenges_sum (E : Params) (ps : List Pred) (π : Bytes) (h2 : 1 < ps.length)
    (h : hashVerify E (.or ps) π = .ok ()) :
    ∃ st vps r ci st1, getCommits E (.or ps) none (VCtx.init π) = .ok (st, .or vps, r) ∧
      readScalars E ps.length (st.pubRand E).2 = .ok (ci, st1) ∧
      zsum E.q ci = ((st.pubRand E).1 : ZMod E.q) := by
  obtain ⟨st, vp, r, st', hg, hv⟩ := (hashVerify_iff E _ _).mp h
  have hvp : ∃ vps, vp = .or vps := by
    simp only [getCommits] at hg
    cases hgo : getCommitsOr E ps (VCtx.init π) with
    | error e => rw [hgo] at hg; cases hg
    | ok res =>
      rw [hgo] at hg
      simp only [Except.ok.injEq, Prod.mk.injEq] at hg
      exact ⟨_, hg.2.1.symm⟩
  obtain ⟨vps, rfl⟩ := hvp
  have h0 : ¬ ps.length = 0 := by omega
  simp only [verify, h0, if_false, gt_iff_lt, h2, if_true] at hv
  cases hrs : readScalars E ps.length (st.pubRand E).2 with
  | error e => rw [hrs] at hv; cases hv
  | ok res =>
    obtain ⟨ci, st1⟩ := res
    rw [hrs] at hv
    simp only at hv
    split at hv
    · rename_i hsum
      exact ⟨st, vps, r, ci, st1, hg, hrs, by rw [← sumMod_cast, hsum]⟩
    · cases hv

/-- **Short proofs are rejected** (any bytes): a proof shorter than the layout of the predicate
    (commitments, sub-challenges, responses) is never accepted. -/
theorem hash_short_proof_rejected_or (E : Params) (scs : List Scope) (π : Bytes)
    (h : π.length < orLen E scs) : hashVerify E (orPred scs) π ≠ .ok () := by
  intro hacc
  have := hashVerify_or_length E scs π hacc
  omega

theorem hash_short_proof_rejected_scope (E : Params) (sc : Scope) (π : Bytes)
    (h : π.length < scopeLen E sc) : hashVerify E sc.toPred π ≠ .ok () := by
  intro hacc
  have := hashVerify_scope_length E sc π hacc
  omega

/-- **Truncated transcripts are rejected, Or of scopes.** The honest proof (whatever the secrets) has
    exactly the length of the predicate's layout, and every strict prefix of it is rejected. -/
theorem hash_truncated_rejected_or (E : Params) (hq : 0 < E.q) (hc : E.cd.Lawful E.q) (sval rnd : Nat → Nat)
    (pre : List Scope) (scj : Scope) (post : List Scope) :
    ∃ π, hashProve E sval rnd (orPred (pre ++ scj :: post)) [pre.length] = .ok π ∧
      π.length = orLen E (pre ++ scj :: post) ∧
      ∀ n < π.length, hashVerify E (orPred (pre ++ scj :: post)) (π.take n) ≠ .ok () := by
  obtain ⟨dpre, dj, dpost, wpre, wpost, f1, f2, f3, _, _, _, hl1, hl2, _, _, _, _, hp, _⟩ :=
    or_master E hq sval rnd pre scj post
  have hshape := forall₂_shape (forall₂_join f1 f2 f3)
  have hlen : (commitBytes E.cd (dpre ++ dj :: dpost) ++ orM2 E sval (pre ++ scj :: post) (dpre ++ dj :: dpost)
      (orCis E.q wpre wpost (chal E (commitBytes E.cd (dpre ++ dj :: dpost))))).length =
      orLen E (pre ++ scj :: post) := by
    have hcl : (orCis E.q wpre wpost (chal E (commitBytes E.cd (dpre ++ dj :: dpost)))).length =
        (pre ++ scj :: post).length := by simp [orCis, hl1, hl2]
    rw [List.length_append, commitBytes_length E hc _ _ hshape, orM2, List.length_append,
      respBytes_length E hc sval _ _ _ hshape hcl]
    unfold orLen
    by_cases h1 : 1 < (pre ++ scj :: post).length
    · simp only [h1, if_true, encSs_length E.cd E.q hc, hcl]; omega
    · simp only [h1, if_false, List.length_nil]; omega
  refine ⟨_, hp, hlen, ?_⟩
  intro n hn
  apply hash_short_proof_rejected_or
  rw [List.length_take, ← hlen]
  omega

/-- **Truncated transcripts are rejected, single scope.** -/
theorem hash_truncated_rejected_scope (E : Params) (hq : 0 < E.q) (hc : E.cd.Lawful E.q) (sval rnd : Nat → Nat)
    (sc : Scope) (ch : List Nat) (hsv : E.sv = svars sc.toPred) :
    ∃ π, hashProve E sval rnd sc.toPred ch = .ok π ∧ π.length = scopeLen E sc ∧
      ∀ n < π.length, hashVerify E sc.toPred (π.take n) ≠ .ok () := by
  have hsv' : ∀ s ∈ sc.vars, s ∈ E.sv := by rw [hsv]; exact svars_scope sc
  obtain ⟨d, hsc, _, _, hp, _, _, _⟩ := scope_master E hq hc sval rnd sc ch hsv'
  have hlen : (encPs E.cd d.Vs ++ encSs E.cd (E.sv.filterMap (respVec E.q sval sc d
      (chal E (encPs E.cd d.Vs))))).length = scopeLen E sc := by
    rw [List.length_append, encPs_length E.cd E.q hc, encSs_length E.cd E.q hc,
      respVec_count E sval sc d _ hsc.shape, hsc.length]
    rfl
  refine ⟨_, hp, hlen, ?_⟩
  intro n hn
  apply hash_short_proof_rejected_scope
  rw [List.length_take, ← hlen]
  omega

/-! ### The hypotheses are satisfiable; a concrete run -/

/-- The mock encoding used by the driver satisfies the encoding laws. -/
example : (mockCodec 7).Lawful 7 := mockCodec_lawful 7

/-- A satisfiable instance: `q = 7`, `P₁ = x₀·P₀` with `x₀ = 3`, `P₀ = 2`, `P₁ = 6`. -/
example : (Scope.one ⟨1, [⟨0, 0⟩]⟩).holds 7 (fun i => [2, 6].getD i 0) (fun _ => 3) := by
  intro rp hrp
  simp only [Scope.reps, List.mem_singleton] at hrp
  subst hrp
  simp only [RepS.holds, linComb, List.map_cons, List.map_nil, List.sum_cons, List.sum_nil]
  decide +kernel

/-- Prove with the model, then verify with the model. -/
def runAccept (E : Params) (sval rnd : Nat → Nat) (p : Pred) (ch : List Nat) : Option Bool :=
  match hashProve E sval rnd p ch with
  | .ok π => (match hashVerify E p π with
    | .ok _ => some true
    | .error _ => some false)
  | .error _ => none

/-- The model run on that instance inside `Or(P₁ = x₀·P₀, P₂ = x₀·P₀)` with a false second branch
    (`P₂ = 1`): proving branch 0 is accepted, claiming branch 1 is rejected (oracle value 5). -/
example :
    runAccept ⟨7, mockCodec 7, [], (fun _ _ _ => 5), [0], (fun i => [2, 6, 1].getD i 0)⟩ (fun _ => 3)
        (fun i => [4, 2, 6, 1].getD i 0) (orPred [.one ⟨1, [⟨0, 0⟩]⟩, .one ⟨2, [⟨0, 0⟩]⟩]) [0] = some true ∧
      runAccept ⟨7, mockCodec 7, [], (fun _ _ _ => 5), [0], (fun i => [2, 6, 1].getD i 0)⟩ (fun _ => 3)
        (fun i => [4, 2, 6, 1].getD i 0) (orPred [.one ⟨1, [⟨0, 0⟩]⟩, .one ⟨2, [⟨0, 0⟩]⟩]) [1] = some false := by
  decide +kernel

end Kyber.Sigma
