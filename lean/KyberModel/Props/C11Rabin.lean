import KyberModel.Proto.Vss
/-
# C11, Rabin DKG — the two recorded findings, inside the model

The Rabin DKG has no Lean model of its own (its building block, the Rabin VSS aggregator, is
`Proto/Vss.lean`, tied to `share/vss/rabin/vss.go` by the C10 correspondence). `DistKeyGenerator.QUAL()` is
"the dealers whose verifier reports `DealCertified()`", so what the aggregator answers on a history of
responses is what decides the qualified set. The two defects recorded as known findings of C11
(`known_findings.d/C11.json`) are visible at this level, on the code as it stands (`strict := true`):

* `rabin_conflicting_responses_order_dependent` — the same set of validly signed responses, delivered in two
  orders, certifies the deal in one and not in the other (first response per sender wins);
* `rabin_unanswered_complaint_certified` — a deal with a standing, never justified complaint is certified as
  soon as `t` approvals are in.

Both are replayed on the real code by the C11 check (scenario `badShareMany` + `equivocate`, scenario
`badShareUnjustified`) and by `fixes/C11-rabin-*.replay.go`.
-/
namespace Kyber.C11Rabin
open Kyber.Vss

def cfg : Cfg := { variant := .rabin, n := 5, q := 11, h := 2, strict := true }

/-- A participant that has registered the deal of dealer 0: the dealer's own approval (the DKG's
    `UnsafeSetResponseDKG`) and its own approval are in; threshold 3, session 1. -/
def observer : Node :=
  { role := .verifier 1, agg := some { t := 3, sid := some 1, responses := [(0, true), (1, true)] } }

/-- Verifiers 2 and 3 complain (the dealer gave them invalid shares and never answers); verifier 4 signs both
    an approval and a complaint. -/
def approvalFirst : List Op :=
  [.response 1 2 false true, .response 1 3 false true, .response 1 4 true true, .response 1 4 false true]
def complaintFirst : List Op :=
  [.response 1 2 false true, .response 1 3 false true, .response 1 4 false true, .response 1 4 true true]

/-- **Finding "conflicting responses, first wins"**: the two histories contain the same messages, yet one
    certifies the deal and the other does not. -/
theorem rabin_conflicting_responses_order_dependent :
    approvalFirst.Perm complaintFirst ∧
    certified cfg (run cfg observer approvalFirst) = true ∧
    certified cfg (run cfg observer complaintFirst) = false := by
  refine ⟨?_, by decide, by decide⟩
  unfold approvalFirst complaintFirst
  exact List.Perm.cons _ (List.Perm.cons _ (List.Perm.swap _ _ _))

/-- **Finding "unanswered complaint"**: verifier 4 complains, nobody ever justifies, and the deal is certified
    (three approvals: the dealer's, the observer's, verifier 2's and 3's make four). -/
theorem rabin_unanswered_complaint_certified :
    let ops : List Op := [.response 1 2 true true, .response 1 3 true true, .response 1 4 false true]
    certified cfg (run cfg observer ops) = true ∧
    (∃ a, (run cfg observer ops).agg = some a ∧ a.responses.lookup 4 = some false) := by
  refine ⟨by decide, ?_⟩
  exact ⟨_, rfl, by decide⟩

/-- The Pedersen aggregator, on the same history, does not certify (an open complaint blocks it). -/
theorem pedersen_unanswered_complaint_not_certified :
    let cfgP : Cfg := { cfg with variant := .pedersen }
    let ops : List Op := [.response 1 2 true true, .response 1 3 true true, .response 1 4 false true]
    certified cfgP (run cfgP observer ops) = false := by
  decide

end Kyber.C11Rabin
