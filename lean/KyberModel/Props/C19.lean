import KyberModel.Lib.Xof
import KyberModel.Lib.XofRandom
import KyberModel.Props.C02
/-
C19 — XOFs and random streams are deterministic, chunk-independent and range-exact.

Property theorems only. Model: `Kyber.Xof` (Proto/Xof.lean — the wrapper state machine of
xof/blake2xb, xof/blake2xs (`hs = 64 / 32`) and xof/keccak (`hs = 0`) over an abstract primitive
`prim : key → absorbed → infinite stream`) and `Kyber.Random` (Proto/Random.lean). These are the
definitions the driver executes (Drive/Xof.lean). All statements are for every primitive, every split
size, every state reachable or not, and every operation sequence.

Hypotheses used: none about the primitives (BLAKE2X / SHAKE256 / SHA-256 are arbitrary functions).
-/
namespace Kyber.Xof

variable (prim : Prim) (hs : Nat)

/-! ### Chunk independence -/

/-- Reading in chunks `ns` (from ANY state) yields the same bytes as one read of `ns.sum`, and ends in
    the same primitive instance at the same position. -/
theorem read_chunks (x : Xof) (ns : List Nat) :
    outBytes (run prim hs x (ns.map Op.read)).2 = readBytes prim x ns.sum ∧
    (run prim hs x (ns.map Op.read)).1.key = x.key ∧
    (run prim hs x (ns.map Op.read)).1.absorbed = x.absorbed ∧
    (run prim hs x (ns.map Op.read)).1.pos = x.pos + ns.sum := by
  induction ns generalizing x with
  | nil => simp [run, outBytes, readBytes]
  | cons n ns ih =>
    obtain ⟨h1, h2, h3, h4⟩ := ih (doRead prim x n).1
    simp only [List.map_cons, run, step, outBytes, List.sum_cons]
    refine ⟨?_, ?_, ?_, ?_⟩
    · rw [h1, readBytes_add]; rfl
    · rw [h2]; rfl
    · rw [h3]; rfl
    · rw [h4]; simp [doRead, Nat.add_assoc]

/-- After at least one read the whole state is determined by the total: the state after reading the
    chunks `ns ≠ []` IS the state after one read of `ns.sum`. -/
theorem read_chunks_state (x : Xof) (ns : List Nat) (hne : ns ≠ []) :
    (run prim hs x (ns.map Op.read)).1 = (doRead prim x ns.sum).1 := by
  induction ns generalizing x with
  | nil => exact absurd rfl hne
  | cons n ns ih =>
    simp only [List.map_cons, run, step, List.sum_cons]
    by_cases h : ns = []
    · subst h; simp [run]
    · rw [ih _ h]; simp [doRead, Nat.add_assoc]

/-- Chunk independence inside any program: two chunkings with the same total, surrounded by arbitrary
    operations `pre` and `post` (writes, reseeds, resets, further reads …), give the same final state
    and the same concatenated output. -/
theorem chunking_in_context (x : Xof) (pre post : List Op) (ns ms : List Nat)
    (hn : ns ≠ []) (hm : ms ≠ []) (hsum : ns.sum = ms.sum) :
    (run prim hs x (pre ++ ns.map Op.read ++ post)).1 = (run prim hs x (pre ++ ms.map Op.read ++ post)).1 ∧
    outBytes (run prim hs x (pre ++ ns.map Op.read ++ post)).2
      = outBytes (run prim hs x (pre ++ ms.map Op.read ++ post)).2 := by
  simp only [List.append_assoc, run_append, outBytes_append]
  have hs1 := read_chunks_state prim hs (run prim hs x pre).1 ns hn
  have hs2 := read_chunks_state prim hs (run prim hs x pre).1 ms hm
  have hb1 := (read_chunks prim hs (run prim hs x pre).1 ns).1
  have hb2 := (read_chunks prim hs (run prim hs x pre).1 ms).1
  rw [hs1, hs2, hb1, hb2, hsum]
  exact ⟨rfl, rfl⟩

/-! ### XORKeyStream -/

/-- `XORKeyStream(dst, src)` (with `len(dst) ≥ len(src)`) XORs `src` with exactly the bytes `Read` would
    return, and leaves the XOF in exactly the state that `Read` would. -/
theorem xor_eq_src_xor_read (x : Xof) (dl : Nat) (src : Bytes) (h : src.length ≤ dl) :
    step prim hs x (.xor dl src) =
      ((step prim hs x (.read src.length)).1, .bytes (xorBytes src (readBytes prim x src.length))) := by
  have : ¬ dl < src.length := by omega
  simp [step, this, doRead]

/-- A too short `dst` panics before anything is read. -/
theorem xor_short_dst (x : Xof) (dl : Nat) (src : Bytes) (h : dl < src.length) :
    step prim hs x (.xor dl src) = (x, .panic) := by
  simp [step, h]

/-! ### Clone -/

/-- Bisimulation: instances that agree on (key, absorbed, position, mode) produce the same outputs
    under every further sequence of Write/Read/XORKeyStream/Reseed, and stay in agreement. -/
theorem sim_run (x y : Xof) (ops : List Op) (h : Sim x y) (hops : NoReset ops) :
    (run prim hs x ops).2 = (run prim hs y ops).2 ∧ Sim (run prim hs x ops).1 (run prim hs y ops).1 := by
  induction ops generalizing x y with
  | nil => exact ⟨rfl, h⟩
  | cons op ops ih =>
    have hop : op ≠ .reset := hops op (by simp)
    obtain ⟨ho, hsim⟩ := sim_step prim hs x y op h hop
    obtain ⟨ho', hsim'⟩ := ih _ _ hsim (fun o ho => hops o (by simp [ho]))
    simp only [run]
    exact ⟨by rw [ho, ho'], hsim'⟩

/-- A clone continues identically to its original under further reads, writes and reseeds. -/
theorem clone_continues_identically (x : Xof) (ops : List Op) (hops : NoReset ops) :
    (run prim hs (clone x) ops).2 = (run prim hs x ops).2 :=
  (sim_run prim hs _ _ ops (clone_sim x) hops).1

/-- If nothing is retained for `Reset` (as for a clone of a clone, or `New` of a short seed as coded)
    the clone is *equal* to the original, so they agree under every operation including `Reset`. -/
theorem clone_eq_of_nothing_retained (x : Xof) (h1 : x.seedTail = []) (h2 : x.resetKey = none) :
    clone x = x := by
  cases x; simp_all [clone]

/-- Clones are independent objects: an operation on instance `i` leaves every other instance alone. -/
theorem mstep_other_untouched (m m' : List Xof) (i j : Nat) (op : Op) (o : Out)
    (h : mstep prim hs m (.on i op) = some (m', o)) (hij : j ≠ i) : m'[j]? = m[j]? := by
  simp only [mstep] at h
  cases hx : m[i]? with
  | none => simp [hx] at h
  | some x =>
    simp only [hx, Option.some.injEq, Prod.mk.injEq] at h
    rw [← h.1, List.getElem?_set_ne (Ne.symm hij)]

/-- `Clone` appends the clone and changes nothing else. -/
theorem mstep_clone (m m' : List Xof) (i : Nat) (o : Out)
    (h : mstep prim hs m (.clone i) = some (m', o)) :
    ∃ x, m[i]? = some x ∧ m' = m ++ [clone x] := by
  simp only [mstep] at h
  cases hx : m[i]? with
  | none => simp [hx] at h
  | some x =>
    simp only [hx, Option.some.injEq, Prod.mk.injEq] at h
    exact ⟨x, rfl, h.1.symm⟩

/-! ### Reseed and Write -/

/-- `Write` panics exactly in read mode and then changes nothing. -/
theorem write_panics_iff (x : Xof) (b : Bytes) :
    (step prim hs x (.write b)).2 = .panic ↔ x.reading = true := by
  simp only [step]; split <;> simp_all

/-- Read mode is entered by every `Read`, even of zero bytes (as in x/crypto). -/
theorem read_sets_reading (x : Xof) (n : Nat) : (step prim hs x (.read n)).1.reading = true := by
  simp [step, doRead]

/-- `Reseed` makes the XOF writable again, whatever its history: the next `Write` succeeds and is
    absorbed after the 128-byte reseed key material. -/
theorem reseed_enables_write (x : Xof) (b : Bytes) :
    (step prim hs (step prim hs x .reseed).1 (.write b)).2 = .unit ∧
    (step prim hs (step prim hs x .reseed).1 (.write b)).1.absorbed
      = (splitSeed hs (readBytes prim x reseedLen)).2 ++ b := by
  simp [step, doRead]

/-- The fresh instance is keyed by the next 128 output bytes, split at `hs` as `New` does. -/
theorem reseed_state (x : Xof) :
    (step prim hs x .reseed).1 =
      { new hs false (readBytes prim x reseedLen) with seedTail := x.seedTail, resetKey := x.resetKey } := by
  simp [step, doRead, new]

/-! ### Determinism: the output is a function of seed and absorbed data -/

/-- Normal form: a fresh XOF that absorbs `ws` and is then read (in any chunks `ns`) outputs the first
    `ns.sum` bytes of the primitive keyed by the first `hs` seed bytes on input `seed-remainder ‖ ws`. -/
theorem new_write_read (retain : Bool) (seed : Bytes) (ws : List Bytes) (ns : List Nat) :
    outBytes (run prim hs (new hs retain seed) (ws.map Op.write ++ ns.map Op.read)).2 =
      (List.range ns.sum).map
        (fun i => (prim (splitSeed hs seed).1 ((splitSeed hs seed).2 ++ ws.flatten)).byte i) := by
  rw [run_append, outBytes_append]
  have hw : outBytes (run prim hs (new hs retain seed) (ws.map Op.write)).2 = [] := by
    have : ∀ (x : Xof), x.reading = false → outBytes (run prim hs x (ws.map Op.write)).2 = [] := by
      induction ws with
      | nil => intro x _; rfl
      | cons w ws ih =>
        intro x hx
        simp only [List.map_cons, run, step, hx]
        simp only [Bool.false_eq_true, ↓reduceIte, outBytes]
        exact ih _ (by simp)
    exact this _ rfl
  rw [hw, run_writes prim hs _ ws rfl, (read_chunks prim hs _ ns).1]
  simp [readBytes, new]

/-! ### Reset -/

/-- What `Reset` does, for every state: it returns to the initial state `x₀` iff the instance still has
    (or retained) `x₀`'s key and retained `x₀`'s seed remainder. -/
theorem reset_eq_iff (x x0 : Xof) (h0 : x0.pos = 0 ∧ x0.reading = false ∧ x0.absorbed = x0.seedTail) :
    (step prim hs x .reset).1 = x0 ↔
      x.resetKey.getD x.key = x0.key ∧ x.seedTail = x0.seedTail ∧ x.resetKey = x0.resetKey := by
  obtain ⟨h1, h2, h3⟩ := h0
  cases x0
  cases x
  simp only [step] at *
  subst h1 h2 h3
  simp only [Xof.mk.injEq, true_and]
  constructor
  · rintro ⟨a, b, _, c⟩; exact ⟨a, b, c⟩
  · rintro ⟨a, b, c⟩; exact ⟨a, b, b, c⟩

/-- keccak (`hs = 0`), as coded: `Reset` after ANY history returns the XOF made by the factory to its
    seeded initial state. -/
theorem reset_initial_keccak (seed : Bytes) (ops : List Op) :
    (step prim 0 (run prim 0 (new 0 false seed) ops).1 .reset).1 = new 0 false seed := by
  have hkey : ∀ (ops : List Op) (x : Xof), x.key = [] → x.resetKey = none →
      (run prim 0 x ops).1.key = [] := by
    intro ops
    induction ops with
    | nil => intro x h _; exact h
    | cons op ops ih =>
      intro x h hr
      simp only [run]
      exact ih _ (step_key_zero prim x op h (by simp [hr])) (by rw [step_resetKey, hr])
  rw [reset_eq_iff prim 0 _ _ ⟨rfl, rfl, rfl⟩]
  rw [run_seedTail, run_resetKey]
  refine ⟨?_, rfl, rfl⟩
  have hr : (new 0 false seed).resetKey = none := rfl
  rw [hr]
  simp only [Option.getD_none]
  rw [hkey ops _ (splitSeed_zero_fst seed) rfl]
  exact (splitSeed_zero_fst seed).symm

/-- The repaired wrapper (`retain = true`, fixes/C19-blake2x-reset-after-reseed.patch), every split size:
    `Reset` after ANY history returns the factory-made XOF to its seeded initial state. -/
theorem reset_initial_repaired (seed : Bytes) (ops : List Op) :
    (step prim hs (run prim hs (new hs true seed) ops).1 .reset).1 = new hs true seed := by
  rw [reset_eq_iff prim hs _ _ ⟨rfl, rfl, rfl⟩, run_seedTail, run_resetKey]
  simp [new]

/- FULL STATEMENT (property text): for blake2xb/blake2xs AS CODED (`retain = false`, `hs = 64/32`),
   `∀ seed ops, (step (run (new hs false seed) ops).1 .reset).1 = new hs false seed`.
   This is FALSE for the code as it stands (`reset_after_reseed_counter` below); what holds is the
   statement for histories without `Reseed`. -/
def NoReseed (ops : List Op) : Prop := ∀ op ∈ ops, op ≠ Op.reseed

theorem reset_partial (seed : Bytes) (ops : List Op) (hops : NoReseed ops) :
    (step prim hs (run prim hs (new hs false seed) ops).1 .reset).1 = new hs false seed := by
  have hkey : ∀ (ops : List Op) (x : Xof), NoReseed ops → x.resetKey = none →
      (run prim hs x ops).1.key = x.key := by
    intro ops
    induction ops with
    | nil => intro x _ _; rfl
    | cons op ops ih =>
      intro x hn hr
      simp only [run]
      rw [ih _ (fun o ho => hn o (by simp [ho])) (by rw [step_resetKey, hr])]
      exact step_key_of_ne_reseed prim hs x op (hn op (by simp)) (by simp [hr])
  rw [reset_eq_iff prim hs _ _ ⟨rfl, rfl, rfl⟩, run_seedTail, run_resetKey]
  refine ⟨?_, rfl, rfl⟩
  have hr : (new hs false seed).resetKey = none := rfl
  rw [hr]
  simp only [Option.getD_none]
  exact hkey ops _ hops rfl

/-- A primitive whose stream tells keys apart (every byte = first key byte + 1). -/
def keyEcho : Prim := fun k _ => ⟨fun _ => k.headD 0 + 1⟩

/-- Counter-history for the model as coded (blake2xb, `hs = 64`): `New(100 zero bytes); Read(16);
    Reseed(); Reset()` does not return to the initial state, and the next `Read(16)` differs from the
    first 16 bytes of a fresh `New(seed)`. -/
theorem reset_after_reseed_counter :
    (run keyEcho 64 (new 64 false (List.replicate 100 0)) [.read 16, .reseed, .reset]).1
        ≠ new 64 false (List.replicate 100 0) ∧
    (run keyEcho 64 (new 64 false (List.replicate 100 0)) [.read 16, .reseed, .reset, .read 16]).2.getLast?
        ≠ (run keyEcho 64 (new 64 false (List.replicate 100 0)) [.read 16]).2.getLast? := by
  decide +kernel

/-- `Clone` as coded drops the retained seed, so `Reset` of a clone is NOT claimed: a clone of a fresh
    keccak XOF resets to the empty sponge. -/
theorem clone_reset_differs :
    (step keyEcho 0 (clone (new 0 false [1, 2, 3])) .reset).1 ≠ (step keyEcho 0 (new 0 false [1, 2, 3]) .reset).1 := by
  decide

end Kyber.Xof

namespace Kyber.Random
open Kyber.Scalar Kyber.Xof

/-! ### `random.Bits` -/

/-- `Bits(n, exact)` on `n ≥ 1` never panics, returns `⌈n/8⌉` bytes and a value `< 2^n`; when exact the
    value is `≥ 2^(n-1)`, i.e. it has exactly `n` bits. Holds for the code as it stands and repaired. -/
theorem bits_range (g : Bool) (n : Nat) (exact : Bool) (raw : Bytes) (hn : 1 ≤ n)
    (hlen : raw.length = bitsLen n) :
    ∃ b, bits g n exact raw = some b ∧ b.length = bitsLen n ∧ decodeBE b < 2 ^ n ∧
      (exact = true → 2 ^ (n - 1) ≤ decodeBE b) := by
  obtain ⟨t, rest, hb, hrest, hlt, hge, _⟩ := bits_pos g n exact raw hn hlen
  have hsplit := bitlen_split n hn
  have htb := topBits_bounds n
  have hnb : 1 ≤ bitsLen n := by unfold bitsLen; omega
  refine ⟨t :: rest, hb, by simp [hrest]; omega, ?_, ?_⟩
  · have := decodeBE_top_lt t rest _ hlt
    rw [hrest, ← two_pow_split, ← hsplit] at this
    exact this
  · intro he
    have := decodeBE_top_ge t rest _ (hge he)
    rw [hrest, ← two_pow_split] at this
    have he : 8 * (bitsLen n - 1) + (topBits n - 1) = n - 1 := by omega
    rwa [he] at this

/-- Non-exact `Bits` of any length (including 0) returns a value `< 2^n` and never panics. -/
theorem bits_lt (g : Bool) (n : Nat) (raw : Bytes) (hlen : raw.length = bitsLen n) :
    ∃ b, bits g n false raw = some b ∧ decodeBE b < 2 ^ n := by
  by_cases hn : 1 ≤ n
  · obtain ⟨b, h1, _, h3, _⟩ := bits_range g n false raw hn hlen
    exact ⟨b, h1, h3⟩
  · have : n = 0 := by omega
    subst this
    have : raw = [] := by simpa [bitsLen] using hlen
    subst this
    refine ⟨[], ?_, by simp [decodeBE]⟩
    rw [bits_zero]; cases g <;> rfl

/-- The only panic of `Bits` AS CODED: `bitlen = 0` with `exact` (index into an empty slice). -/
theorem bits_panics_iff (n : Nat) (exact : Bool) (raw : Bytes) (hlen : raw.length = bitsLen n) :
    bits false n exact raw = none ↔ (n = 0 ∧ exact = true) := by
  by_cases hn : 1 ≤ n
  · obtain ⟨b, h1, _⟩ := bits_range false n exact raw hn hlen
    simp [h1]; omega
  · have : n = 0 := by omega
    subst this
    have : raw = [] := by simpa [bitsLen] using hlen
    subst this
    rw [bits_zero]; cases exact <;> simp

/-- The repaired `Bits` (fixes/C19-bits-zero-exact.patch) never panics, and `Bits(0, exact)` is the
    empty string — the value with bit length 0. -/
theorem bits_repaired_total (n : Nat) (exact : Bool) (raw : Bytes) (hlen : raw.length = bitsLen n) :
    ∃ b, bits true n exact raw = some b ∧ decodeBE b < 2 ^ n := by
  by_cases hn : 1 ≤ n
  · obtain ⟨b, h1, _, h3, _⟩ := bits_range true n exact raw hn hlen
    exact ⟨b, h1, h3⟩
  · have : n = 0 := by omega
    subst this
    exact ⟨[], by simp [bits], by simp [decodeBE]⟩

/-! ### `random.Int` -/

/-- `Int(m)` returns a value below the modulus. -/
theorem int_lt (q : Nat) (s : Bytes) (v n : Nat) (h : int q s = some (v, n)) : v < q :=
  pick_lt q s v n h

/-- `Int` is a function of the stream bytes it consumed. -/
theorem int_prefix (q : Nat) (s t : Bytes) (v n : Nat) (h : int q s = some (v, n)) :
    int q (s.take n ++ t) = some (v, n) :=
  pick_prefix q s t v n h

/-- `Int` draws `Bits(bitLen q, false)` candidates: the candidate the sampler decodes from a block is
    the value of `random.Bits` on that block. -/
theorem int_candidate_is_bits (g : Bool) (q : Nat) (block : Bytes) (hlen : block.length = bitsLen (bitLen q)) :
    (bits g (bitLen q) false block).map decodeBE = some (decodeBE (maskBits (bitLen q) block)) := by
  rw [bits_eq_maskBits g _ _ hlen]; rfl

/-- `Int` is rejection sampling: the first candidate below `q`, having consumed `(index+1)·nb` bytes. -/
theorem int_is_first_below (q : Nat) (s : Bytes) :
    int q s = (firstBelow q (cands (bitsLen (bitLen q)) (bitLen q) s)).map
      (fun r => (r.1, (r.2 + 1) * bitsLen (bitLen q))) := by
  have := pickAux_eq_firstBelow q ((bitLen q + 7) / 8) (bitLen q) s 0
  simpa [int, pick, bitsLen] using this

/-- No bias before rejection: a candidate is the raw block value reduced modulo `2^bitLen`, and
    `2^bitLen` divides the number of raw blocks, so every candidate value has equally many blocks. -/
theorem int_candidate_unbiased (bl : Nat) (block : Bytes) (hlen : block.length = bitsLen bl) :
    decodeBE (maskBits bl block) = decodeBE block % 2 ^ bl ∧ 2 ^ bl ∣ 256 ^ bitsLen bl :=
  ⟨maskBits_decode bl block hlen, two_pow_dvd_blocks bl⟩

/-- Uniformity (counting form): among all sequences of `j` candidates from `[0, N)`, the number that make
    the sampler return `v` at attempt `i` is the same for every `v < q` — no modulo bias. -/
theorem int_uniform_count (N q j i v w : Nat) (hv : v < q) (hw : w < q) (hq : q ≤ N) :
    Fintype.card {c : Fin j → Fin N // firstBelow q (List.ofFn (fun k => (c k).val)) = some (v, i)} =
    Fintype.card {c : Fin j → Fin N // firstBelow q (List.ofFn (fun k => (c k).val)) = some (w, i)} := by
  have hvN : v < N := by omega
  have hwN : w < N := by omega
  let σN : Equiv.Perm (Fin N) := Equiv.swap ⟨v, hvN⟩ ⟨w, hwN⟩
  let e : (Fin j → Fin N) ≃ (Fin j → Fin N) := (Equiv.refl (Fin j)).arrowCongr σN
  apply Fintype.card_congr
  apply Equiv.subtypeEquiv e
  intro c
  have hmap : List.ofFn (fun k => ((e c) k).val)
      = (List.ofFn (fun k => (c k).val)).map (Equiv.swap v w) := by
    rw [List.map_ofFn]
    congr 1
    funext k
    simp only [e, σN, Equiv.arrowCongr_apply, Equiv.coe_refl, Function.comp, Equiv.refl_symm, id]
    exact swap_fin_val N v w hvN hwN (c k)
  rw [hmap, firstBelow_map q _ (swap_lt_iff q v w hv hw)]
  cases hfb : firstBelow q (List.ofFn fun k => (c k).val) with
  | none => simp
  | some r =>
    obtain ⟨a, i'⟩ := r
    simp only [Option.map_some, Option.some.injEq, Prod.mk.injEq]
    constructor
    · rintro ⟨h1, h2⟩; rw [h1]; exact ⟨Equiv.swap_apply_left v w, h2⟩
    · rintro ⟨h1, h2⟩
      refine ⟨?_, h2⟩
      have := congrArg (Equiv.swap v w) h1
      simpa using this

/-! ### the multi-reader random stream -/

/-- `randstream.XORKeyStream` panics iff every reader failed to deliver its 32 bytes (buffers of equal
    length) — it works as long as one reader does. -/
theorem stream_panics_iff (sha : Bytes → Bytes) (prim : Prim) (rs : List Bytes) (dl : Nat) (src : Bytes)
    (hlen : src.length = dl) :
    stream sha prim rs dl src = none ↔ ∀ r ∈ rs, r.length < readerBytes := by
  unfold stream
  have hx : ¬ dl < src.length := by omega
  simp only [hlen, ne_eq, not_true_eq_false, ↓reduceIte]
  by_cases ha : allFailed rs = true
  · simp only [ha, ↓reduceIte, true_iff]
    intro r hr
    have := List.all_eq_true.mp ha r hr
    simpa [failed] using this
  · simp only [ha, Bool.false_eq_true, ↓reduceIte]
    simp only [step, hx, ↓reduceIte]
    constructor
    · intro h; simp at h
    · intro h
      exfalso; apply ha
      apply List.all_eq_true.mpr
      intro r hr
      simpa [failed] using h r hr

/-- When it does not panic the stream is `src ⊕` the BLAKE2Xb output for the seed `SHA-256(bytes of all
    readers, in order)`. -/
theorem stream_value (sha : Bytes → Bytes) (prim : Prim) (rs : List Bytes) (src : Bytes)
    (h : allFailed rs = false) :
    stream sha prim rs src.length src =
      some (xorBytes src (readBytes prim (Xof.new 64 false (sha (seedInput rs))) src.length)) := by
  unfold stream
  simp [h, step, doRead]

/-- The stream is a function of the bytes actually read: replacing what each reader *could* deliver by
    the (at most 32) bytes `io.ReadFull` took from it changes nothing. -/
theorem stream_function_of_bytes_read (sha : Bytes → Bytes) (prim : Prim) (rs : List Bytes) (dl : Nat)
    (src : Bytes) : stream sha prim (rs.map readFull) dl src = stream sha prim rs dl src := by
  have h1 : allFailed (rs.map readFull) = allFailed rs := by
    simp only [allFailed, List.all_map]
    congr 1
    funext r
    exact failed_readFull r
  have h2 : seedInput (rs.map readFull) = seedInput rs := by
    simp only [seedInput, List.map_map]
    congr 2
    funext r
    exact readFull_idem r
  unfold stream
  rw [h1, h2]

/-- Every reader's bytes enter the hash: the SHA-256 input determines what was read from each reader
    (for reader outputs of given lengths), so no reader is dropped or overwritten. -/
theorem stream_uses_every_reader (rs rs' : List Bytes)
    (hlen : (rs.map readFull).map List.length = (rs'.map readFull).map List.length)
    (h : seedInput rs = seedInput rs') : rs.map readFull = rs'.map readFull :=
  flatten_injective_of_lengths _ _ hlen h

end Kyber.Random

/-! ### The hypotheses above are satisfiable; the model computes what the statements say -/
section Examples
open Kyber Kyber.Xof Kyber.Random

/-- a primitive that depends on key, absorbed data and position -/
def demoPrim : Prim := fun k a => ⟨fun i => UInt8.ofNat (k.length + 3 * a.length + i)⟩

example : outBytes (run demoPrim 64 (new 64 false [1, 2, 3]) [.read 2, .read 0, .read 3]).2
    = outBytes (run demoPrim 64 (new 64 false [1, 2, 3]) [.read 5]).2 := by decide
example : NoReset [Op.read 3, .write [1], .reseed, .write [2], .xor 4 [9, 9, 9, 9]] := by simp [NoReset]
example : NoReseed [Op.read 3, .write [1], .reset, .write [2]] := by simp [NoReseed]
example : (run demoPrim 32 (new 32 false [5]) [.read 1, .write [1], .reseed, .write [1]]).2
    = [.bytes [1], .panic, .unit, .unit] := by decide
example : bits false 0 true [] = none := by decide
example : bits true 0 true [] = some [] := by decide
example : bits false 9 true [0xff, 0x00] = some [0x01, 0x00] := by decide
example : bits false 9 false [0xfe, 0x80] = some [0x00, 0x80] := by decide
example : firstBelow 3 [3, 0] = some (0, 1) := by decide
example : Fintype.card {c : Fin 2 → Fin 4 // firstBelow 3 (List.ofFn (fun k => (c k).val)) = some (2, 1)} = 1 := by
  decide
example : stream (fun b => b) demoPrim [[1, 2], List.replicate 32 7] 2 [0, 0] ≠ none := by decide
example : stream (fun b => b) demoPrim [[1, 2], []] 2 [0, 0] = none := by decide

end Examples
