import KyberModel.Props.C11RabinDkg2
import KyberModel.Lib.VssOrder
/-
C11 — Rabin DKG, "when everyone is honest": a node's OWN deal. After `Deals()` has processed the own deal and the
approvals of all other participants have arrived (any order, with duplicates), the node is in its own `QUAL()` and its
VSS dealer is certified — so `SecretCommits()` succeeds and the node can enter the second phase.
-/
namespace Kyber.RabinDkg
open Kyber.Vss

/-- State of the node's VSS dealer in an all-honest run (it never holds a deal). -/
structure GoodD (cfg : Cfg) (t sid : Nat) (b : Agg) : Prop where
  bad : b.badDealer = false
  t : b.t = t
  sid : b.sid = some sid
  all : ∀ p ∈ b.responses, p.2 = true
  inv : Inv cfg b

theorem goodD_add (cfg : Cfg) (t sid j : Nat) (b : Agg) (hg : GoodD cfg t sid b) :
    ∃ b', (match addResponse cfg b j true with | .ok x => x | .error _ => b) = b' ∧ GoodD cfg t sid b' ∧
      (∀ k, k ∈ b.responses.map Prod.fst → k ∈ b'.responses.map Prod.fst) ∧
      (j < cfg.n → j ∈ b'.responses.map Prod.fst) := by
  unfold addResponse
  by_cases hj : cfg.n ≤ j
  · simp only [hj, decide_true, if_true]
    exact ⟨b, rfl, hg, fun k hk => hk, fun h => by omega⟩
  · simp only [hj, decide_false, Bool.false_eq_true, if_false]
    cases hl : b.responses.lookup j with
    | some x =>
      simp only [Option.isSome_some, if_true]
      exact ⟨b, rfl, hg, fun k hk => hk, fun _ => (lookup_isSome_iff_mem_keys _ _).mp (by rw [hl]; rfl)⟩
    | none =>
      simp only [Option.isSome_none, Bool.false_eq_true, if_false]
      refine ⟨_, rfl, ⟨hg.bad, hg.t, hg.sid, ?_, inv_append true (by omega) hl hg.inv⟩, ?_, ?_⟩
      · intro p hp
        rcases List.mem_append.mp hp with hp | hp
        · exact hg.all p hp
        · simp only [List.mem_singleton] at hp; subst hp; rfl
      · intro k hk; simp only [List.map_append, List.mem_append]; exact Or.inl hk
      · intro _; simp

/-- The dealer records an approving, correctly signed response of its session. -/
theorem goodD_response (cfg : Cfg) (hv : cfg.variant = .rabin) (t sid j : Nat) (b : Agg) (hg : GoodD cfg t sid b) :
    ∃ b', (Vss.step cfg ⟨.dealer, some b⟩ (.response sid j true true)).1 = ⟨.dealer, some b'⟩ ∧ GoodD cfg t sid b' ∧
      (∀ k, k ∈ b.responses.map Prod.fst → k ∈ b'.responses.map Prod.fst) ∧
      (j < cfg.n → j ∈ b'.responses.map Prod.fst) := by
  obtain ⟨b', hb', g', m', n'⟩ := goodD_add cfg t sid j b hg
  have hsid : respSidOk cfg b sid = true := by
    unfold respSidOk; rw [hg.sid, hv]; simp
  refine ⟨b', ?_, g', m', n'⟩
  simp only [Vss.step]
  unfold verifyResponse
  simp only [hsid, Bool.not_true, Bool.false_eq_true, if_false]
  by_cases hj : cfg.n ≤ j
  · have : b' = b := by
      rw [← hb']; unfold addResponse; simp [hj]
    simp [hj, this]
  · simp only [hj, decide_false, Bool.false_eq_true, if_false]
    cases hadd : addResponse cfg b j true with
    | error e => rw [hadd] at hb'; simp only at hb'; rw [← hb']
    | ok x => rw [hadd] at hb'; simp only at hb'; rw [← hb']

theorem goodD_unsafeSet (cfg : Cfg) (hv : cfg.variant = .rabin) (t sid j : Nat) (b : Agg) (hg : GoodD cfg t sid b) :
    ∃ b', (Vss.step cfg ⟨.dealer, some b⟩ (.unsafeSet j true)).1 = ⟨.dealer, some b'⟩ ∧ GoodD cfg t sid b' ∧
      (∀ k, k ∈ b.responses.map Prod.fst → k ∈ b'.responses.map Prod.fst) ∧
      (j < cfg.n → j ∈ b'.responses.map Prod.fst) := by
  obtain ⟨b', hb', g', m', n'⟩ := goodD_add cfg t sid j b hg
  refine ⟨b', ?_, g', m', n'⟩
  have hc : (cfg.variant == Variant.pedersen && Role.dealer == Role.dealer) = false := by rw [hv]; rfl
  simp only [Vss.step, hc, Bool.false_eq_true, if_false]
  cases hadd : addResponse cfg b j true with
  | error e => rw [hadd] at hb'; simp only at hb'; rw [← hb']
  | ok x => rw [hadd] at hb'; simp only at hb'; rw [← hb']

theorem goodD_full_certified (cfg : Cfg) (hv : cfg.variant = .rabin) (t sid : Nat) (b : Agg) (hg : GoodD cfg t sid b)
    (hT : validT t cfg.n = true) (hfull : ∀ i < cfg.n, i ∈ b.responses.map Prod.fst) :
    dealCertified cfg b = true := by
  have htrue : ∀ i < cfg.n, b.responses.lookup i = some true := by
    intro i hi
    have := (lookup_isSome_iff_mem_keys _ _).mpr (hfull i hi)
    cases hl : b.responses.lookup i with
    | none => rw [hl] at this; cases this
    | some x =>
      have := hg.all _ (mem_of_lookup_eq_some hl)
      simp only at this; rw [this]
  have hT' : 2 ≤ t ∧ t ≤ cfg.n := by simpa [validT] using hT
  have habs : countAbsent b cfg.n = 0 := by
    unfold countAbsent
    rw [List.length_eq_zero_iff, List.filter_eq_nil_iff]
    intro i hi
    rw [htrue i (List.mem_range.mp hi)]; simp
  have happ : countApproved b cfg.n = cfg.n := by
    unfold countApproved
    rw [List.filter_eq_self.mpr, List.length_range]
    intro i hi
    rw [htrue i (List.mem_range.mp hi)]; simp
  unfold dealCertified
  rw [hv]
  have hen : enoughApprovals cfg b = true := by
    unfold enoughApprovals
    simp only [hg.t, hT, Bool.not_true, Bool.and_false, Bool.not_false, Bool.true_and, decide_eq_true_eq]
    have := countApproved_le_approvedEntries b cfg.n
    omega
  simp [hen, habs, hg.bad]

theorem keys_addResponse {cfg : Cfg} {a a' : Agg} {j : Nat} {ap : Bool} (h : addResponse cfg a j ap = .ok a') (k : Nat)
    (hk : k ∈ a'.responses.map Prod.fst) : k ∈ a.responses.map Prod.fst ∨ k = j := by
  obtain ⟨_, _, rfl⟩ := addResponse_ok h
  simp only [List.map_append, List.mem_append, List.map_cons, List.map_nil, List.mem_singleton] at hk
  exact hk

/-- Processing the first deal adds at most the verifier's own slot. -/
theorem keys_processDealOn (cfg : Cfg) (me : Nat) (a0 : Agg) (d : Deal) (k : Nat)
    (hk : k ∈ (processDealOn cfg me a0 d).1.responses.map Prod.fst) : k ∈ a0.responses.map Prod.fst ∨ k = me := by
  unfold processDealOn at hk
  split at hk
  · rename_i a' heq
    have : a'.responses = a0.responses := by
      have := verifyDeal_responses cfg a0 d true; rw [heq] at this; exact this
    rw [this] at hk; exact Or.inl hk
  · rename_i a' e hne heq
    have hr : a'.responses = a0.responses := by
      have := verifyDeal_responses cfg a0 d true; rw [heq] at this; exact this
    split at hk
    · rw [hr] at hk; exact Or.inl hk
    · rename_i a'' hadd
      rcases keys_addResponse hadd k hk with h | h
      · rw [hr] at h; exact Or.inl h
      · exact Or.inr h

/-- The fresh Rabin verifier after its first (own-index) deal holds at most its own slot. -/
theorem keys_after_first_deal (cfg : Cfg) (hv : cfg.variant = .rabin) (me : Nat) (d : Deal) (a1 : Agg)
    (h : (Vss.step cfg (newVerifier cfg me) (.encDeal true true d)).1 = ⟨.verifier me, some a1⟩) (k : Nat)
    (hk : k ∈ a1.responses.map Prod.fst) : k = me := by
  have hnv : newVerifier cfg me = ⟨.verifier me, none⟩ := by unfold newVerifier; rw [hv]
  rw [hnv] at h
  simp only [Vss.step, Bool.not_true, Bool.false_eq_true, if_false, Vss.processDeal] at h
  by_cases hi : (d.i != me) = true
  · simp [hi] at h
  · simp only [hi, Bool.false_eq_true, if_false] at h
    injection h with _ h2
    have h3 := Option.some.inj h2
    rw [← h3] at hk
    rcases keys_processDealOn cfg me _ d k hk with h | h
    · simp [baseAgg, aggOfDeal] at h
    · exact h

theorem keys_unsafeSet (cfg : Cfg) (me j : Nat) (ap : Bool) (a a2 : Agg)
    (h : (Vss.step cfg ⟨.verifier me, some a⟩ (.unsafeSet j ap)).1 = ⟨.verifier me, some a2⟩) (k : Nat)
    (hk : k ∈ a2.responses.map Prod.fst) : k ∈ a.responses.map Prod.fst ∨ k = j := by
  simp only [Vss.step] at h
  split at h
  · injection h with _ h2; rw [← Option.some.inj h2] at hk; exact Or.inl hk
  · split at h
    · injection h with _ h2; rw [← Option.some.inj h2] at hk; exact Or.inl hk
    · rename_i a' hadd
      injection h with _ h2
      rw [← Option.some.inj h2] at hk
      exact keys_addResponse hadd k hk

theorem vss_dealer_response_ok_or_same (cfg : Cfg) (b : Agg) (sid j : Nat) (sg : Bool) :
    (Vss.step cfg ⟨.dealer, some b⟩ (.response sid j true sg)).2 = .ok ∨
    (Vss.step cfg ⟨.dealer, some b⟩ (.response sid j true sg)).1 = ⟨.dealer, some b⟩ := by
  simp only [Vss.step]
  split
  · exact Or.inr rfl
  · exact Or.inl rfl

theorem keys_respOp (cfg : Cfg) (a : Agg) (r : Resp) (k : Nat)
    (h : k ∈ (respOp cfg a r).responses.map Prod.fst) : k ∈ a.responses.map Prod.fst ∨ (k = r.idx ∧ r.idx < cfg.n) := by
  rw [respOp_eq] at h
  by_cases hacc : acc cfg a r = true
  · rw [if_pos hacc] at h
    simp only [List.map_append, List.mem_append, List.map_cons, List.map_nil, List.mem_singleton] at h
    rcases h with h | h
    · exact Or.inl h
    · right
      refine ⟨h, ?_⟩
      unfold acc at hacc
      simp only [Bool.and_eq_true, decide_eq_true_eq] at hacc
      exact hacc.1.2
  · rw [if_neg hacc] at h; exact Or.inl h

/-- One approval about the node's own deal: it reaches the own verifier and, if recorded there, the dealer. -/
theorem response_own (cfg : Cfg) (hv : cfg.variant = .rabin) (nd : Node) (sid td j : Nat) (a b : Agg)
    (hl : nd.verifiers.lookup nd.me = some ⟨.verifier nd.me, some a⟩) (hd : nd.dealer = ⟨.dealer, some b⟩)
    (hga : Good cfg td sid a) (hgb : GoodD cfg td sid b)
    (hsub : ∀ k, k ∈ a.responses.map Prod.fst → k ∈ b.responses.map Prod.fst) :
    ∃ a' b', (step cfg nd (.response nd.me sid j true true none)).1.verifiers.lookup nd.me =
        some ⟨.verifier nd.me, some a'⟩ ∧
      (step cfg nd (.response nd.me sid j true true none)).1.dealer = ⟨.dealer, some b'⟩ ∧
      Good cfg td sid a' ∧ GoodD cfg td sid b' ∧
      (∀ k, k ∈ a.responses.map Prod.fst → k ∈ a'.responses.map Prod.fst) ∧
      (∀ k, k ∈ a'.responses.map Prod.fst → k ∈ b'.responses.map Prod.fst) ∧
      (j < cfg.n → j ∈ a'.responses.map Prod.fst) := by
  obtain ⟨a1, ha1, ga1, ma1, na1⟩ := good_response cfg td sid nd.me j a hga
  obtain ⟨b1, hb1, gb1, mb1, nb1⟩ := goodD_response cfg hv td sid j b hgb
  have hcase := vss_response_ok_or_same cfg nd.me a sid j true true
  have hcase2 := vss_dealer_response_ok_or_same cfg b sid j true
  have hresp := step_response_agg cfg nd.me a ⟨sid, j, true, true⟩ (Or.inl hv)
  simp only at hresp
  have ha1' : a1 = respOp cfg a ⟨sid, j, true, true⟩ := by
    rw [ha1] at hresp
    injection hresp with _ h2
    exact Option.some.inj h2
  have hkeys : ∀ k, k ∈ a1.responses.map Prod.fst → k ∈ b1.responses.map Prod.fst := by
    intro k hk
    rw [ha1'] at hk
    rcases keys_respOp cfg a _ k hk with h | ⟨h, hlt⟩
    · exact mb1 k (hsub k h)
    · rw [h]; exact nb1 hlt
  simp only [step, processResponse, hl]
  cases hstep : Vss.step cfg ⟨.verifier nd.me, some a⟩ (.response sid j true true) with
  | mk v' o =>
    rw [hstep] at hcase ha1
    simp only at hcase ha1
    have hnotok : o ≠ .ok → a1 = a := by
      intro hne
      rcases hcase with h | h
      · exact absurd h hne
      · rw [ha1] at h; injection h with _ h2; exact Option.some.inj h2
    cases hds : Vss.step cfg ⟨.dealer, some b⟩ (.response sid j true true) with
    | mk dl o2 =>
      rw [hds] at hcase2 hb1
      simp only at hcase2 hb1
      have hdl_same : o2 ≠ .ok → b1 = b := by
        intro hne
        rcases hcase2 with h | h
        · exact absurd h hne
        · rw [hb1] at h; injection h with _ h2; exact Option.some.inj h2
      cases o with
      | ok =>
        try simp only [bne_self_eq_false, Bool.false_eq_true, if_false]
        rw [hd, hds]
        have hlook : (setV nd.verifiers nd.me v').lookup nd.me = some v' := by
          rw [lookup_setV]; simp [hl]
        cases o2 with
        | ok => exact ⟨a1, b1, by simp only; rw [hlook, ha1], by simp only; rw [hb1], ga1, gb1, ma1, hkeys, na1⟩
        | justif =>
          exact ⟨a1, b1, by simp only; rw [hlook, ha1], by simp only; rw [hb1], ga1, gb1, ma1, hkeys, na1⟩
        | _ =>
          have hb := hdl_same (by simp)
          exact ⟨a1, b1, by simp only; rw [hlook, ha1], by simp only; rw [hb], ga1, gb1, ma1, hkeys, na1⟩
      | _ =>
        have ha := hnotok (by simp)
        subst ha
        exact ⟨a1, b, by simp only; exact hl, by simp only; exact hd, hga, hgb, fun k hk => hk, hsub, na1⟩

/-- **The node's own deal.** `Deals()` processes the own (honest) deal; the approvals of all other participants
about it arrive in any order, with duplicates: the node is in its own `QUAL()` and its VSS dealer is certified, so
`SecretCommits()` succeeds. -/
theorem own_dealer_certified (cfg : Cfg) (hv : cfg.variant = .rabin) (hq : 0 < cfg.q) (nd : Node) (sid td : Nat)
    (f g : List Nat) (hlen : f.length = g.length) (hT : validT td cfg.n = true) (hme : nd.me < cfg.n)
    (hwf : WF cfg nd.me nd) (hfresh : nd.verifiers.lookup nd.me = none) (hdl : nd.dealer = newDealer td sid)
    (js : List Nat) (hjs : ∀ j < cfg.n, j ≠ nd.me → j ∈ js) (cs : List Nat) :
    let nd' := run cfg nd (.ownDeal (honestDeal cfg sid td f g nd.me) ::
      js.map (fun j => Op.response nd.me sid j true true none))
    nd.me ∈ qual cfg nd' ∧ Vss.certified cfg nd'.dealer = true ∧ (step cfg nd' (.secretCommits cs)).2 = .ok := by
  intro nd'
  obtain ⟨happ, a1, ha1, hg1, hm1⟩ := honest_deal_good cfg hq nd.me td sid f g (fun _ => hlen) hT hme
  obtain ⟨a2, ha2, hg2, hm2, _⟩ := good_unsafeSet cfg td sid nd.me nd.me a1 hg1
  -- the dealer after `UnsafeSetResponseDKG(me, true)`
  have hgb0 : GoodD cfg td sid { t := td, sid := some sid } :=
    ⟨rfl, rfl, rfl, fun p hp => by simp at hp, inv_empty _ _ rfl⟩
  obtain ⟨b1, hb1, hgb1, _, hnb1⟩ := goodD_unsafeSet cfg hv td sid nd.me _ hgb0
  -- the own deal
  have hown : (step cfg nd (.ownDeal (honestDeal cfg sid td f g nd.me))).1 =
      { nd with verifiers := nd.verifiers ++ [(nd.me, ⟨.verifier nd.me, some a2⟩)], dealer := ⟨.dealer, some b1⟩ } := by
    simp only [step, ownDeal, hfresh, Option.isSome_none, Bool.false_eq_true, if_false, processDeal]
    rw [if_neg (by simpa using hme)]
    have hpair : Vss.step cfg (newVerifier cfg nd.me) (.encDeal true true (honestDeal cfg sid td f g nd.me)) =
        (⟨.verifier nd.me, some a1⟩, .approve) := Prod.ext ha1 happ
    rw [hpair]
    simp only
    rw [ha2, hdl]
    have : newDealer td sid = ⟨.dealer, some { t := td, sid := some sid }⟩ := rfl
    rw [this, hb1]
  -- the approvals
  have hinv : ∀ (m : Nat) (js : List Nat) (x : Node) (a b : Agg), x.me = m → WF cfg m x →
      x.verifiers.lookup m = some ⟨.verifier m, some a⟩ → x.dealer = ⟨.dealer, some b⟩ →
      Good cfg td sid a → GoodD cfg td sid b →
      (∀ k, k ∈ a.responses.map Prod.fst → k ∈ b.responses.map Prod.fst) →
      ∃ a' b', (run cfg x (js.map (fun j => Op.response m sid j true true none))).verifiers.lookup m =
          some ⟨.verifier m, some a'⟩ ∧
        (run cfg x (js.map (fun j => Op.response m sid j true true none))).dealer = ⟨.dealer, some b'⟩ ∧
        Good cfg td sid a' ∧ GoodD cfg td sid b' ∧
        (∀ k, k ∈ a.responses.map Prod.fst → k ∈ a'.responses.map Prod.fst) ∧
        (∀ k, k ∈ a'.responses.map Prod.fst → k ∈ b'.responses.map Prod.fst) ∧
        (∀ j ∈ js, j < cfg.n → j ∈ a'.responses.map Prod.fst) ∧
        WF cfg m (run cfg x (js.map (fun j => Op.response m sid j true true none))) := by
    intro m js
    induction js with
    | nil => intro x a b _ hw hl hd ha hb hs; exact ⟨a, b, hl, hd, ha, hb, fun k hk => hk, hs, fun j hj => (by cases hj), hw⟩
    | cons j js ih =>
      intro x a b hxme hw hl hd ha hb hs
      subst hxme
      obtain ⟨a', b', h1, h2, g1, g2, m1, s1, n1⟩ := response_own cfg hv x sid td j a b hl hd ha hb hs
      have h3 := (step_me cfg x (.response x.me sid j true true none)).1
      obtain ⟨a'', b'', k1, k2, g1', g2', m2, s2, n2, w2⟩ :=
        ih (step cfg x (.response x.me sid j true true none)).1 a' b' h3 (wf_step hw _) h1 h2 g1 g2 s1
      refine ⟨a'', b'', by simpa [run_cons] using k1, by simpa [run_cons] using k2, g1', g2', fun k hk => m2 k (m1 k hk),
        s2, ?_, by simpa [run_cons] using w2⟩
      intro j' hj' hlt
      rcases List.mem_cons.mp hj' with rfl | hj'
      · exact m2 _ (n1 hlt)
      · exact n2 j' hj' hlt
  have hwf1 := wf_step hwf (.ownDeal (honestDeal cfg sid td f g nd.me))
  rw [hown] at hwf1
  have hl1 : ({ nd with verifiers := nd.verifiers ++ [(nd.me, ⟨.verifier nd.me, some a2⟩)], dealer := ⟨.dealer, some b1⟩ } : Node).verifiers.lookup nd.me =
      some ⟨.verifier nd.me, some a2⟩ := by
    simp only [lookup_append_new, hfresh, if_true]
  have hsub0 : ∀ k, k ∈ a2.responses.map Prod.fst → k ∈ b1.responses.map Prod.fst := by
    intro k hk
    have hkme : k = nd.me := by
      rcases keys_unsafeSet cfg nd.me nd.me true a1 a2 ha2 k hk with h | h
      · exact keys_after_first_deal cfg hv nd.me _ a1 ha1 k h
      · exact h
    rw [hkme]; exact hnb1 hme
  obtain ⟨a3, b3, hl3, hd3, hg3, hgb3, hm3, hs3, hn3, hwf3⟩ :=
    hinv nd.me js { nd with verifiers := nd.verifiers ++ [(nd.me, ⟨.verifier nd.me, some a2⟩)], dealer := ⟨.dealer, some b1⟩ }
      a2 b1 rfl hwf1 hl1 rfl hg2 hgb1 hsub0
  have hnd' : nd' = run cfg { nd with verifiers := nd.verifiers ++ [(nd.me, ⟨.verifier nd.me, some a2⟩)], dealer := ⟨.dealer, some b1⟩ }
      (js.map (fun j => Op.response nd.me sid j true true none)) := by
    show run cfg nd _ = _
    rw [run_cons, hown]
  have hfull : ∀ i < cfg.n, i ∈ a3.responses.map Prod.fst := by
    intro i hi
    by_cases him : i = nd.me
    · subst him; exact hm3 _ (hm2 _ hm1)
    · exact hn3 i (hjs i hi him) hi
  have hcertD : Vss.certified cfg nd'.dealer = true := by
    rw [hnd', hd3]
    unfold Vss.certified
    simp only
    exact goodD_full_certified cfg hv td sid b3 hgb3 hT (fun i hi => hs3 i (hfull i hi))
  refine ⟨?_, hcertD, ?_⟩
  · rw [hnd']
    refine (qual_iff hwf3 nd.me).mpr ⟨_, hl3, ?_⟩
    unfold Vss.certified
    simp only
    exact good_full_certified cfg td sid a3 hg3 hT hfull
  · simp only [step, secretCommits, hcertD, Bool.not_true, Bool.false_eq_true, if_false]

end Kyber.RabinDkg
