import KyberModel.Proto.Vss
import KyberModel.Lib.VssLemmas
import KyberModel.Lib.VssAlgebra
import KyberModel.Lib.VssRun
import KyberModel.Props.C07
/-
C10 — VSS (Pedersen and Rabin): certified deals are recoverable; inconsistent deals are never approved.

Theorems about the executable model `Kyber.Vss` (Proto/Vss.lean — the definitions the driver runs and
the harness compares with share/vss/{pedersen,rabin} after every operation). "For every history" is
induction over arbitrary `List Op` from an initial participant (`newVerifier` / `newDealer`); the ops
include forged, duplicated, replayed and out-of-range messages (their authentication outcome is an
input boolean) in any order.

`cfg.strict = false` is the code as it stands; `cfg.strict = true` the code with
fixes/C10-justification-binding.patch and fixes/C10-certified-invalid-threshold.patch applied.
Statements that need the repairs say so; `justification_unbound_as_coded` and
`certified_without_deal_as_coded` exhibit the failures of the unrepaired code inside the model.
-/
namespace Kyber.Vss
open Kyber.Scalar Kyber.Share Polynomial

/-! ### 1. What `DealCertified` implies, for every history -/

/-- **Certification is sound, for every history.** Whatever operations (deals, responses,
justifications, timeouts, bypass calls — valid, forged, duplicated, in any order) a participant has
processed: if `DealCertified()` answers `true` then the dealer is not marked bad and at least `t`
*distinct* verifiers (indices `< n`) hold an approved slot — approved directly or a complaint lifted by
an accepted justification (see `approved_origin`). Pedersen: moreover no complaint is open, and nobody
is absent before the timeout / at most `n - t` (as `uint32`) are absent after it. Rabin: nobody is
absent (`SetTimeout` turns absents into complaints). Repaired code: `t` is a threshold in range. -/
theorem certified_sound (cfg : Cfg) (nd0 : Node) (h0 : Init cfg nd0) (ops : List Op)
    (hc : certified cfg (run cfg nd0 ops) = true) :
    ∃ a, (run cfg nd0 ops).agg = some a ∧ a.badDealer = false ∧ a.t ≤ countApproved a cfg.n ∧
      (cfg.variant = .pedersen → anyComplaint a cfg.n = false ∧
        (a.timeout = false → countAbsent a cfg.n = 0) ∧
        (a.timeout = true → countAbsent a cfg.n ≤ sub32 cfg.n a.t)) ∧
      (cfg.variant = .rabin → countAbsent a cfg.n = 0) ∧
      (cfg.strict = true → validT a.t cfg.n = true) := by
  have hwf := wf_run (wf_init h0) ops
  unfold certified at hc
  cases hagg : (run cfg nd0 ops).agg with
  | none => rw [hagg] at hc; cases hc
  | some a =>
    rw [hagg] at hc
    simp only at hc
    obtain ⟨hnd, hlt⟩ := hwf a hagg
    refine ⟨a, rfl, ?_⟩
    unfold dealCertified at hc
    cases hv : cfg.variant with
    | pedersen =>
      rw [hv] at hc
      simp only at hc
      split at hc
      · cases hc
      · rename_i hstrict
        have hst : cfg.strict = true → validT a.t cfg.n = true := by
          intro hs; simpa [hs] using hstrict
        split at hc
        · rename_i hto
          simp only [Bool.and_eq_true, Bool.not_eq_true', decide_eq_true_eq, decide_eq_false_iff_not, not_lt] at hc
          obtain ⟨⟨⟨hb, hen⟩, hco⟩, hab⟩ := hc
          refine ⟨hb, hen, fun _ => ⟨hco, ?_, fun _ => hab⟩, ?_, hst⟩
          · intro h; rw [hto] at h; cases h
          · intro h; cases h
        · rename_i hto
          simp only [Bool.and_eq_true, Bool.not_eq_true', decide_eq_true_eq] at hc
          obtain ⟨⟨⟨hb, hen⟩, hco⟩, hab⟩ := hc
          refine ⟨hb, hen, fun _ => ⟨hco, fun _ => hab, ?_⟩, ?_, hst⟩
          · intro h; exact absurd h hto
          · intro h; cases h
    | rabin =>
      rw [hv] at hc
      simp only [Bool.and_eq_true, Bool.not_eq_true', Bool.or_eq_false_iff, decide_eq_false_iff_not, not_lt,
        Nat.le_zero_eq] at hc
      obtain ⟨hen, hab, hb⟩ := hc
      unfold enoughApprovals at hen
      simp only [Bool.and_eq_true, Bool.not_eq_true', decide_eq_true_eq] at hen
      obtain ⟨hstrict, hen⟩ := hen
      refine ⟨hb, le_trans hen (approvedEntries_le_countApproved a cfg.n hnd hlt), ?_, fun _ => hab, ?_⟩
      · intro h; cases h
      · intro hs; simpa [hs] using hstrict

/-- **"Approved or justified".** In every history from a fresh participant, an approved slot `i` is
backed by an operation of that history: the verifier's own approval of its decrypted deal (`i` is the
verifier itself), an accepted approving response carrying a valid signature of verifier `i`, the DKG
bypass `UnsafeSetResponseDKG(i, true)`, or an accepted justification for index `i`. -/
theorem approved_origin (cfg : Cfg) (nd0 : Node) (h0 : Init cfg nd0) (ops : List Op) (a : Agg)
    (ha : (run cfg nd0 ops).agg = some a) (i : Nat) (hi : a.responses.lookup i = some true) :
    ∃ e ∈ (runTrace cfg nd0 ops).2, AddsApproval nd0.role i e.1 e.2 ∨ Justifies i e.1 e.2 := by
  rcases approved_origin_from cfg nd0 ops a ha i hi with ⟨a0, h1, h2⟩ | h
  · exfalso
    rcases h0 with ⟨me, rfl⟩ | ⟨t, sid, rfl⟩
    · unfold newVerifier at h1
      cases hv : cfg.variant <;> simp [hv] at h1
      subst h1; simp at h2
    · simp [newDealer] at h1; subst h1; simp at h2
  · exact h

/-! ### 2. `badDealer` is monotone; 3. a slot is written once -/

/-- **Bad for good.** Once the dealer is marked bad it stays bad under every continuation. -/
theorem badDealer_monotone (cfg : Cfg) (nd : Node) (a : Agg) (h : nd.agg = some a) (hb : a.badDealer = true)
    (ops : List Op) : ∃ a', (run cfg nd ops).agg = some a' ∧ a'.badDealer = true ∧ certified cfg (run cfg nd ops) = false := by
  obtain ⟨a', h1, h2⟩ := run_ext cfg nd a h ops
  refine ⟨a', h1, h2.bad hb, ?_⟩
  unfold certified; rw [h1]
  simp only [dealCertified]
  have := h2.bad hb
  cases cfg.variant <;> simp [this]

/-- **A response slot is written at most once.** A filled slot is never emptied or overwritten by any
continuation (duplicates, equivocating responses, bypass calls, timeouts …); the only change it can
undergo is complaint → approval. -/
theorem slot_written_once (cfg : Cfg) (nd : Node) (a : Agg) (h : nd.agg = some a) (i : Nat) (b : Bool)
    (hb : a.responses.lookup i = some b) (ops : List Op) :
    ∃ a', (run cfg nd ops).agg = some a' ∧
      (a'.responses.lookup i = some b ∨ (b = false ∧ a'.responses.lookup i = some true)) := by
  obtain ⟨a', h1, h2⟩ := run_ext cfg nd a h ops
  exact ⟨a', h1, h2.slot i b hb⟩

/-- … and a complaint turns into an approval only through an accepted justification for that index. -/
theorem complaint_lifted_only_by_justification (cfg : Cfg) (nd : Node) (op : Op) (a a' : Agg)
    (h : nd.agg = some a) (h' : (step cfg nd op).1.agg = some a') (i : Nat)
    (hb : a.responses.lookup i = some false) (ha : a'.responses.lookup i = some true) :
    Justifies i op (step cfg nd op).2 := by
  rcases step_slot_true cfg nd op a' h' i ha with ⟨a1, h1, h2⟩ | ⟨h1, _⟩ | ⟨_, _, _, h3⟩
  · rw [h] at h1; cases h1; rw [hb] at h2; cases h2
  · rw [h1 a h] at hb; cases hb
  · exact h3

/-- An honest dealer announces the session identifier its deal yields. -/
theorem honestDeal_sidBound (cfg : Cfg) (sid t : Nat) (f g : List Nat) (i : Nat) :
    sidBound cfg (honestDeal cfg sid t f g i) = true := by
  simp [sidBound, honestDeal]

/-! ### 4. A verifier approves a deal iff all coded conditions hold -/

/-- The conditions under which a verifier approves, as coded. -/
def DealAcceptable (cfg : Cfg) (me : Nat) (d : Deal) : Prop :=
  d.i = me ∧ validT d.t cfg.n = true ∧ (cfg.variant = .rabin → d.i = d.ri) ∧ d.i < cfg.n ∧ shareOk cfg d = true ∧
    sidBound cfg d = true

/-- **Approval is sound in every state.** Whatever a verifier has processed before, it answers an
encrypted deal with an approval only if the dealer's signature on the DH key verified, the AEAD opened
for this verifier, the share index is the verifier's own, the threshold is in `[2,n]`, (R) both shares
carry the same index, the share lies on the committed polynomial, and (repaired code) the deal announces the
session identifier its content yields. In every other case the outcome
is a complaint or an error (the outcome type has nothing else that yields a response). -/
theorem approve_sound (cfg : Cfg) (nd : Node) (sg opn : Bool) (d : Deal)
    (h : (step cfg nd (.encDeal sg opn d)).2 = .approve) :
    ∃ me, nd.role = .verifier me ∧ sg = true ∧ opn = true ∧ DealAcceptable cfg me d := by
  obtain ⟨role, agg⟩ := nd
  cases role with
  | dealer => simp [step] at h
  | verifier me =>
    simp only [step] at h
    split at h
    · cases h
    · rename_i hsg
      split at h
      · cases h
      · rename_i hop
        simp only at h
        unfold processDeal at h
        split at h
        · cases h
        · rename_i hidx
          simp only at h
          obtain ⟨_, h2, _, _, hsb⟩ := (processDealOn_approve_iff cfg me (baseAgg agg d) d).mp h
          obtain ⟨c1, _, _, c4, c5, c6⟩ := (checkDeal_eq_none_iff cfg _ d).mp h2
          refine ⟨me, rfl, by simpa using hsg, by simpa using hop, ?_, c1, c4, c5, c6, hsb⟩
          simpa using hidx

/-- **Approval, exactly.** A fresh verifier `me < n` approves the deal it decrypts iff the dealer's
signature is valid, the ciphertext opens for it, and the deal is acceptable. -/
theorem approve_iff_fresh (cfg : Cfg) (me : Nat) (sg opn : Bool) (d : Deal) :
    (step cfg (newVerifier cfg me) (.encDeal sg opn d)).2 = .approve ↔
      sg = true ∧ opn = true ∧ DealAcceptable cfg me d := by
  constructor
  · intro h
    obtain ⟨me', h1, h2, h3, h4⟩ := approve_sound cfg _ sg opn d h
    have : me' = me := by
      unfold newVerifier at h1; simp only [Role.verifier.injEq] at h1; exact h1.symm
    subst this
    exact ⟨h2, h3, h4⟩
  · rintro ⟨rfl, rfl, h1, h2, h3, h4, h5, h6⟩
    have hme : me < cfg.n := h1 ▸ h4
    have hne : (d.i != me) = false := by simp [h1]
    have key : ∀ agg0 : Option Agg,
        (agg0 = some {} ∧ cfg.variant = .pedersen) ∨ (agg0 = none ∧ cfg.variant = .rabin) →
        (processDealOn cfg me (baseAgg agg0 d) d).2 = .approve := by
      intro agg0 h
      rw [processDealOn_approve_iff, checkDeal_eq_none_iff]
      rcases h with ⟨rfl, hv⟩ | ⟨rfl, hv⟩
      · refine ⟨rfl, ⟨h2, fun _ => ?_, ?_, fun h => ?_, h4, h5⟩, hme, rfl, h6⟩
        · simp [baseAgg, adopt, hv]
        · simp [baseAgg, adopt]
        · rw [hv] at h; cases h
      · refine ⟨rfl, ⟨h2, fun h => ?_, ?_, fun _ => h3 hv, h4, h5⟩, hme, rfl, h6⟩
        · rw [hv] at h; cases h
        · simp [baseAgg, aggOfDeal, adopt]
    have hstep : ∀ agg0, (step cfg ⟨.verifier me, agg0⟩ (.encDeal true true d)).2 =
        (processDealOn cfg me (baseAgg agg0 d) d).2 := by
      intro agg0; simp [step, processDeal, hne]
    unfold newVerifier
    rw [hstep]
    cases hv : cfg.variant with
    | pedersen => exact key _ (Or.inl ⟨rfl, hv⟩)
    | rabin => exact key _ (Or.inr ⟨rfl, hv⟩)

/-- … in particular only if its share lies on the committed polynomial (identity in `ZMod q`). -/
theorem approve_on_committed (cfg : Cfg) (hq : 0 < cfg.q) (nd : Node) (sg opn : Bool) (d : Deal)
    (h : (step cfg nd (.encDeal sg opn d)).2 = .approve) : OnCommitted cfg d := by
  obtain ⟨_, _, _, _, _, _, _, _, h5, _⟩ := approve_sound cfg nd sg opn d h
  exact (shareOk_iff_onCommitted cfg hq d).mp h5

/-- Conversely a deal whose share is off the committed polynomial is never approved, in any state. -/
theorem off_polynomial_never_approved (cfg : Cfg) (hq : 0 < cfg.q) (nd : Node) (sg opn : Bool) (d : Deal)
    (hoff : ¬ OnCommitted cfg d) : (step cfg nd (.encDeal sg opn d)).2 ≠ .approve :=
  fun h => hoff (approve_on_committed cfg hq nd sg opn d h)

/-! ### 5. Justifications -/

/-- **Justification, exactly (one step, any state).** With an open complaint in slot `idx < n`:
the justification is accepted iff the revealed deal passes `VerifyDeal` — and, in the repaired code,
is the deal of index `idx` and carries the dealer's signature; it then turns the complaint into an
approval. A revealed deal that fails `VerifyDeal`, or (repaired) belongs to another index, marks the
dealer bad — for good, by `badDealer_monotone`. -/
theorem justification_outcome (cfg : Cfg) (a : Agg) (idx : Nat) (sg : Bool) (d : Deal)
    (hidx : idx < cfg.n) (hopen : a.responses.lookup idx = some false) :
    ((verifyJustification cfg a idx sg d).2 = none ↔
        (cfg.strict = true → d.i = idx ∧ sg = true) ∧ (verifyDeal cfg a d false).2 = none) ∧
    ((verifyJustification cfg a idx sg d).2 = none →
        (verifyJustification cfg a idx sg d).1.responses.lookup idx = some true) ∧
    (((cfg.strict = true ∧ d.i ≠ idx) ∨ (verifyDeal cfg a d false).2 ≠ none) →
        (verifyJustification cfg a idx sg d).1.badDealer = true) := by
  have hn : ¬ cfg.n ≤ idx := by omega
  have hres := verifyDeal_responses cfg a d false
  unfold verifyJustification
  simp only [hn, decide_false, Bool.false_eq_true, if_false, hopen]
  rcases hvd : verifyDeal cfg a d false with ⟨a', e⟩
  rw [hvd] at hres
  simp only at hres
  by_cases hu : (cfg.strict && d.i != idx) = true
  · have hs : cfg.strict = true ∧ d.i ≠ idx := by simpa using hu
    simp only [hu, if_true]
    refine ⟨⟨?_, ?_⟩, ?_, ?_⟩
    · intro h; cases h
    · intro h; exact absurd (h.1 hs.1).1 hs.2
    · intro h; cases h
    · intro _; trivial
  · simp only [hu, Bool.false_eq_true, if_false]
    have hu' : cfg.strict = true → d.i = idx := by
      intro h; by_contra hne; exact hu (by simp [h, hne])
    cases e with
    | some e =>
      simp only
      refine ⟨⟨?_, ?_⟩, ?_, ?_⟩
      · intro h; cases h
      · intro h; cases h.2
      · intro h; cases h
      · intro _; trivial
    | none =>
      simp only
      by_cases hsig : (cfg.strict && !sg) = true
      · have hs : cfg.strict = true ∧ sg = false := by simpa using hsig
        simp only [hsig, if_true]
        refine ⟨⟨?_, ?_⟩, ?_, ?_⟩
        · intro h; cases h
        · intro h; have := (h.1 hs.1).2; rw [hs.2] at this; cases this
        · intro h; cases h
        · intro h
          rcases h with h | h
          · exact absurd (hu' h.1) h.2
          · exact absurd rfl h
      · simp only [hsig, Bool.false_eq_true, if_false]
        have hsg : cfg.strict = true → sg = true := by
          intro h; by_contra hne; exact hsig (by simp [h, hne])
        refine ⟨⟨?_, ?_⟩, ?_, ?_⟩
        · intro _; exact ⟨fun h => ⟨hu' h, hsg h⟩, trivial⟩
        · intro _; trivial
        · intro _; rw [lookup_setApproved, hres, hopen]; simp
        · intro h
          rcases h with h | h
          · exact absurd (hu' h.1) h.2
          · exact absurd rfl h

/-- **The defect of the unrepaired code, inside the model** (`strict = false`): a justification for
index 0 that reveals the valid deal of index 2 and carries an invalid signature is accepted and lifts
verifier 0's complaint. (`q = 11`, `n = 3`, `t = 2`, polynomial `3 + 2x`.) -/
theorem justification_unbound_as_coded :
    let cfg : Cfg := { variant := .pedersen, n := 3, q := 11, h := 0, strict := false }
    let d2 : Deal := { sid := 1, i := 2, v := 9, ri := 0, rv := 0, t := 2, commits := [3, 2] }
    let a : Agg := { responses := [(0, false)], t := 2, sid := some 1, deal := some d2 }
    (verifyJustification cfg a 0 false d2).2 = none ∧
    (verifyJustification cfg a 0 false d2).1.responses.lookup 0 = some true ∧
    (verifyJustification { cfg with strict := true } a 0 false d2).1.badDealer = true := by
  decide

/-- **Second defect of the unrepaired code, inside the model**: a fresh Pedersen verifier reports
`DealCertified` after `SetTimeout` alone (threshold still 0); the repaired code does not. -/
theorem certified_without_deal_as_coded :
    let cfg : Cfg := { variant := .pedersen, n := 3, q := 11, h := 0, strict := false }
    certified cfg (run cfg (newVerifier cfg 0) [.setTimeout]) = true ∧
    certified { cfg with strict := true } (run { cfg with strict := true } (newVerifier cfg 0) [.setTimeout]) = false := by
  decide

/-- **Third defect of the unrepaired code, inside the model**: a self-consistent deal that announces the
session identifier of ANOTHER deal (`sid ≠ csid`: an equivocating dealer labels the shares of a second
polynomial with the first one's identifier) is approved, so responses about different commitments share one
identifier and are counted together; the repaired code answers with a complaint
(fixes/C10-deal-session-binding.patch). -/
theorem deal_session_unbound_as_coded :
    let cfg : Cfg := { variant := .pedersen, n := 3, q := 11, h := 0, strict := false }
    let d : Deal := { sid := 1, i := 0, v := 3, ri := 0, rv := 0, t := 2, commits := [3, 0], csid := 2 }
    (step cfg (newVerifier cfg 0) (.encDeal true true d)).2 = .approve ∧
    (step { cfg with strict := true } (newVerifier cfg 0) (.encDeal true true d)).2 = .complain ∧
    (step { cfg with strict := true } (newVerifier cfg 0) (.encDeal true true { d with csid := 1 })).2 = .approve := by
  decide

/-! ### 6. Honest run ⇒ everybody approves ⇒ certified -/

/-- The state an honest deal leaves at the verifier it is addressed to: the verifier approves, and its
aggregator is `Good` (nothing bad, the announced `t` and `sid`, a deal, approvals only) with the verifier's
own slot filled. -/
theorem honest_deal_good (cfg : Cfg) (hq : 0 < cfg.q) (me t sid : Nat) (f g : List Nat)
    (hlen : cfg.variant = .rabin → f.length = g.length) (hT : validT t cfg.n = true) (hme : me < cfg.n) :
    (step cfg (newVerifier cfg me) (.encDeal true true (honestDeal cfg sid t f g me))).2 = .approve ∧
    ∃ a1, (step cfg (newVerifier cfg me) (.encDeal true true (honestDeal cfg sid t f g me))).1
      = ⟨.verifier me, some a1⟩ ∧ Good cfg t sid a1 ∧ me ∈ a1.responses.map Prod.fst := by
  have hacc : DealAcceptable cfg me (honestDeal cfg sid t f g me) :=
    ⟨rfl, hT, fun _ => rfl, hme, honestDeal_shareOk cfg hq sid t f g hlen me, honestDeal_sidBound cfg sid t f g me⟩
  have happ := (approve_iff_fresh cfg me true true _).mpr ⟨rfl, rfl, hacc⟩
  refine ⟨happ, ?_⟩
  have hne : ((honestDeal cfg sid t f g me).i != me) = false := by simp [honestDeal]
  have hstep : ∀ agg0, (step cfg ⟨.verifier me, agg0⟩ (.encDeal true true (honestDeal cfg sid t f g me))) =
      (⟨.verifier me, some (processDealOn cfg me (baseAgg agg0 (honestDeal cfg sid t f g me)) (honestDeal cfg sid t f g me)).1⟩,
        (processDealOn cfg me (baseAgg agg0 (honestDeal cfg sid t f g me)) (honestDeal cfg sid t f g me)).2) := by
    intro agg0; simp [step, processDeal, hne]
  have hcore : ∀ a0 : Agg, a0.responses = [] → a0.badDealer = false → a0.timeout = false → a0.deal = none →
      (cfg.variant = .rabin → a0.t = t) →
      checkDeal cfg (adopt cfg a0 (honestDeal cfg sid t f g me)) (honestDeal cfg sid t f g me) = none →
      Good cfg t sid (processDealOn cfg me a0 (honestDeal cfg sid t f g me)).1 ∧
      me ∈ (processDealOn cfg me a0 (honestDeal cfg sid t f g me)).1.responses.map Prod.fst := by
    intro a0 h1 h2 h3 h4 h5 h6
    unfold processDealOn verifyDeal
    simp only [h4, Option.isSome_none, Bool.false_and, Bool.false_eq_true, if_false, h6]
    unfold addResponse
    have : ¬ cfg.n ≤ me := by omega
    simp only [this, decide_false, Bool.false_eq_true, if_false, adopt_responses, h1, List.lookup_nil,
      Option.isSome_none, Option.isNone_none, List.nil_append]
    refine ⟨⟨by simp [h2], by simp [h3], ?_, ?_, ?_, ?_, ?_⟩, by simp⟩
    · cases hv : cfg.variant <;> simp [adopt, h4, hv, honestDeal]
      exact h5 hv
    · simp [adopt, h4, honestDeal]
    · simp [adopt, h4]
    · intro p hp; simp only [List.mem_singleton] at hp; subst hp
      simp [honestDeal_sidBound cfg sid t f g me]
    · exact ⟨by simp, by intro p hp; simp only [List.mem_singleton] at hp; subst hp; exact hme⟩
  unfold newVerifier
  rw [hstep]
  have hck : ∀ a0 : Agg, a0.deal = none → (cfg.variant = .rabin → a0.t = t ∧ a0.sid = some sid) →
      checkDeal cfg (adopt cfg a0 (honestDeal cfg sid t f g me)) (honestDeal cfg sid t f g me) = none := by
    intro a0 h4 h5
    rw [checkDeal_eq_none_iff]
    refine ⟨hT, ?_, ?_, fun _ => rfl, hme, hacc.2.2.2.2.1⟩
    · intro hv; simp [adopt, h4, hv, honestDeal]
    · simp [adopt, h4, honestDeal]
  cases hv : cfg.variant with
  | pedersen =>
    have := hcore {} rfl rfl rfl rfl (fun h => by rw [hv] at h; cases h) (hck {} rfl (fun h => by rw [hv] at h; cases h))
    exact ⟨_, rfl, by simpa [baseAgg] using this.1, by simpa [baseAgg] using this.2⟩
  | rabin =>
    have := hcore (aggOfDeal (honestDeal cfg sid t f g me)) rfl rfl rfl rfl (fun _ => rfl)
      (hck _ rfl (fun _ => ⟨rfl, rfl⟩))
    exact ⟨_, rfl, by simpa [baseAgg] using this.1, by simpa [baseAgg] using this.2⟩

/-- **Honest run ⇒ approve ⇒ certified.** An honest dealer (secret polynomial `f`, R: blinding
polynomial `g` of the same length, threshold `t` in range) deals to verifier `me < n`: the verifier
approves; and once it has seen the (signed, approving) responses of all other verifiers — in ANY
order, with arbitrary duplicates, out-of-range indices and its own response echoed back (`js` is any
list containing every `j < n`, `j ≠ me`) — `DealCertified()` holds. -/
theorem honest_run_certified (cfg : Cfg) (hq : 0 < cfg.q) (me t sid : Nat) (f g : List Nat)
    (hlen : cfg.variant = .rabin → f.length = g.length) (hT : validT t cfg.n = true) (hme : me < cfg.n)
    (js : List Nat) (hjs : ∀ j < cfg.n, j ≠ me → j ∈ js) :
    (step cfg (newVerifier cfg me) (.encDeal true true (honestDeal cfg sid t f g me))).2 = .approve ∧
    certified cfg (run cfg (newVerifier cfg me)
      (.encDeal true true (honestDeal cfg sid t f g me) :: js.map (fun j => Op.response sid j true true))) = true := by
  obtain ⟨happ, a1, ha1, hgood, hmemk⟩ := honest_deal_good cfg hq me t sid f g hlen hT hme
  refine ⟨happ, ?_⟩
  obtain ⟨a2, h2, g2, m2, n2⟩ := good_responses cfg t sid me js a1 hgood
  rw [run_cons, ha1, h2]
  unfold certified
  simp only
  apply good_full_certified cfg t sid a2 g2 hT
  intro i hi
  by_cases hime : i = me
  · subst hime; exact m2 _ hmemk
  · exact n2 i (hjs i hi hime) hi

/-! ### 7. Certified ∧ approved shares ⇒ any `t` of them recover the dealer's secret -/

/-- **Recovery (Pedersen).** Take ANY collection of deals that verifiers approved (`shareOk`, which
`approve_sound` guarantees for every approval) against one and the same commitment list `cs` with at
most `t` entries — in any order, with repetitions and surplus — containing at least `t` distinct
indices: kyber's `RecoverSecret` (model `Share.recoverSecret`, proved correct in C07) returns exactly
the discrete logarithm of `Commits[0]`, i.e. the secret whose commitment the dealer published.
(`len(Commitments) ≤ t` is a hypothesis: `VerifyDeal` does not check it — an honest dealer publishes
exactly `t` commitments.) -/
theorem approved_shares_recover (cfg : Cfg) [Fact cfg.q.Prime] (hq2 : 2 < cfg.q)
    (hv : cfg.variant = .pedersen) (cs : List Nat) (t : Nat) (ht : 1 ≤ t) (hlen : cs.length ≤ t)
    (deals : List Deal)
    (happ : ∀ d ∈ deals, d.commits = cs ∧ shareOk cfg d = true ∧ d.i + 1 < 2 ^ 32 ∧ d.i + 1 < cfg.q)
    (hcnt : t ≤ (deals.map (·.i)).toFinset.card) :
    Share.recoverSecret cfg.q (secShares deals) t = some (cs.headD 0 % cfg.q) := by
  have hq : 0 < cfg.q := by omega
  have hon : OnCurve cfg.q (toPoly cfg.q cs) (secShares deals) := by
    intro sh hsh v hvv
    simp only [secShares, List.mem_map, Option.some.injEq] at hsh
    obtain ⟨d, hd, rfl⟩ := hsh
    simp only [Option.some.injEq] at hvv; subst hvv
    obtain ⟨h1, h2, h3, h4⟩ := happ d hd
    refine ⟨⟨h3, h4⟩, ?_⟩
    have := (shareOk_iff_onCommitted cfg hq d).mp h2
    unfold OnCommitted at this
    rw [hv] at this
    simp only at this
    rw [this, h1]
  obtain ⟨r, h1, h2, h3⟩ := recoverSecret_eq_of_onCurve hq2 (toPoly cfg.q cs) t ht
    (lt_of_lt_of_le (toPoly_degree_lt cs) (by exact_mod_cast hlen)) (secShares deals) hon
    (by rw [validIdx_secShares]; exact hcnt)
  rw [h1, Option.some.injEq]
  apply (eq_iff_cast_eq _ _ h2 (Nat.mod_lt _ hq)).mpr
  rw [h3, toPoly_coeff_zero, ZMod.natCast_mod]

/-- **Recovery (Rabin).** The approved share *pairs* `(f_i, g_i)` open the published Pedersen
commitments: interpolating the secret shares and the blinding shares of any collection with `≥ t`
distinct indices gives `F₀`, `R₀` with `F₀·G + R₀·H = Commits[0]`. (In the discrete-log model `h` is
known, so "the dealer cannot open to another secret" is not expressible; for an honest dealer
`F₀ = f(0)` is `honest_shares_recover`.) -/
theorem approved_share_pairs_open_commitment (cfg : Cfg) [Fact cfg.q.Prime] (hq2 : 2 < cfg.q)
    (hv : cfg.variant = .rabin) (cs : List Nat) (t : Nat) (hlen : cs.length ≤ t)
    (F R : (ZMod cfg.q)[X]) (hF : F.degree < t) (hR : R.degree < t)
    (deals : List Deal)
    (happ : ∀ d ∈ deals, d.commits = cs ∧ shareOk cfg d = true ∧ d.i + 1 < cfg.q ∧
      ((d.v : Nat) : ZMod cfg.q) = F.eval ((d.i : ZMod cfg.q) + 1) ∧
      ((d.rv : Nat) : ZMod cfg.q) = R.eval ((d.i : ZMod cfg.q) + 1))
    (hcnt : t ≤ (deals.map (·.i)).toFinset.card) :
    F.coeff 0 + R.coeff 0 * ((cfg.h : Nat) : ZMod cfg.q) = ((cs.headD 0 : Nat) : ZMod cfg.q) := by
  have hq : 0 < cfg.q := by omega
  -- the polynomial F + h·R − C has degree < t and at least t roots
  set P : (ZMod cfg.q)[X] := F + Polynomial.C ((cfg.h : Nat) : ZMod cfg.q) * R - toPoly cfg.q cs with hP
  have hdeg : P.degree < t := by
    have h1 : (Polynomial.C ((cfg.h : Nat) : ZMod cfg.q) * R).degree < t := by
      refine lt_of_le_of_lt ?_ hR
      calc (Polynomial.C ((cfg.h : Nat) : ZMod cfg.q) * R).degree
          ≤ (Polynomial.C ((cfg.h : Nat) : ZMod cfg.q)).degree + R.degree := Polynomial.degree_mul_le _ _
        _ ≤ 0 + R.degree := by gcongr; exact Polynomial.degree_C_le
        _ = R.degree := zero_add _
    have h2 : (toPoly cfg.q cs).degree < t :=
      lt_of_lt_of_le (toPoly_degree_lt cs) (by exact_mod_cast hlen)
    exact lt_of_le_of_lt (Polynomial.degree_sub_le _ _)
      (max_lt (lt_of_le_of_lt (Polynomial.degree_add_le _ _) (max_lt hF h1)) h2)
  have hroot : ∀ d ∈ deals, P.eval (((d.i + 1 : Nat) : ZMod cfg.q)) = 0 := by
    intro d hd
    obtain ⟨h1, h2, _, h4, h5⟩ := happ d hd
    have := (shareOk_iff_onCommitted cfg hq d).mp h2
    unfold OnCommitted at this
    rw [hv] at this
    simp only at this
    rw [hP]
    simp only [Polynomial.eval_sub, Polynomial.eval_add, Polynomial.eval_mul, Polynomial.eval_C, Nat.cast_add, Nat.cast_one]
    rw [← h1, ← this, h4, h5]; ring
  have hzero : P = 0 := by
    by_contra hne
    have hcard := Polynomial.card_roots' P
    have hsub : ((deals.map (·.i)).toFinset.image (fun i : Nat => ((i + 1 : Nat) : ZMod cfg.q))) ⊆ P.roots.toFinset := by
      intro x hx
      simp only [Finset.mem_image, List.mem_toFinset, List.mem_map] at hx
      obtain ⟨i, ⟨d, hd, rfl⟩, rfl⟩ := hx
      simp only [Multiset.mem_toFinset, Polynomial.mem_roots hne, Polynomial.IsRoot.def]
      exact hroot d hd
    have hinj : Set.InjOn (fun i : Nat => ((i + 1 : Nat) : ZMod cfg.q)) ((deals.map (·.i)).toFinset : Set Nat) := by
      intro i hi j hj hij
      simp only [Finset.mem_coe, List.mem_toFinset, List.mem_map] at hi hj
      obtain ⟨di, hdi, rfl⟩ := hi
      obtain ⟨dj, hdj, rfl⟩ := hj
      have hi' := (happ di hdi).2.2.1
      have hj' := (happ dj hdj).2.2.1
      have := (ZMod.natCast_eq_natCast_iff' _ _ _).mp hij
      rw [Nat.mod_eq_of_lt hi', Nat.mod_eq_of_lt hj'] at this
      omega
    have h1 : (deals.map (·.i)).toFinset.card ≤ P.roots.toFinset.card := by
      rw [← Finset.card_image_of_injOn hinj]; exact Finset.card_le_card hsub
    have h2 : P.roots.toFinset.card ≤ P.natDegree := le_trans (Multiset.toFinset_card_le _) hcard
    have h3 : P.natDegree < t := (Polynomial.natDegree_lt_iff_degree_lt hne).mpr hdeg
    omega
  have := congrArg (fun p => Polynomial.coeff p 0) hzero
  simp only [hP, Polynomial.coeff_sub, Polynomial.coeff_add, Polynomial.coeff_C_mul, Polynomial.coeff_zero,
    toPoly_coeff_zero] at this
  rw [sub_eq_zero] at this
  rw [← this]; ring

/-- **End to end, honest dealer (both variants).** Secret polynomial `f` with `len f ≤ t`: any collection
of the honest deals with at least `t` distinct indices (`i+1 < q`, `< 2^32`) reconstructs `f(0)`, the
dealer's secret. -/
theorem honest_shares_recover (cfg : Cfg) [Fact cfg.q.Prime] (hq2 : 2 < cfg.q)
    (sid t : Nat) (ht : 1 ≤ t) (f g : List Nat) (hlen : f.length ≤ t)
    (idxs : List Nat) (hidx : ∀ i ∈ idxs, i + 1 < 2 ^ 32 ∧ i + 1 < cfg.q)
    (hcnt : t ≤ idxs.toFinset.card) :
    Share.recoverSecret cfg.q (secShares (idxs.map (honestDeal cfg sid t f g))) t = some (f.headD 0 % cfg.q) := by
  have hq : 0 < cfg.q := by omega
  have hon : OnCurve cfg.q (toPoly cfg.q f) (secShares (idxs.map (honestDeal cfg sid t f g))) := by
    intro sh hsh v hvv
    simp only [secShares, List.mem_map, Option.some.injEq] at hsh
    obtain ⟨d, ⟨i, hi, rfl⟩, rfl⟩ := hsh
    simp only [Option.some.injEq] at hvv; subst hvv
    exact ⟨hidx i hi, by simp only [honestDeal, evalPoly_cast]⟩
  have hfin : ((idxs.map (honestDeal cfg sid t f g)).map (·.i)).toFinset = idxs.toFinset := by
    ext k; simp [honestDeal]
  obtain ⟨r, h1, h2, h3⟩ := recoverSecret_eq_of_onCurve hq2 (toPoly cfg.q f) t ht
    (lt_of_lt_of_le (toPoly_degree_lt f) (by exact_mod_cast hlen)) _ hon
    (by rw [validIdx_secShares, hfin]; exact hcnt)
  rw [h1, Option.some.injEq]
  apply (eq_iff_cast_eq _ _ h2 (Nat.mod_lt _ hq)).mpr
  rw [h3, toPoly_coeff_zero, ZMod.natCast_mod]

/-! ### The hypotheses are satisfiable (`q = 11`, `n = 3`, `t = 2`, `f = 3 + 2x`) -/

section Examples

private def cfgP : Cfg := { variant := .pedersen, n := 3, q := 11, h := 0, strict := true }
private def cfgR : Cfg := { variant := .rabin, n := 3, q := 11, h := 4, strict := true }


/-- honest Pedersen run, responses out of order, duplicated, one out of range: certified -/
example : certified cfgP (run cfgP (newVerifier cfgP 0)
    (.encDeal true true (honestDeal cfgP 1 2 [3, 2] [] 0) :: [2, 1, 1, 5].map (fun j => Op.response 1 j true true))) = true :=
  (honest_run_certified cfgP (by decide) 0 2 1 [3, 2] [] (fun h => by cases h) (by decide) (by decide)
    [2, 1, 1, 5] (by decide)).2

/-- honest Rabin run (blinding polynomial `1 + 5x`, `h = 4`) -/
example : certified cfgR (run cfgR (newVerifier cfgR 1)
    (.encDeal true true (honestDeal cfgR 7 2 [3, 2] [1, 5] 1) :: [0, 2].map (fun j => Op.response 7 j true true))) = true :=
  (honest_run_certified cfgR (by decide) 1 2 7 [3, 2] [1, 5] (fun _ => rfl) (by decide) (by decide)
    [0, 2] (by decide)).2

/-- … so `certified_sound` is not vacuous: its conclusion holds of that history -/
example : ∃ a, (run cfgP (newVerifier cfgP 0)
    (.encDeal true true (honestDeal cfgP 1 2 [3, 2] [] 0) :: [2, 1].map (fun j => Op.response 1 j true true))).agg = some a ∧
    a.badDealer = false ∧ a.t ≤ countApproved a cfgP.n := by
  obtain ⟨a, h1, h2, h3, _⟩ := certified_sound cfgP (newVerifier cfgP 0) (Or.inl ⟨0, rfl⟩) _
    (honest_run_certified cfgP (by decide) 0 2 1 [3, 2] [] (fun h => by cases h) (by decide) (by decide)
      [2, 1] (by decide)).2
  exact ⟨a, h1, h2, h3⟩

/-- two approved deals (indices 0 and 2, shares 5 and 9) recover the secret 3 = log Commits[0] -/
example : Share.recoverSecret 11 (secShares
    [{ sid := 1, i := 2, v := 9, ri := 0, rv := 0, t := 2, commits := [3, 2] },
     { sid := 1, i := 0, v := 5, ri := 0, rv := 0, t := 2, commits := [3, 2] }]) 2 = some 3 :=
  haveI : Fact (Nat.Prime cfgP.q) := ⟨by norm_num [cfgP]⟩
  approved_shares_recover cfgP (by decide) rfl [3, 2] 2 (by decide) (by decide) _ (by decide) (by decide)

/-- a complaint (slot 1) lifted by a correct, signed justification; repaired code -/
example :
    let d1 : Deal := { sid := 1, i := 1, v := 7, ri := 0, rv := 0, t := 2, commits := [3, 2] }
    let a : Agg := { responses := [(1, false)], t := 2, sid := some 1, deal := some d1 }
    (verifyJustification cfgP a 1 true d1).2 = none ∧
    (verifyJustification cfgP a 1 true { d1 with v := 8 }).1.badDealer = true := by
  decide

end Examples

end Kyber.Vss
