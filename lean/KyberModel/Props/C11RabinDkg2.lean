import KyberModel.Props.C11RabinDkg
import KyberModel.Props.C07
/-
C11 — Rabin DKG, second phase (the distributed key): theorems about `Kyber.RabinDkg` (Proto/RabinDkg.lean),
the model the harness compares with `share/dkg/rabin` after every call.

1. `secret_commits_accepted`: commitments are stored only for a qualified dealer, under the right session and
   signature, when they are not contested, and when the node's own share of that dealer lies on them.
2. `contested_commitments_not_republished`: once a reveal is pending or the polynomial has been reconstructed,
   `ProcessSecretCommits` changes nothing (the repair of the "repeated SecretCommits" defect).
3. `reconstruction_correct`: when the t-th revealed share arrives and the t shares held are the sender-indexed
   evaluations of one polynomial `f` with t coefficients, the commitments stored for the dealer are exactly the
   commitments of `f` — whatever the dealer had published. (Shares are not verifiable: with a wrong one among
   them the conclusion fails — the recorded finding.)
4. `own_share_recorded_once`, `reconstruct_keeps_sender_index`: the evaluation points among the pending reveals
   are the senders' indices (the repairs of the two panics).
5. `distKeyShare_share_on_polynomial`: the share `DistKeyShare()` returns lies on the polynomial whose
   commitments it returns, provided each qualified dealer's stored commitments match the share received from
   it (which 1. guarantees for accepted commitments and 3. for reconstructed ones).
-/
namespace Kyber.RabinDkg
open Kyber.Vss Kyber.Share Kyber.Scalar

/-! ### 1./2. acceptance of secret commitments -/

theorem secret_commits_accepted (cfg : Cfg) (nd : Node) (idx sid : Nat) (s : Bool) (cs : List Nat)
    (h : (step cfg nd (.procSecretCommits idx sid s cs)).2 = .ok) :
    idx < cfg.n ∧ s = true ∧ nd.reconstructed.contains idx = false ∧ (nd.pending.lookup idx).getD [] = [] ∧
    ∃ a dl, qualVerifier cfg nd idx = some a ∧ a.sid = some sid ∧ a.deal = some dl ∧
      feldmanOk cfg.q cs dl.i dl.v = true ∧
      (step cfg nd (.procSecretCommits idx sid s cs)).1 = { nd with commitments := mput nd.commitments idx cs } := by
  have hstep : step cfg nd (.procSecretCommits idx sid s cs) = processSecretCommits cfg nd idx sid s cs := rfl
  rw [hstep] at h ⊢
  unfold processSecretCommits at h ⊢
  split at h
  · exact absurd h (by simp)
  · rename_i h1
    split at h
    · exact absurd h (by simp)
    · rename_i a hq
      split at h
      · exact absurd h (by simp)
      · rename_i h2
        split at h
        · exact absurd h (by simp)
        · rename_i h3
          split at h
          · exact absurd h (by simp)
          · rename_i h4
            split at h
            · exact absurd h (by simp)
            · rename_i dl hd
              split at h
              · rename_i h5
                have h4' := Bool.or_eq_false_iff.mp (by simpa using h4 :
                  (nd.reconstructed.contains idx || !((nd.pending.lookup idx).getD []).isEmpty) = false)
                have hs : s = true := by
                  cases s with
                  | true => rfl
                  | false => exact absurd rfl h3
                have hsid : a.sid = some sid := by
                  by_contra hne
                  exact h2 (by simp [hne])
                refine ⟨by simpa using h1, hs, h4'.1, by simpa using h4'.2, a, dl, hq, hsid, hd, h5, ?_⟩
                simp only [if_neg h1, if_neg h2, if_neg h3, if_neg h4, if_pos h5]
              · exact absurd h (by simp)

theorem contested_commitments_not_republished (cfg : Cfg) (nd : Node) (idx sid : Nat) (s : Bool) (cs : List Nat)
    (h : idx ∈ nd.reconstructed ∨ (nd.pending.lookup idx).getD [] ≠ []) :
    (step cfg nd (.procSecretCommits idx sid s cs)).1 = nd := by
  have hc : (nd.reconstructed.contains idx || !((nd.pending.lookup idx).getD []).isEmpty) = true := by
    rcases h with h | h
    · simp [h]
    · cases hl : (nd.pending.lookup idx).getD [] with
      | nil => exact absurd hl h
      | cons _ _ => simp
  have hstep : step cfg nd (.procSecretCommits idx sid s cs) = processSecretCommits cfg nd idx sid s cs := rfl
  rw [hstep]
  unfold processSecretCommits
  split
  · rfl
  · split
    · rfl
    · split
      · rfl
      · split
        · rfl
        · rfl

/-! ### 3. reconstruction -/

theorem validIdx_map_rc (arr : List Rc) :
    validIdx (arr.map (fun r => (some ⟨r.si, some r.sv⟩ : Option Share))) = arr.map (·.si) := by
  induction arr with
  | nil => rfl
  | cons r arr ih =>
    simp only [validIdx, dropNil, List.map_cons, List.filterMap_cons, id] at ih ⊢
    simp only [Option.map_some, List.cons.injEq, true_and]
    exact ih

/-- **Honest reveals reconstruct the dealer's polynomial.** The message that completes `t` reveals for dealer
`D` arrives; the reveals held (`arr`) and the new one are evaluations, at their senders' points, of the
polynomial with coefficient list `f` (`t` coefficients); the points are distinct and admissible. Then the node
stores exactly the commitments of `f` for `D`, marks `D` reconstructed and forgets the pending reveals. -/
theorem reconstruction_correct (cfg : Cfg) [Fact cfg.q.Prime] (hq2 : 2 < cfg.q) (nd : Node)
    (sid index D sv : Nat) (f : List Nat) (hf : f.length = nd.t) (ht : 1 ≤ nd.t)
    (hnr : nd.reconstructed.contains D = false) (hnc : nd.commitments.lookup D = none) (hidx : index < cfg.n)
    (arr : List Rc) (harr : (nd.pending.lookup D).getD [] = arr) (hfresh : scan index sid arr = .fresh)
    (hlen : nd.t ≤ arr.length + 1)
    (hon : ∀ r ∈ arr ++ [(⟨sid, index, index, sv⟩ : Rc)], IdxOK cfg.q r.si ∧ r.sv = evalAt cfg.q f (xEval cfg.q r.si))
    (hnd : ((arr ++ [(⟨sid, index, index, sv⟩ : Rc)]).map (·.si)).Nodup) :
    step cfg nd (.procReconstruct sid index D true index sv true) =
      ({ nd with commitments := mput nd.commitments D (commit cfg.q (f.map (· % cfg.q)) none),
                 reconstructed := nd.reconstructed ++ [D],
                 pending := mdel nd.pending D }, .ok) := by
  have hl : OnPoly cfg.q f ((arr ++ [(⟨sid, index, index, sv⟩ : Rc)]).map (fun r => (some ⟨r.si, some r.sv⟩ : Option Share))) := by
    intro sh hsh v hv
    obtain ⟨r, hr, hrs⟩ := List.mem_map.mp hsh
    cases hrs
    simp only [Option.some.injEq] at hv
    subst hv
    exact hon r hr
  have hcnt : nd.t ≤ (validIdx ((arr ++ [(⟨sid, index, index, sv⟩ : Rc)]).map
      (fun r => (some ⟨r.si, some r.sv⟩ : Option Share)))).toFinset.card := by
    rw [validIdx_map_rc, List.toFinset_card_of_nodup hnd]
    simp; omega
  have hrec := recoverPriPoly_eq hq2 f nd.t ht hf _ hl hcnt
  simp only [step, processReconstruct, hnr, Bool.false_eq_true, if_false, hnc, Option.isSome_none,
    show decide (cfg.n ≤ index) = false by simpa using hidx, Bool.not_true, bne_self_eq_false, Bool.or_self, harr, hfresh]
  have hle : decide (nd.t ≤ (arr ++ [(⟨sid, index, index, sv⟩ : Rc)]).length) = true := by simp; omega
  rw [if_pos hle, hrec]

/-! ### 4. the evaluation points of pending reveals -/

/-- Every pending reveal carries its sender's index as evaluation point, except possibly the node's own. -/
def PendOk (nd : Node) : Prop := ∀ p ∈ nd.pending, ∀ r ∈ p.2, r.index ≠ nd.me → r.si = r.index

theorem lookup_getD_mem {α : Type} (m : List (Nat × List α)) (k : Nat) (x : α) (h : x ∈ (m.lookup k).getD []) :
    ∃ p ∈ m, x ∈ p.2 := by
  induction m with
  | nil => simp [List.lookup] at h
  | cons p m ih =>
    obtain ⟨k', l⟩ := p
    by_cases hk : k = k'
    · subst hk; simp [List.lookup] at h; exact ⟨(k, l), List.mem_cons_self, h⟩
    · have : (k == k') = false := by simpa using hk
      simp only [List.lookup, this] at h
      obtain ⟨p, hp, hx⟩ := ih h
      exact ⟨p, List.mem_cons_of_mem _ hp, hx⟩

theorem mem_mput {α : Type} (m : List (Nat × α)) (k : Nat) (v : α) (p : Nat × α) (h : p ∈ mput m k v) :
    p ∈ m ∨ p = (k, v) := by
  unfold mput at h
  split at h
  · obtain ⟨p', hp', rfl⟩ := List.mem_map.mp h
    by_cases hk : p'.1 = k
    · right; simp [hk]
    · left; simpa [hk] using hp'
  · rcases List.mem_append.mp h with h | h
    · exact Or.inl h
    · right; simpa using h

/-- **A stored reveal is the sender's.** `ProcessReconstructCommits` only stores a share whose evaluation point
is the index of the participant that signed the message (the repair of the first panic). -/
theorem reconstruct_keeps_sender_index (cfg : Cfg) (nd : Node) (sid index D : Nat) (hs : Bool) (si sv : Nat) (s : Bool)
    (h : PendOk nd) : PendOk (step cfg nd (.procReconstruct sid index D hs si sv s)).1 := by
  have hme : (step cfg nd (.procReconstruct sid index D hs si sv s)).1.me = nd.me := (step_me cfg nd _).1
  simp only [step, processReconstruct] at hme ⊢
  split
  · exact h
  · split
    · exact h
    · split
      · exact h
      · split
        · exact h
        · split
          · exact h
          · rename_i hguard
            have hsi : si = index := by
              have := hguard
              simp only [Bool.or_eq_true, Bool.not_eq_true', bne_iff_ne, ne_eq, not_or, Bool.not_eq_false, not_not] at this
              exact this.2
            split
            · exact h
            · exact h
            · split
              · split
                · -- recovery failed: pending := arr'
                  intro p hp r hr hne
                  rcases mem_mput _ _ _ _ hp with hp | hp
                  · exact h p hp r hr hne
                  · subst hp
                    rcases List.mem_append.mp hr with hr | hr
                    · obtain ⟨p', hp', hr'⟩ := lookup_getD_mem nd.pending D r hr
                      exact h p' hp' r hr' hne
                    · simp only [List.mem_singleton] at hr; subst hr; exact hsi
                · -- reconstructed: pending entry deleted
                  intro p hp r hr hne
                  exact h p (List.mem_filter.mp hp).1 r hr hne
              · intro p hp r hr hne
                rcases mem_mput _ _ _ _ hp with hp | hp
                · exact h p hp r hr hne
                · subst hp
                  rcases List.mem_append.mp hr with hr | hr
                  · obtain ⟨p', hp', hr'⟩ := lookup_getD_mem nd.pending D r hr
                    exact h p' hp' r hr' hne
                  · simp only [List.mem_singleton] at hr; subst hr; exact hsi

/-- **The node's own share is recorded once** per dealer, however often the complaint is delivered. -/
theorem own_share_recorded_once (cfg : Cfg) (nd : Node) (issuer D : Nat) (s : Bool) (d : Deal)
    (h : ((nd.pending.lookup D).getD []).any (fun r => r.index == nd.me) = true) :
    (step cfg nd (.procComplaintCommits issuer D s d)).1.pending = nd.pending := by
  simp only [step, processComplaintCommits]
  repeat' split
  all_goals first | rfl | (simp only []; rw [if_pos h])

/-! ### 5. the output share lies on the output polynomial -/

theorem check_add (hq : 0 < q) {p cs r : Poly} (hadd : polyAdd q p cs = some r) (m sh v : Nat)
    (h1 : check q p none m sh = true) (h2 : check q cs none m v = true) :
    check q r none m (Scalar.add q sh v) = true := by
  unfold check at *
  rw [beq_iff_eq] at *
  rw [pubEvalAt_eq_evalAt] at *
  rw [eval_add hq hadd, h1, h2]
  simp only [baseLog, Scalar.mul, Scalar.add, Nat.mul_one, Nat.mod_mod, Nat.add_mod]

/-- Invariant of the loop of `DistKeyShare()`. -/
def DksInv (q m : Nat) : Option (Nat × Option (List Nat)) → Prop
  | none => True
  | some (sh, none) => sh = 0
  | some (sh, some p) => check q p none m sh = true

/-- **The output share lies on the output polynomial.** If, for every qualified dealer, the commitments the node
holds match the share it received from that dealer at the node's evaluation point `m`, then the share returned by
`DistKeyShare()` matches the returned commitments at `m`. -/
theorem distKeyShare_share_on_polynomial (cfg : Cfg) (hq : 0 < cfg.q) (nd : Node) (m : Nat)
    (hmatch : ∀ i ∈ qual cfg nd, ∀ a dl cs, qualVerifier cfg nd i = some a → a.deal = some dl →
      nd.commitments.lookup i = some cs → check cfg.q cs none m dl.v = true)
    (sh : Nat) (pub : List Nat) (h : distKeyShare cfg nd = some (sh, pub)) :
    check cfg.q pub none m sh = true := by
  have hstep : ∀ (l : List Nat), (∀ i ∈ l, i ∈ qual cfg nd) → ∀ acc, DksInv cfg.q m acc →
      DksInv cfg.q m (l.foldl (dksStep cfg nd) acc) := by
    intro l
    induction l with
    | nil => intro _ acc h; exact h
    | cons i l ih =>
      intro hl acc hacc
      simp only [List.foldl_cons]
      apply ih (fun j hj => hl j (List.mem_cons_of_mem _ hj))
      unfold dksStep
      cases acc with
      | none => trivial
      | some sp =>
        obtain ⟨sh0, pub0⟩ := sp
        simp only
        cases hqv : qualVerifier cfg nd i with
        | none => trivial
        | some a =>
          simp only
          cases hd : a.deal with
          | none => trivial
          | some dl =>
            cases hc : nd.commitments.lookup i with
            | none => trivial
            | some cs =>
              simp only
              have hm := hmatch i (hl i List.mem_cons_self) a dl cs hqv hd hc
              cases pub0 with
              | none =>
                simp only [DksInv] at hacc ⊢
                subst hacc
                unfold check at hm ⊢
                rw [beq_iff_eq] at hm ⊢
                rw [hm]
                simp [baseLog, Scalar.mul, Scalar.add, Nat.mod_mod]
              | some p =>
                simp only [DksInv] at hacc
                cases hadd : polyAdd cfg.q p cs with
                | none => simp [hadd, DksInv]
                | some r =>
                  simp only [hadd, Option.map_some, DksInv]
                  exact check_add hq hadd m sh0 dl.v hacc hm
  unfold distKeyShare at h
  split at h
  · cases h
  · have hinv := hstep (qual cfg nd) (fun i hi => hi) (some (0, none)) rfl
    split at h
    · rename_i sh' pub' heq
      rw [heq] at hinv
      cases h
      exact hinv
    · cases h

/-- Non-vacuity (q = 11, t = 2, one reveal pending): a reveal under another participant's evaluation point is
refused; a well-formed first-time reveal is processed. (The interpolation itself runs through `List.mergeSort`,
which `decide` cannot unfold; the same instance is executed by the driver in the correspondence runs:
`rdkg 1 3 b 2 1 2 5 … X:9:2:0:1:2:7:1` stores the commitments `3,5`, with the value 8 instead of 7 it stores `1,6`.) -/
example :
    let cfg : Cfg := { variant := .rabin, n := 3, q := 11, h := 2, strict := true }
    let nd : Node := { init 1 2 5 with pending := [(0, [⟨9, 1, 1, 2⟩])] }
    ((step cfg nd (.procReconstruct 9 2 0 true 1 7 true)).2 = .errShareIndex) ∧
    ((step cfg nd (.procReconstruct 9 1 0 true 1 7 true)).2 = .ok) ∧
    ((step cfg nd (.procReconstruct 8 2 0 true 2 7 true)).2 = .errSid) := by decide

end Kyber.RabinDkg
