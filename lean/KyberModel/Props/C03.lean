import KyberModel.Drive.Grp
import KyberModel.Lib.Bytes
import KyberModel.Lib.Ed25519
import KyberModel.Lib.DecodeValid
/-
C03 — encodings are fixed-length, canonical and round-trip (model side).
`enc` of each reference model has the advertised length, is injective on valid (reduced, on-curve)
values — hence `Equal ⇔ identical bytes` — and decoding an encoding returns the value.
The implementation's MarshalBinary is compared byte-for-byte with these `enc` functions on every
value reached by the C01/C03 programs (values left in non-normalised internal coordinates included).
-/
namespace Kyber.C03
open Kyber

/-! ### Scalars: fixed-width little/big-endian -/

theorem scalar_encLE_length (w v : Nat) : (encodeLE w v).length = w := encodeLE_length w v
theorem scalar_encBE_length (w v : Nat) : (encodeBE w v).length = w := encodeBE_length w v

/-- Decoding the encoding of a reduced scalar gives the scalar back (any width that fits `q`). -/
theorem scalar_roundtrip_LE (q w v : Nat) (hq : q ≤ 256 ^ w) (hv : v < q) :
    Scalar.setBytesLE q (encodeLE w v) = v := by
  unfold Scalar.setBytesLE
  rw [decodeLE_encodeLE_of_lt w v (by omega), Nat.mod_eq_of_lt hv]

theorem scalar_roundtrip_BE (q w v : Nat) (hq : q ≤ 256 ^ w) (hv : v < q) :
    Scalar.setBytesBE q (encodeBE w v) = v := by
  unfold Scalar.setBytesBE
  rw [decodeBE_encodeBE_of_lt w v (by omega), Nat.mod_eq_of_lt hv]

/-- Two reduced scalars are equal iff their encodings are identical. -/
theorem scalar_enc_inj_LE (q w a b : Nat) (hq : q ≤ 256 ^ w) (ha : a < q) (hb : b < q) :
    encodeLE w a = encodeLE w b ↔ a = b :=
  ⟨encodeLE_injective w a b (by omega) (by omega), fun h => by rw [h]⟩

theorem scalar_enc_inj_BE (q w a b : Nat) (hq : q ≤ 256 ^ w) (ha : a < q) (hb : b < q) :
    encodeBE w a = encodeBE w b ↔ a = b :=
  ⟨encodeBE_injective w a b (by omega) (by omega), fun h => by rw [h]⟩

/-- Re-encoding a decoded canonical string reproduces it byte for byte. -/
theorem scalar_reencode_LE (bs : Bytes) : encodeLE bs.length (decodeLE bs) = bs := encodeLE_decodeLE bs
theorem scalar_reencode_BE (bs : Bytes) : encodeBE bs.length (decodeBE bs) = bs := encodeBE_decodeBE bs

/-! ### Short Weierstrass groups with uncompressed `X ‖ Y` encodings (P-256, BN256 G1, BN254 G1) -/

open Kyber.Weierstrass Kyber.Drive

/-- Reduced, on-curve, and not the all-zero pair that encodes infinity. -/
def WValid (c : Curve) : Pt → Prop
  | none => True
  | some (x, y) => x < c.p ∧ y < c.p ∧ onCurve c (some (x, y)) = true ∧ ¬ (x = 0 ∧ y = 0)

def encXY (w : Nat) (pre : Bytes) : Pt → Bytes
  | none => pre ++ List.replicate (2 * w) 0
  | some (x, y) => pre ++ (encodeBE w x ++ encodeBE w y)

theorem encXY_length (w : Nat) (pre : Bytes) (P : Pt) : (encXY w pre P).length = pre.length + 2 * w := by
  cases P with
  | none => simp [encXY]
  | some xy => obtain ⟨x, y⟩ := xy; simp [encXY]; omega

theorem decodeBE_replicate_zero (n : Nat) : decodeBE (List.replicate n (0 : UInt8)) = 0 := by
  induction n with
  | zero => rfl
  | succ n ih =>
    rw [List.replicate_succ', decodeBE_append_singleton, ih]; simp

/-- `dec (enc P) = P` for every valid point, for every coordinate width that fits the field. -/
theorem decXY_encXY (c : Curve) (w : Nat) (pre : Bytes) (hp : c.p ≤ 256 ^ w) (P : Pt) (hP : WValid c P) :
    decXY c w pre (encXY w pre P) = some P := by
  unfold decXY
  have hlen := encXY_length w pre P
  rw [if_neg (by omega)]
  cases P with
  | none =>
    simp only [encXY, List.take_left', List.drop_left', ne_eq, not_true_eq_false, if_false]
    simp [List.take_replicate, List.drop_replicate, decodeBE_replicate_zero]
  | some xy =>
    obtain ⟨x, y⟩ := xy
    obtain ⟨hx, hy, hon, hnz⟩ := hP
    simp only [encXY, List.take_left', List.drop_left', ne_eq, not_true_eq_false, if_false]
    have h1 : List.take w (encodeBE w x ++ encodeBE w y) = encodeBE w x := by
      rw [List.take_left' (encodeBE_length w x)]
    have h2 : List.drop w (encodeBE w x ++ encodeBE w y) = encodeBE w y := by
      rw [List.drop_left' (encodeBE_length w x)]
    rw [h1, h2, decodeBE_encodeBE_of_lt w x (by omega), decodeBE_encodeBE_of_lt w y (by omega)]
    rw [if_neg hnz]
    simp [hx, hy, hon]

/-- Encodings are identical iff the valid points are equal. -/
theorem encXY_injective (c : Curve) (w : Nat) (pre : Bytes) (hp : c.p ≤ 256 ^ w) (P Q : Pt)
    (hP : WValid c P) (hQ : WValid c Q) (h : encXY w pre P = encXY w pre Q) : P = Q := by
  have h1 := decXY_encXY c w pre hp P hP
  have h2 := decXY_encXY c w pre hp Q hQ
  rw [h] at h1
  rw [h1] at h2
  exact Option.some.inj h2

/-- The concrete encoders are instances of `encXY`. -/
theorem p256_enc_eq (P : Pt) : P256.enc P = encXY 32 [4] P := by
  cases P with
  | none => rfl
  | some xy => obtain ⟨x, y⟩ := xy; rfl

theorem bn256_enc_eq (P : Pt) : BN256.enc P = encXY 32 [] P := by
  cases P with
  | none => rfl
  | some xy => obtain ⟨x, y⟩ := xy; rfl

theorem bn254_enc_eq (P : Pt) : BN254.enc P = encXY 32 [] P := by
  cases P with
  | none => rfl
  | some xy => obtain ⟨x, y⟩ := xy; rfl

theorem p256_len (P : Pt) : (P256.enc P).length = 65 := by rw [p256_enc_eq, encXY_length]; rfl
theorem bn256_len (P : Pt) : (BN256.enc P).length = 64 := by rw [bn256_enc_eq, encXY_length]; rfl
theorem bn254_len (P : Pt) : (BN254.enc P).length = 64 := by rw [bn254_enc_eq, encXY_length]; rfl

theorem p256_fits : P256.curve.p ≤ 256 ^ 32 := by decide +kernel
theorem bn256_fits : BN256.curve.p ≤ 256 ^ 32 := by decide +kernel
theorem bn254_fits : BN254.curve.p ≤ 256 ^ 32 := by decide +kernel

/-! ### Ed25519 -/

theorem ed25519_len (P : Edwards.Pt) : (Ed25519.enc P).length = 32 := by
  show (Edwards.enc Ed25519.curve P).length = 32
  unfold Edwards.enc; exact encodeLE_length _ _

/-- The 32 bytes determine `y` and the parity of `x`. -/
theorem ed25519_enc_fields (P Q : Edwards.Pt) (hP : P.y < Ed25519.p) (hQ : Q.y < Ed25519.p)
    (hPx : P.x < Ed25519.p) (hQx : Q.x < Ed25519.p)
    (h : Ed25519.enc P = Ed25519.enc Q) : P.y = Q.y ∧ P.x % 2 = Q.x % 2 := by
  have hp : Ed25519.p < 2 ^ 255 := by decide +kernel
  have hcp : Ed25519.curve.p = Ed25519.p := rfl
  have h' : Edwards.enc Ed25519.curve P = Edwards.enc Ed25519.curve Q := h
  unfold Edwards.enc at h'
  rw [hcp, Nat.mod_eq_of_lt hP, Nat.mod_eq_of_lt hQ, Nat.mod_eq_of_lt hPx, Nat.mod_eq_of_lt hQx] at h'
  have hb1 : P.y + 2 ^ 255 * (P.x % 2) < 256 ^ 32 := by
    have : P.x % 2 < 2 := Nat.mod_lt _ (by decide)
    have e : (256 : Nat) ^ 32 = 2 * 2 ^ 255 := by decide +kernel
    rw [e]; nlinarith
  have hb2 : Q.y + 2 ^ 255 * (Q.x % 2) < 256 ^ 32 := by
    have : Q.x % 2 < 2 := Nat.mod_lt _ (by decide)
    have e : (256 : Nat) ^ 32 = 2 * 2 ^ 255 := by decide +kernel
    rw [e]; nlinarith
  have := encodeLE_injective 32 _ _ hb1 hb2 h'
  have hx1 : P.x % 2 < 2 := Nat.mod_lt _ (by decide)
  have hx2 : Q.x % 2 < 2 := Nat.mod_lt _ (by decide)
  constructor <;> omega

open Kyber.Ed25519 Kyber.EdLaw in
/-- Field-level core: two curve points with the same `y` have `x₁ = x₂` or `x₁ = -x₂`. -/
theorem ed25519_x_pm (x1 x2 y : Fp) (h1 : OnCurve aF dF x1 y) (h2 : OnCurve aF dF x2 y) :
    x1 = x2 ∨ x1 + x2 = 0 := by
  unfold OnCurve at h1 h2
  have hden : 1 + dF * y ^ 2 ≠ 0 := by
    intro h0
    apply complete.d_nonsq
    obtain ⟨α, hα⟩ := complete.a_sq
    have hy0 : y ≠ 0 := by
      intro hy0; rw [hy0] at h0; simp at h0
    refine ⟨α / y, ?_⟩
    rw [div_mul_div_comm, ← hα, eq_div_iff (mul_ne_zero hy0 hy0)]
    unfold aF
    linear_combination h0
  have hsq : (x1 - x2) * (x1 + x2) = 0 := by
    have : (x1 ^ 2 - x2 ^ 2) * (1 + dF * y ^ 2) = 0 := by
      unfold aF at h1 h2
      linear_combination h2 - h1
    rcases mul_eq_zero.mp this with h | h
    · linear_combination h
    · exact absurd h hden
  rcases mul_eq_zero.mp hsq with h | h
  · left; exact sub_eq_zero.mp h
  · right; exact h

open Kyber.Ed25519 Kyber.EdLaw in
/-- `Equal ⇔ identical bytes` on Ed25519: valid points with the same encoding are the same point
    (the sign bit picks one of the two roots `±x`; `p` is odd). -/
theorem ed25519_enc_injective (P Q : Edwards.Pt) (hP : Ed25519.Valid P) (hQ : Ed25519.Valid Q)
    (h : Ed25519.enc P = Ed25519.enc Q) : P = Q := by
  obtain ⟨hy, hpar⟩ := ed25519_enc_fields P Q hP.2.1 hQ.2.1 hP.1 hQ.1 h
  have h1 := hP.2.2
  have h2 := hQ.2.2
  rw [hy] at h1
  have hxeq : P.x = Q.x := by
    rcases ed25519_x_pm _ _ _ h1 h2 with h | h
    · have hPx : P.x < Ed25519.p := hP.1
      have hQx : Q.x < Ed25519.p := hQ.1
      exact eq_of_cast_eq hPx hQx h
    · -- x1 + x2 ≡ 0: the sum is 0 or p; p is odd, so equal parities force both to be 0
      have hc : ((P.x + Q.x : Nat) : Fp) = 0 := by push_cast; exact h
      rw [ZMod.natCast_eq_zero_iff] at hc
      have hpodd : Ed25519.p % 2 = 1 := by decide +kernel
      obtain ⟨k, hk⟩ := hc
      have hPx : P.x < Ed25519.p := hP.1
      have hQx : Q.x < Ed25519.p := hQ.1
      generalize Ed25519.p = pp at hk hpodd hPx hQx
      have hk01 : k = 0 ∨ k = 1 := by
        rcases k with _ | _ | k
        · left; rfl
        · right; rfl
        · exfalso
          have h2 : pp * 2 ≤ pp * (k + 1 + 1) := Nat.mul_le_mul_left pp (by omega)
          omega
      rcases hk01 with hk0 | hk1
      · subst hk0; omega
      · subst hk1; omega
  cases P; cases Q; simp_all

/-- Ed25519: decoding the encoding of ANY valid point returns that point (the square-root routine of the
    decoder finds the root whenever one exists; `Lib/DecodeValid.lean`). -/
theorem ed25519_roundtrip (P : Edwards.Pt) (hP : Ed25519.Valid P) : Ed25519.dec (Ed25519.enc P) = some P :=
  Ed25519.dec_enc_of_valid P hP

end Kyber.C03
