import KyberModel.Lib.DecodeBLS
/-
C04 — decoding untrusted bytes never panics and admits only valid group elements.

The decoders of `Groups/Decode.lean` (and `Kyber.Ed25519.dec` of `Groups/Edwards.lean`) are the
specification of acceptance executed by the driver. For EVERY byte string of EVERY length:

* `dec_length`  — the length guard: a string of the wrong length is rejected (for the BN groups: too
                   short; the tail of an over-long string is ignored, `dec_tail`; the residue group reads
                   a big-endian integer of any length, `dec_leading_zero`);
* `dec_valid`   — an accepted value satisfies the predicate its group promises (on the curve; reduced
                   coordinates; `r•P = O` for BLS12-381 G1, `n•P = O` for BN254 G2, `v^Q = 1` for the residue
                   group);
* `dec_enc`     — decoding the re-encoding of an accepted value yields the same value.

Totality ("never panics") is by construction: the decoders are total functions built from `take`, `drop`
and pattern matching — no partial operation occurs in `Groups/Decode.lean`.
Composite messages: a verifier/decryptor built on a failing parse or a failing component decoder rejects.
BLS12-381 G2, GT and the BN GT groups have no Lean decoder (C04 is partial there: Go-to-Go agreement and
a math/big membership oracle in the harness).
-/
namespace Kyber.C04
open Kyber Kyber.DecodeLib

/-! ### Ed25519 (constant-time and variable-time implementations share the specification) -/
namespace Ed25519
open Kyber.Ed25519 Kyber.Edwards

theorem dec_length (bs : Bytes) (h : bs.length ≠ 32) : dec bs = none := by simp [dec, h]

/-- An accepted point is on the curve and has reduced coordinates. -/
theorem dec_valid (bs : Bytes) (P : Pt) (h : dec bs = some P) : onCurve P = true ∧ P.x < p ∧ P.y < p := by
  obtain ⟨_, x0, hs, hy, hx⟩ := ed_dec_some bs P h
  obtain ⟨hv, hx0⟩ := sqrtRatio_spec p sqrtM1 _ _ x0 ed_p_pos ed_sqrtM1_sq hs
  rw [cast_subMod ed_p_pos] at hv
  have hxx : (P.x : ZMod p)^2 = (x0 : ZMod p)^2 := by
    rw [hx]; split_ifs
    · rfl
    · rw [cast_negMod ed_p_pos]; ring
  have hxlt : P.x < p := by
    rw [hx]; split_ifs
    · exact hx0
    · exact Nat.mod_lt _ ed_p_pos
  have hylt : P.y < p := by rw [hy]; exact Nat.mod_lt _ ed_p_pos
  refine ⟨?_, hxlt, hylt⟩
  have ha : ((p - 1 : Nat) : ZMod p) = -1 := by
    rw [Nat.cast_sub ed_p_pos]; simp
  apply decide_eq_true
  show ((p - 1) * P.x * P.x + P.y * P.y) % p = (1 + d * P.x % p * P.x % p * P.y % p * P.y) % p
  rw [mod_eq_iff_cast]
  push_cast [ZMod.natCast_mod] at hv ⊢
  rw [ha]
  rw [← hxx] at hv
  linear_combination -hv

/-- Re-encoding round trip. -/
theorem dec_enc (bs : Bytes) (P : Pt) (h : dec bs = some P) : dec (enc P) = some P := by
  obtain ⟨_, x0, hs, _, hx⟩ := ed_dec_some bs P h
  obtain ⟨_, hxlt, hylt⟩ := dec_valid bs P h
  have hx0 : x0 < p := (sqrtRatio_spec p sqrtM1 _ _ x0 ed_p_pos ed_sqrtM1_sq hs).2
  have hl : (enc P).length = 32 := by rw [ed_enc_eq]; simp
  rw [ed_dec_of (enc P) hl P.y (P.x % 2) x0 (by rw [ed_decodeLE_enc P hxlt hylt, ed_split_y _ _ hylt])
    (by rw [ed_decodeLE_enc P hxlt hylt, ed_split_sign _ _ hylt]) hs, ed_sign_fix x0 _ P.x hx0 hx]

/-- The lenient cases the code really has are accepted: `y ≥ p` and "−0". -/
example : dec (encodeLE 32 (2 ^ 255 - 18)) = some ⟨0, 1⟩ := by decide +kernel
example : dec (encodeLE 32 (1 + 2 ^ 255)) = some ⟨0, 1⟩ := by decide +kernel
example : dec (enc base) = some base := by decide +kernel
example : dec (encodeLE 32 2) = none := by decide +kernel

/-- `edwards25519vartime` (`decodePoint`): the same specification. -/
theorem vt_dec_length (bs : Bytes) (h : bs.length ≠ 32) : Ed25519Vt.dec bs = none := dec_length bs h
theorem vt_dec_valid (bs : Bytes) (P : Pt) (h : Ed25519Vt.dec bs = some P) :
    onCurve P = true ∧ P.x < p ∧ P.y < p := dec_valid bs P h
theorem vt_dec_enc (bs : Bytes) (P : Pt) (h : Ed25519Vt.dec bs = some P) :
    Ed25519Vt.dec (Ed25519Vt.enc P) = some P := dec_enc bs P h
end Ed25519

/-! ### P-256 -/
namespace P256
open Kyber.P256 Kyber.Weierstrass

theorem dec_length (bs : Bytes) (h : bs.length ≠ 65) : dec bs = none := by
  cases bs with
  | nil => rfl
  | cons b rest =>
    have : rest.length ≠ 64 := by simpa using h
    simp [dec, this]

/-- A wrong format byte is rejected. -/
theorem dec_format (b : UInt8) (rest : Bytes) (h : b ≠ 4) : dec (b :: rest) = none := by
  simp only [dec]; split_ifs <;> rfl

theorem dec_valid (bs : Bytes) (P : Pt) (h : dec bs = some P) :
    onCurve curve P = true ∧ ∀ x y, P = some (x, y) → x < p ∧ y < p ∧ ¬ (x = 0 ∧ y = 0) := by
  cases bs with
  | nil => simp [dec] at h
  | cons b rest =>
    simp only [dec] at h
    split_ifs at h with h1 h2 h3 h4
    · cases h; exact ⟨rfl, by simp⟩
    · cases h
      refine ⟨h4.2.2, ?_⟩
      intro x y hxy; cases hxy; exact ⟨h4.1, h4.2.1, h3⟩

theorem p_lt : p < 256 ^ 32 := by norm_num [p]

theorem dec_enc (bs : Bytes) (P : Pt) (h : dec bs = some P) : dec (enc P) = some P := by
  obtain ⟨hc, hlt⟩ := dec_valid bs P h
  cases P with
  | none => decide +kernel
  | some xy =>
    obtain ⟨x, y⟩ := xy
    obtain ⟨hx, hy, hne⟩ := hlt x y rfl
    have hx' : x < 256 ^ 32 := lt_trans hx p_lt
    have hy' : y < 256 ^ 32 := lt_trans hy p_lt
    simp only [enc, dec, List.length_append, encodeBE_length]
    rw [take_append_of_length _ _ 32 (by simp), drop_append_of_length _ _ 32 (by simp),
      decodeBE_encodeBE_of_lt 32 x hx', decodeBE_encodeBE_of_lt 32 y hy']
    simp [hne, hx, hy, hc]

example : dec (enc base) = some base := by decide +kernel
/-- `04 ‖ 1 ‖ 1` (accepted by the unpatched code) is rejected. -/
example : dec (4 :: (encodeBE 32 1 ++ encodeBE 32 1)) = none := by decide +kernel
end P256

/-! ### Residue group -/
namespace Residue
open Kyber.Residue

/-- Accepted values are in `(0, P)` and have order dividing `Q`. -/
theorem dec_valid (P Q : Nat) (bs : Bytes) (v : Nat) (h : dec P Q bs = some v) :
    0 < v ∧ v < P ∧ (v : ZMod P) ^ Q = 1 := by
  unfold dec at h
  simp only at h
  split_ifs at h with hv
  cases h
  simp only [valid, Bool.and_eq_true, decide_eq_true_eq] at hv
  refine ⟨hv.1.1, hv.1.2, ?_⟩
  have := powMod_spec (decodeBE bs) Q P
  rw [hv.2] at this
  simpa using this.symm

/-- Only the integer value matters: leading zero bytes (any length) are ignored. -/
theorem dec_leading_zero (P Q : Nat) (bs : Bytes) : dec P Q (0 :: bs) = dec P Q bs := by
  have : decodeBE (0 :: bs) = decodeBE bs := by simp [decodeBE]
  simp only [dec, this]

/-- A string whose value is not below `P` is rejected whatever its length. -/
theorem dec_range (P Q : Nat) (bs : Bytes) (h : P ≤ decodeBE bs ∨ decodeBE bs = 0) : dec P Q bs = none := by
  unfold dec
  simp only
  have : valid P Q (decodeBE bs) = false := by
    simp only [valid, Bool.and_eq_false_imp, Bool.and_eq_true, decide_eq_true_eq, decide_eq_false_iff_not]
    intro ⟨h1, h2⟩; omega
  simp [this]

theorem dec_enc (P Q : Nat) (bs : Bytes) (v : Nat) (h : dec P Q bs = some v) :
    dec P Q (enc P v) = some v := by
  unfold dec at h
  simp only at h
  split_ifs at h with hv
  cases h
  have hlt : decodeBE bs < P := by
    simp only [valid, Bool.and_eq_true, decide_eq_true_eq] at hv; exact hv.1.2
  have := bitLen_bound P
  unfold dec enc encLen
  simp only
  rw [decodeBE_encodeBE_of_lt _ _ (lt_trans hlt this)]
  simp [hv]

example : dec 23 11 [4] = some 4 := by decide
example : dec 23 11 [5] = none := by decide
end Residue

/-! ### BN256 / BN254 G1 -/
namespace BN256
open Kyber.BN256 Kyber.Weierstrass

theorem dec_length (bs : Bytes) (h : bs.length < 64) : dec bs = none := by
  simp [dec, h]

/-- Bytes after the 64th are ignored. -/
theorem dec_tail (bs : Bytes) (h : 64 ≤ bs.length) : dec bs = dec (bs.take 64) := by
  have h1 : ¬ bs.length < 64 := by omega
  have h2 : ¬ (bs.take 64).length < 64 := by simp; omega
  simp only [dec, h1, h2, if_false, List.take_take, List.drop_take]
  simp

theorem p_lt : p < 256 ^ 32 := by norm_num [p]
theorem p_pos : 0 < p := by norm_num [p]

theorem dec_valid (bs : Bytes) (P : Pt) (h : dec bs = some P) :
    onCurve curve P = true ∧ ∀ x y, P = some (x, y) → x < p ∧ y < p ∧ ¬ (x = 0 ∧ y = 0) := by
  simp only [dec] at h
  split_ifs at h with h1 h2 h3
  · cases h; exact ⟨rfl, by simp⟩
  · cases h
    refine ⟨h3, ?_⟩
    intro x y hxy; cases hxy
    exact ⟨Nat.mod_lt _ p_pos, Nat.mod_lt _ p_pos, h2⟩

theorem dec_enc (bs : Bytes) (P : Pt) (h : dec bs = some P) : dec (enc P) = some P := by
  obtain ⟨hc, hlt⟩ := dec_valid bs P h
  cases P with
  | none => decide +kernel
  | some xy =>
    obtain ⟨x, y⟩ := xy
    obtain ⟨hx, hy, hne⟩ := hlt x y rfl
    have hx' : x < 256 ^ 32 := lt_trans hx p_lt
    have hy' : y < 256 ^ 32 := lt_trans hy p_lt
    unfold dec enc
    simp only [List.length_append, encodeBE_length]
    rw [take_append_of_length _ _ 32 (by simp), drop_append_of_length _ _ 32 (by simp),
      List.take_of_length_le (by simp),
      decodeBE_encodeBE_of_lt 32 x hx', decodeBE_encodeBE_of_lt 32 y hy',
      Nat.mod_eq_of_lt hx, Nat.mod_eq_of_lt hy]
    simp [hne, hc]

example : dec (enc base) = some base := by decide +kernel
/-- Coordinates in `[p, 2^256)` are accepted and reduced: `(p+1, p-2)` decodes to the base point `(1, p-2)`. -/
example : dec (encodeBE 32 (p + 1) ++ encodeBE 32 (p - 2)) = some base := by decide +kernel
end BN256

namespace BN254
open Kyber.BN254 Kyber.Weierstrass

theorem dec_length (bs : Bytes) (h : bs.length < 64) : dec bs = none := by
  simp [dec, h]

theorem dec_tail (bs : Bytes) (h : 64 ≤ bs.length) : dec bs = dec (bs.take 64) := by
  have h1 : ¬ bs.length < 64 := by omega
  have h2 : ¬ (bs.take 64).length < 64 := by simp; omega
  simp only [dec, h1, h2, if_false, List.take_take, List.drop_take]
  simp

theorem p_lt : p < 256 ^ 32 := by norm_num [p]

theorem dec_valid (bs : Bytes) (P : Pt) (h : dec bs = some P) :
    onCurve curve P = true ∧ ∀ x y, P = some (x, y) → x < p ∧ y < p ∧ ¬ (x = 0 ∧ y = 0) := by
  simp only [dec] at h
  split_ifs at h with h1 h2 h3 h4
  · cases h; exact ⟨rfl, by simp⟩
  · cases h
    refine ⟨h4, ?_⟩
    intro x y hxy; cases hxy
    exact ⟨by omega, by omega, h3⟩

theorem dec_enc (bs : Bytes) (P : Pt) (h : dec bs = some P) : dec (enc P) = some P := by
  obtain ⟨hc, hlt⟩ := dec_valid bs P h
  cases P with
  | none => decide +kernel
  | some xy =>
    obtain ⟨x, y⟩ := xy
    obtain ⟨hx, hy, hne⟩ := hlt x y rfl
    have hx' : x < 256 ^ 32 := lt_trans hx p_lt
    have hy' : y < 256 ^ 32 := lt_trans hy p_lt
    unfold dec enc
    simp only [List.length_append, encodeBE_length]
    rw [take_append_of_length _ _ 32 (by simp), drop_append_of_length _ _ 32 (by simp),
      List.take_of_length_le (by simp),
      decodeBE_encodeBE_of_lt 32 x hx', decodeBE_encodeBE_of_lt 32 y hy']
    have : ¬ (p ≤ x ∨ p ≤ y) := by omega
    simp [hne, hc, this]

example : dec (enc base) = some base := by decide +kernel
/-- Coordinates `≥ p` are rejected (unlike BN256). -/
example : dec (encodeBE 32 (p + 1) ++ encodeBE 32 2) = none := by decide +kernel
end BN254

/-! ### BLS12-381 G1 (ZCash compressed form) -/
namespace BLS12381
open Kyber.BLS12381 Kyber.Weierstrass Kyber.DecodeLib.BLS

theorem dec_length (bs : Bytes) (h : bs.length ≠ 48) : dec bs = none := by
  cases bs with
  | nil => rfl
  | cons b rest =>
    have : rest.length ≠ 47 := by simpa using h
    simp [dec, this]

/-- An accepted point is on the curve and in the subgroup of order `r`. -/
theorem dec_valid (bs : Bytes) (P : Pt) (h : dec bs = some P) :
    onCurve curve P = true ∧ smul curve r P = none := by
  cases bs with
  | nil => simp [dec] at h
  | cons b rest =>
    simp only [dec] at h
    split_ifs at h with h1 h2 h3 h4
    · cases h; exact ⟨rfl, smul_none _ _⟩
    · exact decXY_valid _ _ _ h

theorem dec_enc (bs : Bytes) (P : Pt) (h : dec bs = some P) : dec (enc P) = some P := by
  cases P with
  | none => decide +kernel
  | some xy =>
    obtain ⟨x, y⟩ := xy
    have hshape : ∃ big, decXY big x = some (some (x, y)) := by
      cases bs with
      | nil => simp [dec] at h
      | cons b rest =>
        simp only [dec] at h
        split_ifs at h with h1 h2 h3 h4
        · cases h
        · obtain ⟨_, y0, _, hP, _⟩ := decXY_some _ _ _ h
          have hx : decodeBE (UInt8.ofNat (b.toNat % 32) :: rest) = x :=
            (Prod.mk.inj (Option.some.inj hP)).1.symm
          rw [hx] at h
          exact ⟨_, h⟩
    obtain ⟨big, hd⟩ := hshape
    obtain ⟨hx, y0, hs, hP, hr⟩ := decXY_some big x _ hd
    have hy : y = pickRoot big y0 := (Prod.mk.inj (Option.some.inj hP)).2
    obtain ⟨_, hy0⟩ := sqrtFp_some _ _ hs
    rw [enc_some x y hx]
    have hflag : (if y > (p - 1) / 2 then (0xa0 : UInt8) else 0x80) = (if decide (half < y) then 0xa0 else 0x80) := by
      unfold half
      by_cases hc : (p - 1) / 2 < y <;> simp [hc]
    rw [hflag, dec_compressed x hx (decide (half < y)), hy,
      decXY_of _ x y0 hx hs (by rw [root_fix y0 big hy0, ← hy]; exact hr), root_fix y0 big hy0]

example : dec (enc base) = some base := by decide +kernel


/-- Also in the forms only CIRCL and gnark accept (over-long, uncompressed), an accepted point is on the
    curve and in the subgroup. -/
theorem decLenient_valid (z : Bool) (bs : Bytes) (P : Pt) (h : decLenient z bs = some P) :
    onCurve curve P = true ∧ smul curve r P = none := by
  cases bs with
  | nil => simp [decLenient] at h
  | cons b rest =>
    simp only [decLenient] at h
    split_ifs at h
    all_goals first
      | (cases h; exact ⟨rfl, smul_none _ _⟩)
      | exact dec_valid _ _ h
      | exact decAffine_valid _ _ _ h

theorem decLenient_length (z : Bool) (bs : Bytes) (h : bs.length < 48) : decLenient z bs = none := by
  cases bs with
  | nil => rfl
  | cons b rest =>
    have : rest.length < 47 := by simp at h; omega
    simp [decLenient, this]

end BLS12381

/-! ### BN256 / BN254 G2 (over `Fp2`) -/

namespace BN256G2
open Kyber.BN256 Kyber.Fp2

theorem decG2_length (bs : Bytes) (h : bs.length < 128) : decG2 bs = none := by
  simp [decG2, DecodeLib.G2.coords_length bs h]

theorem p_lt : p < 256 ^ 32 := by norm_num [p]
theorem p_pos : 0 < p := by norm_num [p]

/-- Accepted G2 points are on the twist and have reduced coordinates. -/
theorem decG2_valid (bs : Bytes) (P : Fp2.Pt) (h : decG2 bs = some P) :
    Fp2.onCurve twist P = true ∧ ∀ x y, P = some (x, y) →
      x.1 < p ∧ x.2 < p ∧ y.1 < p ∧ y.2 < p ∧ ¬ (isZero x && isZero y) = true := by
  unfold decG2 at h
  split at h
  · cases h
  · rename_i x y _
    simp only at h
    split_ifs at h with h1 h2
    · cases h; exact ⟨rfl, by simp⟩
    · cases h
      refine ⟨h2, ?_⟩
      intro x' y' hxy
      obtain ⟨rfl, rfl⟩ := Prod.mk.inj (Option.some.inj hxy)
      exact ⟨Nat.mod_lt _ p_pos, Nat.mod_lt _ p_pos, Nat.mod_lt _ p_pos, Nat.mod_lt _ p_pos, h1⟩

theorem decG2_enc (bs : Bytes) (P : Fp2.Pt) (h : decG2 bs = some P) : decG2 (Fp2.enc P) = some P := by
  obtain ⟨hc, hlt⟩ := decG2_valid bs P h
  cases P with
  | none => decide +kernel
  | some xy =>
    obtain ⟨x, y⟩ := xy
    obtain ⟨h1, h2, h3, h4, hne⟩ := hlt x y rfl
    have hp := p_lt
    unfold decG2
    rw [DecodeLib.G2.coords_enc x y (by omega) (by omega) (by omega) (by omega)]
    have rx : red p x = x := by unfold red; rw [Nat.mod_eq_of_lt h1, Nat.mod_eq_of_lt h2]
    have ry : red p y = y := by unfold red; rw [Nat.mod_eq_of_lt h3, Nat.mod_eq_of_lt h4]
    simp only [rx, ry]
    rw [if_neg hne, if_pos hc]
end BN256G2

namespace BN254G2
open Kyber.BN254 Kyber.Fp2

theorem decG2_length (bs : Bytes) (h : bs.length < 128) : decG2 bs = none := by
  simp [decG2, DecodeLib.G2.coords_length bs h]

theorem p_lt : p < 256 ^ 32 := by norm_num [p]

/-- Accepted G2 points are on the twist, of order dividing `n`, with reduced coordinates. -/
theorem decG2_valid (bs : Bytes) (P : Fp2.Pt) (h : decG2 bs = some P) :
    Fp2.onCurve twist P = true ∧ Fp2.smul twist n P = none ∧ ∀ x y, P = some (x, y) →
      x.1 < p ∧ x.2 < p ∧ y.1 < p ∧ y.2 < p ∧ ¬ (isZero x && isZero y) = true := by
  unfold decG2 at h
  split at h
  · cases h
  · rename_i x y _
    split_ifs at h with h1 h2 h3
    · cases h; exact ⟨rfl, fp2_smul_none _ _, by simp⟩
    · cases h
      refine ⟨h3.1, h3.2, ?_⟩
      intro x' y' hxy
      obtain ⟨rfl, rfl⟩ := Prod.mk.inj (Option.some.inj hxy)
      exact ⟨by omega, by omega, by omega, by omega, h2⟩

theorem decG2_enc (bs : Bytes) (P : Fp2.Pt) (h : decG2 bs = some P) : decG2 (Fp2.enc P) = some P := by
  obtain ⟨hc, hr, hlt⟩ := decG2_valid bs P h
  cases P with
  | none => decide +kernel
  | some xy =>
    obtain ⟨x, y⟩ := xy
    obtain ⟨h1, h2, h3, h4, hne⟩ := hlt x y rfl
    have hp := p_lt
    unfold decG2
    rw [DecodeLib.G2.coords_enc x y (by omega) (by omega) (by omega) (by omega)]
    simp only []
    rw [if_neg (by omega), if_neg hne, if_pos ⟨hc, hr⟩]
end BN254G2

/-! ### Scalars -/
namespace Scalar
open Kyber.Scalar

theorem decBounded_length (q len : Nat) (le exact : Bool) (bs : Bytes)
    (h : bs.length < len ∨ (exact = true ∧ bs.length ≠ len)) : decBounded q len le exact bs = none := by
  unfold decBounded
  rcases h with h | ⟨h1, h2⟩
  · simp [h]
  · simp [h1, h2]

/-- Accepted scalars are in range. -/
theorem decBounded_lt (q len : Nat) (le exact : Bool) (bs : Bytes) (v : Nat)
    (h : decBounded q len le exact bs = some v) : v < q := by
  unfold decBounded at h
  by_cases h1 : (exact = true ∧ bs.length ≠ len) ∨ bs.length < len
  · simp [h1] at h
  · simp only [h1, if_false] at h
    cases le <;> simp at h <;> (obtain ⟨h2, h3⟩ := h; omega)

theorem decBounded_encLE (q len : Nat) (exact : Bool) (v : Nat) (hv : v < q) (hq : q ≤ 256 ^ len) :
    decBounded q len true exact (encodeLE len v) = some v := by
  unfold decBounded
  have : v < 256 ^ len := lt_of_lt_of_le hv hq
  simp [decodeLE_encodeLE_of_lt len v this, hv, List.take_of_length_le]

theorem decBounded_encBE (q len : Nat) (exact : Bool) (v : Nat) (hv : v < q) (hq : q ≤ 256 ^ len) :
    decBounded q len false exact (encodeBE len v) = some v := by
  unfold decBounded
  have : v < 256 ^ len := lt_of_lt_of_le hv hq
  simp [decodeBE_encodeBE_of_lt len v this, hv, List.take_of_length_le]

/-- The modulus always fits the `mod.Int` length. -/
theorem modInt_fits (q : Nat) : q ≤ 256 ^ modIntLen q := le_of_lt (bitLen_bound q)

theorem decEd_length (bs : Bytes) (h : bs.length ≠ 32) : decEd bs = none := by simp [decEd, h]

theorem decEd_lt (bs : Bytes) (v : Nat) (h : decEd bs = some v) : v < 256 ^ 32 := by
  unfold decEd at h
  split_ifs at h with h1
  cases h
  have := decodeLE_lt bs
  rw [not_not] at h1
  rwa [h1] at this

/-- gnark scalars: every string is accepted, the value is reduced. -/
theorem decGnark_lt (r : Nat) (hr : 0 < r) (bs : Bytes) : ∃ v, decGnark r bs = some v ∧ v < r :=
  ⟨_, rfl, Nat.mod_lt _ hr⟩

example : decBounded 13 1 false true [12] = some 12 := by decide
example : decBounded 13 1 false true [13] = none := by decide
end Scalar

/-! ### Composite messages: a failing parse or component decoder means rejection -/
namespace Composite
open Kyber.Composite

theorem splitExact_length (n m : Nat) (bs : Bytes) (h : bs.length ≠ n + m) : splitExact n m bs = none := by
  simp [splitExact, h]

theorem splitExact_some (n m : Nat) (bs a b : Bytes) (h : splitExact n m bs = some (a, b)) :
    a.length = n ∧ b.length = m ∧ a ++ b = bs := by
  unfold splitExact at h
  split_ifs at h with h1
  cases h
  rw [not_not] at h1
  simp [h1]

theorem accepts2_false_of_length {P S : Type} (n m : Nat) (decP : Bytes → Option P) (decS : Bytes → Option S)
    (eqn : P → S → Bool) (sig : Bytes) (h : sig.length ≠ n + m) : accepts2 n m decP decS eqn sig = false := by
  simp [accepts2, splitExact_length n m sig h]

theorem accepts2_false_of_point {P S : Type} (n m : Nat) (decP : Bytes → Option P) (decS : Bytes → Option S)
    (eqn : P → S → Bool) (sig : Bytes) (h : decP (sig.take n) = none) : accepts2 n m decP decS eqn sig = false := by
  unfold accepts2 splitExact
  split_ifs <;> simp [h]

theorem accepts2_false_of_scalar {P S : Type} (n m : Nat) (decP : Bytes → Option P) (decS : Bytes → Option S)
    (eqn : P → S → Bool) (sig : Bytes) (h : decS (sig.drop n) = none) : accepts2 n m decP decS eqn sig = false := by
  unfold accepts2 splitExact
  split_ifs
  · rfl
  · simp only [h]; cases decP (List.take n sig) <;> rfl

theorem accepts1_false {P : Type} (decP : Bytes → Option P) (eqn : P → Bool) (sig : Bytes) (h : decP sig = none) :
    accepts1 decP eqn sig = false := by simp [accepts1, h]

theorem opens_none_of_short {P : Type} (n : Nat) (decP : Bytes → Option P) (aead : P → Bytes → Option Bytes)
    (ctx : Bytes) (h : ctx.length < n) : opens n decP aead ctx = none := by
  simp [opens, splitPrefix, h]

theorem opens_none_of_point {P : Type} (n : Nat) (decP : Bytes → Option P) (aead : P → Bytes → Option Bytes)
    (ctx : Bytes) (h : decP (ctx.take n) = none) : opens n decP aead ctx = none := by
  unfold opens splitPrefix
  split_ifs <;> simp [h]

theorem splitCosi_length (a b c : Nat) (bs : Bytes) (h : bs.length ≠ a + b + c) : splitCosi a b c bs = none := by
  simp [splitCosi, h]

theorem splitRing_length (l : Bool) (a b n : Nat) (bs : Bytes)
    (h : bs.length < (if l then a else 0) + b * (n + 1)) : splitRing l a b n bs = none := by
  simp [splitRing, h]

example : splitExact 1 1 [1, 2] = some ([1], [2]) := by decide
end Composite

end Kyber.C04
