import KyberModel.Lib.Enc
import KyberModel.Lib.EncAnon
/-
C16 — encryption round-trips, hides the plaintext and rejects altered ciphertexts.

Property theorems only. Model: `Kyber.Enc` (Proto/Enc.lean — ECIES, Boneh–Franklin IBE CCA/CPA, anon-set
encryption AS CODED, in the discrete-log representation). These are the definitions the driver
executes (Drive/Enc.lean).

Named hypotheses (Lib/Enc.lean): `CodecOK` (encodings are fixed-length, canonical, round-trip — C03),
`AeadOK` = H_AEAD (opens exactly what it sealed under the same key material, rejects otherwise),
H_KDF (the KDF is a function — it is one here by typing), `IbeOK`/`AnonOK` (digest / stream lengths).
"Tampering is rejected" is proved in the form "accepted ⇒ explicit structural condition" (H_RO style),
plus corollaries under stated collision-freeness hypotheses.
-/
namespace Kyber.Enc

/-! ## ECIES -/
section Ecies
variable {K : Type} (c : Codec) (kdf : Nat → K) (a : Aead K)

/-- Round trip for every message (empty and arbitrarily long included), every key and every ephemeral. -/
theorem ecies_roundtrip (hc : CodecOK c) (ha : AeadOK a) (x r : Nat) (msg : Bytes) :
    eciesDecrypt c kdf a x (eciesEncrypt c kdf a x r msg) = some msg := by
  have hr : r % c.q < c.q := Nat.mod_lt _ hc.q_pos
  unfold eciesDecrypt eciesEncrypt
  have hl : ¬ (c.encPoint (r % c.q) ++ a.sealBox (kdf (r * x % c.q)) msg).length < c.pointLen := by
    simp [hc.encPoint_len]
  rw [if_neg hl]
  have ht : (c.encPoint (r % c.q) ++ a.sealBox (kdf (r * x % c.q)) msg).take c.pointLen = c.encPoint (r % c.q) := by
    rw [List.take_append_of_le_length (by rw [hc.encPoint_len]), List.take_of_length_le (by rw [hc.encPoint_len])]
  have hd : (c.encPoint (r % c.q) ++ a.sealBox (kdf (r * x % c.q)) msg).drop c.pointLen = a.sealBox (kdf (r * x % c.q)) msg := by
    rw [← hc.encPoint_len (r % c.q)]; exact List.drop_left
  rw [ht, hd, hc.decPoint_enc _ hr]
  simp only
  rw [mul_mod_comm3, ha.open_seal]

/-- Complete characterisation of what `Decrypt` accepts: exactly `R' ‖ box` where `box` is a box sealed
    under the key derived from `private·R'` — nothing else (altered, truncated, extended) is accepted. -/
theorem ecies_accept_iff (hc : CodecOK c) (ha : AeadOK a) (x : Nat) (ct m : Bytes) :
    eciesDecrypt c kdf a x ct = some m ↔
      ∃ R, R < c.q ∧ ct = c.encPoint R ++ a.sealBox (kdf (x * R % c.q)) m := by
  unfold eciesDecrypt
  constructor
  · intro h
    split at h
    · exact absurd h (by simp)
    · rename_i hl
      cases hd : c.decPoint (ct.take c.pointLen) with
      | none => simp [hd] at h
      | some R =>
        simp only [hd] at h
        obtain ⟨hR, henc⟩ := hc.decPoint_canon _ _ hd
        refine ⟨R, hR, ?_⟩
        rw [← ha.only_sealed _ _ _ h, ← henc, List.take_append_drop]
  · rintro ⟨R, hR, rfl⟩
    have hl : ¬ (c.encPoint R ++ a.sealBox (kdf (x * R % c.q)) m).length < c.pointLen := by
      simp [hc.encPoint_len]
    rw [if_neg hl]
    have ht : (c.encPoint R ++ a.sealBox (kdf (x * R % c.q)) m).take c.pointLen = c.encPoint R := by
      rw [List.take_append_of_le_length (by rw [hc.encPoint_len]), List.take_of_length_le (by rw [hc.encPoint_len])]
    have hd : (c.encPoint R ++ a.sealBox (kdf (x * R % c.q)) m).drop c.pointLen = a.sealBox (kdf (x * R % c.q)) m := by
      rw [← hc.encPoint_len R]; exact List.drop_left
    rw [ht, hd, hc.decPoint_enc _ hR]
    exact ha.open_seal _ _

/-- A ciphertext truncated inside the ephemeral point is an error. -/
theorem ecies_truncated_point (x : Nat) (ct : Bytes) (h : ct.length < c.pointLen) :
    eciesDecrypt c kdf a x ct = none := by
  simp [eciesDecrypt, h]

/-- Another private key whose derived key material differs ⇒ error. -/
theorem ecies_wrong_key (hc : CodecOK c) (ha : AeadOK a) (x x' r : Nat) (msg : Bytes)
    (hk : kdf (x' * (r % c.q) % c.q) ≠ kdf (r * x % c.q)) :
    eciesDecrypt c kdf a x' (eciesEncrypt c kdf a x r msg) = none := by
  cases h : eciesDecrypt c kdf a x' (eciesEncrypt c kdf a x r msg) with
  | none => rfl
  | some m =>
    exfalso
    obtain ⟨R, hR, heq⟩ := (ecies_accept_iff c kdf a hc ha x' _ m).mp h
    unfold eciesEncrypt at heq
    obtain ⟨h1, h2⟩ := List.append_inj heq (by rw [hc.encPoint_len, hc.encPoint_len])
    have hRr : r % c.q = R := by
      have := congrArg c.decPoint h1
      rw [hc.decPoint_enc _ (Nat.mod_lt _ hc.q_pos), hc.decPoint_enc _ hR] at this
      exact Option.some.inj this
    subst hRr
    have := ha.other_key _ _ msg (Ne.symm hk)
    rw [h2, ha.open_seal] at this
    exact absurd this (by simp)

/-- Over a prime-order group distinct private keys give distinct DH values (so `ecies_wrong_key` applies
    whenever the KDF does not collide on them). -/
theorem ecies_dh_distinct (q x x' r : Nat) (hq : q.Prime) (hr : r % q ≠ 0) (hx : x % q ≠ x' % q) :
    x * (r % q) % q ≠ x' * (r % q) % q := by
  intro h
  have hcop : Nat.Coprime q (r % q) := by
    rw [Nat.Prime.coprime_iff_not_dvd hq]
    intro hd
    have := Nat.le_of_dvd (Nat.pos_of_ne_zero hr) hd
    have := Nat.mod_lt r hq.pos
    omega
  have hm : x * (r % q) ≡ x' * (r % q) [MOD q] := h
  have := Nat.ModEq.cancel_right_of_coprime hcop hm
  exact hx this

/-- On a well-formed `R ‖ body` decryption is: open `body` under the key derived from `private·R`. -/
theorem ecies_decrypt_parts (hc : CodecOK c) (x R : Nat) (hR : R < c.q) (body : Bytes) :
    eciesDecrypt c kdf a x (c.encPoint R ++ body) = a.openBox (kdf (x * R % c.q)) body := by
  unfold eciesDecrypt
  have hl : ¬ (c.encPoint R ++ body).length < c.pointLen := by simp [hc.encPoint_len]
  rw [if_neg hl]
  have ht : (c.encPoint R ++ body).take c.pointLen = c.encPoint R := by
    rw [List.take_append_of_le_length (by rw [hc.encPoint_len]), List.take_of_length_le (by rw [hc.encPoint_len])]
  have hd : (c.encPoint R ++ body).drop c.pointLen = body := by
    rw [← hc.encPoint_len R]; exact List.drop_left
  rw [ht, hd, hc.decPoint_enc _ hR]

/-- Altering only the ephemeral point `R` ⇒ error, unless the KDF collides on the two DH values. -/
theorem ecies_altered_R (hc : CodecOK c) (ha : AeadOK a) (x r R' : Nat) (msg : Bytes) (hR' : R' < c.q)
    (hk : kdf (x * R' % c.q) ≠ kdf (r * x % c.q)) :
    eciesDecrypt c kdf a x (c.encPoint R' ++ a.sealBox (kdf (r * x % c.q)) msg) = none := by
  rw [ecies_decrypt_parts c kdf a hc x R' hR']
  exact ha.other_key _ _ msg (Ne.symm hk)

/-- Altering, truncating or extending only the body ⇒ error, unless the new body is itself a box sealed
    under the secret derived key (AEAD forgery). In particular: any truncation and any bit flip of a
    body for which no sealing exists. -/
theorem ecies_altered_body (hc : CodecOK c) (ha : AeadOK a) (x r : Nat) (body' : Bytes)
    (hfresh : ∀ m', body' ≠ a.sealBox (kdf (r * x % c.q)) m') :
    eciesDecrypt c kdf a x (c.encPoint (r % c.q) ++ body') = none := by
  rw [ecies_decrypt_parts c kdf a hc x _ (Nat.mod_lt _ hc.q_pos), mul_mod_comm3]
  cases h : a.openBox (kdf (r * x % c.q)) body' with
  | none => rfl
  | some m => exact absurd (ha.only_sealed _ _ _ h) (hfresh m)

/-- The message enters the ciphertext only through the AEAD, under key material that is a KDF output. -/
theorem ecies_body_is_sealed (x r : Nat) (msg : Bytes) :
    (eciesEncrypt c kdf a x r msg).drop (c.encPoint (r % c.q)).length = a.sealBox (kdf (r * x % c.q)) msg := by
  simp [eciesEncrypt]

end Ecies

/-! ## Boneh–Franklin IBE, CCA (Fujisaki–Okamoto) — G1 and G2 variants alike -/
section IbeCCA
variable (q : Nat) (o : IbeOracles)

/-- CCA refuses plaintexts longer than the hash size, on encryption and on decryption. -/
theorem cca_refuses_long (gid : Nat) (sigma msg : Bytes) (h : msg.length > o.hs) :
    ibeEncryptCCA q o gid sigma msg = none := by
  simp [ibeEncryptCCA, h]

theorem cca_decrypt_refuses_long (priv : Nat) (ct : IbeCt) (h : ct.W.length > o.hs) :
    ibeDecryptCCA q o priv ct = none := by
  simp [ibeDecryptCCA, h]

/-- What an honest CCA ciphertext looks like. -/
theorem cca_encrypt_eq (gid : Nat) (sigma msg : Bytes) (ct : IbeCt)
    (h : ibeEncryptCCA q o gid sigma msg = some ct) :
    msg.length ≤ o.hs ∧ ∃ r, o.h3 sigma msg = some r ∧ ct.U = r % q ∧
      ct.V = xorBytes sigma (gtToHash o (r * gid % q) msg.length) ∧
      ct.W = xorBytes msg (h4pad o sigma msg.length) := by
  unfold ibeEncryptCCA at h
  split at h
  · exact absurd h (by simp)
  · rename_i hl
    cases hr : o.h3 sigma msg with
    | none => simp [hr] at h
    | some r =>
      simp only [hr, Option.some.injEq] at h
      subst h
      exact ⟨by omega, r, rfl, rfl, rfl, rfl⟩

/-- Round trip for every accepted message — length 0 up to and including the hash size. `gid` is the
    pairing value `e(master, H(ID))`, `priv` the identity's key; they have the same logarithm. -/
theorem cca_roundtrip (ok : IbeOK o) (gid priv : Nat) (sigma msg : Bytes) (ct : IbeCt)
    (hkey : gid % q = priv % q) (hs : sigma.length = msg.length)
    (h : ibeEncryptCCA q o gid sigma msg = some ct) :
    ibeDecryptCCA q o priv ct = some msg := by
  obtain ⟨hlen, r, hr, hU, hV, hW⟩ := cca_encrypt_eq q o gid sigma msg ct h
  have hpl := gtToHash_length o (r * gid % q) msg.length
  have h4l := h4pad_length o ok sigma msg.length hlen
  have hWl : ct.W.length = msg.length := by rw [hW, xorBytes_length, h4l]; simp
  have hVl : ct.V.length = msg.length := by rw [hV, xorBytes_length, hpl, hs]; simp
  have hgt : ct.U * priv % q = r * gid % q := by
    rw [hU, Nat.mul_mod, Nat.mod_mod, ← hkey, ← Nat.mul_mod]
  unfold ibeDecryptCCA
  have h1 : ¬ ct.W.length > o.hs := by omega
  rw [if_neg h1]
  simp only [hgt, hWl]
  have h2 : ¬ (gtToHash o (r * gid % q) msg.length).length ≠ ct.V.length := by
    rw [hpl, hVl]; simp
  rw [if_neg h2]
  have hsig : xorBytes (gtToHash o (r * gid % q) msg.length) ct.V = sigma := by
    rw [hV, xorBytes_comm sigma, xorBytes_cancel_left _ _ (by rw [hpl, hs])]
  have hmsg : xorBytes (h4pad o sigma msg.length) ct.W = msg := by
    rw [hW, xorBytes_comm msg, xorBytes_cancel_left _ _ (by rw [h4l])]
  rw [hsig, hmsg, hr]
  simp [hU]

/-- Complete characterisation of what CCA decryption accepts: the Fujisaki–Okamoto check — the point `U`
    must be `H3(σ', m')·P` for the very `σ'`, `m'` that `(U, V, W)` decrypt to. -/
theorem cca_accept_iff (priv : Nat) (ct : IbeCt) (m : Bytes) :
    ibeDecryptCCA q o priv ct = some m ↔
      ct.W.length ≤ o.hs ∧ ct.V.length = ct.W.length ∧
      m = xorBytes (h4pad o (xorBytes (gtToHash o (ct.U * priv % q) ct.W.length) ct.V) ct.W.length) ct.W ∧
      ∃ r, o.h3 (xorBytes (gtToHash o (ct.U * priv % q) ct.W.length) ct.V) m = some r ∧ r % q = ct.U := by
  unfold ibeDecryptCCA
  have hpl := gtToHash_length o (ct.U * priv % q) ct.W.length
  constructor
  · intro h
    split at h
    · exact absurd h (by simp)
    · rename_i h1
      simp only at h
      split at h
      · exact absurd h (by simp)
      · rename_i h2
        rw [hpl] at h2
        split at h
        · exact absurd h (by simp)
        · rename_i r hr
          split at h
          · rename_i hU
            have hm := Option.some.inj h
            subst hm
            exact ⟨by omega, by omega, rfl, r, hr, hU⟩
          · exact absurd h (by simp)
  · rintro ⟨h1, h2, hm, r, hr, hU⟩
    have : ¬ ct.W.length > o.hs := by omega
    rw [if_neg this]
    simp only
    have : ¬ (gtToHash o (ct.U * priv % q) ct.W.length).length ≠ ct.V.length := by rw [hpl, h2]; simp
    rw [if_neg this]
    rw [← hm, hr]
    simp [hU]

/-- `H3` (to a scalar, modulo `q`) is collision-free — the random-oracle idealisation under which the
    FO check binds `(σ, m)`. -/
def H3Injective (q : Nat) (o : IbeOracles) : Prop :=
  ∀ s m s' m' r r', o.h3 s m = some r → o.h3 s' m' = some r' → r % q = r' % q → s = s' ∧ m = m'

/-- Tampering with `V` and/or `W` (any bit flips, truncation, extension) while keeping `U`: if the result
    is accepted under the right key it IS the original ciphertext. So every such alteration is an error. -/
theorem cca_altered_VW_rejected (ok : IbeOK o) (hinj : H3Injective q o) (gid priv : Nat)
    (sigma msg : Bytes) (ct ct' : IbeCt) (m' : Bytes)
    (hkey : gid % q = priv % q)
    (henc : ibeEncryptCCA q o gid sigma msg = some ct) (hU : ct'.U = ct.U)
    (hacc : ibeDecryptCCA q o priv ct' = some m') : ct' = ct := by
  obtain ⟨hlen, r, hr, hUr, hV, hW⟩ := cca_encrypt_eq q o gid sigma msg ct henc
  obtain ⟨h1, h2, hm, r', hr', hU'⟩ := (cca_accept_iff q o priv ct' m').mp hacc
  have hgt : ct'.U * priv % q = r * gid % q := by
    rw [hU, hUr, Nat.mul_mod, Nat.mod_mod, ← hkey, ← Nat.mul_mod]
  obtain ⟨hsig, hmm⟩ := hinj _ _ _ _ _ _ hr' hr (by rw [hU', hU, hUr])
  rw [hgt] at hsig hm
  -- lengths
  have hpl := gtToHash_length o (r * gid % q) ct'.W.length
  have h4l := h4pad_length o ok sigma ct'.W.length h1
  have hWl : ct'.W.length = msg.length := by
    have := congrArg List.length hm
    rw [hsig, xorBytes_length, h4l, hmm] at this
    simpa using this.symm
  rw [hWl] at hsig hm hpl h4l h2
  -- V
  have hV' : ct'.V = ct.V := by
    rw [hV]
    have := congrArg (xorBytes (gtToHash o (r * gid % q) msg.length)) hsig
    rw [xorBytes_cancel_left _ _ (by rw [hpl, h2])] at this
    rw [this, xorBytes_comm]
  -- W
  have hW' : ct'.W = ct.W := by
    rw [hW]
    rw [hsig] at hm
    have := congrArg (xorBytes (h4pad o sigma msg.length)) hm
    rw [xorBytes_cancel_left _ _ (by rw [h4l, hWl]), hmm] at this
    rw [← this, xorBytes_comm]
  cases ct; cases ct'; simp_all

/-- Decryption under another identity/key never yields a *different* plaintext: if it is accepted at all
    the result is the original message (and the two pads collide on the message length, which for a
    non-empty message is an `H2` collision). -/
theorem cca_wrong_key_same_plaintext (hinj : H3Injective q o) (gid priv' : Nat)
    (sigma msg : Bytes) (ct : IbeCt) (m' : Bytes)
    (henc : ibeEncryptCCA q o gid sigma msg = some ct)
    (hacc : ibeDecryptCCA q o priv' ct = some m') : m' = msg := by
  obtain ⟨_, r, hr, hUr, _, _⟩ := cca_encrypt_eq q o gid sigma msg ct henc
  obtain ⟨_, _, _, r', hr', hU'⟩ := (cca_accept_iff q o priv' ct m').mp hacc
  exact (hinj _ _ _ _ _ _ hr' hr (by rw [hU', hUr])).2

/-- Every pad byte used on an accepted CCA message is an oracle (hash) output: the `σ`-pad is the first
    `len` bytes of `H2(gt)`, the message pad the first `len` bytes of `H4(σ)` — no zero padding. -/
theorem cca_pads_are_oracle_outputs (ok : IbeOK o) (gid : Nat) (sigma msg : Bytes) (ct : IbeCt)
    (h : ibeEncryptCCA q o gid sigma msg = some ct) :
    ∃ r, ct.V = xorBytes sigma ((o.h2 (r * gid % q)).take msg.length) ∧
         ct.W = xorBytes msg ((o.h4 sigma).take msg.length) ∧
         ((o.h2 (r * gid % q)).take msg.length).length = msg.length ∧
         ((o.h4 sigma).take msg.length).length = msg.length := by
  obtain ⟨hlen, r, _, _, hV, hW⟩ := cca_encrypt_eq q o gid sigma msg ct h
  refine ⟨r, ?_, hW, ?_, ?_⟩
  · rw [hV, gtToHash_short o ok _ _ hlen]
  · rw [List.length_take, ok.h2_len]; omega
  · rw [List.length_take, ok.h4_len]; omega

end IbeCCA

/-! ## Boneh–Franklin IBE, CPA variant -/
section IbeCPA
variable (q : Nat) (o : IbeOracles)

/-- Round trip for every message the function accepts, as coded and repaired. `pub = x·base`,
    `priv = x·H(ID)`. -/
theorem cpa_roundtrip (g : Bool) (base pub qid priv x r : Nat) (msg : Bytes) (ct : Nat × Bytes)
    (hpub : pub % q = x * base % q) (hpriv : priv % q = x * qid % q)
    (h : ibeEncryptCPA g q o base pub qid r msg = some ct) :
    ibeDecryptCPA q o priv ct = msg := by
  unfold ibeEncryptCPA at h
  split at h
  · exact absurd h (by simp)
  · split at h
    · exact absurd h (by simp)
    · have hc := Option.some.inj h
      subst hc
      have hgt : r * base % q * priv % q = pub * (r * qid % q) % q := by
        have e1 : r * base % q * priv % q = (r * base) * (x * qid) % q := by
          rw [Nat.mul_mod, Nat.mod_mod, hpriv, ← Nat.mul_mod]
        have e2 : pub * (r * qid % q) % q = (x * base) * (r * qid) % q := by
          rw [Nat.mul_mod, Nat.mod_mod, hpub, ← Nat.mul_mod]
        rw [e1, e2]; congr 1; ring
      unfold ibeDecryptCPA
      have hl : (xorBytes msg (gtToHash o (pub * (r * qid % q) % q) msg.length)).length = msg.length := by
        rw [xorBytes_length, gtToHash_length]; simp
      simp only [hl, hgt]
      exact xorBytes_cancel_right _ _ (by rw [gtToHash_length])

/- FULL STATEMENT (property text): "every plaintext byte of an accepted message is XORed with a pad byte
   that is an oracle output", i.e. for the code AS CODED (`g = false`)
   `ibeEncryptCPA false … msg = some (rP, C) → C = xorBytes msg ((o.h2 gt).take msg.length) ∧ that pad
   has msg.length bytes`. This is FALSE for `hs < msg.length < 65536`: -/

/-- AS CODED the CPA function accepts messages longer than the hash size (anything below 65536 bytes)
    and everything beyond the hash size is copied to the ciphertext IN THE CLEAR. -/
theorem cpa_plaintext_in_clear (ok : IbeOK o) (base pub qid r : Nat) (msg : Bytes)
    (h1 : o.hs < msg.length) (h2 : msg.length < 65536) :
    ∃ C, ibeEncryptCPA false q o base pub qid r msg = some (r * base % q, C) ∧
      C.length = msg.length ∧ C.drop o.hs = msg.drop o.hs := by
  have hsh : ¬ msg.length >>> 16 > 0 := by
    rw [Nat.shiftRight_eq_div_pow]
    have : msg.length / 2 ^ 16 = 0 := Nat.div_eq_of_lt (by norm_num; omega)
    omega
  refine ⟨xorBytes msg (gtToHash o (pub * (r * qid % q) % q) msg.length), ?_, ?_, ?_⟩
  · unfold ibeEncryptCPA
    rw [if_neg hsh]
    rfl
  · rw [xorBytes_length, gtToHash_length]; simp
  · rw [gtToHash_long o ok _ _ (by omega)]
    conv_lhs => rw [← List.take_append_drop o.hs msg]
    rw [xorBytes_append _ _ _ _ (by rw [List.length_take, ok.h2_len]; omega)]
    rw [xorBytes_zeros _ _ (by simp)]
    have hl : (xorBytes (List.take o.hs msg) (o.h2 (pub * (r * qid % q) % q))).length = o.hs := by
      rw [xorBytes_length, List.length_take, ok.h2_len]; omega
    exact List.drop_left' hl

/-- The repaired CPA function (fixes/C16-ibe-cpa-length.patch) refuses what it cannot protect … -/
theorem cpa_repaired_refuses_long (base pub qid r : Nat) (msg : Bytes) (h : msg.length > o.hs) :
    ibeEncryptCPA true q o base pub qid r msg = none := by
  unfold ibeEncryptCPA
  split
  · rfl
  · simp [h]

/-- … and for everything it accepts every pad byte is a hash output. -/
theorem cpa_repaired_pad_is_oracle_output (ok : IbeOK o) (base pub qid r : Nat) (msg : Bytes) (ct : Nat × Bytes)
    (h : ibeEncryptCPA true q o base pub qid r msg = some ct) :
    ct.2 = xorBytes msg ((o.h2 (pub * (r * qid % q) % q)).take msg.length) ∧
    ((o.h2 (pub * (r * qid % q) % q)).take msg.length).length = msg.length := by
  unfold ibeEncryptCPA at h
  split at h
  · exact absurd h (by simp)
  · split at h
    · exact absurd h (by simp)
    · rename_i hg
      have hlen : msg.length ≤ o.hs := by
        simp at hg; omega
      have hc := Option.some.inj h
      subst hc
      refine ⟨by simp [gtToHash_short o ok _ _ hlen], ?_⟩
      rw [List.length_take, ok.h2_len]; omega

/-- As coded, within the hash size the pad is all hash output as well (the defect is only the missing
    length guard). -/
theorem cpa_partial (ok : IbeOK o) (base pub qid r : Nat) (msg : Bytes) (ct : Nat × Bytes)
    (hlen : msg.length ≤ o.hs)
    (h : ibeEncryptCPA false q o base pub qid r msg = some ct) :
    ct.2 = xorBytes msg ((o.h2 (pub * (r * qid % q) % q)).take msg.length) := by
  unfold ibeEncryptCPA at h
  split at h
  · exact absurd h (by simp)
  · simp only [Bool.false_and, Bool.false_eq_true, ↓reduceIte, Option.some.injEq] at h
    subst h
    simp [gtToHash_short o ok _ _ hlen]

end IbeCPA

/-! ## anonymous-set encryption -/
section Anon
variable (c : Codec) (o : AnonOracles)

/-- Round trip for every message (empty and arbitrarily long included), every set, every member index:
    member `mine`, whose public key `priv·G` is in slot `mine`, recovers exactly the message.
    Holds for the code as it stands (`keyed = hdrCheck = false`) and for each repair. -/
theorem anon_roundtrip (keyed hdrCheck : Bool) (hc : CodecOK c) (ok : AnonOK c o) (x : Nat) (hx : x < c.q)
    (set : List Nat) (mine priv : Nat) (hmine : set[mine]? = some (priv % c.q)) (msg : Bytes) :
    anonDecrypt keyed hdrCheck c o (anonEncrypt keyed c o x set msg) set mine priv = .ok msg := by
  unfold anonEncrypt
  simp only
  have hbl : (xorBytes msg (o.body (c.encScalar x) msg.length)).length = msg.length := by
    rw [xorBytes_length, ok.body_len]; simp
  rw [anonDecrypt_eval c o keyed hdrCheck hc ok x hx set mine priv hmine _ _ (ok.mac_len _ _), if_pos rfl, hbl]
  rw [xorBytes_cancel_right _ _ (by rw [ok.body_len])]

/-- Every plaintext byte is XORed with a byte of the XOF stream keyed by the session key (an oracle
    output; the stream is as long as the message — no zero padding). -/
theorem anon_body_pad_is_oracle_output (keyed : Bool) (hc : CodecOK c) (ok : AnonOK c o) (x : Nat)
    (set : List Nat) (msg : Bytes) :
    ((anonEncrypt keyed c o x set msg).drop (c.pointLen + c.scalarLen * set.length)).take msg.length
      = xorBytes msg (o.body (c.encScalar x) msg.length) ∧ (o.body (c.encScalar x) msg.length).length = msg.length := by
  refine ⟨?_, ok.body_len _ _⟩
  unfold anonEncrypt
  simp only
  have hhl := anonHeader_length c o ok x _ _ (hc.encPoint_len (x % c.q)) (hc.encScalar_len x) set
  have hbl : (xorBytes msg (o.body (c.encScalar x) msg.length)).length = msg.length := by
    rw [xorBytes_length, ok.body_len]; simp
  rw [List.append_assoc, ← hhl, List.drop_left]
  exact List.take_left' hbl

/-- Altering the tag only (any of its bits) ⇒ error. -/
theorem anon_altered_tag_rejected (keyed hdrCheck : Bool) (hc : CodecOK c) (ok : AnonOK c o) (x : Nat) (hx : x < c.q)
    (set : List Nat) (mine priv : Nat) (hmine : set[mine]? = some (priv % c.q)) (body tag' : Bytes)
    (hl : tag'.length = macSize) (hne : tag' ≠ o.mac (if keyed then c.encScalar x else []) body) :
    anonDecrypt keyed hdrCheck c o
      (anonHeader c o x (c.encPoint (x % c.q)) (c.encScalar x) set ++ body ++ tag') set mine priv = .err := by
  rw [anonDecrypt_eval c o keyed hdrCheck hc ok x hx set mine priv hmine _ _ hl, if_neg hne]

/-- Altering the body only (tag kept) ⇒ error, unless the MAC oracle collides on the two bodies. -/
theorem anon_altered_body_rejected (keyed hdrCheck : Bool) (hc : CodecOK c) (ok : AnonOK c o) (x : Nat) (hx : x < c.q)
    (set : List Nat) (mine priv : Nat) (hmine : set[mine]? = some (priv % c.q)) (body body' : Bytes)
    (hne : o.mac (if keyed then c.encScalar x else []) body ≠ o.mac (if keyed then c.encScalar x else []) body') :
    anonDecrypt keyed hdrCheck c o
      (anonHeader c o x (c.encPoint (x % c.q)) (c.encScalar x) set ++ body'
        ++ o.mac (if keyed then c.encScalar x else []) body) set mine priv = .err := by
  rw [anonDecrypt_eval c o keyed hdrCheck hc ok x hx set mine priv hmine _ _ (ok.mac_len _ _), if_neg hne]

/- FULL STATEMENT (property text): a ciphertext whose header, body or tag has been altered is rejected
   rather than decrypted. For the code AS CODED (`keyed = false`, `hdrCheck = false`) this is FALSE twice:
   (1) the tag is `XOF(body)[:16]` — a public function of the body, no key enters it — so anyone can alter
       the body and recompute the tag (`anon_body_forgery_accepted`);
   (2) the header comparison compares a buffer with itself, so the slots of the OTHER members can be
       replaced by anything (`anon_foreign_slots_ignored`). -/

/-- AS CODED: for ANY replacement body, `header ‖ body' ‖ mac(body')` is accepted and decrypts to
    `body' ⊕ keystream` — i.e. flipping bit `i` of the body (and recomputing the unkeyed tag) flips bit
    `i` of the plaintext. No secret is needed to compute `o.mac [] body'`. -/
theorem anon_body_forgery_accepted (hdrCheck : Bool) (hc : CodecOK c) (ok : AnonOK c o) (x : Nat) (hx : x < c.q)
    (set : List Nat) (mine priv : Nat) (hmine : set[mine]? = some (priv % c.q)) (body' : Bytes) :
    anonDecrypt false hdrCheck c o
      (anonHeader c o x (c.encPoint (x % c.q)) (c.encScalar x) set ++ body' ++ o.mac [] body') set mine priv
      = .ok (xorBytes body' (o.body (c.encScalar x) body'.length)) := by
  rw [anonDecrypt_eval c o false hdrCheck hc ok x hx set mine priv hmine _ _ (ok.mac_len _ _)]
  simp

/-- AS CODED (`hdrCheck = false`): whatever stands in the slots of the other members, the reader accepts
    and returns the message — the re-derivation check is vacuous. -/
theorem anon_foreign_slots_ignored (keyed : Bool) (hc : CodecOK c) (ok : AnonOK c o) (x : Nat) (hx : x < c.q)
    (set : List Nat) (mine priv : Nat) (hmine : set[mine]? = some (priv % c.q))
    (ws : List Bytes) (hwl : ∀ e ∈ ws, e.length = c.scalarLen) (hwn : ws.length = set.length)
    (hwm : ws[mine]? = some (xorBytes (c.encScalar x) (o.pad (x * (priv % c.q) % c.q)))) (msg : Bytes) :
    anonDecrypt keyed false c o
      (c.encPoint (x % c.q) ++ ws.flatten ++ xorBytes msg (o.body (c.encScalar x) msg.length)
        ++ o.mac (if keyed then c.encScalar x else []) (xorBytes msg (o.body (c.encScalar x) msg.length)))
      set mine priv = .ok msg := by
  have hfl : (c.encPoint (x % c.q) ++ ws.flatten).length = c.pointLen + c.scalarLen * set.length := by
    rw [List.length_append, hc.encPoint_len, flatten_length_chunks c.scalarLen ws hwl, hwn]
  have hbl : (xorBytes msg (o.body (c.encScalar x) msg.length)).length = msg.length := by
    rw [xorBytes_length, ok.body_len]; simp
  rw [anonDecrypt_of_key c o keyed false set mine priv _ (c.encScalar x) _ hfl
    (fun rest => by
      rw [anonDecryptKey_slots c o false hc ok x hx set mine priv hmine ws hwl hwn hwm rest]; simp)
    _ _ (ok.mac_len _ _), if_pos rfl, hbl]
  rw [xorBytes_cancel_right _ _ (by rw [ok.body_len])]

/-- Repaired MAC (`keyed = true`, fixes/C16-anon-integrity.patch): the body forgery is rejected unless
    the forger hits the MAC oracle at the secret session key. -/
theorem anon_repaired_forgery_rejected (hdrCheck : Bool) (hc : CodecOK c) (ok : AnonOK c o) (x : Nat) (hx : x < c.q)
    (set : List Nat) (mine priv : Nat) (hmine : set[mine]? = some (priv % c.q)) (body' tag' : Bytes)
    (hl : tag'.length = macSize) (hne : tag' ≠ o.mac (c.encScalar x) body') :
    anonDecrypt true hdrCheck c o
      (anonHeader c o x (c.encPoint (x % c.q)) (c.encScalar x) set ++ body' ++ tag') set mine priv = .err := by
  rw [anonDecrypt_eval c o true hdrCheck hc ok x hx set mine priv hmine _ _ hl]
  simp [hne]

/-- Repaired header comparison (`hdrCheck = true`): accepted ⇒ the whole header is the re-derivation
    from the ONE scalar `x` recovered from the reader's slot, with `x·G` equal to the leading point — a
    header altered anywhere (point, own slot, any other member's slot) or truncated is an error unless it
    is again a complete honest header. And the tag is the MAC oracle's value on the body. -/
theorem anon_accepted_structure (keyed : Bool) (ct : Bytes) (set : List Nat) (mine priv : Nat) (m : Bytes)
    (h : anonDecrypt keyed true c o ct set mine priv = .ok m) :
    ∃ x xb, c.decScalar xb = some x ∧ c.decPoint (ct.take c.pointLen) = some (x % c.q) ∧
      ct.take (c.pointLen + c.scalarLen * set.length) = anonHeader c o x (ct.take c.pointLen) xb set ∧
      c.pointLen + c.scalarLen * set.length + macSize ≤ ct.length ∧
      ct.drop (ct.length - macSize) = o.mac (if keyed then xb else [])
        ((ct.drop (c.pointLen + c.scalarLen * set.length)).take (ct.length - macSize - (c.pointLen + c.scalarLen * set.length))) := by
  unfold anonDecrypt at h
  cases hk : anonDecryptKey true c o ct set mine priv with
  | none => simp [hk] at h
  | some r =>
    cases r with
    | none => simp [hk] at h
    | some p =>
      obtain ⟨xb, hdrlen⟩ := p
      simp only [hk] at h
      unfold anonDecryptKey at hk
      split at hk
      · simp at hk
      · split at hk
        · simp at hk
        · rename_i X hX
          split at hk
          · simp at hk
          · dsimp only at hk
            split at hk
            · simp at hk
            · split at hk
              · simp at hk
              · rename_i x hxs
                split at hk
                · simp at hk
                · rename_i hxX
                  split at hk
                  · rename_i hhdr
                    simp only [Bool.not_true, Bool.false_or, decide_eq_true_eq] at hhdr
                    simp only [Option.some.injEq, Prod.mk.injEq] at hk
                    obtain ⟨hxb, hlen⟩ := hk
                    subst hlen
                    split at h
                    · simp at h
                    · rename_i hl
                      by_cases hmac : ct.drop (ct.length - macSize) = o.mac (if keyed then xb else [])
                          ((ct.drop (c.pointLen + c.scalarLen * set.length)).take
                            (ct.length - macSize - (c.pointLen + c.scalarLen * set.length)))
                      · refine ⟨x, xb, ?_, ?_, ?_, by omega, hmac⟩
                        · rw [← hxb]; exact hxs
                        · rw [hX]; simp at hxX; rw [hxX]
                        · rw [← hxb]; exact hhdr.symm
                      · rw [if_neg hmac] at h
                        simp at h
                  · simp at hk

end Anon

/-! ## The hypotheses are satisfiable; the model computes what the statements say -/
section Examples

example : CodecOK toyCodec where
  q_pos := by decide
  encPoint_len := fun _ => rfl
  decPoint_enc := fun v hv => toy_dec_enc v hv
  decPoint_canon := fun b v h => toy_canon b v h
  encScalar_len := fun _ => rfl
  decScalar_enc := fun v hv => toy_dec_enc v hv
  decScalar_canon := fun b v h => toy_canon b v h

def toyAead : Aead UInt8 where
  sealBox := fun k m => k :: m
  openBox := fun k c => match c with
    | k' :: m => if k' = k then some m else none
    | [] => none

example : AeadOK toyAead where
  open_seal := fun k m => by simp [toyAead]
  only_sealed := fun k c m h => by
    match c, h with
    | k' :: m', h =>
      simp only [toyAead] at h
      split at h
      · rename_i hk; subst hk; simp_all [toyAead]
      · simp at h
  other_key := fun k k' m hne => by simp [toyAead, hne]

def toyIbe : IbeOracles where
  hs := 2
  h2 := fun g => [UInt8.ofNat g, UInt8.ofNat (g + 1)]
  h3 := fun s m => some (s.length + 3 * m.length + 1)
  h4 := fun s => [UInt8.ofNat s.length, 7]

example : IbeOK toyIbe := ⟨fun _ => rfl, fun _ => rfl⟩

def toyAnon : AnonOracles where
  pad := fun s => [UInt8.ofNat (s + 1)]
  body := fun k n => List.replicate n (k.headD 0 + 1)
  mac := fun k b => List.replicate 16 (UInt8.ofNat (k.length + b.length))

example : AnonOK toyCodec toyAnon := ⟨fun _ => rfl, fun _ _ => by simp [toyAnon], fun _ _ => by simp [toyAnon, macSize]⟩

-- the model run on the toys: round trips, the CPA leak, the anon forgery
example : eciesDecrypt toyCodec (fun n => UInt8.ofNat n) toyAead 3 (eciesEncrypt toyCodec (fun n => UInt8.ofNat n) toyAead 3 5 [1, 2, 3]) = some [1, 2, 3] := by decide
example : (ibeEncryptCCA 7 toyIbe 3 [9, 9] [1, 2]).bind (ibeDecryptCCA 7 toyIbe 3) = some [1, 2] := by decide
example : ibeEncryptCCA 7 toyIbe 3 [9, 9, 9] [1, 2, 3] = none := by decide
example : (ibeEncryptCPA false 7 toyIbe 1 2 3 4 [10, 20, 30, 40]).map (fun c => c.2.drop 2) = some [30, 40] := by decide
example : ibeEncryptCPA true 7 toyIbe 1 2 3 4 [10, 20, 30, 40] = none := by decide
example : anonDecrypt false false toyCodec toyAnon (anonEncrypt false toyCodec toyAnon 3 [2, 5] [1, 2, 3]) [2, 5] 1 5 = .ok [1, 2, 3] := by decide
example : anonDecrypt true true toyCodec toyAnon (anonEncrypt true toyCodec toyAnon 3 [2, 5] [1, 2, 3]) [2, 5] 1 5 = .ok [1, 2, 3] := by decide

end Examples

end Kyber.Enc
