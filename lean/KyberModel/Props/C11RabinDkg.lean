import KyberModel.Lib.RabinDkgLemmas
import KyberModel.Props.C10
/-
C11 — Rabin DKG, first phase (who is qualified): theorems about the executable model
`Kyber.RabinDkg` (Proto/RabinDkg.lean), which the harness compares with `share/dkg/rabin` after every call
(outcome, `Certified()`, `QUAL()`, the aggregation state of every verifier; `dkg_rabin_model.go`).

"For every history" is induction over an arbitrary `List Op` from `init`: deals (valid, invalid, undecryptable,
duplicated, from indices out of range), responses (approvals, complaints, forged, duplicated, conflicting,
about unknown deals), justifications (valid, wrong, unsigned, malformed), timeouts — in any order.

1. `verifier_history` (refinement): every verifier a node holds is *this node's* Rabin VSS verifier after
   some VSS history; so every C10 theorem applies to it.
2. `qual_sound`: a dealer in `QUAL()` has ≥ t distinct approvals, no verifier without a response, is not
   marked bad (and, repaired VSS, a threshold in range).
3. `qual_iff`: `QUAL()` is exactly the set of registered dealers whose verifier certifies.
4. `bad_dealer_never_requalifies`: once a dealer's revealed deal was found invalid it is outside `QUAL()` under
   every continuation.
5. `honest_dealer_qualifies`: an honest dealer whose deal and the other participants' approvals reach a node —
   in any order, with duplicates — is in that node's `QUAL()`.
6. `deal_registered_once`, `refused_*`: second deals, deals of unknown indices, responses and justifications
   without a deal, malformed and unsigned justifications are refused and change nothing — in particular
   `unsigned_justification_never_reaches_verifier` (the repair of the forged-justification defect).
-/
namespace Kyber.RabinDkg
open Kyber.Vss

theorem run_nil (cfg : Cfg) (nd : Node) : run cfg nd [] = nd := rfl
theorem run_cons (cfg : Cfg) (nd : Node) (op : Op) (ops : List Op) :
    run cfg nd (op :: ops) = run cfg (step cfg nd op).1 ops := rfl

/-- Well-formedness of a node of participant `me`. -/
structure WF (cfg : Cfg) (me : Nat) (nd : Node) : Prop where
  hme : nd.me = me
  keys : (nd.verifiers.map Prod.fst).Nodup
  hist : ∀ j v, nd.verifiers.lookup j = some v →
    j < cfg.n ∧ ∃ vops, v = Vss.run cfg (newVerifier cfg me) vops

theorem wf_init (cfg : Cfg) (me t dsid : Nat) : WF cfg me (init me t dsid) :=
  ⟨rfl, by simp [init], fun j v h => by simp [init, List.lookup] at h⟩

theorem wf_step {cfg : Cfg} {me : Nat} {nd : Node} (h : WF cfg me nd) (op : Op) : WF cfg me (step cfg nd op).1 := by
  have hr := step_rel cfg nd op
  refine ⟨by rw [(step_me cfg nd op).1]; exact h.hme, hr.keys h.keys, ?_⟩
  intro j v' hv'
  cases hl : nd.verifiers.lookup j with
  | some v =>
    obtain ⟨hj, vops0, hv0⟩ := h.hist j v hl
    obtain ⟨vops, hnew⟩ := hr.old j v hl
    rw [hnew] at hv'
    cases hv'
    exact ⟨hj, vops0 ++ vops, by rw [Vss.run_append, ← hv0]⟩
  | none =>
    obtain ⟨hj, vops, hvo⟩ := hr.new j v' hl hv'
    exact ⟨hj, vops, by rw [hvo, h.hme]⟩

theorem wf_run {cfg : Cfg} {me : Nat} {nd : Node} (h : WF cfg me nd) (ops : List Op) : WF cfg me (run cfg nd ops) := by
  induction ops generalizing nd with
  | nil => exact h
  | cons op ops ih => rw [run_cons]; exact ih (wf_step h op)

/-- **Refinement.** Whatever a Rabin DKG node has processed, every verifier it holds is registered under a
participant index and is the node's own Rabin VSS verifier (`NewVerifier` with the node's key) after some
history of VSS operations. -/
theorem verifier_history (cfg : Cfg) (me t dsid : Nat) (ops : List Op) (j : Nat) (v : Vss.Node)
    (h : (run cfg (init me t dsid) ops).verifiers.lookup j = some v) :
    j < cfg.n ∧ ∃ vops, v = Vss.run cfg (newVerifier cfg me) vops :=
  (wf_run (wf_init cfg me t dsid) ops).hist j v h

/-- `QUAL()` as a predicate on the map. -/
theorem qual_iff {cfg : Cfg} {me : Nat} {nd : Node} (h : WF cfg me nd) (idx : Nat) :
    idx ∈ qual cfg nd ↔ ∃ v, nd.verifiers.lookup idx = some v ∧ Vss.certified cfg v = true := by
  unfold qual
  constructor
  · intro hm
    obtain ⟨p, hp, rfl⟩ := List.mem_map.mp hm
    obtain ⟨hp1, hp2⟩ := List.mem_filter.mp hp
    exact ⟨p.2, lookup_of_mem _ h.keys p.1 p.2 hp1, hp2⟩
  · rintro ⟨v, hl, hc⟩
    exact List.mem_map.mpr ⟨(idx, v), List.mem_filter.mpr ⟨mem_of_lookup _ _ _ hl, hc⟩, rfl⟩

/-- **Qualification is sound, for every history.** A dealer listed by `QUAL()` is a participant whose deal this
node registered and whose verifier holds at least `t` approvals of distinct participants (given directly, or a
complaint lifted by an accepted justification: `Vss.approved_origin`), has a response of every participant and
is not marked as a bad dealer. (`a.t` is the threshold the deal announced; repaired VSS: it is in range.) -/
theorem qual_sound (cfg : Cfg) (hv : cfg.variant = .rabin) (me t dsid : Nat) (ops : List Op) (idx : Nat)
    (h : idx ∈ qual cfg (run cfg (init me t dsid) ops)) :
    idx < cfg.n ∧ ∃ v a, (run cfg (init me t dsid) ops).verifiers.lookup idx = some v ∧ v.agg = some a ∧
      a.badDealer = false ∧ a.t ≤ countApproved a cfg.n ∧ countAbsent a cfg.n = 0 ∧
      (cfg.strict = true → validT a.t cfg.n = true) := by
  have hwf := wf_run (wf_init cfg me t dsid) ops
  obtain ⟨v, hl, hc⟩ := (qual_iff hwf idx).mp h
  obtain ⟨hidx, vops, hvo⟩ := hwf.hist idx v hl
  rw [hvo] at hc
  obtain ⟨a, ha, hb, hen, _, hab, hst⟩ := certified_sound cfg (newVerifier cfg me) (Or.inl ⟨me, rfl⟩) vops hc
  exact ⟨hidx, v, a, hl, by rw [hvo]; exact ha, hb, hen, hab hv, hst⟩

/-- An existing verifier only ever continues its VSS history. -/
theorem run_old (cfg : Cfg) (nd : Node) (ops : List Op) (j : Nat) (v : Vss.Node) (h : nd.verifiers.lookup j = some v) :
    ∃ vops, (run cfg nd ops).verifiers.lookup j = some (Vss.run cfg v vops) := by
  induction ops generalizing nd v with
  | nil => exact ⟨[], h⟩
  | cons op ops ih =>
    obtain ⟨vops1, h1⟩ := (step_rel cfg nd op).old j v h
    obtain ⟨vops2, h2⟩ := ih (step cfg nd op).1 _ h1
    exact ⟨vops1 ++ vops2, by rw [run_cons, h2, Vss.run_append]⟩

/-- **Disqualified for good.** Once the verifier of dealer `idx` has marked the dealer bad (a revealed deal
that does not verify), `idx` is outside `QUAL()` after every continuation. -/
theorem bad_dealer_never_requalifies {cfg : Cfg} {me : Nat} {nd : Node} (h : WF cfg me nd) (idx : Nat)
    (v : Vss.Node) (a : Agg) (hl : nd.verifiers.lookup idx = some v) (ha : v.agg = some a)
    (hb : a.badDealer = true) (ops : List Op) : idx ∉ qual cfg (run cfg nd ops) := by
  intro hq
  obtain ⟨v', hl', hc⟩ := (qual_iff (wf_run h ops) idx).mp hq
  obtain ⟨vops, hrun⟩ := run_old cfg nd ops idx v hl
  rw [hrun] at hl'
  cases hl'
  obtain ⟨_, _, _, hfalse⟩ := badDealer_monotone cfg v a ha hb vops
  rw [hfalse] at hc
  cases hc

/-! ### refused calls change nothing -/

/-- **One deal per dealer.** A second deal under an index that already has a verifier — identical or
conflicting — is refused and nothing changes. -/
theorem deal_registered_once (cfg : Cfg) (nd : Node) (idx : Nat) (s o : Bool) (d : Deal) (v : Vss.Node)
    (hidx : idx < cfg.n) (hl : nd.verifiers.lookup idx = some v) :
    step cfg nd (.deal idx s o d) = (nd, .errDup) := by
  simp only [step, processDeal]
  rw [if_neg (by simpa using hidx), hl]
  simp

theorem refused_deal_out_of_range (cfg : Cfg) (nd : Node) (idx : Nat) (s o : Bool) (d : Deal) (hidx : cfg.n ≤ idx) :
    step cfg nd (.deal idx s o d) = (nd, .errIndex) := by
  simp only [step, processDeal]
  rw [if_pos (by simpa using hidx)]

/-- A deal that cannot be authenticated or opened, or is addressed to another participant, leaves no verifier
behind (so the node cannot complain about it: the harness counts such a node as unable to complete). -/
theorem unreadable_deal_not_registered (cfg : Cfg) (nd : Node) (idx : Nat) (s o : Bool) (d : Deal)
    (h : s = false ∨ o = false ∨ d.i ≠ nd.me) : (step cfg nd (.deal idx s o d)).1 = nd := by
  simp only [step, processDeal]
  split
  · rfl
  · split
    · rfl
    · have hout : (Vss.step cfg (newVerifier cfg nd.me) (.encDeal s o d)).2 ≠ .approve ∧
          (Vss.step cfg (newVerifier cfg nd.me) (.encDeal s o d)).2 ≠ .complain := by
        unfold Vss.step newVerifier
        rcases h with h | h | h
        · subst h; simp
        · subst h; cases s <;> simp
        · cases s
          · simp
          · cases o
            · simp
            · have hne : (d.i != nd.me) = true := by simpa using h
              simp [Vss.processDeal, hne]
      split
      · rename_i heq; exact absurd (by rw [heq]) hout.1
      · rename_i heq; exact absurd (by rw [heq]) hout.2
      · rfl

theorem refused_response_without_deal (cfg : Cfg) (nd : Node) (idx sid vidx : Nat) (a s : Bool) (own : Option Deal)
    (hl : nd.verifiers.lookup idx = none) : step cfg nd (.response idx sid vidx a s own) = (nd, .errNoDeal) := by
  simp only [step, processResponse, hl]

theorem refused_justification_without_deal (cfg : Cfg) (nd : Node) (idx vidx : Nat) (wf s : Bool) (d : Deal)
    (hl : nd.verifiers.lookup idx = none) : step cfg nd (.justification idx wf s vidx d) = (nd, .errNoDeal) := by
  simp only [step, processJustification, hl]

/-- **Only the dealer can answer a complaint.** A justification that is malformed or does not carry the
signature of the dealer it names never reaches the verifier: the call is refused and nothing changes — in
particular it cannot mark an honest dealer bad (the forged-justification defect repaired in dkg.go). -/
theorem unsigned_justification_never_reaches_verifier (cfg : Cfg) (nd : Node) (idx vidx : Nat) (wf s : Bool) (d : Deal)
    (h : wf = false ∨ s = false) :
    (step cfg nd (.justification idx wf s vidx d)).1 = nd ∧
      (step cfg nd (.justification idx wf s vidx d)).2 ∈ [Out.errNoDeal, Out.errMalformed, Out.errSig] := by
  simp only [step, processJustification]
  split
  · simp
  · rcases h with h | h
    · subst h; simp
    · subst h; cases wf <;> simp

/-! ### an honest dealer is qualified -/

theorem good_unsafeSet (cfg : Cfg) (t sid me j : Nat) (a : Agg) (hg : Good cfg t sid a) :
    ∃ a', (Vss.step cfg ⟨.verifier me, some a⟩ (.unsafeSet j true)).1 = ⟨.verifier me, some a'⟩ ∧
      Good cfg t sid a' ∧ (∀ k, k ∈ a.responses.map Prod.fst → k ∈ a'.responses.map Prod.fst) ∧
      (j < cfg.n → j ∈ a'.responses.map Prod.fst) := by
  have hrole : (cfg.variant == Variant.pedersen && Role.verifier me == Role.dealer) = false := by
    have : (Role.verifier me == Role.dealer) = false := beq_eq_false_iff_ne.mpr (by simp)
    rw [this, Bool.and_false]
  simp only [Vss.step, hrole, Bool.false_eq_true, if_false]
  unfold addResponse
  by_cases hj : cfg.n ≤ j
  · simp only [hj, decide_true, if_true]
    exact ⟨a, rfl, hg, fun k hk => hk, fun h => by omega⟩
  · simp only [hj, decide_false, Bool.false_eq_true, if_false]
    cases hl : a.responses.lookup j with
    | some b =>
      simp only [Option.isSome_some, if_true]
      refine ⟨a, rfl, hg, fun k hk => hk, fun _ => ?_⟩
      exact (lookup_isSome_iff_mem_keys _ _).mp (by rw [hl]; rfl)
    | none =>
      simp only [Option.isSome_none, Bool.false_eq_true, if_false]
      refine ⟨_, rfl, ⟨hg.bad, hg.tmo, hg.t, hg.sid, hg.deal, ?_, inv_append true (by omega) hl hg.inv⟩, ?_, ?_⟩
      · intro p hp
        rcases List.mem_append.mp hp with hp | hp
        · exact hg.all p hp
        · simp only [List.mem_singleton] at hp; subst hp; rfl
      · intro k hk; simp only [List.map_append, List.mem_append]; exact Or.inl hk
      · intro _; simp

/-- A response either is recorded (`ok`) or leaves the verifier as it was. -/
theorem vss_response_ok_or_same (cfg : Cfg) (me : Nat) (a : Agg) (sid j : Nat) (ap sg : Bool) :
    (Vss.step cfg ⟨.verifier me, some a⟩ (.response sid j ap sg)).2 = .ok ∨
    (Vss.step cfg ⟨.verifier me, some a⟩ (.response sid j ap sg)).1 = ⟨.verifier me, some a⟩ := by
  simp only [Vss.step]
  split
  · exact Or.inr rfl
  · split
    · exact Or.inr rfl
    · exact Or.inl rfl

/-- A response about another participant's deal is handed to that deal's verifier and to nothing else. -/
theorem response_other (cfg : Cfg) (nd : Node) (idx sid j me : Nat) (ap sg : Bool) (own : Option Deal) (a : Agg)
    (hne : idx ≠ nd.me) (hl : nd.verifiers.lookup idx = some ⟨.verifier me, some a⟩) :
    (step cfg nd (.response idx sid j ap sg own)).1.verifiers.lookup idx =
      some (Vss.step cfg ⟨.verifier me, some a⟩ (.response sid j ap sg)).1 ∧
    (step cfg nd (.response idx sid j ap sg own)).1.me = nd.me := by
  refine ⟨?_, (step_me cfg nd _).1⟩
  have hcase := vss_response_ok_or_same cfg me a sid j ap sg
  have hne' : (idx != nd.me) = true := by simpa using hne
  simp only [step, processResponse, hl]
  cases hstep : Vss.step cfg ⟨.verifier me, some a⟩ (.response sid j ap sg) with
  | mk v' o =>
    rw [hstep] at hcase
    simp only at hcase
    cases o with
    | ok =>
      simp only [hne', if_true]
      rw [lookup_setV]
      simp [hl]
    | _ =>
      rcases hcase with h | h
      · cases h
      · simp only; rw [hl, h]

/-- **An honest dealer is qualified.** Node `me` receives the honest deal of dealer `idx ≠ me` (secret
polynomial `f`, blinding polynomial `g` of the same length, threshold `td` in range) and then the signed
approvals of the other participants about that deal — in ANY order, with duplicates, echoes and indices out of
range (`js` is any list containing every `j < n` other than `me` and `idx`): the dealer is in `QUAL()`. -/
theorem honest_dealer_qualifies (cfg : Cfg) (hv : cfg.variant = .rabin) (hq : 0 < cfg.q) (nd : Node) (idx sid td : Nat)
    (f g : List Nat) (hlen : f.length = g.length) (hT : validT td cfg.n = true)
    (hme : nd.me < cfg.n) (hidx : idx < cfg.n) (hne : idx ≠ nd.me) (hwf : WF cfg nd.me nd)
    (hfresh : nd.verifiers.lookup idx = none)
    (js : List Nat) (hjs : ∀ j < cfg.n, j ≠ nd.me → j ≠ idx → j ∈ js) :
    (step cfg nd (.deal idx true true (honestDeal cfg sid td f g nd.me))).2 = .resp true ∧
    idx ∈ qual cfg (run cfg nd (.deal idx true true (honestDeal cfg sid td f g nd.me) ::
      js.map (fun j => Op.response idx sid j true true none))) := by
  obtain ⟨happ, a1, ha1, hg1, hm1⟩ := honest_deal_good cfg hq nd.me td sid f g (fun _ => hlen) hT hme
  obtain ⟨a2, ha2, hg2, hm2, hn2⟩ := good_unsafeSet cfg td sid nd.me idx a1 hg1
  -- the deal
  have hdeal : step cfg nd (.deal idx true true (honestDeal cfg sid td f g nd.me)) =
      ({ nd with verifiers := nd.verifiers ++ [(idx, ⟨.verifier nd.me, some a2⟩)] }, .resp true) := by
    simp only [step, processDeal]
    rw [if_neg (by simpa using hidx), hfresh]
    simp only [Option.isSome_none, Bool.false_eq_true, if_false]
    have hpair : Vss.step cfg (newVerifier cfg nd.me) (.encDeal true true (honestDeal cfg sid td f g nd.me)) =
        (⟨.verifier nd.me, some a1⟩, .approve) := Prod.ext ha1 happ
    rw [hpair]
    simp only
    rw [ha2]
  refine ⟨by rw [hdeal], ?_⟩
  rw [run_cons, hdeal]
  simp only
  -- the responses
  have hinv : ∀ (js : List Nat) (nd' : Node) (a : Agg), nd'.me = nd.me → WF cfg nd.me nd' →
      nd'.verifiers.lookup idx = some ⟨.verifier nd.me, some a⟩ → Good cfg td sid a →
      ∃ a', (run cfg nd' (js.map (fun j => Op.response idx sid j true true none))).verifiers.lookup idx =
          some ⟨.verifier nd.me, some a'⟩ ∧ Good cfg td sid a' ∧
        (∀ k, k ∈ a.responses.map Prod.fst → k ∈ a'.responses.map Prod.fst) ∧
        (∀ j ∈ js, j < cfg.n → j ∈ a'.responses.map Prod.fst) ∧
        WF cfg nd.me (run cfg nd' (js.map (fun j => Op.response idx sid j true true none))) := by
    intro js
    induction js with
    | nil => intro nd' a _ hw hl hg; exact ⟨a, hl, hg, fun k hk => hk, fun j hj => (by cases hj), hw⟩
    | cons j js ih =>
      intro nd' a hme' hw hl hg
      obtain ⟨a1', h1, g1, m1, n1⟩ := good_response cfg td sid nd.me j a hg
      have hro := response_other cfg nd' idx sid j nd.me true true none a (by rw [hme']; exact hne) hl
      rw [h1] at hro
      obtain ⟨a2', h2, g2, m2, n2, w2⟩ := ih (step cfg nd' (.response idx sid j true true none)).1 a1'
        (by rw [hro.2, hme']) (wf_step hw _) hro.1 g1
      refine ⟨a2', by simpa [run_cons] using h2, g2, fun k hk => m2 k (m1 k hk), ?_, by simpa [run_cons] using w2⟩
      intro j' hj' hlt
      rcases List.mem_cons.mp hj' with rfl | hj'
      · exact m2 _ (n1 hlt)
      · exact n2 j' hj' hlt
  have hwf1 : WF cfg nd.me { nd with verifiers := nd.verifiers ++ [(idx, ⟨.verifier nd.me, some a2⟩)] } := by
    have := wf_step hwf (.deal idx true true (honestDeal cfg sid td f g nd.me))
    rw [hdeal] at this; exact this
  have hl1 : ({ nd with verifiers := nd.verifiers ++ [(idx, ⟨.verifier nd.me, some a2⟩)] } : Node).verifiers.lookup idx =
      some ⟨.verifier nd.me, some a2⟩ := by
    simp only [lookup_append_new, hfresh, if_true]
  obtain ⟨a3, hl3, hg3, hm3, hn3, hwf3⟩ :=
    hinv js { nd with verifiers := nd.verifiers ++ [(idx, ⟨.verifier nd.me, some a2⟩)] } a2 rfl hwf1 hl1 hg2
  refine (qual_iff hwf3 idx).mpr ⟨_, hl3, ?_⟩
  unfold Vss.certified
  simp only
  apply good_full_certified cfg td sid a3 hg3 hT
  intro i hi
  by_cases him : i = nd.me
  · subst him; exact hm3 _ (hm2 _ hm1)
  · by_cases hii : i = idx
    · subst hii; exact hm3 _ (hn2 hi)
    · exact hn3 i (hjs i hi him hii) hi

/-- Non-vacuity: a three-party run in which dealer 1's verifier at node 0 ends certified and dealer 2 — whose
revealed deal does not verify — ends outside `QUAL()`. -/
example :
    let cfg : Cfg := { variant := .rabin, n := 3, q := 11, h := 2, strict := true }
    let good := honestDeal cfg 7 2 [3, 5] [1, 4] 0
    let bad : Deal := { honestDeal cfg 8 2 [2, 6] [9, 1] 0 with v := 0 }
    let nd := run cfg (init 0 2 5)
      [.deal 1 true true good, .response 1 7 1 true true none, .response 1 7 2 true true none,
       .deal 2 true true bad, .response 2 8 1 true true none,
       .justification 2 true true 0 bad]
    qual cfg nd = [1] := by decide

end Kyber.RabinDkg
