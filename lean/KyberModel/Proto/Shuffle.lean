import KyberModel.Proto.Sigma
/-
Model of kyber's verifiable shuffles (C15): `shuffle/simple.go` (Neff's simple k-shuffle),
`shuffle/pair.go` (ElGamal pair shuffle), `shuffle/sequences.go` (random linear combination of
sequences). The biffle (`shuffle/biffle.go`) is an `Or`-of-`And` predicate of the sigma-protocol
framework and is modelled by `Kyber.Sigma` directly (`bifflePred` below builds the predicate).

Discrete-log representation as in Proto/Sigma.lean: a point is its logarithm mod `q`, the generator
`G` has logarithm `g`, `H` has logarithm `h`. Vectors are functions on indices `0..k-1`.
The transcript machine (`PCtx`, `VCtx`, oracle, encoding) is the one of Proto/Sigma.lean.

The value-level functions (`ssTheta`, `ssAlpha`, `simpleCheck`, `pairP1`, …, `pairCheck`) are what the
theorems in Props/C15.lean are about; the byte-level `…Prove` / `…Verify` functions run them over the
transcript machine in the order of the Go code: every message is read before the first check.

`PairShuffle.Verify` *as coded* never compares the embedded simple shuffle's vectors (read from the
proof) with `A + λB`, `C + λD`. The flag `bound` selects the repaired verifier, which does.
-/
namespace Kyber.Shuffle
open Kyber Kyber.Scalar Kyber.Sigma

def vec (k : Nat) (f : Nat → Nat) : List Nat := (List.range k).map f

/-- `init + Σ_{i<k} f i`, accumulated as the Go loops do. -/
def sumTo (q k : Nat) (init : Nat) (f : Nat → Nat) : Nat :=
  (List.range k).foldl (fun acc i => add q acc (f i)) init

/-- `piinv[pi[i]] = i` for `i = 0..k-1` on a zero-initialised slice. -/
def invPerm (k : Nat) (pi : Nat → Nat) (t : Nat) : Nat :=
  ((List.range k).filter (fun i => pi i = t)).getLast?.getD 0

/-! ### Simple k-shuffle (`simple.go`) -/

def xhat (q : Nat) (x : Nat → Nat) (t : Nat) (i : Nat) : Nat := sub q (x i) t
def yhat (q γ : Nat) (y : Nat → Nat) (t : Nat) (i : Nat) : Nat := sub q (y i) (mul q γ t)

/-- `thenc`: the point `(ab − cd)·G`. -/
def thenc (q g ab cd : Nat) : Nat := mul q (sub q ab cd) g

/-- `Theta[i]`, `i = 0..2k-1`. -/
def ssTheta (q k g γ : Nat) (x y : Nat → Nat) (t : Nat) (θ : Nat → Nat) (i : Nat) : Nat :=
  if i = 0 then thenc q g 0 (mul q (θ 0) (yhat q γ y t 0))
  else if i < k then thenc q g (mul q (θ (i - 1)) (xhat q x t i)) (mul q (θ i) (yhat q γ y t i))
  else if i < 2 * k - 1 then thenc q g (mul q (θ (i - 1)) γ) (θ i)
  else thenc q g (mul q (θ (i - 1)) γ) 0

/-- `runprod` after step `i`: `c · Π_{j≤i} xhat_j / yhat_j`. -/
def runprod (q γ : Nat) (x y : Nat → Nat) (t c : Nat) : Nat → Nat
  | 0 => div q (mul q c (xhat q x t 0)) (yhat q γ y t 0)
  | i + 1 => div q (mul q (runprod q γ x y t c i) (xhat q x t (i + 1))) (yhat q γ y t (i + 1))

/-- `rungamma` after `i` steps: `c · γ^{-i}`. -/
def rungamma (q γ c : Nat) : Nat → Nat
  | 0 => c % q
  | i + 1 => mul q (rungamma q γ c i) (inv q γ)

/-- `alpha[i]`, `i = 0..2k-2`. -/
def ssAlpha (q k γ : Nat) (x y : Nat → Nat) (t : Nat) (θ : Nat → Nat) (c : Nat) (i : Nat) : Nat :=
  if i < k then add q (θ i) (runprod q γ x y t c i)
  else add q (θ i) (rungamma q γ c (2 * k - 1 - i))

/-- `thver`: `a·A − b·B == T`. -/
def thver (q A B T a b : Nat) : Bool := add q (mul q a A) (mul q (neg q b) B) == T

/-- The verification equations of the simple shuffle for commitments `X, Y`, challenge `t`,
    `Theta`, challenge `c`, responses `alpha`, relative to `(G, Γ)`. -/
def simpleCheck (q k g Γ : Nat) (X Y : Nat → Nat) (t : Nat) (Θ : Nat → Nat) (c : Nat) (α : Nat → Nat) : Bool :=
  let U := mul q (neg q t) g
  let W := mul q (neg q t) Γ
  let Xh := fun i => add q (X i) U
  let Yh := fun i => add q (Y i) W
  thver q (Xh 0) (Yh 0) (Θ 0) c (α 0) &&
  (List.range (k - 1)).all (fun j => thver q (Xh (j + 1)) (Yh (j + 1)) (Θ (j + 1)) (α j) (α (j + 1))) &&
  (List.range (k - 1)).all (fun j => thver q Γ g (Θ (k + j)) (α (k + j - 1)) (α (k + j))) &&
  thver q Γ g (Θ (2 * k - 1)) (α (2 * k - 2)) c

/-! ### Pair shuffle (`pair.go`) -/

/-- The prover's private randomness, in the order of `PriRand(u, w, a, &tau0, &nu, &gamma)`. -/
structure PairRand where
  u : Nat → Nat
  w : Nat → Nat
  a : Nat → Nat
  tau0 : Nat
  gamma : Nat

def pairRand (q k : Nat) (rnd : Nat → Nat) : PairRand :=
  { u := fun i => rnd i % q, w := fun i => rnd (k + i) % q, a := fun i => rnd (2 * k + i) % q,
    tau0 := rnd (3 * k) % q, gamma := rnd (3 * k + 2) % q }

/-- Everything a pair-shuffle proof contains, plus the challenges. -/
structure PairView where
  Gamma : Nat
  A : Nat → Nat
  C : Nat → Nat
  U : Nat → Nat
  W : Nat → Nat
  L1 : Nat
  L2 : Nat
  rho : Nat → Nat
  D : Nat → Nat
  lam : Nat
  sigma : Nat → Nat
  tau : Nat
  sX : Nat → Nat
  sY : Nat → Nat
  t : Nat
  Theta : Nat → Nat
  c : Nat
  alpha : Nat → Nat

def pairGamma (q g : Nat) (R : PairRand) : Nat := mul q R.gamma g
def pairA (q g : Nat) (R : PairRand) (i : Nat) : Nat := mul q (R.a i) g
def pairC (q g : Nat) (pi : Nat → Nat) (R : PairRand) (i : Nat) : Nat := mul q (mul q R.gamma (R.a (pi i))) g
def pairU (q g : Nat) (R : PairRand) (i : Nat) : Nat := mul q (R.u i) g
def pairW (q g : Nat) (R : PairRand) (i : Nat) : Nat := mul q (mul q R.gamma (R.w i)) g
def pairWbetasum (q k : Nat) (pi beta : Nat → Nat) (R : PairRand) : Nat :=
  sumTo q k R.tau0 (fun i => mul q (R.w i) (beta (pi i)))
/-- `Lambda1` (with `P = X`, `base = g`) and `Lambda2` (with `P = Y`, `base = h`). -/
def pairLambda (q k base : Nat) (pi beta P : Nat → Nat) (R : PairRand) : Nat :=
  add q (sumTo q k 0 (fun i => mul q (sub q (R.w (invPerm k pi i)) (R.u i)) (P i)))
    (mul q (pairWbetasum q k pi beta R) base)
def pairB (q : Nat) (R : PairRand) (rho : Nat → Nat) (i : Nat) : Nat := sub q (rho i) (R.u i)
def pairD (q g : Nat) (pi : Nat → Nat) (R : PairRand) (rho : Nat → Nat) (i : Nat) : Nat :=
  mul q (mul q R.gamma (pairB q R rho (pi i))) g
def pairR (q : Nat) (R : PairRand) (rho : Nat → Nat) (lam : Nat) (i : Nat) : Nat :=
  add q (R.a i) (mul q lam (pairB q R rho i))
def pairS (q : Nat) (pi : Nat → Nat) (R : PairRand) (rho : Nat → Nat) (lam : Nat) (i : Nat) : Nat :=
  mul q R.gamma (pairR q R rho lam (pi i))
def pairSigma (q : Nat) (pi : Nat → Nat) (R : PairRand) (rho : Nat → Nat) (i : Nat) : Nat :=
  add q (R.w i) (pairB q R rho (pi i))
def pairTau (q k : Nat) (beta : Nat → Nat) (R : PairRand) (rho : Nat → Nat) : Nat :=
  sumTo q k (neg q R.tau0) (fun i => mul q (pairB q R rho i) (beta i))

/-- The honest prover's view for given challenges `rho, lam, t, c` and simple-shuffle blinding `θ`. -/
def pairProverView (q k g h : Nat) (pi beta X Y : Nat → Nat) (R : PairRand) (θ : Nat → Nat)
    (rho : Nat → Nat) (lam t c : Nat) : PairView :=
  let r := pairR q R rho lam
  let s := pairS q pi R rho lam
  { Gamma := pairGamma q g R, A := pairA q g R, C := pairC q g pi R, U := pairU q g R, W := pairW q g R,
    L1 := pairLambda q k g pi beta X R, L2 := pairLambda q k h pi beta Y R,
    rho := rho, D := pairD q g pi R rho, lam := lam, sigma := pairSigma q pi R rho,
    tau := pairTau q k beta R rho,
    sX := fun i => mul q (r i) g, sY := fun i => mul q (s i) g, t := t,
    Theta := ssTheta q k g R.gamma r s t θ, c := c, alpha := ssAlpha q k R.gamma r s t θ c }

/-- Equation (33) for index `i`: `σ_i·Γ = W_i + D_i`. -/
def eq33 (q : Nat) (v : PairView) (i : Nat) : Bool := mul q (v.sigma i) v.Gamma == add q (v.W i) (v.D i)

/-- `Φ = Σ_i σ_i·P̄_i − ρ_i·P_i`, accumulated as in the Go loop. -/
def pairPhi (q k : Nat) (v : PairView) (P Pbar : Nat → Nat) : Nat :=
  (List.range k).foldl (fun acc i => sub q (add q acc (mul q (v.sigma i) (Pbar i))) (mul q (v.rho i) (P i))) 0

/-- Equations (34) / (35). -/
def eq345 (q k base : Nat) (v : PairView) (L : Nat) (P Pbar : Nat → Nat) : Bool :=
  add q L (mul q v.tau base) == pairPhi q k v P Pbar

/-- The missing tie: the simple shuffle's vectors are `A + λ·B` and `C + λ·D`, `B_i = ρ_i·G − U_i`. -/
def bindX (q g : Nat) (v : PairView) (i : Nat) : Bool :=
  v.sX i == add q (v.A i) (mul q v.lam (sub q (mul q (v.rho i) g) (v.U i)))
def bindY (q : Nat) (v : PairView) (i : Nat) : Bool :=
  v.sY i == add q (v.C i) (mul q v.lam (v.D i))

inductive ShErr where
  | parse (e : Sigma.Err)
  | simple          -- "incorrect SimpleShuffleProof"
  | unbound         -- repaired verifier: simple shuffle not tied to A + λB, C + λD
  | pair            -- "invalid PairShuffleProof"
  deriving DecidableEq, Repr

/-- The checks of `PairShuffle.Verify` in the order coded: simple shuffle, (33) for all `i`,
    (34), (35). With `bound`, the repaired verifier's additional check after the simple shuffle. -/
def pairCheck (q k g h : Nat) (X Y Xbar Ybar : Nat → Nat) (bound : Bool) (v : PairView) : Except ShErr Unit :=
  if !simpleCheck q k g v.Gamma v.sX v.sY v.t v.Theta v.c v.alpha then .error .simple
  else if bound && !(List.range k).all (fun i => bindX q g v i && bindY q v i) then .error .unbound
  else if !(List.range k).all (eq33 q v) then .error .pair
  else if !(eq345 q k g v v.L1 X Xbar && eq345 q k h v v.L2 Y Ybar) then .error .pair
  else .ok ()

/-! ### Transcript level -/

def putPoints (E : Params) (l : List Nat) (st : PCtx) : PCtx := l.foldl (fun st v => st.put (E.cd.encP v)) st
def putScalars (E : Params) (l : List Nat) (st : PCtx) : PCtx := l.foldl (fun st v => st.put (E.cd.encS v)) st

/-- `PubRand` of `n` scalars in one call. -/
def pubRandN (E : Params) : Nat → PCtx → List Nat × PCtx
  | 0, st => ([], st)
  | n + 1, st =>
    let r := pubRandN E n (st.pubRand E).2
    ((st.pubRand E).1 :: r.1, r.2)

def vPubRandN (E : Params) : Nat → VCtx → List Nat × VCtx
  | 0, st => ([], st)
  | n + 1, st =>
    let r := vPubRandN E n (st.pubRand E).2
    ((st.pubRand E).1 :: r.1, r.2)

def readPoints (E : Params) : Nat → VCtx → Except Sigma.Err (List Nat × VCtx)
  | 0, st => .ok ([], st)
  | n + 1, st =>
    match st.get E.cd.plen E.cd.decP with
    | .error e => .error e
    | .ok (x, st1) =>
      match readPoints E n st1 with
      | .error e => .error e
      | .ok (xs, st2) => .ok (x :: xs, st2)

def ofList (l : List Nat) : Nat → Nat := fun i => l.getD i 0

/-- `SimpleShuffle.Prove(g, gamma, x, y, _, ctx)`: private draws start at `st.k`. -/
def simpleProveCtx (E : Params) (k g γ : Nat) (x y : Nat → Nat) (rnd : Nat → Nat) (st : PCtx) : PCtx :=
  let st := putPoints E (vec k (fun i => mul E.q (x i) g) ++ vec k (fun i => mul E.q (y i) g)) st
  let t := (st.pubRand E).1
  let st := (st.pubRand E).2
  let base := st.k
  let θ := fun i => rnd (base + i) % E.q
  let st := { st with k := st.k + (2 * k - 1) }
  let st := putPoints E (vec (2 * k) (ssTheta E.q k g γ x y t θ)) st
  let c := (st.pubRand E).1
  let st := (st.pubRand E).2
  putScalars E (vec (2 * k - 1) (ssAlpha E.q k γ x y t θ c)) st

/-- `HashProve(suite, name, ss.Prove(g, gamma, x, y, …))`. -/
def simpleProve (E : Params) (k g γ : Nat) (x y : Nat → Nat) (rnd : Nat → Nat) : Bytes :=
  (simpleProveCtx E k g γ x y rnd PCtx.init).finish

structure SimpleView where
  X : Nat → Nat
  Y : Nat → Nat
  t : Nat
  Theta : Nat → Nat
  c : Nat
  alpha : Nat → Nat

/-- Reading of `SimpleShuffle.Verify`: `Get(p0)`, `PubRand(v1)`, `Get(p2)`, `PubRand(v3)`, `Get(p4)`. -/
def simpleParse (E : Params) (k : Nat) (st : VCtx) : Except Sigma.Err (SimpleView × VCtx) :=
  match readPoints E (2 * k) st with
  | .error e => .error e
  | .ok (xy, st) =>
    let t := (st.pubRand E).1
    match readPoints E (2 * k) (st.pubRand E).2 with
    | .error e => .error e
    | .ok (th, st) =>
      let c := (st.pubRand E).1
      match readScalars E (2 * k - 1) (st.pubRand E).2 with
      | .error e => .error e
      | .ok (al, st) =>
        .ok ({ X := ofList (xy.take k), Y := ofList (xy.drop k), t := t, Theta := ofList th, c := c,
               alpha := ofList al }, st)

/-- `HashVerify(suite, name, ss.Verify(G, Gamma, ·), proof)`; also returns the vectors the proof
    claims to shuffle (the Go API keeps them private). -/
def simpleVerify (E : Params) (k g Γ : Nat) (proof : Bytes) : Except ShErr SimpleView :=
  match simpleParse E k (VCtx.init proof) with
  | .error e => .error (.parse e)
  | .ok (v, _) =>
    if simpleCheck E.q k g Γ v.X v.Y v.t v.Theta v.c v.alpha then .ok v else .error .simple

/-- `HashProve(suite, name, ps.Prove(pi, G, H, beta, X, Y, rand, ·))`. -/
def pairProve (E : Params) (k g h : Nat) (pi beta X Y : Nat → Nat) (rnd : Nat → Nat) : Bytes :=
  let q := E.q
  let R := pairRand q k rnd
  let st := { PCtx.init with k := 3 * k + 3 }
  let st := putPoints E ([pairGamma q g R] ++ vec k (pairA q g R) ++ vec k (pairC q g pi R) ++ vec k (pairU q g R)
      ++ vec k (pairW q g R) ++ [pairLambda q k g pi beta X R, pairLambda q k h pi beta Y R]) st
  let rr := pubRandN E k st
  let rho := ofList rr.1
  let st := putPoints E (vec k (pairD q g pi R rho)) rr.2
  let lam := (st.pubRand E).1
  let st := (st.pubRand E).2
  let st := putScalars E (vec k (pairSigma q pi R rho) ++ [pairTau q k beta R rho]) st
  (simpleProveCtx E k g R.gamma (pairR q R rho lam) (pairS q pi R rho lam) rnd st).finish

/-- Reading of `PairShuffle.Verify` (steps 1–6), before any check. -/
def pairParse (E : Params) (k : Nat) (proof : Bytes) : Except Sigma.Err PairView :=
  match readPoints E (4 * k + 3) (VCtx.init proof) with
  | .error e => .error e
  | .ok (p1, st) =>
    let rr := vPubRandN E k st
    match readPoints E k rr.2 with
    | .error e => .error e
    | .ok (d, st) =>
      let lam := (st.pubRand E).1
      match readScalars E (k + 1) (st.pubRand E).2 with
      | .error e => .error e
      | .ok (p5, st) =>
        match simpleParse E k st with
        | .error e => .error e
        | .ok (sv, _) =>
          .ok { Gamma := p1.getD 0 0, A := ofList ((p1.drop 1).take k), C := ofList ((p1.drop (1 + k)).take k),
                U := ofList ((p1.drop (1 + 2 * k)).take k), W := ofList ((p1.drop (1 + 3 * k)).take k),
                L1 := p1.getD (1 + 4 * k) 0, L2 := p1.getD (2 + 4 * k) 0,
                rho := ofList rr.1, D := ofList d, lam := lam, sigma := ofList (p5.take k), tau := p5.getD k 0,
                sX := sv.X, sY := sv.Y, t := sv.t, Theta := sv.Theta, c := sv.c, alpha := sv.alpha }

/-- `HashVerify(suite, name, shuffle.Verifier(group, G, H, X, Y, Xbar, Ybar), proof)`. `bound = false`
    is the verifier as coded; `bound = true` the repaired one. -/
def pairVerify (E : Params) (k g h : Nat) (X Y Xbar Ybar : Nat → Nat) (bound : Bool) (proof : Bytes) :
    Except ShErr Unit :=
  match pairParse E k proof with
  | .error e => .error (.parse e)
  | .ok v => pairCheck E.q k g h X Y Xbar Ybar bound v

/-! ### Sequences (`sequences.go`) -/

/-- `GetSequenceVerifiable`: `Σ_j e_j · P[j][i]`, accumulated from `e_0·P[0][i]`. -/
def seqCombine (q nq : Nat) (e : Nat → Nat) (P : Nat → Nat → Nat) (i : Nat) : Nat :=
  (List.range (nq - 1)).foldl (fun acc j => add q acc (mul q (e (j + 1)) (P (j + 1) i))) (mul q (e 0) (P 0 i))

/-- `beta2[i] = Σ_j e_j · beta[j][i]`. -/
def seqBeta (q nq : Nat) (e : Nat → Nat) (beta : Nat → Nat → Nat) (i : Nat) : Nat :=
  seqCombine q nq e beta i

/-! ### Biffle (`biffle.go`) -/

/-- `bifflePred()` over point variables `0:G 1:H 2:Xbar0-X0 3:Ybar0-Y0 4:Xbar1-X1 5:Ybar1-Y1
    6:Xbar0-X1 7:Ybar0-Y1 8:Xbar1-X0 9:Ybar1-Y0` and scalar variables `0:beta0 1:beta1`. -/
def bifflePred : Pred :=
  .or [.and [.rep 2 [⟨0, 0⟩], .rep 3 [⟨0, 1⟩], .rep 4 [⟨1, 0⟩], .rep 5 [⟨1, 1⟩]],
       .and [.rep 6 [⟨1, 0⟩], .rep 7 [⟨1, 1⟩], .rep 8 [⟨0, 0⟩], .rep 9 [⟨0, 1⟩]]]

/-- `bifflePoints`. -/
def bifflePoints (q g h : Nat) (X Y Xbar Ybar : Nat → Nat) : Nat → Nat :=
  ofList [g, h, sub q (Xbar 0) (X 0), sub q (Ybar 0) (Y 0), sub q (Xbar 1) (X 1), sub q (Ybar 1) (Y 1),
    sub q (Xbar 0) (X 1), sub q (Ybar 0) (Y 1), sub q (Xbar 1) (X 0), sub q (Ybar 1) (Y 0)]

end Kyber.Shuffle
