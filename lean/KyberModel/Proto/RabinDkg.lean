import KyberModel.Proto.Vss
import KyberModel.Proto.Share
/-
Model of the first phase of the Rabin DKG (`share/dkg/rabin/dkg.go`): `DistKeyGenerator` as a map
"dealer index → Rabin VSS verifier" plus the node's own VSS dealer, and the calls that decide who is
qualified: `Deals` (own deal), `ProcessDeal`, `ProcessResponse`, `ProcessJustification`, `SetTimeout`,
`QUAL`, `Certified`. Core-only, executable; every VSS decision is the VSS model's (`Proto/Vss.lean`,
verified as C10) — this file only adds what dkg.go adds around it:

* a deal of an index outside the participant list, or of an index that already has a verifier, is refused;
* a verifier is kept only if `ProcessEncryptedDeal` returned a response (approval *or* complaint), and
  the dealer's own approval is then written into it (`UnsafeSetResponseDKG(dd.Index, true)`);
* a response is handed to the verifier of the deal it is about; when it is about the node's own deal it
  also goes to the node's VSS dealer, and a complaint makes the dealer reveal the deal of that verifier
  (a `Justification`), which the node first applies to its own verifier;
* a justification is applied only if it is well-formed and signed by the dealer it names
  (the check added by the repair of the forged-justification defect);
* `SetTimeout` reaches every verifier; `QUAL` is the set of dealers whose verifier answers
  `DealCertified`, `Certified` compares its size with the node's threshold.

Second phase (the distributed key): `SecretCommits`, `ProcessSecretCommits`, `ProcessComplaintCommits`,
`ProcessReconstructCommits`, `Finished`, `DistKeyShare`. The Feldman commitments of a dealer are the list of
discrete logs of its coefficient commitments (base `G`); revealed shares are `(index, value)` pairs; the
interpolation is `Share.recoverPriPoly` (the C07 model of `share.RecoverPriPoly`).

Authentication and encryption are input booleans, as in the VSS model.
-/
namespace Kyber.RabinDkg
open Kyber.Vss

/-- A `ReconstructCommits` as stored: session id, sender, revealed share. -/
structure Rc where
  sid : Nat
  index : Nat
  si : Nat
  sv : Nat
deriving DecidableEq, Repr

structure Node where
  me : Nat
  t : Nat
  /-- Go map `verifiers`, as an association list in insertion order (keys shown unique in Props). -/
  verifiers : List (Nat × Vss.Node) := []
  dealer : Vss.Node
  /-- `commitments`: dealer → discrete logs of its Feldman commitments. -/
  commitments : List (Nat × List Nat) := []
  /-- `pendingReconstruct`: dealer → revealed shares in arrival order. -/
  pending : List (Nat × List Rc) := []
  /-- `reconstructed` (keys of the Go map). -/
  reconstructed : List Nat := []
deriving Repr

/-- `NewDistKeyGenerator`: no verifier yet; the VSS dealer knows `t` and its session identifier. -/
def init (me t dsid : Nat) : Node := { me := me, t := t, dealer := newDealer t dsid }

inductive Op where
  /-- `ProcessDeal(dd)`: `dd.Index`, then the three inputs of `Verifier.ProcessEncryptedDeal`. -/
  | deal (idx : Nat) (sigOk opens : Bool) (d : Deal)
  /-- what `Deals()` does with the node's own deal. -/
  | ownDeal (d : Deal)
  /-- `ProcessResponse(resp)`: `resp.Index` (the deal it is about), the VSS response, and — used only when a
      complaint about the node's own deal arrives — the plaintext deal the node's dealer holds for that verifier. -/
  | response (idx sid vidx : Nat) (approved sigOk : Bool) (own : Option Deal)
  /-- `ProcessJustification(j)`: `j.Index`, well-formed?, dealer's signature valid?, then the VSS justification. -/
  | justification (idx : Nat) (wellFormed sigOk : Bool) (vidx : Nat) (d : Deal)
  | setTimeout
  /-- `SecretCommits()`: the node publishes the commitments of its own secret polynomial (given: their logs). -/
  | secretCommits (cs : List Nat)
  /-- `ProcessSecretCommits(sc)`: `sc.Index`, `sc.SessionID`, signature valid?, `sc.Commitments`. -/
  | procSecretCommits (idx sid : Nat) (sigOk : Bool) (cs : List Nat)
  /-- `ProcessComplaintCommits(cc)`: `cc.Index`, `cc.DealerIndex`, signature valid?, `cc.Deal`. -/
  | procComplaintCommits (issuer dealerIdx : Nat) (sigOk : Bool) (d : Deal)
  /-- `ProcessReconstructCommits(rs)`: session id, `rs.Index`, `rs.DealerIndex`, share present?, `Share.I`,
      `Share.V`, signature valid?. -/
  | procReconstruct (sid index dealerIdx : Nat) (hasShare : Bool) (si sv : Nat) (sigOk : Bool)
deriving Repr

inductive Out where
  | resp (approved : Bool)     -- a Response to broadcast
  | ok                         -- nil, nil
  | justif                     -- a Justification to broadcast
  | errIndex                   -- dist deal out of bounds index
  | errDup                     -- already received dist deal from same index
  | errNoDeal                  -- response / justification without a deal
  | errMalformed | errSig      -- justification refused before it reaches the verifier
  | errVss (o : Vss.Out)       -- the error of the VSS layer
  | complaintCommits           -- a ComplaintCommits to broadcast
  | reconstructCommits         -- a ReconstructCommits to broadcast
  | errQual                    -- sender not in QUAL
  | errSid                     -- wrong session id
  | errCommits                 -- commitments missing / still present
  | errComplaint               -- complaint about a share that verifies
  | errShareIndex              -- revealed share missing or not the sender's
  | errNotCertified            -- SecretCommits before the own deal is certified
  | errRecover                 -- fewer than t distinct evaluation points (repaired: was a nil dereference)
  | panic
deriving DecidableEq, Repr

/-- Replace the verifier stored under `idx` (the Go code mutates the object the map points to). -/
def setV (vs : List (Nat × Vss.Node)) (idx : Nat) (v : Vss.Node) : List (Nat × Vss.Node) :=
  vs.map (fun p => if p.1 == idx then (p.1, v) else p)

/-- `ProcessDeal`. -/
def processDeal (cfg : Cfg) (nd : Node) (idx : Nat) (sigOk opens : Bool) (d : Deal) : Node × Out :=
  if decide (cfg.n ≤ idx) then (nd, .errIndex)
  else if (nd.verifiers.lookup idx).isSome then (nd, .errDup)
  else
    match Vss.step cfg (newVerifier cfg nd.me) (.encDeal sigOk opens d) with
    | (v, .approve) =>
      ({ nd with verifiers := nd.verifiers ++ [(idx, (Vss.step cfg v (.unsafeSet idx true)).1)] }, .resp true)
    | (v, .complain) =>
      ({ nd with verifiers := nd.verifiers ++ [(idx, (Vss.step cfg v (.unsafeSet idx true)).1)] }, .resp false)
    | (_, o) => (nd, .errVss o)

/-- The own-deal branch of `Deals()`. -/
def ownDeal (cfg : Cfg) (nd : Node) (d : Deal) : Node × Out :=
  if (nd.verifiers.lookup nd.me).isSome then (nd, .ok)
  else
    match processDeal cfg nd nd.me true true d with
    | (nd', .resp true) => ({ nd' with dealer := (Vss.step cfg nd'.dealer (.unsafeSet nd.me true)).1 }, .ok)
    | (nd', _) => (nd', .panic)

/-- The `Response` object a node is handed about its OWN deal is stored by pointer in two aggregators: that of
    the node's verifier for its own deal and that of its VSS dealer. An accepted justification sets
    `Approved = true` on that object, so the dealer's slot flips together with the verifier's. -/
def dealerSlotApproved (dl : Vss.Node) (vidx : Nat) : Vss.Node :=
  { dl with agg := dl.agg.map (fun a => { a with responses := setApproved a.responses vidx }) }

/-- `ProcessResponse`. -/
def processResponse (cfg : Cfg) (nd : Node) (idx sid vidx : Nat) (approved sigOk : Bool) (own : Option Deal) :
    Node × Out :=
  match nd.verifiers.lookup idx with
  | none => (nd, .errNoDeal)
  | some v =>
    match Vss.step cfg v (.response sid vidx approved sigOk) with
    | (v', .ok) =>
      let nd' := { nd with verifiers := setV nd.verifiers idx v' }
      if idx != nd.me then (nd', .ok)
      else
        match Vss.step cfg nd.dealer (.response sid vidx approved sigOk) with
        | (dl, .ok) => ({ nd' with dealer := dl }, .ok)
        | (dl, .justif) =>
          match own with
          | none => ({ nd' with dealer := dl }, .panic)
          | some od =>
            match Vss.step cfg v' (.justification vidx true od) with
            | (v'', .ok) =>
              ({ nd' with dealer := dealerSlotApproved dl vidx, verifiers := setV nd.verifiers idx v'' }, .justif)
            | (v'', o) => ({ nd' with dealer := dl, verifiers := setV nd.verifiers idx v'' }, .errVss o)
        | (_, o) => (nd', .errVss o)
    | (_, o) => (nd, .errVss o)

/-- `ProcessJustification`. -/
def processJustification (cfg : Cfg) (nd : Node) (idx : Nat) (wellFormed sigOk : Bool) (vidx : Nat) (d : Deal) :
    Node × Out :=
  match nd.verifiers.lookup idx with
  | none => (nd, .errNoDeal)
  | some v =>
    if !wellFormed then (nd, .errMalformed)
    else if !sigOk then (nd, .errSig)
    else
      match Vss.step cfg v (.justification vidx sigOk d) with
      | (v', .ok) =>
        ({ nd with verifiers := setV nd.verifiers idx v',
                   dealer := if idx == nd.me then dealerSlotApproved nd.dealer vidx else nd.dealer }, .ok)
      | (v', o) => ({ nd with verifiers := setV nd.verifiers idx v' }, .errVss o)

/-- `QUAL()`: the dealers whose verifier certifies (a set: the Go code iterates a map). -/
def qual (cfg : Cfg) (nd : Node) : List Nat :=
  (nd.verifiers.filter (fun p => Vss.certified cfg p.2)).map Prod.fst

/-- `Certified()`. -/
def certified (cfg : Cfg) (nd : Node) : Bool := decide (nd.t ≤ (qual cfg nd).length)

/-! ### second phase -/

/-- Go map assignment / deletion on association lists. -/
def mput {α : Type} (m : List (Nat × α)) (k : Nat) (v : α) : List (Nat × α) :=
  if (m.lookup k).isSome then m.map (fun p => if p.1 == k then (p.1, v) else p) else m ++ [(k, v)]
def mdel {α : Type} (m : List (Nat × α)) (k : Nat) : List (Nat × α) := m.filter (fun p => p.1 != k)

/-- `PubPoly.Check(share)` against commitments on the standard base. -/
def feldmanOk (q : Nat) (cs : List Nat) (i v : Nat) : Bool := Share.check q cs none i v

/-- `isInQUAL(idx)` together with the verifier it reads next. -/
def qualVerifier (cfg : Cfg) (nd : Node) (idx : Nat) : Option Agg :=
  match nd.verifiers.lookup idx with
  | some v => if Vss.certified cfg v then v.agg else none
  | none => none

/-- `SecretCommits()`. -/
def secretCommits (cfg : Cfg) (nd : Node) (cs : List Nat) : Node × Out :=
  if !Vss.certified cfg nd.dealer then (nd, .errNotCertified)
  else ({ nd with commitments := mput nd.commitments nd.me cs }, .ok)

/-- `ProcessSecretCommits` (with the repair: commitments that were contested — a reveal is pending or the
    polynomial has been reconstructed — cannot be published again). -/
def processSecretCommits (cfg : Cfg) (nd : Node) (idx sid : Nat) (sigOk : Bool) (cs : List Nat) : Node × Out :=
  if decide (cfg.n ≤ idx) then (nd, .errIndex)
  else match qualVerifier cfg nd idx with
  | none => (nd, .errQual)
  | some a =>
    if a.sid != some sid then (nd, .errSid)
    else if !sigOk then (nd, .errSig)
    else if nd.reconstructed.contains idx || !((nd.pending.lookup idx).getD []).isEmpty then (nd, .errCommits)
    else match a.deal with
    | none => (nd, .panic)
    | some dl =>
      if feldmanOk cfg.q cs dl.i dl.v then ({ nd with commitments := mput nd.commitments idx cs }, .ok)
      else (nd, .complaintCommits)

/-- `ProcessComplaintCommits` (with the repair: the node's own share is recorded once). -/
def processComplaintCommits (cfg : Cfg) (nd : Node) (issuer dealerIdx : Nat) (sigOk : Bool) (d : Deal) : Node × Out :=
  if decide (cfg.n ≤ issuer) then (nd, .errIndex)
  else if (qualVerifier cfg nd issuer).isNone then (nd, .errQual)
  else if !sigOk then (nd, .errSig)
  else match nd.verifiers.lookup dealerIdx with
  | none => (nd, .errNoDeal)
  | some v =>
    match Vss.step cfg v (.verifyDeal d false) with
    | (v', .ok) =>
      let nd1 := { nd with verifiers := setV nd.verifiers dealerIdx v' }
      match nd.commitments.lookup dealerIdx with
      | none => (nd1, .errCommits)
      | some cs =>
        if feldmanOk cfg.q cs d.i d.v then (nd1, .errComplaint)
        else match (if Vss.certified cfg v' then v'.agg.bind (·.deal) else none) with
          | none => (nd1, .errNoDeal)
          | some own =>
            let arr := (nd.pending.lookup dealerIdx).getD []
            ({ nd1 with commitments := mdel nd.commitments dealerIdx,
                        pending := if arr.any (fun r => r.index == nd.me) then nd.pending
                          else mput nd.pending dealerIdx (arr ++ [⟨d.sid, nd.me, own.i, own.v⟩]) },
             .reconstructCommits)
    | (v', o) => ({ nd with verifiers := setV nd.verifiers dealerIdx v' }, .errVss o)

inductive Scan where
  | dup | badSid | fresh
deriving DecidableEq, Repr

/-- The loop over the stored messages: the first one that has the same sender (→ ignore the new one) or another
    session id (→ error) decides. -/
def scan (index sid : Nat) : List Rc → Scan
  | [] => .fresh
  | r :: rest => if r.index == index then .dup else if r.sid != sid then .badSid else scan index sid rest

/-- `ProcessReconstructCommits` (with the repair: the revealed share is the sender's). -/
def processReconstruct (cfg : Cfg) (nd : Node) (sid index dealerIdx : Nat) (hasShare : Bool) (si sv : Nat)
    (sigOk : Bool) : Node × Out :=
  if nd.reconstructed.contains dealerIdx then (nd, .ok)
  else if (nd.commitments.lookup dealerIdx).isSome then (nd, .errCommits)
  else if decide (cfg.n ≤ index) then (nd, .errIndex)
  else if !sigOk then (nd, .errSig)
  else if !hasShare || si != index then (nd, .errShareIndex)
  else
    let arr := (nd.pending.lookup dealerIdx).getD []
    match scan index sid arr with
    | .dup => (nd, .ok)
    | .badSid => (nd, .errSid)
    | .fresh =>
      let arr' := arr ++ [⟨sid, index, si, sv⟩]
      if decide (nd.t ≤ arr'.length) then
        match Share.recoverPriPoly cfg.q (arr'.map (fun r => some ⟨r.si, some r.sv⟩)) nd.t with
        | none => ({ nd with pending := mput nd.pending dealerIdx arr' }, .errRecover)
        | some pri =>
          ({ nd with commitments := mput nd.commitments dealerIdx (Share.commit cfg.q pri none),
                     reconstructed := nd.reconstructed ++ [dealerIdx],
                     pending := mdel nd.pending dealerIdx }, .ok)
      else ({ nd with pending := mput nd.pending dealerIdx arr' }, .ok)

/-- `Finished()`. -/
def finished (cfg : Cfg) (nd : Node) : Bool :=
  (qual cfg nd).all (fun i => (nd.commitments.lookup i).isSome) && decide (nd.t ≤ (qual cfg nd).length)

/-- One iteration of the loop of `DistKeyShare()` over `QUAL()`: add the share received from dealer `i` and the
    commitments held for it (`none`: an error). -/
def dksStep (cfg : Cfg) (nd : Node) (acc : Option (Nat × Option (List Nat))) (i : Nat) :
    Option (Nat × Option (List Nat)) :=
  match acc with
  | none => none
  | some (sh, pub) =>
    match qualVerifier cfg nd i with
    | none => none
    | some a =>
      match a.deal, nd.commitments.lookup i with
      | some dl, some cs =>
        match pub with
        | none => some (Scalar.add cfg.q sh dl.v, some cs)
        | some p => (Share.polyAdd cfg.q p cs).map (fun r => (Scalar.add cfg.q sh dl.v, some r))
      | _, _ => none

/-- `DistKeyShare()`: the own share of the distributed secret and the commitments of the distributed polynomial
    (`none`: an error). Sums over `QUAL()` in any order (addition is commutative; the Go code iterates a map). -/
def distKeyShare (cfg : Cfg) (nd : Node) : Option (Nat × List Nat) :=
  if !certified cfg nd then none else
  match (qual cfg nd).foldl (dksStep cfg nd) (some (0, none)) with
  | some (sh, some pub) => some (sh, pub)
  | _ => none

def step (cfg : Cfg) (nd : Node) : Op → Node × Out
  | .deal idx sigOk opens d => processDeal cfg nd idx sigOk opens d
  | .ownDeal d => ownDeal cfg nd d
  | .response idx sid vidx approved sigOk own => processResponse cfg nd idx sid vidx approved sigOk own
  | .justification idx wf sigOk vidx d => processJustification cfg nd idx wf sigOk vidx d
  | .setTimeout =>
    ({ nd with verifiers := nd.verifiers.map (fun p => (p.1, (Vss.step cfg p.2 .setTimeout).1)) }, .ok)
  | .secretCommits cs => secretCommits cfg nd cs
  | .procSecretCommits idx sid sigOk cs => processSecretCommits cfg nd idx sid sigOk cs
  | .procComplaintCommits issuer dealerIdx sigOk d => processComplaintCommits cfg nd issuer dealerIdx sigOk d
  | .procReconstruct sid index dealerIdx hasShare si sv sigOk =>
    processReconstruct cfg nd sid index dealerIdx hasShare si sv sigOk

def run (cfg : Cfg) (nd : Node) (ops : List Op) : Node := ops.foldl (fun s op => (step cfg s op).1) nd

end Kyber.RabinDkg
