import KyberModel.Proto.Vss
/-
Model of the first phase of the Rabin DKG (`share/dkg/rabin/dkg.go`): `DistKeyGenerator` as a map
"dealer index → Rabin VSS verifier" plus the node's own VSS dealer, and the calls that decide who is
qualified: `Deals` (own deal), `ProcessDeal`, `ProcessResponse`, `ProcessJustification`, `SetTimeout`,
`QUAL`, `Certified`. Core-only, executable; every VSS decision is the VSS model's (`Proto/Vss.lean`,
verified as C10) — this file only adds what dkg.go adds around it:

* a deal of an index outside the participant list, or of an index that already has a verifier, is refused;
* a verifier is kept only if `ProcessEncryptedDeal` returned a response (approval *or* complaint), and
  the dealer's own approval is then written into it (`UnsafeSetResponseDKG(dd.Index, true)`);
* a response is handed to the verifier of the deal it is about; when it is about the node's own deal it
  also goes to the node's VSS dealer, and a complaint makes the dealer reveal the deal of that verifier
  (a `Justification`), which the node first applies to its own verifier;
* a justification is applied only if it is well-formed and signed by the dealer it names
  (the check added by the repair of the forged-justification defect);
* `SetTimeout` reaches every verifier; `QUAL` is the set of dealers whose verifier answers
  `DealCertified`, `Certified` compares its size with the node's threshold.

Authentication and encryption are input booleans, as in the VSS model.
-/
namespace Kyber.RabinDkg
open Kyber.Vss

structure Node where
  me : Nat
  t : Nat
  /-- Go map `verifiers`, as an association list in insertion order (keys shown unique in Props). -/
  verifiers : List (Nat × Vss.Node) := []
  dealer : Vss.Node
deriving Repr

/-- `NewDistKeyGenerator`: no verifier yet; the VSS dealer knows `t` and its session identifier. -/
def init (me t dsid : Nat) : Node := { me := me, t := t, dealer := newDealer t dsid }

inductive Op where
  /-- `ProcessDeal(dd)`: `dd.Index`, then the three inputs of `Verifier.ProcessEncryptedDeal`. -/
  | deal (idx : Nat) (sigOk opens : Bool) (d : Deal)
  /-- what `Deals()` does with the node's own deal. -/
  | ownDeal (d : Deal)
  /-- `ProcessResponse(resp)`: `resp.Index` (the deal it is about), the VSS response, and — used only when a
      complaint about the node's own deal arrives — the plaintext deal the node's dealer holds for that verifier. -/
  | response (idx sid vidx : Nat) (approved sigOk : Bool) (own : Option Deal)
  /-- `ProcessJustification(j)`: `j.Index`, well-formed?, dealer's signature valid?, then the VSS justification. -/
  | justification (idx : Nat) (wellFormed sigOk : Bool) (vidx : Nat) (d : Deal)
  | setTimeout
deriving Repr

inductive Out where
  | resp (approved : Bool)     -- a Response to broadcast
  | ok                         -- nil, nil
  | justif                     -- a Justification to broadcast
  | errIndex                   -- dist deal out of bounds index
  | errDup                     -- already received dist deal from same index
  | errNoDeal                  -- response / justification without a deal
  | errMalformed | errSig      -- justification refused before it reaches the verifier
  | errVss (o : Vss.Out)       -- the error of the VSS layer
  | panic
deriving DecidableEq, Repr

/-- Replace the verifier stored under `idx` (the Go code mutates the object the map points to). -/
def setV (vs : List (Nat × Vss.Node)) (idx : Nat) (v : Vss.Node) : List (Nat × Vss.Node) :=
  vs.map (fun p => if p.1 == idx then (p.1, v) else p)

/-- `ProcessDeal`. -/
def processDeal (cfg : Cfg) (nd : Node) (idx : Nat) (sigOk opens : Bool) (d : Deal) : Node × Out :=
  if decide (cfg.n ≤ idx) then (nd, .errIndex)
  else if (nd.verifiers.lookup idx).isSome then (nd, .errDup)
  else
    match Vss.step cfg (newVerifier cfg nd.me) (.encDeal sigOk opens d) with
    | (v, .approve) =>
      ({ nd with verifiers := nd.verifiers ++ [(idx, (Vss.step cfg v (.unsafeSet idx true)).1)] }, .resp true)
    | (v, .complain) =>
      ({ nd with verifiers := nd.verifiers ++ [(idx, (Vss.step cfg v (.unsafeSet idx true)).1)] }, .resp false)
    | (_, o) => (nd, .errVss o)

/-- The own-deal branch of `Deals()`. -/
def ownDeal (cfg : Cfg) (nd : Node) (d : Deal) : Node × Out :=
  if (nd.verifiers.lookup nd.me).isSome then (nd, .ok)
  else
    match processDeal cfg nd nd.me true true d with
    | (nd', .resp true) => ({ nd' with dealer := (Vss.step cfg nd'.dealer (.unsafeSet nd.me true)).1 }, .ok)
    | (nd', _) => (nd', .panic)

/-- `ProcessResponse`. -/
def processResponse (cfg : Cfg) (nd : Node) (idx sid vidx : Nat) (approved sigOk : Bool) (own : Option Deal) :
    Node × Out :=
  match nd.verifiers.lookup idx with
  | none => (nd, .errNoDeal)
  | some v =>
    match Vss.step cfg v (.response sid vidx approved sigOk) with
    | (v', .ok) =>
      let nd' := { nd with verifiers := setV nd.verifiers idx v' }
      if idx != nd.me then (nd', .ok)
      else
        match Vss.step cfg nd.dealer (.response sid vidx approved sigOk) with
        | (dl, .ok) => ({ nd' with dealer := dl }, .ok)
        | (dl, .justif) =>
          match own with
          | none => ({ nd' with dealer := dl }, .panic)
          | some od =>
            match Vss.step cfg v' (.justification vidx true od) with
            | (v'', .ok) => ({ nd' with dealer := dl, verifiers := setV nd.verifiers idx v'' }, .justif)
            | (v'', o) => ({ nd' with dealer := dl, verifiers := setV nd.verifiers idx v'' }, .errVss o)
        | (_, o) => (nd', .errVss o)
    | (_, o) => (nd, .errVss o)

/-- `ProcessJustification`. -/
def processJustification (cfg : Cfg) (nd : Node) (idx : Nat) (wellFormed sigOk : Bool) (vidx : Nat) (d : Deal) :
    Node × Out :=
  match nd.verifiers.lookup idx with
  | none => (nd, .errNoDeal)
  | some v =>
    if !wellFormed then (nd, .errMalformed)
    else if !sigOk then (nd, .errSig)
    else
      match Vss.step cfg v (.justification vidx sigOk d) with
      | (v', .ok) => ({ nd with verifiers := setV nd.verifiers idx v' }, .ok)
      | (v', o) => ({ nd with verifiers := setV nd.verifiers idx v' }, .errVss o)

def step (cfg : Cfg) (nd : Node) : Op → Node × Out
  | .deal idx sigOk opens d => processDeal cfg nd idx sigOk opens d
  | .ownDeal d => ownDeal cfg nd d
  | .response idx sid vidx approved sigOk own => processResponse cfg nd idx sid vidx approved sigOk own
  | .justification idx wf sigOk vidx d => processJustification cfg nd idx wf sigOk vidx d
  | .setTimeout =>
    ({ nd with verifiers := nd.verifiers.map (fun p => (p.1, (Vss.step cfg p.2 .setTimeout).1)) }, .ok)

def run (cfg : Cfg) (nd : Node) (ops : List Op) : Node := ops.foldl (fun s op => (step cfg s op).1) nd

/-- `QUAL()`: the dealers whose verifier certifies (a set: the Go code iterates a map). -/
def qual (cfg : Cfg) (nd : Node) : List Nat :=
  (nd.verifiers.filter (fun p => Vss.certified cfg p.2)).map Prod.fst

/-- `Certified()`. -/
def certified (cfg : Cfg) (nd : Node) : Bool := decide (nd.t ≤ (qual cfg nd).length)

end Kyber.RabinDkg
