import KyberModel.Groups.Scalar
import KyberModel.Proto.Share
/-
Model of kyber's Pedersen distributed key generation (C11): `share/dkg/pedersen/{dkg,status,structs,
protocol}.go`, including resharing and fast-sync. Core-only, executable.

Discrete-log representation: scalars and points are `Nat` (points = logarithms w.r.t. the base),
public keys are opaque tokens compared for equality, the nonce/session id is a token. ECIES is
abstracted to "the deal addressed to share index `i` opens under `i`'s key (and unmarshals) or not";
packet signatures are verified by the `Protocol` layer and are a boolean input of `setPush`.

A node is modelled after its constructor: `Cfg` is what `NewDistKeyHandler` computes (roles, indices,
thresholds, the node's own secret polynomial, the old public polynomial when resharing) — `newHandler`
is that constructor; `St` is the mutable part: `statuses`, `validShares`, `allPublics`, `evicted`,
`evictedHolders`, `state`.

`statuses` is the Go map-of-maps `dealer ↦ holder ↦ Status` as a total function (`true` = Complaint);
it is only ever read and written at `(old index, new index)` pairs (every `Set` is guarded by
`isIndexIncluded`), rows are enumerated through `OldNodes`, columns through `NewNodes`.
The three `Process*` loops are folds of a per-bundle step (`dealStep`, `respStep`, `justStep`).
-/
namespace Kyber.Dkg
open Kyber.Scalar Kyber.Share

inductive Phase where
  | init | deal | response | justif | finish
deriving DecidableEq, Repr, Inhabited

structure NodeId where
  index : Nat
  pub : Nat
deriving DecidableEq, Repr

/-- What `NewDistKeyHandler` fixes for one node. -/
structure Cfg where
  q : Nat
  oldNodes : List NodeId
  newNodes : List NodeId
  threshold : Nat          -- c.Threshold
  oldThreshold : Nat       -- c.OldThreshold
  fastSync : Bool
  nonce : Nat
  isResharing : Bool
  canIssue : Bool
  canReceive : Bool
  oidx : Nat
  nidx : Nat
  oldT : Nat
  newT : Nat
  dpriv : List Nat         -- coefficients of the node's secret polynomial
  olddpub : List Nat       -- logs of the old public polynomial (resharing receivers)
  fixLeaving : Bool := false  -- repaired phase check of ProcessResponses (fixes/C11-leaving-dealer-responses.patch)
  fixPhase : Bool := false    -- repaired "finish now?" test (fixes/C11-agreement-phase-decision.patch)
deriving Repr

structure Deal where
  shareIndex : Nat
  opens : Bool             -- ecies.Decrypt under the addressee's key and Scalar.UnmarshalBinary succeed
  value : Nat
deriving DecidableEq, Repr

structure DealBundle where
  dealerIndex : Nat
  deals : List Deal
  pub : List Nat           -- Public (logs); `[]` also stands for nil
  sid : Nat
deriving DecidableEq, Repr

structure Response where
  dealerIndex : Nat
  complaint : Bool         -- Status == Complaint
deriving DecidableEq, Repr

structure ResponseBundle where
  shareIndex : Nat
  responses : List Response
  sid : Nat
deriving DecidableEq, Repr

structure Justification where
  shareIndex : Nat
  share : Nat
deriving DecidableEq, Repr

structure JustBundle where
  dealerIndex : Nat
  justs : List Justification
  sid : Nat
deriving DecidableEq, Repr

/-- Mutable node state. `evicted` / `evictedHolders` are Go slices that are only ever appended to and
    tested with `slices.Contains` (and, in `computeResult`, iterated for an idempotent `SetAll`), so
    they are kept as membership predicates. -/
structure St where
  statuses : Nat → Nat → Bool            -- dealer → holder → Complaint?
  validShares : Nat → Option Nat
  allPublics : Nat → Option (List Nat)
  evicted : Nat → Bool
  evictedHolders : Nat → Bool
  phase : Phase

/-- The elementary state mutations performed inside the three bundle loops. -/
inductive Prim where
  | evict (d : Nat)                       -- d.evicted = append(d.evicted, d)
  | evictHolder (h : Nat)                 -- d.evictedHolders = append(…, h)
  | setPub (d : Nat) (p : List Nat)       -- d.allPublics[d] = p
  | setValid (d : Nat) (v : Nat)          -- d.validShares[d] = v
  | setStatus (d h : Nat) (v : Bool)      -- d.statuses.Set(d, h, v)
deriving DecidableEq, Repr

/-- point update of a function -/
def upd {α : Type} (f : Nat → α) (i : Nat) (v : α) : Nat → α := fun k => if k = i then v else f k

/-- `Result`: QUAL (as indices), commitments (logs), the share. -/
structure Result where
  qual : List Nat
  commits : List Nat
  shareI : Nat
  shareV : Nat
deriving DecidableEq, Repr

def included (l : List NodeId) (i : Nat) : Bool := l.any (fun n => n.index == i)
def findPub (l : List NodeId) (p : Nat) : Option Nat := (l.find? (fun n => n.pub == p)).map (·.index)
def minimumT (n : Nat) : Nat := n / 2 + 1

/-- `statuses.Set(dealer, holder, v)`. -/
def setStatus (m : Nat → Nat → Bool) (d h : Nat) (v : Bool) : Nat → Nat → Bool :=
  fun d' h' => if d' = d ∧ h' = h then v else m d' h'

/-- `statuses.SetAll(dealer, v)` over the holders of the matrix. -/
def setAll (c : Cfg) (m : Nat → Nat → Bool) (d : Nat) (v : Bool) : Nat → Nat → Bool :=
  fun d' h' => if d' = d ∧ included c.newNodes h' then v else m d' h'

/-- `AllTrue(dealer)`: no complaint in the dealer's row. -/
def allTrue (c : Cfg) (m : Nat → Nat → Bool) (d : Nat) : Bool := c.newNodes.all (fun n => !m d n.index)

/-- `CompleteSuccess()`. -/
def completeSuccess (c : Cfg) (m : Nat → Nat → Bool) : Bool := c.oldNodes.all (fun n => allTrue c m n.index)

/-- `StatusesOfDealer(d).LengthComplaints()`. -/
def lengthComplaints (c : Cfg) (m : Nat → Nat → Bool) (d : Nat) : Nat :=
  (c.newNodes.filter (fun n => m d n.index)).length

def St.apply (st : St) : Prim → St
  | .evict d => { st with evicted := upd st.evicted d true }
  | .evictHolder h => { st with evictedHolders := upd st.evictedHolders h true }
  | .setPub d p => { st with allPublics := upd st.allPublics d (some p) }
  | .setValid d v => { st with validShares := upd st.validShares d (some v) }
  | .setStatus d h v => { st with statuses := setStatus st.statuses d h v }

def St.applyAll (st : St) (ps : List Prim) : St := ps.foldl St.apply st

/-- `PubPoly.Eval(i).V` on logs. -/
def pubEvalI (q : Nat) (commits : List Nat) (i : Nat) : Nat := pubEvalAt q commits (xEval q i)
/-- `PriPoly.Eval(i).V`. -/
def priEvalI (q : Nat) (coeffs : List Nat) (i : Nat) : Nat := evalAt q coeffs (xEval q i)
/-- `dpriv.Commit(Base)`: the node's public polynomial. -/
def dpub (c : Cfg) : List Nat := c.dpriv.map (· % c.q)

/-- State right after `NewDistKeyHandler`. -/
def initSt (c : Cfg) : St :=
  { statuses := fun d h =>
      if included c.oldNodes d && included c.newNodes h then
        (if c.fastSync then true else (c.canReceive && h == c.nidx))
      else false
    validShares := fun _ => none
    allPublics := fun _ => none
    evicted := fun _ => false
    evictedHolders := fun _ => false
    phase := .init }

/-! ### Deals -/

/-- `Deals()`. -/
def deals (c : Cfg) (st : St) : Except String (St × DealBundle) :=
  if !c.canIssue then .error "new members can't issue deals"
  else if st.phase != .init then .error "not in init"
  else
    let own := c.canReceive && included c.newNodes c.nidx
    let st1 : St := if own then
        { st with validShares := upd st.validShares c.oidx (some (priEvalI c.q c.dpriv c.nidx))
                  allPublics := upd st.allPublics c.oidx (some (dpub c))
                  statuses := setStatus st.statuses c.oidx c.nidx false }
      else st
    let ds := (c.newNodes.filter (fun n => !(c.canReceive && c.nidx == n.index))).map
      (fun n => ({ shareIndex := n.index, opens := true, value := priEvalI c.q c.dpriv n.index } : Deal))
    .ok ({ st1 with phase := .deal }, { dealerIndex := c.oidx, deals := ds, pub := dpub c, sid := c.nonce })

/-! ### ProcessDeals -/

/-- Result of scanning the deals of one bundle: `(evict?, share found)`; the scan stops (`break`) at a
    share index outside `NewNodes`. -/
def scanDeals (c : Cfg) (b : DealBundle) : List Deal → Bool × Option Nat → Bool × Option Nat
  | [], acc => acc
  | dl :: rest, (ev, sh) =>
    if !included c.newNodes dl.shareIndex then (true, sh)
    else if dl.shareIndex != c.nidx then scanDeals c b rest (ev, sh)
    else if !dl.opens then scanDeals c b rest (ev, sh)
    else if pubEvalI c.q b.pub c.nidx != dl.value % c.q then scanDeals c b rest (ev, sh)
    else if c.isResharing && pubEvalI c.q c.olddpub b.dealerIndex != b.pub.headD 0 % c.q then scanDeals c b rest (ev, sh)
    else scanDeals c b rest (ev, some (dl.value % c.q))

/-- The mutations one iteration of the bundle loop of `ProcessDeals` performs, and whether it records the
    dealer in the local `seenIndex` map; `seen` = `seenIndex[bundle.DealerIndex]` on entry. The
    iteration reads nothing else of the state. -/
def dealPrims (c : Cfg) (seen : Bool) (b : DealBundle) : List Prim × Bool :=
  if c.canIssue && b.dealerIndex == c.oidx then ([], false)
  else if !included c.oldNodes b.dealerIndex then ([], false)
  else if b.sid != c.nonce then ([.evict b.dealerIndex], false)
  else if b.pub.isEmpty || b.pub.length != c.threshold then ([.evict b.dealerIndex], false)
  else if seen then ([.evict b.dealerIndex], false)
  else
    let (ev, sh) := scanDeals c b b.deals (false, none)
    ([.setPub b.dealerIndex b.pub]
      ++ (match sh with
          | some v => [.setStatus b.dealerIndex c.nidx false, .setValid b.dealerIndex v]
          | none => [])
      ++ (if ev then [.evict b.dealerIndex] else []), true)

/-- One iteration of the bundle loop of `ProcessDeals`; the second component is `seenIndex`. -/
def dealStep (c : Cfg) (acc : St × (Nat → Bool)) (b : DealBundle) : St × (Nat → Bool) :=
  let r := dealPrims c (acc.2 b.dealerIndex) b
  (acc.1.applyAll r.1, if r.2 then upd acc.2 b.dealerIndex true else acc.2)

/-- "Each dealer that is also a new node holds its own share": `Set(dealer.Index, nidx', Success)`. -/
def markSelf (c : Cfg) (m : Nat → Nat → Bool) : Nat → Nat → Bool :=
  c.oldNodes.foldl (fun m dealer => match findPub c.newNodes dealer.pub with
    | some ni => setStatus m dealer.index ni false
    | none => m) m

/-- The responses a node emits after `ProcessDeals`. -/
def myResponses (c : Cfg) (st : St) : List Response :=
  c.oldNodes.filterMap (fun n =>
    if st.evicted n.index then none
    else if !st.statuses n.index c.nidx then (if c.fastSync then some ⟨n.index, false⟩ else none)
    else some ⟨n.index, true⟩)

/-- `ProcessDeals`. -/
def processDeals (c : Cfg) (st : St) (bundles : List DealBundle) : Except String (St × Option ResponseBundle) :=
  if c.canIssue && st.phase != .deal then .error "processdeals after producing shares"
  else if c.canReceive && !c.canIssue && st.phase != .init then .error "processdeals once for a new member"
  else if !c.canReceive then .ok ({ st with phase := .response }, none)
  else
    let st1 := (bundles.foldl (dealStep c) (st, fun _ => false)).1
    let st2 : St := { st1 with statuses := markSelf c st1.statuses }
    let rs := myResponses c st2
    let out := if rs.isEmpty then none else some { shareIndex := c.nidx, responses := rs, sid := c.nonce }
    .ok ({ st2 with phase := .response }, out)

/-! ### ProcessResponses -/

/-- Accumulator of the bundle loop: state, `validAuthors` (membership only), `foundComplaint`. -/
structure RespAcc where
  st : St
  validAuthors : Nat → Bool
  foundComplaint : Bool

/-- A response of a bundle is taken into account (dealer known; no `Success` outside fast-sync). -/
def respValid (c : Cfg) (r : Response) : Bool :=
  included c.oldNodes r.dealerIndex && !(!c.fastSync && !r.complaint)

/-- Mutations of the inner loop over one bundle's responses. -/
def respInnerPrims (c : Cfg) (holder : Nat) (rs : List Response) : List Prim :=
  rs.map (fun r => if respValid c r then Prim.setStatus r.dealerIndex holder r.complaint else Prim.evictHolder holder)

/-- What one iteration of the bundle loop of `ProcessResponses` does: mutations, whether the holder
    becomes a valid author, whether a complaint was seen. It reads nothing of the state. -/
def respPrims (c : Cfg) (b : ResponseBundle) : List Prim × Bool × Bool :=
  if c.canIssue && (c.canReceive || !c.fixLeaving) && b.shareIndex == c.nidx then ([], false, false)
  else if !included c.newNodes b.shareIndex then ([], false, false)
  else if b.sid != c.nonce then ([.evictHolder b.shareIndex], false, false)
  else (respInnerPrims c b.shareIndex b.responses,
        b.responses.any (respValid c),
        b.responses.any (fun r => respValid c r && r.complaint))

def respStep (c : Cfg) (acc : RespAcc) (b : ResponseBundle) : RespAcc :=
  let r := respPrims c b
  { st := acc.st.applyAll r.1
    validAuthors := if r.2.1 then upd acc.validAuthors b.shareIndex true else acc.validAuthors
    foundComplaint := acc.foundComplaint || r.2.2 }

/-- Fast-sync: holders that sent nothing valid are evicted. -/
def evictSilent (c : Cfg) (st : St) (validAuthors : Nat → Bool) : St :=
  { st with evictedHolders := fun h =>
      st.evictedHolders h ||
        (included c.newNodes h && !(c.canReceive && c.nidx == h) && !(validAuthors h || st.evictedHolders h)) }

/-- Dealers with `>= Threshold` complaints are evicted. -/
def evictComplained (c : Cfg) (st : St) : St :=
  { st with evicted := fun d =>
      st.evicted d || (included c.oldNodes d && decide (c.threshold ≤ lengthComplaints c st.statuses d)) }

/-- `checkIfEvicted(phase)`. -/
def selfEvicted (c : Cfg) (st : St) (respPhase : Bool) : Bool :=
  if c.isResharing && respPhase then
    (if !c.canReceive then false else st.evictedHolders c.nidx)
  else (if !c.canIssue then false else st.evicted c.oidx)

/-- Fresh DKG result (`computeDKGResult`); `none` = one of the "BUG" errors. -/
def computeDKGResult (c : Cfg) (st : St) : Option Result :=
  let ds := c.oldNodes.filter (fun n => allTrue c st.statuses n.index && !st.evictedHolders n.index)
  let step (acc : Option (Nat × Option (List Nat))) (n : NodeId) : Option (Nat × Option (List Nat)) :=
    match acc, st.validShares n.index, st.allPublics n.index with
    | some (s, fp), some sh, some pb =>
      (match fp with
       | none => some (add c.q s sh, some pb)
       | some f => (polyAdd c.q f pb).map (fun r => (add c.q s sh, some r)))
    | _, _, _ => none
  match ds.foldl step (some (0, none)) with
  | some (s, some fp) => some { qual := ds.map (·.index), commits := fp, shareI := c.nidx, shareV := s }
  | _ => none

/-- Resharing result (`computeResharingResult`). -/
def computeResharingResult (c : Cfg) (st : St) : Option Result :=
  let ds := c.oldNodes.filter (fun n => allTrue c st.statuses n.index)
  if ds.any (fun n => (st.allPublics n.index).isNone || (st.validShares n.index).isNone) then none else
  let shares : List (Option Share) := ds.map (fun n => some ⟨n.index, st.validShares n.index⟩)
  match recoverPriPoly c.q shares c.oldT with
  | none => none
  | some pp =>
    let secret := pp.headD 0
    let coeff (i : Nat) : Option Nat :=
      recoverCommit c.q (ds.map (fun n => some ⟨n.index, some (((st.allPublics n.index).getD []).getD i 0)⟩)) c.oldT
    match (List.range c.newT).mapM coeff with
    | none => none
    | some fc =>
      if pubEvalI c.q fc c.nidx != secret % c.q then none else
      let qual := c.newNodes.filter (fun nn =>
        !(c.oldNodes.any (fun o => !allTrue c st.statuses o.index && o.pub == nn.pub)) &&
        !st.evictedHolders nn.index)
      if qual.length < c.threshold then none
      else some { qual := qual.map (·.index), commits := fc, shareI := c.nidx, shareV := secret }

/-- `computeResult`: evicted dealers' rows become complaints, then the mode-specific result. -/
def computeResult (c : Cfg) (st : St) : St × Option Result :=
  let m : Nat → Nat → Bool := fun d h => if st.evicted d && included c.newNodes h then true else st.statuses d h
  let st' : St := { st with phase := .finish, statuses := m }
  (st', if c.isResharing then computeResharingResult c st' else computeDKGResult c st')

inductive RespOut where
  | err (e : String)
  | evicted                                  -- ErrEvicted
  | result (r : Option Result)               -- finished in the response phase (`none`: computeResult failed)
  | done                                     -- finished, nothing to output (not a receiver)
  | justifs (j : Option JustBundle)          -- moved to the justification phase
deriving Repr

/-- The node's own justifications: its row's complaints are answered and reset to success. -/
def myJustifs (c : Cfg) (st : St) : List Justification :=
  (c.newNodes.filter (fun n => st.statuses c.oidx n.index)).map
    (fun n => ⟨n.index, priEvalI c.q c.dpriv n.index⟩)

/-- The "can we finish in the response phase?" test. As coded it looks at every row — including the
    rows of evicted dealers, whose content at the node's own column is private and never broadcast.
    Repaired: rows of evicted dealers are ignored (they are discarded by `computeResult` anyway). -/
def finishTest (c : Cfg) (st : St) : Bool :=
  if c.fixPhase then c.oldNodes.all (fun n => st.evicted n.index || allTrue c st.statuses n.index)
  else completeSuccess c st.statuses

/-- The deferred `checkIfEvicted(ResponsePhase)`: it runs when no error is being returned. -/
def respFin (c : Cfg) (p : St × RespOut) : St × RespOut :=
  match p.2 with
  | .err _ => p
  | .result none => p          -- computeResult failed: that error is returned, no eviction check
  | _ => if selfEvicted c p.1 true then (p.1, .evicted) else p

/-- State after the bundle loop and the fast-sync eviction of silent holders. -/
def respLoop (c : Cfg) (st : St) (bundles : List ResponseBundle) : RespAcc :=
  bundles.foldl (respStep c) { st := st, validAuthors := fun _ => false, foundComplaint := false }

def respAfterLoop (c : Cfg) (st : St) (bundles : List ResponseBundle) : St :=
  let acc := respLoop c st bundles
  if c.fastSync then evictSilent c acc.st acc.validAuthors else acc.st

/-- The node answers the complaints in its own row and resets them. -/
def answerOwnRow (c : Cfg) (st : St) : St :=
  { st with statuses := fun d h => if d == c.oidx && included c.newNodes h then false else st.statuses d h }

/-- Body of `ProcessResponses` after the phase checks. -/
def respCore (c : Cfg) (st : St) (bundles : List ResponseBundle) : St × RespOut :=
  if !c.fastSync && bundles.isEmpty && c.canReceive && finishTest c st then
    ((computeResult c st).1, .result (computeResult c st).2)
  else
    let st1 := respAfterLoop c st bundles
    if !(respLoop c st bundles).foundComplaint && finishTest c st1 then
      if c.canReceive then
        ((computeResult c { st1 with phase := .finish }).1, .result (computeResult c { st1 with phase := .finish }).2)
      else ({ st1 with phase := .finish }, .done)
    else
      let st2 : St := { evictComplained c st1 with phase := .justif }
      if !c.canIssue then (st2, .justifs none)
      else if (myJustifs c st2).isEmpty then (st2, .justifs none)
      else (answerOwnRow c st2, .justifs (some { dealerIndex := c.oidx, justs := myJustifs c st2, sid := c.nonce }))

/-- `ProcessResponses`. -/
def processResponses (c : Cfg) (st : St) (bundles : List ResponseBundle) : St × RespOut :=
  -- as coded, a node that leaves the group (`!canReceive`) fails one of the two tests whatever its
  -- phase; the repaired test lets it answer complaints from the deal or the response phase
  if (if c.fixLeaving then !c.canReceive && st.phase != .deal && st.phase != .response
      else !c.canReceive && st.phase != .deal) then (st, .err "leaving node phase")
  else if (if c.fixLeaving then c.canReceive && st.phase != .response else st.phase != .response) then
    (st, .err "not in response phase")
  else respFin c (respCore c st bundles)

/-! ### ProcessJustifications -/

/-- Mutations of the inner loop over the justifications of one bundle (`break` when the dealer's public
    polynomial is unknown). -/
def justInnerPrims (c : Cfg) (dealer : Nat) (pubPoly : Option (List Nat)) : List Justification → List Prim
  | [] => []
  | j :: rest =>
    if !included c.newNodes j.shareIndex then .evict dealer :: justInnerPrims c dealer pubPoly rest
    else match pubPoly with
    | none => [.evict dealer]        -- break
    | some pp =>
      if j.share % c.q != pubEvalI c.q pp j.shareIndex then .evict dealer :: justInnerPrims c dealer pubPoly rest
      else if c.isResharing && pubEvalI c.q c.olddpub dealer != pp.headD 0 % c.q then
        .evict dealer :: justInnerPrims c dealer pubPoly rest
      else
        (.setStatus dealer j.shareIndex false ::
          (if j.shareIndex == c.nidx then [.setValid dealer (j.share % c.q)] else []))
        ++ justInnerPrims c dealer pubPoly rest

/-- What one iteration of the bundle loop of `ProcessJustifications` does. It reads `seen[dealer]`,
    whether the dealer is already evicted, and the dealer's public polynomial — nothing else. -/
def justPrims (c : Cfg) (seen evicted : Bool) (pubPoly : Option (List Nat)) (b : JustBundle) : List Prim × Bool :=
  if seen then ([.evict b.dealerIndex], false)
  else if c.canIssue && b.dealerIndex == c.oidx then ([], false)
  else if !included c.oldNodes b.dealerIndex then ([], false)
  else if evicted then ([], false)
  else if b.sid != c.nonce then ([.evict b.dealerIndex], false)
  else (justInnerPrims c b.dealerIndex pubPoly b.justs, true)

def justStep (c : Cfg) (acc : St × (Nat → Bool)) (b : JustBundle) : St × (Nat → Bool) :=
  let r := justPrims c (acc.2 b.dealerIndex) (acc.1.evicted b.dealerIndex) (acc.1.allPublics b.dealerIndex) b
  (acc.1.applyAll r.1, if r.2 then upd acc.2 b.dealerIndex true else acc.2)

inductive JustOut where
  | err (e : String)
  | evicted
  | abort                                    -- fewer than the target number of valid deals
  | result (r : Option Result)
  | nothing                                  -- not a receiver: (nil, nil)
deriving Repr

/-- State after the bundle loop of `ProcessJustifications`. -/
def justLoop (c : Cfg) (st : St) (bundles : List JustBundle) : St :=
  (bundles.foldl (justStep c) (st, fun _ => false)).1

/-- Number of dealers that are not evicted and have an all-success row. -/
def allGood (c : Cfg) (st : St) : Nat :=
  (c.oldNodes.filter (fun n => !st.evicted n.index && allTrue c st.statuses n.index)).length

def targetThreshold (c : Cfg) : Nat := if c.isResharing then c.oldThreshold else c.threshold

/-- `ProcessJustifications`. -/
def processJustifications (c : Cfg) (st : St) (bundles : List JustBundle) : St × JustOut :=
  if !c.canReceive then (st, .nothing)
  else if st.phase != .justif then (st, .err "not in justification phase")
  else if selfEvicted c (justLoop c st bundles) false then (justLoop c st bundles, .evicted)
  else if allGood c (justLoop c st bundles) < targetThreshold c then
    ({ justLoop c st bundles with phase := .finish }, .abort)
  else ((computeResult c (justLoop c st bundles)).1, .result (computeResult c (justLoop c st bundles)).2)

/-! ### The `Protocol` layer's packet sets -/

/-- `set`: packets stored per sender index, senders caught equivocating. -/
structure PSet (α : Type) where
  vals : List (Nat × α)
  bad : List Nat

def PSet.empty {α : Type} : PSet α := { vals := [], bad := [] }

/-- `set.Push` after `verify`: an unverifiable packet is dropped; a second, different packet of the
    same sender removes the sender for good. (Go compares hashes; the model compares packets.) -/
def PSet.push {α : Type} [DecidableEq α] (s : PSet α) (sigOk : Bool) (idx : Nat) (p : α) : PSet α :=
  if !sigOk then s
  else if s.bad.contains idx then s
  else match s.vals.lookup idx with
    | some prev => if prev = p then s else { vals := s.vals.filter (fun e => e.1 != idx), bad := s.bad ++ [idx] }
    | none => { s with vals := s.vals ++ [(idx, p)] }

def PSet.packets {α : Type} (s : PSet α) : List α := s.vals.map (·.2)

end Kyber.Dkg
