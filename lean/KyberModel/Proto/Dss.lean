import KyberModel.Proto.Share
/-
Model of `sign/dss/dss.go` (C12) in the discrete-log representation: scalars are `Nat` modulo the
prime group order `q`, points are discrete logs w.r.t. the standard base (`Mul(s, nil)` is `s`).

* `hashSig()` (SHA-512 of `R ‖ A ‖ msg`, reduced) is an oracle value `h`, fixed when the DSS object is
  created (it depends only on the two distributed public keys and the message);
* `sessionID` (hash over both commitment lists) is an opaque natural number;
* the Schnorr signature that authenticates a partial signature under the sender's long-term key is
  covered by C08; here its verdict is an input `authOK` of `processPartialSig` (the harness obtains it
  from the real `schnorr.Verify` on the same bytes).
-/
namespace Kyber.Dss
open Kyber.Scalar Kyber.Share

/-- The fields of `dss.DSS` that the protocol logic reads or writes. -/
structure DSS where
  index : Nat          -- position of the node's public key in `participants`
  n : Nat              -- `len(participants)`
  T : Nat
  alpha : Nat          -- `long.PriShare().V`
  beta : Nat           -- `random.PriShare().V`
  longC : Poly         -- `long.Commitments()` (discrete logs)
  randC : Poly         -- `random.Commitments()`
  h : Nat              -- `hashSig()`
  sid : Nat            -- `sessionID`
  partials : List Share
  seen : List Nat      -- keys of `partialsIdx`
  signed : Bool
deriving Repr

/-- `NewDSS` after the node's key was found at position `index`. -/
def newDSS (index n T alpha beta : Nat) (longC randC : Poly) (h sid : Nat) : DSS :=
  { index, n, T, alpha, beta, longC, randC, h, sid, partials := [], seen := [], signed := false }

/-- `dss.PartialSig` (the authenticated payload: `Partial.I`, `Partial.V`, `SessionID`). -/
structure PartialSig where
  I : Nat
  V : Nat
  sid : Nat
deriving Repr, DecidableEq

/-- `(*DSS).PartialSig()`: `V = hash·alpha + beta`, `I = index`; the first call also stores the
    node's own partial. `fixOwn = false` is the code as it stands: the own partial is appended even if a
    partial of the node's own index was already stored by `ProcessPartialSig`; `fixOwn = true` is the code
    with fixes/C12-own-partial-counted-twice.patch (append only if the index is not stored yet). -/
def partialSig (fixOwn : Bool) (q : Nat) (d : DSS) : DSS × PartialSig :=
  let right := mul q d.h d.alpha
  let ps : PartialSig := { I := d.index, V := add q right d.beta, sid := d.sid }
  let d' := if !d.signed then
      (if fixOwn && decide (d.index ∈ d.seen) then { d with signed := true }
       else { d with seen := d.seen ++ [d.index], partials := d.partials ++ [⟨ps.I, some ps.V⟩], signed := true })
    else d
  (d', ps)

/-- Outcome of `ProcessPartialSig`. -/
inductive Verdict where
  | ok | errIndex | errAuth | errSession | errDup | errInvalid
deriving Repr, DecidableEq

/-- The check `left.Equal(right)`: `V·G == RandPoly.Eval(idx) + hash·LongPoly.Eval(idx)`. -/
def partialEq (q : Nat) (d : DSS) (idx v : Nat) : Bool :=
  let randShare := pubEvalAt q d.randC (xEval q idx)
  let longShare := pubEvalAt q d.longC (xEval q idx)
  let right := add q randShare (mul q d.h longShare)
  mul q v 1 == right

/-- `(*DSS).ProcessPartialSig(ps)`; `authOK` is the verdict of `schnorr.Verify` under
    `participants[ps.Partial.I]` over `ps.Hash`. The checks are made in the order of the code. -/
def processPartialSig (q : Nat) (d : DSS) (ps : PartialSig) (authOK : Bool) : DSS × Verdict :=
  if ps.I ≥ d.n then (d, .errIndex)
  else if !authOK then (d, .errAuth)
  else if ps.sid ≠ d.sid then (d, .errSession)
  else if ps.I ∈ d.seen then (d, .errDup)
  else if !partialEq q d ps.I ps.V then (d, .errInvalid)
  else ({ d with seen := d.seen ++ [ps.I], partials := d.partials ++ [⟨ps.I, some ps.V⟩] }, .ok)

/-- `EnoughPartialSig`. -/
def enoughPartialSig (d : DSS) : Bool := decide (d.partials.length ≥ d.T)

/-- `Signature()`: `(R, gamma)` with `R = random.Commitments()[0]` and
    `gamma = share.RecoverSecret(partials, T, len(participants))`; `none` = error. -/
def signature (q : Nat) (d : DSS) : Option (Nat × Nat) :=
  if !enoughPartialSig d then none
  else (recoverSecret q (d.partials.map some) d.T).map (fun gamma => (d.randC.headD 0, gamma))

/-- `eddsa.Verify` / Schnorr verification equation on discrete logs: `s·B == R + h·A`. -/
def eddsaEq (q : Nat) (A h : Nat) (sig : Nat × Nat) : Bool :=
  mul q sig.2 1 == add q sig.1 (mul q h A)

/-- One event in the life of a DSS object. -/
inductive Op where
  | sign
  | recv (ps : PartialSig) (authOK : Bool)
deriving Repr

def step (fixOwn : Bool) (q : Nat) (d : DSS) : Op → DSS
  | .sign => (partialSig fixOwn q d).1
  | .recv ps a => (processPartialSig q d ps a).1

def run (fixOwn : Bool) (q : Nat) (d : DSS) (ops : List Op) : DSS := ops.foldl (step fixOwn q) d

end Kyber.Dss
