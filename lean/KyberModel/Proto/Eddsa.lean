import KyberModel.Core.Sha512
import KyberModel.Groups.Edwards
import KyberModel.Groups.Scalar
/-
C08 — EdDSA over Ed25519, byte for byte (core-only, executed by the driver).

* `ptIsCanonical`, `scIsCanonical`, `hasSmallOrder`: hand models of the constant-time loops of
  `group/edwards25519/point.go` (`IsCanonical`, `HasSmallOrder`, table `weakKeys` of `const.go`) and
  `scalar.go` (`IsCanonical`), written with the same byte/uint16 operations in the same order.
  `Props/C08.lean` proves them equivalent to the arithmetic statements (`y < p`, `s < L`, `y ∈ table`).
* `keygen`, `sign`: `Curve.NewKeyAndSeedWithInput` and `EdDSA.Sign` of `sign/eddsa/eddsa.go`.
* `verify`: `eddsa.VerifyWithChecks` as coded (order of checks included; the verdict is what is compared).
* `goVerify`: `crypto/ed25519.Verify` (Go 1.25, `crypto/internal/fips140/ed25519.verifyWithDom`).
* `rfcSign`: RFC 8032 §5.1.5/§5.1.6 written out literally (no early reductions).
-/
namespace Kyber.Eddsa
open Kyber Kyber.Ed25519

/-! ### Canonicity and small-order predicates as coded -/

/-- `byte((uint16(c) - 1) >> 8)`: `0xff` iff `c = 0`. -/
def isZeroMask (c : UInt8) : UInt8 := ((c.toUInt16 - 1) >>> 8).toUInt8

/-- `point.IsCanonical(s)`:
```
c := (s[31] & 0x7f) ^ 0x7f
for i := 30; i > 0; i-- { c |= s[i] ^ 0xff }
c = byte((uint16(c) - 1) >> 8)
d := byte((0xed - 1 - uint16(s[0])) >> 8)
return 1-(c&d&1) == 1
``` -/
def ptIsCanonical (s : Bytes) : Bool :=
  if s.length ≠ 32 then false else
  let c0 : UInt8 := (s.getD 31 0 &&& 0x7f) ^^^ 0x7f
  let c := (((s.drop 1).take 30).reverse).foldl (fun c b => c ||| (b ^^^ 0xff)) c0
  let c := isZeroMask c
  let d : UInt8 := ((0xed - 1 - (s.getD 0 0).toUInt16) >>> 8).toUInt8
  1 - (c &&& d &&& 1) == 1

/-- One step of the comparison loop of `scalar.IsCanonical` (`x` a byte of `sb`, `l` the byte of `L`):
```
c |= byte((uint16(sb[i])-uint16(L[i]))>>8) & n
n &= byte((uint16(sb[i]) ^ uint16(L[i]) - 1) >> 8)
``` -/
def scStep (st : UInt8 × UInt8) (xl : UInt8 × UInt8) : UInt8 × UInt8 :=
  let c := st.1 ||| (((xl.1.toUInt16 - xl.2.toUInt16) >>> 8).toUInt8 &&& st.2)
  let n := st.2 &&& (((xl.1.toUInt16 ^^^ xl.2.toUInt16) - 1) >>> 8).toUInt8
  (c, n)

/-- The 32 little-endian bytes of the group order (`primeOrder.Bytes()` reversed). -/
def Lbytes : Bytes := encodeLE 32 L

/-- `scalar.IsCanonical(sb)`: length 32; early `true` when the top nibble is clear; otherwise the
    constant-time comparison with `L` from the most significant byte down. -/
def scIsCanonical (sb : Bytes) : Bool :=
  if sb.length ≠ 32 then false else
  if sb.getD 31 0 &&& 0xf0 == 0 then true else
  let st := ((sb.zip Lbytes).reverse).foldl scStep (0, 1)
  st.1 != 0

/-- `weakKeys` of `group/edwards25519/const.go`: the `y` coordinates of the eight points of order
    dividing 8 (five values: the sign bit is ignored by `HasSmallOrder`). -/
def weakKeys : List Bytes := [
  [0x00, 0x00, 0x00, 0x00, 0x00, 0x00, 0x00, 0x00, 0x00, 0x00, 0x00,
   0x00, 0x00, 0x00, 0x00, 0x00, 0x00, 0x00, 0x00, 0x00, 0x00, 0x00,
   0x00, 0x00, 0x00, 0x00, 0x00, 0x00, 0x00, 0x00, 0x00, 0x00],
  [0x01, 0x00, 0x00, 0x00, 0x00, 0x00, 0x00, 0x00, 0x00, 0x00, 0x00,
   0x00, 0x00, 0x00, 0x00, 0x00, 0x00, 0x00, 0x00, 0x00, 0x00, 0x00,
   0x00, 0x00, 0x00, 0x00, 0x00, 0x00, 0x00, 0x00, 0x00, 0x00],
  [0x26, 0xe8, 0x95, 0x8f, 0xc2, 0xb2, 0x27, 0xb0, 0x45, 0xc3, 0xf4,
   0x89, 0xf2, 0xef, 0x98, 0xf0, 0xd5, 0xdf, 0xac, 0x05, 0xd3, 0xc6,
   0x33, 0x39, 0xb1, 0x38, 0x02, 0x88, 0x6d, 0x53, 0xfc, 0x05],
  [0xc7, 0x17, 0x6a, 0x70, 0x3d, 0x4d, 0xd8, 0x4f, 0xba, 0x3c, 0x0b,
   0x76, 0x0d, 0x10, 0x67, 0x0f, 0x2a, 0x20, 0x53, 0xfa, 0x2c, 0x39,
   0xcc, 0xc6, 0x4e, 0xc7, 0xfd, 0x77, 0x92, 0xac, 0x03, 0x7a],
  [0xec, 0xff, 0xff, 0xff, 0xff, 0xff, 0xff, 0xff, 0xff, 0xff, 0xff,
   0xff, 0xff, 0xff, 0xff, 0xff, 0xff, 0xff, 0xff, 0xff, 0xff, 0xff,
   0xff, 0xff, 0xff, 0xff, 0xff, 0xff, 0xff, 0xff, 0xff, 0x7f]]

/-- Accumulator of `HasSmallOrder` for one table entry `w`:
    `c = OR_{j<31} (s[j] ^ w[j])  |  ((s[31] & 0x7f) ^ w[31])`. -/
def weakAcc (s w : Bytes) : UInt8 :=
  let c := ((s.take 31).zip (w.take 31)).foldl (fun c sw => c ||| (sw.1 ^^^ sw.2)) 0
  c ||| ((s.getD 31 0 &&& 0x7f) ^^^ w.getD 31 0)

/-- `HasSmallOrder` on the marshalled bytes `s`:
    `k |= uint16(c[i]) - 1` for the five entries; `(k>>8)&1 > 0`. -/
def hasSmallOrderBytes (s : Bytes) : Bool :=
  let k : UInt16 := weakKeys.foldl (fun k w => k ||| ((weakAcc s w).toUInt16 - 1)) 0
  (k >>> 8) &&& 1 > 0

/-- `point.HasSmallOrder()`: works on `P.MarshalBinary()`. -/
def hasSmallOrder (P : Edwards.Pt) : Bool := hasSmallOrderBytes (enc P)

/-! ### Keys and signing (`curve.go: NewKeyAndSeedWithInput`, `eddsa.go: Sign`) -/

/-- `digest[0] &= 0xf8; digest[31] &= 0x7f; digest[31] |= 0x40` on the first 32 digest bytes. -/
def clamp (d : Bytes) : Bytes :=
  match d.take 32 with
  | b0 :: rest =>
    let mid := rest.take 30
    let b31 := rest.getD 30 0
    (b0 &&& 0xf8) :: (mid ++ [(b31 &&& 0x7f) ||| 0x40])
  | [] => []

structure Key where
  /-- the clamped scalar (not reduced mod `L`: `copy(secret.v[:], digest[:])`) -/
  a : Nat
  /-- `digest[32:]` -/
  prefix_ : Bytes
  /-- the public point `a•B` -/
  pub : Edwards.Pt

/-- `NewKeyAndSeedWithInput(seed)` followed by `Public = Mul(secret, nil)`. -/
def keygen (seed : Bytes) : Key :=
  let digest := Sha512.hash seed
  let a := decodeLE (clamp digest)
  ⟨a, digest.drop 32, smul a base⟩

def pubBytes (k : Key) : Bytes := enc k.pub

/-- `EdDSA.Sign(msg)`. Scalars come from `SetBytes` (reduced mod `L`); `s = r + secret·h`. -/
def signWith (k : Key) (msg : Bytes) : Bytes :=
  let r := Scalar.setBytesLE L (Sha512.hash (k.prefix_ ++ msg))
  let Rb := enc (smul r base)
  let Ab := enc k.pub
  let h := Scalar.setBytesLE L (Sha512.hash (Rb ++ Ab ++ msg))
  let s := Scalar.add L r (Scalar.mul L k.a h)
  Rb ++ encodeLE 32 s

def sign (seed msg : Bytes) : Bytes := signWith (keygen seed) msg

/-! ### Verification as coded -/

inductive Verdict where
  | ok
  | sigLen | sNonCanonical | rNonCanonical | rInvalid | rSmallOrder
  | aNonCanonical | aInvalid | aSmallOrder | equation
deriving DecidableEq, Repr

def Verdict.toString : Verdict → String
  | .ok => "ok" | .sigLen => "err:siglen" | .sNonCanonical => "err:s-noncanonical"
  | .rNonCanonical => "err:r-noncanonical" | .rInvalid => "err:r-invalid"
  | .rSmallOrder => "err:r-smallorder" | .aNonCanonical => "err:a-noncanonical"
  | .aInvalid => "err:a-invalid" | .aSmallOrder => "err:a-smallorder" | .equation => "err:equation"

/-- The challenge `H(R ‖ A ‖ M)` as a scalar (`SetBytes`: little-endian, reduced mod `L`). -/
def challenge (Rb Ab msg : Bytes) : Nat := Scalar.setBytesLE L (Sha512.hash (Rb ++ Ab ++ msg))

/-- The final equation of `VerifyWithChecks`, with the challenge `h` as an explicit argument:
    `R + h•A` and `s•B` compared through their encodings (`point.Equal`). -/
def equationHolds (R A : Edwards.Pt) (s h : Nat) : Bool :=
  enc (add R (smul h A)) = enc (smul s base)

/-- `eddsa.VerifyWithChecks(pub, msg, sig)`, checks in the order coded, with the challenge supplied by
    `chal` (a function of the three hashed byte strings). -/
def verifyCore (chal : Bytes → Bytes → Bytes → Nat) (pub msg sig : Bytes) : Verdict :=
  if sig.length ≠ 64 then .sigLen else
  let Rb := sig.take 32
  let Sb := sig.drop 32
  if !scIsCanonical Sb then .sNonCanonical else
  if !ptIsCanonical Rb then .rNonCanonical else
  match dec Rb with
  | none => .rInvalid
  | some R =>
    if hasSmallOrder R then .rSmallOrder else
    let s := decodeLE Sb                       -- `UnmarshalBinary`: the 32 bytes as they are
    if !ptIsCanonical pub then .aNonCanonical else
    match dec pub with
    | none => .aInvalid
    | some A =>
      if hasSmallOrder A then .aSmallOrder else
      if equationHolds R A s (chal Rb pub msg) then .ok else .equation

def verify (pub msg sig : Bytes) : Verdict := verifyCore challenge pub msg sig

/-- `crypto/ed25519.Verify(pub, msg, sig)` (a public key of the wrong length panics there; `false` here). -/
def goVerifyCore (chal : Bytes → Bytes → Bytes → Nat) (pub msg sig : Bytes) : Bool :=
  if pub.length ≠ 32 then false else
  match dec pub with
  | none => false
  | some A =>
    if sig.length ≠ 64 then false else
    if sig.getD 63 0 &&& 224 != 0 then false else
    let Rb := sig.take 32
    let k := chal Rb pub msg
    let Sn := decodeLE (sig.drop 32)
    if ¬ Sn < L then false else                -- `SetCanonicalBytes`
    let R' := add (smul k (neg A)) (smul Sn base)   -- `[k](-A) + [S]B`
    Rb = enc R'

def goVerify (pub msg sig : Bytes) : Bool := goVerifyCore challenge pub msg sig

/-! ### RFC 8032 §5.1.5 / §5.1.6 written out -/

/-- RFC 8032 §5.1.5 steps 1–2: hash the 32-byte private key; prune the lower 32 bytes: clear the lowest
    three bits of the first octet, clear the highest bit of the last octet, set the second highest. -/
def rfcSecretScalar (seed : Bytes) : Nat :=
  let h := (Sha512.hash seed).take 32
  let n := decodeLE h
  (n % 2 ^ 254) / 8 * 8 + 2 ^ 254

/-- RFC 8032 §5.1.6. `r`, `k` are the 64-octet digests interpreted as little-endian integers, used
    unreduced (the RFC reduces "for efficiency" only); `S = (r + k·s) mod L`. -/
def rfcSign (seed msg : Bytes) : Bytes :=
  let h := Sha512.hash seed
  let s := rfcSecretScalar seed
  let pfx := h.drop 32
  let A := enc (smul s base)
  let r := decodeLE (Sha512.hash (pfx ++ msg))
  let R := enc (smul r base)
  let k := decodeLE (Sha512.hash (R ++ A ++ msg))
  let S := (r + k * s) % L
  R ++ encodeLE 32 S

end Kyber.Eddsa
