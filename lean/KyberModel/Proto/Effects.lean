/-
C20 — shared read-only use is free of data races: the effect model.

A *call* (one invocation of a method by one goroutine) is abstracted to the sequence of memory accesses
it performs on abstract locations (`Nat`): reads, and writes whose value is a function of the values the
call has read so far. Calls run as threads over one shared memory under an arbitrary schedule
(interleaving). A *race* is a pair of accesses to one location from different threads, at least one of
them a write.

`Props/C20.lean` proves: if every location a call writes is accessed by no other call ("writes only
call-fresh locations"), then every schedule is race-free and every call returns what it returns when
run alone (sequentially) from the initial memory.

The second half of the file is the write-set table of kyber's read-only method set: for each
(implementation, method) the class of locations it writes. `pure`/`fresh` entries instantiate the
theorem; a `sharedWrite` entry would be a method that writes memory reachable from a shared operand
(outside the theorem's hypothesis; the race detector reports such methods — the two C20 findings,
edwards25519vartime `normalize()` and kilic `Pair`, were of this kind until they were fixed).
Core-only: the driver prints the table for the harness (`effects table`).
-/
namespace Kyber.Effects

/-- One memory access of a call. A write stores a function of the values read so far by this call. -/
inductive Acc where
  | rd (l : Nat)
  | wr (l : Nat) (f : List Nat → Nat)

def Acc.loc : Acc → Nat
  | .rd l => l
  | .wr l _ => l

def Acc.isWrite : Acc → Bool
  | .rd _ => false
  | .wr _ _ => true

/-- A call: its accesses in program order and its result as a function of the values read. -/
structure Call where
  prog : List Acc
  ret : List Nat → Nat

abbrev Mem := Nat → Nat

/-- A running thread: the accesses still to do and the values read so far (most recent first). -/
structure Thread where
  rest : List Acc
  reads : List Nat

/-- Execute one access of a thread on the memory. -/
def stepAcc (m : Mem) (t : Thread) : Mem × Thread :=
  match t.rest with
  | [] => (m, t)
  | .rd l :: r => (m, ⟨r, m l :: t.reads⟩)
  | .wr l f :: r => (fun x => if x = l then f t.reads else m x, ⟨r, t.reads⟩)

/-- Replace the `i`-th element. -/
def setNth {α : Type} : List α → Nat → α → List α
  | [], _, _ => []
  | _ :: xs, 0, v => v :: xs
  | x :: xs, n + 1, v => x :: setNth xs n v

/-- One scheduling decision: thread `i` performs its next access (a finished or unknown thread idles). -/
def step (s : Mem × List Thread) (i : Nat) : Mem × List Thread :=
  match s.2[i]? with
  | none => s
  | some t => let r := stepAcc s.1 t; (r.1, setNth s.2 i r.2)

/-- Run a whole schedule (a list of thread indices). -/
def run (s : Mem × List Thread) (sched : List Nat) : Mem × List Thread := sched.foldl step s

def start (c : Call) : Thread := ⟨c.prog, []⟩

/-- `k` steps of one thread running alone (a finished thread idles). -/
def solo : Nat → Mem → Thread → Mem × Thread
  | 0, m, t => (m, t)
  | k + 1, m, t => let r := solo k m t; stepAcc r.1 r.2

/-- The sequential result of a call from memory `m`: run it alone to completion. -/
def seqResult (c : Call) (m : Mem) : Nat := c.ret (solo c.prog.length m (start c)).2.reads

/-- The locations a call accesses / writes. -/
def Call.locs (c : Call) : List Nat := c.prog.map Acc.loc
def Call.writes (c : Call) : List Nat := (c.prog.filter Acc.isWrite).map Acc.loc

/-- Every location written by a call is accessed by no OTHER call. -/
def WritesFresh (cs : List Call) : Prop :=
  ∀ (i j : Nat) (ci cj : Call), cs[i]? = some ci → cs[j]? = some cj → i ≠ j → ∀ l ∈ ci.writes, l ∉ cj.locs

/-- Two accesses race: same location, different threads, at least one write. -/
def Races (cs : List Call) : Prop :=
  ∃ (i j : Nat) (ci cj : Call) (a b : Acc), cs[i]? = some ci ∧ cs[j]? = some cj ∧ i ≠ j ∧
    a ∈ ci.prog ∧ b ∈ cj.prog ∧ a.loc = b.loc ∧ (a.isWrite = true ∨ b.isWrite = true)

/-! ### The write-set table of the read-only method set -/

/-- What a method writes. -/
inductive WClass where
  | pure          -- writes nothing outside its own stack frame
  | fresh         -- writes only memory allocated by the call (results, clones, temporaries)
  | sharedWrite   -- writes memory reachable from a shared operand (NOT safe for shared read-only use)
deriving DecidableEq, Repr

structure Entry where
  impl : String     -- implementation family, matching harness/internal/groups names (or scheme name)
  method : String
  cls : WClass
  note : String
deriving Repr

def e (impl method : String) (cls : WClass) (note : String := "") : Entry := ⟨impl, method, cls, note⟩

/-- Methods of the read-only set, per implementation family. Source: reading each method body
    (receiver-writes convention of math/big, kilic, CIRCL, gnark: the receiver of an arithmetic call is
    written, operands are only read). -/
def pointMethods : List String :=
  ["MarshalBinary", "MarshalTo", "String", "Equal", "Clone", "Data", "operand:Add", "operand:Sub", "operand:Neg",
   "operand:Mul", "operand:Set", "MarshalSize", "mixed read-only use"]

def scalarMethods : List String :=
  ["MarshalBinary", "MarshalTo", "String", "Equal", "Clone", "operand:Add", "operand:Sub", "operand:Neg",
   "operand:Mul", "operand:Div", "operand:Inv", "operand:Set"]

/-- Point implementations whose read-only methods work on a copy or do not normalise at all. -/
def cleanPointImpls : List String :=
  ["ed25519", "ed25519-allowvt", "p256", "qr512", "bn256-g1", "bn256-g2", "bn256-gt", "bn254-g1", "bn254-g2", "bn254-gt",
   "kilic-g1", "kilic-g2", "kilic-gt", "circl-g1", "circl-g2", "circl-gt", "gnark-g1", "gnark-g2", "gnark-gt"]

/-- `edwards25519vartime`: `MarshalBinary`, `MarshalTo`, `String`, `Data` used to call `normalize()`,
    which rewrote X, Y, Z (and T) of the receiver in place (C20 finding, fixed by /repo 65997e5: they now
    normalise a copy, so the entries are `fresh`). -/
def vartimeImpls : List String := ["ed25519vt-proj", "ed25519vt-ext"]

def vartimeNormalising : List String := ["MarshalBinary", "MarshalTo", "String", "Data"]

def scalarImpls : List String := ["ed25519", "modint", "circl", "gnark"]

def table : List Entry :=
  (cleanPointImpls.flatMap fun i => pointMethods.map fun m =>
      e i ("Point." ++ m) (if m = "MarshalSize" then .pure else .fresh)) ++
  (vartimeImpls.flatMap fun i => pointMethods.map fun m =>
      if vartimeNormalising.contains m then
        e i ("Point." ++ m) .fresh "works on a normalised copy (before 65997e5: normalize() rewrote the receiver)"
      else e i ("Point." ++ m) (if m = "MarshalSize" then .pure else .fresh)) ++
  (scalarImpls.flatMap fun i => scalarMethods.map fun m => e i ("Scalar." ++ m) .fresh) ++
  [ e "suite" "Point/Scalar constructors" .fresh,
    e "suite" "RandomStream.XORKeyStream" .fresh "util/random: stateless stream, fresh randomness per call",
    e "suite" "RandomStream" .fresh "the accessor returns a stream without writing to the shared suite",
    e "suite" "key.NewKeyPair" .fresh "draws from the suite's stream, writes only the new key pair",
    e "suite" "Hash" .fresh,
    e "suite" "XOF" .fresh,
    e "pairing-bn256" "Suite accessors" .fresh "G1()/G2()/GT() and the constructors write nothing shared",
    e "pairing-bn254" "Suite accessors" .fresh,
    e "pairing-kilic" "Suite accessors" .fresh,
    e "pairing-circl" "Suite accessors" .fresh,
    e "pairing-gnark" "Suite accessors" .fresh,
    e "pairing-bn254" "Hash/BLS on a suite with configured tags" .fresh "the tags set by SetDomainG1/G2 are only read (copied into each DST_prime)",
    e "pairing-kilic" "Hash/BLS on a suite with configured tags" .fresh,
    e "pairing-bn256" "Pair" .fresh "operands cloned before MakeAffine",
    e "pairing-bn256" "ValidatePairing" .fresh,
    e "pairing-bn254" "Pair" .fresh,
    e "pairing-bn254" "ValidatePairing" .fresh,
    e "pairing-kilic" "Pair" .fresh "clones its operands (before 2887bba: Engine.AddPair made the shared points affine in place)",
    e "pairing-kilic" "ValidatePairing" .fresh "clones its operands (kilic/bls12-381 issue 37)",
    e "pairing-circl" "Pair" .fresh,
    e "pairing-circl" "ValidatePairing" .fresh,
    e "pairing-gnark" "Pair" .fresh,
    e "pairing-gnark" "ValidatePairing" .fresh,
    e "schnorr" "Verify" .fresh "shared public key only marshalled",
    e "anon" "Verify" .fresh "the members' keys and the signature are only read",
    e "anon" "Verify (linkable)" .fresh,
    e "eddsa" "Verify" .fresh,
    e "bls" "Verify" .fresh,
    e "bdn" "Mask.Clone" .fresh "immutable shared tables, fresh mask bytes",
    e "bdn" "Mask.Clone+AggregatePublicKeys" .fresh "clones share the (read-only) public keys and coefficient terms computed by NewMask",
    e "cosi" "Verify" .fresh,
    e "share" "PubPoly.Eval" .fresh,
    e "share" "PubPoly.Check" .fresh,
    e "share" "PubPoly.Commit" .fresh,
    e "proof" "HashVerify" .fresh ]

/-- The entries claimed safe for shared read-only use. -/
def claimedSafe : List Entry := table.filter fun x => x.cls ≠ .sharedWrite

/-- The abstract call of a table entry over `shared` operand locations: a `pure`/`fresh` method reads the
    shared locations and writes only its own fresh region (`base`, `base+1`, …); a `sharedWrite`
    method also writes the first shared location. -/
def abstractCall (cls : WClass) (shared : List Nat) (base nfresh : Nat) : Call :=
  let reads := shared.map Acc.rd
  let fr := (List.range nfresh).map fun k => Acc.wr (base + k) (fun vs => vs.foldl (· + ·) k)
  match cls with
  | .sharedWrite => ⟨reads ++ (shared.take 1).map (fun l => Acc.wr l (fun vs => vs.foldl (· + ·) 1)) ++ fr, fun vs => vs.foldl (· + ·) 0⟩
  | _ => ⟨reads ++ fr, fun vs => vs.foldl (· + ·) 0⟩

end Kyber.Effects
