import KyberModel.Groups.Scalar
/-
Model of `share/poly.go` (C07) in the discrete-log representation.

* a scalar is a `Nat` (reduced modulo the prime group order `q` by every operation),
* a point is its discrete logarithm with respect to the standard base (so `Point.Mul(s, P)` is
  `mul q s P`, `Point.Add` is `add q`, `Null` is `0`, `Mul(s, nil)` is `s·1`),
* a polynomial (`PriPoly.coeffs`, `PubPoly.commits`) is the list of its coefficients, constant first,
* a Go map `map[uint32]…` filled by `xyScalar`/`xyCommit` is an association list `(index, y)` in
  insertion order; `x[idx]` is always `SetInt64(int64(idx+1))`, a function of the key, so it is
  recomputed from the key (`xRec`). Go iterates maps in random order; the model iterates in insertion
  order (the theorems in Props/C07.lean show that the value does not depend on it).

The functions follow the Go text statement by statement, including what the code does with `nil`
shares, shares whose value is `nil`, duplicates and surplus shares.
-/
namespace Kyber.Share
open Kyber.Scalar

/-- Coefficient list, constant term first (`PriPoly.coeffs` / dlogs of `PubPoly.commits`). -/
abbrev Poly := List Nat

/-- A `*PriShare` / `*PubShare`: index and value; `V = none` models the Go value `V == nil`. -/
structure Share where
  I : Nat
  V : Option Nat
deriving Repr, DecidableEq

/-- `uint32` wrap-around. -/
def u32 (n : Nat) : Nat := n % 4294967296

/-- `xi := SetInt64(1 + int64(i))` of `PriPoly.Eval` / `PubPoly.Eval` (no wrap: the sum is in int64). -/
def xEval (q i : Nat) : Nat := (1 + i) % q

/-- `x[idx] = SetInt64(int64(idx + 1))` of `xyScalar` / `xyCommit` (`idx + 1` is computed in uint32). -/
def xRec (q idx : Nat) : Nat := u32 (idx + 1) % q

/-- Horner loop of `PriPoly.Eval`: `for j := t-1 … 0 { v.Mul(v, xi); v.Add(v, coeffs[j]) }`. -/
def evalAt (q : Nat) (coeffs : Poly) (xi : Nat) : Nat :=
  coeffs.foldr (fun c v => add q (mul q v xi) c) (zero q)

/-- `PriPoly.Eval(i)`. -/
def eval (q : Nat) (coeffs : Poly) (i : Nat) : Share := ⟨i, some (evalAt q coeffs (xEval q i))⟩

/-- `PriPoly.Shares(n)` / `PubPoly.Shares(n)` given the evaluation function. -/
def shares (q : Nat) (coeffs : Poly) (n : Nat) : List Share := (List.range n).map (eval q coeffs)

/-- Horner loop of `PubPoly.Eval` on discrete logs: `v.Mul(xi, v); v.Add(v, commits[j])`, from `Null`. -/
def pubEvalAt (q : Nat) (commits : Poly) (xi : Nat) : Nat :=
  commits.foldr (fun c v => add q (mul q xi v) c) 0

/-- `PubPoly.Eval(i)`. -/
def pubEval (q : Nat) (commits : Poly) (i : Nat) : Share := ⟨i, some (pubEvalAt q commits (xEval q i))⟩

def pubShares (q : Nat) (commits : Poly) (n : Nat) : List Share := (List.range n).map (pubEval q commits)

/-- `PriPoly.Add` (and `PubPoly.Add` on discrete logs): `errCoeffs` on different thresholds. -/
def polyAdd (q : Nat) (p r : Poly) : Option Poly :=
  if p.length ≠ r.length then none else some (List.zipWith (add q) p r)

/-- Discrete log of the base point argument: `nil` is the standard base. -/
def baseLog : Option Nat → Nat
  | none => 1
  | some b => b

/-- `PriPoly.Commit(b)`: `commits[i] = Mul(coeffs[i], b)`. -/
def commit (q : Nat) (coeffs : Poly) (b : Option Nat) : Poly :=
  coeffs.map (fun c => mul q c (baseLog b))

/-- Inner loop of `PriPoly.Mul` for one `i`: `coeffs[i+j] = coeffs[i+j] + p[i]*q[j]` for all `j`;
    `k` is the offset `i` still to be skipped in `acc`. -/
def mulRow (q a : Nat) : Poly → Nat → Poly → Poly
  | [], _, _ => []
  | c :: acc, 0, [] => c :: acc
  | c :: acc, 0, rj :: r => add q c (mul q a rj) :: mulRow q a acc 0 r
  | c :: acc, k + 1, r => c :: mulRow q a acc k r

/-- Outer loop of `PriPoly.Mul` from index `i` on. -/
def mulRows (q : Nat) (r : Poly) : Poly → Nat → Poly → Poly
  | [], _, acc => acc
  | a :: p, i, acc => mulRows q r p (i + 1) (mulRow q a acc i r)

/-- `PriPoly.Mul`: `len(p)+len(q)-1` zero coefficients, then the double loop. (Go panics in `make`
    when both coefficient slices are empty; the driver reports that case as `panic`.) -/
def polyMul (q : Nat) (p r : Poly) : Poly :=
  mulRows q r p 0 (List.replicate (p.length + r.length - 1) (zero q))

/-- `PubPoly.Check(s)`: `Eval(s.I).V.Equal(Mul(s.V, p.b))`. -/
def check (q : Nat) (commits : Poly) (b : Option Nat) (i v : Nat) : Bool :=
  pubEvalAt q commits (xEval q i) == mul q v (baseLog b)

/-! ### `xyScalar` / `xyCommit` -/

/-- `for _, share := range shares { if share != nil { sorted = append(sorted, share) } }`. -/
def dropNil (l : List (Option Share)) : List Share := l.filterMap id

/-- `sort.Sort(byIndex…)`, modelled as a stable sort by `I`. (Go's `sort.Sort` is an insertion sort,
    hence stable, up to 12 elements and unspecified among equal indices above; the order among equal
    indices only matters for *conflicting* duplicates, see Props/C07.lean.) -/
def sortByIndex (l : List Share) : List Share := l.mergeSort (fun a b => decide (a.I ≤ b.I))

/-- Go map assignment `m[k] = v` on an association list. -/
def mapSet : List (Nat × Nat) → Nat → Nat → List (Nat × Nat)
  | [], k, v => [(k, v)]
  | (k', v') :: rest, k, v => if k' = k then (k, v) :: rest else (k', v') :: mapSet rest k v

/-- The loop `for _, s := range sorted { if s.V == nil { continue }; x[idx] = …; y[idx] = s.V;
    if len(x) == t { break } }`. -/
def walk (t : Nat) : List Share → List (Nat × Nat) → List (Nat × Nat)
  | [], m => m
  | s :: rest, m =>
    match s.V with
    | none => walk t rest m
    | some v =>
      let m' := mapSet m s.I v
      if m'.length = t then m' else walk t rest m'

/-- `xyScalar(g, shares, t, n)` / `xyCommit(…)`; `n` is only a capacity hint in Go. -/
def xy (l : List (Option Share)) (t : Nat) : List (Nat × Nat) :=
  walk t (sortByIndex (dropNil l)) []

/-- Indices of the usable entries of a share slice (non-nil share with non-nil value), in slice
    order, with repetitions. Specification helper (not part of the Go code). -/
def validIdx (l : List (Option Share)) : List Nat :=
  (dropNil l).filterMap (fun s => s.V.map (fun _ => s.I))

/-! ### Recovery of the constant term -/

/-- The inner loop `for j, xj := range x { if i == j { continue }; num.Mul(num, xj);
    den.Mul(den, tmp.Sub(xj, xi)) }` started from `(num0, One)`. -/
def numDen (q : Nat) (m : List (Nat × Nat)) (i num0 : Nat) : Nat × Nat :=
  m.foldl (fun nd e => if i = e.1 then nd
    else (mul q nd.1 (xRec q e.1), mul q nd.2 (sub q (xRec q e.1) (xRec q i)))) (num0, one q)

/-- Body of the outer loop of `RecoverSecret`: `acc.Add(acc, num.Div(num, den))` with `num` started at `y_i`. -/
def secretTerm (q : Nat) (m : List (Nat × Nat)) (e : Nat × Nat) : Nat :=
  let nd := numDen q m e.1 e.2
  div q nd.1 nd.2

/-- `RecoverSecret(g, shares, t, n)`; `none` is the error "not enough shares". -/
def recoverSecret (q : Nat) (l : List (Option Share)) (t : Nat) : Option Nat :=
  let m := xy l t
  if m.length < t then none
  else some (m.foldl (fun acc e => add q acc (secretTerm q m e)) (zero q))

/-- Body of the outer loop of `RecoverCommit`: `Tmp.Mul(num.Div(num, den), y[i])` with `num` started at `One`. -/
def commitTerm (q : Nat) (m : List (Nat × Nat)) (e : Nat × Nat) : Nat :=
  let nd := numDen q m e.1 (one q)
  mul q (div q nd.1 nd.2) e.2

/-- `RecoverCommit(g, shares, t, n)` on discrete logs. -/
def recoverCommit (q : Nat) (l : List (Option Share)) (t : Nat) : Option Nat :=
  let m := xy l t
  if m.length < t then none
  else some (m.foldl (fun acc e => add q acc (commitTerm q m e)) 0)

/-! ### Recovery of the whole polynomial -/

/-- `minusConst(g, c)`: the polynomial `x - c`. -/
def minusConst (q c : Nat) : Poly := [neg q c, one q]

/-- Loop of `lagrangeBasis`: `basis = basis.Mul(minusConst(xm)); den.Sub(xs[i], xm); den.Inv(den);
    acc.Mul(acc, den)` for every key `m ≠ i`. -/
def basisLoop (q i : Nat) (m : List (Nat × Nat)) : Poly × Nat :=
  m.foldl (fun ba e => if i = e.1 then ba
    else (polyMul q ba.1 (minusConst q (xRec q e.1)),
          mul q ba.2 (inv q (sub q (xRec q i) (xRec q e.1))))) ([one q], one q)

/-- `lagrangeBasis(g, i, xs)`. -/
def lagrangeBasis (q i : Nat) (m : List (Nat × Nat)) : Poly :=
  let ba := basisLoop q i m
  ba.1.map (fun c => mul q c ba.2)

/-- One iteration `accPoly == nil ? basis : accPoly.Add(basis)`; outer `none` is an error of `Add`,
    `some none` is the Go state `accPoly == nil`. -/
def accStep (q : Nat) (term : Nat × Nat → Poly) (acc : Option (Option Poly)) (e : Nat × Nat) :
    Option (Option Poly) :=
  match acc with
  | none => none
  | some none => some (some (term e))
  | some (some a) => (polyAdd q a (term e)).map some

/-- The accumulation loop over the map. -/
def accumulate (q : Nat) (term : Nat × Nat → Poly) (m : List (Nat × Nat)) : Option (Option Poly) :=
  m.foldl (accStep q term) (some none)

/-- Result of the accumulation as Go returns it (`nil` polynomial rendered as the empty list). -/
def accResult : Option (Option Poly) → Option Poly
  | none => none
  | some none => some []
  | some (some a) => some a

/-- `RecoverPriPoly(g, shares, t, n)`: error unless exactly `t` map entries. -/
def recoverPriPoly (q : Nat) (l : List (Option Share)) (t : Nat) : Option Poly :=
  let m := xy l t
  if m.length ≠ t then none
  else accResult (accumulate q (fun e => (lagrangeBasis q e.1 m).map (fun c => mul q c e.2)) m)

/-- `RecoverPubPoly(g, shares, t, n)` (commitments as discrete logs): `basis.Commit(y[j])` summed.
    The base point Go stores in the result is `y[j]` of whichever `j` the map iteration visits
    first; it is not modelled (`PubPoly.Equal` ignores it). -/
def recoverPubPoly (q : Nat) (l : List (Option Share)) (t : Nat) : Option Poly :=
  let m := xy l t
  if m.length < t then none
  else accResult (accumulate q (fun e => commit q (lagrangeBasis q e.1 m) (some e.2)) m)

end Kyber.Share
