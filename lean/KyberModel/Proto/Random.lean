import KyberModel.Proto.Xof
import KyberModel.Groups.Scalar
/-
Model of `util/random/rand.go` (C19): `Bits`, `Int` (= `Kyber.Scalar.pick`, Groups/Scalar.lean) and the
multi-reader `randstream.XORKeyStream`, AS CODED.
-/
namespace Kyber.Random
open Kyber.Scalar

/-- `b[0] = f(b[0])`; indexing an empty slice panics (`none`). -/
def setHead (f : UInt8 → UInt8) : Bytes → Option Bytes
  | [] => none
  | b :: rest => some (f b :: rest)

/-- `b[0] &= ^(0xff << highbits)`: keep the low `hb` bits. -/
def maskByte (hb : Nat) (b : UInt8) : UInt8 := UInt8.ofNat (b.toNat % 2 ^ hb)
/-- `b[0] |= 1 << (highbits-1)` resp. `b[0] |= 0x80`. -/
def topByte (top : Nat) (b : UInt8) : UInt8 := UInt8.ofNat (b.toNat ||| top)

/-- `random.Bits(bitlen, exact, stream)` as a function of the `⌈bitlen/8⌉` bytes `raw` it drew from
    the stream (`b` starts as zeros, so `XORKeyStream(b, b)` leaves the raw key-stream bytes).
    `none` = the call panics. Statement order is that of the Go code.
    `guard = false` is the code as it stands; `guard = true` describes the repaired function
    (fixes/C19-bits-zero-exact.patch: `if bitlen == 0 { return b }`). -/
def bits (guard : Bool) (bitlen : Nat) (exact : Bool) (raw : Bytes) : Option Bytes :=
  if guard && bitlen == 0 then some [] else
  let hb := bitlen % 8
  let masked := if hb ≠ 0 then setHead (maskByte hb) raw else some raw
  match masked with
  | none => none
  | some b =>
    if exact then
      if hb ≠ 0 then setHead (topByte (2 ^ (hb - 1))) b else setHead (topByte 128) b
    else some b

/-- Number of stream bytes `Bits` consumes. -/
def bitsLen (bitlen : Nat) : Nat := (bitlen + 7) / 8

/-- `Bits` reading from (a finite prefix of) a stream: result and number of bytes consumed; the outer
    `none` means the given prefix is too short to decide. -/
def bitsFrom (guard : Bool) (bitlen : Nat) (exact : Bool) (stream : Bytes) : Option (Option Bytes × Nat) :=
  if stream.length < bitsLen bitlen then none
  else some (bits guard bitlen exact (stream.take (bitsLen bitlen)), bitsLen bitlen)

/-- `random.Int(mod, stream)`: value and bytes consumed (`none`: prefix exhausted). -/
def int (q : Nat) (stream : Bytes) : Option (Nat × Nat) := pick q stream

/-! ### `randstream` -/

/-- bytes requested from every reader on every call -/
def readerBytes : Nat := 32

/-- What `io.ReadFull(reader, buff)` obtains from a reader that can deliver `avail` before failing:
    at most 32 bytes; the read *fails* (`err ≠ nil`) iff fewer than 32 arrive. -/
def readFull (avail : Bytes) : Bytes := avail.take readerBytes
def failed (avail : Bytes) : Bool := decide (avail.length < readerBytes)

/-- Input of the SHA-256 call: whatever arrived from each reader, in reader order. -/
def seedInput (rs : List Bytes) : Bytes := (rs.map readFull).flatten

def allFailed (rs : List Bytes) : Bool := rs.all failed

/-- `randstream.XORKeyStream(dst, src)`, `len(dst) = dstLen`, readers able to deliver `rs`.
    `sha` is SHA-256, `prim` BLAKE2Xb. `none` = panic. -/
def stream (sha : Bytes → Bytes) (prim : Xof.Prim) (rs : List Bytes) (dstLen : Nat) (src : Bytes) :
    Option Bytes :=
  if src.length ≠ dstLen then none
  else if allFailed rs then none
  else
    match (Xof.step prim 64 (Xof.new 64 false (sha (seedInput rs))) (.xor dstLen src)).2 with
    | .bytes b => some b
    | _ => none

end Kyber.Random
