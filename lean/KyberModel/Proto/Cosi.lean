import KyberModel.Groups.Scalar
import KyberModel.Proto.Mask
/-
Model of the CoSi collective signature (`sign/cosi/cosi.go`, policies of `sign/policy.go`) in the
discrete-log representation. The Fiat–Shamir challenge `c = H(V ‖ A ‖ M)` is an oracle value supplied
as an input (the harness computes it with the suite's hash over the bytes the code hashes).
-/
namespace Kyber.Cosi
open Kyber.Scalar Kyber.Mask

/-- `Commit`: `V = v·B`. -/
def commit (q v : Nat) : Nat := mul q v (one q)

/-- `Response`: `r = v + c·a` (`ca = Mul(private, challenge)`, then `Add(random, ca)`). -/
def response (q a v c : Nat) : Nat := add q v (mul q a c)

/-- `AggregateResponses`: sum from `Zero()`. -/
def aggregateResponses (q : Nat) (rs : List Nat) : Nat := rs.foldl (add q) (zero q)

/-- Loop of `AggregateCommitments`. -/
def aggCommitLoop (q : Nat) : List Nat → List Bytes → Nat → Bytes → Option (Nat × Bytes)
  | V :: Vs, m :: ms, agg, am =>
    match aggregateMasks am m with
    | none => none
    | some am' => aggCommitLoop q Vs ms (add q agg V) am'
  | _, _, agg, am => some (agg, am)

/-- Result of `AggregateCommitments(suite, commitments, masks)`. -/
inductive AggRes
  | ok (V : Nat) (mask : Bytes)
  | err
  | panic                              -- `masks[0]` on two empty slices
deriving Repr, DecidableEq

def aggregateCommitments (q : Nat) (Vs : List Nat) (ms : List Bytes) : AggRes :=
  if Vs.length ≠ ms.length then .err else
  match ms with
  | [] => .panic
  | m0 :: _ =>
    match aggCommitLoop q Vs ms 0 (List.replicate m0.length 0) with
    | none => .err
    | some (V, m) => .ok V m

/-- `sign.Policy` / `cosi.Policy`: `nil` (→ `CompletePolicy`), `CompletePolicy`, `ThresholdPolicy{t}`
    (`t` is a Go `int`, possibly negative). -/
inductive Policy
  | none | complete | threshold (t : Int)
deriving Repr, DecidableEq

/-- `policy.Check(mask)`. -/
def Policy.check (p : Policy) (enabled total : Nat) : Bool :=
  match p with
  | .none => enabled == total
  | .complete => enabled == total
  | .threshold t => decide (t ≤ (enabled : Int))

/-- The parts of a received signature `sig` that `Verify` looks at:
    `len = len(sig)`; `V = none` when `sig[:PointLen]` does not unmarshal; `r` is
    `SetBytes(sig[PointLen:PointLen+ScalarLen])` (any bytes, reduced mod `q`); `mask = sig[lenRes:]`. -/
structure Sig where
  len : Nat
  V : Option Nat
  r : Nat
  mask : Bytes
deriving Repr

inductive Verdict
  | ok | errShort | errPoint | errMaskLen | errEquation | errPolicy
deriving Repr, DecidableEq

/-- `Verify(suite, publics, message, sig, policy)` after the three `nil` checks, in the order of the
    code. `c` is the challenge `H(sig[:PointLen] ‖ A ‖ message)` for the aggregate key `A` of the mask
    found in the signature. The equation checked is `(-(A))·c + r·B == V`. -/
def verify (q : Nat) (pubs : List Nat) (pointLen scalarLen : Nat) (s : Sig) (c : Nat) (p : Policy) : Verdict :=
  if s.len < pointLen then .errShort else
  match s.V with
  | none => .errPoint
  | some V =>
    if s.len < pointLen + scalarLen then .errShort else
    match CMask.new q pubs none with
    | none => .errMaskLen
    | some m0 =>
      match m0.setMask q pubs s.mask with
      | none => .errMaskLen
      | some m =>
        let left := add q (mul q c (neg q m.agg)) (mul q (s.r % q) (one q))
        if left != V then .errEquation
        else if !p.check (m.countEnabled pubs) pubs.length then .errPolicy
        else .ok

end Kyber.Cosi
