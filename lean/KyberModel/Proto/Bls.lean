import KyberModel.Groups.Scalar
import KyberModel.Proto.Share
/-
Model of `sign/bls/bls.go`, `sign/tbls/tbls.go` and the aggregation half of `sign/bdn/bdn.go` (C09) in
the discrete-log representation:

* a scalar is a `Nat` reduced modulo the prime group order `q`,
* a point of G1, G2 or GT is its discrete logarithm w.r.t. the group's base point (base = `1`),
* `Pair(a, b) = a·b mod q`, `ValidatePairing(p1,p2,i1,i2)` is equality of the two pairings (the five
  coded forms are related to this one in Props/C06.lean),
* `H(m)` (hash to the signature group) is an oracle value `h` supplied as an input,
* a signature as received from the wire is `Option Nat`: `none` when `UnmarshalBinary` refuses the
  bytes (wrong length, not a group element).

`share.PubPoly.Eval` and `share.RecoverCommit` are the functions of `Proto/Share.lean`.
-/
namespace Kyber.Bls
open Kyber.Scalar

/-- Which group carries the signatures (`NewSchemeOnG1` / `NewSchemeOnG2`). -/
inductive SigGroup
  | g1 | g2
deriving DecidableEq, Repr

/-- `suite.Pair(a, b)` on discrete logs. -/
def pair (q a b : Nat) : Nat := mul q a b

/-- `suite.ValidatePairing(p1, p2, i1, i2)`. -/
def validatePairing (q p1 p2 i1 i2 : Nat) : Bool := pair q p1 p2 == pair q i1 i2

/-- `keyGroup.Point().Base()`. -/
def base (q : Nat) : Nat := one q

/-- `NewKeyPair`: `public = Mul(secret, nil)`. -/
def publicKey (q x : Nat) : Nat := mul q x (base q)

/-- `Sign`: `HM.Mul(private, HM)`. -/
def sign (q x h : Nat) : Nat := mul q x h

/-- The closure `pairing(public, hashedMsg, sigPoint)` of the two constructors:
    on G1 `ValidatePairing(hashedMsg, public, sigPoint, Base)`,
    on G2 `ValidatePairing(public, hashedMsg, Base, sigPoint)`. -/
def verifyPoint (q : Nat) (sg : SigGroup) (X h s : Nat) : Bool :=
  match sg with
  | .g1 => validatePairing q h X s (base q)
  | .g2 => validatePairing q X h (base q) s

/-- `Verify(X, msg, sig)`: unmarshal, then the pairing check. `true` = `nil` error. -/
def verify (q : Nat) (sg : SigGroup) (X h : Nat) (sig : Option Nat) : Bool :=
  match sig with
  | none => false
  | some s => verifyPoint q sg X h s

/-! ### Threshold BLS -/

/-- A partial signature as received: `idx = none` when the string has fewer than two bytes
    (`SigShare.Index` fails), `val = none` when `sig[2:]` does not unmarshal to a point. -/
structure Partial where
  idx : Option Nat
  val : Option Nat
deriving Repr, DecidableEq

/-- `public.Eval(i).V` on discrete logs. -/
def pubShare (q : Nat) (commits : List Nat) (i : Nat) : Nat :=
  Share.pubEvalAt q commits (Share.xEval q i)

/-- `tbls.Sign(private = PriShare{i, xi}, msg)`: index prefix and BLS signature under the share. -/
def signPartial (q i xi h : Nat) : Partial := ⟨some i, some (sign q xi h)⟩

/-- `VerifyPartial(public, msg, sig)`. -/
def verifyPartial (q : Nat) (sg : SigGroup) (commits : List Nat) (h : Nat) (p : Partial) : Bool :=
  match p.idx with
  | none => false
  | some i => verify q sg (pubShare q commits i) h p.val

/-- The loop of `Recover` exactly as coded: every partial that parses and verifies is appended to
    `pubShares` (duplicates included), and the loop is left as soon as `len(pubShares) >= t`. -/
def collect (q : Nat) (sg : SigGroup) (commits : List Nat) (h t : Nat) :
    List Partial → List Share.Share → List Share.Share
  | [], acc => acc
  | p :: ps, acc =>
    match p.idx, p.val with
    | some i, some v =>
      if verifyPoint q sg (pubShare q commits i) h v then
        let acc' := acc ++ [⟨i, some v⟩]
        if t ≤ acc'.length then acc' else collect q sg commits h t ps acc'
      else collect q sg commits h t ps acc
    | _, _ => collect q sg commits h t ps acc

/-- `Recover(public, msg, sigs, t, n)`: `none` is any of the two errors
    ("not enough valid partial signatures", "not enough good public shares"). -/
def recover (q : Nat) (sg : SigGroup) (commits : List Nat) (h : Nat) (sigs : List Partial) (t : Nat) :
    Option Nat :=
  let ps := collect q sg commits h t sigs []
  if ps.length < t then none
  else Share.recoverCommit q (ps.map some) t

/-- The loop of `Recover` with the proposed repair (fixes/C09-tbls-recover-duplicates.patch): a partial
    whose index has already been accepted is skipped and does not count toward `t`. -/
def collectFixed (q : Nat) (sg : SigGroup) (commits : List Nat) (h t : Nat) :
    List Partial → List Share.Share → List Share.Share
  | [], acc => acc
  | p :: ps, acc =>
    match p.idx, p.val with
    | some i, some v =>
      if acc.any (fun s => s.I == i) then collectFixed q sg commits h t ps acc
      else if verifyPoint q sg (pubShare q commits i) h v then
        let acc' := acc ++ [⟨i, some v⟩]
        if t ≤ acc'.length then acc' else collectFixed q sg commits h t ps acc'
      else collectFixed q sg commits h t ps acc
    | _, _ => collectFixed q sg commits h t ps acc

def recoverFixed (q : Nat) (sg : SigGroup) (commits : List Nat) (h : Nat) (sigs : List Partial) (t : Nat) :
    Option Nat :=
  let ps := collectFixed q sg commits h t sigs []
  if ps.length < t then none
  else Share.recoverCommit q (ps.map some) t

/-! ### BDN aggregation (`sign/bdn/bdn.go`); the mask objects are in `Proto/Mask.lean` -/

/-- Result of an operation that can fail or (on the unchanged tree) panic. -/
inductive Res (α : Type)
  | ok (a : α)
  | err
  | panic
deriving Repr, DecidableEq

/-- `AggregateSignatures(sigs, mask)` as coded. `bits i` is `mask.GetBit(i)` for `i < n`;
    `coefs = none` models `mask.publicCoefs == nil` (mask created with an own key on the unchanged
    tree): indexing it panics. Order of the checks per enabled bit: signatures exhausted → error;
    unmarshal fails → error; then the coefficient is read. -/
def aggSigLoop (q : Nat) (bits : Nat → Bool) (coefs : Option (List Nat)) :
    Nat → Nat → List (Option Nat) → Nat → Res Nat
  | 0, _, sigs, agg => if sigs.isEmpty then .ok agg else .err
  | fuel + 1, i, sigs, agg =>
    if bits i then
      match sigs with
      | [] => .err
      | none :: _ => .err
      | some s :: rest =>
        match coefs with
        | none => .panic
        | some cs =>
          match cs[i]? with
          | none => .panic
          | some c => aggSigLoop q bits coefs fuel (i + 1) rest (add q agg (add q (mul q c s) s))
    else aggSigLoop q bits coefs fuel (i + 1) sigs agg

def aggregateSignatures (q n : Nat) (bits : Nat → Bool) (coefs : Option (List Nat))
    (sigs : List (Option Nat)) : Res Nat :=
  aggSigLoop q bits coefs n 0 sigs 0

/-- `publicTerms[i] = c_i·X_i + X_i` computed by `NewMask`. -/
def publicTerms (q : Nat) (pubs coefs : List Nat) : List Nat :=
  List.zipWith (fun X c => add q (mul q c X) X) pubs coefs

/-- `AggregatePublicKeys(mask)`; `terms = none` models `mask.publicTerms == nil`. -/
def aggPubLoop (q : Nat) (bits : Nat → Bool) (terms : Option (List Nat)) : Nat → Nat → Nat → Res Nat
  | 0, _, agg => .ok agg
  | fuel + 1, i, agg =>
    if bits i then
      match terms with
      | none => .panic
      | some ts =>
        match ts[i]? with
        | none => .panic
        | some tm => aggPubLoop q bits terms fuel (i + 1) (add q agg tm)
    else aggPubLoop q bits terms fuel (i + 1) agg

def aggregatePublicKeys (q n : Nat) (bits : Nat → Bool) (terms : Option (List Nat)) : Res Nat :=
  aggPubLoop q bits terms n 0 0

end Kyber.Bls
