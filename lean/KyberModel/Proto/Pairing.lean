import KyberModel.Groups.Scalar
/-
Model of `pairing.Suite.Pair` / `ValidatePairing` (C06) in the discrete-log representation: a point of
G1, G2 or GT is its logarithm w.r.t. the base point (`e(B₁,B₂)` for GT), `Pair(a,b) = a·b mod q`.
kyber writes GT additively (`GT.Add` is the field multiplication, `GT.Mul(s,·)` the exponentiation), and
so does the model.

The five coded forms of `ValidatePairing(p1, p2, i1, i2)`:
* bn256 : `Pair(p1,p2).Equal(Pair(i1,i2))`
* bn254 : the same after `MakeAffine` of clones of the two G2 arguments (a change of representative)
* kilic : `AddPair(p1,p2); AddPairInv(i1,i2); Check()` — `e(p1,p2)·e(−i1,i2) = 1`, a pair with an
          identity component is skipped (contributes 1)
* circl : `ProdPairFrac([p1,i1],[p2,i2],[1,−1]).IsIdentity()` — as coded, all G1 inputs are normalised
          with one shared inversion, which collapses the product to 1 when `p1` or `i1` is the identity
* gnark : `PairingCheck([p1,−i1],[p2,i2])`
-/
namespace Kyber.Pairing
open Kyber.Scalar

/-- `Pair(a, b)`. -/
def pair (q a b : Nat) : Nat := mul q a b

/-- `GT.Mul(s, g)` (exponentiation in the target field). -/
def gtMul (q s g : Nat) : Nat := mul q s g

/-- `GT.Add(g, g')` (multiplication in the target field). -/
def gtAdd (q g g' : Nat) : Nat := add q g g'

/-- `G.Mul(s, P)`, `G.Add`, `G.Neg` on logarithms. -/
def gMul (q s P : Nat) : Nat := mul q s P
def gAdd (q P Q : Nat) : Nat := add q P Q
def gNeg (q P : Nat) : Nat := neg q P

def validateBn256 (q p1 p2 i1 i2 : Nat) : Bool := pair q p1 p2 == pair q i1 i2

/-- `norm` is the effect of `MakeAffine` on the logarithm of the represented point. -/
def validateBn254 (q : Nat) (norm : Nat → Nat) (p1 p2 i1 i2 : Nat) : Bool :=
  pair q p1 (norm p2) == pair q i1 (norm i2)

/-- kilic's `AddPair`: pairs with an identity component are not added (contribute the identity of GT). -/
def kilicTerm (q a b : Nat) : Nat := if a % q = 0 ∨ b % q = 0 then 0 else pair q a b

def validateKilic (q p1 p2 i1 i2 : Nat) : Bool :=
  gtAdd q (kilicTerm q p1 p2) (kilicTerm q (gNeg q i1) i2) == 0

/-- The product form shared by circl (for non-identity G1 inputs) and gnark. -/
def validateProduct (q p1 p2 i1 i2 : Nat) : Bool :=
  gtAdd q (pair q p1 p2) (pair q (gNeg q i1) i2) == 0

def validateGnark (q p1 p2 i1 i2 : Nat) : Bool := validateProduct q p1 p2 i1 i2

/-- circl as coded on the unchanged tree. -/
def validateCirclCoded (q p1 p2 i1 i2 : Nat) : Bool :=
  if p1 % q = 0 ∨ i1 % q = 0 then true else validateProduct q p1 p2 i1 i2

/-- circl with fixes/C06-circl-validatepairing-identity.patch: identity inputs compare the two pairings. -/
def validateCirclFixed (q p1 p2 i1 i2 : Nat) : Bool :=
  if p1 % q = 0 ∨ i1 % q = 0 then pair q p1 p2 == pair q i1 i2 else validateProduct q p1 p2 i1 i2

end Kyber.Pairing
