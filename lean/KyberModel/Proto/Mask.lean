import KyberModel.Groups.Scalar
/-
Participation masks (C09): `sign/bdn/mask.go` and the mask of `sign/cosi/cosi.go`, as byte-array
state machines.

Bits are numbered as in Go: bit `i` lives in byte `i / 8` at position `i & 7`.

The BDN mask stores the caller's slice in `SetMask` (`m.mask = mask`), so two masks, or a mask and its
caller, can share storage. The model therefore has an explicit heap of byte buffers; a mask object
holds a reference into it. `Clone` allocates a fresh buffer. The CoSi mask copies bit by bit and never
aliases; it is a plain value together with the incrementally maintained aggregate public key.
-/
namespace Kyber.Mask
open Kyber.Scalar

/-! ### Bits in a byte string -/

/-- `b & (1 << k) != 0`. -/
def testB (b : UInt8) (k : Nat) : Bool := b.toNat.testBit k
/-- `b |= 1 << k` for `k < 8`. -/
def setB (b : UInt8) (k : Nat) : UInt8 := UInt8.ofNat (b.toNat ||| 2 ^ k)
/-- `b &^= 1 << k` for `k < 8`. -/
def clrB (b : UInt8) (k : Nat) : UInt8 := UInt8.ofNat (b.toNat &&& (255 ^^^ 2 ^ k))
/-- `a | b`. -/
def orB (a b : UInt8) : UInt8 := UInt8.ofNat (a.toNat ||| b.toNat)

/-- `mask[i/8] & (1 << (i&7)) != 0`; a missing byte reads as 0 (never happens under the invariant). -/
def bit (m : Bytes) (i : Nat) : Bool := testB (m.getD (i / 8) 0) (i % 8)

/-- `mask[i/8] |= / &^= 1 << (i&7)`. -/
def writeBit (m : Bytes) (i : Nat) (en : Bool) : Bytes :=
  m.set (i / 8) (if en then setB (m.getD (i / 8) 0) (i % 8) else clrB (m.getD (i / 8) 0) (i % 8))

/-- `(len(publics) + 7) / 8`. -/
def maskLen (n : Nat) : Nat := (n + 7) / 8

/-- Indices `i < n` whose bit is set (`Participants`, in order). -/
def enabled (n : Nat) (m : Bytes) : List Nat := (List.range n).filter (bit m)

/-- `CountEnabled`: only bits below `len(publics)` are counted. -/
def countEnabled (n : Nat) (m : Bytes) : Nat := (enabled n m).length

/-- Bits that are set among ALL `8·len(mask)` bits (padding bits included), in increasing order:
    what `forEachBitEnabled` walks over. -/
def allEnabled (m : Bytes) : List Nat := (List.range (8 * m.length)).filter (bit m)

/-- `IndexOfNthEnabled(nth)`: index of the `nth` set bit over all bits of the array, or -1. -/
def indexOfNthEnabled (m : Bytes) (nth : Int) : Int :=
  if nth < 0 then -1 else
  match (allEnabled m)[nth.toNat]? with
  | some i => i
  | none => -1

/-- `NthEnabledAtIndex(idx)`: number of set bits before `idx` if bit `idx` is set, else -1. -/
def nthEnabledAtIndex (m : Bytes) (idx : Int) : Int :=
  if idx < 0 then -1 else
  match (allEnabled m).idxOf? idx.toNat with
  | some k => k
  | none => -1

/-- First position of `key` in `publics` (`key.Equal(myKey)`). -/
def findKey (pubs : List Nat) (key : Nat) : Option Nat := pubs.idxOf? key

/-- `Merge` / `AggregateMasks` byte-wise or. -/
def orBytes : Bytes → Bytes → Bytes
  | a :: as, b :: bs => orB a b :: orBytes as bs
  | _, _ => []

/-! ### BDN masks on a heap of buffers -/

/-- A `*bdn.Mask`: reference to its `mask` buffer, and whether `publicCoefs` / `publicTerms` were
    computed (on the unchanged tree they are not when `NewMask` is given an own key). -/
structure MaskObj where
  ref : Nat
  hasCoefs : Bool
deriving Repr, DecidableEq

/-- `bufs` is the store of all byte slices (those allocated by `NewMask`/`Clone` and those of the
    caller); `masks` the mask objects in creation order; `caller` maps the caller's k-th slice to its
    place in the store. -/
structure Heap where
  bufs : List Bytes
  masks : List MaskObj
  caller : List Nat
deriving Repr

def Heap.empty : Heap := ⟨[], [], []⟩

/-- Store index of the caller's `b`-th slice. -/
def Heap.callerRef (h : Heap) (b : Nat) : Option Nat := h.caller[b]?

/-- Contents of the caller's `b`-th slice. -/
def Heap.callerBuf (h : Heap) (b : Nat) : Option Bytes :=
  match h.caller[b]? with
  | none => none
  | some r => h.bufs[r]?

/-- Operations of a history. `m` = mask id (creation order), `b` = id of a caller slice (allocation order). -/
inductive Op
  | newMask (own : Option Nat)            -- `NewMask(group, publics, myKey)`; `own` = discrete log of myKey
  | newBuf (bytes : Bytes)                -- the caller allocates a byte slice
  | poke (b i : Nat) (v : UInt8)          -- the caller writes `buf[i] = v`
  | setMask (m b : Nat)                   -- `m.SetMask(buf_b)`
  | merge (m b : Nat)                     -- `m.Merge(buf_b)`
  | setBit (m : Nat) (i : Int) (en : Bool)
  | clone (m : Nat)
  | getBit (m : Nat) (i : Int)
  | maskBytes (m : Nat)                   -- `m.Mask()`
  | countEnabled (m : Nat)
  | countTotal (m : Nat)
  | len (m : Nat)
  | indexOfNth (m : Nat) (nth : Int)
  | nthAt (m : Nat) (idx : Int)
  | participants (m : Nat)
  | readBuf (b : Nat)                     -- the caller reads back its slice
deriving Repr

/-- Observable result of one operation. -/
inductive Out
  | unit | err | bad
  | bool (b : Bool)
  | int (i : Int)
  | bytes (b : Bytes)
  | nats (l : List Nat)
  | hasCoefs (b : Bool)                   -- result of NewMask / Clone: a mask with / without coefficients
deriving Repr, DecidableEq

/-- Buffer of mask `m`. -/
def Heap.maskBuf (h : Heap) (m : Nat) : Option Bytes :=
  match h.masks[m]? with
  | none => none
  | some o => h.bufs[o.ref]?

/-- One step. `pubs` = discrete logs of the public keys (`n = pubs.length`), `fixed` selects the repaired
    `NewMask` (coefficients computed before the own-key branch returns). References to objects that do
    not exist answer `bad` and change nothing (the harness never produces them). -/
def step (pubs : List Nat) (fixed : Bool) (h : Heap) (op : Op) : Heap × Out :=
  let n := pubs.length
  match op with
  | .newMask own =>
    let zero : Bytes := List.replicate (maskLen n) 0
    match own with
    | none => (⟨h.bufs ++ [zero], h.masks ++ [⟨h.bufs.length, true⟩], h.caller⟩, .hasCoefs true)
    | some key =>
      match findKey pubs key with
      | none => (h, .err)
      | some i => (⟨h.bufs ++ [writeBit zero i true], h.masks ++ [⟨h.bufs.length, fixed⟩], h.caller⟩, .hasCoefs fixed)
  | .newBuf bytes => (⟨h.bufs ++ [bytes], h.masks, h.caller ++ [h.bufs.length]⟩, .unit)
  | .poke b i v =>
    match h.callerRef b with
    | none => (h, .bad)
    | some r =>
      match h.bufs[r]? with
      | none => (h, .bad)
      | some buf => if i < buf.length then (⟨h.bufs.set r (buf.set i v), h.masks, h.caller⟩, .unit) else (h, .bad)
  | .setMask m b =>
    match h.masks[m]?, h.callerRef b with
    | some o, some r =>
      match h.bufs[r]? with
      | none => (h, .bad)
      | some buf =>
        if maskLen n ≠ buf.length then (h, .err)
        else (⟨h.bufs, h.masks.set m ⟨r, o.hasCoefs⟩, h.caller⟩, .unit)
    | _, _ => (h, .bad)
  | .merge m b =>
    match h.masks[m]?, h.callerBuf b with
    | some o, some buf =>
      match h.bufs[o.ref]? with
      | none => (h, .bad)
      | some cur =>
        if cur.length ≠ buf.length then (h, .err)
        else (⟨h.bufs.set o.ref (orBytes cur buf), h.masks, h.caller⟩, .unit)
    | _, _ => (h, .bad)
  | .setBit m i en =>
    match h.masks[m]? with
    | none => (h, .bad)
    | some o =>
      match h.bufs[o.ref]? with
      | none => (h, .bad)
      | some cur =>
        if i < 0 ∨ (n : Int) ≤ i then (h, .err)
        else (⟨h.bufs.set o.ref (writeBit cur i.toNat en), h.masks, h.caller⟩, .unit)
  | .clone m =>
    match h.masks[m]? with
    | none => (h, .bad)
    | some o =>
      match h.bufs[o.ref]? with
      | none => (h, .bad)
      | some cur => (⟨h.bufs ++ [cur], h.masks ++ [⟨h.bufs.length, o.hasCoefs⟩], h.caller⟩, .hasCoefs o.hasCoefs)
  | .getBit m i =>
    match h.maskBuf m with
    | none => (h, .bad)
    | some cur => if i < 0 ∨ (n : Int) ≤ i then (h, .err) else (h, .bool (bit cur i.toNat))
  | .maskBytes m =>
    match h.maskBuf m with
    | none => (h, .bad)
    | some cur => (h, .bytes cur)
  | .countEnabled m =>
    match h.maskBuf m with
    | none => (h, .bad)
    | some cur => (h, .int (countEnabled n cur))
  | .countTotal m =>
    match h.maskBuf m with
    | none => (h, .bad)
    | some _ => (h, .int n)
  | .len m =>
    match h.maskBuf m with
    | none => (h, .bad)
    | some _ => (h, .int (maskLen n))
  | .indexOfNth m nth =>
    match h.maskBuf m with
    | none => (h, .bad)
    | some cur => (h, .int (indexOfNthEnabled cur nth))
  | .nthAt m idx =>
    match h.maskBuf m with
    | none => (h, .bad)
    | some cur => (h, .int (nthEnabledAtIndex cur idx))
  | .participants m =>
    match h.maskBuf m with
    | none => (h, .bad)
    | some cur => (h, .nats (enabled n cur))
  | .readBuf b =>
    match h.callerBuf b with
    | none => (h, .bad)
    | some buf => (h, .bytes buf)

/-- Run a history, collecting the observations. -/
def run (pubs : List Nat) (fixed : Bool) : Heap → List Op → Heap × List Out
  | h, [] => (h, [])
  | h, op :: ops =>
    let r := step pubs fixed h op
    let rs := run pubs fixed r.1 ops
    (rs.1, r.2 :: rs.2)

/-! ### CoSi mask (`sign/cosi/cosi.go`) -/

/-- A `*cosi.Mask`: the bit array and `AggregatePublic` (discrete log). -/
structure CMask where
  mask : Bytes
  agg : Nat
deriving Repr, DecidableEq

/-- `SetBit(i, enable)` below the range check: flip and add/subtract only on a change. -/
def CMask.setBitRaw (q : Nat) (pubs : List Nat) (c : CMask) (i : Nat) (en : Bool) : CMask :=
  let cur := bit c.mask i
  if !cur && en then ⟨writeBit c.mask i true, add q c.agg (pubs.getD i 0)⟩
  else if cur && !en then ⟨writeBit c.mask i false, sub q c.agg (pubs.getD i 0)⟩
  else c

/-- `SetBit(i, enable)`: `none` = error "index out of range". (Negative `i` panics in Go and is not
    part of the model: the harness never passes one.) -/
def CMask.setBit (q : Nat) (pubs : List Nat) (c : CMask) (i : Nat) (en : Bool) : Option CMask :=
  if pubs.length ≤ i then none else some (c.setBitRaw q pubs i en)

/-- `NewMask(suite, publics, myKey)`. -/
def CMask.new (q : Nat) (pubs : List Nat) (own : Option Nat) : Option CMask :=
  let m0 : CMask := ⟨List.replicate (maskLen pubs.length) 0, 0⟩
  match own with
  | none => some m0
  | some key =>
    match findKey pubs key with
    | none => none
    | some i => m0.setBit q pubs i true

/-- `SetMask(mask)`: bit-by-bit update for `i < len(publics)` towards `mask`; padding bits of the
    argument are ignored. `none` = "mismatching mask lengths". -/
def CMask.setMask (q : Nat) (pubs : List Nat) (c : CMask) (m : Bytes) : Option CMask :=
  if maskLen pubs.length ≠ m.length then none
  else some ((List.range pubs.length).foldl (fun c i => c.setBitRaw q pubs i (bit m i)) c)

/-- `IndexEnabled(i)`. -/
def CMask.indexEnabled (pubs : List Nat) (c : CMask) (i : Nat) : Option Bool :=
  if pubs.length ≤ i then none else some (bit c.mask i)

/-- `KeyEnabled(public)`. -/
def CMask.keyEnabled (pubs : List Nat) (c : CMask) (key : Nat) : Option Bool :=
  match findKey pubs key with
  | none => none
  | some i => c.indexEnabled pubs i

def CMask.countEnabled (pubs : List Nat) (c : CMask) : Nat := Mask.countEnabled pubs.length c.mask

/-- `AggregateMasks(a, b)`. -/
def aggregateMasks (a b : Bytes) : Option Bytes :=
  if a.length ≠ b.length then none else some (orBytes a b)

/-- Operations of a CoSi-mask history. -/
inductive COp
  | setBit (i : Nat) (en : Bool)
  | setMask (m : Bytes)
  | indexEnabled (i : Nat)
  | keyEnabled (key : Nat)
  | countEnabled
  | countTotal
  | len
  | maskBytes
  | aggregate                          -- read `AggregatePublic`
deriving Repr

inductive COut
  | unit | err
  | bool (b : Bool)
  | nat (n : Nat)
  | bytes (b : Bytes)
deriving Repr, DecidableEq

def cstep (q : Nat) (pubs : List Nat) (c : CMask) : COp → CMask × COut
  | .setBit i en => match c.setBit q pubs i en with
    | none => (c, .err) | some c' => (c', .unit)
  | .setMask m => match c.setMask q pubs m with
    | none => (c, .err) | some c' => (c', .unit)
  | .indexEnabled i => match c.indexEnabled pubs i with
    | none => (c, .err) | some b => (c, .bool b)
  | .keyEnabled k => match c.keyEnabled pubs k with
    | none => (c, .err) | some b => (c, .bool b)
  | .countEnabled => (c, .nat (c.countEnabled pubs))
  | .countTotal => (c, .nat pubs.length)
  | .len => (c, .nat (maskLen pubs.length))
  | .maskBytes => (c, .bytes c.mask)
  | .aggregate => (c, .nat c.agg)

def crun (q : Nat) (pubs : List Nat) : CMask → List COp → CMask × List COut
  | c, [] => (c, [])
  | c, op :: ops =>
    let r := cstep q pubs c op
    let rs := crun q pubs r.1 ops
    (rs.1, r.2 :: rs.2)

end Kyber.Mask
