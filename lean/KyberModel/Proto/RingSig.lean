import KyberModel.Groups.Scalar
/-
C08 — the anonymity-set ("ring") signature of `sign/anon/sig.go`, optionally linkable, in the
discrete-log representation (core-only, executed by the driver).

A scalar is a `Nat` reduced mod the prime group order `q`; a point is its discrete logarithm (base
point = 1). The hash `H1(m, [scope, tag], PG, [PH])` that closes the challenge ring is an oracle
`H : Nat → Option Nat → Nat` (message, scope and tag are fixed during one Sign / Verify, they select the
oracle). The linkage base `Pick(XOF(scope))` is the logarithm `hb`; the tag is `x•hb`.
-/
namespace Kyber.RingSig
open Kyber

/-- Linkable mode carries the scope base and the tag (logarithms); `none` = unlinkable (`linkScope == nil`). -/
abbrev Link := Option (Nat × Nat)

structure Sig where
  c0 : Nat
  s : List Nat
  tag : Option Nat
deriving DecidableEq, Repr

/-- `PG = s_i•B + c_i•L_i`. -/
def pg (q c s Li : Nat) : Nat := (s % q + c * Li % q) % q
/-- `PH = s_i•linkBase + c_i•linkTag` (only when linkable). -/
def ph (q : Nat) (link : Link) (c s : Nat) : Option Nat :=
  link.map fun bt => (s * bt.1 % q + c * bt.2 % q) % q

/-- One ring position of `Verify` / `Sign`: from `c_i` to `c_{i+1} = H1(PG, PH)`. -/
def step (q : Nat) (H : Nat → Option Nat → Nat) (link : Link) (c : Nat) (sl : Nat × Nat) : Nat :=
  H (pg q c sl.1 sl.2) (ph q link c sl.1)

/-- Walk the ring positions in order. -/
def chain (q : Nat) (H : Nat → Option Nat → Nat) (link : Link) (c : Nat) (sl : List (Nat × Nat)) : Nat :=
  sl.foldl (step q H link) c

/-- The oracle queries made along the chain (the driver checks they are all in its table). -/
def queries (q : Nat) (H : Nat → Option Nat → Nat) (link : Link) :
    Nat → List (Nat × Nat) → List (Nat × Option Nat)
  | _, [] => []
  | c, sl :: rest => (pg q c sl.1 sl.2, ph q link c sl.1) :: queries q H link (step q H link c sl) rest

/-- Link data of `Verify`: scope base (from the scope) and tag (from the signature). -/
def linkOf (hb tag : Option Nat) : Link :=
  match hb, tag with
  | some b, some t => some (b, t)
  | _, _ => none

/-- `Verify`: exactly `n` responses are read for a ring of `n` keys; the chain started at `c0` must
    return to `c0`. `hb` is the scope base when linkable; the tag is taken from the signature. -/
def verify (q : Nat) (H : Nat → Option Nat → Nat) (ring : List Nat) (hb : Option Nat) (sig : Sig) : Bool :=
  if hb.isSome ≠ sig.tag.isSome then false else
  if sig.s.length ≠ ring.length then false else
  chain q H (linkOf hb sig.tag) sig.c0 (sig.s.zip ring) % q = sig.c0 % q

/-- `Sign` for the signer at position `before.length` of the ring `before ++ [x•B] ++ after`:
    commitment `u`, responses `sb`, `sa` picked for the other positions (loop order: `after` first,
    wrapping round to `before`), `s_π = u − x·c_π`. -/
def sign (q : Nat) (H : Nat → Option Nat → Nat) (x : Nat) (hb : Option Nat)
    (before after : List Nat) (u : Nat) (sb sa : List Nat) : Sig :=
  let tag := hb.map fun b => x * b % q
  let link : Link := hb.map fun b => (b, x * b % q)
  let c1 := H (u % q) (hb.map fun b => u * b % q)          -- H1(u•B, u•linkBase)
  let c0 := chain q H link c1 (sa.zip after)
  let cpi := chain q H link c0 (sb.zip before)
  let spi := Scalar.sub q u (Scalar.mul q x cpi)
  ⟨c0, sb ++ spi :: sa, tag⟩

/-- `Sign(…, mine = pi, …)` on a ring given as one list; `svals` holds the picked responses by ring
    index (the entry at `pi` is ignored). -/
def signAt (q : Nat) (H : Nat → Option Nat → Nat) (x : Nat) (hb : Option Nat)
    (ring : List Nat) (pi : Nat) (u : Nat) (svals : List Nat) : Sig :=
  sign q H x hb (ring.take pi) (ring.drop (pi + 1)) u (svals.take pi) (svals.drop (pi + 1))

end Kyber.RingSig
