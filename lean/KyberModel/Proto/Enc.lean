import KyberModel.Core.Bytes
/-
Models of kyber's encryption schemes (C16), AS CODED, in the discrete-log representation: a scalar
is a `Nat` mod the prime group order `q`, a point is its discrete logarithm, a pairing is the product
mod `q`. KDF, AEAD, hash functions and XOF streams are parameters (oracles).

  * ECIES          — encrypt/ecies/ecies.go : ephemeral DH → HKDF → AES-GCM, ciphertext `R ‖ ct`
  * BF-IBE CCA/CPA — encrypt/ibe/ibe.go     : Fujisaki–Okamoto on G1/G2 (identical in this
                     representation: only the groups of `U` and the keys are swapped), CPA variant
  * anon-set       — sign/anon/enc.go       : header of wrapped keys, re-derivation check, XOF body, MAC
-/
namespace Kyber.Enc

/-- Fixed-length encodings of points and scalars of the group at hand. -/
structure Codec where
  q : Nat
  pointLen : Nat
  scalarLen : Nat
  encPoint : Nat → Bytes
  decPoint : Bytes → Option Nat
  encScalar : Nat → Bytes
  decScalar : Bytes → Option Nat

/-! ### ECIES -/

/-- AEAD with the nonce and (empty) associated data folded into the key material `K` (key ‖ nonce). -/
structure Aead (K : Type) where
  sealBox : K → Bytes → Bytes
  openBox : K → Bytes → Option Bytes

/-- `Encrypt(group, public, message)`: `x` = dlog of the public key, `r` the ephemeral scalar.
    `dh = r·public`; key material `kdf dh`; output `R ‖ Seal(message)`. -/
def eciesEncrypt {K : Type} (c : Codec) (kdf : Nat → K) (a : Aead K) (x r : Nat) (msg : Bytes) : Bytes :=
  c.encPoint (r % c.q) ++ a.sealBox (kdf (r * x % c.q)) msg

/-- `Decrypt(group, private, ctx)`; `none` = error. -/
def eciesDecrypt {K : Type} (c : Codec) (kdf : Nat → K) (a : Aead K) (x : Nat) (ct : Bytes) : Option Bytes :=
  if ct.length < c.pointLen then none else
  match c.decPoint (ct.take c.pointLen) with
  | none => none
  | some R => a.openBox (kdf (x * R % c.q)) (ct.drop c.pointLen)

/-! ### Boneh–Franklin IBE -/

structure IbeOracles where
  /-- `s.Hash().Size()` -/
  hs : Nat
  /-- full digest of `H2Tag ‖ marshal(gt)`, the GT element given by its dlog -/
  h2 : Nat → Bytes
  /-- `h3(sigma, msg)`: hash to a scalar by rejection sampling; `none` = "rejection sampling failure" -/
  h3 : Bytes → Bytes → Option Nat
  /-- full digest of `H4Tag ‖ sigma` -/
  h4 : Bytes → Bytes

/-- `gtToHash(s, gt, length)` AS CODED: `b := make([]byte, length)`; `bytes.NewReader(digest).Read(b)`
    copies at most `len(digest)` bytes — the rest of `b` stays zero. -/
def gtToHash (o : IbeOracles) (gt : Nat) (length : Nat) : Bytes :=
  (o.h2 gt).take length ++ List.replicate (length - (o.h2 gt).length) 0

/-- `h4(s, sigma, length) = digest[:length]` (callers guarantee `length ≤ hs`). -/
def h4pad (o : IbeOracles) (sigma : Bytes) (length : Nat) : Bytes := (o.h4 sigma).take length

structure IbeCt where
  U : Nat
  V : Bytes
  W : Bytes
deriving DecidableEq, Repr

/-- `EncryptCCAonG1/G2`. `gid` = dlog of `Gid = e(master, H(ID))`, `sigma` the `len(msg)` random bytes. -/
def ibeEncryptCCA (q : Nat) (o : IbeOracles) (gid : Nat) (sigma msg : Bytes) : Option IbeCt :=
  if msg.length > o.hs then none else
  match o.h3 sigma msg with
  | none => none
  | some r =>
    some { U := r % q
           V := xorBytes sigma (gtToHash o (r * gid % q) msg.length)
           W := xorBytes msg (h4pad o sigma msg.length) }

/-- `DecryptCCAonG1/G2`. `priv` = dlog of the identity's private key `x·H(ID)`. -/
def ibeDecryptCCA (q : Nat) (o : IbeOracles) (priv : Nat) (c : IbeCt) : Option Bytes :=
  if c.W.length > o.hs then none else
  let pad := gtToHash o (c.U * priv % q) c.W.length
  if pad.length ≠ c.V.length then none else
  let sigma := xorBytes pad c.V
  let msg := xorBytes (h4pad o sigma c.W.length) c.W
  match o.h3 sigma msg with
  | none => none
  | some r => if r % q = c.U then some msg else none

/-- `EncryptCPAonG1(s, basePoint, public, ID, msg)`: `base`, `pub`, `qid` are dlogs, `r` the random
    scalar. `guardHs = false` is the code as it stands (`len(msg)>>16 > 0` is the only guard);
    `guardHs = true` the repaired function (fixes/C16-ibe-cpa-length.patch). -/
def ibeEncryptCPA (guardHs : Bool) (q : Nat) (o : IbeOracles) (base pub qid r : Nat) (msg : Bytes) :
    Option (Nat × Bytes) :=
  if msg.length >>> 16 > 0 then none
  else if guardHs && decide (msg.length > o.hs) then none
  else some (r * base % q, xorBytes msg (gtToHash o (pub * (r * qid % q) % q) msg.length))

/-- `DecryptCPAonG1`: no check at all (unauthenticated by design). -/
def ibeDecryptCPA (q : Nat) (o : IbeOracles) (priv : Nat) (c : Nat × Bytes) : Bytes :=
  xorBytes c.2 (gtToHash o (c.1 * priv % q) c.2.length)

/-! ### anonymous-set encryption -/

structure AnonOracles where
  /-- first `scalarLen` bytes of `XOF(marshal(S))`, `S` a DH point given by its dlog -/
  pad : Nat → Bytes
  /-- first `n` bytes of `XOF(xb)` -/
  body : Bytes → Nat → Bytes
  /-- 16-byte tag as a function of (key material, body). AS CODED the tag is `XOF(body)` — the key
      material passed is `[]`; the repaired code passes the session key `xb`. -/
  mac : Bytes → Bytes → Bytes

def macSize : Nat := 16

/-- `header(suite, X, x, Xb, xb, set)`: `Xb ‖ (xb ⊕ pad(x·Y))` for every `Y` of the set. -/
def anonHeader (c : Codec) (o : AnonOracles) (x : Nat) (Xb xb : Bytes) (set : List Nat) : Bytes :=
  Xb ++ (set.map (fun y => xorBytes xb (o.pad (x * y % c.q)))).flatten

/-- `Encrypt(suite, message, set)` with ephemeral private key `x`. -/
def anonEncrypt (keyed : Bool) (c : Codec) (o : AnonOracles) (x : Nat) (set : List Nat) (msg : Bytes) : Bytes :=
  let xb := c.encScalar x
  let hdr := anonHeader c o x (c.encPoint (x % c.q)) xb set
  let body := xorBytes msg (o.body xb msg.length)
  hdr ++ body ++ o.mac (if keyed then xb else []) body

inductive DecRes where
  | ok (msg : Bytes)
  | err
  | panic
deriving DecidableEq, Repr

/-- `decryptKey`: returns the session key bytes and the header length.
    `hdrCheck = true`: the header re-derived from the recovered `x` is compared with the received one (the
    intent of the code, and the repaired code). `hdrCheck = false` is the code AS CODED: `header()` does
    `hdr := xb1; hdr = append(hdr, …)` with `xb1 = ciphertext[:enclen]`, a slice whose capacity covers the
    whole ciphertext, so the re-derived header is written INTO the ciphertext buffer and then compared
    with itself — the comparison can never fail. -/
def anonDecryptKey (hdrCheck : Bool) (c : Codec) (o : AnonOracles) (ct : Bytes) (set : List Nat) (mine priv : Nat) :
    Option (Option (Bytes × Nat)) :=  -- outer none = panic, inner none = error
  if ct.length < c.pointLen then some none else
  match c.decPoint (ct.take c.pointLen) with
  | none => some none
  | some X =>
    if mine ≥ set.length then none else
    let hdrlen := c.pointLen + c.scalarLen * set.length
    if ct.length < hdrlen then some none else
    let ofs := c.pointLen + c.scalarLen * mine
    let xb := xorBytes ((ct.drop ofs).take c.scalarLen) (o.pad (priv * X % c.q))
    match c.decScalar xb with
    | none => some none
    | some x =>
      if x % c.q ≠ X then some none else
      if !hdrCheck || decide (anonHeader c o x (ct.take c.pointLen) xb set = ct.take hdrlen)
      then some (some (xb, hdrlen))
      else some none

/-- `Decrypt(suite, ciphertext, set, mine, privateKey)`. -/
def anonDecrypt (keyed hdrCheck : Bool) (c : Codec) (o : AnonOracles) (ct : Bytes) (set : List Nat) (mine priv : Nat) : DecRes :=
  match anonDecryptKey hdrCheck c o ct set mine priv with
  | none => .panic
  | some none => .err
  | some (some (xb, hdrlen)) =>
    if ct.length < hdrlen + macSize then .err else
    let body := (ct.drop hdrlen).take (ct.length - macSize - hdrlen)
    let mac := ct.drop (ct.length - macSize)
    if mac = o.mac (if keyed then xb else []) body then .ok (xorBytes body (o.body xb body.length))
    else .err

end Kyber.Enc
