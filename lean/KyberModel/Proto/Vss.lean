import KyberModel.Groups.Scalar
import KyberModel.Proto.Share
/-
Model of kyber's verifiable secret sharing (C10): `share/vss/pedersen/vss.go` and
`share/vss/rabin/vss.go`. Core-only, executable.

Discrete-log representation: a scalar is a `Nat` (reduced mod the prime group order `q` when used),
a point is its discrete logarithm w.r.t. the base `G` (so `G = 1`), Rabin's second base `H` has
logarithm `h`. Session identifiers are opaque tokens (`Nat`); the harness interns byte strings.
Authentication (Schnorr signatures, the signed-DH + HKDF + AES-GCM envelope) is abstracted to
booleans supplied as inputs: "signature valid", "ciphertext opens for this verifier".

The aggregation state machine is transcribed decision by decision from the Go code; the two variants
differ and the differences are kept (see the comments marked P/R).

`Cfg.strict` selects the *repaired* code (fixes/C10-justification-binding.patch: the revealed deal is
bound to the justification's index and a complaint is lifted only under the dealer's signature;
fixes/C10-certified-invalid-threshold.patch: nothing is certified under a threshold out of range).
`strict = false` is the code as it stands on the unchanged tree.
-/
namespace Kyber.Vss

inductive Variant where
  | pedersen | rabin
deriving DecidableEq, Repr, Inhabited

structure Cfg where
  variant : Variant
  n : Nat          -- number of verifiers
  q : Nat          -- group order
  h : Nat          -- log_G H (Rabin only)
  strict : Bool    -- repaired verifyJustification
deriving Repr

/-- A (decrypted) deal. `ri`, `rv` are Rabin's `RndShare`; Pedersen ignores them. -/
structure Deal where
  sid : Nat
  i : Nat           -- SecShare.I
  v : Nat           -- SecShare.V
  ri : Nat          -- RndShare.I
  rv : Nat          -- RndShare.V
  t : Nat           -- T
  commits : List Nat
  /-- the session identifier the deal's content yields (`sessionID(dealer, verifiers, Commitments, T)`);
      `sid` is the one the deal announces. An honest dealer announces `csid`. -/
  csid : Nat := sid
deriving DecidableEq, Repr, Inhabited

/-- `Aggregator` / `aggregator`. `responses` is the Go map `index -> StatusApproved`, kept as an
    association list in insertion order (keys are shown unique in Props/C10). -/
structure Agg where
  responses : List (Nat × Bool) := []
  badDealer : Bool := false
  timeout : Bool := false        -- P only
  t : Nat := 0
  sid : Option Nat := none       -- `none` = nil slice
  deal : Option Deal := none
deriving Repr, Inhabited

/-- `validT`: `t >= 2 && t <= len(verifiers)`. -/
def validT (t n : Nat) : Bool := decide (2 ≤ t) && decide (t ≤ n)

/-- `PubPoly.Eval(i)` in the exponent: Horner from the last commitment down, at `x = 1 + i`. -/
def evalCommit (q : Nat) (commits : List Nat) (i : Nat) : Nat :=
  Share.pubEvalAt q commits (Share.xEval q i)

/-- Left side of the share equation: `f_i·G` (P) or `f_i·G + g_i·H` (R), as a discrete log. -/
def shareCommit (cfg : Cfg) (d : Deal) : Nat :=
  match cfg.variant with
  | .pedersen => d.v % cfg.q
  | .rabin => Scalar.add cfg.q (d.v % cfg.q) (Scalar.mul cfg.q d.rv cfg.h)

def shareOk (cfg : Cfg) (d : Deal) : Bool :=
  shareCommit cfg d == evalCommit cfg.q d.commits d.i

inductive DealErr where
  | already      -- errDealAlreadyProcessed
  | badT         -- invalid t received in Deal
  | tMismatch    -- incompatible threshold (P only)
  | sid          -- different sessionIDs
  | rndIndex     -- not the same index for f and g share (R only)
  | index        -- index out of bounds
  | share        -- share does not verify against commitments
deriving DecidableEq, Repr

/-- The decision list of `VerifyDeal` after the first-deal assignment, in code order. -/
def checkDeal (cfg : Cfg) (a : Agg) (d : Deal) : Option DealErr :=
  if !validT d.t cfg.n then some .badT
  else if cfg.variant == .pedersen && d.t != a.t then some .tMismatch
  else if a.sid != some d.sid then some .sid
  else if cfg.variant == .rabin && d.i != d.ri then some .rndIndex
  else if decide (cfg.n ≤ d.i) then some .index
  else if !shareOk cfg d then some .share
  else none

/-- First-deal assignment: `commits, sid, deal` (and, P only, `t`) are taken from the deal *before*
    any check. -/
def adopt (cfg : Cfg) (a : Agg) (d : Deal) : Agg :=
  match a.deal with
  | some _ => a
  | none =>
    { a with sid := some d.sid, deal := some d,
             t := match cfg.variant with | .pedersen => d.t | .rabin => a.t }

/-- `VerifyDeal(d, inclusion)`. -/
def verifyDeal (cfg : Cfg) (a : Agg) (d : Deal) (inclusion : Bool) : Agg × Option DealErr :=
  if a.deal.isSome && inclusion then (a, some .already)
  else (adopt cfg a d, checkDeal cfg (adopt cfg a d) d)

inductive RespErr where
  | sid | range | sig | dup
deriving DecidableEq, Repr

/-- `addResponse`: index in range, slot empty, then store. -/
def addResponse (cfg : Cfg) (a : Agg) (idx : Nat) (approved : Bool) : Except RespErr Agg :=
  if decide (cfg.n ≤ idx) then .error .range
  else if (a.responses.lookup idx).isSome then .error .dup
  else .ok { a with responses := a.responses ++ [(idx, approved)] }

/-- Session check of `verifyResponse`: P skips it while `a.sid == nil`; R always compares. -/
def respSidOk (cfg : Cfg) (a : Agg) (sid : Nat) : Bool :=
  match cfg.variant, a.sid with
  | .pedersen, none => true
  | _, s => s == some sid

/-- `verifyResponse`. -/
def verifyResponse (cfg : Cfg) (a : Agg) (sid idx : Nat) (approved sigOk : Bool) : Except RespErr Agg :=
  if !respSidOk cfg a sid then .error .sid
  else if decide (cfg.n ≤ idx) then .error .range
  else if !sigOk then .error .sig
  else addResponse cfg a idx approved

/-- Mark slot `idx` approved (`r.StatusApproved = true` on the stored response). -/
def setApproved (rs : List (Nat × Bool)) (idx : Nat) : List (Nat × Bool) :=
  rs.map (fun p => if p.1 == idx then (p.1, true) else p)

inductive JustErr where
  | sig            -- (strict only) signature of the justification invalid
  | range | noComplaint | approved
  | unbound        -- (strict only) revealed deal is not the deal of index `j.Index`
  | deal (e : DealErr)
deriving DecidableEq, Repr

/-- `verifyJustification`. As coded (`strict = false`) neither the signature nor
    `j.Deal.SecShare.I = j.Index` is looked at. Repaired (`strict = true`,
    fixes/C10-justification-binding.patch): a revealed deal of another index marks the dealer bad,
    and the complaint is lifted only if the dealer's signature verifies (checked after `VerifyDeal`,
    so that an invalid revealed deal flags the dealer whatever the signature — the behaviour the
    package's own tests pin). -/
def verifyJustification (cfg : Cfg) (a : Agg) (idx : Nat) (sigOk : Bool) (d : Deal) : Agg × Option JustErr :=
  if decide (cfg.n ≤ idx) then (a, some .range)
  else match a.responses.lookup idx with
  | none => (a, some .noComplaint)
  | some true => (a, some .approved)
  | some false =>
    if cfg.strict && d.i != idx then ({ a with badDealer := true }, some .unbound)
    else
      match verifyDeal cfg a d false with
      | (a', some e) => ({ a' with badDealer := true }, some (.deal e))
      | (a', none) =>
        if cfg.strict && !sigOk then (a', some .sig)
        else ({ a' with responses := setApproved a'.responses idx }, none)

/-- R: `cleanVerifiers` — every absent verifier gets a complaint. -/
def cleanVerifiers (a : Agg) : Nat → Agg
  | 0 => a
  | k + 1 =>
    let a' := cleanVerifiers a k
    if (a'.responses.lookup k).isSome then a' else { a' with responses := a'.responses ++ [(k, false)] }

/-- `uint32` subtraction (wraps). -/
def sub32 (a b : Nat) : Nat := (a + 4294967296 - b % 4294967296) % 4294967296

def countAbsent (a : Agg) (n : Nat) : Nat := ((List.range n).filter (fun i => (a.responses.lookup i).isNone)).length
def countApproved (a : Agg) (n : Nat) : Nat := ((List.range n).filter (fun i => a.responses.lookup i == some true)).length
def anyComplaint (a : Agg) (n : Nat) : Bool := (List.range n).any (fun i => a.responses.lookup i == some false)

/-- R: `EnoughApprovals` — counts over the *map entries*. Repaired
    (fixes/C10-certified-invalid-threshold.patch): never with a threshold out of range. -/
def enoughApprovals (cfg : Cfg) (a : Agg) : Bool :=
  !(cfg.strict && !validT a.t cfg.n) && decide (a.t ≤ (a.responses.filter (fun p => p.2)).length)

/-- `DealCertified`. Repaired: `false` while the threshold is out of range (P: also before any deal). -/
def dealCertified (cfg : Cfg) (a : Agg) : Bool :=
  match cfg.variant with
  | .pedersen =>
    if cfg.strict && !validT a.t cfg.n then false else
    let absent := countAbsent a cfg.n
    let enough := decide (a.t ≤ countApproved a cfg.n)
    let tooMuchAbsents := decide (sub32 cfg.n a.t < absent)
    let base := !a.badDealer && enough && !anyComplaint a cfg.n
    if a.timeout then base && !tooMuchAbsents else base && decide (absent = 0)
  | .rabin =>
    enoughApprovals cfg a && !(decide (0 < countAbsent a cfg.n) || a.badDealer)

/-! ### Dealer / Verifier wrappers -/

inductive Role where
  | verifier (me : Nat)
  | dealer
deriving DecidableEq, Repr

/-- A participant: its role and its aggregator (`none` = nil pointer: R verifier before its deal). -/
structure Node where
  role : Role
  agg : Option Agg
deriving Repr

/-- `NewVerifier`. -/
def newVerifier (cfg : Cfg) (me : Nat) : Node :=
  { role := .verifier me, agg := match cfg.variant with | .pedersen => some {} | .rabin => none }

/-- `NewDealer` (its aggregator knows `t` and the session id, holds no deal). -/
def newDealer (t sid : Nat) : Node :=
  { role := .dealer, agg := some { t := t, sid := some sid } }

inductive Op where
  /-- `Verifier.ProcessEncryptedDeal`: dealer signature on the DH key valid?, AEAD opens for this
      verifier?, and the deal that comes out. -/
  | encDeal (sigOk opens : Bool) (d : Deal)
  /-- `ProcessResponse` of the verifier / dealer. -/
  | response (sid idx : Nat) (approved sigOk : Bool)
  /-- `Verifier.ProcessJustification`. -/
  | justification (idx : Nat) (sigOk : Bool) (d : Deal)
  | setTimeout
  | unsafeSet (idx : Nat) (approved : Bool)
  /-- P: `Aggregator.SetThreshold`. -/
  | setThreshold (t : Nat)
  /-- exported `VerifyDeal(d, inclusion)` called directly. -/
  | verifyDeal (d : Deal) (inclusion : Bool)
deriving Repr

inductive Out where
  | approve | complain          -- a Response was produced
  | ok                          -- nil error
  | justif                      -- dealer answered a complaint with a Justification
  | errSig | errOpen | errIndex
  | errDeal (e : DealErr)
  | errResp (e : RespErr)
  | errJust (e : JustErr)
  | errNoDeal                   -- P: ErrNoDealBeforeResponse
  | panic                       -- R: nil aggregator dereferenced
  | unsupported                 -- method does not exist for this role / variant
deriving DecidableEq, Repr

/-- The aggregator a R verifier creates on its first decrypted deal:
    `newAggregator(…, d.Commitments, d.T, d.SessionID)`. -/
def aggOfDeal (d : Deal) : Agg := { t := d.t, sid := some d.sid }

/-- The aggregator `ProcessEncryptedDeal` works on: the existing one, or (R, nil) a fresh one. -/
def baseAgg (agg : Option Agg) (d : Deal) : Agg :=
  match agg with
  | some a => a
  | none => aggOfDeal d

/-- Repaired (fixes/C10-deal-session-binding.patch): a deal is approved only if the session identifier it
    announces is the one its content yields; as coded before, the announced identifier was taken on trust
    (responses about different commitments could be counted together). -/
def sidBound (cfg : Cfg) (d : Deal) : Bool := !cfg.strict || d.sid == d.csid

/-- `Verifier.ProcessEncryptedDeal` after authentication and the own-index check:
    `VerifyDeal(d, true)`, build the response, `addResponse`. -/
def processDealOn (cfg : Cfg) (me : Nat) (a : Agg) (d : Deal) : Agg × Out :=
  match verifyDeal cfg a d true with
  | (a', some .already) => (a', .errDeal .already)
  | (a', e) =>
    match addResponse cfg a' me (e.isNone && sidBound cfg d) with
    | .error r => (a', .errResp r)
    | .ok a'' => (a'', if e.isNone && sidBound cfg d then .approve else .complain)

/-- `Verifier.ProcessEncryptedDeal` after authentication. -/
def processDeal (cfg : Cfg) (me : Nat) (agg : Option Agg) (d : Deal) : Option Agg × Out :=
  if d.i != me then (agg, .errIndex)
  else ((some (processDealOn cfg me (baseAgg agg d) d).1), (processDealOn cfg me (baseAgg agg d) d).2)

def step (cfg : Cfg) (nd : Node) (op : Op) : Node × Out :=
  match op, nd.role, nd.agg with
  | .encDeal sigOk opens d, .verifier me, agg =>
    if !sigOk then (nd, .errSig)
    else if !opens then (nd, .errOpen)
    else let (agg', o) := processDeal cfg me agg d; ({ nd with agg := agg' }, o)
  | .encDeal _ _ _, .dealer, _ => (nd, .unsupported)
  | .response sid idx approved sigOk, .verifier _, some a =>
    if cfg.variant == .pedersen && a.deal.isNone then (nd, .errNoDeal)
    else match verifyResponse cfg a sid idx approved sigOk with
      | .error e => (nd, .errResp e)
      | .ok a' => ({ nd with agg := some a' }, .ok)
  | .response sid idx approved sigOk, .dealer, some a =>
    match verifyResponse cfg a sid idx approved sigOk with
    | .error e => (nd, .errResp e)
    | .ok a' => ({ nd with agg := some a' }, if approved then .ok else .justif)
  | .response _ _ _ _, _, none => (nd, .panic)
  | .justification idx sigOk d, .verifier _, agg =>
    match agg with
    | none => (nd, .panic)
    | some a =>
      match verifyJustification cfg a idx sigOk d with
      | (a', none) => ({ nd with agg := some a' }, .ok)
      | (a', some e) => ({ nd with agg := some a' }, .errJust e)
  | .justification _ _ _, .dealer, _ => (nd, .unsupported)
  | .setTimeout, _, some a =>
    match cfg.variant with
    | .pedersen => ({ nd with agg := some { a with timeout := true } }, .ok)
    | .rabin => ({ nd with agg := some (cleanVerifiers a cfg.n) }, .ok)
  | .setTimeout, _, none => (nd, .panic)
  | .unsafeSet idx approved, role, some a =>
    if cfg.variant == .pedersen && role == .dealer then (nd, .unsupported)
    else match addResponse cfg a idx approved with
      | .error _ => (nd, .ok)
      | .ok a' => ({ nd with agg := some a' }, .ok)
  | .unsafeSet _ _, _, none => (nd, .panic)
  | .setThreshold t, _, some a =>
    match cfg.variant with
    | .pedersen => ({ nd with agg := some { a with t := t } }, .ok)
    | .rabin => (nd, .unsupported)
  | .setThreshold _, _, none => (nd, .unsupported)
  | .verifyDeal d incl, _, some a =>
    match verifyDeal cfg a d incl with
    | (a', none) => ({ nd with agg := some a' }, .ok)
    | (a', some e) => ({ nd with agg := some a' }, .errDeal e)
  | .verifyDeal _ _, _, none => (nd, .panic)

/-- Run an op list, collecting `(op, output)` in order. -/
def runTrace (cfg : Cfg) : Node → List Op → Node × List (Op × Out)
  | nd, [] => (nd, [])
  | nd, op :: ops =>
    let (nd', o) := step cfg nd op
    let (nd'', tr) := runTrace cfg nd' ops
    (nd'', (op, o) :: tr)

def run (cfg : Cfg) (nd : Node) (ops : List Op) : Node := ops.foldl (fun s op => (step cfg s op).1) nd

/-- `DealCertified()` on a participant (R: `false` on a nil aggregator, as coded). -/
def certified (cfg : Cfg) (nd : Node) : Bool :=
  match nd.agg with
  | none => false
  | some a => dealCertified cfg a

/-! ### Honest dealer (for the "honest run" theorems and the driver) -/

/-- Evaluate the secret polynomial with coefficient list `f` at `x = 1 + i` (`PriPoly.Eval`). -/
def evalPoly (q : Nat) (f : List Nat) (i : Nat) : Nat :=
  Share.evalAt q f (Share.xEval q i)

/-- Commitments published by an honest dealer: `f_k·G` (P), `f_k·G + g_k·H` (R). -/
def honestCommits (cfg : Cfg) (f g : List Nat) : List Nat :=
  match cfg.variant with
  | .pedersen => f.map (· % cfg.q)
  | .rabin => List.zipWith (fun a b => Scalar.add cfg.q (a % cfg.q) (Scalar.mul cfg.q b cfg.h)) f g

def honestDeal (cfg : Cfg) (sid t : Nat) (f g : List Nat) (i : Nat) : Deal :=
  { sid := sid, i := i, v := evalPoly cfg.q f i, ri := i, rv := evalPoly cfg.q g i, t := t,
    commits := honestCommits cfg f g }

end Kyber.Vss
