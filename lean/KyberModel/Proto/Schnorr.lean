import KyberModel.Proto.Eddsa
/-
C08 — Schnorr signatures of `sign/schnorr/schnorr.go` (core-only, executed by the driver).

Two models:
* discrete-log representation (any prime-order group): a scalar is a `Nat` reduced mod `q`, a point is
  its discrete logarithm, the Fiat–Shamir challenge `h = H(R ‖ A ‖ m)` is an oracle value supplied as
  an input. `verifyWithChecks` is generic over a `GroupDesc` that says how the group decodes points
  and scalars and which optional checks it offers (`IsCanonical`, `HasSmallOrder`, `IsInCorrectGroup`),
  and performs them in the order coded.
* Ed25519 concretely (`verifyEd`): the same function over the executable curve model, with the
  canonicity / small-order predicates of `Proto/Eddsa.lean` and SHA-512 over the re-marshalled points.
-/
namespace Kyber.Schnorr
open Kyber

/-! ### Points as discrete logarithms -/

/-- `Point().Mul(s, nil)` : `s•B`, the base point has logarithm `1`. -/
def mulBase (q s : Nat) : Nat := s % q
/-- `Point().Mul(s, P)`. -/
def mulPt (q s P : Nat) : Nat := (s * P) % q
/-- `Point().Add(P, Q)`. -/
def addPt (q P Q : Nat) : Nat := (P + Q) % q

structure Sig where
  R : Nat
  s : Nat
deriving DecidableEq, Repr

/-- `Sign`: `R = k•B`, `s = k + x·h` where `h` is the oracle value at `(R, x•B, msg)`. -/
def sign (q x k h : Nat) : Sig := ⟨mulBase q k, Scalar.add q k (Scalar.mul q x h)⟩

/-- The verification equation: `s•B = R + h•A`. -/
def equation (q A R s h : Nat) : Bool := mulBase q s = addPt q R (mulPt q h A)

/-- What `VerifyWithChecks` needs to know about a group. Optional checks are `none` when the point /
    scalar type does not implement the corresponding interface. -/
structure GroupDesc where
  q : Nat
  pointLen : Nat
  scalarLen : Nat
  decPoint : Bytes → Option Nat
  decScalar : Bytes → Option Nat
  ptCanonical : Option (Bytes → Bool)
  ptSmallOrder : Option (Nat → Bool)
  scCanonical : Option (Bytes → Bool)
  inCorrectGroup : Option (Nat → Bool)

inductive Verdict where
  | ok | sigLen | rDecode | rNonCanonical | rSmallOrder | sNonCanonical | rSubgroup | sDecode
  | aDecode | aNonCanonical | aSmallOrder | equation
deriving DecidableEq, Repr

def Verdict.toString : Verdict → String
  | .ok => "ok" | .sigLen => "err:siglen" | .rDecode => "err:r-decode"
  | .rNonCanonical => "err:r-noncanonical" | .rSmallOrder => "err:r-smallorder"
  | .sNonCanonical => "err:s-noncanonical" | .rSubgroup => "err:r-subgroup" | .sDecode => "err:s-decode"
  | .aDecode => "err:a-decode" | .aNonCanonical => "err:a-noncanonical"
  | .aSmallOrder => "err:a-smallorder" | .equation => "err:equation"

/-- `optional check` helper: the check is skipped when the group does not offer it. -/
def offers {α : Type} (c : Option (α → Bool)) (x : α) (dflt : Bool) : Bool :=
  match c with
  | none => dflt
  | some f => f x

/-- `schnorr.VerifyWithChecks(g, pub, msg, sig)` in the order coded; `h` = oracle value for the decoded
    `(R, A, msg)` (only consulted when everything decodes). -/
def verifyWithChecks (g : GroupDesc) (pub sig : Bytes) (h : Nat) : Verdict :=
  if sig.length ≠ g.scalarLen + g.pointLen then .sigLen else
  let Rb := sig.take g.pointLen
  let Sb := sig.drop g.pointLen
  match g.decPoint Rb with
  | none => .rDecode
  | some R =>
    if !offers g.ptCanonical Rb true then .rNonCanonical else
    if offers g.ptSmallOrder R false then .rSmallOrder else
    if !offers g.scCanonical Sb true then .sNonCanonical else
    if !offers g.inCorrectGroup R true then .rSubgroup else
    match g.decScalar Sb with
    | none => .sDecode
    | some s =>
      match g.decPoint pub with
      | none => .aDecode
      | some A =>
        if !offers g.ptCanonical pub true then .aNonCanonical else
        if offers g.ptSmallOrder A false then .aSmallOrder else
        if equation g.q A R s h then .ok else .equation

/-- The mock group `internal/dlgroup`: point = tag byte ‖ big-endian logarithm `< q`;
    scalar (`mod.Int`, big-endian) = fixed width, value `< q`; `IsInCorrectGroup` is constantly true;
    no canonicity / small-order interfaces. -/
def dlgroup (q tag : Nat) : GroupDesc :=
  let slen := ((if q = 0 then 0 else q.log2 + 1) + 7) / 8
  { q := q, pointLen := 1 + slen, scalarLen := slen,
    decPoint := fun bs =>
      match bs with
      | [] => none
      | t :: rest =>
        if rest.length = slen ∧ t.toNat = tag ∧ decodeBE rest < q then some (decodeBE rest) else none,
    decScalar := fun bs => if bs.length = slen ∧ decodeBE bs < q then some (decodeBE bs) else none,
    ptCanonical := none, ptSmallOrder := none, scCanonical := none,
    inCorrectGroup := some (fun _ => true) }

/-! ### Ed25519 concretely -/

open Kyber.Ed25519 in
/-- `schnorr.VerifyWithChecks` over `group/edwards25519`: the point type offers `IsCanonical` and
    `HasSmallOrder`, the scalar type `IsCanonical`; it is not a `SubGroupElement`. The hash is taken
    over the re-marshalled `R`, `A` (`MarshalTo`) and reduced mod `L`. -/
def verifyEdCore (chal : Bytes → Bytes → Bytes → Nat) (pub msg sig : Bytes) : Verdict :=
  if sig.length ≠ 64 then .sigLen else
  let Rb := sig.take 32
  let Sb := sig.drop 32
  match dec Rb with
  | none => .rDecode
  | some R =>
    if !Eddsa.ptIsCanonical Rb then .rNonCanonical else
    if Eddsa.hasSmallOrder R then .rSmallOrder else
    if !Eddsa.scIsCanonical Sb then .sNonCanonical else
    let s := decodeLE Sb
    match dec pub with
    | none => .aDecode
    | some A =>
      if !Eddsa.ptIsCanonical pub then .aNonCanonical else
      if Eddsa.hasSmallOrder A then .aSmallOrder else
      if Eddsa.equationHolds R A s (chal (enc R) (enc A) msg) then .ok else .equation

def verifyEd (pub msg sig : Bytes) : Verdict := verifyEdCore Eddsa.challenge pub msg sig

open Kyber.Ed25519 in
/-- `schnorr.Sign` over Ed25519 with private scalar `x` and the picked nonce `k` (both reduced). -/
def signEd (x k : Nat) (msg : Bytes) : Bytes :=
  let Rb := enc (smul k base)
  let Ab := enc (smul x base)
  let h := Eddsa.challenge Rb Ab msg
  Rb ++ encodeLE 32 (Scalar.add L k (Scalar.mul L x h))

end Kyber.Schnorr
