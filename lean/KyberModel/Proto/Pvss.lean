import KyberModel.Proto.Share
/-
Model of `proof/dleq/dleq.go` and `share/pvss/pvss.go` (C13) in the discrete-log representation:
scalars are `Nat` modulo the prime group order `q`, a point is its discrete logarithm with respect to
the standard base (so the standard base `G = suite.Point().Base()` is `1`), `Point.Equal` is equality
of reduced discrete logs. Random choices (`Pick(RandomStream())`: polynomial coefficients, commitments
`v`) are inputs. A Fiat–Shamir challenge `Pick(XOF(Hash(…)))` is an oracle value supplied as an input;
the lists of hashed values are defined here (`…Input`) so that theorems can speak about an oracle
function applied to them.
-/
namespace Kyber.Pvss
open Kyber.Scalar Kyber.Share

/-- `dleq.Proof`. -/
structure Proof where
  C : Nat
  R : Nat
  VG : Nat
  VH : Nat
deriving Repr, DecidableEq

/-- `Point.Equal` on discrete logs. -/
def ptEq (q a b : Nat) : Bool := a % q == b % q

/-- Values hashed by `NewDLEQProof` on the unchanged tree: `xG, xH, vG, vH` (the repaired code puts the bases `G, H` in front: `dleqInputBound` in Props/C13More.lean). -/
def dleqInput (q g h x v : Nat) : List Nat := [mul q x g, mul q x h, mul q v g, mul q v h]

/-- `NewDLEQProof(suite, G, H, x)` with commitment scalar `v` and challenge `c`:
    returns the proof, `xG`, `xH`. (`r.Mul(x, c).Sub(v, r)` is `v - x·c`.) -/
def dleqProve (q g h x v c : Nat) : Proof × Nat × Nat :=
  ({ C := c, R := sub q v (mul q x c), VG := mul q v g, VH := mul q v h }, mul q x g, mul q x h)

/-- `Proof.Verify(suite, G, H, xG, xH)`: `VG == rG + c·xG` and `VH == rH + c·xH`. -/
def dleqVerify (q : Nat) (p : Proof) (g h xG xH : Nat) : Bool :=
  let a := add q (mul q p.R g) (mul q p.C xG)
  let b := add q (mul q p.R h) (mul q p.C xH)
  !(!ptEq q p.VG a || !ptEq q p.VH b)

/-- `NewDLEQProofBatch(suite, G, H, secrets)` with commitment scalars `vs` and the collective
    challenge `c`; `none` on different lengths. Returns proofs, `xG`, `xH`. -/
def dleqProveBatch (q : Nat) (gs hs xs vs : List Nat) (c : Nat) : Option (List Proof × List Nat × List Nat) :=
  if gs.length ≠ hs.length ∨ hs.length ≠ xs.length then none
  else
    let rows := List.zip (List.zip gs hs) (List.zip xs vs)
    some (rows.map (fun r => (dleqProve q r.1.1 r.1.2 r.2.1 r.2.2 c).1),
          rows.map (fun r => mul q r.2.1 r.1.1),
          rows.map (fun r => mul q r.2.1 r.1.2))

/-- Values hashed by `NewDLEQProofBatch`: all `xG`, all `xH`, all `vG`, all `vH`. -/
def dleqBatchInput (q : Nat) (gs hs xs vs : List Nat) : List Nat :=
  let rows := List.zip (List.zip gs hs) (List.zip xs vs)
  rows.map (fun r => mul q r.2.1 r.1.1) ++ rows.map (fun r => mul q r.2.1 r.1.2) ++
    rows.map (fun r => mul q r.2.2 r.1.1) ++ rows.map (fun r => mul q r.2.2 r.1.2)

/-- `pvss.PubVerShare`: a `share.PubShare` (`I`, `V`) and a `dleq.Proof`. -/
structure PVShare where
  I : Nat
  V : Nat
  P : Proof
deriving Repr, DecidableEq

/-- `EncShares(suite, H, X, secret, t)`: `coeffs` are the coefficients of `NewPriPoly` (`coeffs[0]` the
    secret, `t = coeffs.length`), `vs` the DLEQ commitment scalars, `c` the collective challenge.
    Returns the encrypted shares and the commitment polynomial `priPoly.Commit(H)`. -/
def encShares (q h : Nat) (xs : List Nat) (coeffs : Poly) (vs : List Nat) (c : Nat) :
    Option (List PVShare × Poly) :=
  let n := xs.length
  let pri := shares q coeffs n
  let indices := pri.map (·.I)
  let values := pri.map (fun s => s.V.getD 0)
  match dleqProveBatch q (List.replicate n h) xs values vs c with
  | none => none
  | some (proofs, _, sX) =>
    some ((List.zip indices (List.zip sX proofs)).map (fun r => { I := r.1, V := r.2.1, P := r.2.2 }),
          commit q coeffs (some h))

/-- `computeCommitments`, one `i`: Horner in the form `acc.Add(acc, C_j); acc.Mul(ith, acc)` for
    `j = t-1 … 1`, then `acc.Add(acc, C_0)`, with `ith = SetInt64(int64(i)+1)`. -/
def comAt (q : Nat) (polyComs : Poly) (i : Nat) : Nat :=
  match polyComs with
  | [] => 0  -- Go would panic on `polyComs[0]`; a commitment polynomial is never empty
  | c0 :: rest => add q (rest.foldr (fun cj acc => mul q (xEval q i) (add q acc cj)) 0) c0

/-- `computeCommitments(suite, n, polyComs)`. -/
def computeCommitments (q n : Nat) (polyComs : Poly) : List Nat :=
  (List.range n).map (comAt q polyComs)

/-- Values hashed by `computeGlobalChallenge(suite, n, commit, encShares)`. -/
def globalInput (q n : Nat) (commits : Poly) (es : List PVShare) : List Nat :=
  computeCommitments q n commits ++ es.map (·.V) ++ es.map (·.P.VG) ++ es.map (·.P.VH)

/-- `VerifyEncShare(suite, H, X, sH, expGlobalChallenge, encShare)`; `true` = no error. -/
def verifyEncShare (q h x sH expC : Nat) (e : PVShare) : Bool :=
  if !(e.P.C % q == expC % q) then false
  else dleqVerify q e.P h x sH e.V

/-- Positions kept by a batch function (`ok` sees the position and the entry). -/
def keepIdx {α : Type} (ok : Nat → α → Bool) (l : List α) : List Nat :=
  (l.zipIdx.filter (fun r => ok r.2 r.1)).map (·.2)

/-- `VerifyEncShareBatch(suite, H, X, sH, commit, encShares)` with the recomputed global challenge
    `chal` (oracle value on `globalInput q X.length commits encShares`). Returns the positions of the
    entries appended to `K`/`E`; `none` on different lengths. `bindIndex = false` is the code as it
    stands (the index `encShares[i].S.I` enters no check); `bindIndex = true` additionally requires
    `encShares[i].S.I == i` (fixes/C13-encshare-index.patch). -/
def verifyEncShareBatch (bindIndex : Bool) (q h : Nat) (xs sHs : List Nat) (es : List PVShare) (chal : Nat) :
    Option (List Nat) :=
  if xs.length ≠ sHs.length ∨ sHs.length ≠ es.length then none
  else some (keepIdx (fun i (r : (Nat × Nat) × PVShare) =>
      !(bindIndex && !(r.2.I == i)) && verifyEncShare q h r.1.1 r.1.2 chal r.2)
    (List.zip (List.zip xs sHs) es))

/-- Values hashed by `NewDLEQProof` inside `DecShare`: bases `G = 1` and `H = V`. -/
def decInput (q x V v : Nat) : List Nat := dleqInput q 1 V x v

/-- `DecShare(suite, H, X, sH, x, expGlobalChallenge, encShare)` with commitment scalar `v` and
    challenge `c`; `none` = verification error. -/
def decShare (q h X sH x expC : Nat) (e : PVShare) (v c : Nat) : Option PVShare :=
  if !verifyEncShare q h X sH expC e then none
  else
    let V := mul q (inv q x) e.V
    some { I := e.I, V := V, P := (dleqProve q (one q) V x v c).1 }

/-- Loop of `DecShareBatch`: the commitment scalars `vs` and challenges `cs` are consumed, in order,
    only by the entries whose verification succeeds (only those reach `NewDLEQProof`). -/
def decShareLoop (q h x : Nat) : List ((Nat × Nat) × (Nat × PVShare)) → List Nat → List Nat → Nat → List (Nat × PVShare)
  | [], _, _, _ => []
  | r :: rest, vs, cs, pos =>
    if verifyEncShare q h r.1.1 r.1.2 r.2.1 r.2.2 then
      match vs, cs with
      | v :: vs', c :: cs' =>
        match decShare q h r.1.1 r.1.2 x r.2.1 r.2.2 v c with
        | some d => (pos, d) :: decShareLoop q h x rest vs' cs' (pos + 1)
        | none => decShareLoop q h x rest vs' cs' (pos + 1)
      | _, _ => []
    else decShareLoop q h x rest vs cs (pos + 1)

/-- `DecShareBatch(suite, H, X, sH, x, expGlobalChallenges, encShares)`: positions kept (entries of
    `K`, `E`) with the decrypted shares `D`; `none` on different lengths. (`expCs` must cover every
    entry: Go indexes `expGlobalChallenges[i]`.) -/
def decShareBatch (q h : Nat) (xs sHs : List Nat) (x : Nat) (expCs : List Nat) (es : List PVShare)
    (vs cs : List Nat) : Option (List (Nat × PVShare)) :=
  if xs.length ≠ sHs.length ∨ sHs.length ≠ es.length then none
  else some (decShareLoop q h x (List.zip (List.zip xs sHs) (List.zip expCs es)) vs cs 0)

/-- Values hashed by `VerifyDecShare`: `X, encShare.S.V, decShare.P.VG, decShare.P.VH`. -/
def verifyDecInput (X : Nat) (e d : PVShare) : List Nat := [X, e.V, d.P.VG, d.P.VH]

/-- `VerifyDecShare(suite, G, X, encShare, decShare)` with the recomputed challenge `chal` (oracle value
    on `verifyDecInput`). `bindIndex = false` is the code as it stands: the index `decShare.S.I` enters
    no check. `bindIndex = true` is the code with the check `decShare.S.I == encShare.S.I` added
    (fixes/C13-decshare-index.patch). -/
def verifyDecShare (bindIndex : Bool) (q g X : Nat) (e d : PVShare) (chal : Nat) : Bool :=
  if bindIndex && !(d.I == e.I) then false
  else if !(d.P.C % q == chal % q) then false
  else dleqVerify q d.P g d.V X e.V

/-- `VerifyDecShareBatch`: positions of the entries appended to `D`. -/
def verifyDecShareBatch (bindIndex : Bool) (q g : Nat) (xs : List Nat) (es ds : List PVShare) (chals : List Nat) :
    Option (List Nat) :=
  if xs.length ≠ es.length ∨ es.length ≠ ds.length then none
  else some (keepIdx (fun _ (r : (Nat × Nat) × (PVShare × PVShare)) => verifyDecShare bindIndex q g r.1.1 r.2.1 r.2.2 r.1.2)
    (List.zip (List.zip xs chals) (List.zip es ds)))

/-- The decrypted shares `VerifyDecShareBatch` returns. -/
def goodDecShares (bindIndex : Bool) (q g : Nat) (xs : List Nat) (es ds : List PVShare) (chals : List Nat) :
    List PVShare :=
  ((List.zip (List.zip xs chals) (List.zip es ds)).filter
    (fun r => verifyDecShare bindIndex q g r.1.1 r.2.1 r.2.2 r.1.2)).map (·.2.2)

/-- `RecoverSecret(suite, G, X, encShares, decShares, t, n)`: verify, count, `share.RecoverCommit`. -/
def recoverSecret (bindIndex : Bool) (q g : Nat) (xs : List Nat) (es ds : List PVShare) (chals : List Nat) (t : Nat) :
    Option Nat :=
  if xs.length ≠ es.length ∨ es.length ≠ ds.length then none
  else
    let D := goodDecShares bindIndex q g xs es ds chals
    if D.length < t then none
    else recoverCommit q (D.map (fun d => some ⟨d.I, some d.V⟩)) t

end Kyber.Pvss
