import KyberModel.Core.Bytes
/-
Model of kyber's XOF wrappers (C19): `xof/blake2xb/blake.go`, `xof/blake2xs/blake.go`,
`xof/keccak/keccak.go`, AS CODED, over an abstract primitive.

The primitive (BLAKE2Xb / BLAKE2Xs from x/crypto, SHAKE256) is a parameter
`prim : key → absorbed → infinite byte stream`. The wrapper model assembles the primitive's *inputs*
(`key`, `absorbed`) and the read position; the bytes themselves are never computed here.

One definition serves the three wrappers; they differ only in the size `hs` at which `New` splits
the seed into a key and an absorbed remainder:
  * blake2xb: `hs = 64` (`blake2b.Size`), blake2xs: `hs = 32` (`blake2s.Size`);
  * keccak:   `hs = 0`  — SHAKE has no key, the whole seed is absorbed and the whole seed is retained
    for `Reset` (`seed[0:0]` is the empty key, `seed[0:]` the retained tail, exactly the same code shape).
-/
namespace Kyber.Xof

/-- The output stream of the primitive for one `(key, absorbed)` input (infinite; the 256 GiB limit of
    BLAKE2X with unknown output length is out of reach and not modelled). -/
structure Stream where
  byte : Nat → UInt8

/-- `prim key absorbed` — BLAKE2X keyed with `key` after absorbing `absorbed`; SHAKE256 ignores `key`
    (it is always `[]` for `hs = 0`). -/
abbrev Prim := Bytes → Bytes → Stream

/-- Wrapper state: `key`/`absorbed` determine the underlying primitive instance (`impl` / `sh`),
    `pos` is the number of output bytes already produced, `reading` is the primitive's read mode
    (set by the first `Read`, even of zero bytes; `Write` panics while it is set), `seedTail` is the
    retained `x.seed` that `Reset` re-absorbs. `resetKey` is the key `Reset` re-keys the primitive
    with: `none` = "whatever key the current impl has" — the code AS CODED (`x.impl.Reset()`);
    `some k` describes the repaired wrapper (fixes/C19-blake2x-reset-after-reseed.patch), which retains
    the key half of the seed. Which of the two `new` produces is the `retain` flag. -/
structure Xof where
  key : Bytes
  absorbed : Bytes
  pos : Nat
  reading : Bool
  seedTail : Bytes
  resetKey : Option Bytes
deriving DecidableEq, Repr

inductive Op where
  | write (b : Bytes)
  | read (n : Nat)
  /-- `XORKeyStream(dst, src)` with `len(dst) = dstLen`. -/
  | xor (dstLen : Nat) (src : Bytes)
  | reseed
  | reset
deriving DecidableEq, Repr

inductive Out where
  | unit
  | bytes (b : Bytes)
  | panic
deriving DecidableEq, Repr

/-- `New`: `seed1 = seed[0:hs]`, `seed2 = seed[hs:]` when `len(seed) > hs`, else `(seed, nil)`. -/
def splitSeed (hs : Nat) (seed : Bytes) : Bytes × Bytes :=
  if seed.length > hs then (seed.take hs, seed.drop hs) else (seed, [])

/-- `New(seed)`. `retain = false` is the code as it stands; `retain = true` the repaired wrapper. -/
def new (hs : Nat) (retain : Bool) (seed : Bytes) : Xof :=
  let kt := splitSeed hs seed
  { key := kt.1, absorbed := kt.2, pos := 0, reading := false, seedTail := kt.2,
    resetKey := if retain then some kt.1 else none }

/-- The next `n` output bytes. -/
def readBytes (prim : Prim) (x : Xof) (n : Nat) : Bytes :=
  let s := prim x.key x.absorbed
  (List.range n).map (fun i => s.byte (x.pos + i))

def doRead (prim : Prim) (x : Xof) (n : Nat) : Xof × Bytes :=
  ({ x with pos := x.pos + n, reading := true }, readBytes prim x n)

/-- `Reseed` keys the fresh instance with the next 128 output bytes. -/
def reseedLen : Nat := 128

def step (prim : Prim) (hs : Nat) (x : Xof) : Op → Xof × Out
  | .write b =>
    if x.reading then (x, .panic) else ({ x with absorbed := x.absorbed ++ b }, .unit)
  | .read n => let r := doRead prim x n; (r.1, .bytes r.2)
  | .xor dl src =>
    if dl < src.length then (x, .panic) else
      let r := doRead prim x src.length
      (r.1, .bytes (xorBytes src r.2))
  | .reseed =>
    -- `x.Read(x.key)`; `y := New(x.key)`; `x.impl = y.impl` — `x.seed` is NOT replaced
    let kt := splitSeed hs (doRead prim x reseedLen).2
    ({ key := kt.1, absorbed := kt.2, pos := 0, reading := false, seedTail := x.seedTail,
       resetKey := x.resetKey }, .unit)
  | .reset =>
    -- as coded: `x.impl.Reset()` keeps the key of the *current* impl; then `x.impl.Write(x.seed)`
    ({ x with key := x.resetKey.getD x.key, absorbed := x.seedTail, pos := 0, reading := false }, .unit)

/-- `Clone` as coded: `&xof{impl: x.impl.Clone()}` — the retained seed is dropped (in the repaired
    wrapper the retained key is dropped with it, i.e. it is the empty key). -/
def clone (x : Xof) : Xof :=
  { x with seedTail := [], resetKey := x.resetKey.map (fun _ => []) }

/-- Run an op sequence on one instance, collecting outputs. -/
def run (prim : Prim) (hs : Nat) : Xof → List Op → Xof × List Out
  | x, [] => (x, [])
  | x, op :: ops =>
    let r := step prim hs x op
    let rest := run prim hs r.1 ops
    (rest.1, r.2 :: rest.2)

/-! ### Several instances (clones) -/

inductive MOp where
  | on (i : Nat) (op : Op)
  | clone (i : Nat)
deriving DecidableEq, Repr

/-- A machine is the list of live instances; `clone i` appends the clone. Ops addressing a missing
    instance are rejected (`none`) — the harness never generates them. -/
def mstep (prim : Prim) (hs : Nat) (m : List Xof) : MOp → Option (List Xof × Out)
  | .on i op => match m[i]? with
    | none => none
    | some x => let r := step prim hs x op; some (m.set i r.1, r.2)
  | .clone i => match m[i]? with
    | none => none
    | some x => some (m ++ [clone x], .unit)

def mrun (prim : Prim) (hs : Nat) : List Xof → List MOp → Option (List Xof × List Out)
  | m, [] => some (m, [])
  | m, op :: ops => match mstep prim hs m op with
    | none => none
    | some (m', o) => match mrun prim hs m' ops with
      | none => none
      | some (m'', os) => some (m'', o :: os)

/-- What an op asks of the primitive: `(key, absorbed, number of stream bytes that must be known)`.
    Used by the driver to decide whether the lent table covers a run. -/
def need (x : Xof) : Op → Option (Bytes × Bytes × Nat)
  | .read n => some (x.key, x.absorbed, x.pos + n)
  | .xor dl src => if dl < src.length then none else some (x.key, x.absorbed, x.pos + src.length)
  | .reseed => some (x.key, x.absorbed, x.pos + reseedLen)
  | _ => none

end Kyber.Xof
