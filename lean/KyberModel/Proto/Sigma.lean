import KyberModel.Groups.Scalar
/-
Model of kyber's sigma-protocol proof framework (C14): `proof/proof.go`, `proof/hash.go`,
`proof/deniable.go`.

Discrete-log representation: a scalar is a `Nat` reduced mod `q`, a point is its discrete logarithm
(also a `Nat` mod `q`), `Mul(s, P)` is `s * P mod q`, `Add` is `+ mod q`. Fiat–Shamir challenges are
values of an oracle `O name chunks pos` supplied as a parameter. Variables are named by `Nat`s.

The recursion mirrors `proof.go` as coded, including: the per-And-scope shared blinding / response
vectors (`makeScalars`), the order in which private randomness is drawn, the order in which
commitments, sub-challenges and responses are `Put`, the verifier's placeholder vectors and the errors
for `Or` inside `And`. Go's pointer-keyed maps `prf.pp` / `prf.vp` become state trees `PP` / `VP` of
the same shape as the predicate.
-/
namespace Kyber.Sigma
open Kyber Kyber.Scalar

/-- One `s*B` term of a representation: scalar variable `s`, point variable `b`. -/
structure Term where
  s : Nat
  b : Nat
  deriving DecidableEq, Repr

/-- `proof.Predicate`. -/
inductive Pred where
  | rep (p : Nat) (ts : List Term)
  | and (ps : List Pred)
  | or (ps : List Pred)

inductive Err where
  | orInAnd           -- "can't have OR predicates within AND predicates" (commit)
  | noChoice          -- "no choice of proof branch for OR-predicate"
  | orNested          -- "OR predicates can't be nested in anything else" (respond / verify)
  | eof               -- proof buffer exhausted
  | decode            -- point / scalar encoding rejected
  | commitMismatch    -- "invalid proof: commit mismatch"
  | badSubChallenges  -- "invalid proof: bad sub-challenges"
  | panic             -- nil dereference / index out of range in the Go code
  | internal          -- state tree of the wrong shape (unreachable)
  deriving DecidableEq, Repr

/-- A `[]kyber.Scalar` indexed by scalar variable (entries may be nil). -/
abbrev Vec := Nat → Option Nat
def Vec.empty : Vec := fun _ => none
def Vec.set (v : Vec) (s x : Nat) : Vec := fun n => if n = s then some x else v n
/-- `prf.makeScalars(pr)`. -/
def mkVec (pv : Option Vec) : Vec := pv.getD Vec.empty

/-! ### Variable enumeration (`enumVars`): scalar variables in first-encounter order -/

def insertNew (l : List Nat) (n : Nat) : List Nat := if n ∈ l then l else l ++ [n]

def enumTerms : List Term → List Nat → List Nat
  | [], acc => acc
  | t :: ts, acc => enumTerms ts (insertNew acc t.s)

mutual
def enumS : Pred → List Nat → List Nat
  | .rep _ ts, acc => enumTerms ts acc
  | .and ps, acc => enumSs ps acc
  | .or ps, acc => enumSs ps acc
def enumSs : List Pred → List Nat → List Nat
  | [], acc => acc
  | p :: ps, acc => enumSs ps (enumS p acc)
end

/-- `prf.svar[1:]`. -/
def svars (p : Pred) : List Nat := enumS p []

/-! ### Encoding and the Fiat–Shamir oracle -/

/-- Fixed-length encodings of the suite (`kyber.Encoding`). -/
structure Codec where
  plen : Nat
  slen : Nat
  encP : Nat → Bytes
  encS : Nat → Bytes
  decP : Bytes → Option Nat
  decS : Bytes → Option Nat

/-- The public-randomness XOF: keyed by the protocol name, re-seeded with every prover message;
    `pos` counts scalars read since the last re-seed. -/
abbrev Oracle := Bytes → List Bytes → Nat → Nat

/-- Everything fixed during one run. -/
structure Params where
  q : Nat
  cd : Codec
  name : Bytes
  O : Oracle
  sv : List Nat        -- scalar variables in index order
  pval : Nat → Nat     -- public point variables (discrete logs)

/-! ### Prover context (`hashProver`) -/

structure PCtx where
  k : Nat            -- private random scalars drawn so far
  msg : Bytes        -- current message buffer
  proof : Bytes      -- proof accumulated so far
  hist : List Bytes  -- messages absorbed into the public-randomness XOF
  pos : Nat          -- scalars read from the XOF since the last re-seed

def PCtx.init : PCtx := ⟨0, [], [], [], 0⟩

def PCtx.put (st : PCtx) (bs : Bytes) : PCtx := { st with msg := st.msg ++ bs }

/-- `consumeMsg`. -/
def PCtx.consume (st : PCtx) : PCtx :=
  if st.msg.isEmpty then st
  else { st with hist := st.hist ++ [st.msg], proof := st.proof ++ st.msg, msg := [], pos := 0 }

/-- `PubRand` of one scalar. -/
def PCtx.pubRand (E : Params) (st : PCtx) : Nat × PCtx :=
  let st := st.consume
  (E.O E.name st.hist st.pos % E.q, { st with pos := st.pos + 1 })

/-- `PriRand` of one scalar: the next draw from the private random stream. -/
def PCtx.priRand (q : Nat) (rnd : Nat → Nat) (st : PCtx) : Nat × PCtx :=
  (rnd st.k % q, { st with k := st.k + 1 })

/-- `Proof()`. -/
def PCtx.finish (st : PCtx) : Bytes := st.consume.proof

/-! ### Verifier context (`hashVerifier`) -/

structure VCtx where
  rest : Bytes       -- unread part of the proof
  pend : Bytes       -- bytes read since the last `consumeMsg`
  hist : List Bytes
  pos : Nat

def VCtx.init (proof : Bytes) : VCtx := ⟨proof, [], [], 0⟩

/-- `Get` of one fixed-length object. -/
def VCtx.get (len : Nat) (dec : Bytes → Option Nat) (st : VCtx) : Except Err (Nat × VCtx) :=
  if st.rest.length < len then .error .eof
  else match dec (st.rest.take len) with
    | none => .error .decode
    | some v => .ok (v, { st with rest := st.rest.drop len, pend := st.pend ++ st.rest.take len })

def VCtx.consume (st : VCtx) : VCtx :=
  if st.pend.isEmpty then st
  else { st with hist := st.hist ++ [st.pend], pend := [], pos := 0 }

def VCtx.pubRand (E : Params) (st : VCtx) : Nat × VCtx :=
  let st := st.consume
  (E.O E.name st.hist st.pos % E.q, { st with pos := st.pos + 1 })

/-! ### Prover: commitments -/

/-- Per-predicate prover state (`proverPred`), as a tree of the predicate's shape. `rep` keeps a
    snapshot of the shared blinding vector taken after its own commit: the Go slice is aliased, but
    `respond` reads only entries of the Rep's own variables, which are set by then and never change. -/
inductive PP where
  | rep (w : Option Nat) (v : Vec)
  | and (subs : List PP)
  | or (w : Option Nat) (wi : List (Option Nat)) (subs : List PP)

/-- The term loop of `repPred.commit`: pick a blinding secret the first time a variable is seen in
    this And-scope, accumulate `V += v[s]·B`. -/
def commitTerms (q : Nat) (pval : Nat → Nat) (rnd : Nat → Nat) :
    List Term → Vec → PCtx → Nat → Vec × PCtx × Nat
  | [], v, st, V => (v, st, V)
  | t :: ts, v, st, V =>
    match v t.s with
    | some x => commitTerms q pval rnd ts v st (add q V (mul q x (pval t.b)))
    | none =>
      let x := (st.priRand q rnd).1
      commitTerms q pval rnd ts (v.set t.s x) (st.priRand q rnd).2 (add q V (mul q x (pval t.b)))

/-- Obligated `Or`: random pre-challenges for every sub except `choice` (in index order). -/
def drawExcept (q : Nat) (rnd : Nat → Nat) (choice : Nat) : Nat → Nat → PCtx → List (Option Nat) × PCtx
  | 0, _, st => ([], st)
  | n + 1, i, st =>
    if i = choice then
      let r := drawExcept q rnd choice n (i + 1) st
      (none :: r.1, r.2)
    else
      let r := drawExcept q rnd choice n (i + 1) (st.priRand q rnd).2
      (some (st.priRand q rnd).1 :: r.1, r.2)

/-- Simulated `Or`: random pre-challenges for all but the last sub, the last one makes them add up
    to the master pre-challenge. -/
def drawSum (q : Nat) (rnd : Nat → Nat) : Nat → Nat → PCtx → List (Option Nat) × PCtx
  | 0, _, st => ([], st)
  | 1, wl, st => ([some wl], st)
  | n + 2, wl, st =>
    let x := (st.priRand q rnd).1
    let r := drawSum q rnd (n + 1) (sub q wl x) (st.priRand q rnd).2
    (some x :: r.1, r.2)

mutual
/-- `Predicate.commit(prf, w, pv)`; `ch` is the list of branch choices along the proof-obligated
    path (outermost `Or` first). Returns the context, the prover state and the (shared) blinding
    vector after the call. -/
def commit (E : Params) (rnd : Nat → Nat) :
    Pred → Option Nat → Option Vec → List Nat → PCtx → Except Err (PCtx × PP × Vec)
  | .rep p ts, w, pv, _, st =>
    let V0 := match w with
      | some w => mul E.q w (E.pval p)
      | none => 0
    let r := commitTerms E.q E.pval rnd ts (mkVec pv) st V0
    .ok (r.2.1.put (E.cd.encP r.2.2), .rep w r.1, r.1)
  | .and ps, w, pv, _, st =>
    match commitAnd E rnd ps w (mkVec pv) st with
    | .error e => .error e
    | .ok (st', pps, v') => .ok (st', .and pps, v')
  | .or ps, w, pv, ch, st =>
    match pv with
    | some _ => .error .orInAnd
    | none =>
      match w with
      | none =>
        match ch with
        | [] => .error .noChoice
        | c :: ch' =>
          if c < ps.length then
            let d := drawExcept E.q rnd c ps.length 0 st
            match commitOr E rnd ps d.1 ch' d.2 with
            | .error e => .error e
            | .ok (st', pps) => .ok (st', .or none d.1 pps, Vec.empty)
          else .error .noChoice
      | some w =>
        if ps.length = 0 then .error .panic
        else
          let d := drawSum E.q rnd ps.length w st
          match commitOr E rnd ps d.1 [] d.2 with
          | .error e => .error e
          | .ok (st', pps) => .ok (st', .or (some w) d.1 pps, Vec.empty)
/-- Sub-predicates of an `And`: same pre-challenge, shared blinding vector. -/
def commitAnd (E : Params) (rnd : Nat → Nat) :
    List Pred → Option Nat → Vec → PCtx → Except Err (PCtx × List PP × Vec)
  | [], _, v, st => .ok (st, [], v)
  | p :: ps, w, v, st =>
    match commit E rnd p w (some v) [] st with
    | .error e => .error e
    | .ok (st1, pp, v1) =>
      match commitAnd E rnd ps w v1 st1 with
      | .error e => .error e
      | .ok (st2, pps, v2) => .ok (st2, pp :: pps, v2)
/-- `commitmentProducer`: sub `i` of an `Or` commits with pre-challenge `wi[i]` and a fresh vector.
    The remaining choices go to the proof-obligated sub (the one whose pre-challenge is nil). -/
def commitOr (E : Params) (rnd : Nat → Nat) :
    List Pred → List (Option Nat) → List Nat → PCtx → Except Err (PCtx × List PP)
  | [], _, _, st => .ok (st, [])
  | _ :: _, [], _, _ => .error .internal
  | p :: ps, w :: ws, ch, st =>
    match commit E rnd p w none (if w.isNone then ch else []) st with
    | .error e => .error e
    | .ok (st1, pp, _) =>
      match commitOr E rnd ps ws ch st1 with
      | .error e => .error e
      | .ok (st2, pps) => .ok (st2, pp :: pps)
end

/-! ### Prover: responses -/

/-- The term loop of `repPred.respond`. -/
def respondTerms (q : Nat) (sval : Nat → Nat) (w : Option Nat) (v : Vec) (c : Nat) :
    List Term → Vec → Except Err Vec
  | [], r => .ok r
  | t :: ts, r =>
    match r t.s with
    | some _ => respondTerms q sval w v c ts r
    | none =>
      match w with
      | some _ =>
        -- non-obligated branch: `r[s] = pp.v[s]`
        respondTerms q sval w v c ts (fun n => if n = t.s then v t.s else r n)
      | none =>
        match v t.s with
        | none => .error .panic
        | some vs => respondTerms q sval w v c ts (r.set t.s (sub q vs (mul q c (sval t.s))))

/-- `prf.sendResponses(pr, r)`. -/
def sendResponses (E : Params) (pr : Option Vec) (r : Vec) (st : PCtx) : PCtx :=
  match pr with
  | some _ => st
  | none => E.sv.foldl (fun st s => match r s with
      | some x => st.put (E.cd.encS x)
      | none => st) st

/-- `cs = c − Σ_{i ≠ choice} ci[i]` (in index order). -/
def obligatedChallenge (q : Nat) (choice : Nat) : List (Option Nat) → Nat → Nat → Nat
  | [], _, cs => cs
  | w :: ws, i, cs =>
    if i = choice then obligatedChallenge q choice ws (i + 1) cs
    else obligatedChallenge q choice ws (i + 1) (sub q cs (w.getD 0))

def setAt (l : List (Option Nat)) (i : Nat) (x : Nat) : List (Option Nat) := l.set i (some x)

/-- `Put(ci)`: a nil entry makes `fixbuf` panic. -/
def putAll (E : Params) : List (Option Nat) → PCtx → Except Err PCtx
  | [], st => .ok st
  | none :: _, _ => .error .panic
  | some x :: ws, st => putAll E ws (st.put (E.cd.encS x))

mutual
/-- `Predicate.respond(prf, c, pr)`. -/
def respond (E : Params) (sval : Nat → Nat) :
    Pred → PP → Nat → Option Vec → List Nat → PCtx → Except Err (PCtx × Vec)
  | .rep _ ts, .rep w v, c, pr, _, st =>
    match respondTerms E.q sval w v c ts (mkVec pr) with
    | .error e => .error e
    | .ok r => .ok (sendResponses E pr r st, r)
  | .and ps, .and pps, c, pr, _, st =>
    match respondAnd E sval ps pps c (mkVec pr) st with
    | .error e => .error e
    | .ok (st', r) => .ok (sendResponses E pr r st', r)
  | .or ps, .or w wi pps, c, pr, ch, st =>
    match pr with
    | some _ => .error .orNested
    | none =>
      let ci : List (Option Nat) := match w with
        | some _ => wi
        | none => match ch with
          | [] => wi
          | j :: _ => setAt wi j (obligatedChallenge E.q j wi 0 c)
      let st1 : Except Err PCtx := if ps.length > 1 then putAll E ci st else .ok st
      match st1 with
      | .error e => .error e
      | .ok st1 =>
        match respondOr E sval ps pps wi ci (ch.drop 1) st1 with
        | .error e => .error e
        | .ok st2 => .ok (st2, Vec.empty)
  | _, _, _, _, _, _ => .error .internal
def respondAnd (E : Params) (sval : Nat → Nat) :
    List Pred → List PP → Nat → Vec → PCtx → Except Err (PCtx × Vec)
  | [], _, _, r, st => .ok (st, r)
  | _ :: _, [], _, _, _ => .error .internal
  | p :: ps, pp :: pps, c, r, st =>
    match respond E sval p pp c (some r) [] st with
    | .error e => .error e
    | .ok (st1, r1) => respondAnd E sval ps pps c r1 st1
/-- Subs of an `Or` respond to their own sub-challenge with a fresh response vector. `wi` are the
    pre-challenges as chosen in `commit` (nil marks the proof-obligated sub). -/
def respondOr (E : Params) (sval : Nat → Nat) :
    List Pred → List PP → List (Option Nat) → List (Option Nat) → List Nat → PCtx → Except Err PCtx
  | [], _, _, _, _, st => .ok st
  | p :: ps, pp :: pps, w :: ws, c :: cs, ch, st =>
    match c with
    | none => .error .panic
    | some c =>
      match respond E sval p pp c none (if w.isNone then ch else []) st with
      | .error e => .error e
      | .ok (st1, _) => respondOr E sval ps pps ws cs ch st1
  | _ :: _, _, _, _, _, _ => .error .internal
end

/-! ### Verifier -/

/-- Per-predicate verifier state (`verifierPred`). For `and` the vector is the final one of the
    scope (the Go slice is shared with the subs, which add their placeholders to it). -/
inductive VP where
  | rep (V : Nat) (r : Vec)
  | and (r : Vec) (subs : List VP)
  | or (subs : List VP)

/-- A vector in a box. `Vec` is a function type; a recursive definition *returning* a `Vec` would be
    compiled with the lookup index as an extra argument and re-run on every lookup. Returning a
    structure makes the driver compute the vector once. -/
structure VecBox where
  v : Vec

/-- `repPred.getCommits`: placeholders for the responses this Rep needs. -/
def placeTermsB : List Term → Vec → VecBox
  | [], r => ⟨r⟩
  | t :: ts, r =>
    match r t.s with
    | some _ => placeTermsB ts r
    | none => placeTermsB ts (r.set t.s 0)

def placeTerms (ts : List Term) (r : Vec) : Vec := (placeTermsB ts r).v

mutual
/-- `Predicate.getCommits(prf, pr)`. -/
def getCommits (E : Params) : Pred → Option Vec → VCtx → Except Err (VCtx × VP × Vec)
  | .rep _ ts, pr, st =>
    match st.get E.cd.plen E.cd.decP with
    | .error e => .error e
    | .ok (V, st') =>
      let r := (placeTermsB ts (mkVec pr)).v
      .ok (st', .rep V r, r)
  | .and ps, pr, st =>
    match getCommitsAnd E ps (mkVec pr) st with
    | .error e => .error e
    | .ok (st', vps, r) => .ok (st', .and r vps, r)
  | .or ps, pr, st =>
    match getCommitsOr E ps st with
    | .error e => .error e
    | .ok (st', vps) => .ok (st', .or vps, mkVec pr)
def getCommitsAnd (E : Params) : List Pred → Vec → VCtx → Except Err (VCtx × List VP × Vec)
  | [], r, st => .ok (st, [], r)
  | p :: ps, r, st =>
    match getCommits E p (some r) st with
    | .error e => .error e
    | .ok (st1, vp, r1) =>
      match getCommitsAnd E ps r1 st1 with
      | .error e => .error e
      | .ok (st2, vps, r2) => .ok (st2, vp :: vps, r2)
def getCommitsOr (E : Params) : List Pred → VCtx → Except Err (VCtx × List VP)
  | [], st => .ok (st, [])
  | p :: ps, st =>
    match getCommits E p none st with
    | .error e => .error e
    | .ok (st1, vp, _) =>
      match getCommitsOr E ps st1 with
      | .error e => .error e
      | .ok (st2, vps) => .ok (st2, vp :: vps)
end

/-- The reading loop of `prf.getResponses`: one scalar per non-nil entry, in index order. -/
def readResponses (E : Params) : List Nat → Vec → VCtx → Except Err (Vec × VCtx)
  | [], r, st => .ok (r, st)
  | s :: sv, r, st =>
    match r s with
    | none => readResponses E sv r st
    | some _ =>
      match st.get E.cd.slen E.cd.decS with
      | .error e => .error e
      | .ok (x, st') => readResponses E sv (r.set s x) st'

/-- `prf.getResponses(pr, r)`. When `pr` is non-nil the predicate's own vector *is* `pr` (same
    slice), already filled in by the enclosing And. -/
def getResponses (E : Params) (pr : Option Vec) (r : Vec) (st : VCtx) : Except Err (Vec × VCtx) :=
  match pr with
  | some p => .ok (p, st)
  | none => readResponses E E.sv r st

/-- `V += r[s]·B` over the terms of a Rep. -/
def sumTerms (q : Nat) (pval : Nat → Nat) (r : Vec) : List Term → Nat → Except Err Nat
  | [], V => .ok V
  | t :: ts, V =>
    match r t.s with
    | none => .error .panic
    | some x => sumTerms q pval r ts (add q V (mul q x (pval t.b)))

/-- Read `n` scalars (`Get(ci)` on a slice). -/
def readScalars (E : Params) : Nat → VCtx → Except Err (List Nat × VCtx)
  | 0, st => .ok ([], st)
  | n + 1, st =>
    match st.get E.cd.slen E.cd.decS with
    | .error e => .error e
    | .ok (x, st1) =>
      match readScalars E n st1 with
      | .error e => .error e
      | .ok (xs, st2) => .ok (x :: xs, st2)

def sumMod (q : Nat) (l : List Nat) : Nat := l.foldl (fun a x => add q a x) 0

mutual
/-- `Predicate.verify(prf, c, pr)`. -/
def verify (E : Params) : Pred → VP → Nat → Option Vec → VCtx → Except Err VCtx
  | .rep p ts, .rep V r, c, pr, st =>
    match getResponses E pr r st with
    | .error e => .error e
    | .ok (r', st') =>
      match sumTerms E.q E.pval r' ts (mul E.q c (E.pval p)) with
      | .error e => .error e
      | .ok V' => if V' = V then .ok st' else .error .commitMismatch
  | .and ps, .and r vps, c, pr, st =>
    match getResponses E pr r st with
    | .error e => .error e
    | .ok (r', st') => verifyAnd E ps vps c r' st'
  | .or ps, .or vps, c, pr, st =>
    match pr with
    | some _ => .error .orNested
    | none =>
      if ps.length = 0 then .error .panic
      else if ps.length > 1 then
        match readScalars E ps.length st with
        | .error e => .error e
        | .ok (ci, st1) =>
          if sumMod E.q ci = c then verifyOr E ps vps ci st1
          else .error .badSubChallenges
      else verifyOr E ps vps [c] st
  | _, _, _, _, _ => .error .internal
def verifyAnd (E : Params) : List Pred → List VP → Nat → Vec → VCtx → Except Err VCtx
  | [], _, _, _, st => .ok st
  | p :: ps, vp :: vps, c, r, st =>
    match verify E p vp c (some r) st with
    | .error e => .error e
    | .ok st1 => verifyAnd E ps vps c r st1
  | _ :: _, [], _, _, _ => .error .internal
def verifyOr (E : Params) : List Pred → List VP → List Nat → VCtx → Except Err VCtx
  | [], _, _, st => .ok st
  | p :: ps, vp :: vps, c :: cs, st =>
    match verify E p vp c none st with
    | .error e => .error e
    | .ok st1 => verifyOr E ps vps cs st1
  | _ :: _, _, _, _ => .error .internal
end

/-! ### Top level: `prf.prove` / `prf.verify` under `HashProve` / `HashVerify` -/

/-- Challenge obtained by the honest prover (the value its `PubRand` returns). -/
def proveChallenge (E : Params) (rnd : Nat → Nat) (p : Pred) (choice : List Nat) : Except Err Nat :=
  match commit E rnd p none none choice PCtx.init with
  | .error e => .error e
  | .ok (st, _, _) => .ok (st.pubRand E).1

/-- `HashProve(suite, name, pred.Prover(suite, sval, pval, choice))`. -/
def hashProve (E : Params) (sval : Nat → Nat) (rnd : Nat → Nat) (p : Pred) (choice : List Nat) :
    Except Err Bytes :=
  match commit E rnd p none none choice PCtx.init with
  | .error e => .error e
  | .ok (st, pp, _) =>
    match respond E sval p pp (st.pubRand E).1 none choice (st.pubRand E).2 with
    | .error e => .error e
    | .ok (st2, _) => .ok st2.finish

/-- `HashVerify(suite, name, pred.Verifier(suite, pval), proof)`. -/
def hashVerify (E : Params) (p : Pred) (proof : Bytes) : Except Err Unit :=
  match getCommits E p none (VCtx.init proof) with
  | .error e => .error e
  | .ok (st, vp, _) =>
    match verify E p vp (st.pubRand E).1 none (st.pubRand E).2 with
    | .error e => .error e
    | .ok _ => .ok ()

/-- Challenge the hash verifier derives for `proof` (the value its `PubRand` returns). -/
def verifyChallenge (E : Params) (p : Pred) (proof : Bytes) : Except Err Nat :=
  match getCommits E p none (VCtx.init proof) with
  | .error e => .error e
  | .ok (st, _, _) => .ok (st.pubRand E).1

/-- Sub-challenge the honest prover assigns to its claimed branch `j` of an `n`-branch `Or` under
    master challenge `c`: `c − Σ` of the pre-challenges it drew for the other branches. -/
def branchChallenge (q : Nat) (rnd : Nat → Nat) (n j c : Nat) : Nat :=
  obligatedChallenge q j (drawExcept q rnd j n 0 PCtx.init).1 0 c

/-! ### Interactive (deniable) run: the same prover / verifier, messages exchanged step by step and
    the challenge produced by the participants' mixed randomness (`proof/deniable.go`). -/

/-- The two prover messages of a participant (after its randomness commitment) for master
    challenge `c`: what `deniableProver.Put` accumulates before and after `PubRand`. -/
def dProve (E : Params) (sval : Nat → Nat) (rnd : Nat → Nat) (p : Pred) (choice : List Nat) (c : Nat) :
    Except Err (Bytes × Bytes) :=
  match commit E rnd p none none choice PCtx.init with
  | .error e => .error e
  | .ok (st, pp, _) =>
    match respond E sval p pp c none choice { st with msg := [] } with
    | .error e => .error e
    | .ok (st2, _) => .ok (st.msg, st2.msg)

/-- A `deniableVerifier` fed message `m1`, then challenge `c`, then message `m2` (`getProof` replaces
    the buffer: unread bytes of `m1` are dropped). -/
def dVerify (E : Params) (p : Pred) (m1 m2 : Bytes) (c : Nat) : Except Err Unit :=
  match getCommits E p none (VCtx.init m1) with
  | .error e => .error e
  | .ok (st, vp, _) =>
    match verify E p vp c none { st with rest := m2 } with
    | .error e => .error e
    | .ok _ => .ok ()

/-! ### The mock encoding (`internal/dlgroup`, `mod.Int`): fixed width big-endian, range-checked -/

def mockWidth (q : Nat) : Nat := (bitLen q + 7) / 8

def mockCodec (q : Nat) : Codec where
  plen := mockWidth q + 1
  slen := mockWidth q
  encP := fun v => 1 :: encodeBE (mockWidth q) v
  encS := fun v => encodeBE (mockWidth q) v
  decP := fun bs => match bs with
    | [] => none
    | t :: body => if t = 1 ∧ body.length = mockWidth q ∧ decodeBE body < q then some (decodeBE body) else none
  decS := fun bs => if bs.length = mockWidth q ∧ decodeBE bs < q then some (decodeBE bs) else none

end Kyber.Sigma
