import KyberModel.Core.Sha512
import KyberModel.Groups.Edwards
/-
C17 — RFC 9380 hash-to-curve for edwards25519 as coded in `group/edwards25519/point.go`:
`expandMessageXMD` (SHA-512), `hashToField` (count = 2, L = 48), `curve25519Elligator2` (RFC 9380 §G.2.1,
straight-line, field level), `mapToCurveElligator2Ed25519` (§G.2.2), `Hash = 8•(map u0 + map u1)`.
Field elements are `Nat` reduced modulo `p = 2^255 - 19`; comparisons are comparisons of VALUES (the
code compares limb arrays, which is the C17 finding). Core-only.
-/
namespace Kyber.H2C
open Kyber.Ed25519

/-! ### expand_message_xmd / hash_to_field -/

def longDstPrefix : Bytes := "H2C-OVERSIZE-DST-".toUTF8.toList

/-- `DST_prime = DST ‖ I2OSP(len(DST), 1)`, long tags hashed first. -/
def dstPrime (dst : Bytes) : Bytes :=
  let d := if 255 < dst.length then Sha512.hash (longDstPrefix ++ dst) else dst
  d ++ [UInt8.ofNat d.length]

/-- `b_i = H((b_0 xor b_{i-1}) ‖ i ‖ DST_prime)` for `i = 2 … `, concatenated (`fuel` more blocks). -/
def xmdTail (b0 dstP : Bytes) : Nat → Nat → Bytes → Bytes
  | 0, _, _ => []
  | fuel + 1, i, prev =>
    let bi := Sha512.hash (xorBytes b0 prev ++ [UInt8.ofNat i] ++ dstP)
    bi ++ xmdTail b0 dstP fuel (i + 1) bi

/-- `expandMessageXMD(sha512, msg, dst, len)` as coded: the error test uses `ell = ⌈len / 8⌉`
    (`h.Size() >> 3` is 8, not 64), so lengths above 2040 are refused; the output bytes are the RFC's. -/
def expandXmd (msg dst : Bytes) (len : Nat) : Option Bytes :=
  if 255 < (len + 7) / 8 ∨ 65535 < len ∨ dst.length = 0 then none else
  let dstP := dstPrime dst
  let b0 := Sha512.hash (List.replicate 128 0 ++ msg ++ encodeBE 2 len ++ [0] ++ dstP)
  let b1 := Sha512.hash (b0 ++ [1] ++ dstP)
  some ((b1 ++ xmdTail b0 dstP ((len + 63) / 64 - 1) 2 b1).take len)

/-- `hashToField(msg, dst, 2)`: two field elements from 96 uniform bytes. -/
def hashToField (msg dst : Bytes) : Option (Nat × Nat) :=
  match expandXmd msg dst 96 with
  | none => none
  | some ub => some (decodeBE (ub.take 48) % p, decodeBE ((ub.drop 48).take 48) % p)

/-! ### Elligator 2 -/

def J : Nat := 486662
/-- `c2 = 2^((p+3)/8)`, `c3 = sqrt(-1)`, `c4 = (p-5)/8`. -/
def c2 : Nat := powMod 2 ((p + 3) / 8) p
def c3 : Nat := sqrtM1
def c4 : Nat := (p - 5) / 8
/-- `c = sqrt(-486664)` (the sign the code uses). -/
def cEd : Nat := 6853475219497561581579357271197624642482790079785650197046958215289687604742

/-! The straight-line program of `curve25519Elligator2` (RFC 9380 §G.2.1), one definition per
    intermediate value so that `Lib/EmbedElligator.lean` can reason about each. -/
namespace Ell2
def tv1 (u : Nat) : Nat := 2 * (u * u % p) % p
def xd (u : Nat) : Nat := (1 + tv1 u) % p
def x1n : Nat := negMod J p
def gxd (u : Nat) : Nat := xd u * xd u % p * xd u % p
def gx1 (u : Nat) : Nat := ((J * tv1 u % p * x1n % p + xd u * xd u % p) % p) * x1n % p
/-- `gxd⁷·gx1` (the value raised to `c4`). -/
def tpow (u : Nat) : Nat :=
  (gxd u * gxd u % p) * (gxd u * gxd u % p) % p * ((gxd u * gxd u % p) * gxd u % p * gx1 u % p) % p
def y11 (u : Nat) : Nat := powMod (tpow u) c4 p * ((gxd u * gxd u % p) * gxd u % p * gx1 u % p) % p
def y12 (u : Nat) : Nat := y11 u * c3 % p
def e1 (u : Nat) : Bool := decide (y11 u * y11 u % p * gxd u % p = gx1 u)
def y1 (u : Nat) : Nat := if e1 u then y11 u else y12 u
def x2n (u : Nat) : Nat := x1n * tv1 u % p
def y21 (u : Nat) : Nat := y11 u * u % p * c2 % p
def y22 (u : Nat) : Nat := y21 u * c3 % p
def gx2 (u : Nat) : Nat := gx1 u * tv1 u % p
def e2 (u : Nat) : Bool := decide (y21 u * y21 u % p * gxd u % p = gx2 u)
def y2 (u : Nat) : Nat := if e2 u then y21 u else y22 u
def e3 (u : Nat) : Bool := decide (y1 u * y1 u % p * gxd u % p = gx1 u)
def xn (u : Nat) : Nat := if e3 u then x1n else x2n u
def ysel (u : Nat) : Nat := if e3 u then y1 u else y2 u
def e4 (u : Nat) : Bool := decide (ysel u % 2 = 1)
/-- Sign adjustment: `sgn0(y)` must equal `e3`. -/
def y (u : Nat) : Nat := if e3 u != e4 u then negMod (ysel u) p else ysel u
end Ell2

/-- `curve25519Elligator2`: `(xn, xd, yn, yd)` of a point of Curve25519 `y² = x³ + J x² + x`. -/
def ell2 (u : Nat) : Nat × Nat × Nat × Nat := (Ell2.xn u, Ell2.xd u, Ell2.y u, 1)

/-- `mapToCurveElligator2Ed25519`: the affine Edwards point (exceptional case ↦ the identity). -/
def mapToEdwards (u : Nat) : Edwards.Pt :=
  match ell2 u with
  | (xMn, xMd, yMn, yMd) =>
    let xn := xMn * yMd % p * cEd % p
    let xd := xMd * yMn % p
    let yn := subMod xMn xMd p
    let yd := (xMn + xMd) % p
    if xd * yd % p = 0 then Edwards.zero
    else ⟨xn * invMod xd p % p, yn * invMod yd p % p⟩

/-- The tag `Hash` substitutes for an empty one (RFC 9380: tags MUST have nonzero length; on the
    unchanged tree the code panics instead: C17 finding, fixes/C17-hash-empty-dst.patch). -/
def defaultDst : Bytes := "KYBER-V04-CS01-with-edwards25519_XMD:SHA-512_ELL2_RO_".toUTF8.toList

/-- `point.Hash(msg, dst)`: `8 • (map u0 + map u1)`. -/
def hash (msg dst : Bytes) : Option Edwards.Pt :=
  match hashToField msg (if dst.length = 0 then defaultDst else dst) with
  | none => none
  | some (u0, u1) => some (smul 8 (add (mapToEdwards u0) (mapToEdwards u1)))

end Kyber.H2C
