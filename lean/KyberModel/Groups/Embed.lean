import KyberModel.Groups.Decode
import KyberModel.Core.Sha256
/-
C17 — `Embed`, `Data`, `Pick` as functions of the bytes drawn from the stream.

All implementations share one loop: draw a candidate block from the stream, replace part of it by the
length byte and the data (if data is given), try to turn the block into a group element, test what
the group requires, otherwise retry with the next block. `embedLoop` is that loop over a finite prefix
of the (infinite) stream; it returns the element and the number of bytes consumed, or `none` when the
prefix is exhausted.

* Ed25519 (`group/edwards25519/point.go: Embed`, `group/edwards25519vartime/curve.go: embed`): 32-byte
  blocks, `b[0] = dl`, `b[1..1+dl] = data`, decoded by the lenient decoder; without data the point is
  multiplied by the cofactor 8 (retry on the identity); with data it must pass the order test `L•P = O`.
* P-256 (`group/p256/curve.go: Embed, genPoint`): 32 bytes for `x` (big-endian, `b[31] = dl`, data before
  it) followed by ONE byte whose top bit selects the sign of `y`; `x` is used as drawn (NOT reduced).
* residue group (`group/p256/residue.go: Embed`): 64 bytes, 16-bit length in the last two bytes.
* BN256 G1 (`pairing/bn256/point.go: Embed`): 32 bytes big-endian `x`, `b[0] = dl`; `Pick = k•B`.
Core-only; theorems in `Props/C17.lean`.
-/
namespace Kyber

/-- The retry loop: `n`-byte candidate blocks, `try_` turns a block into an element or rejects it.
    `fuel` bounds the number of candidates (callers pass the stream length). -/
def embedLoop {α : Type} (n : Nat) (try_ : Bytes → Option α) : Nat → Bytes → Nat → Option (α × Nat)
  | 0, _, _ => none
  | fuel + 1, s, used =>
    if n = 0 ∨ s.length < n then none else
    match try_ (s.take n) with
    | some v => some (v, used + n)
    | none => embedLoop n try_ fuel (s.drop n) (used + n)

namespace Ed25519
open Edwards

def embedLen : Nat := 29

/-- The candidate after placing length byte and data at the front (little-endian `y`):
    `b[0] = dl`, `b[1..1+dl] = data[..dl]`, the rest of the block as drawn. -/
def embedCand (data : Option Bytes) (blk : Bytes) : Bytes :=
  match data with
  | none => blk
  | some d =>
    UInt8.ofNat (min embedLen d.length) :: (d.take (min embedLen d.length) ++ blk.drop (1 + min embedLen d.length))

/-- One candidate: decode; without data clear the cofactor (reject the identity), with data test the order. -/
def embedTry (data : Option Bytes) (blk : Bytes) : Option Pt :=
  match dec (embedCand data blk) with
  | none => none
  | some P =>
    match data with
    | none => let Q := smul 8 P; if Q = zero then none else some Q
    | some _ => if smul L P = zero then some P else none

def embed (data : Option Bytes) (stream : Bytes) : Option (Pt × Nat) :=
  embedLoop 32 (embedTry data) stream.length stream 0

def pick (stream : Bytes) : Option (Pt × Nat) := embed none stream

/-- `Data`: the length byte is the first byte of the encoding; error if it exceeds `EmbedLen`. -/
def data (P : Pt) : Option Bytes :=
  match enc P with
  | [] => none
  | b0 :: rest => if embedLen < b0.toNat then none else some (rest.take b0.toNat)

end Ed25519

namespace P256
open Weierstrass

def embedLen : Nat := 30

/-- Square-root candidate `c^((p+1)/4)` (what the addition chain in `p256.sqrt` computes). -/
def sqrtCand (c : Nat) : Nat := powMod c ((p + 1) / 4) p

/-- The 32 bytes of `x` after placing the data (big-endian: length byte last, data before it). -/
def embedCand (data : Option Bytes) (xb : Bytes) : Bytes :=
  match data with
  | none => xb
  | some d =>
    xb.take (31 - min embedLen d.length) ++ (d.take (min embedLen d.length) ++ [UInt8.ofNat (min embedLen d.length)])

/-- The sign decision: top bit of the byte drawn after the 32 bytes of `x`. -/
def signOf (blk : Bytes) : Bool :=
  match blk.drop 32 with
  | s :: _ => decide (128 ≤ s.toNat)
  | [] => false

/-- `x³ - 3x + b mod p`. -/
def rhs (x : Nat) : Nat := (x * x * x + (p - 3 * x % p) + b) % p

/-- The candidate `y`: the square-root candidate, negated (`p - y`) when the sign byte says so. -/
def candY (sgn : Bool) (y2 : Nat) : Nat := if sgn then p - sqrtCand y2 else sqrtCand y2

/-- `genPoint`: `x` as drawn, `y² = x³ - 3x + b` reduced, the sign byte flips `y`; a candidate
    `x ≥ p` is not a field element and is refused (on the unchanged tree the code lacks this test:
    C17 finding, fixes/C17-p256-embed-x-range.patch). -/
def embedTry (data : Option Bytes) (blk : Bytes) : Option (Nat × Nat) :=
  if candY (signOf blk) (rhs (decodeBE (embedCand data (blk.take 32)))) *
        candY (signOf blk) (rhs (decodeBE (embedCand data (blk.take 32)))) % p
      = rhs (decodeBE (embedCand data (blk.take 32))) ∧ decodeBE (embedCand data (blk.take 32)) < p
  then some (decodeBE (embedCand data (blk.take 32)), candY (signOf blk) (rhs (decodeBE (embedCand data (blk.take 32)))))
  else none

def embed (data : Option Bytes) (stream : Bytes) : Option ((Nat × Nat) × Nat) :=
  embedLoop 33 (embedTry data) stream.length stream 0

/-- `Data` reads the 32-byte big-endian `x` coordinate. -/
def data (x : Nat) : Option Bytes :=
  let b := encodeBE 32 x
  match b.reverse with
  | [] => none
  | dlb :: _ => if embedLen < dlb.toNat then none else some ((b.take 31).drop (31 - dlb.toNat))

end P256

namespace Residue

/-- `(512 - 8 - 16) / 8` for QR512; in general `(bitLen P - 24) / 8`. -/
def embedLen (P : Nat) : Nat := (Scalar.bitLen P - 8 - 16) / 8

def embedCand (P : Nat) (data : Option Bytes) (blk : Bytes) : Bytes :=
  match data with
  | none => blk
  | some d =>
    blk.take (encLen P - min (embedLen P) d.length - 2) ++
      (d.take (min (embedLen P) d.length) ++
        [UInt8.ofNat (min (embedLen P) d.length / 256), UInt8.ofNat (min (embedLen P) d.length % 256)])

/-- `random.Bits(bitLen P, false)` masks the top byte when the bit length is not a multiple of 8. -/
def embedTry (P Q : Nat) (data : Option Bytes) (blk : Bytes) : Option Nat :=
  let v := decodeBE (embedCand P data (Scalar.maskBits (Scalar.bitLen P) blk))
  if valid P Q v = true then some v else none

def embed (P Q : Nat) (data : Option Bytes) (stream : Bytes) : Option (Nat × Nat) :=
  embedLoop (encLen P) (embedTry P Q data) stream.length stream 0

def data (P v : Nat) : Option Bytes :=
  let l := encLen P
  let b := encodeBE l v
  let dl := decodeBE (b.drop (l - 2))
  if embedLen P < dl then none else some ((b.take (l - 2)).drop (l - 2 - dl))

end Residue

namespace BN256
open Weierstrass

def embedLen : Nat := 29

def embedCand (data : Option Bytes) (blk : Bytes) : Bytes :=
  match data with
  | none => blk
  | some d =>
    UInt8.ofNat (min embedLen d.length) :: (d.take (min embedLen d.length) ++ blk.drop (1 + min embedLen d.length))

/-- `deriveY` (`big.Int.ModSqrt`, `p ≡ 3 mod 4`) followed by `IsOnCurve`; coordinates reduced. -/
def rhs (x : Nat) : Nat := (x * x % p * x + 3) % p
def sqrtCand (t : Nat) : Nat := powMod t ((p + 1) / 4) p

def embedTry (data : Option Bytes) (blk : Bytes) : Option (Nat × Nat) :=
  if sqrtCand (rhs (decodeBE (embedCand data blk) % p)) * sqrtCand (rhs (decodeBE (embedCand data blk) % p)) % p
      = rhs (decodeBE (embedCand data blk) % p)
  then some (decodeBE (embedCand data blk) % p, sqrtCand (rhs (decodeBE (embedCand data blk) % p)))
  else none

def embed (data : Option Bytes) (stream : Bytes) : Option ((Nat × Nat) × Nat) :=
  embedLoop 32 (embedTry data) stream.length stream 0

def data (P : Pt) : Option Bytes :=
  match P with
  | none => some (List.replicate 32 0)
  | some (x, _) =>
    match encodeBE 32 x with
    | [] => none
    | b0 :: rest => if embedLen < b0.toNat then none else some (rest.take b0.toNat)

/-- `Pick`: `k•B` with `k = random.Int(n, stream)` (rejection sampling of `Groups/Scalar.lean`). -/
def pick (stream : Bytes) : Option (Pt × Nat) :=
  match Scalar.pick n stream with
  | none => none
  | some (k, used) => some (smul curve k base, used)

/-- `hashToPoint` (try-and-increment behind `pointG1.Hash`): `x = SHA-256(m) mod p`, then `x, x+1, …`
    until `x³ + 3` is a square; `y` is the root `big.Int.ModSqrt` returns. `fuel` bounds the search. -/
def hashLoop : Nat → Nat → Option (Nat × Nat)
  | 0, _ => none
  | fuel + 1, x =>
    if sqrtCand (rhs x) * sqrtCand (rhs x) % p = rhs x then some (x, sqrtCand (rhs x)) else hashLoop fuel (x + 1)

def hash (msg : Bytes) : Option Pt :=
  match hashLoop 512 (decodeBE (Sha256.hash msg) % p) with
  | none => none
  | some (x, y) => some (some (x % p, y))

end BN256
end Kyber
