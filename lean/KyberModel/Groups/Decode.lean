import KyberModel.Groups.Edwards
import KyberModel.Groups.Weierstrass
import KyberModel.Groups.Scalar
/-
C04 — decoders of untrusted bytes. For every group, `dec : Bytes → Option Value` IS the specification
of acceptance: it fixes, for every byte string of every length, rejection (`none`) or the value,
including the lenient behaviour the code really has (read from each `UnmarshalBinary`):

* `group/edwards25519` (constant time)      `Kyber.Ed25519.dec` (Groups/Edwards.lean): exactly 32 bytes,
                                            `y ≥ p` reduced, "−0" accepted.
* `group/edwards25519vartime` (proj, ext)   `Kyber.Ed25519Vt.dec` = the same specification.
* `group/p256` curve                        `Kyber.P256.dec`: SEC1 uncompressed, 65 bytes, `04‖0…0` = O,
                                            coordinates `< p`, on the curve.
* `group/p256` residue group                `Kyber.Residue.dec`: ANY length (big-endian integer),
                                            `0 < v < P`, `v^Q = 1`.
* `pairing/bn256` G1                        `Kyber.BN256.dec`: AT LEAST 64 bytes (tail ignored),
                                            coordinates reduced mod p, (0,0) = O, on the curve.
* `pairing/bn254` G1                        `Kyber.BN254.dec`: at least 64 bytes, coordinates `≥ p` rejected.
* `pairing/bn256`, `pairing/bn254` G2       `Kyber.BN256.decG2`, `Kyber.BN254.decG2` over `Fp2` (BN254 also
                                            checks `n•P = O`).
* BLS12-381 G1 (kilic, circl, gnark)        `Kyber.BLS12381.dec`: ZCash compressed, exactly 48 bytes, on the
                                            curve and `r•P = O`; `decLenient` = what circl/gnark also accept
                                            (over-long input, uncompressed form).
* scalars                                   `Kyber.Scalar.decBounded` (mod.Int: exact length, `< q`; CIRCL:
                                            at least 32 bytes, `< r`), `decEd` (Ed25519: any 32 bytes, kept
                                            unreduced), `decGnark` (any length, reduced).

All functions are total and every index is guarded (`take`/`drop`/pattern matching only; no `get!`,
`head!`, `[i]!`): this is the model-side counterpart of "never panics".
Composite messages (signatures, ciphertexts) are at the end of the file.
Core-only: the driver executes these definitions; `Props/C04.lean` proves the theorems about them.
-/
namespace Kyber

/-! ### Ed25519, variable-time implementation -/
namespace Ed25519Vt
/-- `decodePoint` of `group/edwards25519vartime/curve.go` has the same specification as the
    constant-time decoder. (On the unchanged tree the code lacks the length check: C04 finding.) -/
def dec (bs : Bytes) : Option Edwards.Pt := Ed25519.dec bs
def enc := Ed25519.enc
end Ed25519Vt

/-! ### P-256 -/
namespace P256
open Weierstrass
/-- `curvePoint.UnmarshalBinary` followed by the validity test `Valid()` (crypto/elliptic `IsOnCurve`
    rejects coordinates `≥ p`; `(0,0)` stands for the point at infinity). -/
def dec (bs : Bytes) : Option Pt :=
  match bs with
  | [] => none
  | b0 :: rest =>
    if rest.length ≠ 64 then none
    else if b0 ≠ 4 then none
    else
      let x := decodeBE (rest.take 32)
      let y := decodeBE (rest.drop 32)
      if x = 0 ∧ y = 0 then some none
      else if x < p ∧ y < p ∧ onCurve curve (some (x, y)) = true then some (some (x, y))
      else none
end P256

/-! ### Residue group (QR512 and any other Schnorr group `P = kQ + 1`) -/
namespace Residue
/-- `residuePoint.Valid`. -/
def valid (P Q v : Nat) : Bool := decide (0 < v) && decide (v < P) && decide (powMod v Q P = 1)
/-- `residuePoint.UnmarshalBinary`: `big.Int.SetBytes` of a string of any length, then `Valid`. -/
def dec (P Q : Nat) (bs : Bytes) : Option Nat :=
  let v := decodeBE bs
  if valid P Q v = true then some v else none
/-- `residuePoint.MarshalBinary`: big-endian, padded to the byte length of `P`. -/
def encLen (P : Nat) : Nat := (Scalar.bitLen P + 7) / 8
def enc (P v : Nat) : Bytes := encodeBE (encLen P) v
end Residue

/-! ### BN256 / BN254, G1 -/
namespace BN256
open Weierstrass
/-- `pointG1.UnmarshalBinary`: needs at least 64 bytes and ignores the rest; `gfP.Unmarshal` followed by
    `montEncode` reduces each coordinate modulo `p`; `(0,0)` (after reduction) is the point at infinity. -/
def dec (bs : Bytes) : Option Pt :=
  if bs.length < 64 then none else
  let x := decodeBE (bs.take 32) % p
  let y := decodeBE ((bs.drop 32).take 32) % p
  if x = 0 ∧ y = 0 then some none
  else if onCurve curve (some (x, y)) = true then some (some (x, y))
  else none
end BN256

namespace BN254
open Weierstrass
/-- `pointG1.UnmarshalBinary`: at least 64 bytes, the rest ignored; coordinates `≥ p` are rejected. -/
def dec (bs : Bytes) : Option Pt :=
  if bs.length < 64 then none else
  let x := decodeBE (bs.take 32)
  let y := decodeBE ((bs.drop 32).take 32)
  if p ≤ x ∨ p ≤ y then none
  else if x = 0 ∧ y = 0 then some none
  else if onCurve curve (some (x, y)) = true then some (some (x, y))
  else none
end BN254

/-! ### Quadratic extension `Fp2 = Fp[i]/(i²+1)` and short Weierstrass curves over it (BN twists) -/
namespace Fp2
/-- `(re, im)` stands for `re + im·i`. -/
abbrev El := Nat × Nat
def add (p : Nat) (a b : El) : El := ((a.1 + b.1) % p, (a.2 + b.2) % p)
def sub (p : Nat) (a b : El) : El := (subMod a.1 b.1 p, subMod a.2 b.2 p)
def neg (p : Nat) (a : El) : El := (negMod a.1 p, negMod a.2 p)
def mul (p : Nat) (a b : El) : El :=
  (subMod (a.1 * b.1) (a.2 * b.2) p, (a.1 * b.2 + a.2 * b.1) % p)
def inv (p : Nat) (a : El) : El :=
  let n := invMod ((a.1 * a.1 + a.2 * a.2) % p) p
  (a.1 % p * n % p, negMod a.2 p * n % p)
def red (p : Nat) (a : El) : El := (a.1 % p, a.2 % p)
def isZero (a : El) : Bool := a.1 = 0 && a.2 = 0

structure Curve where
  p : Nat
  b : El       -- y² = x³ + b
deriving Repr

abbrev Pt := Option (El × El)

def onCurve (c : Curve) : Pt → Bool
  | none => true
  | some (x, y) => mul c.p y y == add c.p (mul c.p (mul c.p x x) x) (red c.p c.b)

def negPt (c : Curve) : Pt → Pt
  | none => none
  | some (x, y) => some (red c.p x, neg c.p y)

/-- Chord-and-tangent addition (`a = 0`). -/
def addPt (c : Curve) : Pt → Pt → Pt
  | none, Q => Q
  | P, none => P
  | some (x1, y1), some (x2, y2) =>
    let p := c.p
    if red p x1 = red p x2 then
      if isZero (add p y1 y2) then none
      else
        let xx := mul p x1 x1
        let lam := mul p (add p (add p xx xx) xx) (inv p (add p y1 y1))
        let x3 := sub p (mul p lam lam) (add p x1 x2)
        some (x3, sub p (mul p lam (sub p x1 x3)) y1)
    else
      let lam := mul p (sub p y2 y1) (inv p (sub p x2 x1))
      let x3 := sub p (mul p lam lam) (add p x1 x2)
      some (x3, sub p (mul p lam (sub p x1 x3)) y1)

def smulAux (c : Curve) : Nat → Nat → Pt → Pt
  | 0, _, _ => none
  | fuel + 1, k, P =>
    if k = 0 then none else
      let half := smulAux c fuel (k / 2) P
      let dbl := addPt c half half
      if k % 2 = 1 then addPt c dbl P else dbl

/-- Double-and-add scalar multiplication (structural in the bit length). -/
def smul (c : Curve) (k : Nat) (P : Pt) : Pt := smulAux c (k.log2 + 1) k P

/-- BN `pointG2.MarshalBinary`: `x.im ‖ x.re ‖ y.im ‖ y.re`, 32 bytes each, big-endian; O = 128 zero bytes. -/
def enc : Pt → Bytes
  | none => List.replicate 128 0
  | some (x, y) => encodeBE 32 x.2 ++ encodeBE 32 x.1 ++ encodeBE 32 y.2 ++ encodeBE 32 y.1

/-- The four 32-byte coordinates of a G2 encoding (at least 128 bytes, the rest ignored). -/
def coords (bs : Bytes) : Option (El × El) :=
  if bs.length < 128 then none else
  let xi := decodeBE (bs.take 32)
  let xr := decodeBE ((bs.drop 32).take 32)
  let yi := decodeBE ((bs.drop 64).take 32)
  let yr := decodeBE ((bs.drop 96).take 32)
  some ((xr, xi), (yr, yi))
end Fp2

namespace BN256
/-- `twistB = 3/ξ`, `ξ = i + 3`. -/
def twistB : Fp2.El :=
  (0x64984e1f1aa5abfb90e7f281111033b15a0cdfc596e598bb7774124bdb6c6949,
   0x0e5ee696baa9f3ff5dd7fe127026e2d0316f8dae83455ef635a2de0ad6340f0a)
def twist : Fp2.Curve := ⟨p, twistB⟩
/-- `pointG2.UnmarshalBinary` of bn256: at least 128 bytes, coordinates reduced mod `p`, all-zero = O,
    otherwise on the twist (no order test). -/
def decG2 (bs : Bytes) : Option Fp2.Pt :=
  match Fp2.coords bs with
  | none => none
  | some (x, y) =>
    let x := Fp2.red p x
    let y := Fp2.red p y
    if Fp2.isZero x && Fp2.isZero y then some none
    else if Fp2.onCurve twist (some (x, y)) = true then some (some (x, y))
    else none
end BN256

namespace BN254
/-- `twistB = 3/ξ`, `ξ = i + 9`. -/
def twistB : Fp2.El :=
  (0x2b149d40ceb8aaae81be18991be06ac3b5b4c5e559dbefa33267e6dc24a138e5,
   0x009713b03af0fed4cd2cafadeed8fdf4a74fa084e52d1852e4a2bd0685c315d2)
def twist : Fp2.Curve := ⟨p, twistB⟩
/-- `pointG2.UnmarshalBinary` of bn254: at least 128 bytes, any coordinate `≥ p` rejected, all-zero = O,
    otherwise on the twist and of order dividing `n`. -/
def decG2 (bs : Bytes) : Option Fp2.Pt :=
  match Fp2.coords bs with
  | none => none
  | some (x, y) =>
    if p ≤ x.1 ∨ p ≤ x.2 ∨ p ≤ y.1 ∨ p ≤ y.2 then none
    else if Fp2.isZero x && Fp2.isZero y then some none
    else if Fp2.onCurve twist (some (x, y)) = true ∧ Fp2.smul twist n (some (x, y)) = none
      then some (some (x, y))
    else none
end BN254

/-! ### BLS12-381, G1 -/
namespace BLS12381
open Weierstrass
/-- Square-root candidate in `F_p`, `p ≡ 3 (mod 4)`: `a^((p+1)/4)`. -/
def sqrtCand (a : Nat) : Nat := powMod a ((p + 1) / 4) p

/-- Square root in `F_p`: the candidate, if it squares to `a`. -/
def sqrtFp (a : Nat) : Option Nat :=
  if sqrtCand a * sqrtCand a % p = a % p then some (sqrtCand a) else none

def half : Nat := (p - 1) / 2

/-- Right-hand side of the curve equation `y² = x³ + 4`. -/
def rhs (x : Nat) : Nat := (x * x % p * x + 4) % p

/-- The root selected by the "larger root" flag. -/
def pickRoot (big : Bool) (y0 : Nat) : Nat := if decide (half < y0) = big then y0 else negMod y0 p

/-- Decompress `x` with the "larger root" flag, then test the order. -/
def decXY (big : Bool) (x : Nat) : Option Pt :=
  if p ≤ x then none else
  match sqrtFp (rhs x) with
  | none => none
  | some y0 =>
    if smul curve r (some (x, pickRoot big y0)) = none then some (some (x, pickRoot big y0)) else none

/-- ZCash compressed form, exactly 48 bytes (`FromCompressed` of kilic; what all three back-ends
    produce). Bit 7 of the first byte: compressed (must be set); bit 6: infinity (then the string must be
    exactly `c0 00…00`); bit 5: the larger root. -/
def dec (bs : Bytes) : Option Pt :=
  match bs with
  | [] => none
  | b0 :: rest =>
    if rest.length ≠ 47 then none
    else if b0.toNat / 128 = 0 then none
    else if b0.toNat / 64 % 2 = 1 then
      (if b0.toNat = 0xc0 ∧ rest.all (· == 0) = true then some none else none)
    else decXY (b0.toNat / 32 % 2 == 1) (decodeBE (UInt8.ofNat (b0.toNat % 32) :: rest))

/-- Uncompressed affine form: `x ‖ y`, 48 bytes each, both `< p`, on the curve, of order dividing `r`. -/
def decAffine (x y : Nat) : Option Pt :=
  if p ≤ x ∨ p ≤ y then none
  else if onCurve curve (some (x, y)) = true ∧ smul curve r (some (x, y)) = none then some (some (x, y))
  else none

/-- What CIRCL's and gnark-crypto's `SetBytes` accept: at least 48 bytes; prefixes `001`, `011`, `111`
    invalid; compressed forms read the first 48 bytes; uncompressed forms (never produced by kyber) need
    96 bytes. `zeroIsInf`: gnark represents O as affine `(0,0)` and therefore also accepts 96 zero bytes. -/
def decLenient (zeroIsInf : Bool) (bs : Bytes) : Option Pt :=
  match bs with
  | [] => none
  | b0 :: rest =>
    if rest.length < 47 then none else
    let f := b0.toNat / 32
    if f = 1 ∨ f = 3 ∨ f = 7 then none
    else if 4 ≤ f then dec (b0 :: rest.take 47)
    else if rest.length < 95 then none
    else if f = 2 then
      (if b0.toNat = 0x40 ∧ (rest.take 95).all (· == 0) = true then some none else none)
    else
      let x := decodeBE (b0 :: rest.take 47)
      let y := decodeBE ((rest.drop 47).take 48)
      if zeroIsInf ∧ x = 0 ∧ y = 0 then some none else decAffine x y
end BLS12381

/-! ### Scalars -/
namespace Scalar
/-- `mod.Int.UnmarshalBinary` (`exact = true`: the buffer must be exactly `len` bytes) and CIRCL's
    `Scalar.UnmarshalBinary` (`exact = false`: at least `len` bytes, the rest ignored): the value must
    be `< q`. -/
def decBounded (q len : Nat) (le exact : Bool) (bs : Bytes) : Option Nat :=
  if (exact ∧ bs.length ≠ len) ∨ bs.length < len then none else
  let v := if le then decodeLE (bs.take len) else decodeBE (bs.take len)
  if v < q then some v else none

/-- Byte length of `mod.Int` with modulus `q`. -/
def modIntLen (q : Nat) : Nat := (bitLen q + 7) / 8

/-- Ed25519 `scalar.UnmarshalBinary`: any 32 bytes, stored as they are (unreduced); every later use
    reduces modulo `L`. -/
def decEd (bs : Bytes) : Option Nat := if bs.length ≠ 32 then none else some (decodeLE bs)

/-- gnark `fr.Element.SetBytes`: any length, big-endian, reduced modulo `r`; never fails. -/
def decGnark (r : Nat) (bs : Bytes) : Option Nat := some (decodeBE bs % r)
end Scalar

/-! ### Composite messages parsed from untrusted bytes

Only the *framing* is modelled (how the byte string is cut and which parts are decoded); the algebraic
verification equation is a parameter. `accepts … = false` is "returns an error". -/
namespace Composite

/-- `R ‖ s` with fixed lengths (Schnorr: `ptLen + scLen`; EdDSA: 32 + 32). -/
def splitExact (n m : Nat) (bs : Bytes) : Option (Bytes × Bytes) :=
  if bs.length ≠ n + m then none else some (bs.take n, bs.drop n)

/-- `V ‖ r ‖ mask` (CoSi): the mask must be exactly `maskLen` bytes. -/
def splitCosi (ptLen scLen maskLen : Nat) (bs : Bytes) : Option (Bytes × Bytes × Bytes) :=
  if bs.length ≠ ptLen + scLen + maskLen then none
  else some (bs.take ptLen, (bs.drop ptLen).take scLen, bs.drop (ptLen + scLen))

/-- `R ‖ ciphertext` (ECIES, anon header): at least the point. -/
def splitPrefix (n : Nat) (bs : Bytes) : Option (Bytes × Bytes) :=
  if bs.length < n then none else some (bs.take n, bs.drop n)

/-- Ring signature (`sign/anon`): `[Tag] ‖ C0 ‖ S_1 … S_n`, read as a stream; too short is an error,
    a tail is ignored. -/
def splitRing (linkable : Bool) (ptLen scLen n : Nat) (bs : Bytes) : Option (Bytes × Bytes × List Bytes) :=
  let tl := if linkable then ptLen else 0
  if bs.length < tl + scLen * (n + 1) then none else
  let rest := bs.drop tl
  some (bs.take tl, rest.take scLen, (List.range n).map (fun i => (rest.drop (scLen * (i + 1))).take scLen))

/-- A two-part signature verifier: parse, decode both parts, then the verification predicate. -/
def accepts2 {P S : Type} (n m : Nat) (decP : Bytes → Option P) (decS : Bytes → Option S)
    (eqn : P → S → Bool) (sig : Bytes) : Bool :=
  match splitExact n m sig with
  | none => false
  | some (a, b) =>
    match decP a, decS b with
    | some R, some s => eqn R s
    | _, _ => false

/-- A one-point signature verifier (BLS). -/
def accepts1 {P : Type} (decP : Bytes → Option P) (eqn : P → Bool) (sig : Bytes) : Bool :=
  match decP sig with
  | none => false
  | some s => eqn s

/-- Decryption with an ephemeral point in front (ECIES): parse, decode, then the AEAD. -/
def opens {P : Type} (n : Nat) (decP : Bytes → Option P) (aead : P → Bytes → Option Bytes) (ctx : Bytes) :
    Option Bytes :=
  match splitPrefix n ctx with
  | none => none
  | some (a, ct) =>
    match decP a with
    | none => none
    | some R => aead R ct

end Composite
end Kyber
