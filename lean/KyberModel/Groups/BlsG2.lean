import KyberModel.Groups.Decode
/-!
# BLS12-381 G2: reference model

The twist `y² = x³ + 4(1+i)` over `Fp2 = Fp[i]/(i²+1)` (`Groups/Decode.lean: Fp2`), its generator, the
ZCash compressed encoding (96 bytes: `x.im ‖ x.re`, 48 bytes each, big-endian; bit 7 of the first byte:
compressed, bit 6: infinity, bit 5: `y` is the lexicographically larger root, comparing the imaginary
part first) and its decoder (a square root in `Fp2` is recomputed; the candidate is always checked by
squaring, so an accepted value is on the twist whatever the root algorithm does).

Three independent implementations (kilic, CIRCL, gnark-crypto behind kyber's pairing/bls12381 packages)
are compared with this model byte for byte by the group-program driver (`Drive/Grp.lean`).
-/
namespace Kyber.BLS12381
open Kyber.Fp2

def twistB : Fp2.El := (4, 4)
def twist : Fp2.Curve := ⟨p, twistB⟩

def g2Base : Fp2.Pt := some
  ((0x024aa2b2f08f0a91260805272dc51051c6e47ad4fa403b02b4510b647ae3d1770bac0326a805bbefd48056c8c121bdb8,
    0x13e02b6052719f607dacd3a088274f65596bd0d09920b61ab5da61bbdc7f5049334cf11213945d57e5ac7d055d042b7e),
   (0x0ce5d527727d6e118cc9cdc6da2e351aadfd9baa8cbdd3a76d429a695160d12c923ac9cc3baca289e193548608b82801,
    0x0606c4a02ea734cc32acd2b02bc28b99cb3e287e85a763af267492ab572e99ab3f370d275cec1da1aaa9075ff05f79be))

/-- `y` is lexicographically larger than `-y`: decided by the imaginary part unless it is zero. -/
def largerRoot (y : Fp2.El) : Bool :=
  if y.2 % p ≠ 0 then decide ((p - 1) / 2 < y.2 % p) else decide ((p - 1) / 2 < y.1 % p)

def encG2 : Fp2.Pt → Bytes
  | none => 0xc0 :: List.replicate 95 0
  | some (x, y) =>
    let flag : UInt8 := if largerRoot y then 0xa0 else 0x80
    match encodeBE 48 x.2 ++ encodeBE 48 x.1 with
    | b0 :: rest => (b0 ||| flag) :: rest
    | [] => []

/-- Square root in `Fp`, `p ≡ 3 (mod 4)`. -/
def sqrtP (a : Nat) : Option Nat :=
  let c := powMod a ((p + 1) / 4) p
  if c * c % p = a % p then some c else none

/-- The final check of the square root: the candidate must square to the argument. -/
def chkRoot (a x : Fp2.El) : Option Fp2.El := if Fp2.mul p x x = a then some x else none

/-- Square root of `a0 + 0·i`: `√a0`, or `i·√(-a0)`. -/
def sqrtReal (a : Fp2.El) : Option Fp2.El :=
  match sqrtP a.1 with
  | some s => chkRoot a (s, 0)
  | none => match sqrtP (negMod a.1 p) with
    | some s => chkRoot a (0, s)
    | none => none

def pickX0 (d1 d2 : Nat) : Option Nat :=
  match sqrtP d1 with
  | some x0 => some x0
  | none => sqrtP d2

/-- Square root of `a0 + a1·i`, `a1 ≠ 0`, by the norm: `x0² = (a0 ± √(a0²+a1²))/2`, `x1 = a1/(2 x0)`
    (`inv2` is `1/2`). -/
def sqrtGenWith (inv2 : Nat) (a : Fp2.El) : Option Fp2.El :=
  match sqrtP ((a.1 * a.1 + a.2 * a.2) % p) with
  | none => none
  | some s =>
    match pickX0 ((a.1 + s) % p * inv2 % p) (subMod a.1 s p * inv2 % p) with
    | none => none
    | some x0 => chkRoot a (x0, a.2 * invMod (2 * x0 % p) p % p)

def sqrtGen (a : Fp2.El) : Option Fp2.El := sqrtGenWith (invMod 2 p) a

/-- Square root in `Fp2`. The result is always checked by squaring (`chkRoot`). -/
def sqrtFp2 (a : Fp2.El) : Option Fp2.El :=
  if (Fp2.red p a).2 = 0 then sqrtReal (Fp2.red p a) else sqrtGen (Fp2.red p a)

def rhsG2 (x : Fp2.El) : Fp2.El := Fp2.add p (Fp2.mul p (Fp2.mul p x x) x) twistB

/-- The root selected by the "larger root" flag. -/
def selectRoot (big : Bool) (y0 : Fp2.El) : Fp2.El := if largerRoot y0 = big then y0 else Fp2.neg p y0

/-- Decompress `x = xr + xi·i` with the "larger root" flag, then test the order. -/
def decG2Affine (big : Bool) (xr xi : Nat) : Option Fp2.Pt :=
  if p ≤ xi ∨ p ≤ xr then none else
  match sqrtFp2 (rhsG2 (xr, xi)) with
  | none => none
  | some y0 =>
    if Fp2.smul twist r (some ((xr, xi), selectRoot big y0)) = none
    then some (some ((xr, xi), selectRoot big y0)) else none

/-- Decoder of the compressed form: exactly 96 bytes, compression bit set, infinity only as `c0 00…00`,
    coordinates `< p`, on the twist, of order dividing `r`. -/
def decG2 (bs : Bytes) : Option Fp2.Pt :=
  match bs with
  | [] => none
  | b0 :: rest =>
    if rest.length ≠ 95 then none
    else if b0.toNat / 128 = 0 then none
    else if b0.toNat / 64 % 2 = 1 then
      (if b0.toNat = 0xc0 ∧ rest.all (· == 0) = true then some none else none)
    else decG2Affine (b0.toNat / 32 % 2 == 1) (decodeBE (rest.drop 47))
      (decodeBE (UInt8.ofNat (b0.toNat % 32) :: rest.take 47))

end Kyber.BLS12381
