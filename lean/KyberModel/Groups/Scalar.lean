import KyberModel.Core.Bytes
import KyberModel.Core.Arith
/-
Model of kyber scalars (C02): values are `Nat`, reduced modulo the group order `q`.
Mirrors `group/mod/int.go`, `group/edwards25519/scalar.go`, the CIRCL / gnark adapters.
-/
namespace Kyber.Scalar

def add (q a b : Nat) : Nat := (a + b) % q
def sub (q a b : Nat) : Nat := subMod a b q
def neg (q a : Nat) : Nat := negMod a q
def mul (q a b : Nat) : Nat := (a * b) % q
/-- `Inv`: Fermat inverse (this is literally what Ed25519's `Inv` does; `ModInverse` agrees for prime `q`). -/
def inv (q a : Nat) : Nat := invMod a q
/-- `Div a b = a * b⁻¹`. -/
def div (q a b : Nat) : Nat := (a % q * invMod b q) % q
def zero (_q : Nat) : Nat := 0
def one (q : Nat) : Nat := 1 % q
/-- `SetInt64`: the integer `v` (possibly negative) reduced into `[0,q)`. -/
def setInt64 (q : Nat) (v : Int) : Nat := (v % (q : Int)).toNat
/-- `SetBytes` in little-endian order: any length, reduced modulo `q`. -/
def setBytesLE (q : Nat) (bs : Bytes) : Nat := decodeLE bs % q
/-- `SetBytes` in big-endian order. -/
def setBytesBE (q : Nat) (bs : Bytes) : Nat := decodeBE bs % q

/-- `random.Bits(bitlen, exact=false)` applied to the raw stream bytes `bs` (`bs.length = ⌈bitlen/8⌉`):
    the top byte (first, big-endian) is masked down to `bitlen % 8` bits when that is non-zero. -/
def maskBits (bitlen : Nat) (bs : Bytes) : Bytes :=
  match bs with
  | [] => []
  | b :: rest => if bitlen % 8 = 0 then b :: rest else (UInt8.ofNat (b.toNat % 2 ^ (bitlen % 8))) :: rest

/-- `random.Bits(bitlen, exact=true)`: additionally force the top bit. -/
def exactBits (bitlen : Nat) (bs : Bytes) : Bytes :=
  match maskBits bitlen bs with
  | [] => []
  | b :: rest =>
    let top := if bitlen % 8 = 0 then 128 else 2 ^ (bitlen % 8 - 1)
    (UInt8.ofNat (b.toNat ||| top)) :: rest

/-- Bit length of `q` as `big.Int.BitLen` computes it. -/
def bitLen (q : Nat) : Nat := if q = 0 then 0 else q.log2 + 1

/-- `random.Int(q, stream)`: rejection sampling. Consumes `nb = ⌈bitLen q / 8⌉` bytes per candidate
    from `stream` (a finite prefix of the real, infinite stream). Returns the accepted value and the
    total number of bytes consumed, or `none` if the prefix is exhausted before a candidate `< q`. -/
def pickAux (q nb bl : Nat) (stream : Bytes) (used : Nat) : Option (Nat × Nat) :=
  if nb = 0 ∨ stream.length < nb then none else
    let cand := decodeBE (maskBits bl (stream.take nb))
    if cand < q then some (cand, used + nb) else pickAux q nb bl (stream.drop nb) (used + nb)
termination_by stream.length
decreasing_by simp only [List.length_drop]; omega

def pick (q : Nat) (stream : Bytes) : Option (Nat × Nat) :=
  let bl := bitLen q
  pickAux q ((bl + 7) / 8) bl stream 0

end Kyber.Scalar
