import KyberModel.Core.Bytes
import KyberModel.Core.Arith
/-
Executable model of twisted Edwards curves `a x² + y² = 1 + d x² y²` over `F_p` (affine coordinates,
values are `Nat` reduced mod `p`), instantiated for Ed25519 — the curve of `group/edwards25519`
(constant-time limb code) and `group/edwards25519vartime` (mod.Int over big.Int, projective and
extended coordinates). Core-only: the driver executes these definitions; `Lib/Edwards*.lean` and
`Props/C01.lean` prove the group law about them.
-/
namespace Kyber.Edwards

structure Curve where
  p : Nat
  a : Nat
  d : Nat
deriving Repr

structure Pt where
  x : Nat
  y : Nat
deriving DecidableEq, Repr, Inhabited

def zero : Pt := ⟨0, 1⟩

def onCurve (c : Curve) (P : Pt) : Bool :=
  (c.a * P.x * P.x + P.y * P.y) % c.p = (1 + c.d * P.x % c.p * P.x % c.p * P.y % c.p * P.y) % c.p

/-- Unified (complete, for `a` square and `d` non-square) affine addition. -/
def add (c : Curve) (P Q : Pt) : Pt :=
  let p := c.p
  let t := c.d * (P.x * Q.x % p) % p * (P.y * Q.y % p) % p        -- d x1 x2 y1 y2
  let xn := (P.x * Q.y + P.y * Q.x) % p
  let yn := subMod (P.y * Q.y) (c.a * (P.x * Q.x % p)) p
  let xd := (1 + t) % p
  let yd := subMod 1 t p
  ⟨xn * invMod xd p % p, yn * invMod yd p % p⟩

def neg (c : Curve) (P : Pt) : Pt := ⟨negMod P.x c.p, P.y % c.p⟩

def sub (c : Curve) (P Q : Pt) : Pt := add c P (neg c Q)

/-- Double-and-add scalar multiplication; `fuel` bounds the number of bits of `k` processed
    (structural recursion, so the kernel can evaluate it). -/
def smulAux (c : Curve) : Nat → Nat → Pt → Pt
  | 0, _, _ => zero
  | fuel + 1, k, P =>
    if k = 0 then zero else
      let half := smulAux c fuel (k / 2) P
      let dbl := add c half half
      if k % 2 = 1 then add c dbl P else dbl

def smul (c : Curve) (k : Nat) (P : Pt) : Pt := smulAux c (k.log2 + 1) k P

/-- RFC 8032 / kyber encoding: 32 bytes little-endian `y`, bit 255 = least significant bit of `x`. -/
def enc (c : Curve) (P : Pt) : Bytes :=
  encodeLE 32 (P.y % c.p + 2 ^ 255 * (P.x % c.p % 2))

/-- Square-root candidate as in `FromBytes` / `decodePoint` for `p ≡ 5 (mod 8)`:
    returns `x` with `v x² = u`, if one exists. -/
def sqrtRatio (p sqrtM1 u v : Nat) : Option Nat :=
  let v3 := v * v % p * v % p
  let v7 := v3 * v3 % p * v % p
  let x := u * v3 % p * powMod (u * v7 % p) ((p - 5) / 8) p % p
  let vxx := v * (x * x % p) % p
  if vxx = u % p then some x
  else if vxx = negMod u p then some (x * sqrtM1 % p)
  else none

end Kyber.Edwards

namespace Kyber.Ed25519
open Kyber.Edwards

def p : Nat := 2 ^ 255 - 19
def L : Nat := 7237005577332262213973186563042994240857116359379907606001950938285454250989
def d : Nat := 37095705934669439343138083508754565189542113879843219016388785533085940283555
def sqrtM1 : Nat := 19681161376707505956807079304988542015446066515923890162744021073123829784752
def curve : Curve := ⟨p, p - 1, d⟩
def base : Pt :=
  ⟨15112221349535400772501151409588531511454012693041857206046113283949847762202,
   46316835694926478169428394003475163141307993866256225615783033603165251855960⟩

def add := Edwards.add curve
def neg := Edwards.neg curve
def sub := Edwards.sub curve
def smul := Edwards.smul curve
def onCurve := Edwards.onCurve curve
def enc := Edwards.enc curve

/-- `UnmarshalBinary` of `group/edwards25519` as coded: exactly 32 bytes; `y` is the low 255 bits,
    accepted even when `≥ p` (reduced); `x` recovered from the curve equation; the sign bit selects
    `x` or `-x` (so "-0" is accepted as `x = 0`). -/
def dec (bs : Bytes) : Option Pt :=
  if bs.length ≠ 32 then none else
  let n := decodeLE bs
  let y := (n % 2 ^ 255) % p
  let sign := n / 2 ^ 255
  let u := subMod (y * y) 1 p
  let v := (d * (y * y % p) + 1) % p
  match sqrtRatio p sqrtM1 u v with
  | none => none
  | some x => some ⟨if x % 2 = sign then x else negMod x p, y⟩

/-- `point.IsCanonical`: the 255-bit `y` is `< p`. -/
def isCanonical (bs : Bytes) : Bool :=
  bs.length = 32 && decodeLE bs % 2 ^ 255 < p

end Kyber.Ed25519
