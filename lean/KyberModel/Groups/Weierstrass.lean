import KyberModel.Core.Bytes
import KyberModel.Core.Arith
/-
Executable model of short Weierstrass curves `y² = x³ + a x + b` over `F_p` (affine, `none` = point at
infinity), instantiated for P-256, BN256 G1, BN254 G1, BLS12-381 G1. Core-only.
`Lib/Weierstrass.lean` proves `add` equal to Mathlib's `WeierstrassCurve.Affine.Point` addition.
-/
namespace Kyber.Weierstrass

structure Curve where
  p : Nat
  a : Nat
  b : Nat
deriving Repr

abbrev Pt := Option (Nat × Nat)

def onCurve (c : Curve) : Pt → Bool
  | none => true
  | some (x, y) => y * y % c.p = ((x * x % c.p * x + c.a * x + c.b) % c.p)

def neg (c : Curve) : Pt → Pt
  | none => none
  | some (x, y) => some (x % c.p, negMod y c.p)

/-- Chord-and-tangent addition. -/
def add (c : Curve) : Pt → Pt → Pt
  | none, Q => Q
  | P, none => P
  | some (x1, y1), some (x2, y2) =>
    let p := c.p
    if x1 % p = x2 % p then
      if (y1 + y2) % p = 0 then none
      else
        let lam := (3 * (x1 * x1 % p) + c.a) % p * invMod (2 * y1 % p) p % p
        let x3 := subMod (lam * lam) (x1 + x2) p
        some (x3, subMod (lam * subMod x1 x3 p) y1 p)
    else
      let lam := subMod y2 y1 p * invMod (subMod x2 x1 p) p % p
      let x3 := subMod (lam * lam) (x1 + x2) p
      some (x3, subMod (lam * subMod x1 x3 p) y1 p)

def sub (c : Curve) (P Q : Pt) : Pt := add c P (neg c Q)

def smulAux (c : Curve) : Nat → Nat → Pt → Pt
  | 0, _, _ => none
  | fuel + 1, k, P =>
    if k = 0 then none else
      let half := smulAux c fuel (k / 2) P
      let dbl := add c half half
      if k % 2 = 1 then add c dbl P else dbl

/-- Double-and-add scalar multiplication (structural in the bit length, kernel-evaluable). -/
def smul (c : Curve) (k : Nat) (P : Pt) : Pt := smulAux c (k.log2 + 1) k P

end Kyber.Weierstrass

namespace Kyber.P256
open Kyber.Weierstrass
def p : Nat := 0xffffffff00000001000000000000000000000000ffffffffffffffffffffffff
def n : Nat := 0xffffffff00000000ffffffffffffffffbce6faada7179e84f3b9cac2fc632551
def b : Nat := 0x5ac635d8aa3a93e7b3ebbd55769886bc651d06b0cc53b0f63bce3c3e27d2604b
def curve : Curve := ⟨p, p - 3, b⟩
def base : Pt := some (0x6b17d1f2e12c4247f8bce6e563a440f277037d812deb33a0f4a13945d898c296,
                       0x4fe342e2fe1a7f9b8ee7eb4a7c0f9e162bce33576b315ececbb6406837bf51f5)
/-- SEC1 uncompressed encoding as `group/p256` produces it: `04 ‖ X ‖ Y`, infinity = `04 ‖ 0…0`. -/
def enc : Pt → Bytes
  | none => 4 :: List.replicate 64 0
  | some (x, y) => 4 :: (encodeBE 32 x ++ encodeBE 32 y)
end Kyber.P256

namespace Kyber.BN256
open Kyber.Weierstrass
def p : Nat := 65000549695646603732796438742359905742825358107623003571877145026864184071783
def n : Nat := 65000549695646603732796438742359905742570406053903786389881062969044166799969
def curve : Curve := ⟨p, 0, 3⟩
def base : Pt := some (1, p - 2)
/-- `pointG1.MarshalBinary`: `X ‖ Y` big-endian, 32 bytes each; infinity = 64 zero bytes. -/
def enc : Pt → Bytes
  | none => List.replicate 64 0
  | some (x, y) => encodeBE 32 x ++ encodeBE 32 y
end Kyber.BN256

namespace Kyber.BN254
open Kyber.Weierstrass
def p : Nat := 21888242871839275222246405745257275088696311157297823662689037894645226208583
def n : Nat := 21888242871839275222246405745257275088548364400416034343698204186575808495617
def curve : Curve := ⟨p, 0, 3⟩
def base : Pt := some (1, 2)
def enc : Pt → Bytes
  | none => List.replicate 64 0
  | some (x, y) => encodeBE 32 x ++ encodeBE 32 y
end Kyber.BN254

namespace Kyber.BLS12381
open Kyber.Weierstrass
def p : Nat := 0x1a0111ea397fe69a4b1ba7b6434bacd764774b84f38512bf6730d2a0f6b0f6241eabfffeb153ffffb9feffffffffaaab
def r : Nat := 0x73eda753299d7d483339d80809a1d80553bda402fffe5bfeffffffff00000001
def curve : Curve := ⟨p, 0, 4⟩
def base : Pt := some (0x17f1d3a73197d7942695638c4fa9ac0fc3688c4f9774b905a14e3a3f171bac586c55e83ff97a1aeffb3af00adb22c6bb,
                       0x08b3f481e3aaa0f1a09e30ed741d8ae4fcf5e095d5d00af600db18cb2c04b3edd03cc744a2888ae40caa232946c5e7e1)
/-- ZCash compressed G1 encoding (48 bytes): bit 7 compression flag, bit 6 infinity, bit 5 = `y` is the
    lexicographically larger root. -/
def enc : Pt → Bytes
  | none => 0xc0 :: List.replicate 47 0
  | some (x, y) =>
    let flag := if y > (p - 1) / 2 then 0xa0 else 0x80
    match encodeBE 48 x with
    | b0 :: rest => (b0 ||| flag) :: rest
    | [] => []
end Kyber.BLS12381
