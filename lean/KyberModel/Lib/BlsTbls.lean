import KyberModel.Lib.BlsLemmas
import KyberModel.Props.C07
/-
Helper lemmas for the threshold-BLS model (C09): the `Recover` loop as a prefix of the list of valid
partials; valid partials lie on the polynomial `f·h`.
-/
namespace Kyber.Bls
open Kyber.Scalar Polynomial

variable {q : Nat}

/-- A partial that parses and verifies, as the share `Recover` appends. -/
def validShare (q : Nat) (sg : SigGroup) (commits : List Nat) (h : Nat) (p : Partial) : Option Share.Share :=
  match p.idx, p.val with
  | some i, some v => if verifyPoint q sg (pubShare q commits i) h v then some ⟨i, some v⟩ else none
  | _, _ => none

/-- All valid partials of the list, in order (duplicates kept). -/
def validShares (q : Nat) (sg : SigGroup) (commits : List Nat) (h : Nat) (sigs : List Partial) : List Share.Share :=
  sigs.filterMap (validShare q sg commits h)

/-- The loop of `Recover` keeps the first `max 1 (t - len)` valid partials. -/
theorem collect_eq (sg : SigGroup) (commits : List Nat) (h t : Nat) (sigs : List Partial) (acc : List Share.Share) :
    collect q sg commits h t sigs acc
      = acc ++ (validShares q sg commits h sigs).take (max 1 (t - acc.length)) := by
  induction sigs generalizing acc with
  | nil => simp [collect, validShares]
  | cons p ps ih =>
    unfold collect
    cases hi : p.idx with
    | none => simp only [validShares, List.filterMap_cons, validShare, hi]; exact ih acc
    | some i =>
      cases hv : p.val with
      | none => simp only [validShares, List.filterMap_cons, validShare, hi, hv]; exact ih acc
      | some v =>
        simp only [validShares, List.filterMap_cons, validShare, hi, hv]
        by_cases hver : verifyPoint q sg (pubShare q commits i) h v = true
        · simp only [hver, if_true]
          by_cases hb : t ≤ (acc ++ [(⟨i, some v⟩ : Share.Share)]).length
          · rw [if_pos hb]
            have : max 1 (t - acc.length) = 1 := by
              simp only [List.length_append, List.length_cons, List.length_nil] at hb; omega
            rw [this]; simp
          · rw [if_neg hb, ih]
            simp only [List.length_append, List.length_cons, List.length_nil] at hb ⊢
            have e1 : max 1 (t - (acc.length + (0 + 1))) = t - acc.length - 1 := by omega
            have e2 : max 1 (t - acc.length) = (t - acc.length - 1) + 1 := by omega
            rw [e1, e2, List.take_succ_cons]
            simp [validShares]
        · have hver' : verifyPoint q sg (pubShare q commits i) h v = false := by simpa using hver
          simp only [hver', Bool.false_eq_true, if_false]
          exact ih acc

theorem collect_nil (sg : SigGroup) (commits : List Nat) (h t : Nat) (sigs : List Partial) :
    collect q sg commits h t sigs [] = (validShares q sg commits h sigs).take (max 1 t) := by
  rw [collect_eq]; simp

/-- Every valid share has an index that came from a partial, and a value `σ` with `σ = X_i·h`. -/
theorem mem_validShares (hq : 0 < q) {sg : SigGroup} {commits : List Nat} {h : Nat} {sigs : List Partial}
    {s : Share.Share} (hs : s ∈ validShares q sg commits h sigs) :
    ∃ p ∈ sigs, p.idx = some s.I ∧ ∃ v, s.V = some v ∧ p.val = some v ∧
      (v : ZMod q) = (pubShare q commits s.I : ZMod q) * h := by
  unfold validShares at hs
  obtain ⟨p, hp, hps⟩ := List.mem_filterMap.mp hs
  unfold validShare at hps
  split at hps
  · next i v hi hv =>
    split at hps
    · next hver =>
      cases hps
      exact ⟨p, hp, hi, v, rfl, hv, (verifyPoint_iff hq sg _ h v).mp hver⟩
    · cases hps
  · cases hps

/-- The polynomial whose values the valid partials carry: `f(x)·h`. -/
noncomputable def sigPoly (q : Nat) (commits : List Nat) (h : Nat) : (ZMod q)[X] :=
  Share.toPoly q commits * C (h : ZMod q)

theorem sigPoly_degree_lt (commits : List Nat) (h t : Nat) (hlen : commits.length ≤ t) :
    (sigPoly q commits h).degree < t := by
  unfold sigPoly
  calc (Share.toPoly q commits * C (h : ZMod q)).degree
      ≤ (Share.toPoly q commits).degree + (C (h : ZMod q)).degree := degree_mul_le _ _
    _ ≤ (Share.toPoly q commits).degree + 0 := by gcongr; exact degree_C_le
    _ = (Share.toPoly q commits).degree := add_zero _
    _ < commits.length := Share.toPoly_degree_lt commits
    _ ≤ t := by exact_mod_cast hlen

theorem pubShare_cast (commits : List Nat) (i : Nat) :
    ((pubShare q commits i : Nat) : ZMod q) = (Share.toPoly q commits).eval ((i : ZMod q) + 1) := by
  unfold pubShare
  rw [Share.pubEvalAt_eq_evalAt, Share.evalAt_cast, Share.xEval_cast]

/-- Valid partials with two-byte indices lie on `sigPoly` (hypothesis of the C07 recovery theorems). -/
theorem validShares_onCurve (hq16 : 65536 < q) (sg : SigGroup) (commits : List Nat) (h : Nat) (sigs : List Partial)
    (hidx : ∀ p ∈ sigs, ∀ i, p.idx = some i → i < 65536) (l : List Share.Share)
    (hl : ∀ s ∈ l, s ∈ validShares q sg commits h sigs) :
    Share.OnCurve q (sigPoly q commits h) (l.map some) := by
  intro sh hsh v hv
  have hmem : sh ∈ l := by
    obtain ⟨s, hs, e⟩ := List.mem_map.mp hsh
    cases e; exact hs
  obtain ⟨p, hp, hpi, v', hv', _, hc⟩ := mem_validShares (by omega) (hl sh hmem)
  rw [hv] at hv'
  cases hv'
  have hi := hidx p hp sh.I hpi
  refine ⟨⟨by omega, by omega⟩, ?_⟩
  rw [hc, pubShare_cast, sigPoly, eval_mul, eval_C]

theorem sigPoly_coeff_zero (commits : List Nat) (h : Nat) :
    (sigPoly q commits h).coeff 0 = ((commits.headD 0 : Nat) : ZMod q) * h := by
  unfold sigPoly
  rw [mul_coeff_zero, coeff_C_zero, Share.toPoly_coeff_zero]

theorem validIdx_map_some (l : List Share.Share) (hv : ∀ s ∈ l, s.V ≠ none) :
    Share.validIdx (l.map some) = l.map (·.I) := by
  unfold Share.validIdx Share.dropNil
  induction l with
  | nil => simp
  | cons s l ih =>
    have hs := hv s (by simp)
    have ih' := ih (fun s' hs' => hv s' (by simp [hs']))
    cases hV : s.V with
    | none => exact absurd hV hs
    | some v =>
      simp only [List.map_cons, List.filterMap_cons, id, hV, Option.map_some] at ih' ⊢
      rw [ih']

theorem validShares_V_ne_none (hq : 0 < q) {sg : SigGroup} {commits : List Nat} {h : Nat} {sigs : List Partial}
    {s : Share.Share} (hs : s ∈ validShares q sg commits h sigs) : s.V ≠ none := by
  obtain ⟨_, _, _, v, hv, _⟩ := mem_validShares hq hs
  rw [hv]; simp

/-- The repaired loop: result entries are valid partials, indices stay distinct, and it collects
    `t` shares as soon as `t` distinct valid indices are available. -/
theorem collectFixed_spec (sg : SigGroup) (commits : List Nat) (h t : Nat) (sigs : List Partial) :
    ∀ acc : List Share.Share, (acc.map (·.I)).Nodup →
      (∀ s ∈ collectFixed q sg commits h t sigs acc, s ∈ acc ∨ s ∈ validShares q sg commits h sigs) ∧
      ((collectFixed q sg commits h t sigs acc).map (·.I)).Nodup ∧
      min t ((acc.map (·.I) ++ (validShares q sg commits h sigs).map (·.I)).toFinset.card)
        ≤ (collectFixed q sg commits h t sigs acc).length := by
  induction sigs with
  | nil =>
    intro acc hnd
    refine ⟨fun s hs => Or.inl (by simpa [collectFixed] using hs), by simpa [collectFixed] using hnd, ?_⟩
    simp only [collectFixed, validShares, List.filterMap_nil, List.map_nil, List.append_nil]
    rw [List.toFinset_card_of_nodup hnd, List.length_map]
    exact Nat.min_le_right _ _
  | cons p ps ih =>
    intro acc hnd
    unfold collectFixed
    cases hi : p.idx with
    | none =>
      have hv : validShare q sg commits h p = none := by simp [validShare, hi]
      simp only [validShares, List.filterMap_cons, hv]
      obtain ⟨a, b, c⟩ := ih acc hnd
      exact ⟨a, b, c⟩
    | some i =>
      cases hval : p.val with
      | none =>
        have hv : validShare q sg commits h p = none := by simp [validShare, hi, hval]
        simp only [validShares, List.filterMap_cons, hv]
        obtain ⟨a, b, c⟩ := ih acc hnd
        exact ⟨a, b, c⟩
      | some v =>
        simp only
        by_cases hany : (acc.any fun s => s.I == i) = true
        · rw [if_pos hany]
          obtain ⟨a, b, c⟩ := ih acc hnd
          have hmem : i ∈ acc.map (·.I) := by
            obtain ⟨s, hs, e⟩ := List.any_eq_true.mp hany
            exact List.mem_map.mpr ⟨s, hs, by simpa using e⟩
          refine ⟨fun s hs => ?_, b, ?_⟩
          · rcases a s hs with h1 | h1
            · exact Or.inl h1
            · right
              simp only [validShares, List.filterMap_cons]
              cases validShare q sg commits h p <;> simp [validShares] at h1 ⊢ <;> tauto
          · have hset : (acc.map (·.I) ++ (validShares q sg commits h (p :: ps)).map (·.I)).toFinset
                = (acc.map (·.I) ++ (validShares q sg commits h ps).map (·.I)).toFinset := by
              by_cases hver : verifyPoint q sg (pubShare q commits i) h v = true
              · have hv : validShare q sg commits h p = some ⟨i, some v⟩ := by simp [validShare, hi, hval, hver]
                simp only [validShares, List.filterMap_cons, hv]
                ext x
                simp only [List.toFinset_append, List.map_cons, List.toFinset_cons, Finset.mem_union,
                  Finset.mem_insert, List.mem_toFinset]
                constructor
                · rintro (h1 | h1 | h1)
                  · exact Or.inl h1
                  · subst h1; exact Or.inl hmem
                  · exact Or.inr h1
                · rintro (h1 | h1)
                  · exact Or.inl h1
                  · exact Or.inr (Or.inr h1)
              · have hv : validShare q sg commits h p = none := by
                  have : verifyPoint q sg (pubShare q commits i) h v = false := by simpa using hver
                  simp [validShare, hi, hval, this]
                simp only [validShares, List.filterMap_cons, hv]
            rw [hset]; exact c
        · rw [if_neg hany]
          have hnmem : i ∉ acc.map (·.I) := by
            intro hm
            obtain ⟨s, hs, e⟩ := List.mem_map.mp hm
            exact hany (List.any_eq_true.mpr ⟨s, hs, by simpa using e⟩)
          by_cases hver : verifyPoint q sg (pubShare q commits i) h v = true
          · rw [if_pos hver]
            have hv : validShare q sg commits h p = some ⟨i, some v⟩ := by simp [validShare, hi, hval, hver]
            have hnd' : ((acc ++ [(⟨i, some v⟩ : Share.Share)]).map (·.I)).Nodup := by
              rw [List.map_append, List.map_cons, List.map_nil]
              refine List.nodup_append.mpr ⟨hnd, List.nodup_singleton _, ?_⟩
              intro a ha b hb
              rw [List.mem_singleton] at hb
              subst hb
              rintro rfl; exact hnmem ha
            by_cases hb : t ≤ (acc ++ [(⟨i, some v⟩ : Share.Share)]).length
            · rw [if_pos hb]
              refine ⟨fun s hs => ?_, hnd', le_trans (Nat.min_le_left _ _) hb⟩
              rcases List.mem_append.mp hs with h1 | h1
              · exact Or.inl h1
              · right
                simp only [List.mem_singleton] at h1
                subst h1
                simp [validShares, hv]
            · rw [if_neg hb]
              obtain ⟨a, b, c⟩ := ih _ hnd'
              refine ⟨fun s hs => ?_, b, ?_⟩
              · rcases a s hs with h1 | h1
                · rcases List.mem_append.mp h1 with h2 | h2
                  · exact Or.inl h2
                  · right
                    simp only [List.mem_singleton] at h2
                    subst h2
                    simp [validShares, hv]
                · right
                  simp only [validShares, List.filterMap_cons, hv]
                  exact List.mem_cons_of_mem _ h1
              · have hset : (acc.map (·.I) ++ (validShares q sg commits h (p :: ps)).map (·.I)).toFinset
                    = ((acc ++ [(⟨i, some v⟩ : Share.Share)]).map (·.I)
                        ++ (validShares q sg commits h ps).map (·.I)).toFinset := by
                  simp only [validShares, List.filterMap_cons, hv]
                  ext x
                  simp only [List.toFinset_append, List.map_cons, List.toFinset_cons, Finset.mem_union,
                    Finset.mem_insert, List.mem_toFinset, List.map_append, List.map_nil, List.mem_append,
                    List.mem_singleton]
                  tauto
                rw [hset]; exact c
          · rw [if_neg hver]
            have hv : validShare q sg commits h p = none := by
              have : verifyPoint q sg (pubShare q commits i) h v = false := by simpa using hver
              simp [validShare, hi, hval, this]
            simp only [validShares, List.filterMap_cons, hv]
            obtain ⟨a, b, c⟩ := ih acc hnd
            exact ⟨a, b, c⟩


/-- Whatever sub-list of valid partials is handed to `RecoverCommit`, a returned value is `f(0)·h`. -/
theorem recoverCommit_of_valid [Fact q.Prime] (hq16 : 65536 < q) (sg : SigGroup) (commits : List Nat) (h : Nat)
    (sigs : List Partial) (t : Nat) (ht : 1 ≤ t) (hlen : commits.length ≤ t)
    (hidx : ∀ p ∈ sigs, ∀ i, p.idx = some i → i < 65536) (ps : List Share.Share)
    (hsub : ∀ s ∈ ps, s ∈ validShares q sg commits h sigs) (σ : Nat)
    (hr : Share.recoverCommit q (ps.map some) t = some σ) :
    σ = sign q (commits.headD 0) h ∧ Bls.verify q sg (commits.headD 0) h (some σ) = true := by
  have hq : 0 < q := by omega
  have hon := validShares_onCurve hq16 sg commits h sigs hidx ps hsub
  have hcnt : t ≤ (Share.validIdx (ps.map some)).toFinset.card := by
    by_contra hc
    rw [(Share.recoverCommit_eq_none_iff (q := q) _ t ht).mpr (not_le.mp hc)] at hr
    cases hr
  obtain ⟨r, h1, h2, h3⟩ := Share.recoverCommit_eq_of_onCurve (by omega) (sigPoly q commits h) t ht
    (sigPoly_degree_lt commits h t hlen) _ hon hcnt
  rw [h1, Option.some.injEq] at hr
  subst hr
  have hσ : (r : ZMod q) = ((commits.headD 0 : Nat) : ZMod q) * h := by rw [h3, sigPoly_coeff_zero]
  refine ⟨(eq_iff_cast_eq r (sign q (commits.headD 0) h) h2 (mul_lt hq _ _)).mpr (by rw [hσ, sign_cast]), ?_⟩
  simp only [Bls.verify, verifyPoint_iff hq, hσ]

/-- `RecoverCommit` refuses a sub-list of the valid partials with fewer than `t` distinct indices overall. -/
theorem recoverCommit_none_of_few (hq : 0 < q) (sg : SigGroup) (commits : List Nat) (h : Nat) (sigs : List Partial)
    (t : Nat) (ht : 1 ≤ t) (ps : List Share.Share) (hsub : ∀ s ∈ ps, s ∈ validShares q sg commits h sigs)
    (hfew : ((validShares q sg commits h sigs).map (·.I)).toFinset.card < t) :
    Share.recoverCommit q (ps.map some) t = none := by
  apply (Share.recoverCommit_eq_none_iff (q := q) _ t ht).mpr
  rw [validIdx_map_some _ (fun s hs => validShares_V_ne_none hq (hsub s hs))]
  refine lt_of_le_of_lt (Finset.card_le_card ?_) hfew
  intro i hi
  simp only [List.mem_toFinset, List.mem_map] at hi ⊢
  obtain ⟨s, hs, e⟩ := hi
  exact ⟨s, hsub s hs, e⟩

end Kyber.Bls
