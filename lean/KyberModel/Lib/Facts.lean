import KyberModel.Generated.Facts
import KyberModel.Groups.Edwards
import KyberModel.Groups.Weierstrass
/-
The constants extracted from the Go source on this run are the constants of the reference models
(all by kernel evaluation). A changed constant in /repo changes Generated/Facts.lean and breaks these.
-/
namespace Kyber.Facts
open Kyber Kyber.Gen.Facts

theorem ed25519_d_eq : ed25519_d = Ed25519.d := by decide +kernel
theorem ed25519_d2_eq : ed25519_d2 = (2 * Ed25519.d) % Ed25519.p := by decide +kernel
theorem ed25519_sqrtM1_eq : ed25519_sqrtM1 = Ed25519.sqrtM1 := by decide +kernel
theorem ed25519_order_eq : ed25519_primeOrder = Ed25519.L := by decide +kernel
theorem ed25519_lMinus2_eq : ed25519_lMinus2 = Ed25519.L - 2 := by decide +kernel

/-- The coded base point `baseext` (extended coordinates, Z ≠ 1) represents the model's base point:
    X = x·Z, Y = y·Z, X·Y = T·Z (mod p), Z ≠ 0. -/
theorem ed25519_base_rep :
    ed25519_baseZ % Ed25519.p ≠ 0
    ∧ ed25519_baseX % Ed25519.p = (Ed25519.base.x * ed25519_baseZ) % Ed25519.p
    ∧ ed25519_baseY % Ed25519.p = (Ed25519.base.y * ed25519_baseZ) % Ed25519.p
    ∧ (ed25519_baseX * ed25519_baseY) % Ed25519.p = (ed25519_baseT * ed25519_baseZ) % Ed25519.p := by
  decide +kernel

theorem bn256_p_eq : bn256_p = BN256.p := by decide +kernel
theorem bn256_order_eq : bn256_Order = BN256.n := by decide +kernel
theorem bn254_p_eq : bn254_p = BN254.p := by decide +kernel
theorem bn254_order_eq : bn254_Order = BN254.n := by decide +kernel

/-- BN parameterisation: p = 36u⁴+36u³+24u²+6u+1, n = 36u⁴+36u³+18u²+6u+1. -/
theorem bn256_param : bn256_p = 36 * bn256_u ^ 4 + 36 * bn256_u ^ 3 + 24 * bn256_u ^ 2 + 6 * bn256_u + 1
    ∧ bn256_Order = 36 * bn256_u ^ 4 + 36 * bn256_u ^ 3 + 18 * bn256_u ^ 2 + 6 * bn256_u + 1 := by
  decide +kernel
theorem bn254_param : bn254_p = 36 * bn254_u ^ 4 + 36 * bn254_u ^ 3 + 24 * bn254_u ^ 2 + 6 * bn254_u + 1
    ∧ bn254_Order = 36 * bn254_u ^ 4 + 36 * bn254_u ^ 3 + 18 * bn254_u ^ 2 + 6 * bn254_u + 1 := by
  decide +kernel

end Kyber.Facts
