import KyberModel.Drive.Grp
/-
Kernel-evaluated facts about the BN256 / BN254 twist models (own module: minutes of evaluation).
The generators are the ones the driver uses (`Drive/Grp.lean`, decoded from the bytes the Go code marshals).
-/
namespace Kyber.TwistFacts
open Kyber Kyber.Drive

def bn256Base : Fp2.Pt := (g2Ops BN256.twist BN256.n BN256.decG2 bn256G2Base).base
def bn254Base : Fp2.Pt := (g2Ops BN254.twist BN254.n BN254.decG2 bn254G2Base).base

/-- the generator as explicit coordinates (re, im) -/
def bn256BaseLit : Fp2.Pt := some ((64746500191241794695844075326670126197795977525365406531717464316923369116492, 21167961636542580255011770066570541300993051739349375019639421053990175267184), (17778617556404439934652658462602675281523610326338642107814333856843981424549, 20666913350058776956210519119118544732556678129809273996262322366050359951122))
theorem bn256_base_eq : bn256Base = bn256BaseLit := by decide +kernel

/-- the generator as explicit coordinates (re, im) -/
def bn254BaseLit : Fp2.Pt := some ((10857046999023057135944570762232829481370756359578518086990519993285655852781, 11559732032986387107991004021392285783925812861821192530917403151452391805634), (8495653923123431417604973247489272438418190587263600148770280649306958101930, 4082367875863433681332203403145435568316851327593401208105741076214120093531))
theorem bn254_base_eq : bn254Base = bn254BaseLit := by decide +kernel

theorem bn256_base_some : bn256Base.isSome = true := by decide +kernel
theorem bn254_base_some : bn254Base.isSome = true := by decide +kernel

theorem bn256_base_on : Fp2.onCurve BN256.twist bn256Base = true := by decide +kernel
theorem bn254_base_on : Fp2.onCurve BN254.twist bn254Base = true := by decide +kernel

/-- coordinates of the generators are reduced -/
def reducedPt (p : Nat) : Fp2.Pt → Bool
  | none => true
  | some (x, y) => decide (x.1 < p) && decide (x.2 < p) && decide (y.1 < p) && decide (y.2 < p)

theorem bn256_base_reduced : reducedPt BN256.twist.p bn256Base = true := by decide +kernel
theorem bn254_base_reduced : reducedPt BN254.twist.p bn254Base = true := by decide +kernel

set_option maxRecDepth 100000 in
theorem bn256_order : Fp2.smul BN256.twist BN256.n bn256Base = none := by decide +kernel
set_option maxRecDepth 100000 in
theorem bn254_order : Fp2.smul BN254.twist BN254.n bn254Base = none := by decide +kernel

theorem bn256_p34 : BN256.twist.p % 4 = 3 := by decide +kernel
theorem bn254_p34 : BN254.twist.p % 4 = 3 := by decide +kernel
theorem bn256_gt3 : 3 < BN256.twist.p := by decide +kernel
theorem bn254_gt3 : 3 < BN254.twist.p := by decide +kernel
theorem bn256_b_ne : ¬ (BN256.twist.b.1 % BN256.twist.p = 0 ∧ BN256.twist.b.2 % BN256.twist.p = 0) := by decide +kernel
theorem bn254_b_ne : ¬ (BN254.twist.b.1 % BN254.twist.p = 0 ∧ BN254.twist.b.2 % BN254.twist.p = 0) := by decide +kernel

end Kyber.TwistFacts
