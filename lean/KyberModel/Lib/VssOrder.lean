import KyberModel.Lib.VssLemmas
import KyberModel.Lib.VssRun
/-
Order independence of response processing in the VSS aggregators (both variants), and what it gives the Rabin
DKG: whether a deal ends certified does not depend on the order in which the responses of DIFFERENT verifiers
arrive. (For two conflicting responses of the SAME verifier it does — first wins — which is the recorded finding
`rabin_conflicting_responses_order_dependent`, Props/C11Rabin.lean; the hypothesis `Nodup` below is exactly what
that finding violates.)
-/
namespace Kyber.Vss

/-- A response as it reaches an aggregator: announced session, sender, verdict, signature valid?. -/
structure Resp where
  sid : Nat
  idx : Nat
  ap : Bool
  sg : Bool
deriving DecidableEq, Repr

/-- `verifyResponse` as a state transformer (a refused response changes nothing). -/
def respOp (cfg : Cfg) (a : Agg) (r : Resp) : Agg :=
  match verifyResponse cfg a r.sid r.idx r.ap r.sg with
  | .ok a' => a'
  | .error _ => a

/-- Will the response be recorded? -/
def acc (cfg : Cfg) (a : Agg) (r : Resp) : Bool :=
  r.sg && respSidOk cfg a r.sid && decide (r.idx < cfg.n) && (a.responses.lookup r.idx).isNone

theorem respOp_eq (cfg : Cfg) (a : Agg) (r : Resp) :
    respOp cfg a r = if acc cfg a r then { a with responses := a.responses ++ [(r.idx, r.ap)] } else a := by
  unfold respOp verifyResponse addResponse acc
  by_cases h1 : respSidOk cfg a r.sid = true
  · by_cases h2 : cfg.n ≤ r.idx
    · have : ¬ r.idx < cfg.n := by omega
      simp [h1, h2, this]
    · have h2' : r.idx < cfg.n := by omega
      cases hsg : r.sg with
      | false => simp [h1, h2]
      | true =>
        cases hl : a.responses.lookup r.idx with
        | none => simp [h1, h2, h2', hl]
        | some b => simp [h1, h2, h2', hl]
  · have h1' : respSidOk cfg a r.sid = false := by simpa using h1
    simp [h1']

/-- The observable part of an aggregator: the response map as a function, and the other fields. -/
structure Eqv (a b : Agg) : Prop where
  look : ∀ i, a.responses.lookup i = b.responses.lookup i
  bad : a.badDealer = b.badDealer
  tmo : a.timeout = b.timeout
  t : a.t = b.t
  sid : a.sid = b.sid
  deal : a.deal = b.deal

theorem Eqv.refl (a : Agg) : Eqv a a := ⟨fun _ => rfl, rfl, rfl, rfl, rfl, rfl⟩
theorem Eqv.symm {a b : Agg} (h : Eqv a b) : Eqv b a :=
  ⟨fun i => (h.look i).symm, h.bad.symm, h.tmo.symm, h.t.symm, h.sid.symm, h.deal.symm⟩
theorem Eqv.trans {a b c : Agg} (h1 : Eqv a b) (h2 : Eqv b c) : Eqv a c :=
  ⟨fun i => (h1.look i).trans (h2.look i), h1.bad.trans h2.bad, h1.tmo.trans h2.tmo, h1.t.trans h2.t,
    h1.sid.trans h2.sid, h1.deal.trans h2.deal⟩

theorem acc_congr (cfg : Cfg) {a b : Agg} (h : Eqv a b) (r : Resp) : acc cfg a r = acc cfg b r := by
  unfold acc respSidOk
  rw [h.look r.idx, h.sid]

theorem respOp_look (cfg : Cfg) (a : Agg) (r : Resp) (i : Nat) :
    (respOp cfg a r).responses.lookup i =
      if acc cfg a r = true ∧ i = r.idx then some r.ap else a.responses.lookup i := by
  rw [respOp_eq]
  by_cases hacc : acc cfg a r = true
  · rw [if_pos hacc]
    simp only [lookup_append_single]
    have hnone : a.responses.lookup r.idx = none := by
      unfold acc at hacc
      simp only [Bool.and_eq_true, Option.isNone_iff_eq_none] at hacc
      exact hacc.2
    by_cases hi : i = r.idx
    · subst hi; simp [hacc, hnone]
    · simp [hi]
      cases a.responses.lookup i <;> simp [hi]
  · rw [if_neg hacc]
    simp [hacc]

theorem respOp_fields (cfg : Cfg) (a : Agg) (r : Resp) :
    (respOp cfg a r).badDealer = a.badDealer ∧ (respOp cfg a r).timeout = a.timeout ∧
    (respOp cfg a r).t = a.t ∧ (respOp cfg a r).sid = a.sid ∧ (respOp cfg a r).deal = a.deal := by
  rw [respOp_eq]
  split <;> exact ⟨rfl, rfl, rfl, rfl, rfl⟩

theorem respOp_congr (cfg : Cfg) {a b : Agg} (h : Eqv a b) (r : Resp) : Eqv (respOp cfg a r) (respOp cfg b r) := by
  obtain ⟨fa1, fa2, fa3, fa4, fa5⟩ := respOp_fields cfg a r
  obtain ⟨fb1, fb2, fb3, fb4, fb5⟩ := respOp_fields cfg b r
  refine ⟨?_, by rw [fa1, fb1, h.bad], by rw [fa2, fb2, h.tmo], by rw [fa3, fb3, h.t], by rw [fa4, fb4, h.sid],
    by rw [fa5, fb5, h.deal]⟩
  intro i
  rw [respOp_look, respOp_look, acc_congr cfg h r, h.look i]

theorem acc_after_other (cfg : Cfg) (a : Agg) (r r' : Resp) (hne : r.idx ≠ r'.idx) :
    acc cfg (respOp cfg a r) r' = acc cfg a r' := by
  unfold acc respSidOk
  rw [(respOp_fields cfg a r).2.2.2.1, respOp_look]
  have : ¬ (acc cfg a r = true ∧ r'.idx = r.idx) := fun h => hne h.2.symm
  rw [if_neg this]

theorem respOp_comm (cfg : Cfg) (a : Agg) (r r' : Resp) (hne : r.idx ≠ r'.idx) :
    Eqv (respOp cfg (respOp cfg a r) r') (respOp cfg (respOp cfg a r') r) := by
  obtain ⟨f1, f2, f3, f4, f5⟩ := respOp_fields cfg (respOp cfg a r) r'
  obtain ⟨g1, g2, g3, g4, g5⟩ := respOp_fields cfg (respOp cfg a r') r
  obtain ⟨x1, x2, x3, x4, x5⟩ := respOp_fields cfg a r
  obtain ⟨y1, y2, y3, y4, y5⟩ := respOp_fields cfg a r'
  refine ⟨?_, by rw [f1, g1, x1, y1], by rw [f2, g2, x2, y2], by rw [f3, g3, x3, y3], by rw [f4, g4, x4, y4],
    by rw [f5, g5, x5, y5]⟩
  intro i
  rw [respOp_look, respOp_look, respOp_look, respOp_look, acc_after_other cfg a r r' hne,
    acc_after_other cfg a r' r (Ne.symm hne)]
  by_cases h1 : acc cfg a r' = true ∧ i = r'.idx
  · have h2 : ¬ (acc cfg a r = true ∧ i = r.idx) := fun h => hne (h.2.symm.trans h1.2)
    rw [if_pos h1, if_neg h2, if_pos h1]
  · rw [if_neg h1]
    by_cases h2 : acc cfg a r = true ∧ i = r.idx
    · rw [if_pos h2, if_pos h2]
    · rw [if_neg h2, if_neg h2, if_neg h1]

theorem foldl_congr (cfg : Cfg) (l : List Resp) {a b : Agg} (h : Eqv a b) :
    Eqv (l.foldl (respOp cfg) a) (l.foldl (respOp cfg) b) := by
  induction l generalizing a b with
  | nil => exact h
  | cons r l ih => exact ih (respOp_congr cfg h r)

/-- **Responses of different verifiers can be processed in any order**: the resulting aggregators are
observably equal. -/
theorem foldl_perm (cfg : Cfg) {l₁ l₂ : List Resp} (hp : l₁.Perm l₂) (hnd : (l₁.map (·.idx)).Nodup) (a : Agg) :
    Eqv (l₁.foldl (respOp cfg) a) (l₂.foldl (respOp cfg) a) := by
  induction hp generalizing a with
  | nil => exact Eqv.refl _
  | cons x _ ih =>
    simp only [List.map_cons, List.nodup_cons] at hnd
    exact ih hnd.2 _
  | swap x y l =>
    simp only [List.map_cons, List.nodup_cons, List.mem_cons, not_or] at hnd
    simp only [List.foldl_cons]
    exact foldl_congr cfg l (respOp_comm cfg a y x (fun h => hnd.1.1 h))
  | trans h1 _ ih1 ih2 =>
    exact (ih1 hnd a).trans (ih2 ((h1.map _).nodup_iff.mp hnd) a)

/-! ### certification only sees the observable part -/

theorem countAbsent_congr {a b : Agg} (h : Eqv a b) (n : Nat) : countAbsent a n = countAbsent b n := by
  unfold countAbsent; simp only [h.look]
theorem countApproved_congr {a b : Agg} (h : Eqv a b) (n : Nat) : countApproved a n = countApproved b n := by
  unfold countApproved; simp only [h.look]
theorem anyComplaint_congr {a b : Agg} (h : Eqv a b) (n : Nat) : anyComplaint a n = anyComplaint b n := by
  unfold anyComplaint; simp only [h.look]

theorem approvedEntries_eq (cfg : Cfg) (a : Agg) (h : Inv cfg a) :
    (a.responses.filter (fun p => p.2)).length = countApproved a cfg.n :=
  le_antisymm (approvedEntries_le_countApproved a cfg.n h.1 h.2) (countApproved_le_approvedEntries a cfg.n)

theorem dealCertified_congr (cfg : Cfg) {a b : Agg} (h : Eqv a b) (ha : Inv cfg a) (hb : Inv cfg b) :
    dealCertified cfg a = dealCertified cfg b := by
  unfold dealCertified enoughApprovals
  rw [approvedEntries_eq cfg a ha, approvedEntries_eq cfg b hb, countApproved_congr h, countAbsent_congr h,
    anyComplaint_congr h, h.bad, h.tmo, h.t]

theorem respOp_inv (cfg : Cfg) (a : Agg) (r : Resp) (h : Inv cfg a) : Inv cfg (respOp cfg a r) := by
  unfold respOp
  split
  · rename_i a' hv; exact (verifyResponse_same hv).inv h
  · exact h

theorem foldl_inv (cfg : Cfg) (l : List Resp) (a : Agg) (h : Inv cfg a) : Inv cfg (l.foldl (respOp cfg) a) := by
  induction l generalizing a with
  | nil => exact h
  | cons r l ih => exact ih _ (respOp_inv cfg a r h)

/-- **Certification does not depend on the delivery order of the responses of different verifiers** — valid,
forged, out-of-range, for another session, approvals and complaints alike. -/
theorem certified_order_independent (cfg : Cfg) (a : Agg) (h : Inv cfg a) {l₁ l₂ : List Resp} (hp : l₁.Perm l₂)
    (hnd : (l₁.map (·.idx)).Nodup) :
    dealCertified cfg (l₁.foldl (respOp cfg) a) = dealCertified cfg (l₂.foldl (respOp cfg) a) :=
  dealCertified_congr cfg (foldl_perm cfg hp hnd a) (foldl_inv cfg l₁ a h) (foldl_inv cfg l₂ a h)

/-- The transformer is what the verifier's `ProcessResponse` does to its aggregator (Rabin; Pedersen once a deal
    is there). -/
theorem step_response_agg (cfg : Cfg) (me : Nat) (a : Agg) (r : Resp)
    (h : cfg.variant = .rabin ∨ a.deal.isSome = true) :
    (step cfg ⟨.verifier me, some a⟩ (.response r.sid r.idx r.ap r.sg)).1 = ⟨.verifier me, some (respOp cfg a r)⟩ := by
  have hc : (cfg.variant == Variant.pedersen && a.deal.isNone) = false := by
    rcases h with h | h
    · rw [h]; rfl
    · cases hd : a.deal with
      | none => rw [hd] at h; cases h
      | some _ => simp
  simp only [step, hc, Bool.false_eq_true, if_false]
  unfold respOp
  cases verifyResponse cfg a r.sid r.idx r.ap r.sg <;> rfl

end Kyber.Vss
