import KyberModel.Groups.HashToCurve
import KyberModel.Lib.Decode
import KyberModel.Lib.Ed25519
import Mathlib.NumberTheory.LegendreSymbol.QuadraticReciprocity
import Mathlib.Tactic.LinearCombination
import Mathlib.Tactic.FieldSimp
import Mathlib.Tactic.Ring
/-
The Elligator 2 map of `Groups/HashToCurve.lean` lands on Curve25519 (field-level lemma for C17):
for EVERY `u`, the output `(xn, xd, y, 1)` of `ell2 u` satisfies the Montgomery equation
`y²·xd³ = xn³ + J·xn²·xd + xn·xd²` in `ZMod p`, and `xd ≠ 0`.
Ingredients: `2` is a non-residue (`p ≡ 5 mod 8`, so `xd = 1 + 2u² ≠ 0`), Fermat's little theorem
(`(gxd⁷·gx1)^((p-1)/4)` is a fourth root of unity), `c3² = -1`, `c2² = 2·c3`.
-/
namespace Kyber.EllLib

variable {F : Type*} [Field F]

/-- Montgomery curve equation in the projective form used by RFC 9380 §G.2.1:
    `y²·xd³ = xn³ + J·xn²·xd + xn·xd²`. -/
def MontProj (J xn xd y : F) : Prop := y ^ 2 * xd ^ 3 = xn ^ 3 + J * xn ^ 2 * xd + xn * xd ^ 2

/-- The algebra of the Elligator 2 branches. `A = Y11²·gxd = ζ·gx1` with `ζ⁴ = 1` (when `gx1 ≠ 0`):
    * if `Y1²·gxd = gx1` for the selected `Y1 ∈ {Y11, Y11·c3}` the first candidate is on the curve;
    * otherwise `ζ² = -1`, and `Y21 = Y11·U·c2` or `Y21·c3` is a root for `x2 = x1·2U²`. -/
theorem ell2_branches (U J c2 c3 Y11 ζ : F) (hc3 : c3 ^ 2 = -1) (hc2 : c2 ^ 2 = 2 * c3)
    (_hxd : 1 + 2 * U ^ 2 ≠ 0)
    (hA : Y11 ^ 2 * (1 + 2 * U ^ 2) ^ 3 =
      ζ * ((-J) ^ 3 + J * (-J) ^ 2 * (1 + 2 * U ^ 2) + (-J) * (1 + 2 * U ^ 2) ^ 2))
    (hζ : ((-J) ^ 3 + J * (-J) ^ 2 * (1 + 2 * U ^ 2) + (-J) * (1 + 2 * U ^ 2) ^ 2) ≠ 0 → ζ ^ 4 = 1) :
    let xd := 1 + 2 * U ^ 2
    let gx1 := (-J) ^ 3 + J * (-J) ^ 2 * xd + (-J) * xd ^ 2
    let gx2 := gx1 * (2 * U ^ 2)
    let Y12 := Y11 * c3
    let Y21 := Y11 * U * c2
    let Y22 := Y21 * c3
    (∀ Y1, (Y1 = Y11 ∨ Y1 = Y12) → Y1 ^ 2 * xd ^ 3 = gx1 → MontProj J (-J) xd Y1) ∧
    (Y11 ^ 2 * xd ^ 3 ≠ gx1 → Y12 ^ 2 * xd ^ 3 ≠ gx1 →
      (Y21 ^ 2 * xd ^ 3 = gx2 → MontProj J ((-J) * (2 * U ^ 2)) xd Y21) ∧
      (Y21 ^ 2 * xd ^ 3 ≠ gx2 → MontProj J ((-J) * (2 * U ^ 2)) xd Y22)) := by
  intro xd gx1 gx2 Y12 Y21 Y22
  have hgx2 : ((-J) * (2 * U ^ 2)) ^ 3 + J * ((-J) * (2 * U ^ 2)) ^ 2 * xd + ((-J) * (2 * U ^ 2)) * xd ^ 2 = gx2 := by
    simp only [gx2, gx1, xd]; ring
  refine ⟨?_, ?_⟩
  · intro Y1 _ h
    unfold MontProj
    rw [h]
  · intro h1 h2
    -- ζ ≠ ±1 and gx1 ≠ 0
    have hA' : Y11 ^ 2 * xd ^ 3 = ζ * gx1 := hA
    have hg : gx1 ≠ 0 := by
      intro h0
      apply h1
      rw [hA', h0]; ring
    have hz1 : ζ ≠ 1 := by
      intro h; apply h1; rw [hA', h]; ring
    have hzm1 : ζ ≠ -1 := by
      intro h; apply h2
      have : Y12 ^ 2 * xd ^ 3 = c3 ^ 2 * (Y11 ^ 2 * xd ^ 3) := by simp only [Y12]; ring
      rw [this, hA', hc3, h]; ring
    have hz4 := hζ hg
    have hz2 : ζ ^ 2 = -1 := by
      have h3 : (ζ ^ 2 - 1) * (ζ ^ 2 + 1) = 0 := by linear_combination hz4
      rcases mul_eq_zero.mp h3 with h4 | h4
      · exfalso
        have h5 : (ζ - 1) * (ζ + 1) = 0 := by linear_combination h4
        rcases mul_eq_zero.mp h5 with h6 | h6
        · exact hz1 (by linear_combination h6)
        · exact hzm1 (by linear_combination h6)
      · linear_combination h4
    have hY21 : Y21 ^ 2 * xd ^ 3 = (ζ * c3) * gx2 := by
      have : Y21 ^ 2 * xd ^ 3 = (Y11 ^ 2 * xd ^ 3) * U ^ 2 * c2 ^ 2 := by simp only [Y21]; ring
      rw [this, hA', hc2]; simp only [gx2]; ring
    have hzc : (ζ * c3) ^ 2 = 1 := by rw [mul_pow, hz2, hc3]; ring
    refine ⟨?_, ?_⟩
    · intro h
      unfold MontProj
      rw [h, hgx2]
    · intro h
      unfold MontProj
      rw [hgx2]
      have h5 : (ζ * c3 - 1) * (ζ * c3 + 1) = 0 := by linear_combination hzc
      rcases mul_eq_zero.mp h5 with h6 | h6
      · exfalso; apply h
        rw [hY21]
        have : ζ * c3 = 1 := by linear_combination h6
        rw [this]; ring
      · have hm : ζ * c3 = -1 := by linear_combination h6
        have : Y22 ^ 2 * xd ^ 3 = c3 ^ 2 * (Y21 ^ 2 * xd ^ 3) := by simp only [Y22]; ring
        rw [this, hY21, hc3, hm]; ring


/-! ### Instantiation for the executable `ell2` over `ZMod p` -/
open Kyber Kyber.Ed25519 Kyber.H2C Kyber.H2C.Ell2 Kyber.DecodeLib Kyber.EdLaw

local notation "Fq" => ZMod Kyber.Ed25519.p

theorem p_mod8 : p % 8 = 5 := by decide +kernel
theorem p_ne_two : p ≠ 2 := by decide +kernel
theorem exp_c4 : 2 * c4 + 1 = (p - 1) / 4 := by decide +kernel
theorem exp_four : 4 * ((p - 1) / 4) = p - 1 := by decide +kernel

theorem c3_sq : ((c3 : Nat) : Fq) ^ 2 = -1 := ed_sqrtM1_sq

theorem c2_sq : ((c2 : Nat) : Fq) ^ 2 = 2 * ((c3 : Nat) : Fq) := by
  have h : (c2 * c2) % p = (2 * c3) % p := by decide +kernel
  have := (mod_eq_iff_cast p _ _).mp h
  push_cast at this
  linear_combination this

/-- `2` is not a square modulo `p`, hence `1 + 2u² ≠ 0`. -/
theorem xd_ne_zero (U : Fq) : 1 + 2 * U ^ 2 ≠ 0 := by
  intro h
  have hU : U ≠ 0 := by
    intro h0; rw [h0] at h; simp at h
  have h2 : IsSquare (2 : Fq) := by
    refine ⟨((c3 : Nat) : Fq) * U⁻¹, ?_⟩
    have hc := c3_sq
    have e : ((c3 : Nat) : Fq) * U⁻¹ * (((c3 : Nat) : Fq) * U⁻¹) = ((c3 : Nat) : Fq) ^ 2 * (U ^ 2)⁻¹ := by ring
    rw [e, hc]
    have hU2 : U ^ 2 ≠ 0 := pow_ne_zero _ hU
    have h1 : 2 * U ^ 2 = -1 := by linear_combination h
    have : (2 : Fq) = 2 * U ^ 2 * (U ^ 2)⁻¹ := by rw [mul_assoc, mul_inv_cancel₀ hU2, mul_one]
    rw [this, h1]
  have := (ZMod.exists_sq_eq_two_iff p_ne_two).mp h2
  have hm := p_mod8
  omega

/-! Casts of the intermediate values. -/
theorem cast_tv1 (u : Nat) : ((tv1 u : Nat) : Fq) = 2 * (u : Fq) ^ 2 := by
  simp only [tv1, Nat.cast_mul, ZMod.natCast_mod]; push_cast; ring
theorem cast_xd (u : Nat) : ((xd u : Nat) : Fq) = 1 + 2 * (u : Fq) ^ 2 := by
  simp only [xd, Nat.cast_add, ZMod.natCast_mod, cast_tv1]; push_cast; ring
theorem cast_x1n : ((x1n : Nat) : Fq) = -((J : Nat) : Fq) := cast_negMod ed_p_pos J
theorem cast_gxd (u : Nat) : ((gxd u : Nat) : Fq) = (1 + 2 * (u : Fq) ^ 2) ^ 3 := by
  simp only [gxd, Nat.cast_mul, ZMod.natCast_mod, cast_xd]; ring
theorem cast_gx1 (u : Nat) : ((gx1 u : Nat) : Fq) =
    (-((J : Nat) : Fq)) ^ 3 + (J : Fq) * (-((J : Nat) : Fq)) ^ 2 * (1 + 2 * (u : Fq) ^ 2)
      + (-((J : Nat) : Fq)) * (1 + 2 * (u : Fq) ^ 2) ^ 2 := by
  simp only [gx1, Nat.cast_mul, Nat.cast_add, ZMod.natCast_mod, cast_xd, cast_tv1, cast_x1n]; ring
theorem cast_tpow (u : Nat) : ((tpow u : Nat) : Fq) = ((gxd u : Nat) : Fq) ^ 7 * ((gx1 u : Nat) : Fq) := by
  simp only [tpow, Nat.cast_mul, ZMod.natCast_mod]; ring
theorem cast_y11 (u : Nat) : ((y11 u : Nat) : Fq) =
    (((gxd u : Nat) : Fq) ^ 7 * ((gx1 u : Nat) : Fq)) ^ c4 * (((gxd u : Nat) : Fq) ^ 3 * ((gx1 u : Nat) : Fq)) := by
  simp only [y11, Nat.cast_mul, ZMod.natCast_mod, powMod_spec, cast_tpow]; ring
theorem cast_y12 (u : Nat) : ((y12 u : Nat) : Fq) = ((y11 u : Nat) : Fq) * ((c3 : Nat) : Fq) := by
  simp only [y12, Nat.cast_mul, ZMod.natCast_mod]
theorem cast_y21 (u : Nat) : ((y21 u : Nat) : Fq) = ((y11 u : Nat) : Fq) * (u : Fq) * ((c2 : Nat) : Fq) := by
  simp only [y21, Nat.cast_mul, ZMod.natCast_mod]
theorem cast_y22 (u : Nat) : ((y22 u : Nat) : Fq) = ((y21 u : Nat) : Fq) * ((c3 : Nat) : Fq) := by
  simp only [y22, Nat.cast_mul, ZMod.natCast_mod]
theorem cast_gx2 (u : Nat) : ((gx2 u : Nat) : Fq) = ((gx1 u : Nat) : Fq) * (2 * (u : Fq) ^ 2) := by
  simp only [gx2, Nat.cast_mul, ZMod.natCast_mod, cast_tv1]
theorem cast_x2n (u : Nat) : ((x2n u : Nat) : Fq) = (-((J : Nat) : Fq)) * (2 * (u : Fq) ^ 2) := by
  simp only [x2n, Nat.cast_mul, ZMod.natCast_mod, cast_tv1, cast_x1n]

theorem gx1_lt (u : Nat) : gx1 u < p := Nat.mod_lt _ ed_p_pos
theorem gx2_lt (u : Nat) : gx2 u < p := Nat.mod_lt _ ed_p_pos

/-- A branch test `a % p = b` (with `b` reduced) is the equality of the residues. -/
theorem test_iff (a b : Nat) (hb : b < p) : a % p = b ↔ ((a : Nat) : Fq) = (b : Fq) := by
  rw [← mod_eq_iff_cast, Nat.mod_eq_of_lt hb]

theorem e1_iff (u : Nat) : e1 u = true ↔ ((y11 u : Nat) : Fq) ^ 2 * ((gxd u : Nat) : Fq) = ((gx1 u : Nat) : Fq) := by
  unfold e1
  rw [decide_eq_true_iff, test_iff _ _ (gx1_lt u)]
  simp only [Nat.cast_mul, ZMod.natCast_mod, pow_two]
theorem e2_iff (u : Nat) : e2 u = true ↔ ((y21 u : Nat) : Fq) ^ 2 * ((gxd u : Nat) : Fq) = ((gx2 u : Nat) : Fq) := by
  unfold e2
  rw [decide_eq_true_iff, test_iff _ _ (gx2_lt u)]
  simp only [Nat.cast_mul, ZMod.natCast_mod, pow_two]
theorem e3_iff (u : Nat) : e3 u = true ↔ ((y1 u : Nat) : Fq) ^ 2 * ((gxd u : Nat) : Fq) = ((gx1 u : Nat) : Fq) := by
  unfold e3
  rw [decide_eq_true_iff, test_iff _ _ (gx1_lt u)]
  simp only [Nat.cast_mul, ZMod.natCast_mod, pow_two]

/-- The sign adjustment does not change the square. -/
theorem cast_y_sq (u : Nat) : ((Ell2.y u : Nat) : Fq) ^ 2 = ((ysel u : Nat) : Fq) ^ 2 := by
  unfold Ell2.y
  split_ifs
  · rw [cast_negMod ed_p_pos]; ring
  · rfl

/-- MAIN LEMMA: the output of the Elligator 2 map is on Curve25519 (projective Montgomery equation). -/
theorem ell2_onCurve (u : Nat) :
    MontProj ((J : Nat) : Fq) ((Ell2.xn u : Nat) : Fq) ((Ell2.xd u : Nat) : Fq) ((Ell2.y u : Nat) : Fq) ∧
    ((Ell2.xd u : Nat) : Fq) ≠ 0 := by
  have hxd := xd_ne_zero (u : Fq)
  refine ⟨?_, by rw [cast_xd]; exact hxd⟩
  -- ζ = (gxd⁷·gx1)^((p-1)/4)
  set T : Fq := ((gxd u : Nat) : Fq) ^ 7 * ((gx1 u : Nat) : Fq) with hT
  have hA : ((y11 u : Nat) : Fq) ^ 2 * (1 + 2 * (u : Fq) ^ 2) ^ 3 =
      T ^ ((p - 1) / 4) * ((-((J : Nat) : Fq)) ^ 3 + (J : Fq) * (-((J : Nat) : Fq)) ^ 2 * (1 + 2 * (u : Fq) ^ 2)
        + (-((J : Nat) : Fq)) * (1 + 2 * (u : Fq) ^ 2) ^ 2) := by
    rw [← cast_gx1, ← cast_gxd, cast_y11, ← exp_c4]
    have e : T ^ (2 * c4 + 1) = (T ^ c4) ^ 2 * T := by rw [pow_succ, Nat.mul_comm, pow_mul]
    rw [e, hT]; ring
  have hζ : ((-((J : Nat) : Fq)) ^ 3 + (J : Fq) * (-((J : Nat) : Fq)) ^ 2 * (1 + 2 * (u : Fq) ^ 2)
        + (-((J : Nat) : Fq)) * (1 + 2 * (u : Fq) ^ 2) ^ 2) ≠ 0 → (T ^ ((p - 1) / 4)) ^ 4 = 1 := by
    intro hg
    rw [← cast_gx1] at hg
    have hgxd : ((gxd u : Nat) : Fq) ≠ 0 := by rw [cast_gxd]; exact pow_ne_zero _ hxd
    have hT0 : T ≠ 0 := mul_ne_zero (pow_ne_zero _ hgxd) hg
    rw [← pow_mul, Nat.mul_comm, exp_four]
    exact ZMod.pow_card_sub_one_eq_one hT0
  obtain ⟨hB1, hB2⟩ := ell2_branches (u : Fq) ((J : Nat) : Fq) ((c2 : Nat) : Fq) ((c3 : Nat) : Fq)
    ((y11 u : Nat) : Fq) (T ^ ((p - 1) / 4)) c3_sq c2_sq hxd hA hζ
  unfold MontProj
  rw [cast_y_sq]
  by_cases h3 : e3 u = true
  · -- first candidate accepted
    have hsel : ysel u = y1 u := by unfold ysel; rw [if_pos h3]
    have hxn : Ell2.xn u = x1n := by unfold Ell2.xn; rw [if_pos h3]
    rw [hsel, hxn, cast_x1n, cast_xd]
    have h3' := (e3_iff u).mp h3
    rw [cast_gxd, cast_gx1] at h3'
    have hY1 : ((y1 u : Nat) : Fq) = ((y11 u : Nat) : Fq) ∨ ((y1 u : Nat) : Fq) = ((y11 u : Nat) : Fq) * ((c3 : Nat) : Fq) := by
      unfold y1
      split_ifs
      · left; rfl
      · right; exact cast_y12 u
    exact hB1 _ hY1 h3'
  · -- second candidate
    have hsel : ysel u = y2 u := by unfold ysel; rw [if_neg h3]
    have hxn : Ell2.xn u = x2n u := by unfold Ell2.xn; rw [if_neg h3]
    rw [hsel, hxn, cast_x2n, cast_xd]
    -- ¬e3 ⇒ neither y11 nor y12 is a root
    have hne1 : ¬ (e1 u = true) := by
      intro h1
      apply h3
      rw [e3_iff]
      have : y1 u = y11 u := by unfold y1; rw [if_pos h1]
      rw [this]; exact (e1_iff u).mp h1
    have hy1 : y1 u = y12 u := by unfold y1; rw [if_neg hne1]
    have hn1 : ((y11 u : Nat) : Fq) ^ 2 * (1 + 2 * (u : Fq) ^ 2) ^ 3 ≠
        (-((J : Nat) : Fq)) ^ 3 + (J : Fq) * (-((J : Nat) : Fq)) ^ 2 * (1 + 2 * (u : Fq) ^ 2)
          + (-((J : Nat) : Fq)) * (1 + 2 * (u : Fq) ^ 2) ^ 2 := by
      intro h; apply hne1; rw [e1_iff, cast_gxd, cast_gx1]; exact h
    have hn2 : (((y11 u : Nat) : Fq) * ((c3 : Nat) : Fq)) ^ 2 * (1 + 2 * (u : Fq) ^ 2) ^ 3 ≠
        (-((J : Nat) : Fq)) ^ 3 + (J : Fq) * (-((J : Nat) : Fq)) ^ 2 * (1 + 2 * (u : Fq) ^ 2)
          + (-((J : Nat) : Fq)) * (1 + 2 * (u : Fq) ^ 2) ^ 2 := by
      intro h; apply h3; rw [e3_iff, hy1, cast_y12, cast_gxd, cast_gx1]; exact h
    obtain ⟨hC1, hC2⟩ := hB2 hn1 hn2
    by_cases h2 : e2 u = true
    · have : y2 u = y21 u := by unfold y2; rw [if_pos h2]
      rw [this, cast_y21]
      apply hC1
      have h2' := (e2_iff u).mp h2
      rw [cast_gxd, cast_gx2, cast_gx1, cast_y21] at h2'
      exact h2'
    · have : y2 u = y22 u := by unfold y2; rw [if_neg h2]
      rw [this, cast_y22, cast_y21]
      apply hC2
      intro h
      apply h2
      rw [e2_iff, cast_gxd, cast_gx2, cast_gx1, cast_y21]
      exact h


/-! ### From Curve25519 to edwards25519 (RFC 9380 §G.2.2) -/

/-- The birational map in cross-multiplied form: with `xn = a·c`, `xd = b·y`, `yn = a - b`, `yd = a + b`
    a Montgomery point `(a/b, y)` goes to a point of `-x² + y² = 1 + d x² y²`. -/
theorem edwards_cross {F : Type*} [Field F] (a b y c d J : F) (hb : b ≠ 0)
    (h1 : y ^ 2 * b ^ 3 = a ^ 3 + J * a ^ 2 * b + a * b ^ 2) (h2 : c ^ 2 = -(J + 2))
    (h3 : d * (J + 2) = -(J - 2)) :
    -((a * c) ^ 2) * (a + b) ^ 2 + (a - b) ^ 2 * (b * y) ^ 2 =
      (b * y) ^ 2 * (a + b) ^ 2 + d * (a * c) ^ 2 * (a - b) ^ 2 := by
  have hmul : (-((a * c) ^ 2) * (a + b) ^ 2 + (a - b) ^ 2 * (b * y) ^ 2 -
      ((b * y) ^ 2 * (a + b) ^ 2 + d * (a * c) ^ 2 * (a - b) ^ 2)) * b = 0 := by
    linear_combination (-4 * a * b) * h1 + (-(a ^ 2 * b * (a + b) ^ 2) - d * a ^ 2 * b * (a - b) ^ 2) * h2
      + (a ^ 2 * b * (a - b) ^ 2) * h3
  have := (mul_eq_zero.mp hmul).resolve_right hb
  linear_combination this

/-- From the cross-multiplied equation to the affine twisted Edwards equation (`a = -1`). -/
theorem affine_of_cross {F : Type*} [Field F] (A B C D d : F) (hB : B ≠ 0) (hD : D ≠ 0)
    (h : -(A ^ 2) * D ^ 2 + C ^ 2 * B ^ 2 = B ^ 2 * D ^ 2 + d * A ^ 2 * C ^ 2) :
    -1 * (A * B⁻¹) ^ 2 + (C * D⁻¹) ^ 2 = 1 + d * (A * B⁻¹) ^ 2 * (C * D⁻¹) ^ 2 := by
  field_simp
  linear_combination h

theorem cEd_sq : ((cEd : Nat) : Fq) ^ 2 = -(((J : Nat) : Fq) + 2) := by
  have h : (cEd * cEd + J + 2) % p = 0 % p := by decide +kernel
  have := (mod_eq_iff_cast p _ _).mp h
  push_cast at this
  linear_combination this

theorem d_rel : ((d : Nat) : Fq) * (((J : Nat) : Fq) + 2) = -(((J : Nat) : Fq) - 2) := by
  have h : (d * (J + 2) + J) % p = 2 % p := by decide +kernel
  have := (mod_eq_iff_cast p _ _).mp h
  push_cast at this
  linear_combination this

/-- The Edwards point produced by `mapToEdwards` is a valid point of edwards25519, for every `u`. -/
theorem mapToEdwards_valid (u : Nat) : Valid (mapToEdwards u) := by
  have hp := ed_p_pos
  obtain ⟨hM, hb⟩ := ell2_onCurve u
  unfold mapToEdwards ell2
  simp only
  split_ifs with h0
  · exact valid_zero
  · -- non-exceptional: both denominators are non-zero
    set xdE := Ell2.xd u * Ell2.y u % p with hxdE
    set ydE := (Ell2.xn u + Ell2.xd u) % p with hydE
    have hprod : ((xdE : Nat) : Fq) * ((ydE : Nat) : Fq) ≠ 0 := by
      intro h
      apply h0
      have : ((xdE * ydE : Nat) : Fq) = ((0 : Nat) : Fq) := by push_cast; exact h
      have := (mod_eq_iff_cast p _ _).mpr this
      simpa using this
    have hxd0 : ((xdE : Nat) : Fq) ≠ 0 := left_ne_zero_of_mul hprod
    have hyd0 : ((ydE : Nat) : Fq) ≠ 0 := right_ne_zero_of_mul hprod
    refine ⟨Nat.mod_lt _ hp, Nat.mod_lt _ hp, ?_⟩
    simp only
    have h2lt : 2 < p := p_gt
    have hX : (((Ell2.xn u * 1 % p * cEd % p * invMod xdE p % p : Nat)) : Fq) =
        (((Ell2.xn u * 1 % p * cEd % p : Nat)) : Fq) * ((xdE : Nat) : Fq)⁻¹ := by
      rw [ZMod.natCast_mod, Nat.cast_mul, cast_invMod h2lt]
    have hY : ((subMod (Ell2.xn u) (Ell2.xd u) p * invMod ydE p % p : Nat) : Fq) =
        ((subMod (Ell2.xn u) (Ell2.xd u) p : Nat) : Fq) * ((ydE : Nat) : Fq)⁻¹ := by
      rw [ZMod.natCast_mod, Nat.cast_mul, cast_invMod h2lt]
    rw [hX, hY]
    have hxn : (((Ell2.xn u * 1 % p * cEd % p : Nat)) : Fq) = ((Ell2.xn u : Nat) : Fq) * ((cEd : Nat) : Fq) := by
      simp only [Nat.cast_mul, ZMod.natCast_mod, mul_one]
    have hxdc : ((xdE : Nat) : Fq) = ((Ell2.xd u : Nat) : Fq) * ((Ell2.y u : Nat) : Fq) := by
      rw [hxdE]; simp only [Nat.cast_mul, ZMod.natCast_mod]
    have hyn : ((subMod (Ell2.xn u) (Ell2.xd u) p : Nat) : Fq) = ((Ell2.xn u : Nat) : Fq) - ((Ell2.xd u : Nat) : Fq) :=
      cast_subMod hp _ _
    have hydc : ((ydE : Nat) : Fq) = ((Ell2.xn u : Nat) : Fq) + ((Ell2.xd u : Nat) : Fq) := by
      rw [hydE]; simp only [Nat.cast_add, ZMod.natCast_mod]
    have hcross := edwards_cross ((Ell2.xn u : Nat) : Fq) ((Ell2.xd u : Nat) : Fq) ((Ell2.y u : Nat) : Fq)
      ((cEd : Nat) : Fq) ((d : Nat) : Fq) ((J : Nat) : Fq) hb hM cEd_sq d_rel
    rw [hxn, hyn]
    rw [hxdc] at hxd0
    rw [hydc] at hyd0
    rw [hxdc, hydc]
    unfold OnCurve aF dF
    exact affine_of_cross _ _ _ _ _ hxd0 hyd0 hcross

end Kyber.EllLib
