import KyberModel.Lib.VssOrder
/-
Agreement on certification between two verifiers of the same deal (the step from "order independence at one node" to
"the honest nodes agree"): if every participant `j` has ONE verdict `v j` about the deal — what it records for itself
and what it broadcasts are the same thing — then the response map a node ends with is the function `j ↦ v j`, whatever
subset of the responses it had recorded before (its own verdict, the dealer's approval) and in whatever order the
others' responses arrive. Two nodes that have heard everybody hold the same map, hence the same verdict on the deal.
-/
namespace Kyber.Vss

/-- The recorded slots agree with the verdict function. -/
def Consistent (a : Agg) (v : Nat → Bool) : Prop := ∀ i b, a.responses.lookup i = some b → b = v i

theorem respOp_consistent (cfg : Cfg) (a : Agg) (v : Nat → Bool) (h : Consistent a v) (r : Resp) (hr : r.ap = v r.idx) :
    Consistent (respOp cfg a r) v := by
  intro i b hb
  rw [respOp_look] at hb
  by_cases hc : acc cfg a r = true ∧ i = r.idx
  · rw [if_pos hc] at hb
    rw [hc.2, ← hr]; exact (Option.some.inj hb).symm
  · rw [if_neg hc] at hb; exact h i b hb

theorem foldl_consistent (cfg : Cfg) (v : Nat → Bool) (l : List Resp) (hl : ∀ r ∈ l, r.ap = v r.idx) :
    ∀ a, Consistent a v → Consistent (l.foldl (respOp cfg) a) v := by
  induction l with
  | nil => intro a h; exact h
  | cons r l ih =>
    intro a h
    exact ih (fun x hx => hl x (List.mem_cons_of_mem _ hx)) _ (respOp_consistent cfg a v h r (hl r List.mem_cons_self))

/-- A slot that is filled stays filled. -/
theorem respOp_filled (cfg : Cfg) (a : Agg) (r : Resp) (i : Nat) (h : (a.responses.lookup i).isSome = true) :
    ((respOp cfg a r).responses.lookup i).isSome = true := by
  rw [respOp_look]
  split
  · rfl
  · exact h

theorem foldl_filled (cfg : Cfg) (l : List Resp) : ∀ a i, (a.responses.lookup i).isSome = true →
    ((l.foldl (respOp cfg) a).responses.lookup i).isSome = true := by
  induction l with
  | nil => intro a i h; exact h
  | cons r l ih => intro a i h; exact ih _ i (respOp_filled cfg a r i h)

/-- A valid response of the session fills its sender's slot (if it was empty). -/
theorem respOp_fills (cfg : Cfg) (a : Agg) (r : Resp) (hsg : r.sg = true) (hsid : respSidOk cfg a r.sid = true)
    (hlt : r.idx < cfg.n) : ((respOp cfg a r).responses.lookup r.idx).isSome = true := by
  rw [respOp_look]
  by_cases hn : (a.responses.lookup r.idx).isNone = true
  · have hacc : acc cfg a r = true := by unfold acc; simp [hsg, hsid, hlt, hn]
    rw [if_pos ⟨hacc, rfl⟩]; rfl
  · split
    · rfl
    · cases hl : a.responses.lookup r.idx with
      | none => rw [hl] at hn; exact absurd rfl hn
      | some _ => rfl

theorem respSidOk_respOp (cfg : Cfg) (a : Agg) (r : Resp) (sid : Nat) :
    respSidOk cfg (respOp cfg a r) sid = respSidOk cfg a sid := by
  unfold respSidOk; rw [(respOp_fields cfg a r).2.2.2.1]

theorem foldl_fills (cfg : Cfg) (l : List Resp) : ∀ a, (∀ r ∈ l, r.sg = true ∧ respSidOk cfg a r.sid = true ∧ r.idx < cfg.n) →
    ∀ r ∈ l, ((l.foldl (respOp cfg) a).responses.lookup r.idx).isSome = true := by
  induction l with
  | nil => intro a _ r hr; cases hr
  | cons x l ih =>
    intro a hall r hr
    simp only [List.foldl_cons]
    rcases List.mem_cons.mp hr with rfl | hr'
    · obtain ⟨h1, h2, h3⟩ := hall r List.mem_cons_self
      exact foldl_filled cfg l _ _ (respOp_fills cfg a r h1 h2 h3)
    · apply ih (respOp cfg a x) _ r hr'
      intro y hy
      obtain ⟨h1, h2, h3⟩ := hall y (List.mem_cons_of_mem _ hy)
      exact ⟨h1, by rw [respSidOk_respOp]; exact h2, h3⟩

/-- **Two nodes that have heard everybody agree.** Nodes A and B hold aggregators `a`, `b` for the same deal, each
consistent with the participants' verdicts `v` (e.g. holding their own verdict and the dealer's approval), agreeing on
the other fields; A then processes the responses `la`, B the responses `lb` (each list: valid responses of the session,
carrying their senders' verdicts, in any order, with repetitions), and afterwards each has heard of every participant.
Then their response maps are the same function and they reach the same verdict on the deal. -/
theorem heard_everybody_agree (cfg : Cfg) (v : Nat → Bool) (a b : Agg) (ha : Inv cfg a) (hb : Inv cfg b)
    (hca : Consistent a v) (hcb : Consistent b v)
    (hbad : a.badDealer = b.badDealer) (htmo : a.timeout = b.timeout) (ht : a.t = b.t)
    (la lb : List Resp) (hla : ∀ r ∈ la, r.ap = v r.idx) (hlb : ∀ r ∈ lb, r.ap = v r.idx)
    (hfa : ∀ i < cfg.n, ((la.foldl (respOp cfg) a).responses.lookup i).isSome = true)
    (hfb : ∀ i < cfg.n, ((lb.foldl (respOp cfg) b).responses.lookup i).isSome = true) :
    (∀ i < cfg.n, (la.foldl (respOp cfg) a).responses.lookup i = (lb.foldl (respOp cfg) b).responses.lookup i) ∧
    dealCertified cfg (la.foldl (respOp cfg) a) = dealCertified cfg (lb.foldl (respOp cfg) b) := by
  have hA := foldl_consistent cfg v la hla a hca
  have hB := foldl_consistent cfg v lb hlb b hcb
  have hlook : ∀ i < cfg.n, (la.foldl (respOp cfg) a).responses.lookup i = (lb.foldl (respOp cfg) b).responses.lookup i := by
    intro i hi
    cases h1 : (la.foldl (respOp cfg) a).responses.lookup i with
    | none => have := hfa i hi; rw [h1] at this; cases this
    | some x =>
      cases h2 : (lb.foldl (respOp cfg) b).responses.lookup i with
      | none => have := hfb i hi; rw [h2] at this; cases this
      | some y => rw [hA i x h1, hB i y h2]
  refine ⟨hlook, ?_⟩
  -- certification reads the map on `[0, n)` and the three fields only
  have iA := foldl_inv cfg la a ha
  have iB := foldl_inv cfg lb b hb
  have fA : ∀ (l : List Resp) (x : Agg), (l.foldl (respOp cfg) x).badDealer = x.badDealer ∧
      (l.foldl (respOp cfg) x).timeout = x.timeout ∧ (l.foldl (respOp cfg) x).t = x.t := by
    intro l
    induction l with
    | nil => intro x; exact ⟨rfl, rfl, rfl⟩
    | cons r l ih =>
      intro x
      obtain ⟨h1, h2, h3⟩ := ih (respOp cfg x r)
      obtain ⟨g1, g2, g3, _, _⟩ := respOp_fields cfg x r
      exact ⟨h1.trans g1, h2.trans g2, h3.trans g3⟩
  obtain ⟨a1, a2, a3⟩ := fA la a
  obtain ⟨b1, b2, b3⟩ := fA lb b
  have hcnt : ∀ (P : Option Bool → Bool),
      ((List.range cfg.n).filter (fun i => P ((la.foldl (respOp cfg) a).responses.lookup i))) =
      ((List.range cfg.n).filter (fun i => P ((lb.foldl (respOp cfg) b).responses.lookup i))) := by
    intro P
    apply List.filter_congr
    intro i hi
    rw [hlook i (List.mem_range.mp hi)]
  have hAbs : countAbsent (la.foldl (respOp cfg) a) cfg.n = countAbsent (lb.foldl (respOp cfg) b) cfg.n := by
    unfold countAbsent; rw [hcnt (fun o => o.isNone)]
  have hApp : countApproved (la.foldl (respOp cfg) a) cfg.n = countApproved (lb.foldl (respOp cfg) b) cfg.n := by
    unfold countApproved; rw [hcnt (fun o => o == some true)]
  have hAny : anyComplaint (la.foldl (respOp cfg) a) cfg.n = anyComplaint (lb.foldl (respOp cfg) b) cfg.n := by
    unfold anyComplaint
    rw [List.any_eq, List.any_eq]
    congr 1
    apply propext
    constructor
    · rintro ⟨i, hi, h⟩; exact ⟨i, hi, by rw [← hlook i (List.mem_range.mp hi)]; exact h⟩
    · rintro ⟨i, hi, h⟩; exact ⟨i, hi, by rw [hlook i (List.mem_range.mp hi)]; exact h⟩
  unfold dealCertified enoughApprovals
  rw [approvedEntries_eq cfg _ iA, approvedEntries_eq cfg _ iB, hApp, hAbs, hAny, a1, a2, a3, b1, b2, b3, hbad, htmo, ht]

/-- Having heard everybody, from the messages: every slot is filled already or the list holds a valid response of the
    session from that participant. -/
theorem all_heard (cfg : Cfg) (a : Agg) (l : List Resp)
    (hvalid : ∀ r ∈ l, r.sg = true ∧ respSidOk cfg a r.sid = true ∧ r.idx < cfg.n)
    (hcover : ∀ i < cfg.n, (a.responses.lookup i).isSome = true ∨ ∃ r ∈ l, r.idx = i) :
    ∀ i < cfg.n, ((l.foldl (respOp cfg) a).responses.lookup i).isSome = true := by
  intro i hi
  rcases hcover i hi with h | ⟨r, hr, hri⟩
  · exact foldl_filled cfg l a i h
  · rw [← hri]; exact foldl_fills cfg l a hvalid r hr

/-- `heard_everybody_agree` with "has heard everybody" discharged from the messages themselves. -/
theorem everybody_responds_agree (cfg : Cfg) (v : Nat → Bool) (a b : Agg) (ha : Inv cfg a) (hb : Inv cfg b)
    (hca : Consistent a v) (hcb : Consistent b v)
    (hbad : a.badDealer = b.badDealer) (htmo : a.timeout = b.timeout) (ht : a.t = b.t)
    (la lb : List Resp) (hla : ∀ r ∈ la, r.ap = v r.idx) (hlb : ∀ r ∈ lb, r.ap = v r.idx)
    (hva : ∀ r ∈ la, r.sg = true ∧ respSidOk cfg a r.sid = true ∧ r.idx < cfg.n)
    (hvb : ∀ r ∈ lb, r.sg = true ∧ respSidOk cfg b r.sid = true ∧ r.idx < cfg.n)
    (hcova : ∀ i < cfg.n, (a.responses.lookup i).isSome = true ∨ ∃ r ∈ la, r.idx = i)
    (hcovb : ∀ i < cfg.n, (b.responses.lookup i).isSome = true ∨ ∃ r ∈ lb, r.idx = i) :
    dealCertified cfg (la.foldl (respOp cfg) a) = dealCertified cfg (lb.foldl (respOp cfg) b) :=
  (heard_everybody_agree cfg v a b ha hb hca hcb hbad htmo ht la lb hla hlb
    (all_heard cfg a la hva hcova) (all_heard cfg b lb hvb hcovb)).2

end Kyber.Vss
