import KyberModel.Lib.EdwardsPoly
import Mathlib.Algebra.Field.Basic
import Mathlib.Algebra.Group.Even
import Mathlib.Tactic.FieldSimp
import Mathlib.Tactic.LinearCombination
import Mathlib.Algebra.Group.Defs
/-
Library E: the twisted Edwards group law from scratch (Mathlib has none).
Over a field with `2 ≠ 0`, for `a = α²` a square and `d` a non-square, the unified addition law on
`a x² + y² = 1 + d x² y²` is complete (denominators never vanish) and makes the curve points an abelian
group.
-/
namespace Kyber.EdLaw

variable {F : Type*} [Field F]

/-- Curve membership. -/
def OnCurve (a d x y : F) : Prop := a * x ^ 2 + y ^ 2 = 1 + d * x ^ 2 * y ^ 2

/-- Hypotheses under which the addition law is complete. -/
structure Complete (a d : F) : Prop where
  two_ne : (2 : F) ≠ 0
  a_sq : IsSquare a
  d_nonsq : ¬ IsSquare d

/-- Key lemma (Bernstein–Lange, Thm 3.3): on curve points, `(d x₁x₂y₁y₂)² ≠ 1`. -/
theorem denom_sq_ne_one {a d : F} (hc : Complete a d) {x1 y1 x2 y2 : F}
    (h1 : OnCurve a d x1 y1) (h2 : OnCurve a d x2 y2) :
    (d * x1 * x2 * y1 * y2) ^ 2 ≠ 1 := by
  intro hε2
  obtain ⟨α, hα⟩ := hc.a_sq
  unfold OnCurve at h1 h2
  have hεne : d * x1 * x2 * y1 * y2 ≠ 0 := by
    intro h0; rw [h0] at hε2; simp at hε2
  have hx1 : x1 ≠ 0 := by
    intro h; apply hεne; rw [h]; ring
  have hy1 : y1 ≠ 0 := by
    intro h; apply hεne; rw [h]; ring
  -- (α x1 ± ε y1)² = d (x1 y1 (α x2 ± y2))²
  have keyp : (α * x1 + (d * x1 * x2 * y1 * y2) * y1) ^ 2 = d * (x1 * y1 * (α * x2 + y2)) ^ 2 := by
    subst hα
    linear_combination 1 * h1 + (-(d * x1 ^ 2 * y1 ^ 2)) * h2 + (y1 ^ 2 - 1) * hε2
  have keym : (α * x1 - (d * x1 * x2 * y1 * y2) * y1) ^ 2 = d * (x1 * y1 * (α * x2 - y2)) ^ 2 := by
    subst hα
    linear_combination 1 * h1 + (-(d * x1 ^ 2 * y1 ^ 2)) * h2 + (y1 ^ 2 - 1) * hε2
  by_cases hp : α * x2 + y2 = 0
  · by_cases hm : α * x2 - y2 = 0
    · -- then y2 = 0, so ε = 0
      have : (2 : F) * y2 = 0 := by linear_combination hp - hm
      have hy2 : y2 = 0 := by
        rcases mul_eq_zero.mp this with h | h
        · exact absurd h hc.two_ne
        · exact h
      apply hεne; rw [hy2]; ring
    · apply hc.d_nonsq
      have hne : x1 * y1 * (α * x2 - y2) ≠ 0 := mul_ne_zero (mul_ne_zero hx1 hy1) hm
      refine ⟨(α * x1 - (d * x1 * x2 * y1 * y2) * y1) / (x1 * y1 * (α * x2 - y2)), ?_⟩
      rw [div_mul_div_comm, eq_div_iff (mul_ne_zero hne hne)]
      linear_combination -keym
  · apply hc.d_nonsq
    have hne : x1 * y1 * (α * x2 + y2) ≠ 0 := mul_ne_zero (mul_ne_zero hx1 hy1) hp
    refine ⟨(α * x1 + (d * x1 * x2 * y1 * y2) * y1) / (x1 * y1 * (α * x2 + y2)), ?_⟩
    rw [div_mul_div_comm, eq_div_iff (mul_ne_zero hne hne)]
    linear_combination -keyp

theorem one_add_ne_zero {a d : F} (hc : Complete a d) {x1 y1 x2 y2 : F}
    (h1 : OnCurve a d x1 y1) (h2 : OnCurve a d x2 y2) : 1 + d * x1 * x2 * y1 * y2 ≠ 0 := by
  intro h
  apply denom_sq_ne_one hc h1 h2
  have : d * x1 * x2 * y1 * y2 = -1 := by linear_combination h
  rw [this]; ring

theorem one_sub_ne_zero {a d : F} (hc : Complete a d) {x1 y1 x2 y2 : F}
    (h1 : OnCurve a d x1 y1) (h2 : OnCurve a d x2 y2) : 1 - d * x1 * x2 * y1 * y2 ≠ 0 := by
  intro h
  apply denom_sq_ne_one hc h1 h2
  have : d * x1 * x2 * y1 * y2 = 1 := by linear_combination -h
  rw [this]; ring

/-- The addition formulas. -/
def addX (d x1 y1 x2 y2 : F) : F := (x1 * y2 + y1 * x2) / (1 + d * x1 * x2 * y1 * y2)
def addY (a d x1 y1 x2 y2 : F) : F := (y1 * y2 - a * x1 * x2) / (1 - d * x1 * x2 * y1 * y2)

/-- Closure: the sum of two curve points is on the curve. -/
theorem add_onCurve {a d : F} (hc : Complete a d) {x1 y1 x2 y2 : F}
    (h1 : OnCurve a d x1 y1) (h2 : OnCurve a d x2 y2) :
    OnCurve a d (addX d x1 y1 x2 y2) (addY a d x1 y1 x2 y2) := by
  have hp := one_add_ne_zero hc h1 h2
  have hm := one_sub_ne_zero hc h1 h2
  have key := closure_poly x1 y1 x2 y2 a d h1 h2
  unfold OnCurve addX addY
  obtain ⟨A, hA⟩ : ∃ A, A = 1 + d * x1 * x2 * y1 * y2 := ⟨_, rfl⟩
  obtain ⟨B, hB⟩ : ∃ B, B = 1 - d * x1 * x2 * y1 * y2 := ⟨_, rfl⟩
  rw [← hA] at hp ⊢
  rw [← hB] at hm ⊢
  field_simp
  subst hA hB
  linear_combination key

/-! ### Sums of fractions (no hypothesis on the new denominator is needed) -/

theorem addX_frac_left (d n1 A n2 B x3 y3 : F) (hA : A ≠ 0) (hB : B ≠ 0) :
    addX d (n1 / A) (n2 / B) x3 y3 = (n1 * B * y3 + n2 * A * x3) / (A * B + d * n1 * n2 * x3 * y3) := by
  have h1 : n1 / A * y3 + n2 / B * x3 = (n1 * B * y3 + n2 * A * x3) / (A * B) := by field_simp
  have h2 : 1 + d * (n1 / A) * x3 * (n2 / B) * y3 = (A * B + d * n1 * n2 * x3 * y3) / (A * B) := by
    field_simp
  rw [addX, h1, h2, div_div_div_cancel_right₀ (mul_ne_zero hA hB)]

theorem addY_frac_left (a d n1 A n2 B x3 y3 : F) (hA : A ≠ 0) (hB : B ≠ 0) :
    addY a d (n1 / A) (n2 / B) x3 y3
      = (n2 * A * y3 - a * n1 * B * x3) / (A * B - d * n1 * n2 * x3 * y3) := by
  have h1 : n2 / B * y3 - a * (n1 / A) * x3 = (n2 * A * y3 - a * n1 * B * x3) / (A * B) := by field_simp
  have h2 : 1 - d * (n1 / A) * x3 * (n2 / B) * y3 = (A * B - d * n1 * n2 * x3 * y3) / (A * B) := by
    field_simp
  rw [addY, h1, h2, div_div_div_cancel_right₀ (mul_ne_zero hA hB)]

theorem addX_frac_right (d x1 y1 n1 A n2 B : F) (hA : A ≠ 0) (hB : B ≠ 0) :
    addX d x1 y1 (n1 / A) (n2 / B) = (x1 * n2 * A + y1 * n1 * B) / (A * B + d * x1 * y1 * n1 * n2) := by
  have h1 : x1 * (n2 / B) + y1 * (n1 / A) = (x1 * n2 * A + y1 * n1 * B) / (A * B) := by field_simp
  have h2 : 1 + d * x1 * (n1 / A) * y1 * (n2 / B) = (A * B + d * x1 * y1 * n1 * n2) / (A * B) := by
    field_simp
  rw [addX, h1, h2, div_div_div_cancel_right₀ (mul_ne_zero hA hB)]

theorem addY_frac_right (a d x1 y1 n1 A n2 B : F) (hA : A ≠ 0) (hB : B ≠ 0) :
    addY a d x1 y1 (n1 / A) (n2 / B)
      = (y1 * n2 * A - a * x1 * n1 * B) / (A * B - d * x1 * y1 * n1 * n2) := by
  have h1 : y1 * (n2 / B) - a * x1 * (n1 / A) = (y1 * n2 * A - a * x1 * n1 * B) / (A * B) := by field_simp
  have h2 : 1 - d * x1 * (n1 / A) * y1 * (n2 / B) = (A * B - d * x1 * y1 * n1 * n2) / (A * B) := by
    field_simp
  rw [addY, h1, h2, div_div_div_cancel_right₀ (mul_ne_zero hA hB)]

end Kyber.EdLaw
