import KyberModel.Core.Arith
import KyberModel.Lib.PowMod
import Mathlib.FieldTheory.Finite.Basic
/-
Casting the core modular helpers (`subMod`, `negMod`, `invMod`) into `ZMod p`.
-/
namespace Kyber

variable {p : Nat}

theorem subMod_lt (hp : 0 < p) (a b : Nat) : subMod a b p < p := Nat.mod_lt _ hp
theorem negMod_lt (hp : 0 < p) (a : Nat) : negMod a p < p := Nat.mod_lt _ hp
theorem invMod_lt (hp : 1 < p) (a : Nat) : invMod a p < p := powMod_lt _ _ _ hp

theorem cast_negMod (hp : 0 < p) (a : Nat) : ((negMod a p : Nat) : ZMod p) = -(a : ZMod p) := by
  have hlt : a % p < p := Nat.mod_lt _ hp
  simp only [negMod, ZMod.natCast_mod]
  rw [Nat.cast_sub (le_of_lt hlt)]
  simp [ZMod.natCast_mod]

theorem cast_subMod (hp : 0 < p) (a b : Nat) :
    ((subMod a b p : Nat) : ZMod p) = (a : ZMod p) - (b : ZMod p) := by
  have hlt : b % p < p := Nat.mod_lt _ hp
  simp only [subMod, ZMod.natCast_mod, Nat.cast_add]
  rw [Nat.cast_sub (le_of_lt hlt)]
  simp [ZMod.natCast_mod, sub_eq_add_neg]

theorem cast_invMod [hp : Fact p.Prime] (h2 : 2 < p) (a : Nat) :
    ((invMod a p : Nat) : ZMod p) = (a : ZMod p)⁻¹ := by
  unfold invMod
  rw [powMod_spec]
  by_cases h : (a : ZMod p) = 0
  · have h2' : p - 2 ≠ 0 := by omega
    simp [h, h2']
  · have hcard : (a : ZMod p) ^ (p - 1) = 1 := ZMod.pow_card_sub_one_eq_one h
    have : (a : ZMod p) ^ (p - 2) * (a : ZMod p) = 1 := by
      rw [← pow_succ]
      have : p - 2 + 1 = p - 1 := by omega
      rw [this, hcard]
    exact eq_inv_of_mul_eq_one_left this

/-- Reduced naturals are equal iff their residues are. -/
theorem eq_of_cast_eq {a b : Nat} (ha : a < p) (hb : b < p) (h : (a : ZMod p) = (b : ZMod p)) : a = b := by
  have := (ZMod.natCast_eq_natCast_iff' _ _ _).mp h
  rwa [Nat.mod_eq_of_lt ha, Nat.mod_eq_of_lt hb] at this

end Kyber
