import Mathlib.LinearAlgebra.BilinearMap
import Mathlib.Algebra.Field.ZMod
import Mathlib.Algebra.Module.Basic
import Mathlib.Algebra.Module.Torsion.Field
/-
Abstract pairings (C06, used by C09): G1, G2, GT are modules over `ZMod q` (groups of prime order `q`,
all written additively as kyber does — `GT.Add` is the field multiplication, `GT.Mul(s,·)` the
exponentiation). The hypothesis `H_bilinear` of DESIGN §3 is the argument
`e : G1 →ₗ[ZMod q] G2 →ₗ[ZMod q] GT`; non-degeneracy is the explicit hypothesis `e B₁ B₂ ≠ 0`.
-/
namespace Kyber.Pairing

variable {q : ℕ} {G1 G2 GT : Type*} [AddCommGroup G1] [AddCommGroup G2] [AddCommGroup GT]
  [Module (ZMod q) G1] [Module (ZMod q) G2] [Module (ZMod q) GT]

/-- A pair with the identity on either side is the identity of GT, the rest is `e`
    (kilic's `AddPair` skips such pairs). -/
noncomputable def kilicTermA (e : G1 →ₗ[ZMod q] G2 →ₗ[ZMod q] GT) (P : G1) (Q : G2) : GT :=
  open Classical in if P = 0 ∨ Q = 0 then 0 else e P Q

theorem kilicTermA_eq (e : G1 →ₗ[ZMod q] G2 →ₗ[ZMod q] GT) (P : G1) (Q : G2) : kilicTermA e P Q = e P Q := by
  unfold kilicTermA
  split
  · next h => rcases h with h | h <;> simp [h]
  · rfl

/-- `e(p1,p2)·e(−i1,i2) = 1` (additively) says the two pairings agree. -/
theorem product_form_iff (e : G1 →ₗ[ZMod q] G2 →ₗ[ZMod q] GT) (p1 i1 : G1) (p2 i2 : G2) :
    e p1 p2 + e (-i1) i2 = 0 ↔ e p1 p2 = e i1 i2 := by
  rw [map_neg, LinearMap.neg_apply, add_neg_eq_zero]

/-- A generator pairs non-trivially, hence `P ↦ e(P, B₂)` is injective on the cyclic group `⟨B₁⟩`. -/
theorem nondeg_left [Fact q.Prime] (e : G1 →ₗ[ZMod q] G2 →ₗ[ZMod q] GT) (B1 : G1) (B2 : G2)
    (hB : e B1 B2 ≠ 0) (hgen : ∀ P : G1, ∃ a : ZMod q, P = a • B1) (P : G1) (h : e P B2 = 0) : P = 0 := by
  obtain ⟨a, rfl⟩ := hgen P
  rw [map_smul, LinearMap.smul_apply, smul_eq_zero] at h
  rcases h with h | h
  · rw [h, zero_smul]
  · exact absurd h hB

theorem nondeg_right [Fact q.Prime] (e : G1 →ₗ[ZMod q] G2 →ₗ[ZMod q] GT) (B1 : G1) (B2 : G2)
    (hB : e B1 B2 ≠ 0) (hgen : ∀ Q : G2, ∃ b : ZMod q, Q = b • B2) (Q : G2) (h : e B1 Q = 0) : Q = 0 := by
  obtain ⟨b, rfl⟩ := hgen Q
  rw [map_smul, smul_eq_zero] at h
  rcases h with h | h
  · rw [h, zero_smul]
  · exact absurd h hB

end Kyber.Pairing
