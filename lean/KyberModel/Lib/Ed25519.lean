import KyberModel.Groups.Edwards
import KyberModel.Lib.EdwardsGroup
import KyberModel.Lib.ModCast
import KyberModel.Lib.Primes
import KyberModel.Lib.Ed25519Facts
import Mathlib.NumberTheory.LegendreSymbol.Basic
/-
The executable Ed25519 model (`Groups/Edwards.lean`, naturals mod p) is the twisted Edwards group of
`Lib/EdwardsGroup.lean` over `ZMod p`: its parameters satisfy the completeness hypotheses, and
`add` / `neg` / `smul` are the group operations on residues.
-/
namespace Kyber.Ed25519
open Kyber Kyber.Edwards Kyber.EdLaw

instance fact_p : Fact (Nat.Prime p) := ⟨p_prime⟩

abbrev Fp := ZMod p
def aF : Fp := -1
def dF : Fp := (d : Fp)

theorem p_gt : 2 < p := by decide +kernel
theorem p_pos : 0 < p := by have := p_gt; omega

theorem cast_a : ((curve.a : Nat) : Fp) = aF := by
  have h : curve.a = p - 1 := rfl
  rw [h, Nat.cast_sub (by have := p_gt; omega)]
  simp [aF]

/-- `-1 = sqrtM1²`, `d` is a non-square (Euler's criterion), `2 ≠ 0`. -/
theorem complete : Complete aF dF where
  two_ne := by
    intro h
    have h2 : ((2 : Nat) : Fp) = 0 := by exact_mod_cast h
    rw [ZMod.natCast_eq_zero_iff] at h2
    have := Nat.le_of_dvd (by norm_num) h2
    have := p_gt
    omega
  a_sq := by
    refine ⟨(sqrtM1 : Fp), ?_⟩
    have h : (sqrtM1 * sqrtM1 + 1) % p = 0 := by decide +kernel
    have h2 : ((sqrtM1 * sqrtM1 + 1 : Nat) : Fp) = 0 := by
      rw [ZMod.natCast_eq_zero_iff]; exact Nat.dvd_of_mod_eq_zero h
    push_cast at h2
    unfold aF
    linear_combination -h2
  d_nonsq := by
    intro hsq
    have hd0 : dF ≠ 0 := by
      intro h0
      unfold dF at h0
      rw [ZMod.natCast_eq_zero_iff] at h0
      have : d % p = 0 := Nat.mod_eq_zero_of_dvd h0
      revert this; decide +kernel
    have hE := (ZMod.euler_criterion (p := p) hd0).mp hsq
    have hpow : powMod d (p / 2) p = p - 1 := by decide +kernel
    have hc : ((powMod d (p / 2) p : Nat) : Fp) = dF ^ (p / 2) := powMod_spec d (p / 2) p
    rw [hpow, hE] at hc
    have h1 : ((p - 1 : Nat) : Fp) = -1 := by
      rw [Nat.cast_sub (by have := p_gt; omega)]; simp
    rw [h1] at hc
    have h2 : (2 : Fp) = 0 := by linear_combination -hc
    have h2' : ((2 : Nat) : Fp) = 0 := by exact_mod_cast h2
    rw [ZMod.natCast_eq_zero_iff] at h2'
    have := Nat.le_of_dvd (by norm_num) h2'
    have := p_gt
    omega

instance fact_complete : Fact (Complete aF dF) := ⟨complete⟩

/-- The group of curve points over `ZMod p`. -/
abbrev G := EdLaw.Point aF dF

/-! ### The executable operations are the field formulas -/

theorem add_x_cast (P Q : Pt) :
    (((add P Q).x : Nat) : Fp) = addX dF (P.x : Fp) (P.y : Fp) (Q.x : Fp) (Q.y : Fp) := by
  have hp := p_pos
  show (((Edwards.add curve P Q).x : Nat) : Fp) = _
  simp only [Edwards.add, addX]
  have hcp : curve.p = p := rfl
  have hcd : curve.d = d := rfl
  rw [hcp, hcd]
  simp only [Nat.cast_mul, ZMod.natCast_mod, Nat.cast_add, cast_invMod p_gt, Nat.cast_one, dF]
  rw [div_eq_mul_inv]
  ring

theorem add_y_cast (P Q : Pt) :
    (((add P Q).y : Nat) : Fp) = addY aF dF (P.x : Fp) (P.y : Fp) (Q.x : Fp) (Q.y : Fp) := by
  have hp := p_pos
  show (((Edwards.add curve P Q).y : Nat) : Fp) = _
  simp only [Edwards.add, addY]
  have hcp : curve.p = p := rfl
  have hcd : curve.d = d := rfl
  have hca := cast_a
  rw [hcp, hcd]
  simp only [Nat.cast_mul, ZMod.natCast_mod, cast_invMod p_gt, cast_subMod hp, Nat.cast_one, dF, hca]
  rw [div_eq_mul_inv]
  ring

theorem neg_x_cast (P : Pt) : (((neg P).x : Nat) : Fp) = -(P.x : Fp) := by
  show (((Edwards.neg curve P).x : Nat) : Fp) = _
  simp only [Edwards.neg]
  exact cast_negMod p_pos _

theorem neg_y_cast (P : Pt) : (((neg P).y : Nat) : Fp) = (P.y : Fp) := by
  show (((Edwards.neg curve P).y : Nat) : Fp) = _
  simp only [Edwards.neg]
  have hcp : curve.p = p := rfl
  rw [hcp, ZMod.natCast_mod]

/-- A model point is *valid* when its coordinates are reduced and it lies on the curve. -/
def Valid (P : Pt) : Prop := P.x < p ∧ P.y < p ∧ OnCurve aF dF (P.x : Fp) (P.y : Fp)

/-- The boolean curve test of the model agrees with curve membership over `ZMod p`. -/
theorem onCurve_iff (P : Pt) : onCurve P = true ↔ OnCurve aF dF (P.x : Fp) (P.y : Fp) := by
  show Edwards.onCurve curve P = true ↔ _
  unfold Edwards.onCurve OnCurve
  have hcp : curve.p = p := rfl
  have hcd : curve.d = d := rfl
  rw [hcp, hcd, decide_eq_true_iff, ← ZMod.natCast_eq_natCast_iff']
  have hca := cast_a
  simp only [Nat.cast_add, Nat.cast_mul, ZMod.natCast_mod, Nat.cast_one, hca]
  unfold dF
  constructor <;> intro h <;> linear_combination h

/-- Valid model points as group elements. -/
def toG (P : Pt) (h : Valid P) : G := ⟨(P.x : Fp), (P.y : Fp), h.2.2⟩

theorem toG_injective {P Q : Pt} (hP : Valid P) (hQ : Valid Q) (h : toG P hP = toG Q hQ) : P = Q := by
  have hx : ((P.x : Nat) : Fp) = Q.x := congrArg EdLaw.Point.x h
  have hy : ((P.y : Nat) : Fp) = Q.y := congrArg EdLaw.Point.y h
  have := eq_of_cast_eq hP.1 hQ.1 hx
  have := eq_of_cast_eq hP.2.1 hQ.2.1 hy
  cases P; cases Q; simp_all

theorem valid_zero : Valid Edwards.zero := by
  refine ⟨by decide +kernel, by decide +kernel, ?_⟩
  show OnCurve aF dF ((0 : Nat) : Fp) ((1 : Nat) : Fp)
  simpa using (zero_on : OnCurve aF dF (0 : Fp) 1)

theorem valid_add {P Q : Pt} (hP : Valid P) (hQ : Valid Q) : Valid (add P Q) := by
  refine ⟨?_, ?_, ?_⟩
  · show (Edwards.add curve P Q).x < p
    exact Nat.mod_lt _ p_pos
  · show (Edwards.add curve P Q).y < p
    exact Nat.mod_lt _ p_pos
  · rw [add_x_cast, add_y_cast]
    exact add_onCurve complete hP.2.2 hQ.2.2

theorem valid_neg {P : Pt} (hP : Valid P) : Valid (neg P) := by
  refine ⟨?_, ?_, ?_⟩
  · exact negMod_lt p_pos _
  · show (Edwards.neg curve P).y < p
    exact Nat.mod_lt _ p_pos
  · rw [neg_x_cast, neg_y_cast]
    exact neg_on hP.2.2

theorem toG_zero : toG Edwards.zero valid_zero = 0 := by
  apply EdLaw.Point.ext <;> simp [toG, Edwards.zero]

theorem toG_add {P Q : Pt} (hP : Valid P) (hQ : Valid Q) :
    toG (add P Q) (valid_add hP hQ) = toG P hP + toG Q hQ := by
  apply EdLaw.Point.ext
  · exact add_x_cast P Q
  · exact add_y_cast P Q

theorem toG_neg {P : Pt} (hP : Valid P) : toG (neg P) (valid_neg hP) = -toG P hP := by
  apply EdLaw.Point.ext
  · exact neg_x_cast P
  · exact neg_y_cast P

end Kyber.Ed25519

namespace Kyber.Ed25519
open Kyber Kyber.Edwards Kyber.EdLaw

theorem toG_congr {P Q : Pt} (h : P = Q) (hP : Valid P) (hQ : Valid Q) : toG P hP = toG Q hQ := by
  subst h; rfl

/-- Double-and-add computes the scalar multiple in the group. -/
theorem smulAux_spec {P : Pt} (hP : Valid P) : ∀ (fuel k : Nat), k < 2 ^ fuel →
    ∃ h : Valid (Edwards.smulAux curve fuel k P), toG _ h = k • toG P hP := by
  intro fuel
  induction fuel with
  | zero =>
    intro k hk
    have : k = 0 := by omega
    subst this
    exact ⟨valid_zero, by rw [zero_smul]; exact toG_zero⟩
  | succ n ih =>
    intro k hk
    unfold Edwards.smulAux
    by_cases hk0 : k = 0
    · subst hk0
      simp only [if_true]
      exact ⟨valid_zero, by rw [zero_smul]; exact toG_zero⟩
    · simp only [hk0, if_false]
      have hk2 : k / 2 < 2 ^ n := by
        have : k < 2 * 2 ^ n := by rw [pow_succ] at hk; omega
        omega
      obtain ⟨hv, hs⟩ := ih (k / 2) hk2
      have hdbl : Valid (add (Edwards.smulAux curve n (k / 2) P) (Edwards.smulAux curve n (k / 2) P)) :=
        valid_add hv hv
      have hdblG : toG _ hdbl = (2 * (k / 2)) • toG P hP := by
        rw [toG_add hv hv, hs, two_mul, add_smul]
      by_cases hodd : k % 2 = 1
      · simp only [hodd, if_true]
        refine ⟨valid_add hdbl hP, ?_⟩
        have hk' : k = 2 * (k / 2) + 1 := by omega
        refine (toG_add hdbl hP).trans ?_
        rw [hdblG]
        conv_rhs => rw [hk', add_smul, one_smul]
      · simp only [hodd, if_false]
        refine ⟨hdbl, ?_⟩
        have hk' : k = 2 * (k / 2) := by omega
        refine hdblG.trans ?_
        conv_rhs => rw [hk']

theorem valid_smul {P : Pt} (hP : Valid P) (k : Nat) : Valid (smul k P) :=
  (smulAux_spec hP (k.log2 + 1) k Nat.lt_log2_self).1

theorem toG_smul {P : Pt} (hP : Valid P) (k : Nat) :
    toG (smul k P) (valid_smul hP k) = k • toG P hP :=
  (smulAux_spec hP (k.log2 + 1) k Nat.lt_log2_self).2

end Kyber.Ed25519

namespace Kyber.Ed25519
open Kyber Kyber.Edwards Kyber.EdLaw

theorem valid_base : Valid base :=
  ⟨by decide +kernel, by decide +kernel, (onCurve_iff base).mp base_onCurve⟩

/-- The base point as a group element. -/
def B : G := toG base valid_base

theorem L_smul_B : L • B = 0 := by
  have h := toG_smul valid_base L
  unfold B
  rw [← toG_zero, ← h]
  exact toG_congr smul_L_base _ _

theorem B_ne_zero : B ≠ 0 := by
  intro h
  apply base_ne_zero
  rw [← toG_zero] at h
  exact toG_injective valid_base valid_zero h

instance fact_L : Fact (Nat.Prime L) := ⟨L_prime⟩

/-- The base point has prime order `L`. -/
theorem addOrderOf_B : addOrderOf B = L :=
  addOrderOf_eq_prime L_smul_B B_ne_zero

end Kyber.Ed25519
