import KyberModel.Lib.Decode
/-
Helper lemmas for `Props/C04.lean`: BLS12-381 G1 decompression (shape of accepted values, the root selected
by the flag, the flag byte of an encoding) and the coordinate framing of BN G2 encodings.
-/
namespace Kyber.DecodeLib

namespace BLS
open Kyber Kyber.BLS12381 Kyber.Weierstrass

theorem p_pos : 0 < p := by norm_num [p]
theorem p_gt_one : 1 < p := by norm_num [p]
theorem p_odd : p = 2 * half + 1 := by norm_num [p, half]
theorem p_lt : p < 32 * 256 ^ 47 := by norm_num [p]

theorem sqrtFp_some (a y : Nat) (h : sqrtFp a = some y) : y * y % p = a % p ∧ y < p := by
  unfold sqrtFp at h
  by_cases h1 : sqrtCand a * sqrtCand a % p = a % p
  · rw [if_pos h1] at h
    have hy : sqrtCand a = y := Option.some.inj h
    subst hy
    exact ⟨h1, powMod_lt _ _ _ p_gt_one⟩
  · rw [if_neg h1] at h
    cases h

/-- Shape of an accepted affine decompression. -/
theorem decXY_some (big : Bool) (x : Nat) (P : Pt) (h : decXY big x = some P) :
    x < p ∧ ∃ y0, sqrtFp (rhs x) = some y0 ∧
      P = some (x, pickRoot big y0) ∧ smul curve r P = none := by
  unfold decXY at h
  split_ifs at h with h1
  split at h
  · cases h
  · rename_i y0 hy0
    split_ifs at h with h2
    cases h
    exact ⟨by omega, y0, hy0, rfl, h2⟩

theorem decXY_of (big : Bool) (x y0 : Nat) (hx : x < p) (hs : sqrtFp (rhs x) = some y0)
    (hr : smul curve r (some (x, pickRoot big y0)) = none) :
    decXY big x = some (some (x, pickRoot big y0)) := by
  unfold decXY
  rw [if_neg (by omega)]
  split
  · next h => rw [hs] at h; cases h
  · next y hy =>
    rw [hs] at hy; cases hy
    rw [if_pos hr]

theorem decXY_valid (big : Bool) (x : Nat) (P : Pt) (h : decXY big x = some P) :
    onCurve curve P = true ∧ smul curve r P = none := by
  obtain ⟨hx, y0, hs, hP, hr⟩ := decXY_some big x P h
  refine ⟨?_, hr⟩
  obtain ⟨hy0, _⟩ := sqrtFp_some _ _ hs
  unfold rhs at hy0
  rw [Nat.mod_mod] at hy0
  have h1 := (mod_eq_iff_cast p _ _).mp hy0
  subst hP
  apply decide_eq_true
  show _ % p = (x * x % p * x + 0 * x + 4) % p
  rw [mod_eq_iff_cast]
  unfold pickRoot
  push_cast [ZMod.natCast_mod] at h1 ⊢
  split_ifs
  · linear_combination h1
  · rw [cast_negMod p_pos]; linear_combination h1

/-- Re-selecting the root from the "larger root" flag of the decoded `y`. -/
theorem root_fix (y0 : Nat) (big : Bool) (hy0 : y0 < p) :
    pickRoot (decide (half < pickRoot big y0)) y0 = pickRoot big y0 := by
  have hodd := p_odd
  unfold pickRoot
  by_cases hc : decide (half < y0) = big
  · simp [hc]
  · simp only [hc, if_false]
    rcases Nat.eq_zero_or_pos y0 with h0 | h0
    · subst h0; simp [negMod]
    · have hn : negMod y0 p = p - y0 := by
        unfold negMod; rw [Nat.mod_eq_of_lt hy0, Nat.mod_eq_of_lt (by omega)]
      rw [hn]
      have : ¬ (decide (half < y0) = decide (half < p - y0)) := by
        simp only [decide_eq_decide]; omega
      simp [this]

theorem enc_some (x y : Nat) (hx : x < p) :
    enc (some (x, y)) = (UInt8.ofNat (x / 256 ^ 47) ||| (if y > (p - 1) / 2 then 0xa0 else 0x80)) :: encodeBE 47 x := by
  have hplt := p_lt
  have htop : x / 256 ^ 47 % 256 = x / 256 ^ 47 := Nat.mod_eq_of_lt (by omega)
  have henc : encodeBE 48 x = UInt8.ofNat (x / 256 ^ 47) :: encodeBE 47 x := by
    rw [encodeBE_succ 47 x, htop]
  simp only [enc, henc]

/-- Decoding a well-formed compressed encoding of `x` with flag `big`. -/
theorem dec_compressed (x : Nat) (hx : x < p) (big : Bool) :
    dec ((UInt8.ofNat (x / 256 ^ 47) ||| (if big then 0xa0 else 0x80)) :: encodeBE 47 x) = decXY big x := by
  have hplt := p_lt
  have htop : x / 256 ^ 47 % 256 = x / 256 ^ 47 := Nat.mod_eq_of_lt (by omega)
  have htop32 : x / 256 ^ 47 < 32 := by omega
  have hx48 : x < 256 ^ 48 := by omega
  have henc : encodeBE 48 x = UInt8.ofNat (x / 256 ^ 47) :: encodeBE 47 x := by
    rw [encodeBE_succ 47 x, htop]
  obtain ⟨hfa, hf8⟩ := or_flag _ htop32
  have hback : decodeBE (UInt8.ofNat (x / 256 ^ 47) :: encodeBE 47 x) = x := by
    rw [← henc, decodeBE_encodeBE_of_lt 48 x hx48]
  cases big
  · simp only [dec, encodeBE_length, ne_eq, not_true_eq_false, if_false, hf8, Bool.false_eq_true]
    have e1 : ¬ ((x / 256 ^ 47 + 128) / 128 = 0) := by omega
    have e2 : ¬ ((x / 256 ^ 47 + 128) / 64 % 2 = 1) := by omega
    have e3 : ((x / 256 ^ 47 + 128) / 32 % 2 == 1) = false := by simp; omega
    have e4 : (x / 256 ^ 47 + 128) % 32 = x / 256 ^ 47 := by omega
    rw [if_neg e1, if_neg e2, e3, e4, hback]
  · simp only [dec, encodeBE_length, ne_eq, not_true_eq_false, if_false, hfa, if_true]
    have e1 : ¬ ((x / 256 ^ 47 + 160) / 128 = 0) := by omega
    have e2 : ¬ ((x / 256 ^ 47 + 160) / 64 % 2 = 1) := by omega
    have e3 : ((x / 256 ^ 47 + 160) / 32 % 2 == 1) = true := by simp; omega
    have e4 : (x / 256 ^ 47 + 160) % 32 = x / 256 ^ 47 := by omega
    rw [if_neg e1, if_neg e2, e3, e4, hback]

theorem decAffine_valid (x y : Nat) (P : Pt) (h : decAffine x y = some P) :
    onCurve curve P = true ∧ smul curve r P = none := by
  unfold decAffine at h
  split_ifs at h with h1 h2
  cases h
  exact h2

end BLS

namespace G2
open Kyber.Fp2

theorem coords_length (bs : Bytes) (h : bs.length < 128) : coords bs = none := by simp [coords, h]

/-- The four coordinates are read back from an encoding of reduced coordinates. -/
theorem coords_enc (x y : El) (h1 : x.1 < 256 ^ 32) (h2 : x.2 < 256 ^ 32) (h3 : y.1 < 256 ^ 32) (h4 : y.2 < 256 ^ 32) :
    coords (enc (some (x, y))) = some (x, y) := by
  have e : enc (some (x, y)) = encodeBE 32 x.2 ++ (encodeBE 32 x.1 ++ (encodeBE 32 y.2 ++ encodeBE 32 y.1)) := by
    simp [enc]
  rw [e]
  unfold coords
  rw [if_neg (by simp)]
  have d32 : ∀ (a b : Bytes), a.length = 32 → (a ++ b).drop 32 = b := fun a b h => drop_append_of_length a b 32 h
  have t32 : ∀ (a b : Bytes), a.length = 32 → (a ++ b).take 32 = a := fun a b h => take_append_of_length a b 32 h
  have d64 : ∀ (a b c : Bytes), a.length = 32 → b.length = 32 → (a ++ (b ++ c)).drop 64 = c := by
    intro a b c ha hb
    have : (a ++ (b ++ c)).drop 64 = ((a ++ (b ++ c)).drop 32).drop 32 := by rw [List.drop_drop]
    rw [this, d32 a _ ha, d32 b _ hb]
  have d96 : ∀ (a b c d : Bytes), a.length = 32 → b.length = 32 → c.length = 32 →
      (a ++ (b ++ (c ++ d))).drop 96 = d := by
    intro a b c d ha hb hc
    have : (a ++ (b ++ (c ++ d))).drop 96 = ((a ++ (b ++ (c ++ d))).drop 64).drop 32 := by rw [List.drop_drop]
    rw [this, d64 a b _ ha hb, d32 c _ hc]
  simp only []
  rw [t32 _ _ (by simp), d32 _ _ (by simp), t32 _ _ (by simp), d64 _ _ _ (by simp) (by simp), t32 _ _ (by simp),
    d96 _ _ _ _ (by simp) (by simp) (by simp), List.take_of_length_le (by simp),
    decodeBE_encodeBE_of_lt 32 _ h1, decodeBE_encodeBE_of_lt 32 _ h2, decodeBE_encodeBE_of_lt 32 _ h3,
    decodeBE_encodeBE_of_lt 32 _ h4]

theorem coords_zero : coords (enc none) = some ((0, 0), (0, 0)) := by decide +kernel
end G2

end Kyber.DecodeLib
