import KyberModel.Lib.Shuffle
/-
Helper lemmas for C15, part 2: the pair shuffle in `ZMod q`.
-/
namespace Kyber.Shuffle
open Kyber Kyber.Scalar

variable {q : Nat}

theorem sumTo_cast (k init : Nat) (f : Nat → Nat) :
    ((sumTo q k init f : Nat) : ZMod q) = (init : ZMod q) + ∑ i ∈ Finset.range k, (f i : ZMod q) := by
  unfold sumTo
  induction k with
  | zero => simp
  | succ k ih =>
    rw [List.range_succ, List.foldl_append, List.foldl_cons, List.foldl_nil, add_cast, ih, Finset.sum_range_succ]
    ring

theorem pairPhi_cast (hq : 0 < q) (k : Nat) (v : PairView) (P Pbar : Nat → Nat) :
    ((pairPhi q k v P Pbar : Nat) : ZMod q) =
      ∑ i ∈ Finset.range k, ((v.sigma i : ZMod q) * Pbar i - (v.rho i : ZMod q) * P i) := by
  unfold pairPhi
  induction k with
  | zero => simp
  | succ k ih =>
    rw [List.range_succ, List.foldl_append, List.foldl_cons, List.foldl_nil, sub_cast hq, add_cast, mul_cast,
      mul_cast, ih, Finset.sum_range_succ]
    ring

theorem pairPhi_lt (hq : 0 < q) (k : Nat) (v : PairView) (P Pbar : Nat → Nat) : pairPhi q k v P Pbar < q := by
  unfold pairPhi
  cases k with
  | zero => simpa using hq
  | succ k =>
    rw [List.range_succ, List.foldl_append, List.foldl_cons, List.foldl_nil]
    exact Nat.mod_lt _ hq

/-- The inverse-permutation loop computes the inverse of a permutation. -/
theorem invPerm_eq (k : Nat) (π : Equiv.Perm (Fin k)) (pi : Nat → Nat) (hpi : ∀ i : Fin k, pi i = π i)
    (j : Fin k) : invPerm k pi j = (π.symm j : Nat) := by
  unfold invPerm
  have hmem : (π.symm j : Nat) ∈ (List.range k).filter (fun i => pi i = j) := by
    rw [List.mem_filter]
    refine ⟨List.mem_range.mpr (π.symm j).isLt, ?_⟩
    have := hpi (π.symm j)
    simp [this]
  cases hl : ((List.range k).filter (fun i => pi i = j)).getLast? with
  | none =>
    rw [List.getLast?_eq_none_iff] at hl
    rw [hl] at hmem; cases hmem
  | some m =>
    simp only [Option.getD_some]
    have hm := List.mem_of_getLast? hl
    rw [List.mem_filter] at hm
    obtain ⟨hm1, hm2⟩ := hm
    have hmk : m < k := List.mem_range.mp hm1
    have hm3 : pi m = j := by simpa using hm2
    have h4 := hpi ⟨m, hmk⟩
    simp only at h4
    rw [hm3] at h4
    have : π ⟨m, hmk⟩ = j := Fin.ext h4.symm
    have : (⟨m, hmk⟩ : Fin k) = π.symm j := by rw [← this]; simp
    rw [← this]

/-- Equations (34) / (35) hold for the honest prover's `Λ`, `σ`, `τ` when the output is the
    re-encrypted permutation of the input. -/
theorem eq345_honest (hq : 0 < q) (k base : Nat) (π : Equiv.Perm (Fin k)) (pi : Nat → Nat)
    (hpi : ∀ i : Fin k, pi i = π i) (beta P Pbar : Nat → Nat) (R : PairRand) (rho : Nat → Nat) (v : PairView)
    (hσ : v.sigma = pairSigma q pi R rho) (hρ : v.rho = rho) (hτ : v.tau = pairTau q k beta R rho)
    (hP : ∀ i : Fin k, (Pbar i : ZMod q) = (P (π i) : ZMod q) + (beta (π i) : ZMod q) * base) :
    eq345 q k base v (pairLambda q k base pi beta P R) P Pbar = true := by
  unfold eq345
  rw [beq_iff_eq, eq_iff_cast_eq _ _ (lt_of_add hq _ _) (pairPhi_lt hq k v P Pbar), pairPhi_cast hq, add_cast,
    mul_cast, hσ, hρ, hτ]
  simp only [pairLambda, pairWbetasum, pairTau, add_cast, mul_cast, sumTo_cast, neg_cast hq, pairSigma, pairB,
    sub_cast hq, Nat.cast_zero, zero_add]
  simp only [Finset.sum_range]
  -- rewrite the index computations through the permutation
  have h1 : ∀ i : Fin k, invPerm k pi (i : Nat) = (π.symm i : Nat) := invPerm_eq k π pi hpi
  simp only [h1, hpi, hP]
  -- name the sums
  set w : Fin k → ZMod q := fun i => (R.w i : ZMod q) with hw
  set u : Fin k → ZMod q := fun i => (R.u i : ZMod q) with hu
  set ρ : Fin k → ZMod q := fun i => (rho i : ZMod q) with hρ'
  set β : Fin k → ZMod q := fun i => (beta i : ZMod q) with hβ
  set p : Fin k → ZMod q := fun i => (P i : ZMod q) with hp
  have A1 : ∑ i : Fin k, w i * p (π i) = ∑ j : Fin k, w (π.symm j) * p j := by
    have := Equiv.sum_comp π (fun j : Fin k => w (π.symm j) * p j)
    simpa using this
  have A2 : ∑ i : Fin k, (ρ (π i) - u (π i)) * p (π i) = ∑ j : Fin k, (ρ j - u j) * p j :=
    Equiv.sum_comp π (fun j : Fin k => (ρ j - u j) * p j)
  have A3 : ∑ i : Fin k, (ρ (π i) - u (π i)) * β (π i) = ∑ j : Fin k, (ρ j - u j) * β j :=
    Equiv.sum_comp π (fun j : Fin k => (ρ j - u j) * β j)
  have E : ∑ i : Fin k, ((w i + (ρ (π i) - u (π i))) * (p (π i) + β (π i) * (base : ZMod q)) - ρ i * p i) =
      ∑ i : Fin k, w i * p (π i) + ∑ i : Fin k, (ρ (π i) - u (π i)) * p (π i) +
        (base : ZMod q) * ∑ i : Fin k, w i * β (π i) + (base : ZMod q) * ∑ i : Fin k, (ρ (π i) - u (π i)) * β (π i) -
        ∑ i : Fin k, ρ i * p i := by
    simp only [Finset.mul_sum, ← Finset.sum_add_distrib, ← Finset.sum_sub_distrib]
    exact Finset.sum_congr rfl (fun i _ => by ring)
  have F : ∑ j : Fin k, (w (π.symm j) - u j) * p j =
      ∑ j : Fin k, w (π.symm j) * p j - ∑ j : Fin k, u j * p j := by
    rw [← Finset.sum_sub_distrib]
    exact Finset.sum_congr rfl (fun i _ => by ring)
  have G : ∑ j : Fin k, (ρ j - u j) * p j = ∑ j : Fin k, ρ j * p j - ∑ j : Fin k, u j * p j := by
    rw [← Finset.sum_sub_distrib]
    exact Finset.sum_congr rfl (fun i _ => by ring)
  show ∑ j : Fin k, (w (π.symm j) - u j) * p j +
      ((R.tau0 : ZMod q) + ∑ i : Fin k, w i * β (π i)) * (base : ZMod q) +
      (-(R.tau0 : ZMod q) + ∑ i : Fin k, (ρ i - u i) * β i) * (base : ZMod q) =
    ∑ i : Fin k, ((w i + (ρ (π i) - u (π i))) * (p (π i) + β (π i) * (base : ZMod q)) - ρ i * p i)
  rw [E, F, A1, A2, A3, G]
  ring

theorem bindX_honest (hq : 0 < q) (k g h : Nat) (pi beta X Y : Nat → Nat) (R : PairRand) (θ rho : Nat → Nat)
    (lam t c i : Nat) : bindX q g (pairProverView q k g h pi beta X Y R θ rho lam t c) i = true := by
  unfold bindX
  simp only [pairProverView]
  rw [beq_iff_eq, eq_iff_cast_eq _ _ (lt_of_mul hq _ _) (lt_of_add hq _ _)]
  simp only [pairProverView, pairR, pairB, pairA, pairU, add_cast, mul_cast, sub_cast hq]
  ring

theorem bindY_honest (hq : 0 < q) (k g h : Nat) (pi beta X Y : Nat → Nat) (R : PairRand) (θ rho : Nat → Nat)
    (lam t c i : Nat) : bindY q (pairProverView q k g h pi beta X Y R θ rho lam t c) i = true := by
  unfold bindY
  simp only [pairProverView]
  rw [beq_iff_eq, eq_iff_cast_eq _ _ (lt_of_mul hq _ _) (lt_of_add hq _ _)]
  simp only [pairProverView, pairS, pairR, pairB, pairC, pairD, add_cast, mul_cast, sub_cast hq]
  ring

theorem eq33_honest (hq : 0 < q) (k g h : Nat) (pi beta X Y : Nat → Nat) (R : PairRand) (θ rho : Nat → Nat)
    (lam t c i : Nat) : eq33 q (pairProverView q k g h pi beta X Y R θ rho lam t c) i = true := by
  unfold eq33
  rw [beq_iff_eq, eq_iff_cast_eq _ _ (lt_of_mul hq _ _) (lt_of_add hq _ _)]
  simp only [pairProverView, pairSigma, pairGamma, pairW, pairD, pairB, add_cast, mul_cast, sub_cast hq]
  ring

/-- **Completeness of the pair shuffle** (value level), for the verifier as coded and for the repaired
    one: the honest prover's view for the permutation `π`, blinding `β`, any private randomness `R`
    with `γ ≠ 0`, any blinding `θ` and any challenges `ρ, λ, t, c` with `t` different from every
    `r_i = a_i + λ(ρ_i − u_i)` passes every check against the output
    `X̄_i = X_{π i} + β_{π i}·G`, `Ȳ_i = Y_{π i} + β_{π i}·H`. -/
theorem pair_complete [Fact q.Prime] (hq2 : 2 < q) (k : Nat) (hk : 2 ≤ k) (g h : Nat) (π : Equiv.Perm (Fin k))
    (pi : Nat → Nat) (hpi : ∀ i : Fin k, pi i = π i) (beta X Y Xbar Ybar : Nat → Nat) (R : PairRand)
    (θ rho : Nat → Nat) (lam t c : Nat)
    (hX : ∀ i : Fin k, (Xbar i : ZMod q) = (X (π i) : ZMod q) + (beta (π i) : ZMod q) * g)
    (hY : ∀ i : Fin k, (Ybar i : ZMod q) = (Y (π i) : ZMod q) + (beta (π i) : ZMod q) * h)
    (hγ : (R.gamma : ZMod q) ≠ 0)
    (ht : ∀ i : Fin k, ((pairR q R rho lam i : Nat) : ZMod q) ≠ (t : ZMod q)) (bound : Bool) :
    pairCheck q k g h X Y Xbar Ybar bound (pairProverView q k g h pi beta X Y R θ rho lam t c) = .ok () := by
  have hq : 0 < q := by omega
  have h1 : simpleCheck q k g (pairProverView q k g h pi beta X Y R θ rho lam t c).Gamma
      (pairProverView q k g h pi beta X Y R θ rho lam t c).sX
      (pairProverView q k g h pi beta X Y R θ rho lam t c).sY
      (pairProverView q k g h pi beta X Y R θ rho lam t c).t
      (pairProverView q k g h pi beta X Y R θ rho lam t c).Theta
      (pairProverView q k g h pi beta X Y R θ rho lam t c).c
      (pairProverView q k g h pi beta X Y R θ rho lam t c).alpha = true := by
    have hy : ∀ i : Fin k, ((pairS q pi R rho lam i : Nat) : ZMod q) =
        (R.gamma : ZMod q) * ((pairR q R rho lam (π i) : Nat) : ZMod q) := by
      intro i; simp only [pairS]; rw [mul_cast, hpi i]
    exact simple_complete hq2 k hk g R.gamma (pairR q R rho lam) (pairS q pi R rho lam) π hy t hγ ht θ c
  have h2 : (List.range k).all (fun i => bindX q g (pairProverView q k g h pi beta X Y R θ rho lam t c) i &&
      bindY q (pairProverView q k g h pi beta X Y R θ rho lam t c) i) = true := by
    rw [List.all_eq_true]
    intro i _
    rw [bindX_honest hq, bindY_honest hq]; rfl
  have h3 : (List.range k).all (eq33 q (pairProverView q k g h pi beta X Y R θ rho lam t c)) = true := by
    rw [List.all_eq_true]
    intro i _
    exact eq33_honest hq k g h pi beta X Y R θ rho lam t c i
  have h4 := eq345_honest hq k g π pi hpi beta X Xbar R rho (pairProverView q k g h pi beta X Y R θ rho lam t c)
    rfl rfl rfl hX
  have h5 := eq345_honest hq k h π pi hpi beta Y Ybar R rho (pairProverView q k g h pi beta X Y R θ rho lam t c)
    rfl rfl rfl hY
  have h4' : eq345 q k g (pairProverView q k g h pi beta X Y R θ rho lam t c)
      (pairProverView q k g h pi beta X Y R θ rho lam t c).L1 X Xbar = true := h4
  have h5' : eq345 q k h (pairProverView q k g h pi beta X Y R θ rho lam t c)
      (pairProverView q k g h pi beta X Y R θ rho lam t c).L2 Y Ybar = true := h5
  unfold pairCheck
  simp [h1, h2, h3, h4', h5']

end Kyber.Shuffle
