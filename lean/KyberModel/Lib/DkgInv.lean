import KyberModel.Proto.Dkg
import KyberModel.Lib.DkgLemmas
import KyberModel.Lib.DkgAlgebra
import Mathlib.Tactic.SplitIfs
/-
Helper lemmas for Props/C11.lean, part 4: the invariant "every stored private share lies on the
stored public polynomial of its dealer" through Deals / ProcessDeals / ProcessResponses /
ProcessJustifications.
-/
namespace Kyber.Dkg
open Polynomial Kyber.Scalar Kyber.Share

/-- Nat-level form of the invariant: the stored share IS `PubPoly.Eval(nidx)` of the stored polynomial. -/
def SharesOnPublicsN (c : Cfg) (st : St) : Prop :=
  ∀ d v, st.validShares d = some v → ∃ p, st.allPublics d = some p ∧ v = pubEvalI c.q p c.nidx

/-- Before `ProcessDeals` the only share a node can hold is its own. -/
def OnlyOwnShare (c : Cfg) (st : St) : Prop :=
  ∀ d, st.validShares d ≠ none → c.canIssue = true ∧ d = c.oidx

theorem initSt_inv (c : Cfg) : SharesOnPublicsN c (initSt c) ∧ OnlyOwnShare c (initSt c) := by
  refine ⟨?_, ?_⟩
  · intro d v h; simp [initSt] at h
  · intro d h; simp [initSt] at h

theorem evalAt_map_mod (q : Nat) (f : List Nat) (x : Nat) : evalAt q (f.map (· % q)) x = evalAt q f x := by
  induction f with
  | nil => rfl
  | cons a f ih =>
    have h1 : evalAt q ((a :: f).map (· % q)) x = add q (mul q (evalAt q (f.map (· % q)) x) x) (a % q) := rfl
    have h2 : evalAt q (a :: f) x = add q (mul q (evalAt q f x) x) a := rfl
    rw [h1, h2, ih]; simp [add, Nat.add_mod]

theorem deals_inv (c : Cfg) (st st' : St) (b : DealBundle) (h : deals c st = .ok (st', b))
    (h1 : SharesOnPublicsN c st) (h2 : OnlyOwnShare c st) :
    SharesOnPublicsN c st' ∧ OnlyOwnShare c st' := by
  unfold deals at h
  split at h
  · cases h
  · rename_i hci
    split at h
    · cases h
    · simp only [Except.ok.injEq, Prod.mk.injEq] at h
      obtain ⟨rfl, _⟩ := h
      have hci' : c.canIssue = true := by simpa using hci
      split
      · refine ⟨?_, ?_⟩
        · intro d v hv
          simp only [upd] at hv ⊢
          by_cases hd : d = c.oidx
          · simp only [hd, if_true, Option.some.injEq] at hv ⊢
            refine ⟨_, rfl, ?_⟩
            rw [← hv]
            unfold priEvalI pubEvalI dpub
            rw [pubEvalAt_eq_evalAt, evalAt_map_mod]
          · simp only [hd, if_false] at hv ⊢
            exact h1 d v hv
        · intro d hd
          simp only [upd] at hd
          by_cases hdd : d = c.oidx
          · exact ⟨hci', hdd⟩
          · simp only [hdd, if_false] at hd
            exact h2 d hd
      · exact ⟨h1, h2⟩

/-- effect of a mutation list on the private part, for the shapes that occur -/
theorem applyAll_evict_only (st : St) (ps : List Prim) (h : ∀ p ∈ ps, ∃ d, p = .evict d) :
    (st.applyAll ps).validShares = st.validShares ∧ (st.applyAll ps).allPublics = st.allPublics := by
  induction ps generalizing st with
  | nil => exact ⟨rfl, rfl⟩
  | cons p ps ih =>
    obtain ⟨d, rfl⟩ := h p List.mem_cons_self
    rw [applyAll_cons]
    obtain ⟨a, b⟩ := ih (st.apply (.evict d)) (fun q hq => h q (List.mem_cons_of_mem _ hq))
    exact ⟨a, b⟩

theorem scanDeals_some (c : Cfg) (b : DealBundle) (ds : List Deal) (ev0 : Bool) (sh0 : Option Nat) (ev : Bool) (v : Nat)
    (h : scanDeals c b ds (ev0, sh0) = (ev, some v)) : sh0 = some v ∨ v = pubEvalI c.q b.pub c.nidx := by
  induction ds generalizing ev0 sh0 with
  | nil => simp only [scanDeals, Prod.mk.injEq] at h; exact Or.inl h.2
  | cons dl rest ih =>
    unfold scanDeals at h
    split at h
    · simp only [Prod.mk.injEq] at h; exact Or.inl h.2
    · split at h
      · exact ih _ _ h
      · split at h
        · exact ih _ _ h
        · split at h
          · exact ih _ _ h
          · rename_i hchk
            split at h
            · exact ih _ _ h
            · rcases ih _ _ h with h' | h'
              · simp only [Option.some.injEq] at h'
                right; rw [← h']
                simp only [bne_iff_ne, ne_eq, Decidable.not_not] at hchk
                exact hchk.symm
              · exact Or.inr h'

/-- Loop invariant of `ProcessDeals`. -/
def DealLoopInv (c : Cfg) (acc : St × (Nat → Bool)) : Prop :=
  SharesOnPublicsN c acc.1 ∧ ∀ d, acc.1.validShares d ≠ none → (acc.2 d = true ∨ (c.canIssue = true ∧ d = c.oidx))

theorem dealStep_inv (c : Cfg) (acc : St × (Nat → Bool)) (b : DealBundle) (h : DealLoopInv c acc) :
    DealLoopInv c (dealStep c acc b) := by
  obtain ⟨h1, h2⟩ := h
  unfold dealStep dealPrims
  by_cases c1 : (c.canIssue && b.dealerIndex == c.oidx) = true
  · simp only [c1, if_true, applyAll_nil, Bool.false_eq_true, if_false]; exact ⟨h1, h2⟩
  simp only [c1, if_false, Bool.false_eq_true]
  by_cases c2 : (!included c.oldNodes b.dealerIndex) = true
  · simp only [c2, if_true, applyAll_nil, Bool.false_eq_true, if_false]; exact ⟨h1, h2⟩
  simp only [c2, if_false, Bool.false_eq_true]
  have evict_case : DealLoopInv c ((acc.1.applyAll [.evict b.dealerIndex]), acc.2) := by
    refine ⟨?_, ?_⟩
    · intro d v hv; exact h1 d v hv
    · intro d hd; exact h2 d hd
  by_cases c3 : (b.sid != c.nonce) = true
  · simp only [c3, if_true, Bool.false_eq_true, if_false]; exact evict_case
  simp only [c3, if_false, Bool.false_eq_true]
  by_cases c4 : (b.pub.isEmpty || b.pub.length != c.threshold) = true
  · simp only [c4, if_true, Bool.false_eq_true, if_false]; exact evict_case
  simp only [c4, if_false, Bool.false_eq_true]
  by_cases c5 : acc.2 b.dealerIndex = true
  · simp only [c5, if_true, Bool.false_eq_true, if_false]; exact evict_case
  simp only [c5, if_false, Bool.false_eq_true]
  -- accepted bundle: the dealer had no share before
  have hnone : acc.1.validShares b.dealerIndex = none := by
    by_contra hne
    rcases h2 _ hne with h | ⟨h, h'⟩
    · exact c5 h
    · exact c1 (by simp [h, h'])
  rcases hsc : scanDeals c b b.deals (false, none) with ⟨ev, sh⟩
  simp only [if_true]
  have hev : ∀ s : St, ((s.applyAll (if ev = true then [Prim.evict b.dealerIndex] else [])).validShares = s.validShares) ∧
      ((s.applyAll (if ev = true then [Prim.evict b.dealerIndex] else [])).allPublics = s.allPublics) := by
    intro s; cases ev <;> exact ⟨rfl, rfl⟩
  cases sh with
  | none =>
    simp only [List.append_nil, applyAll_append]
    refine ⟨?_, ?_⟩
    · intro d v hv
      rw [(hev _).1] at hv; rw [(hev _).2]
      simp only [St.applyAll, List.foldl, St.apply, upd] at hv ⊢
      by_cases hd : d = b.dealerIndex
      · subst hd; rw [hnone] at hv; cases hv
      · simp only [hd, if_false]; exact h1 d v hv
    · intro d hd
      rw [(hev _).1] at hd
      simp only [St.applyAll, List.foldl, St.apply] at hd
      simp only [upd]
      by_cases hdd : d = b.dealerIndex
      · left; simp [hdd]
      · simp only [hdd, if_false]; exact h2 d hd
  | some v =>
    have hv' : v = pubEvalI c.q b.pub c.nidx := by
      rcases scanDeals_some c b b.deals false none ev v hsc with h | h
      · cases h
      · exact h
    simp only [applyAll_append]
    refine ⟨?_, ?_⟩
    · intro d w hw
      rw [(hev _).1] at hw; rw [(hev _).2]
      simp only [St.applyAll, List.foldl, St.apply, upd] at hw ⊢
      by_cases hd : d = b.dealerIndex
      · simp only [hd, if_true, Option.some.injEq] at hw ⊢
        exact ⟨_, rfl, hw ▸ hv'⟩
      · simp only [hd, if_false] at hw ⊢; exact h1 d w hw
    · intro d hd
      simp only [upd]
      by_cases hdd : d = b.dealerIndex
      · left; simp [hdd]
      · simp only [hdd, if_false]
        rw [(hev _).1] at hd
        simp only [St.applyAll, List.foldl, St.apply, upd, hdd, if_false] at hd
        exact h2 d hd

theorem dealFold_inv (c : Cfg) (l : List DealBundle) (acc : St × (Nat → Bool)) (h : DealLoopInv c acc) :
    DealLoopInv c (l.foldl (dealStep c) acc) := by
  induction l generalizing acc with
  | nil => exact h
  | cons b l ih => exact ih _ (dealStep_inv c acc b h)

theorem processDeals_inv (c : Cfg) (st st' : St) (l : List DealBundle) (o : Option ResponseBundle)
    (h : processDeals c st l = .ok (st', o)) (h1 : SharesOnPublicsN c st) (h2 : OnlyOwnShare c st) :
    SharesOnPublicsN c st' := by
  unfold processDeals at h
  split at h
  · cases h
  · split at h
    · cases h
    · split at h
      · simp only [Except.ok.injEq, Prod.mk.injEq] at h
        obtain ⟨rfl, _⟩ := h
        exact h1
      · simp only [Except.ok.injEq, Prod.mk.injEq] at h
        obtain ⟨rfl, _⟩ := h
        have := dealFold_inv c l (st, fun _ => false) ⟨h1, fun d hd => Or.inr (h2 d hd)⟩
        exact this.1

/-! ### ProcessResponses leaves the private part alone -/

theorem apply_holder_priv (st : St) (p : Prim) (i : Nat) (hp : p.holder = some i) :
    (st.apply p).validShares = st.validShares ∧ (st.apply p).allPublics = st.allPublics := by
  cases p <;> simp [Prim.holder] at hp <;> exact ⟨rfl, rfl⟩

theorem applyAll_holder_priv (st : St) (ps : List Prim) (i : Nat) (hp : ∀ p ∈ ps, p.holder = some i) :
    (st.applyAll ps).validShares = st.validShares ∧ (st.applyAll ps).allPublics = st.allPublics := by
  induction ps generalizing st with
  | nil => exact ⟨rfl, rfl⟩
  | cons p ps ih =>
    rw [applyAll_cons]
    obtain ⟨a, b⟩ := ih (st.apply p) (fun q hq => hp q (List.mem_cons_of_mem _ hq))
    obtain ⟨a', b'⟩ := apply_holder_priv st p i (hp p List.mem_cons_self)
    exact ⟨a.trans a', b.trans b'⟩

theorem respFold_priv (c : Cfg) (l : List ResponseBundle) (acc : RespAcc) :
    (l.foldl (respStep c) acc).st.validShares = acc.st.validShares ∧
    (l.foldl (respStep c) acc).st.allPublics = acc.st.allPublics := by
  induction l generalizing acc with
  | nil => exact ⟨rfl, rfl⟩
  | cons b l ih =>
    obtain ⟨a, b'⟩ := ih (respStep c acc b)
    obtain ⟨a', b''⟩ := applyAll_holder_priv acc.st (respPrims c b).1 _ (respPrims_holder c b)
    exact ⟨a.trans a', b'.trans b''⟩

theorem computeResult_priv (c : Cfg) (st : St) :
    (computeResult c st).1.validShares = st.validShares ∧ (computeResult c st).1.allPublics = st.allPublics :=
  ⟨rfl, rfl⟩

theorem respFin_fst (c : Cfg) (p : St × RespOut) : (respFin c p).1 = p.1 := by
  unfold respFin
  split
  · rfl
  · rfl
  · split <;> rfl

theorem respAfterLoop_priv (c : Cfg) (st : St) (l : List ResponseBundle) :
    (respAfterLoop c st l).validShares = st.validShares ∧ (respAfterLoop c st l).allPublics = st.allPublics := by
  have hf := respFold_priv c l { st := st, validAuthors := fun _ => false, foundComplaint := false }
  unfold respAfterLoop respLoop
  simp only
  split
  · exact hf
  · exact hf

theorem respCore_priv (c : Cfg) (st : St) (l : List ResponseBundle) :
    (respCore c st l).1.validShares = st.validShares ∧ (respCore c st l).1.allPublics = st.allPublics := by
  have h := respAfterLoop_priv c st l
  unfold respCore
  split
  · exact ⟨rfl, rfl⟩
  · simp only
    split
    · split
      · exact h
      · exact h
    · split
      · exact h
      · split
        · exact h
        · exact h

/-- `ProcessResponses` never touches `validShares` / `allPublics`. -/
theorem processResponses_priv (c : Cfg) (st : St) (l : List ResponseBundle) :
    (processResponses c st l).1.validShares = st.validShares ∧
    (processResponses c st l).1.allPublics = st.allPublics := by
  unfold processResponses
  split_ifs <;> first | exact ⟨rfl, rfl⟩ | (rw [respFin_fst]; exact respCore_priv c st l)

/-! ### ProcessJustifications keeps the invariant -/

theorem justInnerPrims_inv (c : Cfg) (d : Nat) (pp : Option (List Nat)) (js : List Justification) (st : St)
    (h1 : SharesOnPublicsN c st) (hpp : st.allPublics d = pp) :
    SharesOnPublicsN c (st.applyAll (justInnerPrims c d pp js)) ∧
    (st.applyAll (justInnerPrims c d pp js)).allPublics = st.allPublics := by
  induction js generalizing st with
  | nil => exact ⟨h1, rfl⟩
  | cons j rest ih =>
    have evict_case : SharesOnPublicsN c (st.apply (.evict d)) ∧ (st.apply (.evict d)).allPublics d = pp :=
      ⟨fun x v hv => h1 x v hv, hpp⟩
    unfold justInnerPrims
    split
    · rw [applyAll_cons]
      obtain ⟨a, b⟩ := ih (st.apply (.evict d)) evict_case.1 evict_case.2
      exact ⟨a, b⟩
    · cases pp with
      | none => exact ⟨fun x v hv => h1 x v hv, by first | rfl | trivial⟩
      | some p =>
        simp only
        split
        · rw [applyAll_cons]
          obtain ⟨a, b⟩ := ih (st.apply (.evict d)) evict_case.1 evict_case.2
          exact ⟨a, b⟩
        · rename_i hchk
          split
          · rw [applyAll_cons]
            obtain ⟨a, b⟩ := ih (st.apply (.evict d)) evict_case.1 evict_case.2
            exact ⟨a, b⟩
          · rw [applyAll_append]
            have hmid : SharesOnPublicsN c (st.applyAll (Prim.setStatus d j.shareIndex false ::
                (if (j.shareIndex == c.nidx) = true then [Prim.setValid d (j.share % c.q)] else []))) ∧
                (st.applyAll (Prim.setStatus d j.shareIndex false ::
                (if (j.shareIndex == c.nidx) = true then [Prim.setValid d (j.share % c.q)] else []))).allPublics = st.allPublics := by
              by_cases hme : (j.shareIndex == c.nidx) = true
              · simp only [hme, if_true, St.applyAll, List.foldl, St.apply]
                refine ⟨?_, by first | rfl | trivial⟩
                intro x v hv
                simp only [upd] at hv ⊢
                by_cases hx : x = d
                · subst hx
                  simp only [if_true, Option.some.injEq] at hv
                  refine ⟨p, hpp, ?_⟩
                  have e1 : j.share % c.q = pubEvalI c.q p j.shareIndex := by
                    simpa using hchk
                  have e2 : j.shareIndex = c.nidx := by simpa using hme
                  rw [← hv, e1, e2]
                · simp only [hx, if_false] at hv
                  exact h1 x v hv
              · simp only [hme, Bool.false_eq_true, if_false, St.applyAll, List.foldl, St.apply]
                exact ⟨fun x v hv => h1 x v hv, by first | rfl | trivial⟩
            obtain ⟨a, b⟩ := ih _ hmid.1 (by rw [hmid.2]; exact hpp)
            exact ⟨a, b.trans hmid.2⟩

theorem justStep_inv (c : Cfg) (acc : St × (Nat → Bool)) (b : JustBundle) (h1 : SharesOnPublicsN c acc.1) :
    SharesOnPublicsN c (justStep c acc b).1 := by
  unfold justStep justPrims
  simp only
  split_ifs
  · exact fun x v hv => h1 x v hv
  · exact h1
  · exact h1
  · exact h1
  · exact fun x v hv => h1 x v hv
  · exact (justInnerPrims_inv c _ _ _ acc.1 h1 rfl).1

theorem justFold_inv (c : Cfg) (l : List JustBundle) (acc : St × (Nat → Bool)) (h1 : SharesOnPublicsN c acc.1) :
    SharesOnPublicsN c (l.foldl (justStep c) acc).1 := by
  induction l generalizing acc with
  | nil => exact h1
  | cons b l ih => exact ih _ (justStep_inv c acc b h1)

/-- `ProcessJustifications` keeps "every stored share lies on the stored public polynomial". -/
theorem processJustifications_inv (c : Cfg) (st : St) (l : List JustBundle) (h1 : SharesOnPublicsN c st) :
    SharesOnPublicsN c (processJustifications c st l).1 := by
  have hf : SharesOnPublicsN c (justLoop c st l) := justFold_inv c l (st, fun _ => false) h1
  unfold processJustifications
  split_ifs
  · exact h1
  · exact h1
  · exact hf
  · exact fun x v hv => hf x v hv
  · exact fun x v hv => hf x v hv

theorem sharesOnPublicsN_cast (c : Cfg) (st : St) (h : SharesOnPublicsN c st) :
    ∀ d v, st.validShares d = some v →
      ∃ p, st.allPublics d = some p ∧ ((v : Nat) : ZMod c.q) = (toPoly c.q p).eval ((c.nidx : ZMod c.q) + 1) := by
  intro d v hv
  obtain ⟨p, h1, h2⟩ := h d v hv
  refine ⟨p, h1, ?_⟩
  rw [h2]; unfold pubEvalI
  rw [pubEvalAt_eq_evalAt, evalAt_cast, xEval_cast]

/-! ### where results come from -/

theorem respFin_result (c : Cfg) (p : St × RespOut) (r : Result) (h : (respFin c p).2 = .result (some r)) :
    p.2 = .result (some r) := by
  unfold respFin at h
  split at h
  · exact h
  · exact h
  · split at h
    · cases h
    · exact h

theorem respCore_result (c : Cfg) (st : St) (l : List ResponseBundle) (r : Result)
    (h : (respCore c st l).2 = .result (some r)) :
    ∃ X : St, X.validShares = st.validShares ∧ X.allPublics = st.allPublics ∧ (computeResult c X).2 = some r := by
  have hp := respAfterLoop_priv c st l
  unfold respCore at h
  split at h
  · simp only [RespOut.result.injEq] at h
    exact ⟨st, rfl, rfl, h⟩
  · simp only at h
    split at h
    · split at h
      · simp only [RespOut.result.injEq] at h
        exact ⟨_, hp.1, hp.2, h⟩
      · cases h
    · split at h
      · cases h
      · split at h <;> cases h

/-- A result returned by `ProcessResponses` is `computeResult` of a state with the caller's private part. -/
theorem processResponses_result (c : Cfg) (st : St) (l : List ResponseBundle) (r : Result)
    (h : (processResponses c st l).2 = .result (some r)) :
    ∃ X : St, X.validShares = st.validShares ∧ X.allPublics = st.allPublics ∧ (computeResult c X).2 = some r := by
  unfold processResponses at h
  split_ifs at h <;> first | (cases h; done) | exact respCore_result c st l r (respFin_result c _ r h)

theorem processJustifications_result (c : Cfg) (st : St) (l : List JustBundle) (r : Result)
    (h : (processJustifications c st l).2 = .result (some r)) :
    (computeResult c (justLoop c st l)).2 = some r := by
  unfold processJustifications at h
  split_ifs at h
  · simpa using h

theorem computeResult_fresh (c : Cfg) (hres : c.isResharing = false) (X : St) :
    (computeResult c X).1.validShares = X.validShares ∧ (computeResult c X).1.allPublics = X.allPublics ∧
      (computeResult c X).2 = computeDKGResult c (computeResult c X).1 := by
  refine ⟨rfl, rfl, ?_⟩
  unfold computeResult
  simp only [hres, Bool.false_eq_true, if_false]

theorem sharesOnPublicsN_of_priv (c : Cfg) {X Y : St} (h1 : X.validShares = Y.validShares)
    (h2 : X.allPublics = Y.allPublics) (h : SharesOnPublicsN c Y) : SharesOnPublicsN c X := by
  intro d v hv; rw [h1] at hv; rw [h2]; exact h d v hv

end Kyber.Dkg
