import KyberModel.Proto.Mask
import Mathlib.Tactic.NormNum
import Mathlib.Tactic.Ring
/-
Helper lemmas for the participation-mask models (C09): bits in bytes, bits in byte strings,
well-formedness of the BDN mask heap.
-/
namespace Kyber.Mask

theorem toNat_ofNat_lt (x : Nat) (h : x < 256) : (UInt8.ofNat x).toNat = x := by
  simp [UInt8.toNat_ofNat']; omega

theorem testB_setB (b : UInt8) (k j : Nat) (hk : k < 8) :
    testB (setB b k) j = (testB b j || decide (k = j)) := by
  unfold testB setB
  have hb : b.toNat < 2 ^ 8 := by have := b.toNat_lt; omega
  have h2 : 2 ^ k < 2 ^ 8 := Nat.pow_lt_pow_right (by norm_num) hk
  have : b.toNat ||| 2 ^ k < 2 ^ 8 := Nat.or_lt_two_pow hb h2
  rw [toNat_ofNat_lt _ (by omega)]
  simp [Nat.testBit_or, Nat.testBit_two_pow]

theorem testB_clrB (b : UInt8) (k j : Nat) (hj : j < 8) :
    testB (clrB b k) j = (testB b j && !decide (k = j)) := by
  unfold testB clrB
  have hb : b.toNat < 2 ^ 8 := by have := b.toNat_lt; omega
  have : b.toNat &&& (255 ^^^ 2 ^ k) < 2 ^ 8 := Nat.lt_of_le_of_lt Nat.and_le_left hb
  rw [toNat_ofNat_lt _ (by omega)]
  have e : (255 : Nat).testBit j = decide (j < 8) := by
    rw [show (255 : Nat) = 2 ^ 8 - 1 by norm_num, Nat.testBit_two_pow_sub_one]
  simp [Nat.testBit_and, Nat.testBit_xor, Nat.testBit_two_pow, e, hj]

theorem testB_orB (a b : UInt8) (j : Nat) : testB (orB a b) j = (testB a j || testB b j) := by
  unfold testB orB
  have ha : a.toNat < 2 ^ 8 := by have := a.toNat_lt; omega
  have hb : b.toNat < 2 ^ 8 := by have := b.toNat_lt; omega
  have : a.toNat ||| b.toNat < 2 ^ 8 := Nat.or_lt_two_pow ha hb
  rw [toNat_ofNat_lt _ (by omega)]
  simp [Nat.testBit_or]

@[simp] theorem writeBit_length (m : Bytes) (i : Nat) (en : Bool) : (writeBit m i en).length = m.length := by
  simp [writeBit]

/-- Reading any bit after writing bit `i`. -/
theorem bit_writeBit (m : Bytes) (i j : Nat) (en : Bool) (hi : i / 8 < m.length) :
    bit (writeBit m i en) j = if j = i then en else bit m j := by
  unfold bit writeBit
  have hi8 : i % 8 < 8 := Nat.mod_lt _ (by norm_num)
  have hj8 : j % 8 < 8 := Nat.mod_lt _ (by norm_num)
  by_cases hb : j / 8 = i / 8
  · rw [hb]
    simp only [List.getD_eq_getElem?_getD, List.getElem?_set_self hi, Option.getD_some]
    by_cases hji : j = i
    · subst hji
      cases en <;> simp [testB_setB _ _ _ hi8, testB_clrB _ _ _ hi8]
    · have hne : i % 8 ≠ j % 8 := by omega
      cases en <;> simp [testB_setB _ _ _ hi8, testB_clrB _ _ _ hj8, hne, hji]
  · have hji : j ≠ i := by rintro rfl; exact hb rfl
    have hb' : i / 8 ≠ j / 8 := fun h => hb h.symm
    simp [List.getD_eq_getElem?_getD, List.getElem?_set_ne hb', hji]

theorem bit_replicate_zero (k i : Nat) : bit (List.replicate k 0) i = false := by
  unfold bit testB
  by_cases h : i / 8 < k
  · simp [List.getD_eq_getElem?_getD, h]
  · simp [List.getD_eq_getElem?_getD, h]

theorem orBytes_length (a b : Bytes) (h : a.length = b.length) : (orBytes a b).length = a.length := by
  induction a generalizing b with
  | nil => cases b <;> simp_all [orBytes]
  | cons x xs ih =>
    cases b with
    | nil => simp at h
    | cons y ys => simp [orBytes, ih ys (by simpa using h)]

theorem orBytes_getD (a b : Bytes) (h : a.length = b.length) (k : Nat) :
    (orBytes a b).getD k 0 = orB (a.getD k 0) (b.getD k 0) := by
  induction a generalizing b k with
  | nil =>
    cases b with
    | nil => simp [orBytes, orB]
    | cons y ys => simp at h
  | cons x xs ih =>
    cases b with
    | nil => simp at h
    | cons y ys =>
      cases k with
      | zero => simp [orBytes]
      | succ k => simpa [orBytes] using ih ys (by simpa using h) k

/-- `Merge` is the bit-wise or. -/
theorem bit_orBytes (a b : Bytes) (h : a.length = b.length) (i : Nat) :
    bit (orBytes a b) i = (bit a i || bit b i) := by
  unfold bit
  rw [orBytes_getD a b h, testB_orB]

theorem maskLen_gt (n i : Nat) (h : i < n) : i / 8 < maskLen n := by
  unfold maskLen; omega

theorem enabled_lt (n : Nat) (m : Bytes) (i : Nat) (h : i ∈ enabled n m) : i < n := by
  unfold enabled at h
  exact List.mem_range.mp (List.mem_filter.mp h).1

theorem mem_enabled (n : Nat) (m : Bytes) (i : Nat) : i ∈ enabled n m ↔ i < n ∧ bit m i = true := by
  unfold enabled
  simp [List.mem_filter]

theorem countEnabled_le (n : Nat) (m : Bytes) : countEnabled n m ≤ n := by
  unfold countEnabled enabled
  calc ((List.range n).filter (bit m)).length ≤ (List.range n).length := List.length_filter_le _ _
    _ = n := List.length_range

/-! ### Well-formed heaps -/

/-- Every mask points at a buffer of the right length; every caller slice exists. -/
def WF (n : Nat) (h : Heap) : Prop :=
  (∀ o ∈ h.masks, ∃ buf, h.bufs[o.ref]? = some buf ∧ buf.length = maskLen n) ∧
  (∀ r ∈ h.caller, r < h.bufs.length)

theorem WF_empty (n : Nat) : WF n Heap.empty := by
  constructor <;> intro _ h <;> simp [Heap.empty] at h

theorem WF_alloc_mask {n : Nat} {h : Heap} (hw : WF n h) (buf : Bytes) (hl : buf.length = maskLen n) (c : Bool) :
    WF n ⟨h.bufs ++ [buf], h.masks ++ [⟨h.bufs.length, c⟩], h.caller⟩ := by
  constructor
  · intro o ho
    rcases List.mem_append.mp ho with ho | ho
    · obtain ⟨b, hb, hbl⟩ := hw.1 o ho
      have hlt : o.ref < h.bufs.length := by
        rcases List.getElem?_eq_some_iff.mp hb with ⟨hlt, _⟩; exact hlt
      exact ⟨b, by simp [List.getElem?_append_left hlt, hb], hbl⟩
    · simp at ho
      subst ho
      exact ⟨buf, by simp, hl⟩
  · intro r hr
    have := hw.2 r hr
    simp; omega

theorem WF_alloc_caller {n : Nat} {h : Heap} (hw : WF n h) (buf : Bytes) :
    WF n ⟨h.bufs ++ [buf], h.masks, h.caller ++ [h.bufs.length]⟩ := by
  constructor
  · intro o ho
    obtain ⟨b, hb, hbl⟩ := hw.1 o ho
    have hlt : o.ref < h.bufs.length := by
      rcases List.getElem?_eq_some_iff.mp hb with ⟨hlt, _⟩; exact hlt
    exact ⟨b, by simp [List.getElem?_append_left hlt, hb], hbl⟩
  · intro r hr
    rcases List.mem_append.mp hr with hr | hr
    · have := hw.2 r hr
      simp; omega
    · simp at hr; subst hr; simp

theorem WF_set_buf {n : Nat} {h : Heap} (hw : WF n h) (r : Nat) (old new : Bytes)
    (hold : h.bufs[r]? = some old) (hlen : new.length = old.length) :
    WF n ⟨h.bufs.set r new, h.masks, h.caller⟩ := by
  constructor
  · intro o ho
    obtain ⟨b, hb, hbl⟩ := hw.1 o ho
    by_cases hro : r = o.ref
    · subst hro
      have hlt : o.ref < h.bufs.length := by
        rcases List.getElem?_eq_some_iff.mp hb with ⟨hlt, _⟩; exact hlt
      refine ⟨new, by simp [List.getElem?_set_self hlt], ?_⟩
      rw [hold] at hb
      cases hb
      rw [hlen, hbl]
    · exact ⟨b, by simp [List.getElem?_set_ne hro, hb], hbl⟩
  · intro r' hr'
    have := hw.2 r' hr'
    simpa using this

theorem WF_set_mask {n : Nat} {h : Heap} (hw : WF n h) (m r : Nat) (c : Bool) (buf : Bytes)
    (hr : h.bufs[r]? = some buf) (hl : buf.length = maskLen n) :
    WF n ⟨h.bufs, h.masks.set m ⟨r, c⟩, h.caller⟩ := by
  constructor
  · intro o ho
    rcases List.mem_or_eq_of_mem_set ho with ho | ho
    · exact hw.1 o ho
    · subst ho
      exact ⟨buf, hr, hl⟩
  · exact hw.2

/-! ### Steps preserve well-formedness; frame lemmas -/

theorem step_wf (pubs : List Nat) (fixed : Bool) (h : Heap) (op : Op) (hw : WF pubs.length h) :
    WF pubs.length (step pubs fixed h op).1 := by
  cases op with
  | newMask own =>
    cases own with
    | none => exact WF_alloc_mask hw _ (by simp) _
    | some key =>
      simp only [step]
      split
      · exact hw
      · exact WF_alloc_mask hw _ (by simp) _
  | newBuf b => exact WF_alloc_caller hw b
  | poke b i v =>
    simp only [step]
    split
    · exact hw
    · next r hr =>
      split
      · exact hw
      · next buf hbuf =>
        split
        · exact WF_set_buf hw r buf _ hbuf (by simp)
        · exact hw
  | setMask m b =>
    simp only [step]
    split
    · rename_i o r _ _
      split
      · exact hw
      · rename_i buf hbuf
        split
        · exact hw
        · rename_i hl
          exact WF_set_mask hw m r _ buf hbuf (by simpa using (not_not.mp hl).symm)
    · exact hw
  | merge m b =>
    simp only [step]
    split
    · rename_i o buf _ _
      split
      · exact hw
      · rename_i cur hcur
        split
        · exact hw
        · rename_i hl
          exact WF_set_buf hw o.ref cur _ hcur (orBytes_length cur buf (not_not.mp hl))
    · exact hw
  | setBit m i en =>
    simp only [step]
    split
    · exact hw
    · rename_i o _
      split
      · exact hw
      · rename_i cur hcur
        split
        · exact hw
        · exact WF_set_buf hw o.ref cur _ hcur (by simp)
  | clone m =>
    simp only [step]
    split
    · exact hw
    · rename_i o ho
      split
      · exact hw
      · rename_i cur hcur
        obtain ⟨b, hb, hbl⟩ := hw.1 o (List.mem_of_getElem? ho)
        rw [hcur] at hb
        cases hb
        exact WF_alloc_mask hw cur hbl _
  | getBit m i => simp only [step]; split; exact hw; split <;> exact hw
  | maskBytes m => simp only [step]; split <;> exact hw
  | countEnabled m => simp only [step]; split <;> exact hw
  | countTotal m => simp only [step]; split <;> exact hw
  | len m => simp only [step]; split <;> exact hw
  | indexOfNth m k => simp only [step]; split <;> exact hw
  | nthAt m k => simp only [step]; split <;> exact hw
  | participants m => simp only [step]; split <;> exact hw
  | readBuf b => simp only [step]; split <;> exact hw

theorem run_wf (pubs : List Nat) (fixed : Bool) (ops : List Op) :
    ∀ (h : Heap), WF pubs.length h → WF pubs.length (run pubs fixed h ops).1 := by
  induction ops with
  | nil => intro h hw; simpa [run] using hw
  | cons op ops ih =>
    intro h hw
    simp only [run]
    exact ih _ (step_wf pubs fixed h op hw)

/-- Operations that act on mask `k` only through `SetBit` / `Merge`, or merely observe. -/
def Op.localTo (k : Nat) : Op → Prop
  | .setBit m _ _ => m = k
  | .merge m _ => m = k
  | .getBit _ _ | .maskBytes _ | .countEnabled _ | .countTotal _ | .len _ | .indexOfNth _ _
  | .nthAt _ _ | .participants _ | .readBuf _ => True
  | _ => False

theorem step_frame (pubs : List Nat) (fixed : Bool) (h : Heap) (op : Op) (k : Nat) (hloc : op.localTo k) :
    (step pubs fixed h op).1.masks = h.masks ∧ (step pubs fixed h op).1.caller = h.caller ∧
    (step pubs fixed h op).1.bufs.length = h.bufs.length ∧
    ∀ r, (∀ o, h.masks[k]? = some o → r ≠ o.ref) → (step pubs fixed h op).1.bufs[r]? = h.bufs[r]? := by
  cases op with
  | setBit m i en =>
    simp only [Op.localTo] at hloc
    subst hloc
    simp only [step]
    split
    · simp
    · next o ho =>
      split
      · simp
      · split
        · simp
        · refine ⟨rfl, rfl, by simp, ?_⟩
          intro r hr
          have := hr o ho
          simp [List.getElem?_set_ne (Ne.symm this)]
  | merge m b =>
    simp only [Op.localTo] at hloc
    subst hloc
    simp only [step]
    split
    · next o buf ho _ =>
      split
      · simp
      · split
        · simp
        · refine ⟨rfl, rfl, by simp, ?_⟩
          intro r hr
          have := hr o ho
          simp [List.getElem?_set_ne (Ne.symm this)]
    · simp
  | getBit m i => simp only [step]; split; simp; split <;> simp
  | maskBytes m => simp only [step]; split <;> simp
  | countEnabled m => simp only [step]; split <;> simp
  | countTotal m => simp only [step]; split <;> simp
  | len m => simp only [step]; split <;> simp
  | indexOfNth m k => simp only [step]; split <;> simp
  | nthAt m k => simp only [step]; split <;> simp
  | participants m => simp only [step]; split <;> simp
  | readBuf b => simp only [step]; split <;> simp
  | newMask _ => simp [Op.localTo] at hloc
  | newBuf _ => simp [Op.localTo] at hloc
  | poke _ _ _ => simp [Op.localTo] at hloc
  | setMask _ _ => simp [Op.localTo] at hloc
  | clone _ => simp [Op.localTo] at hloc

theorem run_frame (pubs : List Nat) (fixed : Bool) (k : Nat) (ops : List Op) :
    ∀ (h : Heap), (∀ op ∈ ops, op.localTo k) →
    (run pubs fixed h ops).1.masks = h.masks ∧
    ∀ r, (∀ o, h.masks[k]? = some o → r ≠ o.ref) → (run pubs fixed h ops).1.bufs[r]? = h.bufs[r]? := by
  induction ops with
  | nil => intro h _; simp [run]
  | cons op ops ih =>
    intro h hl
    have h1 := step_frame pubs fixed h op k (hl op (by simp))
    have h2 := ih (step pubs fixed h op).1 (fun op' ho => hl op' (by simp [ho]))
    simp only [run]
    refine ⟨by rw [h2.1, h1.1], ?_⟩
    intro r hr
    rw [h2.2 r (by rw [h1.1]; exact hr), h1.2.2.2 r hr]

end Kyber.Mask
