import KyberModel.Lib.SigmaVerdict
/-
C14 helper lemmas, part 9: two verifications of the same transcript against different public points;
byte consumption of the verifier (for the truncation theorem).
-/
namespace Kyber.Sigma
open Kyber Kyber.Scalar

theorem linComb_congr_pval (q : Nat) (pval pval' : Nat → Nat) (f : Nat → ZMod q) :
    ∀ ts : List Term, (∀ t ∈ ts, (pval' t.b : ZMod q) = (pval t.b : ZMod q)) →
      linComb q pval' f ts = linComb q pval f ts := by
  intro ts
  induction ts with
  | nil => intro _; rfl
  | cons t ts ih =>
    intro h
    have := ih (fun t' ht' => h t' (List.mem_cons_of_mem _ ht'))
    simp only [linComb, List.map_cons, List.sum_cons] at this ⊢
    rw [this, h t (List.mem_cons_self ..)]

/-- The same commitment, challenge and responses verify against two sets of public points that
    agree on the bases of a Rep only if `c·P' = c·P`. -/
theorem repChecks_two (q : Nat) (E E' : Params) (hq : E.q = q) (hq' : E'.q = q) (c : Nat) (r : Vec)
    (rp : RepS) (V : Nat) (h : RepChecks E c r rp V) (h' : RepChecks E' c r rp V)
    (hb : ∀ t ∈ rp.ts, (E'.pval t.b : ZMod q) = (E.pval t.b : ZMod q)) :
    (c : ZMod q) * (E'.pval rp.p : ZMod q) = (c : ZMod q) * (E.pval rp.p : ZMod q) := by
  subst hq
  unfold RepChecks at h h'
  rw [hq'] at h'
  have e1 := sumTerms_cast E.q E.pval r rp.ts _ _ h
  have e2 := sumTerms_cast E.q E'.pval r rp.ts _ _ h'
  rw [linComb_congr_pval E.q E.pval E'.pval _ rp.ts hb, mul_cast] at e2
  rw [mul_cast] at e1
  have := e1.symm.trans e2
  linear_combination -this

theorem forall₂_both {α β : Type} {R S : α → β → Prop} {l : List α} {l' : List β}
    (h1 : List.Forall₂ R l l') (h2 : List.Forall₂ S l l') : ∀ a ∈ l, ∃ b, R a b ∧ S a b := by
  induction h1 with
  | nil => intro a ha; cases ha
  | cons hd _ ih =>
    cases h2 with
    | cons hd2 tl2 =>
      intro a ha
      rcases List.mem_cons.mp ha with rfl | ha
      · exact ⟨_, hd, hd2⟩
      · exact ih tl2 a ha

/-! ### Byte consumption -/

/-- Number of responses `readResponses` reads. -/
def nRead (sv : List Nat) (ph : Vec) : Nat := (sv.filter (fun s => (ph s).isSome)).length

theorem nRead_set (sv : List Nat) (ph : Vec) (s x : Nat) (h : (ph s).isSome) :
    nRead sv (ph.set s x) = nRead sv ph := by
  unfold nRead
  congr 1
  apply List.filter_congr
  intro s' _
  unfold Vec.set
  by_cases hs : s' = s
  · simp [hs, h]
  · simp [hs]

theorem readResponses_consumes (E : Params) : ∀ (sv : List Nat) (ph : Vec) (st st' : VCtx) (r : Vec),
    readResponses E sv ph st = .ok (r, st') → st'.rest.length + nRead sv ph * E.cd.slen = st.rest.length := by
  intro sv
  induction sv with
  | nil =>
    intro ph st st' r h
    simp only [readResponses, Except.ok.injEq, Prod.mk.injEq] at h
    simp [nRead, h.2]
  | cons s sv ih =>
    intro ph st st' r h
    unfold readResponses at h
    cases hp : ph s with
    | none =>
      rw [hp] at h
      have := ih ph st st' r h
      simpa [nRead, hp] using this
    | some y =>
      rw [hp] at h
      cases hg : st.get E.cd.slen E.cd.decS with
      | error e => rw [hg] at h; cases h
      | ok res =>
        obtain ⟨x, st1⟩ := res
        rw [hg] at h
        obtain ⟨g1, g2, _⟩ := VCtx.get_ok hg
        have := ih _ st1 st' r h
        rw [nRead_set sv ph s x (by rw [hp]; rfl)] at this
        have hl : st1.rest.length + E.cd.slen = st.rest.length := by
          rw [g2, List.length_drop]; omega
        have hn : nRead (s :: sv) ph = nRead sv ph + 1 := by simp [nRead, hp]
        rw [hn, Nat.add_mul]; omega

theorem readScalars_consumes (E : Params) : ∀ (n : Nat) (st st' : VCtx) (ci : List Nat),
    readScalars E n st = .ok (ci, st') → st'.rest.length + n * E.cd.slen = st.rest.length := by
  intro n
  induction n with
  | zero =>
    intro st st' ci h
    simp only [readScalars, Except.ok.injEq, Prod.mk.injEq] at h
    simp [h.2]
  | succ n ih =>
    intro st st' ci h
    unfold readScalars at h
    cases hg : st.get E.cd.slen E.cd.decS with
    | error e => rw [hg] at h; cases h
    | ok res =>
      obtain ⟨x, st1⟩ := res
      rw [hg] at h
      simp only at h
      cases hr : readScalars E n st1 with
      | error e => rw [hr] at h; cases h
      | ok res2 =>
        obtain ⟨xs, st2⟩ := res2
        rw [hr] at h
        simp only [Except.ok.injEq, Prod.mk.injEq] at h
        obtain ⟨_, rfl⟩ := h
        obtain ⟨g1, g2, _⟩ := VCtx.get_ok hg
        have := ih st1 st2 xs hr
        have hl : st1.rest.length + E.cd.slen = st.rest.length := by
          rw [g2, List.length_drop]; omega
        rw [Nat.add_mul]; omega

/-- A successful `getCommits` of an And-scope read one point per Rep. -/
theorem getCommitsAnd_parse (E : Params) : ∀ (rs : List RepS) (r : Vec) (st st' : VCtx) (vps : List VP) (r' : Vec),
    getCommitsAnd E (rs.map RepS.toPred) r st = .ok (st', vps, r') →
      ∃ Vs, Vs.length = rs.length ∧ vps = vpReps rs Vs r ∧ r' = placeReps rs r ∧
        st'.rest.length + rs.length * E.cd.plen = st.rest.length := by
  intro rs
  induction rs with
  | nil =>
    intro r st st' vps r' h
    simp only [List.map_nil, getCommitsAnd, Except.ok.injEq, Prod.mk.injEq] at h
    obtain ⟨rfl, rfl, rfl⟩ := h
    exact ⟨[], rfl, by simp [vpReps], by simp [placeReps], by simp⟩
  | cons rp rs ih =>
    intro r st st' vps r' h
    simp only [List.map_cons, getCommitsAnd, RepS.toPred, getCommits, mkVec, Option.getD_some, placeTermsB_v] at h
    cases hg : st.get E.cd.plen E.cd.decP with
    | error e => rw [hg] at h; cases h
    | ok res =>
      obtain ⟨V, st1⟩ := res
      rw [hg] at h
      simp only at h
      cases hr : getCommitsAnd E (rs.map RepS.toPred) (placeTerms rp.ts r) st1 with
      | error e =>
        rw [hr] at h; cases h
      | ok res2 =>
        obtain ⟨st2, vps2, r2⟩ := res2
        rw [hr] at h
        simp only [Except.ok.injEq, Prod.mk.injEq] at h
        obtain ⟨rfl, rfl, rfl⟩ := h
        obtain ⟨Vs, h1, h2, h3, h4⟩ := ih _ st1 st2 vps2 r2 hr
        obtain ⟨g1, g2, _⟩ := VCtx.get_ok hg
        refine ⟨V :: Vs, by simp [h1], by simp [vpReps, h2], by simp [placeReps, h3], ?_⟩
        have hl : st1.rest.length + E.cd.plen = st.rest.length := by
          rw [g2, List.length_drop]; omega
        rw [List.length_cons, Nat.add_mul]; omega

theorem getCommits_scope_parse (E : Params) (sc : Scope) (st st' : VCtx) (vp : VP) (r : Vec)
    (h : getCommits E sc.toPred none st = .ok (st', vp, r)) :
    ∃ Vs, Vs.length = sc.reps.length ∧ vp = sc.vp Vs ∧
      st'.rest.length + sc.reps.length * E.cd.plen = st.rest.length := by
  cases sc with
  | one rp =>
    simp only [Scope.toPred, RepS.toPred, getCommits, mkVec, Option.getD_none] at h
    cases hg : st.get E.cd.plen E.cd.decP with
    | error e => rw [hg] at h; cases h
    | ok res =>
      obtain ⟨V, st1⟩ := res
      rw [hg] at h
      simp only [Except.ok.injEq, Prod.mk.injEq] at h
      obtain ⟨rfl, rfl, rfl⟩ := h
      obtain ⟨g1, g2, _⟩ := VCtx.get_ok hg
      refine ⟨[V], rfl, by simp [Scope.vp, placeTermsB_v], ?_⟩
      simp only [Scope.reps, List.length_singleton, Nat.one_mul]
      rw [g2, List.length_drop]; omega
  | all rs =>
    simp only [Scope.toPred, getCommits, mkVec, Option.getD_none] at h
    cases hr : getCommitsAnd E (rs.map RepS.toPred) Vec.empty st with
    | error e => rw [hr] at h; cases h
    | ok res =>
      obtain ⟨st2, vps2, r2⟩ := res
      rw [hr] at h
      simp only [Except.ok.injEq, Prod.mk.injEq] at h
      obtain ⟨rfl, rfl, rfl⟩ := h
      obtain ⟨Vs, h1, h2, h3, h4⟩ := getCommitsAnd_parse E rs _ st st2 vps2 r2 hr
      exact ⟨Vs, h1, by simp [Scope.vp, h2, h3], h4⟩

/-- Bytes a scope's `verify` reads. -/
def Scope.nResp (E : Params) (sc : Scope) : Nat := nRead E.sv sc.ph

theorem verify_scope_consumes (E : Params) (sc : Scope) (Vs : List Nat) (c : Nat) (st st' : VCtx)
    (hl : Vs.length = sc.reps.length) (h : verify E sc.toPred (sc.vp Vs) c none st = .ok st') :
    st'.rest.length + sc.nResp E * E.cd.slen = st.rest.length := by
  obtain ⟨r, hr, _⟩ := (verify_scope E sc Vs c st st' hl).mp h
  exact readResponses_consumes E _ _ _ _ _ hr

/-- Length of the layout of an `Or` of scopes: commitments, sub-challenges (if more than one
    branch), responses. -/
def commitLen (E : Params) (scs : List Scope) : Nat := (scs.map (fun sc => sc.reps.length * E.cd.plen)).sum
def respLen (E : Params) (scs : List Scope) : Nat := (scs.map (fun sc => sc.nResp E * E.cd.slen)).sum
def orLen (E : Params) (scs : List Scope) : Nat :=
  commitLen E scs + (if 1 < scs.length then scs.length * E.cd.slen else 0) + respLen E scs

theorem getCommitsOr_parse (E : Params) : ∀ (scs : List Scope) (st st' : VCtx) (vps : List VP),
    getCommitsOr E (scs.map Scope.toPred) st = .ok (st', vps) →
      ∃ Vss : List (List Nat), List.Forall₂ (fun sc Vs => Vs.length = sc.reps.length) scs Vss ∧
        List.Forall₂ (fun sc (x : VP × List Nat) => x.1 = sc.vp x.2) scs (vps.zip Vss) ∧ vps.length = scs.length ∧
        st'.rest.length + commitLen E scs = st.rest.length := by
  intro scs
  induction scs with
  | nil =>
    intro st st' vps h
    simp only [List.map_nil, getCommitsOr, Except.ok.injEq, Prod.mk.injEq] at h
    obtain ⟨rfl, rfl⟩ := h
    exact ⟨[], List.Forall₂.nil, by simp, rfl, by simp [commitLen]⟩
  | cons sc scs ih =>
    intro st st' vps h
    simp only [List.map_cons, getCommitsOr] at h
    cases hg : getCommits E sc.toPred none st with
    | error e => rw [hg] at h; cases h
    | ok res =>
      obtain ⟨st1, vp, r⟩ := res
      rw [hg] at h
      simp only at h
      cases hr : getCommitsOr E (scs.map Scope.toPred) st1 with
      | error e => rw [hr] at h; cases h
      | ok res2 =>
        obtain ⟨st2, vps2⟩ := res2
        rw [hr] at h
        simp only [Except.ok.injEq, Prod.mk.injEq] at h
        obtain ⟨rfl, rfl⟩ := h
        obtain ⟨Vs, h1, h2, h3⟩ := getCommits_scope_parse E sc st st1 vp r hg
        obtain ⟨Vss, i1, i2, i3, i4⟩ := ih st1 st2 vps2 hr
        refine ⟨Vs :: Vss, List.Forall₂.cons h1 i1, ?_, by simp [i3], ?_⟩
        · simp only [List.zip_cons_cons]
          exact List.Forall₂.cons h2 i2
        · simp only [commitLen, List.map_cons, List.sum_cons] at i4 ⊢
          omega

theorem verifyOr_consumes (E : Params) : ∀ (scs : List Scope) (vps : List VP) (Vss : List (List Nat))
    (cis : List Nat) (st st' : VCtx),
    List.Forall₂ (fun sc Vs => Vs.length = sc.reps.length) scs Vss →
    List.Forall₂ (fun sc (x : VP × List Nat) => x.1 = sc.vp x.2) scs (vps.zip Vss) → vps.length = scs.length →
    verifyOr E (scs.map Scope.toPred) vps cis st = .ok st' →
      st'.rest.length + respLen E scs = st.rest.length := by
  intro scs
  induction scs with
  | nil =>
    intro vps Vss cis st st' _ _ _ h
    simp only [List.map_nil, verifyOr, Except.ok.injEq] at h
    simp [respLen, h]
  | cons sc scs ih =>
    intro vps Vss cis st st' h1 h2 h3 h
    cases h1 with
    | @cons _ Vs _ Vss' a1 b1 =>
      cases vps with
      | nil => simp at h3
      | cons vp vps =>
        simp only [List.zip_cons_cons] at h2
        cases h2 with
        | cons a2 b2 =>
          simp only at a2
          cases cis with
          | nil => simp [verifyOr] at h
          | cons c cis =>
            simp only [List.map_cons, verifyOr] at h
            cases hv : verify E sc.toPred vp c none st with
            | error e => rw [hv] at h; cases h
            | ok st1 =>
              rw [hv] at h
              simp only at h
              rw [a2] at hv
              have e1 := verify_scope_consumes E sc Vs c st st1 a1 hv
              have e2 := ih vps Vss' cis st1 st' b1 b2 (by simpa using h3) h
              simp only [respLen, List.map_cons, List.sum_cons] at e2 ⊢
              omega

theorem VCtx.pubRand_rest (E : Params) (st : VCtx) : (st.pubRand E).2.rest = st.rest := by
  unfold VCtx.pubRand VCtx.consume
  by_cases h : st.pend.isEmpty <;> simp [h]

/-- An accepted proof of an `Or` of scopes is at least as long as the predicate's layout. -/
theorem hashVerify_or_length (E : Params) (scs : List Scope) (π : Bytes)
    (h : hashVerify E (orPred scs) π = .ok ()) : orLen E scs ≤ π.length := by
  obtain ⟨st, vp, r, st', hg, hv⟩ := (hashVerify_iff E _ _).mp h
  simp only [orPred, getCommits] at hg
  cases hgo : getCommitsOr E (scs.map Scope.toPred) (VCtx.init π) with
  | error e => rw [hgo] at hg; cases hg
  | ok res =>
    obtain ⟨st0, vps⟩ := res
    rw [hgo] at hg
    simp only [Except.ok.injEq, Prod.mk.injEq] at hg
    obtain ⟨rfl, rfl, rfl⟩ := hg
    obtain ⟨Vss, p1, p2, p3, p4⟩ := getCommitsOr_parse E scs _ _ _ hgo
    have hπ : (VCtx.init π).rest.length = π.length := rfl
    have hrest := congrArg List.length (VCtx.pubRand_rest E st0)
    simp only [orPred, verify, List.length_map] at hv
    by_cases h0 : scs.length = 0
    · simp [h0] at hv
    · simp only [h0, if_false] at hv
      by_cases h1 : 1 < scs.length
      · simp only [gt_iff_lt, h1, if_true] at hv
        cases hrs : readScalars E scs.length (st0.pubRand E).2 with
        | error e => rw [hrs] at hv; cases hv
        | ok res =>
          obtain ⟨ci, st1⟩ := res
          rw [hrs] at hv
          simp only at hv
          split at hv
          · have e1 := readScalars_consumes E _ _ _ _ hrs
            have e2 := verifyOr_consumes E scs vps Vss ci st1 st' p1 p2 p3 hv
            simp only [orLen, h1, if_true]
            omega
          · cases hv
      · simp only [gt_iff_lt, h1, if_false] at hv
        have e2 := verifyOr_consumes E scs vps Vss _ _ st' p1 p2 p3 hv
        simp only [orLen, h1, if_false]
        omega

def scopeLen (E : Params) (sc : Scope) : Nat := sc.reps.length * E.cd.plen + sc.nResp E * E.cd.slen

theorem hashVerify_scope_length (E : Params) (sc : Scope) (π : Bytes)
    (h : hashVerify E sc.toPred π = .ok ()) : scopeLen E sc ≤ π.length := by
  obtain ⟨st, vp, r, st', hg, hv⟩ := (hashVerify_iff E _ _).mp h
  obtain ⟨Vs, h1, h2, h3⟩ := getCommits_scope_parse E sc _ _ _ _ hg
  rw [h2] at hv
  have e := verify_scope_consumes E sc Vs _ _ st' h1 hv
  have hπ : (VCtx.init π).rest.length = π.length := rfl
  rw [VCtx.pubRand_rest] at e
  unfold scopeLen
  omega

/-! ### Length of the honest proof -/

theorem encPs_length (cd : Codec) (q : Nat) (hc : cd.Lawful q) (l : List Nat) :
    (encPs cd l).length = l.length * cd.plen := by
  induction l with
  | nil => simp [encPs]
  | cons x l ih => rw [encPs_cons, List.length_append, ih, hc.encP_len, List.length_cons, Nat.add_mul]; omega

theorem encSs_length (cd : Codec) (q : Nat) (hc : cd.Lawful q) (l : List Nat) :
    (encSs cd l).length = l.length * cd.slen := by
  induction l with
  | nil => simp [encSs]
  | cons x l ih => rw [encSs_cons, List.length_append, ih, hc.encS_len, List.length_cons, Nat.add_mul]; omega

theorem length_filterMap_isSome {α β : Type} (f : α → Option β) (l : List α) :
    (l.filterMap f).length = (l.filter (fun a => (f a).isSome)).length := by
  induction l with
  | nil => rfl
  | cons a l ih =>
    cases h : f a with
    | none => simp [h, ih]
    | some b => simp [h, ih]

theorem respVec_count (E : Params) (sval : Nat → Nat) (sc : Scope) (d : ScopeData) (c : Nat)
    (h : ScopeShape E.q sc d) : (E.sv.filterMap (respVec E.q sval sc d c)).length = sc.nResp E := by
  rw [length_filterMap_isSome]
  unfold Scope.nResp nRead
  congr 1
  apply List.filter_congr
  intro s _
  have h1 := respVec_isSome E.q sval sc d c h s
  have h2 := (placeReps_spec sc.reps Vec.empty).2 s
  simp only [Vec.empty, Option.isSome_none, Bool.false_eq_true, false_or] at h2
  rw [Bool.eq_iff_iff]
  exact h1.trans h2.symm

theorem commitBytes_length (E : Params) (hc : E.cd.Lawful E.q) : ∀ (scs : List Scope) (ds : List ScopeData),
    List.Forall₂ (ScopeShape E.q) scs ds → (commitBytes E.cd ds).length = commitLen E scs := by
  intro scs ds h
  induction h with
  | nil => simp [commitBytes, commitLen]
  | @cons sc d scs ds hd _ ih =>
    simp only [commitBytes, List.flatMap_cons, List.length_append, commitLen, List.map_cons, List.sum_cons] at ih ⊢
    rw [ih, encPs_length E.cd E.q hc, hd.1]

theorem respBytes_length (E : Params) (hc : E.cd.Lawful E.q) (sval : Nat → Nat) :
    ∀ (scs : List Scope) (ds : List ScopeData) (cis : List Nat),
      List.Forall₂ (ScopeShape E.q) scs ds → cis.length = scs.length →
      (respBytes E sval scs ds cis).length = respLen E scs := by
  intro scs ds cis h
  induction h generalizing cis with
  | nil => intro _; cases cis <;> simp [respBytes, respLen]
  | @cons sc d scs ds hd _ ih =>
    intro hl
    cases cis with
    | nil => simp at hl
    | cons c cis =>
      have := ih cis (by simpa using hl)
      simp only [respBytes, List.length_append, respLen, List.map_cons, List.sum_cons] at this ⊢
      rw [this, encSs_length E.cd E.q hc, respVec_count E sval sc d c hd]

end Kyber.Sigma
