import KyberModel.Lib.MaskLemmas
import KyberModel.Props.C02
import Mathlib.Algebra.BigOperators.Group.Finset.Basic
import Mathlib.Algebra.BigOperators.Ring.Finset
/-
Helper lemmas for the CoSi mask (C09): `AggregatePublic` is kept in step with the bits.
-/
namespace Kyber.Mask
open Kyber.Scalar

variable {q : Nat}

/-- What `AggregatePublic` must be: the sum of the public keys whose bit (below `len(publics)`) is set. -/
noncomputable def aggSpec (q : Nat) (pubs : List Nat) (m : Bytes) : ZMod q :=
  ∑ i ∈ Finset.range pubs.length, if bit m i then (pubs.getD i 0 : ZMod q) else 0

theorem aggSpec_congr (pubs : List Nat) (m m' : Bytes)
    (h : ∀ i, i < pubs.length → bit m i = bit m' i) : aggSpec q pubs m = aggSpec q pubs m' := by
  unfold aggSpec
  apply Finset.sum_congr rfl
  intro i hi
  rw [h i (Finset.mem_range.mp hi)]

theorem aggSpec_writeBit (pubs : List Nat) (m : Bytes) (i : Nat) (en : Bool) (hi : i < pubs.length)
    (hl : m.length = maskLen pubs.length) :
    aggSpec q pubs (writeBit m i en) =
      aggSpec q pubs m - (if bit m i then (pubs.getD i 0 : ZMod q) else 0)
        + (if en then (pubs.getD i 0 : ZMod q) else 0) := by
  unfold aggSpec
  have hmem : i ∈ Finset.range pubs.length := Finset.mem_range.mpr hi
  have hi8 : i / 8 < m.length := by rw [hl]; exact maskLen_gt _ _ hi
  rw [← Finset.add_sum_erase _ _ hmem, ← Finset.add_sum_erase (Finset.range pubs.length) _ hmem]
  have hrest : ∑ x ∈ (Finset.range pubs.length).erase i,
        (if bit (writeBit m i en) x then (pubs.getD x 0 : ZMod q) else 0)
      = ∑ x ∈ (Finset.range pubs.length).erase i, (if bit m x then (pubs.getD x 0 : ZMod q) else 0) := by
    apply Finset.sum_congr rfl
    intro x hx
    have hne : x ≠ i := (Finset.mem_erase.mp hx).1
    rw [bit_writeBit m i x en hi8, if_neg hne]
  rw [hrest, bit_writeBit m i i en hi8, if_pos rfl]
  ring

/-- Invariant of a CoSi mask. -/
def CInv (q : Nat) (pubs : List Nat) (c : CMask) : Prop :=
  c.mask.length = maskLen pubs.length ∧ (c.agg : ZMod q) = aggSpec q pubs c.mask

theorem setBitRaw_bit (pubs : List Nat) (c : CMask) (i j : Nat) (en : Bool) (hi : i < pubs.length)
    (hl : c.mask.length = maskLen pubs.length) :
    bit (c.setBitRaw q pubs i en).mask j = if j = i then en else bit c.mask j := by
  have hi8 : i / 8 < c.mask.length := by rw [hl]; exact maskLen_gt _ _ hi
  unfold CMask.setBitRaw
  by_cases hj : j = i
  · subst hj
    cases hb : bit c.mask j <;> cases en <;> simp [hb, bit_writeBit _ _ _ _ hi8]
  · cases hb : bit c.mask i <;> cases en <;> simp [hb, hj, bit_writeBit _ _ _ _ hi8]

theorem setBitRaw_length (pubs : List Nat) (c : CMask) (i : Nat) (en : Bool) :
    (c.setBitRaw q pubs i en).mask.length = c.mask.length := by
  unfold CMask.setBitRaw
  cases bit c.mask i <;> cases en <;> simp

theorem setBitRaw_inv (hq : 0 < q) (pubs : List Nat) (c : CMask) (i : Nat) (en : Bool) (hi : i < pubs.length)
    (hc : CInv q pubs c) : CInv q pubs (c.setBitRaw q pubs i en) := by
  refine ⟨by rw [setBitRaw_length]; exact hc.1, ?_⟩
  unfold CMask.setBitRaw
  cases hb : bit c.mask i <;> cases en <;>
    simp [hb, add_cast, sub_cast hq, aggSpec_writeBit pubs c.mask i _ hi hc.1, hc.2]

theorem aggSpec_zero (pubs : List Nat) (k : Nat) : aggSpec q pubs (List.replicate k 0) = 0 := by
  unfold aggSpec
  apply Finset.sum_eq_zero
  intro i _
  simp [bit_replicate_zero]

theorem CInv_zero (pubs : List Nat) : CInv q pubs ⟨List.replicate (maskLen pubs.length) 0, 0⟩ := by
  refine ⟨by simp, ?_⟩
  simp [aggSpec_zero]

theorem findKey_lt (pubs : List Nat) (key i : Nat) (h : findKey pubs key = some i) : i < pubs.length := by
  unfold findKey at h
  obtain ⟨hlt, _⟩ := List.idxOf?_eq_some_iff.mp h
  exact hlt

theorem new_inv (hq : 0 < q) (pubs : List Nat) (own : Option Nat) (c : CMask)
    (h : CMask.new q pubs own = some c) : CInv q pubs c := by
  unfold CMask.new at h
  cases own with
  | none => simp at h; subst h; exact CInv_zero pubs
  | some key =>
    simp only at h
    split at h
    · simp at h
    · next i hi =>
      have hlt := findKey_lt pubs key i hi
      unfold CMask.setBit at h
      rw [if_neg (by omega)] at h
      cases h
      exact setBitRaw_inv hq pubs _ i true hlt (CInv_zero pubs)

/-- The fold of `SetMask` over the first `k` indices. -/
theorem setMask_fold (hq : 0 < q) (pubs : List Nat) (m : Bytes) (k : Nat) (hk : k ≤ pubs.length) (c : CMask)
    (hc : CInv q pubs c) :
    CInv q pubs ((List.range k).foldl (fun c i => c.setBitRaw q pubs i (bit m i)) c) ∧
    ∀ j, bit ((List.range k).foldl (fun c i => c.setBitRaw q pubs i (bit m i)) c).mask j
      = if j < k then bit m j else bit c.mask j := by
  induction k with
  | zero => simp [hc]
  | succ k ih =>
    obtain ⟨h1, h2⟩ := ih (by omega)
    rw [List.range_succ, List.foldl_append]
    simp only [List.foldl_cons, List.foldl_nil]
    refine ⟨setBitRaw_inv hq pubs _ k _ (by omega) h1, ?_⟩
    intro j
    rw [setBitRaw_bit pubs _ k j _ (by omega) h1.1, h2 j]
    by_cases hj : j = k
    · subst hj; simp
    · have : (j < k + 1) = (j < k) := by apply propext; omega
      simp [hj, this]

theorem setMask_inv (hq : 0 < q) (pubs : List Nat) (c c' : CMask) (m : Bytes) (hc : CInv q pubs c)
    (h : c.setMask q pubs m = some c') :
    CInv q pubs c' ∧ m.length = maskLen pubs.length ∧ ∀ j, j < pubs.length → bit c'.mask j = bit m j := by
  unfold CMask.setMask at h
  split at h
  · simp at h
  · next hl =>
    cases h
    obtain ⟨h1, h2⟩ := setMask_fold hq pubs m pubs.length (le_refl _) c hc
    refine ⟨h1, (not_not.mp hl).symm, ?_⟩
    intro j hj
    rw [h2 j, if_pos hj]

theorem cstep_inv (hq : 0 < q) (pubs : List Nat) (c : CMask) (op : COp) (hc : CInv q pubs c) :
    CInv q pubs (cstep q pubs c op).1 := by
  cases op with
  | setBit i en =>
    simp only [cstep, CMask.setBit]
    split
    · next h => split at h <;> simp_all
    · next c' h =>
      split at h
      · simp at h
      · next hi => cases h; exact setBitRaw_inv hq pubs c i en (by omega) hc
  | setMask m =>
    simp only [cstep]
    split
    · exact hc
    · next c' h => exact (setMask_inv hq pubs c c' m hc h).1
  | indexEnabled i => simp only [cstep]; split <;> exact hc
  | keyEnabled k => simp only [cstep]; split <;> exact hc
  | countEnabled => exact hc
  | countTotal => exact hc
  | len => exact hc
  | maskBytes => exact hc
  | aggregate => exact hc

theorem crun_inv (hq : 0 < q) (pubs : List Nat) (ops : List COp) :
    ∀ c : CMask, CInv q pubs c → CInv q pubs (crun q pubs c ops).1 := by
  induction ops with
  | nil => intro c hc; simpa [crun] using hc
  | cons op ops ih =>
    intro c hc
    simp only [crun]
    exact ih _ (cstep_inv hq pubs c op hc)

theorem countEnabled_congr (n : Nat) (m m' : Bytes) (h : ∀ i, i < n → bit m i = bit m' i) :
    countEnabled n m = countEnabled n m' := by
  unfold countEnabled enabled
  congr 1
  apply List.filter_congr
  intro i hi
  exact h i (List.mem_range.mp hi)

theorem foldl_add_cast (l : List Nat) (a : Nat) :
    ((l.foldl (add q) a : Nat) : ZMod q) = (a : ZMod q) + (l.map (Nat.cast : Nat → ZMod q)).sum := by
  induction l generalizing a with
  | nil => simp
  | cons x xs ih => rw [List.foldl_cons, ih, add_cast, List.map_cons, List.sum_cons]; ring

theorem foldl_add_lt (hq : 0 < q) (l : List Nat) (a : Nat) (ha : a < q) : l.foldl (add q) a < q := by
  induction l generalizing a with
  | nil => simpa using ha
  | cons x xs ih => exact ih _ (add_lt hq _ _)

/-- The aggregate key as a sum over the list of participants. -/
theorem aggSpec_eq_list_sum (pubs : List Nat) (m : Bytes) :
    aggSpec q pubs m = ((enabled pubs.length m).map (fun i => (pubs.getD i 0 : ZMod q))).sum := by
  unfold aggSpec enabled
  rw [← Finset.sum_filter, ← List.sum_toFinset _ ((List.nodup_range).filter _)]
  congr 1
  ext i
  simp [List.mem_filter]

end Kyber.Mask
