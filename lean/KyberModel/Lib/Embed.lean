import KyberModel.Groups.Embed
import KyberModel.Lib.Bytes
import KyberModel.Lib.Decode
import Mathlib.Data.ZMod.Basic
/-
Helper lemmas for `Props/C17.lean`: the retry loop of `Embed` and byte-level facts about re-encoding.
-/
namespace Kyber.EmbedLib
open Kyber

/-- A successful loop consumed at least one block and no more than the stream holds. -/
theorem embedLoop_bounds {α : Type} (n : Nat) (try_ : Bytes → Option α) :
    ∀ (fuel : Nat) (s : Bytes) (used : Nat) (v : α) (m : Nat),
      embedLoop n try_ fuel s used = some (v, m) → 0 < n ∧ used + n ≤ m ∧ m - used ≤ s.length := by
  intro fuel
  induction fuel with
  | zero => intro s used v m h; simp [embedLoop] at h
  | succ f ih =>
    intro s used v m h
    unfold embedLoop at h
    split_ifs at h with h0
    have hn : 0 < n := by omega
    have hl : n ≤ s.length := by omega
    cases ht : try_ (s.take n) with
    | some w =>
      rw [ht] at h
      simp only [Option.some.injEq, Prod.mk.injEq] at h
      obtain ⟨_, rfl⟩ := h
      exact ⟨hn, le_refl _, by omega⟩
    | none =>
      rw [ht] at h
      obtain ⟨_, h2, h3⟩ := ih _ _ _ _ h
      simp only [List.length_drop] at h3
      exact ⟨hn, by omega, by omega⟩

/-- The accepted block: the result comes from `try_` on one of the blocks, and the value returned
    satisfies whatever `try_` guarantees. -/
theorem embedLoop_try {α : Type} (n : Nat) (try_ : Bytes → Option α) :
    ∀ (fuel : Nat) (s : Bytes) (used : Nat) (v : α) (m : Nat),
      embedLoop n try_ fuel s used = some (v, m) → ∃ blk : Bytes, blk.length = n ∧ try_ blk = some v := by
  intro fuel
  induction fuel with
  | zero => intro s used v m h; simp [embedLoop] at h
  | succ f ih =>
    intro s used v m h
    unfold embedLoop at h
    split_ifs at h with h0
    cases ht : try_ (s.take n) with
    | some w =>
      rw [ht] at h
      simp only [Option.some.injEq, Prod.mk.injEq] at h
      obtain ⟨rfl, _⟩ := h
      exact ⟨s.take n, by simp; omega, ht⟩
    | none =>
      rw [ht] at h
      exact ih _ _ _ _ h

/-- The result is determined by the bytes consumed: any stream with the same first `m - used` bytes
    (and enough fuel) gives the same element and the same count. -/
theorem embedLoop_prefix {α : Type} (n : Nat) (try_ : Bytes → Option α) :
    ∀ (fuel : Nat) (s : Bytes) (used : Nat) (v : α) (m : Nat),
      embedLoop n try_ fuel s used = some (v, m) →
      ∀ (fuel' : Nat) (s' : Bytes), m - used ≤ fuel' → s'.take (m - used) = s.take (m - used) →
        m - used ≤ s'.length → embedLoop n try_ fuel' s' used = some (v, m) := by
  intro fuel
  induction fuel with
  | zero => intro s used v m h; simp [embedLoop] at h
  | succ f ih =>
    intro s used v m h fuel' s' hf hs hl'
    obtain ⟨hn, hm1, hm2⟩ := embedLoop_bounds n try_ _ _ _ _ _ h
    unfold embedLoop at h
    split_ifs at h with h0
    have hk : n ≤ m - used := by omega
    have htake : s'.take n = s.take n := by
      have := congrArg (List.take n) hs
      simpa [List.take_take, Nat.min_eq_left hk] using this
    obtain ⟨f', rfl⟩ : ∃ f', fuel' = f' + 1 := ⟨fuel' - 1, by omega⟩
    unfold embedLoop
    rw [if_neg (by omega), htake]
    cases ht : try_ (s.take n) with
    | some w =>
      rw [ht] at h
      simpa using h
    | none =>
      rw [ht] at h
      simp only
      obtain ⟨_, hm3, _⟩ := embedLoop_bounds n try_ _ _ _ _ _ h
      apply ih _ _ _ _ h f' (s'.drop n) (by omega)
      · have := congrArg (List.drop n) hs
        simp only [List.drop_take] at this
        have e : m - used - n = m - (used + n) := by omega
        rw [e] at this
        exact this
      · simp only [List.length_drop]; omega

theorem encodeLE_take (a b v : Nat) : (encodeLE (a + b) v).take a = encodeLE a v := by
  induction a generalizing v with
  | zero => simp [encodeLE]
  | succ a ih =>
    have : a + 1 + b = (a + b) + 1 := by omega
    rw [this]
    simp only [encodeLE, List.take_succ_cons, ih]

theorem encodeLE_mod (a v : Nat) : encodeLE a (v % 256 ^ a) = encodeLE a v := by
  induction a generalizing v with
  | zero => simp [encodeLE]
  | succ a ih =>
    simp only [encodeLE]
    have h1 : v % 256 ^ (a + 1) % 256 = v % 256 := by
      rw [pow_succ, Nat.mul_comm]; exact Nat.mod_mul_right_mod v 256 (256 ^ a)
    have h2 : v % 256 ^ (a + 1) / 256 = (v / 256) % 256 ^ a := by
      rw [pow_succ, Nat.mul_comm, Nat.mod_mul_right_div_self]
    rw [h1, h2, ih]

theorem decodeLE_mod_take (bs : Bytes) (k : Nat) : decodeLE bs % 256 ^ k = decodeLE (bs.take k) := by
  induction bs generalizing k with
  | nil => simp [decodeLE]
  | cons b bs ih =>
    cases k with
    | zero => simp [decodeLE, Nat.mod_one]
    | succ k =>
      simp only [List.take_succ_cons, decodeLE]
      rw [← ih k]
      have hb : b.toNat < 256 := UInt8.toNat_lt b
      rw [pow_succ, Nat.mul_comm (256 ^ k) 256, Nat.mod_mul]
      have h1 : (b.toNat + 256 * decodeLE bs) % 256 = b.toNat := by omega
      have h2 : (b.toNat + 256 * decodeLE bs) / 256 = decodeLE bs := by omega
      rw [h1, h2]

/-- Re-encoding a value that agrees with `decodeLE bs` modulo `256^k` reproduces the first `k` bytes. -/
theorem encodeLE_take_of_mod (bs : Bytes) (k j v : Nat) (hk : k ≤ bs.length)
    (hv : v % 256 ^ k = decodeLE bs % 256 ^ k) : (encodeLE (k + j) v).take k = bs.take k := by
  rw [encodeLE_take, ← encodeLE_mod, hv, decodeLE_mod_take]
  have := encodeLE_decodeLE (bs.take k)
  rw [List.length_take, Nat.min_eq_left hk] at this
  exact this

/-- The Ed25519 packing of a 32-byte candidate whose first byte is below 0xed: the value is not
    reduced and the first 31 bytes survive encoding (whatever the sign bit). -/
theorem ed_reencode_take (cand : Bytes) (c0 : UInt8) (tl : Bytes) (hc : cand = c0 :: tl) (hl : cand.length = 32)
    (h0 : c0.toNat < 237) (s : Nat) :
    decodeLE cand % 2 ^ 255 % Ed25519.p = decodeLE cand % 2 ^ 255 ∧
    (encodeLE 32 (decodeLE cand % 2 ^ 255 + 2 ^ 255 * s)).take 31 = cand.take 31 := by
  have hN : decodeLE cand % 256 = c0.toNat := by
    rw [hc]; simp only [decodeLE]
    have := UInt8.toNat_lt c0
    omega
  have hp : Ed25519.p = 2 ^ 255 - 19 := rfl
  constructor
  · apply Nat.mod_eq_of_lt
    rw [hp]
    omega
  · apply encodeLE_take_of_mod cand 31 1 _ (by omega)
    have e : (256 : Nat) ^ 31 = 2 ^ 248 := by norm_num
    rw [e]
    omega

end Kyber.EmbedLib
