import KyberModel.Groups.BlsG2
import KyberModel.Lib.TwistFacts
/-
Kernel-evaluated facts about the BLS12-381 G2 twist model (own module: minutes of evaluation).
-/
namespace Kyber.TwistFacts
open Kyber

theorem bls_base_on : Fp2.onCurve BLS12381.twist BLS12381.g2Base = true := by decide +kernel
theorem bls_base_reduced : reducedPt BLS12381.twist.p BLS12381.g2Base = true := by decide +kernel

set_option maxRecDepth 100000 in
theorem bls_order : Fp2.smul BLS12381.twist BLS12381.r BLS12381.g2Base = none := by decide +kernel

theorem bls_p34 : BLS12381.twist.p % 4 = 3 := by decide +kernel
theorem bls_gt3 : 3 < BLS12381.twist.p := by decide +kernel
theorem bls_b_ne : ¬ (BLS12381.twist.b.1 % BLS12381.twist.p = 0 ∧ BLS12381.twist.b.2 % BLS12381.twist.p = 0) := by
  decide +kernel

/-- the encoding of the generator is the standard one, and decodes back -/
theorem bls_base_roundtrip : BLS12381.decG2 (BLS12381.encG2 BLS12381.g2Base) = some BLS12381.g2Base := by
  decide +kernel

end Kyber.TwistFacts
