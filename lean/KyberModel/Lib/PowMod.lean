import KyberModel.Core.Arith
import Mathlib.Data.ZMod.Basic
import Mathlib.Tactic.Ring
import Mathlib.Data.Nat.Log
/-
`powMod` computes exponentiation in `ZMod m`.
-/
namespace Kyber

theorem powModAux_spec (m : Nat) : ∀ (fuel a e acc : Nat), e < 2 ^ fuel →
    ((powModAux m fuel a e acc : Nat) : ZMod m) = (acc : ZMod m) * (a : ZMod m) ^ e := by
  intro fuel
  induction fuel with
  | zero =>
    intro a e acc h
    have : e = 0 := by omega
    subst this; simp [powModAux]
  | succ n ih =>
    intro a e acc h
    unfold powModAux
    by_cases he : e = 0
    · subst he; simp
    · simp only [he, if_false]
      have h2 : e / 2 < 2 ^ n := by
        have : e < 2 * 2 ^ n := by rw [pow_succ] at h; omega
        omega
      rw [ih _ _ _ h2]
      have hsplit : e = 2 * (e / 2) + e % 2 := (Nat.div_add_mod e 2).symm
      by_cases hodd : e % 2 = 1
      · simp only [hodd, if_true]
        conv_rhs => rw [hsplit, hodd]
        simp only [ZMod.natCast_mod, Nat.cast_mul]
        ring
      · have hev : e % 2 = 0 := by omega
        simp only [hodd, if_false]
        conv_rhs => rw [hsplit, hev]
        simp only [ZMod.natCast_mod, Nat.cast_mul]
        ring

theorem powMod_spec (a e m : Nat) : ((powMod a e m : Nat) : ZMod m) = (a : ZMod m) ^ e := by
  unfold powMod
  rw [powModAux_spec m _ _ _ _ (Nat.lt_log2_self)]
  simp [ZMod.natCast_mod]

theorem powModAux_lt (m : Nat) (hm : 0 < m) : ∀ (fuel a e acc : Nat), acc < m →
    powModAux m fuel a e acc < m := by
  intro fuel
  induction fuel with
  | zero => intro a e acc h; simpa [powModAux]
  | succ n ih =>
    intro a e acc h
    unfold powModAux
    split
    · exact h
    · apply ih
      split
      · exact Nat.mod_lt _ hm
      · exact h

theorem powMod_lt (a e m : Nat) (hm : 1 < m) : powMod a e m < m := by
  unfold powMod
  apply powModAux_lt m (by omega)
  exact Nat.mod_lt _ (by omega)

end Kyber
