import KyberModel.Proto.Dss
import KyberModel.Lib.ShareCast
/-
Helper lemmas for Props/C12.lean (DSS model, Proto/Dss.lean).
-/
namespace Kyber.Dss
open Polynomial Kyber.Scalar Kyber.Share

variable {q : Nat}

/-- The polynomial every valid partial signature lies on: `randomPoly + h · longPoly` (in the exponent of `G`). -/
noncomputable def sigPoly (q : Nat) (d : DSS) : (ZMod q)[X] :=
  toPoly q d.randC + C ((d.h : Nat) : ZMod q) * toPoly q d.longC

/-- Two DSS objects with the same distributed keys, message hash and threshold. -/
def SameKeys (d d' : DSS) : Prop :=
  d'.n = d.n ∧ d'.T = d.T ∧ d'.longC = d.longC ∧ d'.randC = d.randC ∧ d'.h = d.h ∧ d'.sid = d.sid ∧
    d'.index = d.index ∧ d'.alpha = d.alpha ∧ d'.beta = d.beta

theorem SameKeys.refl (d : DSS) : SameKeys d d := ⟨rfl, rfl, rfl, rfl, rfl, rfl, rfl, rfl, rfl⟩

theorem SameKeys.trans {a b c : DSS} (h1 : SameKeys a b) (h2 : SameKeys b c) : SameKeys a c := by
  obtain ⟨a1, a2, a3, a4, a5, a6, a7, a8, a9⟩ := h1
  obtain ⟨b1, b2, b3, b4, b5, b6, b7, b8, b9⟩ := h2
  exact ⟨b1.trans a1, b2.trans a2, b3.trans a3, b4.trans a4, b5.trans a5, b6.trans a6, b7.trans a7, b8.trans a8, b9.trans a9⟩

theorem sigPoly_sameKeys {d d' : DSS} (h : SameKeys d d') : sigPoly q d' = sigPoly q d := by
  obtain ⟨_, _, h3, h4, h5, _⟩ := h
  simp [sigPoly, h3, h4, h5]

theorem partialSig_sameKeys (fx : Bool) (d : DSS) : SameKeys d (partialSig fx q d).1 := by
  unfold partialSig
  simp only
  split_ifs <;> exact ⟨rfl, rfl, rfl, rfl, rfl, rfl, rfl, rfl, rfl⟩

theorem processPartialSig_sameKeys (d : DSS) (ps : PartialSig) (a : Bool) : SameKeys d (processPartialSig q d ps a).1 := by
  unfold processPartialSig
  split_ifs <;> exact ⟨rfl, rfl, rfl, rfl, rfl, rfl, rfl, rfl, rfl⟩

theorem step_sameKeys (fx : Bool) (d : DSS) (op : Op) : SameKeys d (step fx q d op) := by
  cases op
  · exact partialSig_sameKeys fx d
  · exact processPartialSig_sameKeys d _ _

theorem run_sameKeys (fx : Bool) (d : DSS) (ops : List Op) : SameKeys d (run fx q d ops) := by
  induction ops generalizing d with
  | nil => exact SameKeys.refl d
  | cons op ops ih => exact (step_sameKeys fx d op).trans (ih (step fx q d op))

/-- The equation checked by `ProcessPartialSig` says: the value lies on `sigPoly` at `idx+1`. -/
theorem partialEq_iff (hq : 0 < q) (d : DSS) (idx v : Nat) :
    partialEq q d idx v = true ↔ ((v : Nat) : ZMod q) = (sigPoly q d).eval ((idx : ZMod q) + 1) := by
  unfold partialEq
  simp only [beq_iff_eq]
  rw [eq_iff_cast_eq _ _ (mul_lt hq _ _) (add_lt hq _ _)]
  simp only [mul_cast, add_cast, pubEvalAt_eq_evalAt, evalAt_cast, xEval_cast, sigPoly, eval_add, eval_mul, eval_C,
    Nat.cast_one, mul_one]

/-- Invariant of a DSS object: the index map mirrors the stored partials, and every stored partial has
    an index in range and a value on `sigPoly`. -/
def Inv (q : Nat) (d : DSS) : Prop :=
  d.seen = d.partials.map (·.I) ∧
    ∀ p ∈ d.partials, p.I < d.n ∧ ∃ v, p.V = some v ∧ ((v : Nat) : ZMod q) = (sigPoly q d).eval ((p.I : ZMod q) + 1)

/-- The node's own key shares are consistent with the public commitments (what a DKG guarantees):
    its own partial lies on `sigPoly`, and its position is a valid index. -/
def OwnOK (q : Nat) (d : DSS) : Prop :=
  d.index < d.n ∧
    (((add q (mul q d.h d.alpha) d.beta : Nat) : Nat) : ZMod q) = (sigPoly q d).eval ((d.index : ZMod q) + 1)

theorem ownOK_sameKeys {d d' : DSS} (h : SameKeys d d') (ho : OwnOK q d) : OwnOK q d' := by
  have hp := sigPoly_sameKeys (q := q) h
  obtain ⟨h1, _, _, _, h5, _, h7, h8, h9⟩ := h
  unfold OwnOK at *
  rw [h1, h5, h7, h8, h9, hp]
  exact ho

theorem inv_step (hq : 0 < q) (fx : Bool) (d : DSS) (op : Op) (ho : OwnOK q d) (hi : Inv q d) : Inv q (step fx q d op) := by
  cases op with
  | sign =>
    show Inv q (partialSig fx q d).1
    unfold partialSig
    simp only
    split_ifs
    · exact hi
    · refine ⟨by simp [hi.1], ?_⟩
      intro p hp
      simp only [List.mem_append, List.mem_singleton] at hp
      rcases hp with hp | rfl
      · exact hi.2 p hp
      · exact ⟨ho.1, _, rfl, ho.2⟩
    · exact hi
  | recv ps a =>
    show Inv q (processPartialSig q d ps a).1
    unfold processPartialSig
    split_ifs with h1 h2 h3 h4 h5
    · exact hi
    · exact hi
    · exact hi
    · exact hi
    · exact hi
    · refine ⟨by simp [hi.1], ?_⟩
      intro p hp
      simp only [List.mem_append, List.mem_singleton] at hp
      rcases hp with hp | rfl
      · exact hi.2 p hp
      · refine ⟨by show ps.I < d.n; omega, _, rfl, ?_⟩
        have : partialEq q d ps.I ps.V = true := by simpa using h5
        exact (partialEq_iff hq d ps.I ps.V).mp this

theorem inv_run (hq : 0 < q) (fx : Bool) (d : DSS) (ops : List Op) (ho : OwnOK q d) (hi : Inv q d) : Inv q (run fx q d ops) := by
  induction ops generalizing d with
  | nil => exact hi
  | cons op ops ih =>
    exact ih (step fx q d op) (ownOK_sameKeys (step_sameKeys fx d op) ho) (inv_step hq fx d op ho hi)

theorem validIdx_partials (ps : List Share) (h : ∀ p ∈ ps, ∃ v, p.V = some v) :
    validIdx (ps.map some) = ps.map (·.I) := by
  induction ps with
  | nil => rfl
  | cons p ps ih =>
    obtain ⟨v, hv⟩ := h p List.mem_cons_self
    have ih' := ih (fun p' hp' => h p' (List.mem_cons_of_mem _ hp'))
    simp only [validIdx, dropNil, List.map_cons, List.filterMap_cons, id, hv, Option.map_some] at ih' ⊢
    rw [ih']

end Kyber.Dss
