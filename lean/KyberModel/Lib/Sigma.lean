import KyberModel.Proto.Sigma
import KyberModel.Props.C02
import KyberModel.Lib.Bytes
/-
Helper lemmas for C14 (sigma-protocol proofs): the encoding laws, the term loops of `repPred`, and
the behaviour of the model's prover / verifier on one And-scope (a Rep, or an And of Reps).
-/
namespace Kyber.Sigma
open Kyber Kyber.Scalar

/-! ### Encoding laws (what `kyber.Encoding` of a suite is assumed to satisfy) -/

structure Codec.Lawful (cd : Codec) (q : Nat) : Prop where
  encP_len : ∀ v, (cd.encP v).length = cd.plen
  encS_len : ∀ v, (cd.encS v).length = cd.slen
  decP_enc : ∀ v, v < q → cd.decP (cd.encP v) = some v
  decS_enc : ∀ v, v < q → cd.decS (cd.encS v) = some v
  decP_lt : ∀ bs v, cd.decP bs = some v → v < q
  decS_lt : ∀ bs v, cd.decS bs = some v → v < q

theorem bitLen_bound (q : Nat) : q < 256 ^ mockWidth q := by
  unfold mockWidth bitLen
  by_cases h : q = 0
  · simp [h]
  · simp only [h, if_false]
    have h1 : q < 2 ^ (q.log2 + 1) := Nat.lt_log2_self
    have h2 : (256 : Nat) ^ ((q.log2 + 1 + 7) / 8) = 2 ^ (8 * ((q.log2 + 1 + 7) / 8)) := by
      rw [Nat.pow_mul]
    rw [h2]
    exact lt_of_lt_of_le h1 (Nat.pow_le_pow_right (by norm_num) (by omega))

theorem encodeBE_length (w n : Nat) : (encodeBE w n).length = w := by
  unfold encodeBE
  rw [List.length_reverse]
  induction w generalizing n with
  | zero => rfl
  | succ w ih => simp [encodeLE, ih]

theorem mockCodec_lawful (q : Nat) : (mockCodec q).Lawful q where
  encP_len v := by simp [mockCodec]
  encS_len v := by simp [mockCodec]
  decP_enc v hv := by
    have hb : v < 256 ^ mockWidth q := lt_trans hv (bitLen_bound q)
    simp [mockCodec, decodeBE_encodeBE_of_lt _ _ hb, hv]
  decS_enc v hv := by
    have hb : v < 256 ^ mockWidth q := lt_trans hv (bitLen_bound q)
    simp [mockCodec, decodeBE_encodeBE_of_lt _ _ hb, hv]
  decP_lt bs v h := by
    simp only [mockCodec] at h
    split at h
    · cases h
    · split at h
      · rename_i hc; cases h; exact hc.2.2
      · cases h
  decS_lt bs v h := by
    simp only [mockCodec] at h
    split at h
    · rename_i hc; cases h; exact hc.2
    · cases h

/-! ### Reading from the verifier context -/

theorem VCtx.get_enc {len : Nat} {dec : Bytes → Option Nat} {enc tail : Bytes} {v : Nat} (st : VCtx)
    (hlen : enc.length = len) (hdec : dec enc = some v) (h : st.rest = enc ++ tail) :
    st.get len dec = .ok (v, { st with rest := tail, pend := st.pend ++ enc }) := by
  unfold VCtx.get
  have h1 : ¬ st.rest.length < len := by rw [h, List.length_append]; omega
  have h2 : st.rest.take len = enc := by rw [h, ← hlen]; simp
  have h3 : st.rest.drop len = tail := by rw [h, ← hlen]; simp
  simp [h1, h2, h3, hdec]

theorem VCtx.get_short {len : Nat} {dec : Bytes → Option Nat} (st : VCtx) (h : st.rest.length < len) :
    st.get len dec = .error .eof := by
  unfold VCtx.get; simp [h]

/-- A successful `Get` consumed exactly `len` bytes. -/
theorem VCtx.get_ok {len : Nat} {dec : Bytes → Option Nat} {st st' : VCtx} {v : Nat}
    (h : st.get len dec = .ok (v, st')) :
    len ≤ st.rest.length ∧ st'.rest = st.rest.drop len ∧ dec (st.rest.take len) = some v ∧
      st'.pend = st.pend ++ st.rest.take len ∧ st'.hist = st.hist ∧ st'.pos = st.pos := by
  unfold VCtx.get at h
  split at h
  · cases h
  · split at h
    · cases h
    · rename_i hlt _ v' hd
      cases h
      exact ⟨by omega, rfl, hd, rfl, rfl, rfl⟩

/-! ### Vectors -/

def Vec.le (v v' : Vec) : Prop := ∀ s x, v s = some x → v' s = some x

theorem Vec.le_refl (v : Vec) : Vec.le v v := fun _ _ h => h
theorem Vec.le_trans {a b c : Vec} (h1 : Vec.le a b) (h2 : Vec.le b c) : Vec.le a c :=
  fun s x h => h2 s x (h1 s x h)
theorem Vec.le_set {v : Vec} {s x : Nat} (h : v s = none) : Vec.le v (v.set s x) := by
  intro s' y hy
  unfold Vec.set
  by_cases hs : s' = s
  · subst hs; rw [h] at hy; cases hy
  · simp [hs, hy]

def Vec.bounded (q : Nat) (v : Vec) : Prop := ∀ s x, v s = some x → x < q

def termVars (ts : List Term) : List Nat := ts.map (·.s)

/-! ### The term loops -/

/-- `sumTerms` only reads the entries of the variables of the terms. -/
theorem sumTerms_congr (q : Nat) (pval : Nat → Nat) (r r' : Vec) :
    ∀ (ts : List Term) (V : Nat), (∀ t ∈ ts, r t.s = r' t.s) →
      sumTerms q pval r ts V = sumTerms q pval r' ts V := by
  intro ts
  induction ts with
  | nil => intro V _; rfl
  | cons t ts ih =>
    intro V h
    have ht : r t.s = r' t.s := h t (List.mem_cons_self ..)
    unfold sumTerms
    rw [← ht]
    cases hr : r t.s with
    | none => rfl
    | some x => exact ih _ (fun t' ht' => h t' (List.mem_cons_of_mem _ ht'))

theorem commitTerms_spec (q : Nat) (pval rnd : Nat → Nat) (hq : 0 < q) :
    ∀ (ts : List Term) (v : Vec) (st : PCtx) (V0 : Nat) (v' : Vec) (st' : PCtx) (V : Nat),
      commitTerms q pval rnd ts v st V0 = (v', st', V) →
      st' = { st with k := st'.k } ∧ Vec.le v v' ∧ (∀ t ∈ ts, (v' t.s).isSome) ∧
      (∀ s, (v' s).isSome → (v s).isSome ∨ s ∈ termVars ts) ∧
      (Vec.bounded q v → Vec.bounded q v') ∧
      (∀ v'', Vec.le v' v'' → sumTerms q pval v'' ts V0 = .ok V) := by
  intro ts
  induction ts with
  | nil =>
    intro v st V0 v' st' V h
    simp only [commitTerms, Prod.mk.injEq] at h
    obtain ⟨rfl, rfl, rfl⟩ := h
    refine ⟨rfl, Vec.le_refl _, by simp, fun s h => Or.inl h, fun h => h, fun _ _ => rfl⟩
  | cons t ts ih =>
    intro v st V0 v' st' V h
    unfold commitTerms at h
    cases hv : v t.s with
    | some x =>
      rw [hv] at h
      obtain ⟨h1, h2, h3, h4, h5, h6⟩ := ih _ _ _ _ _ _ h
      refine ⟨h1, h2, ?_, ?_, h5, ?_⟩
      · intro t' ht'
        rcases List.mem_cons.mp ht' with rfl | ht'
        · rw [h2 _ _ hv]; rfl
        · exact h3 t' ht'
      · intro s hs
        rcases h4 s hs with h | h
        · exact Or.inl h
        · exact Or.inr (by simp only [termVars, List.map_cons, List.mem_cons]; exact Or.inr h)
      · intro v'' hle
        unfold sumTerms
        rw [hle _ _ (h2 _ _ hv)]
        exact h6 v'' hle
    | none =>
      rw [hv] at h
      simp only at h
      obtain ⟨h1, h2, h3, h4, h5, h6⟩ := ih _ _ _ _ _ _ h
      have hset : (v.set t.s (st.priRand q rnd).1) t.s = some (st.priRand q rnd).1 := by simp [Vec.set]
      refine ⟨?_, Vec.le_trans (Vec.le_set hv) h2, ?_, ?_, ?_, ?_⟩
      · rw [h1]; simp [PCtx.priRand]
      · intro t' ht'
        rcases List.mem_cons.mp ht' with rfl | ht'
        · rw [h2 _ _ hset]; rfl
        · exact h3 t' ht'
      · intro s hs
        rcases h4 s hs with h | h
        · by_cases hst : s = t.s
          · exact Or.inr (by simp [termVars, hst])
          · left; simpa [Vec.set, hst] using h
        · exact Or.inr (by simp only [termVars, List.map_cons, List.mem_cons]; exact Or.inr h)
      · intro hb
        apply h5
        intro s x hx
        unfold Vec.set at hx
        by_cases hst : s = t.s
        · simp only [hst, if_true, Option.some.injEq] at hx
          rw [← hx]; exact Nat.mod_lt _ hq
        · simp only [hst, if_false] at hx
          exact hb s x hx
      · intro v'' hle
        unfold sumTerms
        rw [hle _ _ (h2 _ _ hset)]
        exact h6 v'' hle

theorem sumTerms_lt (q : Nat) (pval : Nat → Nat) (hq : 0 < q) (r : Vec) :
    ∀ (ts : List Term) (V0 V : Nat), V0 < q → sumTerms q pval r ts V0 = .ok V → V < q := by
  intro ts
  induction ts with
  | nil => intro V0 V h0 h; simp only [sumTerms, Except.ok.injEq] at h; omega
  | cons t ts ih =>
    intro V0 V _ h
    unfold sumTerms at h
    cases hr : r t.s with
    | none => rw [hr] at h; cases h
    | some x => rw [hr] at h; exact ih _ _ (Nat.mod_lt _ hq) h

/-- The response the honest prover gives for variable `s` in a scope with pre-challenge `w`, blinding
    vector `vf` and challenge `c`. -/
def target (q : Nat) (sval : Nat → Nat) (w : Option Nat) (vf : Vec) (c : Nat) : Vec := fun s =>
  match w with
  | some _ => vf s
  | none => (vf s).map (fun vs => sub q vs (mul q c (sval s)))

def Vec.agrees (r tg : Vec) : Prop := ∀ s, r s = none ∨ r s = tg s

theorem respondTerms_spec (q : Nat) (sval : Nat → Nat) (w : Option Nat) (vj vf : Vec) (c : Nat) :
    ∀ (ts : List Term) (r : Vec), Vec.agrees r (target q sval w vf c) →
      (∀ t ∈ ts, vj t.s = vf t.s ∧ (vf t.s).isSome) →
      ∃ r', respondTerms q sval w vj c ts r = .ok r' ∧ Vec.agrees r' (target q sval w vf c) ∧
        Vec.le r r' ∧ (∀ t ∈ ts, (r' t.s).isSome) ∧
        (∀ s, (r' s).isSome → (r s).isSome ∨ s ∈ termVars ts) := by
  intro ts
  induction ts with
  | nil =>
    intro r ha _
    exact ⟨r, rfl, ha, Vec.le_refl _, by simp, fun s h => Or.inl h⟩
  | cons t ts ih =>
    intro r ha hv
    have hvt := hv t (List.mem_cons_self ..)
    have hvs : ∀ t' ∈ ts, vj t'.s = vf t'.s ∧ (vf t'.s).isSome :=
      fun t' ht' => hv t' (List.mem_cons_of_mem _ ht')
    unfold respondTerms
    cases hr : r t.s with
    | some x =>
      obtain ⟨r', h1, h2, h3, h4, h5⟩ := ih r ha hvs
      refine ⟨r', h1, h2, h3, ?_, ?_⟩
      · intro t' ht'
        rcases List.mem_cons.mp ht' with rfl | ht'
        · rw [h3 _ _ hr]; rfl
        · exact h4 t' ht'
      · intro s hs
        rcases h5 s hs with h | h
        · exact Or.inl h
        · exact Or.inr (by simp only [termVars, List.map_cons, List.mem_cons]; exact Or.inr h)
    | none =>
      obtain ⟨x, hx⟩ := Option.isSome_iff_exists.mp hvt.2
      -- the new vector after handling `t`
      have key : ∀ (r1 : Vec), r1 t.s = target q sval w vf c t.s → (r1 t.s).isSome →
          (∀ n, n ≠ t.s → r1 n = r n) →
          ∃ r', respondTerms q sval w vj c ts r1 = .ok r' ∧ Vec.agrees r' (target q sval w vf c) ∧
            Vec.le r r' ∧ (∀ t' ∈ t :: ts, (r' t'.s).isSome) ∧
            (∀ s, (r' s).isSome → (r s).isSome ∨ s ∈ termVars (t :: ts)) := by
        intro r1 h1t h1s h1o
        have ha1 : Vec.agrees r1 (target q sval w vf c) := by
          intro s
          by_cases hs : s = t.s
          · right; rw [hs]; exact h1t
          · rw [h1o s hs]; exact ha s
        obtain ⟨r', e1, e2, e3, e4, e5⟩ := ih r1 ha1 hvs
        have hle : Vec.le r r1 := by
          intro s y hy
          by_cases hs : s = t.s
          · rw [hs, hr] at hy; cases hy
          · rw [h1o s hs]; exact hy
        refine ⟨r', e1, e2, Vec.le_trans hle e3, ?_, ?_⟩
        · intro t' ht'
          rcases List.mem_cons.mp ht' with rfl | ht'
          · obtain ⟨y, hy⟩ := Option.isSome_iff_exists.mp h1s
            rw [e3 _ _ hy]; rfl
          · exact e4 t' ht'
        · intro s hs
          rcases e5 s hs with h | h
          · by_cases hst : s = t.s
            · exact Or.inr (by simp [termVars, hst])
            · left; rw [← h1o s hst]; exact h
          · exact Or.inr (by simp only [termVars, List.map_cons, List.mem_cons]; exact Or.inr h)
      cases w with
      | some w' =>
        simp only
        apply key
        · simp [target, hvt.1]
        · simp [hvt.1, hvt.2]
        · intro n hn; simp [hn]
      | none =>
        rw [hvt.1, hx]
        simp only
        apply key
        · simp [target, Vec.set, hx]
        · simp [Vec.set]
        · intro n hn; simp [Vec.set, hn]

theorem placeTerms_nil (r : Vec) : placeTerms [] r = r := rfl

theorem placeTerms_cons (t : Term) (ts : List Term) (r : Vec) :
    placeTerms (t :: ts) r = match r t.s with
      | some _ => placeTerms ts r
      | none => placeTerms ts (r.set t.s 0) := by
  unfold placeTerms
  simp only [placeTermsB]
  cases r t.s <;> rfl

theorem placeTermsB_v (ts : List Term) (r : Vec) : (placeTermsB ts r).v = placeTerms ts r := rfl

theorem placeTerms_spec : ∀ (ts : List Term) (r : Vec),
    Vec.le r (placeTerms ts r) ∧
    (∀ s, ((placeTerms ts r) s).isSome ↔ ((r s).isSome ∨ s ∈ termVars ts)) := by
  intro ts
  induction ts with
  | nil => intro r; exact ⟨Vec.le_refl _, by simp [placeTerms_nil, termVars]⟩
  | cons t ts ih =>
    intro r
    rw [placeTerms_cons]
    cases hr : r t.s with
    | some x =>
      obtain ⟨h1, h2⟩ := ih r
      refine ⟨h1, fun s => ?_⟩
      rw [h2 s]
      simp only [termVars, List.map_cons, List.mem_cons]
      constructor
      · rintro (h | h)
        · exact Or.inl h
        · exact Or.inr (Or.inr h)
      · rintro (h | h | h)
        · exact Or.inl h
        · left; rw [h, hr]; rfl
        · exact Or.inr h
    | none =>
      obtain ⟨h1, h2⟩ := ih (r.set t.s 0)
      refine ⟨Vec.le_trans (Vec.le_set hr) h1, fun s => ?_⟩
      rw [h2 s]
      simp only [termVars, List.map_cons, List.mem_cons, Vec.set]
      by_cases hs : s = t.s
      · simp [hs]
      · simp [hs]

/-! ### Encoded lists, `Put` sequences -/

def encPs (cd : Codec) (l : List Nat) : Bytes := l.flatMap cd.encP
def encSs (cd : Codec) (l : List Nat) : Bytes := l.flatMap cd.encS

theorem PCtx.put_put (st : PCtx) (a b : Bytes) : (st.put a).put b = st.put (a ++ b) := by
  simp [PCtx.put, List.append_assoc]

theorem PCtx.put_nil (st : PCtx) : st.put [] = st := by simp [PCtx.put]

theorem sendResponses_none (E : Params) (r : Vec) (st : PCtx) :
    sendResponses E none r st = st.put (encSs E.cd (E.sv.filterMap r)) := by
  unfold sendResponses
  simp only
  generalize E.sv = sv
  induction sv generalizing st with
  | nil => simp [encSs, PCtx.put_nil]
  | cons s sv ih =>
    simp only [List.foldl_cons]
    rw [ih]
    cases hr : r s with
    | none => simp [hr]
    | some x => simp [hr, encSs, PCtx.put_put]

/-- Reading back the responses of one scope. `ph` are the verifier's placeholders, `r` the prover's
    response vector; they are defined on the same variables of `sv`. -/
theorem readResponses_honest (E : Params) (hc : E.cd.Lawful E.q) (r : Vec) (hb : Vec.bounded E.q r) :
    ∀ (sv : List Nat) (ph : Vec) (st : VCtx) (tail : Bytes),
      (∀ s ∈ sv, (ph s).isSome = (r s).isSome) →
      st.rest = encSs E.cd (sv.filterMap r) ++ tail →
      ∃ res, readResponses E sv ph st =
          .ok (res, { st with rest := tail, pend := st.pend ++ encSs E.cd (sv.filterMap r) }) ∧
        (∀ s ∈ sv, (r s).isSome → res s = r s) ∧ (∀ s, s ∉ sv → res s = ph s) := by
  intro sv
  induction sv with
  | nil =>
    intro ph st tail _ h
    refine ⟨ph, ?_, by simp, fun _ _ => rfl⟩
    simp only [List.filterMap_nil, encSs, List.flatMap_nil, List.nil_append] at h
    simp [readResponses, encSs, ← h]
  | cons s sv ih =>
    intro ph st tail hdom h
    have hds := hdom s (List.mem_cons_self ..)
    have hdom' : ∀ s' ∈ sv, (ph s').isSome = (r s').isSome :=
      fun s' hs' => hdom s' (List.mem_cons_of_mem _ hs')
    unfold readResponses
    cases hr : r s with
    | none =>
      rw [hr] at hds
      have hph : ph s = none := by simpa using hds
      rw [hph]
      simp only [List.filterMap_cons, hr] at h ⊢
      obtain ⟨res, e1, e2, e3⟩ := ih ph st tail hdom' h
      refine ⟨res, e1, ?_, ?_⟩
      · intro s' hs' hsome
        rcases List.mem_cons.mp hs' with rfl | hs'
        · rw [hr] at hsome; cases hsome
        · exact e2 s' hs' hsome
      · intro s' hs'
        exact e3 s' (fun hm => hs' (List.mem_cons_of_mem _ hm))
    | some x =>
      rw [hr] at hds
      obtain ⟨y, hy⟩ := Option.isSome_iff_exists.mp (by simpa using hds : (ph s).isSome)
      rw [hy]
      simp only [List.filterMap_cons, hr] at h ⊢
      have hx : x < E.q := hb s x hr
      have henc : encSs E.cd (x :: sv.filterMap r) = E.cd.encS x ++ encSs E.cd (sv.filterMap r) := by
        simp [encSs]
      rw [henc, List.append_assoc] at h
      rw [VCtx.get_enc st (hc.encS_len x) (hc.decS_enc x hx) h]
      simp only
      have hdom1 : ∀ s' ∈ sv, ((ph.set s x) s').isSome = (r s').isSome := by
        intro s' hs'
        unfold Vec.set
        by_cases hss : s' = s
        · simp [hss, hr]
        · simp only [hss, if_false]; exact hdom' s' hs'
      obtain ⟨res, e1, e2, e3⟩ := ih (ph.set s x)
        { st with rest := encSs E.cd (sv.filterMap r) ++ tail, pend := st.pend ++ E.cd.encS x } tail hdom1 rfl
      refine ⟨res, ?_, ?_, ?_⟩
      · rw [e1, henc]; simp [List.append_assoc]
      · intro s' hs' hsome
        rcases List.mem_cons.mp hs' with rfl | hs'
        · by_cases hin : s' ∈ sv
          · exact e2 s' hin hsome
          · rw [e3 s' hin, hr]; simp [Vec.set]
        · exact e2 s' hs' hsome
      · intro s' hs'
        have h1 : s' ∉ sv := fun hm => hs' (List.mem_cons_of_mem _ hm)
        have h2 : s' ≠ s := fun he => hs' (by rw [he]; exact List.mem_cons_self ..)
        rw [e3 s' h1]; simp [Vec.set, h2]

end Kyber.Sigma
