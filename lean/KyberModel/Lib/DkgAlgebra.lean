import KyberModel.Proto.Dkg
import KyberModel.Lib.ShareCast
import KyberModel.Props.C07
/-
Helper lemmas for Props/C11.lean, part 3: the key algebra of `computeDKGResult`.
-/
namespace Kyber.Dkg
open Polynomial Kyber.Scalar Kyber.Share

/-- The dealers whose contributions `computeDKGResult` adds up (QUAL). -/
def qualDealers (c : Cfg) (st : St) : List NodeId :=
  c.oldNodes.filter (fun n => allTrue c st.statuses n.index && !st.evictedHolders n.index)

/-- The fold step of `computeDKGResult`. -/
def dkgStep (c : Cfg) (st : St) (acc : Option (Nat × Option (List Nat))) (n : NodeId) :
    Option (Nat × Option (List Nat)) :=
  match acc, st.validShares n.index, st.allPublics n.index with
  | some (s, fp), some sh, some pb =>
    (match fp with
     | none => some (add c.q s sh, some pb)
     | some f => (polyAdd c.q f pb).map (fun r => (add c.q s sh, some r)))
  | _, _, _ => none

theorem computeDKGResult_eq (c : Cfg) (st : St) :
    computeDKGResult c st =
      match (qualDealers c st).foldl (dkgStep c st) (some (0, none)) with
      | some (s, some fp) => some { qual := (qualDealers c st).map (·.index), commits := fp, shareI := c.nidx, shareV := s }
      | _ => none := rfl

/-- polynomial an accumulator stands for -/
noncomputable def accPoly (q : Nat) : Option (List Nat) → (ZMod q)[X]
  | none => 0
  | some f => toPoly q f

theorem dkgStep_none (c : Cfg) (st : St) (l : List NodeId) : l.foldl (dkgStep c st) none = none := by
  induction l with
  | nil => rfl
  | cons n l ih => simpa [List.foldl, dkgStep] using ih

/-- Invariant of the accumulation: the sum of shares and the sum of public polynomials. -/
theorem dkg_fold (c : Cfg) (st : St) (l : List NodeId) (s0 : Nat) (f0 : Option (List Nat)) (s : Nat) (fp : Option (List Nat))
    (h : l.foldl (dkgStep c st) (some (s0, f0)) = some (s, fp)) :
    (∀ n ∈ l, ∃ sh pb, st.validShares n.index = some sh ∧ st.allPublics n.index = some pb) ∧
    ((s : Nat) : ZMod c.q) = (s0 : ZMod c.q) + (l.map (fun n => (((st.validShares n.index).getD 0 : Nat) : ZMod c.q))).sum ∧
    accPoly c.q fp = accPoly c.q f0 + (l.map (fun n => toPoly c.q ((st.allPublics n.index).getD []))).sum ∧
    (l ≠ [] → fp.isSome) := by
  induction l generalizing s0 f0 with
  | nil =>
    simp only [List.foldl, Option.some.injEq, Prod.mk.injEq] at h
    obtain ⟨rfl, rfl⟩ := h
    simp
  | cons n l ih =>
    simp only [List.foldl] at h
    cases hv : st.validShares n.index with
    | none => simp only [dkgStep, hv] at h; rw [dkgStep_none] at h; cases h
    | some sh =>
      cases hp : st.allPublics n.index with
      | none => simp only [dkgStep, hv, hp] at h; rw [dkgStep_none] at h; cases h
      | some pb =>
        cases f0 with
        | none =>
          simp only [dkgStep, hv, hp] at h
          obtain ⟨h1, h2, h3, _⟩ := ih _ _ h
          refine ⟨?_, ?_, ?_, ?_⟩
          · intro m hm
            rcases List.mem_cons.mp hm with rfl | hm
            · exact ⟨sh, pb, hv, hp⟩
            · exact h1 m hm
          · rw [h2, add_cast]; simp [hv, add_assoc]
          · rw [h3]; simp [accPoly, hp]
          · intro _
            cases l with
            | nil => simp only [List.foldl, Option.some.injEq, Prod.mk.injEq] at h; rw [← h.2]; rfl
            | cons m l' => exact (ih _ _ h).2.2.2 (by simp)
        | some f =>
          simp only [dkgStep, hv, hp] at h
          cases hadd : polyAdd c.q f pb with
          | none => simp only [hadd, Option.map_none] at h; rw [dkgStep_none] at h; cases h
          | some r =>
            simp only [hadd, Option.map_some] at h
            obtain ⟨h1, h2, h3, _⟩ := ih _ _ h
            have hlen : f.length = pb.length := by
              by_contra hne; rw [(polyAdd_eq_none_iff f pb).mpr hne] at hadd; cases hadd
            have hr : r = List.zipWith (add c.q) f pb := by
              unfold polyAdd at hadd; simp [hlen] at hadd; exact hadd.symm
            refine ⟨?_, ?_, ?_, ?_⟩
            · intro m hm
              rcases List.mem_cons.mp hm with rfl | hm
              · exact ⟨sh, pb, hv, hp⟩
              · exact h1 m hm
            · rw [h2, add_cast]; simp [hv, add_assoc]
            · rw [h3]; simp only [accPoly, hr, toPoly_zipWith_add _ _ hlen, List.map_cons, List.sum_cons, hp, Option.getD_some]
              ring
            · intro _
              cases l with
              | nil => simp only [List.foldl, Option.some.injEq, Prod.mk.injEq] at h; rw [← h.2]; rfl
              | cons m l' => exact (ih _ _ h).2.2.2 (by simp)

end Kyber.Dkg
