import KyberModel.Proto.Enc
import Mathlib.Data.List.Basic
import Mathlib.Data.Nat.ModEq
import Mathlib.Data.Nat.Prime.Basic
import Mathlib.Tactic.Ring
import Mathlib.Tactic.Linarith
/-
Helper lemmas for C16 (encryption models). Property theorems are in Props/C16.lean.
-/
namespace Kyber

/-! ### `xorBytes` -/

@[simp] theorem xorBytes_nil_left (b : Bytes) : xorBytes [] b = [] := by
  cases b <;> rfl

@[simp] theorem xorBytes_nil_right (a : Bytes) : xorBytes a [] = [] := by
  cases a <;> rfl

@[simp] theorem xorBytes_cons (x y : UInt8) (a b : Bytes) :
    xorBytes (x :: a) (y :: b) = (x ^^^ y) :: xorBytes a b := rfl

theorem xorBytes_length (a b : Bytes) : (xorBytes a b).length = min a.length b.length := by
  induction a generalizing b with
  | nil => simp
  | cons x a ih =>
    cases b with
    | nil => simp
    | cons y b => simp [ih, Nat.succ_min_succ]

theorem xorBytes_comm (a b : Bytes) : xorBytes a b = xorBytes b a := by
  induction a generalizing b with
  | nil => simp
  | cons x a ih =>
    cases b with
    | nil => simp
    | cons y b => simp [ih, UInt8.xor_comm]

/-- `(a ⊕ b) ⊕ b = a` for equally long strings. -/
theorem xorBytes_cancel_right (a b : Bytes) (h : a.length = b.length) :
    xorBytes (xorBytes a b) b = a := by
  induction a generalizing b with
  | nil => simp
  | cons x a ih =>
    cases b with
    | nil => simp at h
    | cons y b =>
      simp only [List.length_cons, Nat.add_right_cancel_iff] at h
      simp [ih b h, UInt8.xor_assoc]

theorem xorBytes_cancel_left (a b : Bytes) (h : a.length = b.length) :
    xorBytes a (xorBytes a b) = b := by
  rw [xorBytes_comm a b, xorBytes_comm a, xorBytes_cancel_right b a h.symm]

/-- XOR with a fixed equally long pad is injective. -/
theorem xorBytes_left_injective (p a b : Bytes) (ha : a.length = p.length) (hb : b.length = p.length)
    (h : xorBytes p a = xorBytes p b) : a = b := by
  have h1 := xorBytes_cancel_left p a ha.symm
  have h2 := xorBytes_cancel_left p b hb.symm
  rw [← h1, h, h2]

theorem xorBytes_append (a1 a2 b1 b2 : Bytes) (h : a1.length = b1.length) :
    xorBytes (a1 ++ a2) (b1 ++ b2) = xorBytes a1 b1 ++ xorBytes a2 b2 := by
  induction a1 generalizing b1 with
  | nil =>
    have : b1 = [] := by simpa using h.symm
    subst this; simp
  | cons x a1 ih =>
    cases b1 with
    | nil => simp at h
    | cons y b1 =>
      simp only [List.length_cons, Nat.add_right_cancel_iff] at h
      simp [ih b1 h]

/-- XOR with zeros changes nothing. -/
theorem xorBytes_zeros (a : Bytes) (n : Nat) (h : a.length ≤ n) :
    xorBytes a (List.replicate n 0) = a := by
  induction a generalizing n with
  | nil => simp
  | cons x a ih =>
    cases n with
    | zero => simp at h
    | succ n =>
      simp only [List.length_cons, Nat.add_le_add_iff_right] at h
      simp [List.replicate_succ, ih n h]

namespace Enc

/-! ### hypotheses, named -/

/-- The group's encodings are fixed-length, canonical and round-trip (that they are is C03). -/
structure CodecOK (c : Codec) : Prop where
  q_pos : 0 < c.q
  encPoint_len : ∀ v, (c.encPoint v).length = c.pointLen
  decPoint_enc : ∀ v, v < c.q → c.decPoint (c.encPoint v) = some v
  decPoint_canon : ∀ b v, c.decPoint b = some v → v < c.q ∧ b = c.encPoint v
  encScalar_len : ∀ v, (c.encScalar v).length = c.scalarLen
  decScalar_enc : ∀ v, v < c.q → c.decScalar (c.encScalar v) = some v
  decScalar_canon : ∀ b v, c.decScalar b = some v → v < c.q ∧ b = c.encScalar v

/-- H_AEAD: opens exactly what it sealed under the same key material and rejects otherwise. -/
structure AeadOK {K : Type} (a : Aead K) : Prop where
  open_seal : ∀ k m, a.openBox k (a.sealBox k m) = some m
  only_sealed : ∀ k c m, a.openBox k c = some m → c = a.sealBox k m
  other_key : ∀ k k' m, k ≠ k' → a.openBox k' (a.sealBox k m) = none

/-- The hash digests have the hash size. -/
structure IbeOK (o : IbeOracles) : Prop where
  h2_len : ∀ g, (o.h2 g).length = o.hs
  h4_len : ∀ s, (o.h4 s).length = o.hs

/-- The XOF outputs have the requested lengths. -/
structure AnonOK (c : Codec) (o : AnonOracles) : Prop where
  pad_len : ∀ s, (o.pad s).length = c.scalarLen
  body_len : ∀ k n, (o.body k n).length = n
  mac_len : ∀ k b, (o.mac k b).length = macSize

/-! ### `gtToHash` -/

theorem gtToHash_length (o : IbeOracles) (g n : Nat) : (gtToHash o g n).length = n := by
  simp only [gtToHash, List.length_append, List.length_take, List.length_replicate]
  omega

/-- Within the hash size the pad consists of digest bytes only. -/
theorem gtToHash_short (o : IbeOracles) (ok : IbeOK o) (g n : Nat) (h : n ≤ o.hs) :
    gtToHash o g n = (o.h2 g).take n := by
  have : n - (o.h2 g).length = 0 := by rw [ok.h2_len]; omega
  simp [gtToHash, this]

/-- Beyond the hash size the pad is the digest followed by ZEROS. -/
theorem gtToHash_long (o : IbeOracles) (ok : IbeOK o) (g n : Nat) (h : o.hs ≤ n) :
    gtToHash o g n = o.h2 g ++ List.replicate (n - o.hs) 0 := by
  have h1 : (o.h2 g).take n = o.h2 g := List.take_of_length_le (by rw [ok.h2_len]; exact h)
  simp [gtToHash, h1, ok.h2_len]

theorem h4pad_length (o : IbeOracles) (ok : IbeOK o) (s : Bytes) (n : Nat) (h : n ≤ o.hs) :
    (h4pad o s n).length = n := by
  simp [h4pad, List.length_take, ok.h4_len]; omega

/-! ### arithmetic in the exponent -/

theorem mul_mod_comm3 (q a b : Nat) : a * (b % q) % q = b * a % q := by
  rw [Nat.mul_mod, Nat.mod_mod, ← Nat.mul_mod, Nat.mul_comm]

end Enc
end Kyber
