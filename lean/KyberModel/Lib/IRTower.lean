import KyberModel.Lib.IRBasic
import KyberModel.Lib.IRWeierstrass
import KyberModel.Generated.Formulas
/-
IR theorems for the extension-field tower and the twist of `pairing/bn256` and `pairing/bn254`
(regenerated from gfp2.go, gfp6.go, gfp12.go, twist.go). Each level is proved over the level below as
an arbitrary commutative ring `K` with one distinguished element:
* `gfP2` over `F`:  x·i + y with i² = -1;
* `gfP6` over `K2`: x·τ² + y·τ + z with τ³ = ξ  (`MulXi` is multiplication by ξ);
* `gfP12` over `K6`: x·ω + y with ω² = τ        (`MulTau` is multiplication by τ);
* `twistPoint` over `K2`: the same Jacobian formulas as `curvePoint`, now with gfP2 operations.
All aliasing patterns the API allows (receiver = first / second / both operands) are covered.
-/
namespace Kyber.IR.Tower
open Kyber.IR Kyber.IR.Gen

variable {K : Type} [CommRing K]

abbrev R (s1 s2 : K → K) (p : List Instr) (s : Loc → K) : Loc → K := run (towerOps K s1 s2) p s

/-- identification of the operand bases `a`, `b` with `b1`, `b2` (each either itself or the receiver `e`) -/
def σ (b1 b2 : Nat) : Nat → Nat := fun b => if b = B_a then b1 else if b = B_b then b2 else b

/-! ### gfP2 over the base field: (x, y) = x·i + y, i² = -1 -/

set_option maxRecDepth 8000 in
/-- `gfP2.Mul` is multiplication in F[i]/(i²+1), for every aliasing pattern. -/
theorem gfP2_Mul (s : Loc → K) (b1 b2 : Nat) (h1 : b1 = B_a ∨ b1 = B_e) (h2 : b2 = B_b ∨ b2 = B_e) :
    let out := R id id (substProg (σ b1 b2) bn256_gfP2_Mul) s
    out ⟨B_e, F_x⟩ = s ⟨b1, F_x⟩ * s ⟨b2, F_y⟩ + s ⟨b2, F_x⟩ * s ⟨b1, F_y⟩
    ∧ out ⟨B_e, F_y⟩ = s ⟨b1, F_y⟩ * s ⟨b2, F_y⟩ - s ⟨b1, F_x⟩ * s ⟨b2, F_x⟩ := by
  intro out
  rcases h1 with rfl | rfl <;> rcases h2 with rfl | rfl <;>
    (refine ⟨?_, ?_⟩ <;>
      simp [out, σ, run, bn256_gfP2_Mul, substProg, substInstr, substLoc, step, evalOp, towerOps])

set_option maxRecDepth 8000 in
/-- `gfP2.Square`: (x i + y)² = 2xy·i + (y² - x²). -/
theorem gfP2_Square (s : Loc → K) (b1 : Nat) (h1 : b1 = B_a ∨ b1 = B_e) :
    let out := R id id (substProg (σ b1 B_b) bn256_gfP2_Square) s
    out ⟨B_e, F_x⟩ = 2 * (s ⟨b1, F_x⟩ * s ⟨b1, F_y⟩)
    ∧ out ⟨B_e, F_y⟩ = s ⟨b1, F_y⟩ * s ⟨b1, F_y⟩ - s ⟨b1, F_x⟩ * s ⟨b1, F_x⟩ := by
  intro out
  rcases h1 with rfl | rfl <;>
    (refine ⟨?_, ?_⟩ <;>
      simp [out, σ, run, bn256_gfP2_Square, substProg, substInstr, substLoc, step, evalOp, towerOps] <;> ring)

set_option maxRecDepth 8000 in
/-- BN256: `MulXi` multiplies by ξ = i + 3. -/
theorem bn256_gfP2_MulXi_spec (s : Loc → K) (b1 : Nat) (h1 : b1 = B_a ∨ b1 = B_e) :
    let out := R id id (substProg (σ b1 B_b) bn256_gfP2_MulXi) s
    out ⟨B_e, F_x⟩ = 3 * s ⟨b1, F_x⟩ + s ⟨b1, F_y⟩ ∧ out ⟨B_e, F_y⟩ = 3 * s ⟨b1, F_y⟩ - s ⟨b1, F_x⟩ := by
  intro out
  rcases h1 with rfl | rfl <;>
    (refine ⟨?_, ?_⟩ <;>
      simp [out, σ, run, bn256_gfP2_MulXi, substProg, substInstr, substLoc, step, evalOp, towerOps] <;> ring)

set_option maxRecDepth 8000 in
/-- BN254: `MulXi` multiplies by ξ = i + 9. -/
theorem bn254_gfP2_MulXi_spec (s : Loc → K) (b1 : Nat) (h1 : b1 = B_a ∨ b1 = B_e) :
    let out := R id id (substProg (σ b1 B_b) bn254_gfP2_MulXi) s
    out ⟨B_e, F_x⟩ = 9 * s ⟨b1, F_x⟩ + s ⟨b1, F_y⟩ ∧ out ⟨B_e, F_y⟩ = 9 * s ⟨b1, F_y⟩ - s ⟨b1, F_x⟩ := by
  intro out
  rcases h1 with rfl | rfl <;>
    (refine ⟨?_, ?_⟩ <;>
      simp [out, σ, run, bn254_gfP2_MulXi, substProg, substInstr, substLoc, step, evalOp, towerOps] <;> ring)

set_option maxRecDepth 8000 in
theorem gfP2_Conjugate (s : Loc → K) (b1 : Nat) (h1 : b1 = B_a ∨ b1 = B_e) :
    let out := R id id (substProg (σ b1 B_b) bn256_gfP2_Conjugate) s
    out ⟨B_e, F_x⟩ = -s ⟨b1, F_x⟩ ∧ out ⟨B_e, F_y⟩ = s ⟨b1, F_y⟩ := by
  intro out
  rcases h1 with rfl | rfl <;>
    (refine ⟨?_, ?_⟩ <;>
      simp [out, σ, run, bn256_gfP2_Conjugate, substProg, substInstr, substLoc, step, evalOp, towerOps])

/-- the multiplication, squaring and Add/Sub/Neg code of BN254's gfP2 is that of BN256 -/
theorem bn254_gfP2_same : bn254_gfP2_Mul = bn256_gfP2_Mul ∧ bn254_gfP2_Square = bn256_gfP2_Square := ⟨rfl, rfl⟩

/-! ### gfP6 over K: (x, y, z) = x·τ² + y·τ + z, τ³ = ξ -/

set_option maxRecDepth 16000 in
/-- `gfP6.Mul` (Karatsuba) is multiplication in K[τ]/(τ³ - ξ), for every aliasing pattern, where
    `MulXi` is multiplication by ξ. -/
theorem gfP6_Mul (ξ : K) (s : Loc → K) (b1 b2 : Nat) (h1 : b1 = B_a ∨ b1 = B_e) (h2 : b2 = B_b ∨ b2 = B_e) :
    let out := R (ξ * ·) id (substProg (σ b1 b2) bn256_gfP6_Mul) s
    let ax := s ⟨b1, F_x⟩; let ay := s ⟨b1, F_y⟩; let az := s ⟨b1, F_z⟩
    let bx := s ⟨b2, F_x⟩; let by' := s ⟨b2, F_y⟩; let bz := s ⟨b2, F_z⟩
    out ⟨B_e, F_x⟩ = ax * bz + ay * by' + az * bx
    ∧ out ⟨B_e, F_y⟩ = ay * bz + az * by' + ξ * (ax * bx)
    ∧ out ⟨B_e, F_z⟩ = az * bz + ξ * (ax * by' + ay * bx) := by
  intro out ax ay az bx by' bz
  rcases h1 with rfl | rfl <;> rcases h2 with rfl | rfl <;>
    (refine ⟨?_, ?_, ?_⟩ <;>
      simp [out, ax, ay, az, bx, by', bz, σ, run, bn256_gfP6_Mul, substProg, substInstr, substLoc, step, evalOp,
        towerOps] <;> ring)

set_option maxRecDepth 16000 in
/-- `gfP6.Square` agrees with `Mul a a`. -/
theorem gfP6_Square (ξ : K) (s : Loc → K) (b1 : Nat) (h1 : b1 = B_a ∨ b1 = B_e) :
    let out := R (ξ * ·) id (substProg (σ b1 B_b) bn256_gfP6_Square) s
    let ax := s ⟨b1, F_x⟩; let ay := s ⟨b1, F_y⟩; let az := s ⟨b1, F_z⟩
    out ⟨B_e, F_x⟩ = ax * az + ay * ay + az * ax
    ∧ out ⟨B_e, F_y⟩ = ay * az + az * ay + ξ * (ax * ax)
    ∧ out ⟨B_e, F_z⟩ = az * az + ξ * (ax * ay + ay * ax) := by
  intro out ax ay az
  rcases h1 with rfl | rfl <;>
    (refine ⟨?_, ?_, ?_⟩ <;>
      simp [out, ax, ay, az, σ, run, bn256_gfP6_Square, substProg, substInstr, substLoc, step, evalOp,
        towerOps] <;> ring)

set_option maxRecDepth 8000 in
/-- `gfP6.MulTau` multiplies by τ: (x τ² + y τ + z)·τ = y τ² + z τ + ξ x. -/
theorem gfP6_MulTau (ξ : K) (s : Loc → K) (b1 : Nat) (h1 : b1 = B_a ∨ b1 = B_e) :
    let out := R (ξ * ·) id (substProg (σ b1 B_b) bn256_gfP6_MulTau) s
    out ⟨B_e, F_x⟩ = s ⟨b1, F_y⟩ ∧ out ⟨B_e, F_y⟩ = s ⟨b1, F_z⟩ ∧ out ⟨B_e, F_z⟩ = ξ * s ⟨b1, F_x⟩ := by
  intro out
  rcases h1 with rfl | rfl <;>
    (refine ⟨?_, ?_, ?_⟩ <;>
      simp [out, σ, run, bn256_gfP6_MulTau, substProg, substInstr, substLoc, step, evalOp, towerOps])

theorem bn254_gfP6_same : bn254_gfP6_Mul = bn256_gfP6_Mul ∧ bn254_gfP6_MulTau = bn256_gfP6_MulTau := ⟨rfl, rfl⟩

/-! ### gfP12 over K: (x, y) = x·ω + y, ω² = τ -/

set_option maxRecDepth 8000 in
/-- `gfP12.Mul` is multiplication in K[ω]/(ω² - τ), for every aliasing pattern, where `MulTau` is
    multiplication by τ. -/
theorem gfP12_Mul (τ : K) (s : Loc → K) (b1 b2 : Nat) (h1 : b1 = B_a ∨ b1 = B_e) (h2 : b2 = B_b ∨ b2 = B_e) :
    let out := R (τ * ·) id (substProg (σ b1 b2) bn256_gfP12_Mul) s
    out ⟨B_e, F_x⟩ = s ⟨b1, F_x⟩ * s ⟨b2, F_y⟩ + s ⟨b2, F_x⟩ * s ⟨b1, F_y⟩
    ∧ out ⟨B_e, F_y⟩ = s ⟨b1, F_y⟩ * s ⟨b2, F_y⟩ + τ * (s ⟨b1, F_x⟩ * s ⟨b2, F_x⟩) := by
  intro out
  rcases h1 with rfl | rfl <;> rcases h2 with rfl | rfl <;>
    (refine ⟨?_, ?_⟩ <;>
      simp [out, σ, run, bn256_gfP12_Mul, substProg, substInstr, substLoc, step, evalOp, towerOps])

set_option maxRecDepth 8000 in
/-- `gfP12.Square` (complex squaring) agrees with `Mul a a`. -/
theorem gfP12_Square (τ : K) (s : Loc → K) (b1 : Nat) (h1 : b1 = B_a ∨ b1 = B_e) :
    let out := R (τ * ·) id (substProg (σ b1 B_b) bn256_gfP12_Square) s
    out ⟨B_e, F_x⟩ = 2 * (s ⟨b1, F_x⟩ * s ⟨b1, F_y⟩)
    ∧ out ⟨B_e, F_y⟩ = s ⟨b1, F_y⟩ * s ⟨b1, F_y⟩ + τ * (s ⟨b1, F_x⟩ * s ⟨b1, F_x⟩) := by
  intro out
  rcases h1 with rfl | rfl <;>
    (refine ⟨?_, ?_⟩ <;>
      simp [out, σ, run, bn256_gfP12_Square, substProg, substInstr, substLoc, step, evalOp, towerOps] <;> ring)

set_option maxRecDepth 8000 in
theorem gfP12_Conjugate (τ : K) (s : Loc → K) (b1 : Nat) (h1 : b1 = B_a ∨ b1 = B_e) :
    let out := R (τ * ·) id (substProg (σ b1 B_b) bn256_gfP12_Conjugate) s
    out ⟨B_e, F_x⟩ = -s ⟨b1, F_x⟩ ∧ out ⟨B_e, F_y⟩ = s ⟨b1, F_y⟩ := by
  intro out
  rcases h1 with rfl | rfl <;>
    (refine ⟨?_, ?_⟩ <;>
      simp [out, σ, run, bn256_gfP12_Conjugate, substProg, substInstr, substLoc, step, evalOp, towerOps])

theorem bn254_gfP12_same : bn254_gfP12_Mul = bn256_gfP12_Mul := rfl

/-! ### twistPoint over K2 (a field): the Jacobian formulas of `curvePoint`, with gfP2 operations -/

section twist
open Kyber.IR.Jac
variable {F : Type} [Field F]

set_option maxRecDepth 16000 in
/-- What `twistPoint.Add` (main path) leaves in the receiver: the same expressions as `curvePoint.Add`. -/
theorem twist_add_vals (s : Loc → F) (b1 b2 : Nat) (hb1 : b1 = B_a ∨ b1 = B_c) (hb2 : b2 = B_b ∨ b2 = B_c) :
    let σ' : Nat → Nat := fun b => if b = B_a then b1 else if b = B_b then b2 else b
    let out := run (towerOps F id id) (substProg σ' bn256_twist_Add) s
    let X1 := s ⟨b1, F_x⟩; let Y1 := s ⟨b1, F_y⟩; let Z1 := s ⟨b1, F_z⟩
    let X2 := s ⟨b2, F_x⟩; let Y2 := s ⟨b2, F_y⟩; let Z2 := s ⟨b2, F_z⟩
    let u1 := X1 * (Z2 * Z2); let u2 := X2 * (Z1 * Z1)
    let s1 := Y1 * (Z2 * (Z2 * Z2)); let s2 := Y2 * (Z1 * (Z1 * Z1))
    let h := u2 - u1; let i := (h + h) * (h + h); let j := h * i
    let r := (s2 - s1) + (s2 - s1); let v := u1 * i
    out ⟨B_c, F_x⟩ = r * r - j - (v + v)
    ∧ out ⟨B_c, F_y⟩ = r * (v - (r * r - j - (v + v))) - (s1 * j + s1 * j)
    ∧ out ⟨B_c, F_z⟩ = ((Z1 + Z2) * (Z1 + Z2) - Z1 * Z1 - Z2 * Z2) * h := by
  intro σ' out X1 Y1 Z1 X2 Y2 Z2 u1 u2 s1 s2 h i j r v
  rcases hb1 with rfl | rfl <;> rcases hb2 with rfl | rfl <;>
    (refine ⟨?_, ?_, ?_⟩ <;>
      simp [out, σ', X1, Y1, Z1, X2, Y2, Z2, u1, u2, s1, s2, h, i, j, r, v, run, bn256_twist_Add, substProg,
        substInstr, substLoc, step, evalOp, towerOps] <;> ring)

/-- `twistPoint.Add`, main path: the result represents the affine chord sum over Fp2, aliasing-safe. -/
theorem twist_add_rep (s : Loc → F) {x1 y1 x2 y2 : F} (h2 : (2 : F) ≠ 0)
    (b1 b2 : Nat) (hb1 : b1 = B_a ∨ b1 = B_c) (hb2 : b2 = B_b ∨ b2 = B_c)
    (ha : JacRep s b1 x1 y1) (hb : JacRep s b2 x2 y2) (hne : x2 - x1 ≠ 0) :
    JacRep (run (towerOps F id id)
        (substProg (fun b => if b = B_a then b1 else if b = B_b then b2 else b) bn256_twist_Add) s) B_c
      (chordX x1 y1 x2 y2) (chordY x1 y1 x2 y2) := by
  obtain ⟨vx, vy, vz⟩ := twist_add_vals s b1 b2 hb1 hb2
  obtain ⟨cz, cx, cy⟩ := add_core (x1 := x1) (y1 := y1) (x2 := x2) (y2 := y2) h2 ha.hz hb.hz hne
  refine ⟨?_, ?_, ?_⟩
  · rw [vz, ha.hx, hb.hx]; exact cz
  · rw [vx, vz, ha.hx, ha.hy, hb.hx, hb.hy]; exact cx
  · rw [vy, vz, ha.hx, ha.hy, hb.hx, hb.hy]; exact cy

set_option maxRecDepth 16000 in
theorem twist_double_vals (s : Loc → F) (b1 : Nat) (hb1 : b1 = B_a ∨ b1 = B_c) :
    let σ' : Nat → Nat := fun b => if b = B_a then b1 else b
    let out := run (towerOps F id id) (substProg σ' bn256_twist_Double) s
    let X := s ⟨b1, F_x⟩; let Y := s ⟨b1, F_y⟩; let Z := s ⟨b1, F_z⟩
    let A := X * X; let B := Y * Y; let C := B * B
    let D := ((X + B) * (X + B) - A - C) + ((X + B) * (X + B) - A - C)
    let E := A + A + A
    let X3 := E * E - (D + D)
    out ⟨B_c, F_x⟩ = X3
    ∧ out ⟨B_c, F_y⟩ = E * (D - X3) - ((C + C) + (C + C) + ((C + C) + (C + C)))
    ∧ out ⟨B_c, F_z⟩ = Y * Z + Y * Z := by
  intro σ' out X Y Z A B C D E X3
  rcases hb1 with rfl | rfl <;>
    (refine ⟨?_, ?_, ?_⟩ <;>
      simp [out, σ', X, Y, Z, A, B, C, D, E, X3, run, bn256_twist_Double, substProg, substInstr, substLoc, step,
        evalOp, towerOps] <;> ring)

/-- `twistPoint.Double` represents the tangent double (y ≠ 0), also in place. -/
theorem twist_double_rep (s : Loc → F) {x y : F} (h2 : (2 : F) ≠ 0)
    (b1 : Nat) (hb1 : b1 = B_a ∨ b1 = B_c) (ha : JacRep s b1 x y) (hy : y ≠ 0) :
    JacRep (run (towerOps F id id) (substProg (fun b => if b = B_a then b1 else b) bn256_twist_Double) s) B_c
      (tangX x y) (tangY x y) := by
  obtain ⟨vx, vy, vz⟩ := twist_double_vals s b1 hb1
  have hZ := ha.hz
  set Z := s ⟨b1, F_z⟩
  have hz3 : y * Z ^ 3 * Z + y * Z ^ 3 * Z = 2 * y * Z ^ 4 := by ring
  refine ⟨?_, ?_, ?_⟩
  · rw [vz, ha.hy, hz3]
    exact mul_ne_zero (mul_ne_zero h2 hy) (pow_ne_zero 4 hZ)
  · rw [vx, vz, ha.hx, ha.hy, hz3]
    unfold tangX
    field_simp
    ring
  · rw [vy, vz, ha.hx, ha.hy, hz3]
    unfold tangY tangX
    field_simp
    ring

theorem twist_add_guards : bn256_twist_Add_guards =
    ["Add: IsInfinity(a)", "Add: IsInfinity(b)", "Add: IsZero(local:complit_8)", "Add: IsZero(local:complit_5)"] := rfl

theorem bn254_twist_same : bn254_twist_Add = bn256_twist_Add ∧ bn254_twist_Double = bn256_twist_Double
    ∧ bn254_twist_Add_guards = bn256_twist_Add_guards := ⟨rfl, rfl, rfl⟩

end twist

end Kyber.IR.Tower
