import KyberModel.Groups.Decode
import KyberModel.Lib.Fp2Field
import KyberModel.Lib.Weierstrass
import KyberModel.Lib.ModCast
/-
The executable twist model of `Groups/Decode.lean` (`Fp2.addPt`, `negPt`, `smul` on pairs of naturals) is
Mathlib's elliptic-curve group over the field `QF p = F_p[i]/(i²+1)`, for `y² = x³ + b` with `b ≠ 0`.
-/
namespace Kyber.TwistModel
open Kyber Kyber.Fp2 Kyber.WLaw WeierstrassCurve

variable {c : Fp2.Curve}

def castEl (p : Nat) (a : Fp2.El) : QF p := ⟨(a.1 : ZMod p), (a.2 : ZMod p)⟩

def Reduced (p : Nat) (a : Fp2.El) : Prop := a.1 < p ∧ a.2 < p

/-- Reduced coordinates on the curve. -/
def Valid (c : Fp2.Curve) : Fp2.Pt → Prop
  | none => True
  | some (x, y) => Reduced c.p x ∧ Reduced c.p y ∧ Fp2.onCurve c (some (x, y)) = true

def castPt (c : Fp2.Curve) : Fp2.Pt → Option (QF c.p × QF c.p)
  | none => none
  | some (x, y) => some (castEl c.p x, castEl c.p y)

theorem castEl_injective {p : Nat} {a b : Fp2.El} (ha : Reduced p a) (hb : Reduced p b)
    (h : castEl p a = castEl p b) : a = b := by
  have h1 := congrArg QF.re h
  have h2 := congrArg QF.im h
  simp only [castEl] at h1 h2
  have := eq_of_cast_eq ha.1 hb.1 h1
  have := eq_of_cast_eq ha.2 hb.2 h2
  exact Prod.ext ‹_› ‹_›

section ops
variable {p : Nat} (hp : 0 < p)
include hp

omit hp in
theorem cast_add (a b : Fp2.El) : castEl p (Fp2.add p a b) = castEl p a + castEl p b := by
  ext <;> simp [castEl, Fp2.add, ZMod.natCast_mod]

theorem cast_sub (a b : Fp2.El) : castEl p (Fp2.sub p a b) = castEl p a - castEl p b := by
  ext <;> simp [castEl, Fp2.sub, cast_subMod hp]

theorem cast_neg (a : Fp2.El) : castEl p (Fp2.neg p a) = -castEl p a := by
  ext <;> simp [castEl, Fp2.neg, cast_negMod hp]

theorem cast_mul (a b : Fp2.El) : castEl p (Fp2.mul p a b) = castEl p a * castEl p b := by
  ext <;> simp [castEl, Fp2.mul, cast_subMod hp, ZMod.natCast_mod]

omit hp in
theorem cast_red (a : Fp2.El) : castEl p (Fp2.red p a) = castEl p a := by
  ext <;> simp [castEl, Fp2.red, ZMod.natCast_mod]

theorem reduced_add (a b : Fp2.El) : Reduced p (Fp2.add p a b) := ⟨Nat.mod_lt _ hp, Nat.mod_lt _ hp⟩
theorem reduced_sub (a b : Fp2.El) : Reduced p (Fp2.sub p a b) := ⟨subMod_lt hp _ _, subMod_lt hp _ _⟩
theorem reduced_neg (a : Fp2.El) : Reduced p (Fp2.neg p a) := ⟨negMod_lt hp _, negMod_lt hp _⟩
theorem reduced_mul (a b : Fp2.El) : Reduced p (Fp2.mul p a b) := ⟨subMod_lt hp _ _, Nat.mod_lt _ hp⟩
theorem reduced_red (a : Fp2.El) : Reduced p (Fp2.red p a) := ⟨Nat.mod_lt _ hp, Nat.mod_lt _ hp⟩

end ops

section inv
variable {p : Nat} [hpr : Fact p.Prime] [h34 : Fact (p % 4 = 3)]

theorem cast_inv (h2 : 2 < p) (a : Fp2.El) : castEl p (Fp2.inv p a) = (castEl p a)⁻¹ := by
  have hp : 0 < p := hpr.out.pos
  show castEl p (Fp2.inv p a) = ⟨(castEl p a).re / QF.norm (castEl p a), -(castEl p a).im / QF.norm (castEl p a)⟩
  ext
  · simp only [castEl, Fp2.inv, QF.norm, Nat.cast_mul, ZMod.natCast_mod, cast_invMod h2, Nat.cast_add]
    rw [div_eq_mul_inv]
  · simp only [castEl, Fp2.inv, QF.norm, Nat.cast_mul, ZMod.natCast_mod, cast_invMod h2, Nat.cast_add,
      cast_negMod hp]
    rw [div_eq_mul_inv]

end inv

/-- Side conditions on a twist record. -/
structure Good (c : Fp2.Curve) : Prop where
  gt3 : 3 < c.p
  bne : castEl c.p c.b ≠ 0

section main
variable [hpr : Fact c.p.Prime] [h34 : Fact (c.p % 4 = 3)] (hg : Good c)
include hg

omit hpr h34 in
theorem p_pos : 0 < c.p := by have := hg.gt3; omega

omit hpr h34 hg in
theorem red_eq_of_reduced {p : Nat} {a : Fp2.El} (h : Reduced p a) : Fp2.red p a = a := by
  unfold Fp2.red; rw [Nat.mod_eq_of_lt h.1, Nat.mod_eq_of_lt h.2]

omit hpr h34 hg in
theorem isZero_iff {p : Nat} {a : Fp2.El} (h : Reduced p a) : Fp2.isZero a = true ↔ castEl p a = 0 := by
  unfold Fp2.isZero castEl
  simp only [Bool.and_eq_true, decide_eq_true_eq]
  constructor
  · rintro ⟨h1, h2⟩; ext <;> simp [h1, h2]
  · intro h0
    have h1 := congrArg QF.re h0
    have h2 := congrArg QF.im h0
    simp only [QF.zero_re, QF.zero_im] at h1 h2
    exact ⟨eq_of_cast_eq h.1 (by have := h.1; omega) (by simpa using h1),
           eq_of_cast_eq h.2 (by have := h.2; omega) (by simpa using h2)⟩

/-- The model's addition is the field-level chord-and-tangent addition over `QF p` (a = 0). -/
theorem add_cast (P Q : Fp2.Pt) (hP : Valid c P) (hQ : Valid c Q) :
    castPt c (Fp2.addPt c P Q) = fadd (0 : QF c.p) (castPt c P) (castPt c Q) := by
  have hp := p_pos hg
  have h2 : 2 < c.p := by have := hg.gt3; omega
  cases P with
  | none => cases Q <;> simp [Fp2.addPt, castPt, fadd]
  | some pp =>
    obtain ⟨x1, y1⟩ := pp
    cases Q with
    | none => simp [Fp2.addPt, castPt, fadd]
    | some qq =>
      obtain ⟨x2, y2⟩ := qq
      obtain ⟨hx1, hy1, _⟩ := hP
      obtain ⟨hx2, hy2, _⟩ := hQ
      simp only [Fp2.addPt, castPt, fadd]
      rw [red_eq_of_reduced hx1, red_eq_of_reduced hx2]
      by_cases hx : x1 = x2
      · have hxc : castEl c.p x1 = castEl c.p x2 := by rw [hx]
        rw [if_pos hx, if_pos hxc]
        by_cases hy : Fp2.isZero (Fp2.add c.p y1 y2) = true
        · have h0 : castEl c.p y1 + castEl c.p y2 = 0 := by
            rw [← cast_add]; exact (isZero_iff (reduced_add hp y1 y2)).mp hy
          rw [if_pos hy, if_pos h0]
        · have h0 : ¬ castEl c.p y1 + castEl c.p y2 = 0 := by
            intro h; apply hy
            apply (isZero_iff (reduced_add hp y1 y2)).mpr
            rw [cast_add]; exact h
          rw [if_neg hy, if_neg h0]
          simp only [Option.some.injEq, Prod.mk.injEq]
          simp only [cast_sub hp, cast_mul hp, cast_add, cast_inv h2]
          constructor <;> (rw [div_eq_mul_inv]; ring)
      · have hxc : ¬ castEl c.p x1 = castEl c.p x2 := fun h => hx (castEl_injective hx1 hx2 h)
        rw [if_neg hx, if_neg hxc]
        simp only [Option.some.injEq, Prod.mk.injEq]
        simp only [cast_sub hp, cast_mul hp, cast_add, cast_inv h2]
        constructor <;> (rw [div_eq_mul_inv]; ring)

/-- The boolean curve test agrees with Mathlib's curve equation over `QF p`. -/
theorem onCurve_iff (x y : Fp2.El) :
    Fp2.onCurve c (some (x, y)) = true
      ↔ (sw (0 : QF c.p) (castEl c.p c.b)).Equation (castEl c.p x) (castEl c.p y) := by
  have hp := p_pos hg
  rw [Affine.equation_iff]
  simp only [Fp2.onCurve, sw, beq_iff_eq]
  constructor
  · intro h
    have := congrArg (castEl c.p) h
    simp only [cast_mul hp, cast_add, cast_red] at this
    linear_combination this
  · intro h
    apply castEl_injective (reduced_mul hp _ _) (reduced_add hp _ _)
    simp only [cast_mul hp, cast_add, cast_red]
    linear_combination h

omit hpr h34 hg in
theorem natCast_re (p n : Nat) : ((n : Nat) : QF p).re = (n : ZMod p) := by
  induction n with
  | zero => simp
  | succ k ih => rw [Nat.cast_succ, QF.add_re, ih, QF.one_re, Nat.cast_succ]

theorem small_ne_zero (n : Nat) (hn : 0 < n) (hlt : n < c.p) : ((n : Nat) : QF c.p) ≠ 0 := by
  intro h
  have h1 := congrArg QF.re h
  rw [natCast_re, QF.zero_re, ZMod.natCast_eq_zero_iff] at h1
  have := Nat.le_of_dvd hn h1
  omega

/-- Δ ≠ 0 (the characteristic exceeds 3 and `b ≠ 0`). -/
theorem disc_ne_zero : (sw (0 : QF c.p) (castEl c.p c.b)).Δ ≠ 0 := by
  have h2 := small_ne_zero hg 2 (by norm_num) (by have := hg.gt3; omega)
  have h3 := small_ne_zero hg 3 (by norm_num) hg.gt3
  have hΔ : (sw (0 : QF c.p) (castEl c.p c.b)).Δ
      = -(((2 : Nat) : QF c.p) ^ 4 * ((3 : Nat) : QF c.p) ^ 3 * (castEl c.p c.b) ^ 2) := by
    simp only [WeierstrassCurve.Δ, WeierstrassCurve.b₂, WeierstrassCurve.b₄, WeierstrassCurve.b₆,
      WeierstrassCurve.b₈, sw]
    push_cast; ring
  rw [hΔ, neg_ne_zero]
  exact mul_ne_zero (mul_ne_zero (pow_ne_zero 4 h2) (pow_ne_zero 3 h3)) (pow_ne_zero 2 hg.bne)

/-- Valid model points as Mathlib points. -/
noncomputable def toW : (P : Fp2.Pt) → Valid c P → (sw (0 : QF c.p) (castEl c.p c.b)).Point
  | none, _ => 0
  | some (x, y), h =>
    .some (castEl c.p x) (castEl c.p y)
      ((Affine.equation_iff_nonsingular_of_Δ_ne_zero (disc_ne_zero hg)).mp ((onCurve_iff hg x y).mp h.2.2))

theorem ofPoint_toW (P : Fp2.Pt) (h : Valid c P) : ofPoint (toW hg P h) = castPt c P := by
  cases P with
  | none => rfl
  | some pp => obtain ⟨x, y⟩ := pp; rfl

omit hpr h34 hg in
theorem castPt_injective {P Q : Fp2.Pt} (hP : Valid c P) (hQ : Valid c Q) (h : castPt c P = castPt c Q) : P = Q := by
  cases P with
  | none => cases Q with
    | none => rfl
    | some q => obtain ⟨x, y⟩ := q; simp [castPt] at h
  | some pp =>
    obtain ⟨x1, y1⟩ := pp
    cases Q with
    | none => simp [castPt] at h
    | some q =>
      obtain ⟨x2, y2⟩ := q
      simp only [castPt, Option.some.injEq, Prod.mk.injEq] at h
      have := castEl_injective hP.1 hQ.1 h.1
      have := castEl_injective hP.2.1 hQ.2.1 h.2
      simp_all

theorem toW_injective {P Q : Fp2.Pt} (hP : Valid c P) (hQ : Valid c Q) (h : toW hg P hP = toW hg Q hQ) : P = Q := by
  apply castPt_injective hP hQ
  rw [← ofPoint_toW hg P hP, ← ofPoint_toW hg Q hQ, h]

omit hpr h34 in
/-- Coordinates produced by `addPt` are reduced. -/
theorem add_reduced (P Q : Fp2.Pt) (hP : Valid c P) (hQ : Valid c Q) (x y : Fp2.El)
    (h : Fp2.addPt c P Q = some (x, y)) : Reduced c.p x ∧ Reduced c.p y := by
  have hp := p_pos hg
  cases P with
  | none =>
    cases Q with
    | none => simp [Fp2.addPt] at h
    | some q =>
      obtain ⟨x2, y2⟩ := q
      simp only [Fp2.addPt, Option.some.injEq, Prod.mk.injEq] at h
      obtain ⟨rfl, rfl⟩ := h
      exact ⟨hQ.1, hQ.2.1⟩
  | some pp =>
    obtain ⟨x1, y1⟩ := pp
    cases Q with
    | none =>
      simp only [Fp2.addPt, Option.some.injEq, Prod.mk.injEq] at h
      obtain ⟨rfl, rfl⟩ := h
      exact ⟨hP.1, hP.2.1⟩
    | some q =>
      obtain ⟨x2, y2⟩ := q
      simp only [Fp2.addPt] at h
      by_cases hx : Fp2.red c.p x1 = Fp2.red c.p x2
      · rw [if_pos hx] at h
        by_cases hy : Fp2.isZero (Fp2.add c.p y1 y2) = true
        · rw [if_pos hy] at h; simp at h
        · rw [if_neg hy] at h
          simp only [Option.some.injEq, Prod.mk.injEq] at h
          obtain ⟨rfl, rfl⟩ := h
          exact ⟨reduced_sub hp _ _, reduced_sub hp _ _⟩
      · rw [if_neg hx] at h
        simp only [Option.some.injEq, Prod.mk.injEq] at h
        obtain ⟨rfl, rfl⟩ := h
        exact ⟨reduced_sub hp _ _, reduced_sub hp _ _⟩

/-- `addPt` maps valid points to a valid point which is Mathlib's sum. -/
theorem add_spec (P Q : Fp2.Pt) (hP : Valid c P) (hQ : Valid c Q) :
    ∃ h : Valid c (Fp2.addPt c P Q), toW hg (Fp2.addPt c P Q) h = toW hg P hP + toW hg Q hQ := by
  have hcast : castPt c (Fp2.addPt c P Q) = ofPoint (toW hg P hP + toW hg Q hQ) := by
    rw [ofPoint_add, ofPoint_toW, ofPoint_toW, add_cast hg P Q hP hQ]
  have hred := add_reduced hg P Q hP hQ
  generalize hR : toW hg P hP + toW hg Q hQ = R at hcast
  generalize hS : Fp2.addPt c P Q = S at hcast hred
  cases S with
  | none =>
    refine ⟨trivial, ?_⟩
    cases R with
    | zero => rfl
    | some X Y hns => simp [castPt, ofPoint] at hcast
  | some s =>
    obtain ⟨x, y⟩ := s
    cases R with
    | zero => simp [castPt, ofPoint] at hcast
    | some X Y hns =>
      simp only [castPt, ofPoint, Option.some.injEq, Prod.mk.injEq] at hcast
      obtain ⟨hX, hY⟩ := hcast
      have hv : Valid c (some (x, y)) := by
        refine ⟨(hred x y rfl).1, (hred x y rfl).2, ?_⟩
        rw [onCurve_iff hg, hX, hY]; exact hns.1
      refine ⟨hv, ?_⟩
      apply ofPoint_injective
      rw [ofPoint_toW]
      simp [castPt, ofPoint, hX, hY]

theorem valid_add {P Q : Fp2.Pt} (hP : Valid c P) (hQ : Valid c Q) : Valid c (Fp2.addPt c P Q) :=
  (add_spec hg P Q hP hQ).1

theorem toW_add {P Q : Fp2.Pt} (hP : Valid c P) (hQ : Valid c Q) :
    toW hg (Fp2.addPt c P Q) (valid_add hg hP hQ) = toW hg P hP + toW hg Q hQ :=
  (add_spec hg P Q hP hQ).2

omit hpr h34 in
theorem valid_neg {P : Fp2.Pt} (hP : Valid c P) : Valid c (Fp2.negPt c P) := by
  have hp := p_pos hg
  cases P with
  | none => trivial
  | some pp =>
    obtain ⟨x, y⟩ := pp
    obtain ⟨hx, hy, hon⟩ := hP
    refine ⟨reduced_red hp x, reduced_neg hp y, ?_⟩
    simp only [Fp2.onCurve, beq_iff_eq] at hon ⊢
    rw [red_eq_of_reduced hx]
    apply castEl_injective (reduced_mul hp _ _) (reduced_add hp _ _)
    have := congrArg (castEl c.p) hon
    simp only [cast_mul hp, cast_add, cast_red, cast_neg hp] at this ⊢
    linear_combination this

theorem toW_neg {P : Fp2.Pt} (hP : Valid c P) : toW hg (Fp2.negPt c P) (valid_neg hg hP) = -toW hg P hP := by
  apply ofPoint_injective
  rw [ofPoint_toW, ofPoint_neg, ofPoint_toW]
  cases P with
  | none => rfl
  | some pp =>
    obtain ⟨x, y⟩ := pp
    simp only [Fp2.negPt, castPt, fneg, Option.some.injEq, Prod.mk.injEq]
    exact ⟨cast_red x, cast_neg (p_pos hg) y⟩

omit hpr h34 hg in
theorem valid_zero : Valid c none := trivial

theorem toW_zero : toW hg none valid_zero = 0 := rfl

theorem toW_congr {P Q : Fp2.Pt} (h : P = Q) (hP : Valid c P) (hQ : Valid c Q) : toW hg P hP = toW hg Q hQ := by
  subst h; rfl

/-- Double-and-add computes the scalar multiple in Mathlib's group. -/
theorem smulAux_spec {P : Fp2.Pt} (hP : Valid c P) : ∀ (fuel k : Nat), k < 2 ^ fuel →
    ∃ h : Valid c (Fp2.smulAux c fuel k P), toW hg _ h = k • toW hg P hP := by
  intro fuel
  induction fuel with
  | zero =>
    intro k hk
    have : k = 0 := by omega
    subst this
    exact ⟨valid_zero, by rw [zero_nsmul]; rfl⟩
  | succ n ih =>
    intro k hk
    unfold Fp2.smulAux
    by_cases hk0 : k = 0
    · subst hk0
      simp only [if_true]
      exact ⟨valid_zero, by rw [zero_nsmul]; rfl⟩
    · simp only [hk0, if_false]
      have hk2 : k / 2 < 2 ^ n := by
        have : k < 2 * 2 ^ n := by rw [pow_succ] at hk; omega
        omega
      obtain ⟨hv, hs⟩ := ih (k / 2) hk2
      have hdbl := valid_add hg hv hv
      have hdblG : toW hg _ hdbl = (2 * (k / 2)) • toW hg P hP := by
        rw [toW_add hg hv hv, hs, two_mul, add_nsmul]
      by_cases hodd : k % 2 = 1
      · simp only [hodd, if_true]
        refine ⟨valid_add hg hdbl hP, ?_⟩
        have hk' : k = 2 * (k / 2) + 1 := by omega
        refine (toW_add hg hdbl hP).trans ?_
        rw [hdblG]
        conv_rhs => rw [hk', add_nsmul, one_nsmul]
      · simp only [hodd, if_false]
        refine ⟨hdbl, ?_⟩
        have hk' : k = 2 * (k / 2) := by omega
        refine hdblG.trans ?_
        conv_rhs => rw [hk']

theorem valid_smul {P : Fp2.Pt} (hP : Valid c P) (k : Nat) : Valid c (Fp2.smul c k P) :=
  (smulAux_spec hg hP (k.log2 + 1) k Nat.lt_log2_self).1

theorem toW_smul {P : Fp2.Pt} (hP : Valid c P) (k : Nat) :
    toW hg (Fp2.smul c k P) (valid_smul hg hP k) = k • toW hg P hP :=
  (smulAux_spec hg hP (k.log2 + 1) k Nat.lt_log2_self).2

/-! ### The group laws on the executable twist model, for every valid operand -/

/-- All the identities of C01 on a twist. -/
theorem laws {P Q R : Fp2.Pt} (hP : Valid c P) (hQ : Valid c Q) (hR : Valid c R) (a b : Nat) :
    Fp2.addPt c (Fp2.addPt c P Q) R = Fp2.addPt c P (Fp2.addPt c Q R)
    ∧ Fp2.addPt c P Q = Fp2.addPt c Q P
    ∧ Fp2.addPt c P (Fp2.negPt c P) = none
    ∧ Fp2.smul c (a + b) P = Fp2.addPt c (Fp2.smul c a P) (Fp2.smul c b P)
    ∧ Fp2.smul c a (Fp2.smul c b P) = Fp2.smul c (a * b) P
    ∧ Fp2.smul c a (Fp2.addPt c P Q) = Fp2.addPt c (Fp2.smul c a P) (Fp2.smul c a Q)
    ∧ Fp2.smul c 0 P = none ∧ Fp2.smul c 1 P = P := by
  refine ⟨?_, ?_, ?_, ?_, ?_, ?_, ?_, ?_⟩
  · apply toW_injective hg (valid_add hg (valid_add hg hP hQ) hR) (valid_add hg hP (valid_add hg hQ hR))
    rw [toW_add hg (valid_add hg hP hQ) hR, toW_add hg hP hQ, toW_add hg hP (valid_add hg hQ hR), toW_add hg hQ hR]
    exact add_assoc _ _ _
  · apply toW_injective hg (valid_add hg hP hQ) (valid_add hg hQ hP)
    rw [toW_add hg hP hQ, toW_add hg hQ hP]
    exact add_comm _ _
  · apply toW_injective hg (valid_add hg hP (valid_neg hg hP)) valid_zero
    rw [toW_add hg hP (valid_neg hg hP), toW_neg hg hP, toW_zero]
    exact add_neg_cancel _
  · apply toW_injective hg (valid_smul hg hP _) (valid_add hg (valid_smul hg hP a) (valid_smul hg hP b))
    rw [toW_smul hg hP, toW_add hg (valid_smul hg hP a) (valid_smul hg hP b), toW_smul hg hP, toW_smul hg hP]
    exact add_nsmul _ _ _
  · apply toW_injective hg (valid_smul hg (valid_smul hg hP b) a) (valid_smul hg hP _)
    rw [toW_smul hg (valid_smul hg hP b), toW_smul hg hP, toW_smul hg hP]
    exact (mul_nsmul' _ _ _).symm
  · apply toW_injective hg (valid_smul hg (valid_add hg hP hQ) a)
      (valid_add hg (valid_smul hg hP a) (valid_smul hg hQ a))
    rw [toW_smul hg (valid_add hg hP hQ), toW_add hg hP hQ,
      toW_add hg (valid_smul hg hP a) (valid_smul hg hQ a), toW_smul hg hP, toW_smul hg hQ]
    exact nsmul_add _ _ _
  · apply toW_injective hg (valid_smul hg hP 0) valid_zero
    rw [toW_smul hg hP, toW_zero]; exact zero_nsmul _
  · apply toW_injective hg (valid_smul hg hP 1) hP
    rw [toW_smul hg hP]; exact one_nsmul _

/-- Scalars act modulo `q` on points killed by `q`; `(q-1) P = -P`. -/
theorem laws_mod {P : Fp2.Pt} (hP : Valid c P) (q : Nat) (hq0 : 0 < q) (hq : Fp2.smul c q P = none) (a : Nat) :
    Fp2.smul c (a % q) P = Fp2.smul c a P ∧ Fp2.smul c (q - 1) P = Fp2.negPt c P := by
  have h0 : q • toW hg P hP = 0 := by
    rw [← toW_smul hg hP, ← toW_zero hg]
    exact toW_congr hg hq _ valid_zero
  constructor
  · apply toW_injective hg (valid_smul hg hP _) (valid_smul hg hP _)
    rw [toW_smul hg hP, toW_smul hg hP]
    conv_rhs => rw [← Nat.div_add_mod a q, add_nsmul, mul_comm, mul_nsmul', h0, nsmul_zero, zero_add]
  · apply toW_injective hg (valid_smul hg hP _) (valid_neg hg hP)
    rw [toW_smul hg hP, toW_neg hg hP]
    have : (q - 1) • toW hg P hP + toW hg P hP = 0 := by
      rw [← succ_nsmul]
      have : q - 1 + 1 = q := by omega
      rw [this, h0]
    exact eq_neg_of_add_eq_zero_left this

end main

end Kyber.TwistModel
