import KyberModel.Lib.IRBasic
import KyberModel.Generated.Formulas
import Mathlib.Tactic.FieldSimp
import Mathlib.Tactic.LinearCombination
/-
IR theorems for the Jacobian formulas of `pairing/bn256/curve.go` and `pairing/bn254/curve.go`
(regenerated from the source): on the main path (both inputs finite, x₁ ≠ x₂) `Add` is add-2007-bl and
represents the affine chord sum; `Double` is dbl-2009-l (a = 0) and represents the tangent double.
Jacobian representation, multiplicative form: X = x·z², Y = y·z³, z ≠ 0.
-/
namespace Kyber.IR.Jac
open Kyber.IR Kyber.IR.Gen

variable {F : Type} [Field F]

structure JacRep (s : Loc → F) (b : Nat) (x y : F) : Prop where
  hz : s ⟨b, F_z⟩ ≠ 0
  hx : s ⟨b, F_x⟩ = x * s ⟨b, F_z⟩ ^ 2
  hy : s ⟨b, F_y⟩ = y * s ⟨b, F_z⟩ ^ 3

abbrev R (p : List Instr) (s : Loc → F) : Loc → F := run (ringOps F) p s

/-- affine chord addition (x₁ ≠ x₂) -/
def chordX (x1 y1 x2 y2 : F) : F := ((y2 - y1) / (x2 - x1)) ^ 2 - x1 - x2
def chordY (x1 y1 x2 y2 : F) : F := (y2 - y1) / (x2 - x1) * (x1 - chordX x1 y1 x2 y2) - y1
/-- affine tangent doubling for a = 0 (y ≠ 0) -/
def tangX (x y : F) : F := (3 * x ^ 2 / (2 * y)) ^ 2 - 2 * x
def tangY (x y : F) : F := 3 * x ^ 2 / (2 * y) * (x - tangX x y) - y

set_option maxRecDepth 16000 in
/-- What `curvePoint.Add` (main path) leaves in the receiver, for each aliasing pattern. -/
theorem add_vals (prog : List Instr) (hprog : prog = bn256_curve_Add) (s : Loc → F)
    (b1 b2 : Nat) (hb1 : b1 = B_a ∨ b1 = B_c) (hb2 : b2 = B_b ∨ b2 = B_c) :
    let σ : Nat → Nat := fun b => if b = B_a then b1 else if b = B_b then b2 else b
    let out := R (substProg σ prog) s
    let X1 := s ⟨b1, F_x⟩; let Y1 := s ⟨b1, F_y⟩; let Z1 := s ⟨b1, F_z⟩
    let X2 := s ⟨b2, F_x⟩; let Y2 := s ⟨b2, F_y⟩; let Z2 := s ⟨b2, F_z⟩
    let u1 := X1 * (Z2 * Z2); let u2 := X2 * (Z1 * Z1)
    let s1 := Y1 * (Z2 * (Z2 * Z2)); let s2 := Y2 * (Z1 * (Z1 * Z1))
    let h := u2 - u1; let i := (h + h) * (h + h); let j := h * i
    let r := (s2 - s1) + (s2 - s1); let v := u1 * i
    out ⟨B_c, F_x⟩ = r * r - j - (v + v)
    ∧ out ⟨B_c, F_y⟩ = r * (v - (r * r - j - (v + v))) - (s1 * j + s1 * j)
    ∧ out ⟨B_c, F_z⟩ = ((Z1 + Z2) * (Z1 + Z2) - Z1 * Z1 - Z2 * Z2) * h := by
  intro σ out X1 Y1 Z1 X2 Y2 Z2 u1 u2 s1 s2 h i j r v
  subst hprog
  rcases hb1 with rfl | rfl <;> rcases hb2 with rfl | rfl <;>
    (refine ⟨?_, ?_, ?_⟩ <;>
      simp [out, σ, X1, Y1, Z1, X2, Y2, Z2, u1, u2, s1, s2, h, i, j, r, v, run, bn256_curve_Add, substProg,
        substInstr, substLoc, step, evalOp, ringOps])

/-- Core algebra of add-2007-bl on representatives. -/
theorem add_core {x1 y1 x2 y2 Z1 Z2 : F} (h2 : (2 : F) ≠ 0) (hz1 : Z1 ≠ 0) (hz2 : Z2 ≠ 0) (hne : x2 - x1 ≠ 0) :
    let X1 := x1 * Z1 ^ 2; let Y1 := y1 * Z1 ^ 3
    let X2 := x2 * Z2 ^ 2; let Y2 := y2 * Z2 ^ 3
    let u1 := X1 * (Z2 * Z2); let u2 := X2 * (Z1 * Z1)
    let s1 := Y1 * (Z2 * (Z2 * Z2)); let s2 := Y2 * (Z1 * (Z1 * Z1))
    let h := u2 - u1; let i := (h + h) * (h + h); let j := h * i
    let r := (s2 - s1) + (s2 - s1); let v := u1 * i
    let X3 := r * r - j - (v + v)
    let Y3 := r * (v - X3) - (s1 * j + s1 * j)
    let Z3 := ((Z1 + Z2) * (Z1 + Z2) - Z1 * Z1 - Z2 * Z2) * h
    Z3 ≠ 0 ∧ X3 = chordX x1 y1 x2 y2 * Z3 ^ 2 ∧ Y3 = chordY x1 y1 x2 y2 * Z3 ^ 3 := by
  intro X1 Y1 X2 Y2 u1 u2 s1 s2 h i j r v X3 Y3 Z3
  have hZ3 : Z3 = 2 * Z1 ^ 3 * Z2 ^ 3 * (x2 - x1) := by
    simp only [Z3, h, u1, u2, X1, X2]; ring
  obtain ⟨D, hD⟩ : ∃ D, D = x2 - x1 := ⟨_, rfl⟩
  have hx2 : x2 = x1 + D := by rw [hD]; ring
  rw [← hD] at hne
  refine ⟨?_, ?_, ?_⟩
  · rw [hZ3, ← hD]
    exact mul_ne_zero (mul_ne_zero (mul_ne_zero h2 (pow_ne_zero 3 hz1)) (pow_ne_zero 3 hz2)) hne
  · rw [hZ3]
    simp only [X3, r, j, i, h, v, s1, s2, u1, u2, X1, X2, Y1, Y2, chordX]
    rw [← hD, hx2]
    field_simp
    ring
  · rw [hZ3]
    simp only [Y3, X3, r, j, i, h, v, s1, s2, u1, u2, X1, X2, Y1, Y2, chordY, chordX]
    rw [← hD, hx2]
    field_simp
    ring

/-- `curvePoint.Add`, main path: the result represents the affine chord sum — also when the receiver
    is one or both of the operands. -/
theorem add_rep (s : Loc → F) {x1 y1 x2 y2 : F} (h2 : (2 : F) ≠ 0)
    (b1 b2 : Nat) (hb1 : b1 = B_a ∨ b1 = B_c) (hb2 : b2 = B_b ∨ b2 = B_c)
    (ha : JacRep s b1 x1 y1) (hb : JacRep s b2 x2 y2) (hne : x2 - x1 ≠ 0) :
    JacRep (R (substProg (fun b => if b = B_a then b1 else if b = B_b then b2 else b) bn256_curve_Add) s) B_c
      (chordX x1 y1 x2 y2) (chordY x1 y1 x2 y2) := by
  obtain ⟨vx, vy, vz⟩ := add_vals bn256_curve_Add rfl s b1 b2 hb1 hb2
  obtain ⟨cz, cx, cy⟩ := add_core (x1 := x1) (y1 := y1) (x2 := x2) (y2 := y2) h2 ha.hz hb.hz hne
  refine ⟨?_, ?_, ?_⟩
  · rw [vz, ha.hx, hb.hx]; exact cz
  · rw [vx, vz, ha.hx, ha.hy, hb.hx, hb.hy]; exact cx
  · rw [vy, vz, ha.hx, ha.hy, hb.hx, hb.hy]; exact cy

/-- The early exits that guard the main path, as the source states them now: `a` infinite → copy `b`;
    `b` infinite → copy `a`; `h = u2 - u1 = 0` and `s2 - s1 = 0` (same point, whatever the Jacobian
    representation, because the test is on the cross-multiplied values) → `Double`. A change of this decision
    structure changes the extracted list and breaks this obligation. -/
theorem add_guards : bn256_curve_Add_guards =
    ["Add: IsInfinity(a)", "Add: IsInfinity(b)", "Add: local:complit_8 == local:complit_11",
     "Add: local:complit_5 == local:complit_12"] := rfl
theorem bn254_add_guards : bn254_curve_Add_guards = bn256_curve_Add_guards := rfl
theorem double_guards : bn256_curve_Double_guards = [] ∧ bn254_curve_Double_guards = [] := ⟨rfl, rfl⟩

/-- BN254 uses the same code. -/
theorem bn254_add_same : bn254_curve_Add = bn256_curve_Add := rfl
theorem bn254_double_same : bn254_curve_Double = bn256_curve_Double := rfl

/-! ### Doubling (dbl-2009-l, a = 0) -/

set_option maxRecDepth 16000 in
theorem double_vals (s : Loc → F) (b1 : Nat) (hb1 : b1 = B_a ∨ b1 = B_c) :
    let σ : Nat → Nat := fun b => if b = B_a then b1 else b
    let out := R (substProg σ bn256_curve_Double) s
    let X := s ⟨b1, F_x⟩; let Y := s ⟨b1, F_y⟩; let Z := s ⟨b1, F_z⟩
    let A := X * X; let B := Y * Y; let C := B * B
    let D := ((X + B) * (X + B) - A - C) + ((X + B) * (X + B) - A - C)
    let E := A + A + A
    let X3 := E * E - (D + D)
    out ⟨B_c, F_x⟩ = X3
    ∧ out ⟨B_c, F_y⟩ = E * (D - X3) - ((C + C) + (C + C) + ((C + C) + (C + C)))
    ∧ out ⟨B_c, F_z⟩ = Y * Z + Y * Z := by
  intro σ out X Y Z A B C D E X3
  rcases hb1 with rfl | rfl <;>
    (refine ⟨?_, ?_, ?_⟩ <;>
      simp [out, σ, X, Y, Z, A, B, C, D, E, X3, run, bn256_curve_Double, substProg, substInstr, substLoc, step,
        evalOp, ringOps])

/-- `curvePoint.Double` represents the tangent double (y ≠ 0), also in place. -/
theorem double_rep (s : Loc → F) {x y : F} (h2 : (2 : F) ≠ 0)
    (b1 : Nat) (hb1 : b1 = B_a ∨ b1 = B_c) (ha : JacRep s b1 x y) (hy : y ≠ 0) :
    JacRep (R (substProg (fun b => if b = B_a then b1 else b) bn256_curve_Double) s) B_c
      (tangX x y) (tangY x y) := by
  obtain ⟨vx, vy, vz⟩ := double_vals s b1 hb1
  have hZ := ha.hz
  set Z := s ⟨b1, F_z⟩
  have hz3 : y * Z ^ 3 * Z + y * Z ^ 3 * Z = 2 * y * Z ^ 4 := by ring
  refine ⟨?_, ?_, ?_⟩
  · rw [vz, ha.hy, hz3]
    exact mul_ne_zero (mul_ne_zero h2 hy) (pow_ne_zero 4 hZ)
  · rw [vx, vz, ha.hx, ha.hy, hz3]
    unfold tangX
    field_simp
    ring
  · rw [vy, vz, ha.hx, ha.hy, hz3]
    unfold tangY tangX
    field_simp
    ring

end Kyber.IR.Jac
