import KyberModel.Groups.Weierstrass
/-
Kernel-evaluated facts about the Weierstrass model constants (own module: the scalar multiplications
take minutes and should not be redone when other proofs change).
-/
namespace Kyber.WFacts
open Kyber Kyber.Weierstrass

theorem p256_base_on : onCurve P256.curve P256.base = true := by decide +kernel
theorem bn256_base_on : onCurve BN256.curve BN256.base = true := by decide +kernel
theorem bn254_base_on : onCurve BN254.curve BN254.base = true := by decide +kernel
theorem bls_base_on : onCurve BLS12381.curve BLS12381.base = true := by decide +kernel

set_option maxRecDepth 100000 in
theorem p256_order : smul P256.curve P256.n P256.base = none := by decide +kernel
set_option maxRecDepth 100000 in
theorem bn256_order : smul BN256.curve BN256.n BN256.base = none := by decide +kernel
set_option maxRecDepth 100000 in
theorem bn254_order : smul BN254.curve BN254.n BN254.base = none := by decide +kernel
set_option maxRecDepth 100000 in
theorem bls_order : smul BLS12381.curve BLS12381.r BLS12381.base = none := by decide +kernel

theorem p256_disc : (4 * P256.curve.a ^ 3 + 27 * P256.curve.b ^ 2) % P256.curve.p ≠ 0 := by decide +kernel
theorem bn256_disc : (4 * BN256.curve.a ^ 3 + 27 * BN256.curve.b ^ 2) % BN256.curve.p ≠ 0 := by decide +kernel
theorem bn254_disc : (4 * BN254.curve.a ^ 3 + 27 * BN254.curve.b ^ 2) % BN254.curve.p ≠ 0 := by decide +kernel
theorem bls_disc : (4 * BLS12381.curve.a ^ 3 + 27 * BLS12381.curve.b ^ 2) % BLS12381.curve.p ≠ 0 := by decide +kernel

theorem p256_gt3 : 3 < P256.curve.p := by decide +kernel
theorem bn256_gt3 : 3 < BN256.curve.p := by decide +kernel
theorem bn254_gt3 : 3 < BN254.curve.p := by decide +kernel
theorem bls_gt3 : 3 < BLS12381.curve.p := by decide +kernel

end Kyber.WFacts
