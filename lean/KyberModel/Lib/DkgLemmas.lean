import KyberModel.Proto.Dkg
import Mathlib.Data.List.Perm.Basic
import Mathlib.Data.List.Nodup
import Mathlib.Data.List.Permutation
/-
Helper lemmas for Props/C11.lean, part 1: commutation of the elementary state mutations and of the
per-bundle steps of the three `Process*` loops.
-/
namespace Kyber.Dkg

theorem upd_apply {α : Type} (f : Nat → α) (i : Nat) (v : α) (k : Nat) :
    upd f i v k = if k = i then v else f k := rfl

theorem upd_comm {α : Type} (f : Nat → α) {i j : Nat} (h : i ≠ j) (a b : α) :
    upd (upd f i a) j b = upd (upd f j b) i a := by
  funext k
  simp only [upd]
  by_cases h1 : k = i <;> by_cases h2 : k = j
  · exact absurd (h1.symm.trans h2) h
  · simp [h1, h]
  · simp [h2, Ne.symm h]
  · simp [h1, h2]

theorem upd_idem {α : Type} (f : Nat → α) (i : Nat) (a b : α) : upd (upd f i a) i b = upd f i b := by
  funext k; simp only [upd]; by_cases h : k = i <;> simp [h]

theorem setStatus_comm (m : Nat → Nat → Bool) {d d' h h' : Nat} (hne : d ≠ d' ∨ h ≠ h') (v v' : Bool) :
    setStatus (setStatus m d h v) d' h' v' = setStatus (setStatus m d' h' v') d h v := by
  funext x y
  simp only [setStatus]
  by_cases h1 : x = d ∧ y = h <;> by_cases h2 : x = d' ∧ y = h'
  · obtain ⟨rfl, rfl⟩ := h1
    obtain ⟨rfl, rfl⟩ := h2
    rcases hne with h | h <;> exact absurd rfl h
  · rw [if_neg h2, if_pos h1, if_pos h1]
  · rw [if_pos h2, if_neg h1, if_pos h2]
  · rw [if_neg h2, if_neg h1, if_neg h1, if_neg h2]

/-- The dealer row a mutation touches (`none`: it touches a holder column only). -/
def Prim.dealer : Prim → Option Nat
  | .evict d => some d
  | .setPub d _ => some d
  | .setValid d _ => some d
  | .setStatus d _ _ => some d
  | .evictHolder _ => none

/-- The holder column a response-loop mutation touches. -/
def Prim.holder : Prim → Option Nat
  | .evictHolder h => some h
  | .setStatus _ h _ => some h
  | _ => none

theorem apply_comm_dealer (st : St) {p q : Prim} {i j : Nat} (hp : p.dealer = some i) (hq : q.dealer = some j)
    (hij : i ≠ j) : (st.apply p).apply q = (st.apply q).apply p := by
  cases p <;> cases q <;> simp only [Prim.dealer, Option.some.injEq, reduceCtorEq] at hp hq <;>
    subst hp <;> subst hq <;> simp only [St.apply] <;>
    first
    | rfl
    | (congr 1; first | exact upd_comm _ hij _ _ | exact setStatus_comm _ (Or.inl hij) _ _)

theorem apply_comm_holder (st : St) {p q : Prim} {i j : Nat} (hp : p.holder = some i) (hq : q.holder = some j)
    (hij : i ≠ j) : (st.apply p).apply q = (st.apply q).apply p := by
  cases p <;> cases q <;> simp only [Prim.holder, Option.some.injEq, reduceCtorEq] at hp hq <;>
    subst hp <;> subst hq <;> simp only [St.apply] <;>
    first
    | rfl
    | (congr 1; first | exact upd_comm _ hij _ _ | exact setStatus_comm _ (Or.inr hij) _ _)

theorem applyAll_nil (st : St) : st.applyAll [] = st := rfl
theorem applyAll_cons (st : St) (p : Prim) (ps : List Prim) : st.applyAll (p :: ps) = (st.apply p).applyAll ps := rfl
theorem applyAll_append (st : St) (ps qs : List Prim) : st.applyAll (ps ++ qs) = (st.applyAll ps).applyAll qs := by
  unfold St.applyAll; rw [List.foldl_append]

theorem apply_applyAll_comm (p : Prim) (qs : List Prim)
    (h : ∀ q ∈ qs, ∀ s : St, (s.apply p).apply q = (s.apply q).apply p) (s : St) :
    (s.apply p).applyAll qs = (s.applyAll qs).apply p := by
  induction qs generalizing s with
  | nil => rfl
  | cons q qs ih =>
    rw [applyAll_cons, applyAll_cons, h q List.mem_cons_self s]
    exact ih (fun q' hq' => h q' (List.mem_cons_of_mem _ hq')) (s.apply q)

/-- Two mutation lists whose members commute pairwise commute as wholes. -/
theorem applyAll_comm (ps qs : List Prim)
    (h : ∀ p ∈ ps, ∀ q ∈ qs, ∀ s : St, (s.apply p).apply q = (s.apply q).apply p) (st : St) :
    (st.applyAll ps).applyAll qs = (st.applyAll qs).applyAll ps := by
  induction ps generalizing st with
  | nil => rfl
  | cons p ps ih =>
    rw [applyAll_cons, ih (fun p' hp' => h p' (List.mem_cons_of_mem _ hp')) (st.apply p),
      apply_applyAll_comm p qs (h p List.mem_cons_self) st]
    rfl

/-! ### footprints of the per-bundle steps -/

theorem dealPrims_dealer (c : Cfg) (seen : Bool) (b : DealBundle) :
    ∀ p ∈ (dealPrims c seen b).1, p.dealer = some b.dealerIndex := by
  intro p hp
  unfold dealPrims at hp
  split at hp
  · simp at hp
  · split at hp
    · simp at hp
    · split at hp
      · simp at hp; subst hp; rfl
      · split at hp
        · simp at hp; subst hp; rfl
        · split at hp
          · simp at hp; subst hp; rfl
          · simp only [List.mem_append, List.mem_cons, List.not_mem_nil, or_false] at hp
            rcases hp with (hp | hp) | hp
            · subst hp; rfl
            · split at hp
              · simp at hp; rcases hp with rfl | rfl <;> rfl
              · simp at hp
            · split at hp
              · simp at hp; subst hp; rfl
              · simp at hp

theorem justInnerPrims_dealer (c : Cfg) (d : Nat) (pp : Option (List Nat)) (js : List Justification) :
    ∀ p ∈ justInnerPrims c d pp js, p.dealer = some d := by
  induction js with
  | nil => intro p hp; simp [justInnerPrims] at hp
  | cons j rest ih =>
    intro p hp
    unfold justInnerPrims at hp
    split at hp
    · rcases List.mem_cons.mp hp with rfl | hp
      · rfl
      · exact ih p hp
    · split at hp
      · simp at hp; subst hp; rfl
      · split at hp
        · rcases List.mem_cons.mp hp with rfl | hp
          · rfl
          · exact ih p hp
        · split at hp
          · rcases List.mem_cons.mp hp with rfl | hp
            · rfl
            · exact ih p hp
          · simp only [List.cons_append, List.mem_cons, List.mem_append] at hp
            rcases hp with rfl | hp | hp
            · rfl
            · split at hp
              · simp at hp; subst hp; rfl
              · simp at hp
            · exact ih p hp

theorem justPrims_dealer (c : Cfg) (seen ev : Bool) (pp : Option (List Nat)) (b : JustBundle) :
    ∀ p ∈ (justPrims c seen ev pp b).1, p.dealer = some b.dealerIndex := by
  intro p hp
  unfold justPrims at hp
  split at hp
  · simp at hp; subst hp; rfl
  · split at hp
    · simp at hp
    · split at hp
      · simp at hp
      · split at hp
        · simp at hp
        · split at hp
          · simp at hp; subst hp; rfl
          · exact justInnerPrims_dealer c _ _ _ p hp

theorem respPrims_holder (c : Cfg) (b : ResponseBundle) :
    ∀ p ∈ (respPrims c b).1, p.holder = some b.shareIndex := by
  intro p hp
  unfold respPrims at hp
  split at hp
  · simp at hp
  · split at hp
    · simp at hp
    · split at hp
      · simp at hp; subst hp; rfl
      · simp only [respInnerPrims, List.mem_map] at hp
        obtain ⟨r, _, rfl⟩ := hp
        split <;> rfl

/-- Mutations on row `i` leave `evicted`, `allPublics` at other rows alone. -/
theorem apply_evicted_other (st : St) {p : Prim} {i j : Nat} (hp : p.dealer = some i) (hij : j ≠ i) :
    (st.apply p).evicted j = st.evicted j ∧ (st.apply p).allPublics j = st.allPublics j := by
  cases p <;> simp only [Prim.dealer, Option.some.injEq, reduceCtorEq] at hp <;> subst hp <;>
    simp [St.apply, upd, hij]

theorem applyAll_reads_other (st : St) (ps : List Prim) {i j : Nat} (hp : ∀ p ∈ ps, p.dealer = some i) (hij : j ≠ i) :
    (st.applyAll ps).evicted j = st.evicted j ∧ (st.applyAll ps).allPublics j = st.allPublics j := by
  induction ps generalizing st with
  | nil => exact ⟨rfl, rfl⟩
  | cons p ps ih =>
    rw [applyAll_cons]
    obtain ⟨h1, h2⟩ := ih (st.apply p) (fun q hq => hp q (List.mem_cons_of_mem _ hq))
    obtain ⟨h3, h4⟩ := apply_evicted_other st (hp p List.mem_cons_self) hij
    exact ⟨h1.trans h3, h2.trans h4⟩

theorem applyAll_comm_dealer (st : St) (ps qs : List Prim) {i j : Nat} (hp : ∀ p ∈ ps, p.dealer = some i)
    (hq : ∀ q ∈ qs, q.dealer = some j) (hij : i ≠ j) :
    (st.applyAll ps).applyAll qs = (st.applyAll qs).applyAll ps :=
  applyAll_comm ps qs (fun p hpm q hqm s => apply_comm_dealer s (hp p hpm) (hq q hqm) hij) st

theorem applyAll_comm_holder (st : St) (ps qs : List Prim) {i j : Nat} (hp : ∀ p ∈ ps, p.holder = some i)
    (hq : ∀ q ∈ qs, q.holder = some j) (hij : i ≠ j) :
    (st.applyAll ps).applyAll qs = (st.applyAll qs).applyAll ps :=
  applyAll_comm ps qs (fun p hpm q hqm s => apply_comm_holder s (hp p hpm) (hq q hqm) hij) st

/-! ### the steps commute for different senders -/

theorem seen_step_other (seen : Nat → Bool) (f : Bool) (i j : Nat) (hij : j ≠ i) :
    (if f then upd seen i true else seen) j = seen j := by
  cases f <;> simp [upd, hij]

theorem seen_comm (seen : Nat → Bool) (f g : Bool) {i j : Nat} (hij : i ≠ j) :
    (if g then upd (if f then upd seen i true else seen) j true else (if f then upd seen i true else seen)) =
    (if f then upd (if g then upd seen j true else seen) i true else (if g then upd seen j true else seen)) := by
  cases f <;> cases g <;> simp [upd_comm _ hij]

theorem dealStep_comm (c : Cfg) (acc : St × (Nat → Bool)) (x y : DealBundle) (h : x.dealerIndex ≠ y.dealerIndex) :
    dealStep c (dealStep c acc x) y = dealStep c (dealStep c acc y) x := by
  unfold dealStep
  simp only [seen_step_other _ _ _ _ h, seen_step_other _ _ _ _ (Ne.symm h)]
  refine Prod.ext ?_ ?_
  · exact applyAll_comm_dealer _ _ _ (dealPrims_dealer c _ x) (dealPrims_dealer c _ y) h
  · exact (seen_comm acc.2 _ _ h)

theorem justStep_comm (c : Cfg) (acc : St × (Nat → Bool)) (x y : JustBundle) (h : x.dealerIndex ≠ y.dealerIndex) :
    justStep c (justStep c acc x) y = justStep c (justStep c acc y) x := by
  unfold justStep
  simp only [seen_step_other _ _ _ _ h, seen_step_other _ _ _ _ (Ne.symm h)]
  have r1 := applyAll_reads_other acc.1 _ (justPrims_dealer c (acc.2 x.dealerIndex) (acc.1.evicted x.dealerIndex)
    (acc.1.allPublics x.dealerIndex) x) (Ne.symm h)
  have r2 := applyAll_reads_other acc.1 _ (justPrims_dealer c (acc.2 y.dealerIndex) (acc.1.evicted y.dealerIndex)
    (acc.1.allPublics y.dealerIndex) y) h
  simp only [r1.1, r1.2, r2.1, r2.2]
  refine Prod.ext ?_ ?_
  · exact applyAll_comm_dealer _ _ _ (justPrims_dealer c _ _ _ x) (justPrims_dealer c _ _ _ y) h
  · exact (seen_comm acc.2 _ _ h)

theorem respStep_comm (c : Cfg) (acc : RespAcc) (x y : ResponseBundle) (h : x.shareIndex ≠ y.shareIndex) :
    respStep c (respStep c acc x) y = respStep c (respStep c acc y) x := by
  unfold respStep
  simp only
  have e1 := applyAll_comm_holder acc.st _ _ (respPrims_holder c x) (respPrims_holder c y) h
  have e2 := seen_comm acc.validAuthors (respPrims c x).2.1 (respPrims c y).2.1 h
  rw [e1, e2, Bool.or_assoc, Bool.or_comm (respPrims c x).2.2, ← Bool.or_assoc]

/-- Folding a step over a permuted list gives the same result when the step commutes for different
    senders and senders are pairwise different. -/
theorem foldl_perm_of_comm {α β : Type} (f : β → α → β) (key : α → Nat)
    (hcomm : ∀ z x y, key x ≠ key y → f (f z x) y = f (f z y) x)
    {l₁ l₂ : List α} (hp : l₁.Perm l₂) (hnd : (l₁.map key).Nodup) (init : β) :
    l₁.foldl f init = l₂.foldl f init := by
  apply hp.foldl_eq'
  intro x hx y hy z
  by_cases hxy : key x = key y
  · have : x = y := List.inj_on_of_nodup_map hnd hx hy hxy
    subst this; rfl
  · exact hcomm z x y hxy

end Kyber.Dkg
