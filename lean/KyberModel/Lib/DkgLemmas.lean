import KyberModel.Proto.Dkg
import Mathlib.Data.List.Perm.Basic
import Mathlib.Data.List.Nodup
import Mathlib.Data.List.Permutation
/-
Helper lemmas for Props/C11.lean, part 1: commutation of the elementary state mutations and of the
per-bundle steps of the three `Process*` loops.
-/
namespace Kyber.Dkg

theorem upd_apply {α : Type} (f : Nat → α) (i : Nat) (v : α) (k : Nat) :
    upd f i v k = if k = i then v else f k := rfl

theorem upd_comm {α : Type} (f : Nat → α) {i j : Nat} (h : i ≠ j) (a b : α) :
    upd (upd f i a) j b = upd (upd f j b) i a := by
  funext k
  simp only [upd]
  by_cases h1 : k = i <;> by_cases h2 : k = j
  · exact absurd (h1.symm.trans h2) h
  · simp [h1, h]
  · simp [h2, Ne.symm h]
  · simp [h1, h2]

theorem upd_idem {α : Type} (f : Nat → α) (i : Nat) (a b : α) : upd (upd f i a) i b = upd f i b := by
  funext k; simp only [upd]; by_cases h : k = i <;> simp [h]

theorem setStatus_comm (m : Nat → Nat → Bool) {d d' h h' : Nat} (hne : d ≠ d' ∨ h ≠ h') (v v' : Bool) :
    setStatus (setStatus m d h v) d' h' v' = setStatus (setStatus m d' h' v') d h v := by
  funext x y
  simp only [setStatus]
  by_cases h1 : x = d ∧ y = h <;> by_cases h2 : x = d' ∧ y = h'
  · obtain ⟨rfl, rfl⟩ := h1
    obtain ⟨rfl, rfl⟩ := h2
    rcases hne with h | h <;> exact absurd rfl h
  · rw [if_neg h2, if_pos h1, if_pos h1]
  · rw [if_pos h2, if_neg h1, if_pos h2]
  · rw [if_neg h2, if_neg h1, if_neg h1, if_neg h2]

/-- The dealer row a mutation touches (`none`: it touches a holder column only). -/
def Prim.dealer : Prim → Option Nat
  | .evict d => some d
  | .setPub d _ => some d
  | .setValid d _ => some d
  | .setStatus d _ _ => some d
  | .evictHolder _ => none

/-- The holder column a response-loop mutation touches. -/
def Prim.holder : Prim → Option Nat
  | .evictHolder h => some h
  | .setStatus _ h _ => some h
  | _ => none

theorem apply_comm_dealer (st : St) {p q : Prim} {i j : Nat} (hp : p.dealer = some i) (hq : q.dealer = some j)
    (hij : i ≠ j) : (st.apply p).apply q = (st.apply q).apply p := by
  cases p <;> cases q <;> simp only [Prim.dealer, Option.some.injEq, reduceCtorEq] at hp hq <;>
    subst hp <;> subst hq <;> simp only [St.apply] <;>
    first
    | rfl
    | (congr 1; first | exact upd_comm _ hij _ _ | exact setStatus_comm _ (Or.inl hij) _ _)

theorem apply_comm_holder (st : St) {p q : Prim} {i j : Nat} (hp : p.holder = some i) (hq : q.holder = some j)
    (hij : i ≠ j) : (st.apply p).apply q = (st.apply q).apply p := by
  cases p <;> cases q <;> simp only [Prim.holder, Option.some.injEq, reduceCtorEq] at hp hq <;>
    subst hp <;> subst hq <;> simp only [St.apply] <;>
    first
    | rfl
    | (congr 1; first | exact upd_comm _ hij _ _ | exact setStatus_comm _ (Or.inr hij) _ _)

theorem applyAll_nil (st : St) : st.applyAll [] = st := rfl
theorem applyAll_cons (st : St) (p : Prim) (ps : List Prim) : st.applyAll (p :: ps) = (st.apply p).applyAll ps := rfl
theorem applyAll_append (st : St) (ps qs : List Prim) : st.applyAll (ps ++ qs) = (st.applyAll ps).applyAll qs := by
  unfold St.applyAll; rw [List.foldl_append]

theorem apply_applyAll_comm (p : Prim) (qs : List Prim)
    (h : ∀ q ∈ qs, ∀ s : St, (s.apply p).apply q = (s.apply q).apply p) (s : St) :
    (s.apply p).applyAll qs = (s.applyAll qs).apply p := by
  induction qs generalizing s with
  | nil => rfl
  | cons q qs ih =>
    rw [applyAll_cons, applyAll_cons, h q List.mem_cons_self s]
    exact ih (fun q' hq' => h q' (List.mem_cons_of_mem _ hq')) (s.apply q)

/-- Two mutation lists whose members commute pairwise commute as wholes. -/
theorem applyAll_comm (ps qs : List Prim)
    (h : ∀ p ∈ ps, ∀ q ∈ qs, ∀ s : St, (s.apply p).apply q = (s.apply q).apply p) (st : St) :
    (st.applyAll ps).applyAll qs = (st.applyAll qs).applyAll ps := by
  induction ps generalizing st with
  | nil => rfl
  | cons p ps ih =>
    rw [applyAll_cons, ih (fun p' hp' => h p' (List.mem_cons_of_mem _ hp')) (st.apply p),
      apply_applyAll_comm p qs (h p List.mem_cons_self) st]
    rfl

end Kyber.Dkg
