import KyberModel.Proto.Pvss
import KyberModel.Lib.ShareCast
/-
Helper lemmas for Props/C13.lean (DLEQ and PVSS model, Proto/Pvss.lean): casts to `ZMod q`.
-/
namespace Kyber.Pvss
open Kyber.Scalar Kyber.Share

variable {q : Nat}

theorem ptEq_iff (a b : Nat) : ptEq q a b = true ↔ ((a : Nat) : ZMod q) = (b : ZMod q) := by
  rw [ptEq, beq_iff_eq, ZMod.natCast_eq_natCast_iff']

theorem modEq_iff (a b : Nat) : (a % q == b % q) = true ↔ ((a : Nat) : ZMod q) = (b : ZMod q) := ptEq_iff a b

/-- `Proof.Verify` is exactly the two linear equations. -/
theorem dleqVerify_iff (p : Proof) (g h xG xH : Nat) :
    dleqVerify q p g h xG xH = true ↔
      ((p.VG : Nat) : ZMod q) = (p.R : ZMod q) * g + (p.C : ZMod q) * xG ∧
      ((p.VH : Nat) : ZMod q) = (p.R : ZMod q) * h + (p.C : ZMod q) * xH := by
  simp only [dleqVerify, Bool.not_or, Bool.not_not, Bool.and_eq_true, ptEq_iff, add_cast, mul_cast]

theorem mem_keepIdx {α : Type} (ok : Nat → α → Bool) (l : List α) (i : Nat) :
    i ∈ keepIdx ok l ↔ ∃ h : i < l.length, ok i l[i] = true := by
  simp only [keepIdx, List.mem_map, List.mem_filter, Prod.exists, List.mem_zipIdx_iff_getElem?]
  constructor
  · rintro ⟨a, j, ⟨hj, hok⟩, rfl⟩
    obtain ⟨hlt, rfl⟩ := List.getElem?_eq_some_iff.mp hj
    exact ⟨hlt, hok⟩
  · rintro ⟨hlt, hok⟩
    exact ⟨l[i], i, ⟨by simp, hok⟩, rfl⟩

/-- Value of private share `i`: `priPoly.Eval(i).V`. -/
def sAt (q : Nat) (coeffs : Poly) (i : Nat) : Nat := evalAt q coeffs (xEval q i)

/-- The honest encrypted share of trustee `i` (public key `x`, DLEQ commitment scalar `v`, challenge `c`). -/
def encShareAt (q h x : Nat) (coeffs : Poly) (i v c : Nat) : PVShare :=
  { I := i, V := mul q (sAt q coeffs i) x, P := (dleqProve q h x (sAt q coeffs i) v c).1 }

/-- `EncShares` returns, at every position `i`, the honest encrypted share of trustee `i`, and `Commit(H)`. -/
theorem encShares_spec (h : Nat) (xs : List Nat) (coeffs : Poly) (vs : List Nat) (c : Nat) (hlen : vs.length = xs.length) :
    ∃ es, encShares q h xs coeffs vs c = some (es, commit q coeffs (some h)) ∧ es.length = xs.length ∧
      ∀ i (hi : i < xs.length), es[i]? = some (encShareAt q h xs[i] coeffs i (vs[i]'(hlen ▸ hi)) c) := by
  simp only [encShares, dleqProveBatch, List.length_replicate, List.length_map, shares, List.length_range,
    ne_eq, not_true_eq_false, or_self, if_false]
  refine ⟨_, rfl, ?_, ?_⟩
  · simp [hlen]
  · intro i hi
    simp [encShareAt, sAt, eval, hi, hlen, dleqProve]

/-- The commitments hashed into the global challenge are the public shares `commit.Eval(i).V`. -/
theorem comAt_eq_pubEvalAt (c0 : Nat) (rest : Poly) (i : Nat) :
    comAt q (c0 :: rest) i = pubEvalAt q (c0 :: rest) (xEval q i) := by
  have key : ∀ r : Poly, r.foldr (fun cj acc => mul q (xEval q i) (add q acc cj)) 0
      = mul q (xEval q i) (pubEvalAt q r (xEval q i)) := by
    intro r
    induction r with
    | nil => simp [pubEvalAt, mul]
    | cons c1 r ih =>
      have : pubEvalAt q (c1 :: r) (xEval q i) = add q (mul q (xEval q i) (pubEvalAt q r (xEval q i))) c1 := rfl
      rw [List.foldr_cons, ih, this]
  have h2 : pubEvalAt q (c0 :: rest) (xEval q i) = add q (mul q (xEval q i) (pubEvalAt q rest (xEval q i))) c0 := rfl
  rw [comAt, key, h2]

theorem verifyEncShare_iff (h x sH expC : Nat) (e : PVShare) :
    verifyEncShare q h x sH expC e = true ↔
      ((e.P.C : Nat) : ZMod q) = (expC : ZMod q) ∧
      ((e.P.VG : Nat) : ZMod q) = (e.P.R : ZMod q) * h + (e.P.C : ZMod q) * sH ∧
      ((e.P.VH : Nat) : ZMod q) = (e.P.R : ZMod q) * x + (e.P.C : ZMod q) * e.V := by
  unfold verifyEncShare
  by_cases hc : (e.P.C % q == expC % q) = true
  · simp only [hc, Bool.not_true, Bool.false_eq_true, if_false, dleqVerify_iff, (modEq_iff _ _).mp hc, true_and]
  · have : ¬ ((e.P.C : Nat) : ZMod q) = (expC : ZMod q) := fun h' => hc ((modEq_iff _ _).mpr h')
    simp [hc, this]

theorem verifyDecShare_iff (b : Bool) (g X : Nat) (e d : PVShare) (chal : Nat) :
    verifyDecShare b q g X e d chal = true ↔
      (b = true → d.I = e.I) ∧ ((d.P.C : Nat) : ZMod q) = (chal : ZMod q) ∧
      ((d.P.VG : Nat) : ZMod q) = (d.P.R : ZMod q) * g + (d.P.C : ZMod q) * X ∧
      ((d.P.VH : Nat) : ZMod q) = (d.P.R : ZMod q) * d.V + (d.P.C : ZMod q) * e.V := by
  unfold verifyDecShare
  by_cases hi : (b && !(d.I == e.I)) = true
  · have : ¬ (b = true → d.I = e.I) := by
      simp only [Bool.and_eq_true, Bool.not_eq_true', beq_eq_false_iff_ne] at hi
      exact fun h' => hi.2 (h' hi.1)
    simp [hi, this]
  · have hi' : b = true → d.I = e.I := by
      intro hb
      simp only [hb, Bool.true_and, Bool.not_eq_true', beq_eq_false_iff_ne, ne_eq, not_not] at hi
      exact hi
    by_cases hc : (d.P.C % q == chal % q) = true
    · simp only [hi, Bool.false_eq_true, if_false, hc, Bool.not_true, dleqVerify_iff, (modEq_iff _ _).mp hc, true_and]
      exact ⟨fun h' => ⟨hi', h'⟩, fun h' => h'.2⟩
    · have : ¬ ((d.P.C : Nat) : ZMod q) = (chal : ZMod q) := fun h' => hc ((modEq_iff _ _).mpr h')
      simp [hi, hc, this]

theorem validIdx_pub (D : List PVShare) :
    validIdx (D.map fun d => some (⟨d.I, some d.V⟩ : Share)) = D.map (·.I) := by
  induction D with
  | nil => rfl
  | cons d D ih =>
    simp only [validIdx, dropNil, List.map_cons, List.filterMap_cons, id, Option.map_some] at ih ⊢
    rw [ih]

end Kyber.Pvss
