import KyberModel.Lib.Decode
import KyberModel.Lib.Ed25519
import Mathlib.NumberTheory.LegendreSymbol.Basic
/-
Completeness of the Ed25519 decoder: EVERY valid point (reduced coordinates, on the curve) is recovered from
its encoding, `Kyber.Ed25519.dec_enc_of_valid`. (The C04 theorem `Kyber.C04.Ed25519.dec_enc` covers only
points that came out of `dec`; it needs no number theory.) The new ingredient is the completeness of
`sqrtRatio` for `p ≡ 5 (mod 8)`: when `u/v` is a square, `(u v⁷)^((p-1)/4) = ±1` by Euler's criterion, so
one of the two candidates is a root.
-/
namespace Kyber.Ed25519
open Kyber Kyber.Edwards Kyber.DecodeLib Kyber.EdLaw

theorem exp_c4 : 2 * ((p - 5) / 8) + 1 = (p - 1) / 4 := by decide +kernel
theorem exp_half : 2 * ((p - 1) / 4) = p / 2 := by decide +kernel

/-- Completeness of `sqrtRatio`: if `v ≠ 0` and `v·x² = u` in `ZMod p` then it returns a reduced `r` with
    `r² = x²`. -/
theorem sqrtRatio_complete (u v x : Nat) (hv : (v : Fp) ≠ 0) (hx : (v : Fp) * (x : Fp) ^ 2 = (u : Fp)) :
    ∃ r, sqrtRatio p sqrtM1 u v = some r ∧ r < p ∧ (r : Fp) ^ 2 = (x : Fp) ^ 2 := by
  have hp := ed_p_pos
  -- the candidate
  set x1 := u * (v * v % p * v % p) % p * powMod (u * ((v * v % p * v % p) * (v * v % p * v % p) % p * v % p) % p) ((p - 5) / 8) p % p with hx1
  have hx1lt : x1 < p := Nat.mod_lt _ hp
  have hcast : (x1 : Fp) = (u : Fp) * (v : Fp) ^ 3 * ((u : Fp) * (v : Fp) ^ 7) ^ ((p - 5) / 8) := by
    rw [hx1]
    simp only [Nat.cast_mul, ZMod.natCast_mod, powMod_spec]
    ring
  -- v·x1² = u·w^((p-1)/4) with w = u v⁷ = (x v⁴)²
  have hw : (u : Fp) * (v : Fp) ^ 7 = ((x : Fp) * (v : Fp) ^ 4) ^ 2 := by rw [← hx]; ring
  have hA : (v : Fp) * (x1 : Fp) ^ 2 = (u : Fp) * ((x : Fp) * (v : Fp) ^ 4) ^ (p / 2) := by
    rw [hcast]
    have : (v : Fp) * ((u : Fp) * (v : Fp) ^ 3 * ((u : Fp) * (v : Fp) ^ 7) ^ ((p - 5) / 8)) ^ 2
        = (u : Fp) * (((u : Fp) * (v : Fp) ^ 7) ^ (2 * ((p - 5) / 8) + 1)) := by ring
    rw [this, exp_c4, hw, ← pow_mul, exp_half]
  have hsel : sqrtRatio p sqrtM1 u v =
      (if v * (x1 * x1 % p) % p = u % p then some x1
       else if v * (x1 * x1 % p) % p = negMod u p then some (x1 * sqrtM1 % p) else none) := rfl
  by_cases hx0 : (x : Fp) = 0
  · -- x = 0: u = 0 and the candidate is 0
    have hu0 : (u : Fp) = 0 := by rw [← hx, hx0]; ring
    have hx10 : (x1 : Fp) = 0 := by rw [hcast, hu0]; ring
    have h1 : v * (x1 * x1 % p) % p = u % p := by
      rw [mod_eq_iff_cast]
      simp only [Nat.cast_mul, ZMod.natCast_mod, hx10, hu0]; ring
    refine ⟨x1, by rw [hsel, if_pos h1], hx1lt, by rw [hx10, hx0]⟩
  · have hne : (x : Fp) * (v : Fp) ^ 4 ≠ 0 := mul_ne_zero hx0 (pow_ne_zero _ hv)
    rcases ZMod.pow_div_two_eq_neg_one_or_one (p := p) hne with h1 | h1
    · -- first candidate
      rw [h1, mul_one] at hA
      have hc : v * (x1 * x1 % p) % p = u % p := by
        rw [mod_eq_iff_cast]
        simp only [Nat.cast_mul, ZMod.natCast_mod]
        linear_combination hA
      refine ⟨x1, by rw [hsel, if_pos hc], hx1lt, ?_⟩
      have : (v : Fp) * (x1 : Fp) ^ 2 = (v : Fp) * (x : Fp) ^ 2 := by rw [hA, hx]
      exact mul_left_cancel₀ hv this
    · -- second candidate: x1 · sqrt(-1)
      rw [h1] at hA
      have hA' : (v : Fp) * (x1 : Fp) ^ 2 = -(u : Fp) := by rw [hA]; ring
      have hc2 : v * (x1 * x1 % p) % p = negMod u p := by
        have hlt : negMod u p < p := Nat.mod_lt _ hp
        have : (v * (x1 * x1 % p) % p) % p = (negMod u p) % p := by
          rw [mod_eq_iff_cast, cast_negMod hp]
          simp only [Nat.cast_mul, ZMod.natCast_mod]
          linear_combination hA'
        rwa [Nat.mod_mod, Nat.mod_eq_of_lt hlt] at this
      by_cases hc1 : v * (x1 * x1 % p) % p = u % p
      · -- (only when u = 0, impossible here; in any case the first candidate is then a root)
        refine ⟨x1, by rw [hsel, if_pos hc1], hx1lt, ?_⟩
        have h3 := (mod_eq_iff_cast p _ _).mp hc1
        simp only [Nat.cast_mul, ZMod.natCast_mod] at h3
        have : (v : Fp) * (x1 : Fp) ^ 2 = (v : Fp) * (x : Fp) ^ 2 := by rw [hx]; linear_combination h3
        exact mul_left_cancel₀ hv this
      · refine ⟨x1 * sqrtM1 % p, by rw [hsel, if_neg hc1, if_pos hc2], Nat.mod_lt _ hp, ?_⟩
        have hs := ed_sqrtM1_sq
        have : (v : Fp) * ((x1 * sqrtM1 % p : Nat) : Fp) ^ 2 = (v : Fp) * (x : Fp) ^ 2 := by
          simp only [Nat.cast_mul, ZMod.natCast_mod]
          rw [hx]
          linear_combination ((sqrtM1 : Fp) ^ 2) * hA' + (-(u : Fp)) * hs
        exact mul_left_cancel₀ hv this

/-- Two reduced naturals with equal squares in `ZMod p` are equal or opposite. -/
theorem eq_or_neg_of_sq (r x : Nat) (hr : r < p) (hx : x < p) (h : (r : Fp) ^ 2 = (x : Fp) ^ 2) :
    r = x ∨ (0 < x ∧ r = p - x) := by
  have h2 : ((r : Fp) - x) * ((r : Fp) + x) = 0 := by linear_combination h
  rcases mul_eq_zero.mp h2 with h3 | h3
  · left
    exact eq_of_cast_eq hr hx (by linear_combination h3)
  · by_cases hx0 : x = 0
    · left; subst hx0
      exact eq_of_cast_eq hr hx (by simpa using h3)
    · right
      refine ⟨by omega, ?_⟩
      have hlt : p - x < p := by omega
      apply eq_of_cast_eq hr hlt
      rw [Nat.cast_sub (le_of_lt hx)]
      simp only [ZMod.natCast_self, zero_sub]
      linear_combination h3

/-- EVERY valid point is recovered from its encoding. -/
theorem dec_enc_of_valid (P : Pt) (hP : Valid P) : dec (enc P) = some P := by
  obtain ⟨hxlt, hylt, hc⟩ := hP
  have hp := ed_p_pos
  unfold OnCurve aF dF at hc
  -- u = y² - 1, v = d y² + 1 as the decoder computes them
  have hu : ((subMod (P.y * P.y) 1 p : Nat) : Fp) = (P.y : Fp) ^ 2 - 1 := by
    rw [cast_subMod hp]; push_cast; ring
  have hvv : (((d * (P.y * P.y % p) + 1) % p : Nat) : Fp) = (d : Fp) * (P.y : Fp) ^ 2 + 1 := by
    simp only [Nat.cast_add, Nat.cast_mul, ZMod.natCast_mod, Nat.cast_one]; ring
  have hvx : (((d * (P.y * P.y % p) + 1) % p : Nat) : Fp) * (P.x : Fp) ^ 2 = ((subMod (P.y * P.y) 1 p : Nat) : Fp) := by
    rw [hu, hvv]; linear_combination -hc
  have hvne : (((d * (P.y * P.y % p) + 1) % p : Nat) : Fp) ≠ 0 := by
    rw [hvv]
    intro h0
    -- d y² = -1 would make d a square
    apply complete.d_nonsq
    have hy0 : (P.y : Fp) ≠ 0 := by
      intro hy; rw [hy] at h0; simp at h0
    refine ⟨(sqrtM1 : Fp) * (P.y : Fp)⁻¹, ?_⟩
    have hs := ed_sqrtM1_sq
    have hy2 : (P.y : Fp) ^ 2 ≠ 0 := pow_ne_zero _ hy0
    have h1 : (d : Fp) * (P.y : Fp) ^ 2 = -1 := by linear_combination h0
    have hd : (d : Fp) = -((P.y : Fp) ^ 2)⁻¹ := by
      have : (d : Fp) = (d : Fp) * (P.y : Fp) ^ 2 * ((P.y : Fp) ^ 2)⁻¹ := by
        rw [mul_assoc, mul_inv_cancel₀ hy2, mul_one]
      rw [this, h1]; ring
    unfold dF
    rw [hd]
    have e : (sqrtM1 : Fp) * (P.y : Fp)⁻¹ * ((sqrtM1 : Fp) * (P.y : Fp)⁻¹) = (sqrtM1 : Fp) ^ 2 * ((P.y : Fp) ^ 2)⁻¹ := by
      ring
    rw [e, hs]; ring
  obtain ⟨r, hr, hrlt, hrsq⟩ := sqrtRatio_complete _ _ P.x hvne hvx
  have hl : (enc P).length = 32 := by rw [ed_enc_eq]; simp
  rw [ed_dec_of (enc P) hl P.y (P.x % 2) r (by rw [ed_decodeLE_enc P hxlt hylt, ed_split_y _ _ hylt])
    (by rw [ed_decodeLE_enc P hxlt hylt, ed_split_sign _ _ hylt]) hr]
  -- the sign selects x among {r, -r}
  have hsel : (if r % 2 = P.x % 2 then r else negMod r p) = P.x := by
    have hodd := ed_p_odd
    rcases eq_or_neg_of_sq r P.x hrlt hxlt hrsq with h1 | ⟨h0, h1⟩
    · rw [h1]; simp
    · have hrpos : 0 < r := by omega
      rw [ed_negMod_of_pos r hrpos hrlt, h1]
      have : ¬ ((p - P.x) % 2 = P.x % 2) := by omega
      rw [if_neg this]; omega
  rw [hsel]

end Kyber.Ed25519
