import KyberModel.Lib.SigmaOr
/-
C14 helper lemmas, part 5: pre-challenges of an `Or`, sub-challenge bookkeeping, variable
enumeration, and the top-level assembly of `hashProve` / `hashVerify`.
-/
namespace Kyber.Sigma
open Kyber Kyber.Scalar

/-! ### Variable enumeration covers every scope -/

theorem mem_insertNew (l : List Nat) (n s : Nat) : s ∈ insertNew l n ↔ s ∈ l ∨ s = n := by
  unfold insertNew
  by_cases h : n ∈ l
  · simp only [h, if_true]
    constructor
    · exact Or.inl
    · rintro (h' | rfl)
      · exact h'
      · exact h
  · simp [h]

theorem mem_enumTerms : ∀ (ts : List Term) (acc : List Nat) (s : Nat),
    s ∈ enumTerms ts acc ↔ s ∈ acc ∨ s ∈ termVars ts := by
  intro ts
  induction ts with
  | nil => intro acc s; simp [enumTerms, termVars]
  | cons t ts ih =>
    intro acc s
    simp only [enumTerms, ih, mem_insertNew, termVars, List.map_cons, List.mem_cons]
    tauto

theorem mem_enumSs_reps : ∀ (rs : List RepS) (acc : List Nat) (s : Nat),
    s ∈ enumSs (rs.map RepS.toPred) acc ↔ s ∈ acc ∨ s ∈ repsVars rs := by
  intro rs
  induction rs with
  | nil => intro acc s; simp [enumSs, repsVars]
  | cons r rs ih =>
    intro acc s
    simp only [List.map_cons, enumSs, ih, RepS.toPred, enumS, mem_enumTerms, repsVars, List.flatMap_cons,
      List.mem_append]
    tauto

theorem mem_enumS_scope (sc : Scope) (acc : List Nat) (s : Nat) :
    s ∈ enumS sc.toPred acc ↔ s ∈ acc ∨ s ∈ sc.vars := by
  cases sc with
  | one r => simp [Scope.toPred, RepS.toPred, enumS, mem_enumTerms, Scope.vars, Scope.reps, repsVars]
  | all rs => simp [Scope.toPred, enumS, mem_enumSs_reps, Scope.vars, Scope.reps]

theorem mem_enumSs_scopes : ∀ (scs : List Scope) (acc : List Nat) (s : Nat),
    s ∈ enumSs (scs.map Scope.toPred) acc ↔ s ∈ acc ∨ ∃ sc ∈ scs, s ∈ sc.vars := by
  intro scs
  induction scs with
  | nil => intro acc s; simp [enumSs]
  | cons sc scs ih =>
    intro acc s
    simp only [List.map_cons, enumSs, ih, mem_enumS_scope, List.mem_cons, exists_eq_or_imp]
    tauto

/-- An `Or` of scopes. -/
def orPred (scs : List Scope) : Pred := .or (scs.map Scope.toPred)

theorem svars_or (scs : List Scope) : ∀ sc ∈ scs, ∀ s ∈ sc.vars, s ∈ svars (orPred scs) := by
  intro sc hsc s hs
  simp only [svars, orPred, enumS, mem_enumSs_scopes]
  exact Or.inr ⟨sc, hsc, hs⟩

theorem svars_scope (sc : Scope) : ∀ s ∈ sc.vars, s ∈ svars sc.toPred := by
  intro s hs
  simp only [svars, mem_enumS_scope]
  exact Or.inr hs

/-! ### Pre-challenges -/

theorem drawExcept_after (q : Nat) (rnd : Nat → Nat) (hq : 0 < q) (choice : Nat) :
    ∀ (b i : Nat) (st : PCtx), choice < i →
      ∃ (wpost : List Nat) (st' : PCtx), drawExcept q rnd choice b i st = (wpost.map some, st') ∧ wpost.length = b ∧
        (∀ x ∈ wpost, x < q) ∧ st' = { st with k := st'.k } := by
  intro b
  induction b with
  | zero => intro i st _; exact ⟨[], st, by simp [drawExcept], rfl, by simp, rfl⟩
  | succ b ih =>
    intro i st hi
    obtain ⟨wpost, st', h1, h2, h3, h4⟩ := ih (i + 1) (st.priRand q rnd).2 (by omega)
    refine ⟨(st.priRand q rnd).1 :: wpost, st', ?_, by simp [h2], ?_, ?_⟩
    · have : i ≠ choice := by omega
      simp only [drawExcept, this, if_false, h1, List.map_cons]
    · intro x hx
      rcases List.mem_cons.mp hx with rfl | hx
      · exact Nat.mod_lt _ hq
      · exact h3 x hx
    · rw [h4]; simp [PCtx.priRand]

theorem drawExcept_shape (q : Nat) (rnd : Nat → Nat) (hq : 0 < q) :
    ∀ (a b i n : Nat) (st : PCtx), n = a + 1 + b →
      ∃ (wpre wpost : List Nat) (st' : PCtx), drawExcept q rnd (i + a) n i st = (wpre.map some ++ none :: wpost.map some, st') ∧
        wpre.length = a ∧ wpost.length = b ∧ (∀ x ∈ wpre, x < q) ∧ (∀ x ∈ wpost, x < q) ∧
        st' = { st with k := st'.k } := by
  intro a
  induction a with
  | zero =>
    intro b i n st hn
    obtain ⟨wpost, st', h1, h2, h3, h4⟩ := drawExcept_after q rnd hq i b (i + 1) st (by omega)
    refine ⟨[], wpost, st', ?_, rfl, h2, by simp, h3, h4⟩
    have : n = b + 1 := by omega
    subst this
    simp only [Nat.add_zero, drawExcept, if_true, h1, List.map_nil, List.nil_append]
  | succ a ih =>
    intro b i n st hn
    obtain ⟨wpre, wpost, st', h1, h2, h3, h4, h5, h6⟩ :=
      ih b (i + 1) (n - 1) (st.priRand q rnd).2 (by omega)
    refine ⟨(st.priRand q rnd).1 :: wpre, wpost, st', ?_, by simp [h2], h3, ?_, h5, ?_⟩
    · obtain ⟨m, rfl⟩ : ∃ m, n = m + 1 := ⟨n - 1, by omega⟩
      have hne : i ≠ i + (a + 1) := by omega
      have hidx : i + 1 + a = i + (a + 1) := by omega
      simp only [Nat.add_sub_cancel] at h1
      rw [hidx] at h1
      simp only [drawExcept, hne, if_false, h1, List.map_cons, List.cons_append]
    · intro x hx
      rcases List.mem_cons.mp hx with rfl | hx
      · exact Nat.mod_lt _ hq
      · exact h4 x hx
    · rw [h6]; simp [PCtx.priRand]

def zsum (q : Nat) (l : List Nat) : ZMod q := (l.map (Nat.cast : Nat → ZMod q)).sum

theorem zsum_nil (q : Nat) : zsum q [] = 0 := by simp [zsum]

theorem zsum_append (q : Nat) (a b : List Nat) : zsum q (a ++ b) = zsum q a + zsum q b := by
  simp [zsum]

theorem zsum_cons (q : Nat) (x : Nat) (l : List Nat) : zsum q (x :: l) = (x : ZMod q) + zsum q l := by
  simp [zsum]

theorem obligatedChallenge_after (q : Nat) (hq : 0 < q) (choice : Nat) :
    ∀ (wpost : List Nat) (i cs : Nat), choice < i →
      ((obligatedChallenge q choice (wpost.map some) i cs : Nat) : ZMod q) = (cs : ZMod q) - zsum q wpost := by
  intro wpost
  induction wpost with
  | nil => intro i cs _; simp [obligatedChallenge, zsum_nil]
  | cons x wpost ih =>
    intro i cs hi
    have : i ≠ choice := by omega
    simp only [List.map_cons, obligatedChallenge, this, if_false, Option.getD_some]
    rw [ih (i + 1) _ (by omega), sub_cast hq, zsum_cons]
    ring

theorem obligatedChallenge_cast (q : Nat) (hq : 0 < q) :
    ∀ (wpre wpost : List Nat) (i cs : Nat),
      ((obligatedChallenge q (i + wpre.length) (wpre.map some ++ none :: wpost.map some) i cs : Nat) : ZMod q) =
        (cs : ZMod q) - zsum q wpre - zsum q wpost := by
  intro wpre
  induction wpre with
  | nil =>
    intro wpost i cs
    simp only [List.length_nil, Nat.add_zero, List.map_nil, List.nil_append, obligatedChallenge, if_true]
    rw [obligatedChallenge_after q hq i wpost (i + 1) cs (by omega)]
    simp [zsum_nil]
  | cons x wpre ih =>
    intro wpost i cs
    have hne : i ≠ i + (x :: wpre).length := by simp
    have hidx : i + (x :: wpre).length = i + 1 + wpre.length := by simp; omega
    simp only [List.map_cons, List.cons_append, obligatedChallenge, hne, if_false, Option.getD_some]
    rw [hidx, ih wpost (i + 1) _, sub_cast hq, zsum_cons]
    ring

theorem obligatedChallenge_lt (q : Nat) (hq : 0 < q) (choice : Nat) :
    ∀ (ws : List (Option Nat)) (i cs : Nat), cs < q → obligatedChallenge q choice ws i cs < q := by
  intro ws
  induction ws with
  | nil => intro i cs h; simpa [obligatedChallenge] using h
  | cons w ws ih =>
    intro i cs h
    unfold obligatedChallenge
    split
    · exact ih _ _ h
    · exact ih _ _ (Nat.mod_lt _ hq)

theorem setAt_split (wpre wpost : List Nat) (x : Nat) :
    setAt (wpre.map some ++ none :: wpost.map some) wpre.length x = (wpre ++ x :: wpost).map some := by
  unfold setAt
  induction wpre with
  | nil => simp
  | cons y wpre ih => simp [ih]

theorem putAll_some (E : Params) : ∀ (cis : List Nat) (st : PCtx),
    putAll E (cis.map some) st = .ok (st.put (encSs E.cd cis)) := by
  intro cis
  induction cis with
  | nil => intro st; simp [putAll, encSs, PCtx.put_nil]
  | cons c cis ih =>
    intro st
    simp only [List.map_cons, putAll, ih, PCtx.put_put, encSs_cons]

theorem readScalars_enc (E : Params) (hc : E.cd.Lawful E.q) :
    ∀ (cis : List Nat) (st : VCtx) (tail : Bytes), (∀ x ∈ cis, x < E.q) →
      st.rest = encSs E.cd cis ++ tail →
      readScalars E cis.length st = .ok (cis, { st with rest := tail, pend := st.pend ++ encSs E.cd cis }) := by
  intro cis
  induction cis with
  | nil =>
    intro st tail _ h
    simp only [encSs, List.flatMap_nil, List.nil_append] at h
    simp [readScalars, encSs, ← h]
  | cons c cis ih =>
    intro st tail hb h
    rw [encSs_cons, List.append_assoc] at h
    simp only [List.length_cons, readScalars]
    rw [VCtx.get_enc st (hc.encS_len c) (hc.decS_enc c (hb c (List.mem_cons_self ..))) h]
    simp only
    rw [ih _ tail (fun x hx => hb x (List.mem_cons_of_mem _ hx)) rfl]
    simp [encSs_cons, List.append_assoc]

theorem sumMod_cast (q : Nat) (l : List Nat) : ((sumMod q l : Nat) : ZMod q) = zsum q l := by
  unfold sumMod
  have : ∀ (l : List Nat) (a : Nat),
      ((l.foldl (fun a x => add q a x) a : Nat) : ZMod q) = (a : ZMod q) + zsum q l := by
    intro l
    induction l with
    | nil => intro a; simp [zsum_nil]
    | cons x l ih =>
      intro a
      simp only [List.foldl_cons, ih, add_cast, zsum_cons]
      ring
  rw [this l 0]; simp

theorem sumMod_lt (q : Nat) (hq : 0 < q) (l : List Nat) : sumMod q l < q := by
  unfold sumMod
  have : ∀ (l : List Nat) (a : Nat), a < q → l.foldl (fun a x => add q a x) a < q := by
    intro l
    induction l with
    | nil => intro a h; simpa using h
    | cons x l ih => intro a _; exact ih _ (Nat.mod_lt _ hq)
  exact this l 0 hq

end Kyber.Sigma
