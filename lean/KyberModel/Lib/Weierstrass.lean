import Mathlib.AlgebraicGeometry.EllipticCurve.Affine.Point
import Mathlib.Tactic.FieldSimp
import Mathlib.Tactic.LinearCombination
/-
Library W: the executable chord-and-tangent addition on `Option (F × F)` is Mathlib's group law on the
nonsingular points of the short Weierstrass curve `y² = x³ + a x + b` (so the models inherit Mathlib's
`AddCommGroup`).
-/
namespace Kyber.WLaw

open WeierstrassCurve

variable {F : Type*} [Field F] [DecidableEq F]

/-- The short Weierstrass curve `y² = x³ + a x + b`. -/
def sw (a b : F) : Affine F := ⟨0, 0, 0, a, b⟩

/-- Field-level mirror of the model's `Weierstrass.add`. -/
def fadd (a : F) : Option (F × F) → Option (F × F) → Option (F × F)
  | none, Q => Q
  | some P, none => some P
  | some (x1, y1), some (x2, y2) =>
    if x1 = x2 then
      if y1 + y2 = 0 then none
      else
        let l := (3 * x1 ^ 2 + a) / (2 * y1)
        let x3 := l ^ 2 - (x1 + x2)
        some (x3, l * (x1 - x3) - y1)
    else
      let l := (y2 - y1) / (x2 - x1)
      let x3 := l ^ 2 - (x1 + x2)
      some (x3, l * (x1 - x3) - y1)

def fneg : Option (F × F) → Option (F × F)
  | none => none
  | some (x, y) => some (x, -y)

/-- Forgetful map from Mathlib's points to coordinate pairs. -/
def ofPoint {a b : F} : (sw a b).Point → Option (F × F)
  | .zero => none
  | .some x y _ => some (x, y)

omit [DecidableEq F] in
theorem ofPoint_injective {a b : F} : Function.Injective (ofPoint (a := a) (b := b)) := by
  intro P Q h
  cases P <;> cases Q <;> simp_all [ofPoint]

omit [DecidableEq F] in
@[simp] theorem ofPoint_zero {a b : F} : ofPoint (0 : (sw a b).Point) = none := rfl

omit [DecidableEq F] in
theorem ofPoint_neg {a b : F} (P : (sw a b).Point) : ofPoint (-P) = fneg (ofPoint P) := by
  cases P with
  | zero => rfl
  | some x y h =>
    rw [Affine.Point.neg_some]
    simp [ofPoint, fneg, Affine.negY, sw]

theorem ofPoint_add {a b : F} (P Q : (sw a b).Point) :
    ofPoint (P + Q) = fadd a (ofPoint P) (ofPoint Q) := by
  cases P with
  | zero =>
    rw [← Affine.Point.zero_def, zero_add]
    cases Q <;> simp [ofPoint, fadd]
  | some x1 y1 h1 =>
    cases Q with
    | zero =>
      rw [← Affine.Point.zero_def, add_zero]
      simp [ofPoint, fadd]
    | some x2 y2 h2 =>
      have hneg : (sw a b).negY x2 y2 = -y2 := by simp [Affine.negY, sw]
      by_cases hx : x1 = x2
      · by_cases hy : y1 = (sw a b).negY x2 y2
        · rw [Affine.Point.add_of_Y_eq hx hy]
          rw [hneg] at hy
          simp [ofPoint, fadd, hx, hy]
        · rw [Affine.Point.add_of_Y_ne hy]
          rw [hneg] at hy
          have hsum : y1 + y2 ≠ 0 := fun h => hy (eq_neg_of_add_eq_zero_left h)
          -- same x and not opposite: the two points coincide, y1 = y2
          have e1 := (Affine.equation_iff (W := sw a b) x1 y1).mp h1.1
          have e2 := (Affine.equation_iff (W := sw a b) x2 y2).mp h2.1
          simp only [sw] at e1 e2
          have hyy : y1 = y2 := by
            have : (y1 - y2) * (y1 + y2) = 0 := by rw [hx] at e1; linear_combination e1 - e2
            rcases mul_eq_zero.mp this with h | h
            · exact sub_eq_zero.mp h
            · exact absurd h hsum
          subst hx hyy
          have h2y : (2 : F) * y1 ≠ 0 := by
            intro h; apply hsum; linear_combination h
          simp only [ofPoint, fadd, if_true, if_neg hsum]
          simp only [Affine.addX, Affine.addY, Affine.negAddY, Affine.negY, Affine.slope, sw, if_true]
          have hy' : ¬ y1 = -y1 - 0 * x1 - 0 := by
            intro h; apply hsum; linear_combination h
          simp only [hy', if_false]
          congr 1
          ext <;> simp <;> field_simp <;> ring
      · rw [Affine.Point.add_of_X_ne hx]
        simp only [ofPoint, fadd, if_neg hx]
        simp only [Affine.addX, Affine.addY, Affine.negAddY, Affine.negY, Affine.slope, sw, if_neg hx]
        have hx' : x1 - x2 ≠ 0 := sub_ne_zero.mpr hx
        have hx'' : x2 - x1 ≠ 0 := sub_ne_zero.mpr (Ne.symm hx)
        congr 1
        ext <;> simp <;> field_simp <;> ring

end Kyber.WLaw
