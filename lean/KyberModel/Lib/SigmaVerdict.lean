import KyberModel.Lib.SigmaMainOr
/-
C14 helper lemmas, part 8: the verdict of `hashVerify` on the honest prover's proof, under the
prover's or another protocol name / oracle, as a statement about the claimed branch only.
-/
namespace Kyber.Sigma
open Kyber Kyber.Scalar

theorem scopeCommitted_verifier (E : Params) (name : Bytes) (O : Oracle) (sc : Scope) (d : ScopeData) :
    ScopeCommitted (E.verifier name O E.pval) sc d ↔ ScopeCommitted E sc d := Iff.rfl

theorem forall₂_scopeCommitted_verifier (E : Params) (name : Bytes) (O : Oracle) {scs : List Scope}
    {ds : List ScopeData} (h : List.Forall₂ (ScopeCommitted E) scs ds) :
    List.Forall₂ (ScopeCommitted (E.verifier name O E.pval)) scs ds :=
  h.imp (fun _ _ h => h)

theorem respBytes_verifier (E : Params) (name : Bytes) (O : Oracle) (pval : Nat → Nat) (sval : Nat → Nat) :
    ∀ (scs : List Scope) (ds : List ScopeData) (cis : List Nat),
      respBytes (E.verifier name O pval) sval scs ds cis = respBytes E sval scs ds cis := by
  intro scs
  induction scs with
  | nil => intro ds cis; simp [respBytes]
  | cons sc scs ih =>
    intro ds cis
    cases ds with
    | nil => simp [respBytes]
    | cons d ds =>
      cases cis with
      | nil => simp [respBytes]
      | cons c cis =>
        simp only [respBytes, ih]
        rfl

theorem orM2_verifier (E : Params) (name : Bytes) (O : Oracle) (pval : Nat → Nat) (sval : Nat → Nat)
    (scs : List Scope) (ds : List ScopeData) (cis : List Nat) :
    orM2 (E.verifier name O pval) sval scs ds cis = orM2 E sval scs ds cis := by
  simp only [orM2, respBytes_verifier]
  rfl

/-- Honest proof of a scope, verified under any protocol name / oracle (same public points). -/
theorem scope_verdict (E : Params) (hq : 0 < E.q) (hc : E.cd.Lawful E.q) (sval rnd : Nat → Nat)
    (sc : Scope) (ch : List Nat) (hsv : ∀ s ∈ sc.vars, s ∈ E.sv) :
    ∃ π c, hashProve E sval rnd sc.toPred ch = .ok π ∧ proveChallenge E rnd sc.toPred ch = .ok c ∧
      ∀ (name : Bytes) (O : Oracle), ∃ c', verifyChallenge (E.verifier name O E.pval) sc.toPred π = .ok c' ∧
        c' < E.q ∧ (name = E.name → O = E.O → c' = c) ∧
        (hashVerify (E.verifier name O E.pval) sc.toPred π = .ok () ↔
          ∀ rp ∈ sc.reps, (c' : ZMod E.q) * (E.pval rp.p : ZMod E.q) =
            (c : ZMod E.q) * linComb E.q E.pval (fun s => (sval s : ZMod E.q)) rp.ts) := by
  obtain ⟨d, hsc, hw, hpc, hp, _, hv, _⟩ := scope_master E hq hc sval rnd sc ch hsv
  refine ⟨_, _, hp, hpc, ?_⟩
  intro name O
  refine ⟨chal (E.verifier name O E.pval) (encPs E.cd d.Vs), ?_, chal_lt (E.verifier name O E.pval) hq _, ?_, ?_⟩
  · exact verifyChallenge_scope (E.verifier name O E.pval) hc sc d _ hsc.shape
  · rintro rfl rfl; rfl
  · have := hv name O E.pval (chal E (encPs E.cd d.Vs)) []
    rw [List.append_nil] at this
    rw [this]
    exact scopeChecks_obligated (E.verifier name O E.pval) hq sval sc d _ _
      ((scopeCommitted_verifier E name O sc d).mpr hsc) hw

/-- Honest proof of an `Or` of scopes with claimed branch `pre.length`, verified under any protocol
    name / oracle (same public points): the verdict depends on the claimed branch only. -/
theorem or_verdict (E : Params) (hq : 0 < E.q) (hc : E.cd.Lawful E.q) (sval rnd : Nat → Nat)
    (pre : List Scope) (scj : Scope) (post : List Scope)
    (hsv : ∀ sc ∈ pre ++ scj :: post, ∀ s ∈ sc.vars, s ∈ E.sv) :
    ∃ π c, hashProve E sval rnd (orPred (pre ++ scj :: post)) [pre.length] = .ok π ∧
      proveChallenge E rnd (orPred (pre ++ scj :: post)) [pre.length] = .ok c ∧ c < E.q ∧
      ∀ (name : Bytes) (O : Oracle),
        ∃ c', verifyChallenge (E.verifier name O E.pval) (orPred (pre ++ scj :: post)) π = .ok c' ∧
          c' < E.q ∧ (name = E.name → O = E.O → c' = c) ∧
          (hashVerify (E.verifier name O E.pval) (orPred (pre ++ scj :: post)) π = .ok () ↔
            (1 < (pre ++ scj :: post).length → c' = c) ∧
            ∀ rp ∈ scj.reps,
              ((if 1 < (pre ++ scj :: post).length
                  then branchChallenge E.q rnd (pre ++ scj :: post).length pre.length c else c' : Nat) : ZMod E.q) *
                (E.pval rp.p : ZMod E.q) =
              (branchChallenge E.q rnd (pre ++ scj :: post).length pre.length c : ZMod E.q) *
                linComb E.q E.pval (fun s => (sval s : ZMod E.q)) rp.ts) := by
  obtain ⟨dpre, dj, dpost, wpre, wpost, f1, f2, f3, hw1, hw2, hw3, hl1, hl2, hb1, hb2, hdraw, hpc, hp, _⟩ :=
    or_master E hq sval rnd pre scj post
  refine ⟨_, _, hp, hpc, chal_lt E hq _, ?_⟩
  intro name O
  have hf := forall₂_join f1 f2 f3
  have hshape : List.Forall₂ (ScopeShape (E.verifier name O E.pval).q) (pre ++ scj :: post) (dpre ++ dj :: dpost) :=
    forall₂_shape hf
  refine ⟨chal (E.verifier name O E.pval) (commitBytes E.cd (dpre ++ dj :: dpost)), ?_,
    chal_lt (E.verifier name O E.pval) hq _, ?_, ?_⟩
  · exact verifyChallenge_or (E.verifier name O E.pval) hc _ _ _ hshape
  · rintro rfl rfl; rfl
  · have hbc : ∀ c, branchChallenge E.q rnd (pre ++ scj :: post).length pre.length c = orCj E.q wpre wpost c := by
      intro c; simp only [branchChallenge, hdraw, orCj, hl1]
    simp only [hbc]
    have hcl : (orCis E.q wpre wpost (chal E (commitBytes E.cd (dpre ++ dj :: dpost)))).length =
        (pre ++ scj :: post).length := by simp [orCis, hl1, hl2]
    have hcb : ∀ x ∈ orCis E.q wpre wpost (chal E (commitBytes E.cd (dpre ++ dj :: dpost))), x < E.q := by
      intro x hx
      simp only [orCis, List.mem_append, List.mem_cons] at hx
      rcases hx with h | rfl | h
      · exact hb1 x h
      · exact obligatedChallenge_lt E.q hq _ _ _ _ (chal_lt E hq _)
      · exact hb2 x h
    have := hashVerify_or (E.verifier name O E.pval) hq hc sval _ _ _ [] hshape hcl (by simp) hcb hsv
    rw [List.append_nil, orM2_verifier] at this
    have hthis : hashVerify (E.verifier name O E.pval) (orPred (pre ++ scj :: post))
        (commitBytes E.cd (dpre ++ dj :: dpost) ++ orM2 E sval (pre ++ scj :: post) (dpre ++ dj :: dpost)
          (orCis E.q wpre wpost (chal E (commitBytes E.cd (dpre ++ dj :: dpost))))) = .ok () ↔ _ := this
    rw [hthis]
    have f1' := forall₂_scopeCommitted_verifier E name O f1
    have f3' := forall₂_scopeCommitted_verifier E name O f3
    have f2' : ScopeCommitted (E.verifier name O E.pval) scj dj := f2
    by_cases h1 : 1 < (pre ++ scj :: post).length
    · simp only [h1, if_true, true_imp_iff]
      have hsum : sumMod (E.verifier name O E.pval).q (orCis E.q wpre wpost (chal E (commitBytes E.cd (dpre ++ dj :: dpost)))) =
          chal E (commitBytes E.cd (dpre ++ dj :: dpost)) := orCis_sum E.q hq wpre wpost _ (chal_lt E hq _)
      rw [hsum]
      have ha := allChecks_or (E.verifier name O E.pval) sval pre scj post dpre dj dpost wpre wpost
        (orCj E.q wpre wpost (chal E (commitBytes E.cd (dpre ++ dj :: dpost))))
        (orCj E.q wpre wpost (chal E (commitBytes E.cd (dpre ++ dj :: dpost)))) f1' f3' hw1 hw3 hl1
      have hb := scopeChecks_obligated (E.verifier name O E.pval) hq sval scj dj
        (orCj E.q wpre wpost (chal E (commitBytes E.cd (dpre ++ dj :: dpost))))
        (orCj E.q wpre wpost (chal E (commitBytes E.cd (dpre ++ dj :: dpost)))) f2' hw2
      simp only [orCis] at ha ⊢
      rw [ha, hb]
      constructor
      · rintro ⟨h, h'⟩; exact ⟨h.symm, h'⟩
      · rintro ⟨h, h'⟩; exact ⟨h.symm, h'⟩
    · simp only [h1, if_false, false_imp_iff, true_and]
      obtain ⟨hpre, hpost⟩ := single_branch h1
      subst hpre hpost
      have e1 : wpre = [] := List.length_eq_zero_iff.mp hl1
      have e2 : wpost = [] := List.length_eq_zero_iff.mp hl2
      subst e1 e2
      cases f1
      cases f3
      simp only [List.nil_append, orCis, orCj_nil, AllChecks, and_true]
      exact scopeChecks_obligated (E.verifier name O E.pval) hq sval scj dj _ _ f2' hw2

theorem branchChallenge_single (q : Nat) (rnd : Nat → Nat) (c : Nat) : branchChallenge q rnd 1 0 c = c := by
  simp [branchChallenge, drawExcept, obligatedChallenge]

/-- Interactive run on an `Or` of scopes: the verifier's verdict for master challenge `c`. -/
theorem or_deniable (E : Params) (hq : 0 < E.q) (hc : E.cd.Lawful E.q) (sval rnd : Nat → Nat)
    (pre : List Scope) (scj : Scope) (post : List Scope) (c : Nat) (hcq : c < E.q)
    (hsv : ∀ sc ∈ pre ++ scj :: post, ∀ s ∈ sc.vars, s ∈ E.sv) :
    ∃ m1 m2, dProve E sval rnd (orPred (pre ++ scj :: post)) [pre.length] c = .ok (m1, m2) ∧
      (dVerify E (orPred (pre ++ scj :: post)) m1 m2 c = .ok () ↔
        ∀ rp ∈ scj.reps,
          (branchChallenge E.q rnd (pre ++ scj :: post).length pre.length c : ZMod E.q) * (E.pval rp.p : ZMod E.q) =
          (branchChallenge E.q rnd (pre ++ scj :: post).length pre.length c : ZMod E.q) *
            linComb E.q E.pval (fun s => (sval s : ZMod E.q)) rp.ts) := by
  obtain ⟨dpre, dj, dpost, wpre, wpost, f1, f2, f3, hw1, hw2, hw3, hl1, hl2, hb1, hb2, hdraw, _, _, hp⟩ :=
    or_master E hq sval rnd pre scj post
  refine ⟨_, _, hp c, ?_⟩
  have hf := forall₂_join f1 f2 f3
  have hbc : branchChallenge E.q rnd (pre ++ scj :: post).length pre.length c = orCj E.q wpre wpost c := by
    simp only [branchChallenge, hdraw, orCj, hl1]
  rw [hbc]
  have hcl : (orCis E.q wpre wpost c).length = (pre ++ scj :: post).length := by simp [orCis, hl1, hl2]
  have hcb : ∀ x ∈ orCis E.q wpre wpost c, x < E.q := by
    intro x hx
    simp only [orCis, List.mem_append, List.mem_cons] at hx
    rcases hx with h | rfl | h
    · exact hb1 x h
    · exact obligatedChallenge_lt E.q hq _ _ _ _ hcq
    · exact hb2 x h
  have := dVerify_or E hq hc sval _ _ _ c [] (forall₂_shape hf) hcl (by simp) hcb hsv
  rw [List.append_nil] at this
  rw [this]
  by_cases h1 : 1 < (pre ++ scj :: post).length
  · simp only [h1, if_true, orCis_sum E.q hq wpre wpost c hcq, true_and]
    have ha := allChecks_or E sval pre scj post dpre dj dpost wpre wpost (orCj E.q wpre wpost c)
      (orCj E.q wpre wpost c) f1 f3 hw1 hw3 hl1
    simp only [orCis] at ha ⊢
    rw [ha]
    exact scopeChecks_obligated E hq sval scj dj _ _ f2 hw2
  · simp only [h1, if_false]
    obtain ⟨hpre, hpost⟩ := single_branch h1
    subst hpre hpost
    have e1 : wpre = [] := List.length_eq_zero_iff.mp hl1
    have e2 : wpost = [] := List.length_eq_zero_iff.mp hl2
    subst e1 e2
    cases f1
    cases f3
    simp only [List.nil_append, orCis, orCj_nil, AllChecks, and_true]
    exact scopeChecks_obligated E hq sval scj dj _ _ f2 hw2

end Kyber.Sigma
