import KyberModel.Lib.DecodeBLS
import KyberModel.Lib.Primes
import Mathlib.FieldTheory.Finite.Basic
/-
Completeness of the BLS12-381 G1 decompression (used by `Props/C03More.lean`): for every point of the
curve the square-root candidate `a^((p+1)/4)` is a root, and the "larger root" flag written by `enc`
selects the original `y`.  Together with `DecodeBLS` this gives `dec (enc P) = some P` for every valid `P`,
not only for values the decoder itself produced.
-/
namespace Kyber.DecodeLib.BLS
open Kyber Kyber.BLS12381 Kyber.Weierstrass

instance : Fact (Nat.Prime p) := ⟨BLS12381.p_prime⟩

theorem exp_quarter : 2 * ((p + 1) / 4) = (p - 1) / 2 + 1 := by decide +kernel
theorem exp_half : 2 * ((p - 1) / 2) = p - 1 := by decide +kernel

/-- In `F_p`, `p ≡ 3 (mod 4)`: the candidate `a^((p+1)/4)` squares to `a` whenever `a` is a square. -/
theorem cand_sq (y : ZMod p) : ((y ^ 2) ^ ((p + 1) / 4)) ^ 2 = y ^ 2 := by
  by_cases hy : y = 0
  · subst hy
    have : (p + 1) / 4 ≠ 0 := by decide +kernel
    simp [this]
  · have hf : y ^ (p - 1) = 1 := ZMod.pow_card_sub_one_eq_one hy
    calc ((y ^ 2) ^ ((p + 1) / 4)) ^ 2 = (y ^ 2) ^ (2 * ((p + 1) / 4)) := by ring
      _ = (y ^ 2) ^ ((p - 1) / 2 + 1) := by rw [exp_quarter]
      _ = y ^ (2 * ((p - 1) / 2)) * y ^ 2 := by ring
      _ = y ^ 2 := by rw [exp_half, hf, one_mul]

/-- `sqrtFp` finds a root of every square, and the root is `± y`. -/
theorem sqrtFp_complete (a y : Nat) (hy : y < p) (h : y * y % p = a % p) :
    ∃ y0, sqrtFp a = some y0 ∧ y0 < p ∧ (y0 = y ∨ y0 = negMod y p) := by
  have ha : ((a : ℕ) : ZMod p) = (y : ZMod p) ^ 2 := by
    have := (mod_eq_iff_cast p _ _).mp h
    push_cast at this
    rw [← this]; ring
  have hc : ((sqrtCand a : ℕ) : ZMod p) = ((y : ZMod p) ^ 2) ^ ((p + 1) / 4) := by
    unfold sqrtCand; rw [powMod_spec, ha]
  have hsq : ((sqrtCand a : ℕ) : ZMod p) ^ 2 = (y : ZMod p) ^ 2 := by rw [hc, cand_sq]
  have hlt : sqrtCand a < p := powMod_lt _ _ _ p_gt_one
  refine ⟨sqrtCand a, ?_, hlt, ?_⟩
  · unfold sqrtFp
    rw [if_pos]
    rw [mod_eq_iff_cast]
    push_cast
    rw [ha, ← hsq]; ring
  · have hfac : (((sqrtCand a : ℕ) : ZMod p) - y) * (((sqrtCand a : ℕ) : ZMod p) + y) = 0 := by
      linear_combination hsq
    rcases mul_eq_zero.mp hfac with h1 | h1
    · left
      have : ((sqrtCand a : ℕ) : ZMod p) = ((y : ℕ) : ZMod p) := by linear_combination h1
      have := (ZMod.natCast_eq_natCast_iff' _ _ _).mp this
      rwa [Nat.mod_eq_of_lt hlt, Nat.mod_eq_of_lt hy] at this
    · right
      have : ((sqrtCand a : ℕ) : ZMod p) = ((negMod y p : ℕ) : ZMod p) := by
        rw [cast_negMod p_pos]; linear_combination h1
      have := (ZMod.natCast_eq_natCast_iff' _ _ _).mp this
      rwa [Nat.mod_eq_of_lt hlt, Nat.mod_eq_of_lt (negMod_lt p_pos y)] at this

/-- The flag written by `enc` selects `y` again, whichever of the two roots `sqrtFp` returned. -/
theorem pickRoot_of (y y0 : Nat) (hy : y < p) (h : y0 = y ∨ y0 = negMod y p) :
    pickRoot (decide (half < y)) y0 = y := by
  have hodd := p_odd
  unfold pickRoot
  rcases h with h | h
  · subst h; simp
  · subst h
    rcases Nat.eq_zero_or_pos y with h0 | h0
    · subst h0
      have : negMod 0 p = 0 := by simp [negMod]
      simp [this]
    · have hn : negMod y p = p - y := by
        unfold negMod; rw [Nat.mod_eq_of_lt hy, Nat.mod_eq_of_lt (by omega)]
      have hnn : negMod (p - y) p = y := by
        have h1 : (p - y) % p = p - y := Nat.mod_eq_of_lt (by omega)
        have h2 : (p - (p - y)) % p = p - (p - y) := Nat.mod_eq_of_lt (by omega)
        unfold negMod; rw [h1, h2]; omega
      rw [hn]
      have : ¬ (decide (half < p - y) = decide (half < y)) := by
        simp only [decide_eq_decide]; omega
      simp [this, hnn]

/-- **Round trip of every valid point**: on the curve, reduced coordinates, in the subgroup of order `r`. -/
theorem dec_enc_of_valid (P : Pt) (hon : onCurve curve P = true) (hr : smul curve r P = none)
    (hlt : ∀ x y, P = some (x, y) → x < p ∧ y < p) : dec (enc P) = some P := by
  cases P with
  | none => decide +kernel
  | some xy =>
    obtain ⟨x, y⟩ := xy
    obtain ⟨hx, hy⟩ := hlt x y rfl
    have hcurve : y * y % p = rhs x % p := by
      have := of_decide_eq_true hon
      unfold rhs
      rw [Nat.mod_mod]
      simpa [curve] using this
    obtain ⟨y0, hs, hy0, hpm⟩ := sqrtFp_complete (rhs x) y hy hcurve
    have hpick := pickRoot_of y y0 hy hpm
    rw [enc_some x y hx]
    have hflag : (if y > (p - 1) / 2 then (0xa0 : UInt8) else 0x80) = (if decide (half < y) then 0xa0 else 0x80) := by
      unfold half
      by_cases hc : (p - 1) / 2 < y <;> simp [hc]
    rw [hflag, dec_compressed x hx (decide (half < y)),
      decXY_of _ x y0 hx hs (by rw [hpick]; exact hr), hpick]

end Kyber.DecodeLib.BLS
