import KyberModel.Lib.Enc
/-
Helper lemmas for C16, anonymous-set encryption: slicing `header ‖ body ‖ tag`.
-/
namespace Kyber.Enc

/-- In a concatenation of `n`-byte chunks, chunk `i` sits at offset `n·i`. -/
theorem flatten_chunk {α : Type} (n : Nat) (l : List (List α)) (hl : ∀ e ∈ l, e.length = n) (i : Nat)
    (e : List α) (hi : l[i]? = some e) (rest : List α) :
    ((l.flatten ++ rest).drop (n * i)).take n = e := by
  induction l generalizing i with
  | nil => simp at hi
  | cons a l ih =>
    have ha : a.length = n := hl a (by simp)
    cases i with
    | zero =>
      simp only [List.getElem?_cons_zero, Option.some.injEq] at hi
      subst hi
      simp only [Nat.mul_zero, List.drop_zero, List.flatten_cons, List.append_assoc]
      rw [List.take_append_of_le_length (by omega), List.take_of_length_le (by omega)]
    | succ i =>
      simp only [List.getElem?_cons_succ] at hi
      have := ih (fun e he => hl e (by simp [he])) i hi
      simp only [List.flatten_cons, List.append_assoc]
      have hdrop : (a ++ (l.flatten ++ rest)).drop (n * (i + 1)) = (l.flatten ++ rest).drop (n * i) := by
        have : n * (i + 1) = a.length + n * i := by rw [ha]; ring
        rw [this, List.drop_append]; simp
      rw [hdrop]; exact this

theorem flatten_length_chunks {α : Type} (n : Nat) (l : List (List α)) (hl : ∀ e ∈ l, e.length = n) :
    l.flatten.length = n * l.length := by
  induction l with
  | nil => simp
  | cons a l ih =>
    simp only [List.flatten_cons, List.length_append, List.length_cons]
    rw [ih (fun e he => hl e (by simp [he])), hl a (by simp)]; ring

variable (c : Codec) (o : AnonOracles)

/-- the wrapped session keys, one per member -/
def wraps (x : Nat) (xb : Bytes) (set : List Nat) : List Bytes :=
  set.map (fun y => xorBytes xb (o.pad (x * y % c.q)))

theorem anonHeader_eq (x : Nat) (Xb xb : Bytes) (set : List Nat) :
    anonHeader c o x Xb xb set = Xb ++ (wraps c o x xb set).flatten := rfl

theorem wraps_len (ok : AnonOK c o) (x : Nat) (xb : Bytes) (hxb : xb.length = c.scalarLen) (set : List Nat) :
    ∀ e ∈ wraps c o x xb set, e.length = c.scalarLen := by
  intro e he
  simp only [wraps, List.mem_map] at he
  obtain ⟨y, _, rfl⟩ := he
  rw [xorBytes_length, ok.pad_len, hxb]; simp

theorem anonHeader_length (ok : AnonOK c o) (x : Nat) (Xb xb : Bytes) (hX : Xb.length = c.pointLen)
    (hxb : xb.length = c.scalarLen) (set : List Nat) :
    (anonHeader c o x Xb xb set).length = c.pointLen + c.scalarLen * set.length := by
  rw [anonHeader_eq, List.length_append, hX,
    flatten_length_chunks c.scalarLen _ (wraps_len c o ok x xb hxb set)]
  simp [wraps]

/-- `decryptKey` on `X ‖ slots ‖ rest` where slot `mine` is the honest wrap of the ephemeral key `x` for
    the reader (whose public key is member `mine`) and the OTHER slots `ws` are arbitrary
    `scalarLen`-byte strings: the session key is recovered; the outcome then depends only on the header
    comparison — which the code as it stands (`hdrCheck = false`) does not effectively make. -/
theorem anonDecryptKey_slots (hdrCheck : Bool) (hc : CodecOK c) (ok : AnonOK c o) (x : Nat) (hx : x < c.q)
    (set : List Nat) (mine priv : Nat) (hmine : set[mine]? = some (priv % c.q))
    (ws : List Bytes) (hwl : ∀ e ∈ ws, e.length = c.scalarLen) (hwn : ws.length = set.length)
    (hwm : ws[mine]? = some (xorBytes (c.encScalar x) (o.pad (x * (priv % c.q) % c.q)))) (rest : Bytes) :
    anonDecryptKey hdrCheck c o (c.encPoint (x % c.q) ++ ws.flatten ++ rest) set mine priv
      = if !hdrCheck || decide (anonHeader c o x (c.encPoint (x % c.q)) (c.encScalar x) set
            = c.encPoint (x % c.q) ++ ws.flatten)
        then some (some (c.encScalar x, c.pointLen + c.scalarLen * set.length)) else some none := by
  have hml : mine < set.length := by
    by_contra h
    rw [List.getElem?_eq_none (by omega)] at hmine
    exact absurd hmine (by simp)
  set Xb := c.encPoint (x % c.q) with hXb
  set xb := c.encScalar x with hxbdef
  have hXl : Xb.length = c.pointLen := hc.encPoint_len _
  have hxl : xb.length = c.scalarLen := hc.encScalar_len _
  have hfl : ws.flatten.length = c.scalarLen * set.length := by
    rw [flatten_length_chunks c.scalarLen ws hwl, hwn]
  have hge : c.scalarLen * mine + c.scalarLen ≤ c.scalarLen * set.length := by
    have : c.scalarLen * (mine + 1) ≤ c.scalarLen * set.length := Nat.mul_le_mul_left _ hml
    linarith [Nat.mul_succ c.scalarLen mine]
  unfold anonDecryptKey
  have h1 : ¬ (Xb ++ ws.flatten ++ rest).length < c.pointLen := by
    simp only [List.length_append, hXl]; omega
  rw [if_neg h1]
  have htake : (Xb ++ ws.flatten ++ rest).take c.pointLen = Xb := by
    rw [List.append_assoc, List.take_append_of_le_length (by omega), List.take_of_length_le (by omega)]
  rw [htake, hc.decPoint_enc _ (Nat.mod_lt _ hc.q_pos)]
  simp only
  have h3 : ¬ mine ≥ set.length := by omega
  rw [if_neg h3]
  have h4 : ¬ (Xb ++ ws.flatten ++ rest).length < c.pointLen + c.scalarLen * set.length := by
    simp only [List.length_append, hXl, hfl]; omega
  rw [if_neg h4]
  have hslot : ((Xb ++ ws.flatten ++ rest).drop (c.pointLen + c.scalarLen * mine)).take c.scalarLen
      = xorBytes xb (o.pad (x * (priv % c.q) % c.q)) := by
    rw [List.append_assoc]
    have : (Xb ++ (ws.flatten ++ rest)).drop (c.pointLen + c.scalarLen * mine)
        = (ws.flatten ++ rest).drop (c.scalarLen * mine) := by
      rw [← hXl, List.drop_append]; simp
    rw [this]
    exact flatten_chunk c.scalarLen ws hwl mine _ hwm rest
  rw [hslot]
  have hdh : priv * (x % c.q) % c.q = x * (priv % c.q) % c.q := by
    rw [mul_mod_comm3, Nat.mul_comm, ← mul_mod_comm3, Nat.mul_comm]
  rw [hdh, xorBytes_cancel_right _ _ (by rw [hxl, ok.pad_len])]
  rw [hc.decScalar_enc _ hx]
  simp only
  have h6 : ¬ x % c.q ≠ x % c.q := by simp
  rw [if_neg h6]
  have htk : (Xb ++ ws.flatten ++ rest).take (c.pointLen + c.scalarLen * set.length) = Xb ++ ws.flatten := by
    rw [List.take_append_of_le_length (by simp only [List.length_append, hXl, hfl]; omega),
      List.take_of_length_le (by simp only [List.length_append, hXl, hfl]; omega)]
  rw [htk]

/-- `decryptKey` on a ciphertext that starts with an honest header for ephemeral key `x`, read by
    member `mine` whose public key is in slot `mine`: recovers the session key bytes (with or without
    the header comparison). -/
theorem anonDecryptKey_honest (hdrCheck : Bool) (hc : CodecOK c) (ok : AnonOK c o) (x : Nat) (hx : x < c.q) (set : List Nat)
    (mine priv : Nat) (hmine : set[mine]? = some (priv % c.q)) (rest : Bytes) :
    anonDecryptKey hdrCheck c o (anonHeader c o x (c.encPoint (x % c.q)) (c.encScalar x) set ++ rest) set mine priv
      = some (some (c.encScalar x, c.pointLen + c.scalarLen * set.length)) := by
  have hxl : (c.encScalar x).length = c.scalarLen := hc.encScalar_len _
  have := anonDecryptKey_slots c o hdrCheck hc ok x hx set mine priv hmine
    (wraps c o x (c.encScalar x) set) (wraps_len c o ok x _ hxl set) (by simp [wraps])
    (by simp [wraps, hmine]) rest
  rw [anonHeader_eq] at this ⊢
  rw [this]
  simp

/-- Once `decryptKey` succeeds on `hdr ‖ …` with session key `xb`, decryption of `hdr ‖ body' ‖ tag'` for
    ANY body and 16-byte tag checks only whether the tag equals the MAC oracle on the body. -/
theorem anonDecrypt_of_key (keyed hdrCheck : Bool) (set : List Nat) (mine priv : Nat)
    (hdr xb : Bytes) (hdrlen : Nat) (hhl : hdr.length = hdrlen)
    (hk : ∀ rest, anonDecryptKey hdrCheck c o (hdr ++ rest) set mine priv = some (some (xb, hdrlen)))
    (body' tag' : Bytes) (htag : tag'.length = macSize) :
    anonDecrypt keyed hdrCheck c o (hdr ++ body' ++ tag') set mine priv
      = if tag' = o.mac (if keyed then xb else []) body'
        then .ok (xorBytes body' (o.body xb body'.length)) else .err := by
  unfold anonDecrypt
  rw [List.append_assoc, hk (body' ++ tag')]
  simp only
  have hlen : (hdr ++ (body' ++ tag')).length = hdrlen + body'.length + macSize := by
    simp only [List.length_append, hhl, htag]; omega
  have h1 : ¬ (hdr ++ (body' ++ tag')).length < hdrlen + macSize := by omega
  rw [if_neg h1]
  have hbody : ((hdr ++ (body' ++ tag')).drop hdrlen).take ((hdr ++ (body' ++ tag')).length - macSize - hdrlen) = body' := by
    have : (hdr ++ (body' ++ tag')).drop hdrlen = body' ++ tag' := by
      rw [← hhl]; exact List.drop_left
    rw [this, hlen]
    have : hdrlen + body'.length + macSize - macSize - hdrlen = body'.length := by omega
    rw [this, List.take_left']
    rfl
  have hmac : (hdr ++ (body' ++ tag')).drop ((hdr ++ (body' ++ tag')).length - macSize) = tag' := by
    rw [hlen]
    have : hdrlen + body'.length + macSize - macSize = (hdr ++ body').length := by
      rw [List.length_append, hhl]; omega
    rw [this, ← List.append_assoc]
    exact List.drop_left
  rw [hbody, hmac]

/-- Decryption of `honest header ‖ body' ‖ tag'` for ANY body and 16-byte tag. -/
theorem anonDecrypt_eval (keyed hdrCheck : Bool) (hc : CodecOK c) (ok : AnonOK c o) (x : Nat) (hx : x < c.q)
    (set : List Nat) (mine priv : Nat) (hmine : set[mine]? = some (priv % c.q))
    (body' tag' : Bytes) (htag : tag'.length = macSize) :
    anonDecrypt keyed hdrCheck c o
        (anonHeader c o x (c.encPoint (x % c.q)) (c.encScalar x) set ++ body' ++ tag') set mine priv
      = if tag' = o.mac (if keyed then c.encScalar x else []) body'
        then .ok (xorBytes body' (o.body (c.encScalar x) body'.length)) else .err :=
  anonDecrypt_of_key c o keyed hdrCheck set mine priv _ _ _
    (anonHeader_length c o ok x _ _ (hc.encPoint_len _) (hc.encScalar_len _) set)
    (fun rest => anonDecryptKey_honest c o hdrCheck hc ok x hx set mine priv hmine rest) body' tag' htag

/-! ### a toy codec, used by the satisfiability examples of Props/C16.lean -/

def toyCodec : Codec where
  q := 7
  pointLen := 1
  scalarLen := 1
  encPoint := fun v => [UInt8.ofNat v]
  decPoint := fun b => match b with
    | [t] => if t.toNat < 7 then some t.toNat else none
    | _ => none
  encScalar := fun v => [UInt8.ofNat v]
  decScalar := fun b => match b with
    | [t] => if t.toNat < 7 then some t.toNat else none
    | _ => none

theorem toy_dec_enc (v : Nat) (hv : v < 7) :
    (match ([UInt8.ofNat v] : Bytes) with
      | [t] => if t.toNat < 7 then some t.toNat else none
      | _ => none) = some v := by
  have : (UInt8.ofNat v).toNat = v := by
    simp [UInt8.toNat_ofNat']; omega
  simp [this, hv]

theorem toy_canon (b : Bytes) (v : Nat)
    (h : (match b with
      | [t] => if t.toNat < 7 then some t.toNat else none
      | _ => none) = some v) : v < 7 ∧ b = [UInt8.ofNat v] := by
  split at h
  · rename_i t
    split at h
    · rename_i ht
      have := Option.some.inj h
      subst this
      exact ⟨ht, by simp⟩
    · simp at h
  · simp at h

end Kyber.Enc
