import KyberModel.Lib.ShufflePair
/-
Helper definitions for C15, part 3: the verification equations of the pair shuffle as a list, the
statement "the output is a permutation of re-encryptions of the input".
-/
namespace Kyber.Shuffle
open Kyber Kyber.Scalar

/-- The `j`-th chain equation of the simple shuffle, `j = 0..2k-1`. -/
def ssEq (q k g Γ : Nat) (X Y : Nat → Nat) (t : Nat) (Θ : Nat → Nat) (c : Nat) (α : Nat → Nat) (j : Nat) : Bool :=
  let Xh := fun i => add q (X i) (mul q (neg q t) g)
  let Yh := fun i => add q (Y i) (mul q (neg q t) Γ)
  if j = 0 then thver q (Xh 0) (Yh 0) (Θ 0) c (α 0)
  else if j < k then thver q (Xh j) (Yh j) (Θ j) (α (j - 1)) (α j)
  else if j < 2 * k - 1 then thver q Γ g (Θ j) (α (j - 1)) (α j)
  else thver q Γ g (Θ (2 * k - 1)) (α (2 * k - 2)) c

theorem simpleCheck_iff (q k g Γ : Nat) (hk : 2 ≤ k) (X Y : Nat → Nat) (t : Nat) (Θ : Nat → Nat) (c : Nat)
    (α : Nat → Nat) :
    simpleCheck q k g Γ X Y t Θ c α = true ↔ ∀ j < 2 * k, ssEq q k g Γ X Y t Θ c α j = true := by
  unfold simpleCheck
  simp only [Bool.and_eq_true, List.all_eq_true, List.mem_range]
  constructor
  · rintro ⟨⟨⟨h0, h1⟩, h2⟩, h3⟩ j hj
    unfold ssEq
    by_cases e0 : j = 0
    · simp only [e0, if_true]; exact h0
    · simp only [e0, if_false]
      by_cases e1 : j < k
      · simp only [e1, if_true]
        have := h1 (j - 1) (by omega)
        have hj1 : j - 1 + 1 = j := by omega
        rw [hj1] at this; exact this
      · simp only [e1, if_false]
        by_cases e2 : j < 2 * k - 1
        · simp only [e2, if_true]
          have := h2 (j - k) (by omega)
          have hj1 : k + (j - k) = j := by omega
          rw [hj1] at this; exact this
        · simp only [e2, if_false]; exact h3
  · intro h
    refine ⟨⟨⟨?_, ?_⟩, ?_⟩, ?_⟩
    · have := h 0 (by omega)
      simp only [ssEq, if_true] at this
      exact this
    · intro j hj
      have := h (j + 1) (by omega)
      have e0 : ¬ j + 1 = 0 := by omega
      have e1 : j + 1 < k := by omega
      simp only [ssEq, if_neg e0, if_pos e1, Nat.add_sub_cancel] at this
      exact this
    · intro j hj
      have := h (k + j) (by omega)
      have e0 : ¬ k + j = 0 := by omega
      have e1 : ¬ k + j < k := by omega
      have e2 : k + j < 2 * k - 1 := by omega
      simp only [ssEq, if_neg e0, if_neg e1, if_pos e2] at this
      exact this
    · have := h (2 * k - 1) (by omega)
      have e0 : ¬ 2 * k - 1 = 0 := by omega
      have e1 : ¬ 2 * k - 1 < k := by omega
      have e2 : ¬ 2 * k - 1 < 2 * k - 1 := by omega
      simp only [ssEq, if_neg e0, if_neg e1, if_neg e2] at this
      exact this

/-- All verification equations of Neff's pair shuffle for `k` pairs, in the order:
    `2k` chain equations of the simple shuffle, `k` ties `X' = A + λB`, `k` ties `Y' = C + λD`,
    `k` equations (33), equation (34), equation (35). -/
def pairEqs (q k g h : Nat) (X Y Xbar Ybar : Nat → Nat) (v : PairView) : List Bool :=
  (List.range (2 * k)).map (ssEq q k g v.Gamma v.sX v.sY v.t v.Theta v.c v.alpha) ++
  (List.range k).map (bindX q g v) ++ (List.range k).map (bindY q v) ++ (List.range k).map (eq33 q v) ++
  [eq345 q k g v v.L1 X Xbar, eq345 q k h v v.L2 Y Ybar]

/-- The equations the verifier checks: all of them (`bound`), or all but the `2k` ties (as coded). -/
def checkedEqs (q k g h : Nat) (X Y Xbar Ybar : Nat → Nat) (bound : Bool) (v : PairView) : List Bool :=
  (List.range (2 * k)).map (ssEq q k g v.Gamma v.sX v.sY v.t v.Theta v.c v.alpha) ++
  (if bound then (List.range k).map (bindX q g v) ++ (List.range k).map (bindY q v) else []) ++
  (List.range k).map (eq33 q v) ++ [eq345 q k g v v.L1 X Xbar, eq345 q k h v v.L2 Y Ybar]

theorem all_map_range (n : Nat) (f : Nat → Bool) :
    ((List.range n).map f).all id = true ↔ ∀ j < n, f j = true := by
  simp [List.all_eq_true]

theorem pairCheck_props (q k g h : Nat) (X Y Xbar Ybar : Nat → Nat) (bound : Bool) (v : PairView) :
    pairCheck q k g h X Y Xbar Ybar bound v = .ok () ↔
      simpleCheck q k g v.Gamma v.sX v.sY v.t v.Theta v.c v.alpha = true ∧
      (bound = true → (List.range k).all (fun i => bindX q g v i && bindY q v i) = true) ∧
      (List.range k).all (eq33 q v) = true ∧
      eq345 q k g v v.L1 X Xbar = true ∧ eq345 q k h v v.L2 Y Ybar = true := by
  unfold pairCheck
  generalize simpleCheck q k g v.Gamma v.sX v.sY v.t v.Theta v.c v.alpha = b1
  generalize (List.range k).all (fun i => bindX q g v i && bindY q v i) = b2
  generalize (List.range k).all (eq33 q v) = b3
  generalize eq345 q k g v v.L1 X Xbar = b4
  generalize eq345 q k h v v.L2 Y Ybar = b5
  cases b1 <;> cases bound <;> cases b2 <;> cases b3 <;> cases b4 <;> cases b5 <;> simp

theorem pairCheck_iff (q k g h : Nat) (hk : 2 ≤ k) (X Y Xbar Ybar : Nat → Nat) (bound : Bool) (v : PairView) :
    pairCheck q k g h X Y Xbar Ybar bound v = .ok () ↔ (checkedEqs q k g h X Y Xbar Ybar bound v).all id = true := by
  rw [pairCheck_props, simpleCheck_iff q k g v.Gamma hk]
  unfold checkedEqs
  simp only [List.all_append, Bool.and_eq_true, all_map_range, List.all_cons, List.all_nil, Bool.and_true, id]
  have hb : (List.range k).all (fun i => bindX q g v i && bindY q v i) = true ↔
      (∀ j < k, bindX q g v j = true) ∧ (∀ j < k, bindY q v j = true) := by
    simp only [List.all_eq_true, List.mem_range, Bool.and_eq_true]
    exact ⟨fun hh => ⟨fun j hj => (hh j hj).1, fun j hj => (hh j hj).2⟩, fun hh j hj => ⟨hh.1 j hj, hh.2 j hj⟩⟩
  have h3 : (List.range k).all (eq33 q v) = true ↔ ∀ j < k, eq33 q v j = true := by
    simp only [List.all_eq_true, List.mem_range]
  rw [hb, h3]
  cases bound
  · simp only [Bool.false_eq_true, false_imp_iff, if_false, List.all_nil, true_and]
    tauto
  · simp only [true_imp_iff, if_true, List.all_append, Bool.and_eq_true, all_map_range]
    tauto

/-- The claimed output is a permutation of re-encryptions of the input under `(G, H)`
    (discrete-log representation, in `ZMod q`). -/
def IsShuffle (q k g h : Nat) (X Y Xbar Ybar : Nat → Nat) : Prop :=
  ∃ (π : Equiv.Perm (Fin k)) (β : Fin k → ZMod q), ∀ i : Fin k,
    (Xbar i : ZMod q) = (X (π i) : ZMod q) + β i * g ∧ (Ybar i : ZMod q) = (Y (π i) : ZMod q) + β i * h

/-- A shuffled slot `i` comes from some input slot `j` with `(X̄_i − X_j)·h = (Ȳ_i − Y_j)·g`. -/
theorem IsShuffle.slot {q k g h : Nat} {X Y Xbar Ybar : Nat → Nat} (hs : IsShuffle q k g h X Y Xbar Ybar)
    (i : Fin k) : ∃ j : Fin k, ((Xbar i : ZMod q) - X j) * h = ((Ybar i : ZMod q) - Y j) * g := by
  obtain ⟨π, β, hβ⟩ := hs
  refine ⟨π i, ?_⟩
  obtain ⟨h1, h2⟩ := hβ i
  rw [h1, h2]; ring

end Kyber.Shuffle
