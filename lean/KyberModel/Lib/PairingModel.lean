import KyberModel.Proto.Pairing
import KyberModel.Props.C02
/-
Helper lemmas for the executable pairing model (C06): casts to `ZMod q`.
-/
namespace Kyber.Pairing
open Kyber.Scalar

variable {q : Nat}

theorem pair_cast (a b : Nat) : ((pair q a b : Nat) : ZMod q) = (a : ZMod q) * b := mul_cast a b

theorem natCast_eq_zero_iff_mod (a : Nat) : ((a : Nat) : ZMod q) = 0 ↔ a % q = 0 := by
  rw [ZMod.natCast_eq_zero_iff, Nat.dvd_iff_mod_eq_zero]

theorem pair_eq_iff (hq : 0 < q) (p1 p2 i1 i2 : Nat) :
    pair q p1 p2 = pair q i1 i2 ↔ (p1 : ZMod q) * p2 = (i1 : ZMod q) * i2 := by
  rw [eq_iff_cast_eq (pair q p1 p2) (pair q i1 i2) (mul_lt hq _ _) (mul_lt hq _ _), pair_cast, pair_cast]

theorem kilicTerm_cast (a b : Nat) : ((kilicTerm q a b : Nat) : ZMod q) = (a : ZMod q) * b := by
  unfold kilicTerm
  split
  · next h =>
    rcases h with h | h
    · rw [(natCast_eq_zero_iff_mod a).mpr h]; simp
    · rw [(natCast_eq_zero_iff_mod b).mpr h]; simp
  · exact pair_cast a b

end Kyber.Pairing
