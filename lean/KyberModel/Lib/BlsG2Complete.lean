import KyberModel.Lib.BlsG2RoundTrip
import KyberModel.Lib.DecodeComplete
import Mathlib.NumberTheory.SumTwoSquares
/-
Completeness of the square root in `Fp2` used by the BLS12-381 G2 decoder (`Groups/BlsG2.lean: sqrtFp2`): every
square has a root that the routine finds, and the root found is `± y`. With `Lib/BlsG2RoundTrip.lean` this gives
`decG2 (encG2 P) = some P` for EVERY valid point of the twist subgroup, not only for decoder outputs.

Proof style (see `Lib/BlsG2Dec.lean`): the modulus is a 381-bit literal; all reasoning is done on casts to
`ZMod p`, hypotheses are taken apart with `by_cases` / `if_pos` / `if_neg`, closed facts come from `decide +kernel`.
-/
namespace Kyber.BlsG2Dec
open Kyber Kyber.BLS12381 Kyber.Fp2 Kyber.TwistModel Kyber.TwistCurves Kyber.DecodeLib

local instance : Fact (Nat.Prime p) := ⟨BLS12381.p_prime⟩

theorem p_gt2 : 2 < p := by norm_num [p]
theorem p_gt1 : 1 < p := by norm_num [p]
theorem p_mod4 : p % 4 = 3 := by decide +kernel

/-- `-1` is not a square modulo `p` (`p ≡ 3 mod 4`). -/
theorem neg_one_not_sq (x : ZMod p) : x ^ 2 ≠ -1 := by
  intro h
  have hsq : IsSquare (-1 : ZMod p) := ⟨x, by rw [← h]; ring⟩
  have := ZMod.exists_sq_eq_neg_one_iff.mp hsq
  exact this p_mod4

/-! ### `sqrtP` -/

theorem sqrtP_sound (a c : Nat) (h : sqrtP a = some c) : c < p ∧ ((c : Nat) : ZMod p) ^ 2 = (a : ZMod p) := by
  refine ⟨sqrtP_lt a c h, ?_⟩
  unfold sqrtP at h
  dsimp only at h
  by_cases h1 : powMod a ((p + 1) / 4) p * powMod a ((p + 1) / 4) p % p = a % p
  · rw [if_pos h1] at h
    have hc := Option.some.inj h
    rw [← hc]
    have := (mod_eq_iff_cast p _ _).mp h1
    push_cast at this
    rw [← this]; ring
  · rw [if_neg h1] at h
    exact absurd h (by simp)

/-- `sqrtP` finds a root of every square; it is `± w`. -/
theorem sqrtP_complete (a : Nat) (w : ZMod p) (ha : ((a : Nat) : ZMod p) = w ^ 2) :
    ∃ c, sqrtP a = some c ∧ c < p ∧ (((c : Nat) : ZMod p) = w ∨ ((c : Nat) : ZMod p) = -w) := by
  have hc : ((powMod a ((p + 1) / 4) p : Nat) : ZMod p) = (w ^ 2) ^ ((p + 1) / 4) := by
    rw [powMod_spec, ha]
  have hsq : ((powMod a ((p + 1) / 4) p : Nat) : ZMod p) ^ 2 = w ^ 2 := by rw [hc, BLS.cand_sq]
  refine ⟨powMod a ((p + 1) / 4) p, ?_, powMod_lt _ _ _ p_gt1, ?_⟩
  · unfold sqrtP
    dsimp only
    rw [if_pos]
    rw [mod_eq_iff_cast]
    push_cast
    rw [ha, ← hsq]; ring
  · have hfac : (((powMod a ((p + 1) / 4) p : Nat) : ZMod p) - w) * (((powMod a ((p + 1) / 4) p : Nat) : ZMod p) + w) = 0 := by
      linear_combination hsq
    rcases mul_eq_zero.mp hfac with h1 | h1
    · left; linear_combination h1
    · right; linear_combination h1

/-- On a non-square `sqrtP` answers `none`. -/
theorem sqrtP_none_of_not_sq (a : Nat) (h : ∀ w : ZMod p, w ^ 2 ≠ (a : ZMod p)) : sqrtP a = none := by
  cases hs : sqrtP a with
  | none => rfl
  | some c => exact absurd (sqrtP_sound a c hs).2 (h _)

/-! ### `chkRoot` -/

theorem chkRoot_of (a x : Fp2.El) (ha : Reduced p a) (h : castEl p x * castEl p x = castEl p a) :
    chkRoot a x = some x := by
  unfold chkRoot
  rw [if_pos]
  apply castEl_injective (reduced_mul p_pos _ _) ha
  rw [cast_mul p_pos, h]

/-! ### the two branches -/

theorem two_ne_zero' : (2 : ZMod p) ≠ 0 := by
  intro h
  have : ((2 : Nat) : ZMod p) = 0 := by exact_mod_cast h
  rw [ZMod.natCast_eq_zero_iff] at this
  have := Nat.le_of_dvd (by norm_num) this
  have := p_gt2
  omega

/-- Real argument `a = (a0, 0) = y²`. -/
theorem sqrtReal_complete (a : Fp2.El) (ha : Reduced p a) (h2 : a.2 = 0) (u v : ZMod p)
    (hre : ((a.1 : Nat) : ZMod p) = u ^ 2 - v ^ 2) (him : 2 * u * v = 0) : (sqrtReal a).isSome = true := by
  have hcast : castEl p a = ⟨(a.1 : ZMod p), 0⟩ := by
    ext
    · rfl
    · show ((a.2 : Nat) : ZMod p) = 0
      rw [h2]; simp
  unfold sqrtReal
  cases hs : sqrtP a.1 with
  | some s =>
    dsimp only
    obtain ⟨_, hss⟩ := sqrtP_sound _ _ hs
    rw [chkRoot_of a (s, 0) ha]
    · rfl
    · rw [hcast]
      ext
      · simp only [castEl, QF.mul_re, Nat.cast_zero, mul_zero, sub_zero]; rw [← hss]; ring
      · simp only [castEl, QF.mul_im, Nat.cast_zero, mul_zero, zero_mul, add_zero]
  | none =>
    dsimp only
    -- then `a0` is not a square, so `u = 0` and `-a0 = v²`
    have hu : u = 0 := by
      by_contra hu
      have hv : v = 0 := by
        have := mul_eq_zero.mp him
        rcases this with h | h
        · rcases mul_eq_zero.mp h with h | h
          · exact absurd h two_ne_zero'
          · exact absurd h hu
        · exact h
      obtain ⟨c, hc, _⟩ := sqrtP_complete a.1 u (by rw [hre, hv]; ring)
      rw [hc] at hs
      exact absurd hs (by simp)
    obtain ⟨s, hs2, hslt, _⟩ := sqrtP_complete (negMod a.1 p) v (by rw [cast_negMod p_pos, hre, hu]; ring)
    rw [hs2]
    dsimp only
    obtain ⟨_, hss⟩ := sqrtP_sound _ _ hs2
    rw [chkRoot_of a (0, s) ha]
    · rfl
    · rw [hcast]
      ext
      · simp only [castEl, QF.mul_re, Nat.cast_zero, mul_zero, zero_sub]
        have : ((s : Nat) : ZMod p) * (s : ZMod p) = -(a.1 : ZMod p) := by
          rw [← cast_negMod p_pos, ← hss]; ring
        rw [this]; ring
      · simp only [castEl, QF.mul_im, Nat.cast_zero, zero_mul, mul_zero, add_zero]

/-- General argument `a = y²` with non-zero imaginary part. -/
theorem sqrtGenWith_complete (inv2 : Nat) (hinv2 : ((inv2 : Nat) : ZMod p) = (2 : ZMod p)⁻¹)
    (a : Fp2.El) (ha : Reduced p a) (u v : ZMod p)
    (hre : ((a.1 : Nat) : ZMod p) = u ^ 2 - v ^ 2) (him : ((a.2 : Nat) : ZMod p) = 2 * u * v)
    (hne : ((a.2 : Nat) : ZMod p) ≠ 0) : (sqrtGenWith inv2 a).isSome = true := by
  have hu : u ≠ 0 := by intro h; apply hne; rw [him, h]; ring
  have hv : v ≠ 0 := by intro h; apply hne; rw [him, h]; ring
  have h2 := two_ne_zero'
  unfold sqrtGenWith
  -- the norm is the square of `u² + v²`
  have hn : (((a.1 * a.1 + a.2 * a.2) % p : Nat) : ZMod p) = (u ^ 2 + v ^ 2) ^ 2 := by
    rw [ZMod.natCast_mod]; push_cast; rw [hre, him]; ring
  obtain ⟨s, hs, _, hsN⟩ := sqrtP_complete _ _ hn
  rw [hs]
  dsimp only
  -- the two candidates for x0²
  have hd1 : (((a.1 + s) % p * inv2 % p : Nat) : ZMod p) = ((a.1 : ZMod p) + (s : ZMod p)) * (2 : ZMod p)⁻¹ := by
    rw [ZMod.natCast_mod]; push_cast; rw [ZMod.natCast_mod, hinv2]; push_cast; ring
  have hd2 : ((subMod a.1 s p * inv2 % p : Nat) : ZMod p) = ((a.1 : ZMod p) - (s : ZMod p)) * (2 : ZMod p)⁻¹ := by
    rw [ZMod.natCast_mod]; push_cast; rw [cast_subMod p_pos, hinv2]
  -- `pickX0` returns `± u`
  have hpick : ∃ x0, pickX0 ((a.1 + s) % p * inv2 % p) (subMod a.1 s p * inv2 % p) = some x0 ∧
      (((x0 : Nat) : ZMod p) = u ∨ ((x0 : Nat) : ZMod p) = -u) := by
    unfold pickX0
    rcases hsN with hsp | hsm
    · -- s = u² + v²: the first candidate is u²
      obtain ⟨x0, hx, _, hx0⟩ := sqrtP_complete ((a.1 + s) % p * inv2 % p) u (by
        rw [hd1, hre, hsp]; field_simp; ring)
      rw [hx]
      exact ⟨x0, rfl, hx0⟩
    · -- s = -(u² + v²): the first candidate is -v², not a square; the second is u²
      have hnone : sqrtP ((a.1 + s) % p * inv2 % p) = none := by
        apply sqrtP_none_of_not_sq
        intro w hw
        rw [hd1, hre, hsm] at hw
        have hw' : w ^ 2 = -(v ^ 2) := by rw [hw]; field_simp; ring
        apply neg_one_not_sq (w * v⁻¹)
        rw [mul_pow, hw']; field_simp
      rw [hnone]
      dsimp only
      obtain ⟨x0, hx, _, hx0⟩ := sqrtP_complete (subMod a.1 s p * inv2 % p) u (by
        rw [hd2, hre, hsm]; field_simp; ring)
      exact ⟨x0, hx, hx0⟩
  obtain ⟨x0, hx, hx0⟩ := hpick
  rw [hx]
  dsimp only
  have hx0ne : ((x0 : Nat) : ZMod p) ≠ 0 := by
    rcases hx0 with h | h <;> rw [h] <;> simpa using hu
  have hx1 : ((a.2 * invMod (2 * x0 % p) p % p : Nat) : ZMod p) = (a.2 : ZMod p) * (2 * (x0 : ZMod p))⁻¹ := by
    rw [ZMod.natCast_mod]; push_cast; rw [cast_invMod p_gt2, ZMod.natCast_mod]; push_cast; ring
  rw [chkRoot_of a _ ha]
  · rfl
  · ext
    · simp only [castEl, QF.mul_re]
      rw [hx1, hre, him]
      rcases hx0 with h | h <;> rw [h] <;> field_simp <;> ring
    · simp only [castEl, QF.mul_im]
      rw [hx1, him]
      rcases hx0 with h | h <;> rw [h] <;> field_simp <;> ring

theorem sqrtGen_complete (a : Fp2.El) (ha : Reduced p a) (u v : ZMod p)
    (hre : ((a.1 : Nat) : ZMod p) = u ^ 2 - v ^ 2) (him : ((a.2 : Nat) : ZMod p) = 2 * u * v)
    (hne : ((a.2 : Nat) : ZMod p) ≠ 0) : (sqrtGen a).isSome = true :=
  sqrtGenWith_complete _ (by rw [cast_invMod p_gt2]; norm_num) a ha u v hre him hne

/-- **Every square has a root that `sqrtFp2` finds.** -/
theorem sqrtFp2_complete (y : Fp2.El) : (sqrtFp2 (Fp2.mul p y y)).isSome = true := by
  have hred : Reduced p (Fp2.mul p y y) := reduced_mul p_pos _ _
  have hc := cast_mul p_pos y y
  have hre : (((Fp2.mul p y y).1 : Nat) : ZMod p) = (y.1 : ZMod p) ^ 2 - (y.2 : ZMod p) ^ 2 := by
    have := congrArg QF.re hc
    simp only [castEl, QF.mul_re] at this
    rw [this]; ring
  have him : (((Fp2.mul p y y).2 : Nat) : ZMod p) = 2 * (y.1 : ZMod p) * (y.2 : ZMod p) := by
    have := congrArg QF.im hc
    simp only [castEl, QF.mul_im] at this
    rw [this]; ring
  unfold sqrtFp2
  rw [red_eq_of_reduced hred]
  by_cases h0 : (Fp2.mul p y y).2 = 0
  · rw [if_pos h0]
    apply sqrtReal_complete _ hred h0 _ _ hre
    rw [← him, h0]; simp
  · rw [if_neg h0]
    apply sqrtGen_complete _ hred _ _ hre him
    intro hz
    rw [ZMod.natCast_eq_zero_iff] at hz
    exact h0 (Nat.eq_zero_of_dvd_of_lt hz hred.2)

/-! ### the round trip of every valid point -/

local instance : Fact (Nat.Prime twist.p) := blsg2_prime
local instance : Fact (twist.p % 4 = 3) := blsg2_34

theorem neg_neg_el (y : Fp2.El) (hy : Reduced p y) : Fp2.neg p (Fp2.neg p y) = y := by
  apply castEl_injective (reduced_neg p_pos _) hy
  rw [cast_neg p_pos, cast_neg p_pos, neg_neg]

/-- Two reduced elements with the same square differ by sign. -/
theorem eq_or_neg_of_sq (y0 y : Fp2.El) (h0 : Reduced p y0) (hy : Reduced p y)
    (h : Fp2.mul p y0 y0 = Fp2.mul p y y) : y0 = y ∨ y0 = Fp2.neg p y := by
  have hc : castEl twist.p y0 * castEl twist.p y0 = castEl twist.p y * castEl twist.p y := by
    have := congrArg (castEl p) h
    rw [cast_mul p_pos, cast_mul p_pos] at this
    exact this
  have hfac : (castEl twist.p y0 - castEl twist.p y) * (castEl twist.p y0 + castEl twist.p y) = 0 := by
    linear_combination hc
  rcases mul_eq_zero.mp hfac with h1 | h1
  · left
    apply castEl_injective h0 hy
    show castEl twist.p y0 = castEl twist.p y
    linear_combination h1
  · right
    apply castEl_injective h0 (reduced_neg p_pos _)
    rw [cast_neg p_pos]
    show castEl twist.p y0 = -castEl twist.p y
    linear_combination h1

/-- The flag of `y` selects `y` again from whichever root was found. -/
theorem selectRoot_of (y y0 : Fp2.El) (hy : Reduced p y) (h : y0 = y ∨ y0 = Fp2.neg p y) :
    selectRoot (largerRoot y) y0 = y := by
  unfold selectRoot
  rcases h with h | h
  · rw [h, if_pos rfl]
  · rw [h]
    by_cases hz : y.1 = 0 ∧ y.2 = 0
    · rw [neg_zero_el y hz, if_pos rfl]
    · rw [largerRoot_neg y hy hz]
      have : ¬ ((!largerRoot y) = largerRoot y) := by cases largerRoot y <;> simp
      rw [if_neg this, neg_neg_el y hy]

/-- **Round trip of every valid point of the subgroup**: reduced coordinates, on the twist, killed by `r`. -/
theorem decG2_enc_of_valid (P : Fp2.Pt) (hv : Valid twist P) (hr : Fp2.smul twist r P = none) :
    decG2 (encG2 P) = some P := by
  cases P with
  | none => decide +kernel
  | some xy =>
    obtain ⟨x, y⟩ := xy
    obtain ⟨hx, hy, hon⟩ := hv
    have hxr : x.1 < p := hx.1
    have hxi : x.2 < p := hx.2
    have hcurve : Fp2.mul p y y = rhsG2 x := by
      have := hon
      unfold Fp2.onCurve at this
      rw [beq_iff_eq, twistB_reduced] at this
      exact this
    have hsome := sqrtFp2_complete y
    rw [hcurve] at hsome
    cases hs : sqrtFp2 (rhsG2 x) with
    | none => rw [hs] at hsome; exact absurd hsome (by simp)
    | some y0 =>
      obtain ⟨hred0, hsq0⟩ := sqrtFp2_sound _ _ hs
      have hsq : Fp2.mul p y0 y0 = Fp2.mul p y y := by
        rw [hsq0, ← hcurve, red_eq_of_reduced (reduced_mul p_pos _ _)]
      have hfix : selectRoot (largerRoot y) y0 = y := selectRoot_of y y0 hy (eq_or_neg_of_sq y0 y hred0 hy hsq)
      have hx48 : x.1 < 256 ^ 48 := by have := p_lt32; omega
      have hr' : Fp2.smul twist r (some ((x.1, x.2), selectRoot (largerRoot y) y0)) = none := by
        rw [hfix]; exact hr
      rw [encG2_some x y hxi, decG2_compressed x.1 x.2 hxi (largerRoot y), decodeBE_encodeBE_of_lt 48 x.1 hx48,
        decG2Affine_of (largerRoot y) x.1 x.2 y0 hxi hxr hs hr', hfix]

end Kyber.BlsG2Dec
